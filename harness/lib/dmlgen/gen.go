// Package dmlgen holds the seeded generators of table schemas and DML histories for the
// data-modification properties (C13, C14, C16, C19, C20).  Everything stays inside the interpreted
// fragment of spec/SQLSem.tla / spec/SQLTables.tla: INT and VARCHAR(32) columns under
// utf8mb4_0900_bin / utf8mb4_0900_ai_ci, strings over [0-9A-Za-z], small integers, comparisons
// within one family, ORDER BY only over the full primary key (no ties), LIMIT only with ORDER BY.
// Histories emphasise key collisions: values are re-used from earlier statements, multi-row
// statements collide inside the statement, updates swap keys.
//
// Generator guarantees the specification relies on (documented in spec/SQLTables.tla):
//   - UPDATE IGNORE that assigns a key / unique column carries ORDER BY <primary key>;
//   - the AUTO_INCREMENT column is never assigned by UPDATE or ON DUPLICATE KEY UPDATE;
//   - generated columns are never insert / update targets and reference base columns only;
//   - an index name is created at most once and only plain (non-unique) or initial indexes are dropped.
package dmlgen

import (
	"fmt"
	"math/rand"
	"sort"

	. "gmsverif/lib/dmlast"
	"gmsverif/lib/sqlast"
)

// Profile selects the schema features and the statement mix of one property's histories.
type Profile struct {
	Name   string
	Tables int
	// schema
	PKNone, PKSingle, PKComposite int // weights
	StrKeyP                       float64
	CIP                           float64 // a string column is _ai_ci
	UniqP, UniqMultiP, PrefixP    float64
	PrefixFam                     float64 // a table gets a unique key with a prefix length of 2..4 over a string column fed from prefixPool
	IdxP                          float64 // plain secondary indexes
	NotNullP, DefaultP, CheckP    float64
	GenP                          float64
	// GenWide (C19): generated columns over several base columns, a second generated column, VIRTUAL ones
	// (VirtualP), CHECKs that read generated columns (GenCheckP), ON DUPLICATE KEY UPDATE / UPDATE aimed at the
	// base columns those generated columns read, up to three assignments per UPDATE, INSERT .. SELECT ("inssel")
	GenWide             bool
	VirtualP, GenCheckP float64
	Auto                bool
	// statements: weights
	W map[string]int
	// values
	ReuseP      float64 // take a value already used in that column
	NullP       float64
	NullNotNull float64 // NULL into a NOT NULL column
	OmitP       float64 // leave omittable columns out of the column list
	KeyUpdP     float64 // UPDATE assigns a key column
	Probes      bool
	MinLen      int
	MaxLen      int
	// steering around the known findings (probability of still producing the shape)
	BadPrinted float64 // composite keys whose printed forms can collide ((1,11) / (11,1))
	BadCI      float64 // case variants of one string in an _ai_ci key
	BadBail    float64 // one unique-key value in several rows of one REPLACE / ON DUPLICATE KEY UPDATE statement
}

var base = map[string]int{"insert": 30, "ignore": 8, "replace": 8, "odku": 8, "update": 22, "updignore": 4, "delete": 12, "truncate": 1}

func wts(over map[string]int) map[string]int {
	m := map[string]int{}
	for k, v := range base {
		m[k] = v
	}
	for k, v := range over {
		m[k] = v
	}
	return m
}

// Profiles by property.
func ProfileFor(name string) Profile {
	switch name {
	case "c13":
		return Profile{Name: name, Tables: 2, PKNone: 3, PKSingle: 4, PKComposite: 3, StrKeyP: 0.35, CIP: 0.4, UniqP: 0.5, UniqMultiP: 0.3,
			PrefixP: 0.15, IdxP: 0.2, NotNullP: 0.15, DefaultP: 0.2, W: wts(nil), ReuseP: 0.55, NullP: 0.15, OmitP: 0.3, KeyUpdP: 0.35,
			MinLen: 10, MaxLen: 40, BadPrinted: 0.04, BadCI: 0.04, BadBail: 0.05}
	case "c14":
		return Profile{Name: name, Tables: 2, PKNone: 1, PKSingle: 4, PKComposite: 5, StrKeyP: 0.5, CIP: 0.5, UniqP: 0.8, UniqMultiP: 0.4,
			PrefixP: 0.3, PrefixFam: 0.45, NotNullP: 0.1, DefaultP: 0.1, W: wts(map[string]int{"insert": 34, "replace": 10, "odku": 10, "update": 26, "delete": 8}),
			ReuseP: 0.7, NullP: 0.2, OmitP: 0.15, KeyUpdP: 0.7, MinLen: 10, MaxLen: 40, BadPrinted: 0.05, BadCI: 0.05, BadBail: 0.08}
	case "c16":
		return Profile{Name: name, Tables: 1, PKNone: 2, PKSingle: 5, PKComposite: 3, StrKeyP: 0.4, CIP: 0.4, UniqP: 0.6, UniqMultiP: 0.4,
			PrefixP: 0.3, IdxP: 0.9, NotNullP: 0.1, DefaultP: 0.1,
			W:      wts(map[string]int{"createindex": 6, "dropindex": 4, "truncate": 2, "replace": 12, "delete": 16}),
			ReuseP: 0.5, NullP: 0.2, OmitP: 0.2, KeyUpdP: 0.4, Probes: true, MinLen: 20, MaxLen: 40}
	case "c19":
		return Profile{Name: name, Tables: 1, PKNone: 1, PKSingle: 6, PKComposite: 3, StrKeyP: 0.2, CIP: 0.4, UniqP: 0.3, UniqMultiP: 0.2,
			NotNullP: 0.45, DefaultP: 0.5, CheckP: 0.8, GenP: 0.92, GenWide: true, VirtualP: 0.12, GenCheckP: 0.6,
			W:      wts(map[string]int{"insert": 26, "ignore": 14, "updignore": 8, "odku": 22, "replace": 8, "inssel": 8, "delete": 10}),
			ReuseP: 0.4, NullP: 0.25, NullNotNull: 0.12, OmitP: 0.5, KeyUpdP: 0.15, MinLen: 10, MaxLen: 40}
	case "c20":
		return Profile{Name: name, Tables: 1, PKSingle: 1, UniqP: 1, NotNullP: 0.1, DefaultP: 0.2, Auto: true,
			W:      map[string]int{"insert": 40, "ignore": 12, "replace": 1, "update": 8, "delete": 16, "truncate": 2, "alterauto": 6, "lastid": 14},
			ReuseP: 0.5, NullP: 0.2, OmitP: 0.5, MinLen: 10, MaxLen: 34}
	}
	panic("unknown profile " + name)
}

// History is one generated case: tables and the statements run against them.
type History struct {
	Names  []string
	Tables map[string]*Table
	Stmts  []*Stmt
}

type Gen struct {
	R      *rand.Rand
	P      Profile
	H      *History
	seen   map[string][]Value // table.col -> literal values used so far
	nidx   int
	nalter int
	queue  []*Stmt        // statements of a started multi-statement scenario (emitted before anything new is drawn)
	top    map[string]int // table -> upper bound of every AUTO_INCREMENT value stored or handed out so far
}

func New(seed int64, p Profile) *Gen {
	return &Gen{R: rand.New(rand.NewSource(seed)), P: p, seen: map[string][]Value{}, top: map[string]int{}}
}

func (g *Gen) chance(p float64) bool { return g.R.Float64() < p }
func (g *Gen) pick(n int) int        { return g.R.Intn(n) }

func (g *Gen) weighted(w map[string]int) string {
	keys := make([]string, 0, len(w))
	tot := 0
	for k, v := range w {
		if v > 0 {
			keys = append(keys, k)
			tot += v
		}
	}
	sort.Strings(keys)
	x := g.pick(tot)
	for _, k := range keys {
		x -= w[k]
		if x < 0 {
			return k
		}
	}
	return keys[0]
}

var (
	intsPlain  = []int{0, 1, 2, 3, 4, 5, 6, 7}
	intsDigit  = []int{1, 2, 3, 4, 5, 6, 7, 8, 9}
	intsPrint  = []int{1, 11, 111, 2, 12, 21}
	strsPlain  = []string{"a", "b", "c", "ab", "abc", "abd", "x", "b2"}
	strsCase   = []string{"a", "A", "b", "B", "ab", "Ab", "aB", "abc", "ABC", "abd"}
	strsLetter = []string{"a", "b", "c", "d", "e"}
	strsLetCas = []string{"a", "A", "b", "B", "c"}
	strsPrint  = []string{"1", "11", "a", "aa", "1a", "a1"}
)

// ---------------------------------------------------------------- schema

type colRole struct {
	inPK, inKey, composite bool
	plen                   int  // largest prefix length a unique key declares on the column (0 = none)
	mate                   bool // the column shares a unique key with a prefix part (few values, so that the prefix part decides)
}

func (g *Gen) Schema() *History {
	h := &History{Tables: map[string]*Table{}}
	g.H = h
	for i := 0; i < g.P.Tables; i++ {
		name := fmt.Sprintf("t%d", i+1)
		h.Names = append(h.Names, name)
		h.Tables[name] = g.table(name)
	}
	return h
}

func (g *Gen) table(name string) *Table {
	p := g.P
	if p.Auto {
		return g.autoTable()
	}
	t := &Table{}
	n := 3 + g.pick(3)
	intP := 0.55
	if p.GenWide {
		// room for base columns that generated columns read and statements can assign
		n, intP = 4+g.pick(2), 0.7
	}
	for i := 0; i < n; i++ {
		if g.chance(intP) {
			t.Cols = append(t.Cols, IntCol())
		} else if g.chance(p.CIP) {
			t.Cols = append(t.Cols, StrCol("ci"))
		} else {
			t.Cols = append(t.Cols, StrCol("bin"))
		}
	}
	kind := g.weighted(map[string]int{"none": p.PKNone, "single": p.PKSingle, "comp": p.PKComposite})
	switch kind {
	case "single":
		t.PK = []int{1}
	case "comp":
		t.PK = []int{1, 2}
		if n > 3 && g.chance(0.25) {
			t.PK = []int{1, 2, 3}
		}
	}
	for _, k := range t.PK {
		c := &t.Cols[k-1]
		if g.chance(p.StrKeyP) {
			*c = StrCol("bin")
			if g.chance(p.CIP) {
				c.Coll = "ci"
			}
		} else {
			*c = IntCol()
		}
		c.NotNull = true
	}
	rest := []int{}
	for i := len(t.PK) + 1; i <= n; i++ {
		rest = append(rest, i)
	}
	g.R.Shuffle(len(rest), func(i, j int) { rest[i], rest[j] = rest[j], rest[i] })
	used := 0
	nu := 0
	if p.PrefixFam > 0 && len(rest) > 0 && g.chance(p.PrefixFam) {
		// UNIQUE KEY (c(n)), n in 2..4, over a string column whose values come from prefixPool(n):
		// shorter than, as long as and longer than n, sharing prefixes; alone or behind an INT column
		c := rest[0]
		coll := "bin"
		if g.chance(p.CIP * 0.6) {
			coll = "ci"
		}
		t.Cols[c-1] = StrCol(coll)
		parts := []KeyPart{{Col: c, Plen: 2 + g.pick(3)}}
		used = 1
		if len(rest) > 1 && g.chance(0.25) {
			t.Cols[rest[1]-1] = IntCol()
			parts = []KeyPart{{Col: rest[1]}, parts[0]}
			used = 2
		}
		nu = 1
		t.Uniq = append(t.Uniq, Index{Name: "u1", Parts: parts})
	}
	for used < len(rest) && nu < 2 && g.chance(p.UniqP) {
		parts := []KeyPart{{Col: rest[used]}}
		used++
		if used < len(rest) && g.chance(p.UniqMultiP) {
			parts = append(parts, KeyPart{Col: rest[used]})
			used++
		}
		for i := range parts {
			if t.Cols[parts[i].Col-1].Ty == "s" && g.chance(p.PrefixP*2) {
				parts[i].Plen = 1 + g.pick(2)
			}
		}
		nu++
		t.Uniq = append(t.Uniq, Index{Name: fmt.Sprintf("u%d", nu), Parts: parts})
	}
	// plain secondary indexes may overlap anything
	for k := 0; k < 3; k++ {
		if g.chance(p.IdxP) {
			t.Idx = append(t.Idx, Index{Name: g.idxName(), Parts: g.idxParts(t)})
		}
	}
	inKey := map[int]bool{}
	for _, k := range t.PK {
		inKey[k] = true
	}
	for _, u := range t.Uniq {
		for _, pt := range u.Parts {
			inKey[pt.Col] = true
		}
	}
	// NOT NULL / defaults on non-PK columns
	for i := len(t.PK); i < n; i++ {
		c := &t.Cols[i]
		if g.chance(p.NotNullP) {
			c.NotNull = true
		}
		if g.chance(p.DefaultP) {
			c.HasDef = true
			c.Def = g.poolValueRole(*c, g.roleOf(t, i+1))
		}
	}
	// one stored generated column (never part of a key), over base columns
	if g.chance(p.GenP) {
		cands := []int{}
		for i := len(t.PK) + 1; i <= n; i++ {
			if !inKey[i] {
				cands = append(cands, i)
			}
		}
		if len(cands) > 0 {
			gi := cands[g.pick(len(cands))]
			c := &t.Cols[gi-1]
			if p.GenWide {
				// take a candidate that has something to read (an INT column with another INT base column, ..)
				for _, x := range cands {
					if t.Cols[gi-1].Ty == "i" && len(g.baseCols(t, "i", gi)) > 0 {
						break
					}
					if t.Cols[x-1].Ty == "i" && len(g.baseCols(t, "i", x)) > 0 {
						gi = x
					}
				}
				c = &t.Cols[gi-1]
			}
			c.HasDef, c.Def, c.NotNull = false, sqlast.Null(), false
			if e := g.genExpr(t, gi); e != nil {
				c.HasGen, c.Gen = true, e
				c.Virtual = p.GenWide && g.chance(p.VirtualP)
			}
			if p.GenWide && len(cands) > 1 && g.chance(0.4) {
				// a second generated column (it reads base columns only, never the first one)
				g2 := cands[g.pick(len(cands))]
				c2 := &t.Cols[g2-1]
				if g2 != gi && !(c.HasGen && RefersTo(c.Gen, map[int]bool{g2: true})) && len(g.baseCols(t, c2.Ty, g2)) > 0 {
					saved := *c2
					c2.HasDef, c2.Def, c2.NotNull = false, sqlast.Null(), false
					c2.HasGen = true // so that genExpr does not read it
					if e := g.genExpr(t, g2); e != nil {
						c2.Gen = e
						c2.Virtual = g.chance(p.VirtualP)
					} else {
						*c2 = saved
					}
				}
			}
		}
	}
	nc := 0
	for nc < 2 && g.chance(p.CheckP) {
		if e := g.checkExpr(t); e != nil {
			t.Checks = append(t.Checks, e)
		}
		nc++
	}
	if p.GenWide && g.chance(0.75) {
		// mostly at least one CHECK reads a generated column
		genCols := map[int]bool{}
		for i, c := range t.Cols {
			if c.HasGen {
				genCols[i+1] = true
			}
		}
		reads := false
		for _, ck := range t.Checks {
			reads = reads || RefersTo(ck, genCols)
		}
		if len(genCols) > 0 && !reads {
			if e := g.genCheckExpr(t); e != nil {
				if len(t.Checks) >= 2 {
					t.Checks = t.Checks[:1]
				}
				t.Checks = append(t.Checks, e)
			}
		}
	}
	return t.Fix()
}

func (g *Gen) autoTable() *Table {
	t := &Table{}
	id := IntCol()
	id.NotNull, id.Auto = true, true
	t.Cols = []Col{id, IntCol(), StrCol("bin")}
	if g.chance(0.5) {
		t.Cols = append(t.Cols, IntCol())
	}
	t.Uniq = []Index{{Name: "u1", Parts: []KeyPart{{Col: 2}}}}
	// the key MySQL demands on the AUTO_INCREMENT column: the primary key, a unique key or a plain key
	// (with a plain key the table is keyless for the specification and equal ids are storable)
	switch g.pick(4) {
	case 0:
		t.Uniq = append(t.Uniq, Index{Name: "ua", Parts: []KeyPart{{Col: 1}}})
	case 1:
		t.Idx = []Index{{Name: "ia", Parts: []KeyPart{{Col: 1}}}}
	default:
		t.PK = []int{1}
	}
	if g.chance(g.P.DefaultP) {
		t.Cols[2].HasDef, t.Cols[2].Def = true, sqlast.Str("d")
	}
	return t.Fix()
}

func (g *Gen) idxName() string {
	g.nidx++
	return fmt.Sprintf("i%d", g.nidx)
}

func (g *Gen) idxParts(t *Table) []KeyPart {
	n := len(t.Cols)
	a := 1 + g.pick(n)
	parts := []KeyPart{{Col: a}}
	if g.chance(0.35) {
		b := 1 + g.pick(n)
		if b != a {
			parts = append(parts, KeyPart{Col: b})
		}
	}
	for i := range parts {
		if t.Cols[parts[i].Col-1].Ty == "s" && g.chance(g.P.PrefixP) {
			parts[i].Plen = 1 + g.pick(2)
		}
	}
	return parts
}

func (g *Gen) baseCols(t *Table, ty string, except int) []int {
	var out []int
	for i, c := range t.Cols {
		if i+1 != except && !c.HasGen && c.Ty == ty {
			out = append(out, i+1)
		}
	}
	return out
}

func (g *Gen) genExpr(t *Table, gi int) *Expr {
	c := t.Cols[gi-1]
	src := g.baseCols(t, c.Ty, gi)
	if g.P.GenWide {
		// read assignable columns (UPDATE / ON DUPLICATE KEY UPDATE never assign primary-key columns here)
		var free []int
		for _, x := range src {
			if !g.roleOf(t, x).inPK {
				free = append(free, x)
			}
		}
		if len(free) > 0 {
			src = free
		}
	}
	if len(src) == 0 {
		return nil
	}
	a := src[g.pick(len(src))]
	ra := ColRef(a, t.Cols[a-1])
	if c.Ty == "i" && g.P.GenWide && len(src) > 1 && g.chance(0.6) {
		// over two different base columns; minus makes the value move both ways
		b := src[g.pick(len(src))]
		for b == a {
			b = src[g.pick(len(src))]
		}
		rb := ColRef(b, t.Cols[b-1])
		switch g.pick(4) {
		case 0:
			return sqlast.Op("minus", ra, rb)
		case 1:
			return sqlast.Op("plus", ra, rb)
		case 2:
			return sqlast.Op("minus", sqlast.Fn("coalesce", ra, Lit(sqlast.Int(0))), sqlast.Fn("coalesce", rb, Lit(sqlast.Int(0))))
		default:
			return sqlast.Op("plus", sqlast.Op("times", ra, Lit(sqlast.Int(2))), sqlast.Fn("coalesce", rb, Lit(sqlast.Int(1))))
		}
	}
	if c.Ty == "i" {
		switch g.pick(3) {
		case 0:
			return sqlast.Op("plus", ra, Lit(sqlast.Int(1)))
		case 1:
			return sqlast.Op("times", ra, Lit(sqlast.Int(2)))
		default:
			b := src[g.pick(len(src))]
			return sqlast.Op("plus", sqlast.Fn("coalesce", ra, Lit(sqlast.Int(0))), sqlast.Fn("coalesce", ColRef(b, t.Cols[b-1]), Lit(sqlast.Int(0))))
		}
	}
	// a string expression must carry the column's own collation: use a source of the same collation
	var same []int
	for _, s := range src {
		if t.Cols[s-1].Coll == c.Coll {
			same = append(same, s)
		}
	}
	if len(same) == 0 {
		return nil
	}
	a = same[g.pick(len(same))]
	ra = ColRef(a, t.Cols[a-1])
	switch g.pick(3) {
	case 0:
		return sqlast.Fn("upper", ra)
	case 1:
		return sqlast.Fn("concat", ra, Lit(sqlast.Str("x")))
	default:
		return sqlast.Fn("left", ra, Lit(sqlast.Int(1)))
	}
}

// genCheckExpr: a CHECK that reads a generated column (thresholds that most rows satisfy and some do not).
func (g *Gen) genCheckExpr(t *Table) *Expr {
	var gens []int
	for i, c := range t.Cols {
		if c.HasGen {
			gens = append(gens, i+1)
		}
	}
	if len(gens) == 0 {
		return nil
	}
	a := gens[g.pick(len(gens))]
	ca := t.Cols[a-1]
	ra := ColRef(a, ca)
	if ca.Ty == "i" {
		// bounds that the rows built from the ordinary value pool (0..7) mostly satisfy and that the far values
		// of farExpr (ON DUPLICATE KEY UPDATE / UPDATE of a column the generated column reads) mostly break
		switch x := g.pick(10); {
		case x < 2:
			return sqlast.Op("ge", ra, Lit(sqlast.Int(-4-g.pick(3))))
		case x < 4:
			return sqlast.Op("le", ra, Lit(sqlast.Int(11+g.pick(5))))
		case x < 5:
			return sqlast.Op("ne", ra, Lit(sqlast.Int(2+g.pick(6))))
		case x < 9:
			return sqlast.Op("between", ra, Lit(sqlast.Int(-4-g.pick(3))), Lit(sqlast.Int(11+g.pick(5))))
		default:
			// against a base column the generated column does not read
			var o []int
			for _, b := range g.baseCols(t, "i", a) {
				if !RefersTo(ca.Gen, map[int]bool{b: true}) {
					o = append(o, b)
				}
			}
			if len(o) > 0 {
				b := o[g.pick(len(o))]
				return sqlast.Op("le", ra, sqlast.Op("plus", ColRef(b, t.Cols[b-1]), Lit(sqlast.Int(9))))
			}
			return sqlast.Op("le", ra, Lit(sqlast.Int(13)))
		}
	}
	switch g.pick(3) {
	case 0:
		return sqlast.Op("le", sqlast.Fn("char_length", ra), Lit(sqlast.Int(2+g.pick(2))))
	case 1:
		return sqlast.Op("ne", ra, Lit(sqlast.Str([]string{"A", "AB", "ax", "a", "B"}[g.pick(5)])))
	default:
		return sqlast.Op("ne", sqlast.Fn("left", ra, Lit(sqlast.Int(1))), Lit(sqlast.Str([]string{"b", "B", "x"}[g.pick(3)])))
	}
}

// farExpr: a new value for an INT column that lies well outside the ordinary pool (or moves the column far).
func (g *Gen) farExpr(c int, col Col) *Expr {
	switch g.pick(4) {
	case 0:
		return Lit(sqlast.Int(9 + g.pick(8)))
	case 1:
		return Lit(sqlast.Int(-2 - g.pick(8)))
	case 2:
		return sqlast.Op("plus", ColRef(c, col), Lit(sqlast.Int(5+g.pick(5))))
	default:
		return sqlast.Op("minus", ColRef(c, col), Lit(sqlast.Int(5+g.pick(5))))
	}
}

func (g *Gen) checkExpr(t *Table) *Expr {
	if g.P.GenWide && g.chance(g.P.GenCheckP) {
		if e := g.genCheckExpr(t); e != nil {
			return e
		}
	}
	var cands []int
	for i, c := range t.Cols {
		if !c.HasGen && !c.Auto {
			cands = append(cands, i+1)
		}
	}
	a := cands[g.pick(len(cands))]
	ca := t.Cols[a-1]
	ra := ColRef(a, ca)
	if ca.Ty == "i" {
		switch g.pick(3) {
		case 0:
			return sqlast.Op("ge", ra, Lit(sqlast.Int(g.pick(3))))
		case 1:
			return sqlast.Op("ne", ra, Lit(sqlast.Int(2+g.pick(4))))
		default:
			o := g.baseCols(t, "i", a)
			if len(o) == 0 {
				return sqlast.Op("le", ra, Lit(sqlast.Int(6)))
			}
			b := o[g.pick(len(o))]
			return sqlast.Op("le", ra, sqlast.Op("plus", ColRef(b, t.Cols[b-1]), Lit(sqlast.Int(3))))
		}
	}
	switch g.pick(2) {
	case 0:
		return sqlast.Op("ne", ra, Lit(sqlast.Str([]string{"b", "ab", "x"}[g.pick(3)])))
	default:
		return sqlast.Op("le", sqlast.Fn("char_length", ra), Lit(sqlast.Int(2)))
	}
}

// ---------------------------------------------------------------- values

func (g *Gen) roleOf(t *Table, col int) colRole {
	r := colRole{}
	for _, k := range t.PK {
		if k == col {
			r.inPK, r.inKey = true, true
			r.composite = len(t.PK) > 1
		}
	}
	for _, u := range t.Uniq {
		for _, p := range u.Parts {
			if p.Col == col {
				r.inKey = true
				if len(u.Parts) > 1 {
					r.composite = true
				}
				if p.Plen > r.plen {
					r.plen = p.Plen
				}
				for _, o := range u.Parts {
					if o.Col != col && o.Plen > 0 {
						r.mate = true
					}
				}
			}
		}
	}
	return r
}

// poolValue draws a fresh non-NULL literal for a column; keyed says the column is part of a key.
func (g *Gen) poolValue(c Col, keyed bool) Value {
	return g.poolValueRole(c, colRole{inKey: keyed})
}

// prefixPool: strings around the prefix length n of a unique key (stem "abcdef"): proper prefixes of
// the stem that are SHORTER than n, the stem cut at n, LONGER strings with the same first n characters
// that differ only behind the prefix, strings that differ inside the prefix, and unrelated ones.
func (g *Gen) prefixPool(n int, ci bool) string {
	const stem = "abcdefgh"
	x := g.pick(100)
	var s string
	switch {
	case x < 30: // shorter than the prefix (n >= 2): 'a', 'ab', ..
		s = stem[:1+g.pick(n-1)]
	case x < 42: // exactly the prefix
		s = stem[:n]
	case x < 75: // longer, same prefix
		s = stem[:n] + []string{stem[n : n+1], stem[n : n+2], "X", "Y", "XY", "Xb"}[g.pick(6)]
	case x < 87: // differs inside the prefix (shares a shorter one)
		k := g.pick(n)
		s = stem[:k] + "x" + []string{"", stem[k+1 : n], stem[k+1 : n+1]}[g.pick(3)]
	case x < 92:
		s = ""
	default:
		s = []string{"b", "ba", "bcd"}[g.pick(3)]
	}
	if ci && g.chance(g.P.BadCI) && len(s) > 0 {
		// a case variant inside the prefix: the known finding "keys compare _ai_ci columns byte-wise"
		s = string(s[0]-32) + s[1:]
	}
	return s
}

func (g *Gen) poolValueRole(c Col, r colRole) Value {
	if c.Ty == "s" && r.plen >= 2 && g.P.PrefixFam > 0 {
		if !r.composite || g.chance(0.85) {
			return sqlast.Str(g.prefixPool(r.plen, c.Coll == "ci"))
		}
	}
	if c.Ty == "i" && r.mate && !r.inPK && g.P.PrefixFam > 0 {
		return sqlast.Int(1 + g.pick(2))
	}
	if c.Ty == "i" {
		if c.Auto {
			return sqlast.Int(1 + g.pick(20))
		}
		if r.composite {
			if g.chance(g.P.BadPrinted) {
				return sqlast.Int(intsPrint[g.pick(len(intsPrint))])
			}
			return sqlast.Int(intsDigit[g.pick(len(intsDigit))])
		}
		return sqlast.Int(intsPlain[g.pick(len(intsPlain))])
	}
	if r.composite {
		if g.chance(g.P.BadPrinted) {
			return sqlast.Str(strsPrint[g.pick(len(strsPrint))])
		}
		if c.Coll == "ci" && r.inKey && !g.chance(g.P.BadCI) {
			return sqlast.Str(strsLetter[g.pick(len(strsLetter))])
		}
		return sqlast.Str(strsLetCas[g.pick(len(strsLetCas))])
	}
	if c.Coll == "ci" && r.inKey && !g.chance(g.P.BadCI) {
		return sqlast.Str(strsPlain[g.pick(len(strsPlain))])
	}
	return sqlast.Str(strsCase[g.pick(len(strsCase))])
}

// value draws a literal for column col of table tn: often one already used in that column.
func (g *Gen) value(tn string, t *Table, col int, allowNull bool) Value {
	c := t.Cols[col-1]
	if allowNull {
		if c.NotNull {
			if g.chance(g.P.NullNotNull) {
				return sqlast.Null()
			}
		} else if g.chance(g.P.NullP) {
			return sqlast.Null()
		}
	}
	key := fmt.Sprintf("%s.%d", tn, col)
	reuse := g.P.ReuseP
	if g.P.PrefixFam > 0 && g.roleOf(t, col).plen >= 2 {
		// a prefix-key column mostly gets a fresh member of its family: a re-used value collides as a
		// whole value, the family collides (or must not collide) on the prefix
		reuse *= 0.3
	}
	if s := g.seen[key]; len(s) > 0 && g.chance(reuse) {
		return s[g.pick(len(s))]
	}
	v := g.poolValueRole(c, g.roleOf(t, col))
	g.seen[key] = append(g.seen[key], v)
	return v
}

// ---------------------------------------------------------------- statements

// Statements appends n statements to the history.
func (g *Gen) Statements(n int) {
	for len(g.H.Stmts) < n || len(g.queue) > 0 {
		if len(g.queue) > 0 {
			// a started scenario is finished even beyond the drawn history length
			g.emit(g.queue[0])
			g.queue = g.queue[1:]
			continue
		}
		tn := g.H.Names[g.pick(len(g.H.Names))]
		t := g.H.Tables[tn]
		kind := g.weighted(g.P.W)
		if g.P.GenWide && (kind == "ignore" || kind == "delete" || kind == "replace" || kind == "insert") && g.chance(0.3) && g.upsertTarget(t) {
			// more upserts where they matter: a keyed table with a CHECK over a generated column whose sources can be assigned
			kind = "odku"
		}
		var s *Stmt
		switch kind {
		case "insert":
			s = g.insert(tn, t, "plain")
		case "ignore":
			s = g.insert(tn, t, "ignore")
		case "replace":
			s = g.insert(tn, t, "replace")
		case "odku":
			s = g.insert(tn, t, "odku")
		case "update":
			s = g.update(tn, t, false)
		case "updignore":
			s = g.update(tn, t, true)
		case "inssel":
			s = g.insertSelect(tn, t)
		case "delete":
			s = g.delete(tn, t)
		case "truncate":
			s = Truncate(tn)
		case "createindex":
			s = g.createIndex(tn, t)
		case "dropindex":
			s = g.dropIndex(tn, t)
		case "alterauto":
			g.alterAutoScenario(tn, t)
		case "lastid":
			s = LastID()
		}
		if s != nil {
			g.emit(s)
		}
	}
}

func (g *Gen) emit(s *Stmt) {
	g.H.Stmts = append(g.H.Stmts, s)
	g.noteAuto(s)
}

// noteAuto keeps g.top[t] an UPPER BOUND of every AUTO_INCREMENT value table t stores or has handed
// out: an explicit value raises it to that value, every row that may have a value generated raises it
// by one (also when the statement then fails: the engine may burn the value), ALTER TABLE ..
// AUTO_INCREMENT = n raises it to n - 1.  Nothing is ever evaluated here; the bound only lets a
// scenario name an explicit value that is certainly the largest one in the table.
func (g *Gen) noteAuto(s *Stmt) {
	t := g.H.Tables[s.T]
	if t == nil || t.AutoCol() == 0 {
		return
	}
	switch s.K {
	case "alterauto":
		if s.N-1 > g.top[s.T] {
			g.top[s.T] = s.N - 1
		}
	case "insert":
		pos := -1
		for i, c := range s.Cols {
			if c == t.AutoCol() {
				pos = i
			}
		}
		for _, r := range s.Rows {
			if pos >= 0 && !r[pos].D && r[pos].E.V.T == "i" {
				if v, ok := r[pos].E.V.V.(int); ok && v > 0 {
					if v > g.top[s.T] {
						g.top[s.T] = v
					}
					continue
				}
			}
			g.top[s.T]++
		}
	}
}

// alterAutoScenario queues ALTER TABLE .. AUTO_INCREMENT = n in a KNOWN relation to the largest
// stored value and to the counter, followed by inserts that have a value generated:
//
//	INSERT (id) VALUES (v)            v above g.top: certainly the largest stored value, counter = v + 1
//	[INSERT (id) VALUES (w), w > v;   DELETE .. WHERE id = w]      the maximum row is deleted again:
//	                                  largest stored value v, counter w + 1
//	ALTER TABLE t AUTO_INCREMENT = n  n below v | = v | = v + 1 | between | = w (deleted maximum) | = counter | far above
//	generating INSERTs (single row, multi-row, INSERT IGNORE; id omitted / NULL / 0 / DEFAULT), SELECT LAST_INSERT_ID()
//
// The other columns of the scenario's rows are NULL / fresh, so that only the id can collide.
func (g *Gen) alterAutoScenario(tn string, t *Table) {
	ac := t.AutoCol()
	if ac == 0 {
		return
	}
	q := func(s *Stmt) { g.queue = append(g.queue, s) }
	explicit := func(v int) *Stmt {
		return Insert(tn, "plain", []int{ac}, [][]Cell{{ValCell(sqlast.Int(v))}}, nil)
	}
	g.nalter++
	if g.chance(0.15) {
		// no preparation: n against whatever the table holds (small values are mostly below the maximum)
		n := 1 + g.pick(12)
		if g.chance(0.4) {
			n = g.top[tn] + 1 + g.pick(30)
		}
		q(AlterAuto(tn, n))
	} else {
		v := g.top[tn] + 1 + g.pick(3)
		q(explicit(v))
		counter := v + 1
		w := 0
		if g.chance(0.35) {
			w = v + 1 + g.pick(3)
			q(explicit(w))
			q(Delete(tn, sqlast.Op("eq", ColRef(ac, t.Cols[ac-1]), Lit(sqlast.Int(w))), nil, -1))
			counter = w + 1
		}
		var ns []int
		ns = append(ns, v, v, v, v+1, v+1) // equal to the maximum and one above it: the boundary
		if v > 1 {
			ns = append(ns, v-1, 1+g.pick(v-1))
		}
		ns = append(ns, counter, v+20+g.pick(10))
		if w > 0 {
			ns = append(ns, w, w)
			if w > v+1 {
				ns = append(ns, v+1+g.pick(w-v-1))
			}
		}
		q(AlterAuto(tn, ns[g.pick(len(ns))]))
	}
	// inserts that have a value generated; the unique column stays NULL so that only the id can collide
	var others []int
	for _, c := range g.insertable(t) {
		if c != ac && !g.roleOf(t, c).inKey {
			others = append(others, c)
		}
	}
	genCell := func() (Cell, bool) {
		switch g.pick(4) {
		case 0:
			return ValCell(sqlast.Null()), true
		case 1:
			return ValCell(sqlast.Int(0)), true
		case 2:
			return DefaultCell(), true
		}
		return Cell{}, false
	}
	for k, n := 0, 1+g.pick(2); k < n; k++ {
		cols := []int{}
		cell, named := genCell()
		if named || len(others) == 0 {
			cols = append(cols, ac)
			if !named {
				cell = ValCell(sqlast.Null())
			}
		}
		oc := 0
		if len(others) > 0 {
			oc = others[g.pick(len(others))]
			cols = append(cols, oc)
		}
		nrows := 1
		if g.chance(0.3) {
			nrows = 2
		}
		var rows [][]Cell
		for r := 0; r < nrows; r++ {
			var row []Cell
			if len(cols) > 0 && cols[0] == ac {
				row = append(row, cell)
			}
			if oc != 0 {
				row = append(row, ValCell(g.value(tn, t, oc, true)))
			}
			rows = append(rows, row)
		}
		mode := "plain"
		if g.chance(0.25) {
			mode = "ignore"
		}
		q(Insert(tn, mode, cols, rows, nil))
	}
	if g.chance(0.5) {
		q(LastID())
	}
}

func (g *Gen) insertable(t *Table) []int {
	var out []int
	for i, c := range t.Cols {
		if !c.HasGen {
			out = append(out, i+1)
		}
	}
	return out
}

// genSources: columns some stored generated column reads.
func genSources(t *Table) map[int]bool {
	m := map[int]bool{}
	for i := range t.Cols {
		for _, c := range t.Cols {
			if c.HasGen && RefersTo(c.Gen, map[int]bool{i + 1: true}) {
				m[i+1] = true
			}
		}
	}
	return m
}

// upsertTarget: the table has a key, and a CHECK reads a generated column that reads an assignable base column.
func (g *Gen) upsertTarget(t *Table) bool {
	if len(t.PK) == 0 && len(t.Uniq) == 0 {
		return false
	}
	genCols := map[int]bool{}
	for i, c := range t.Cols {
		if c.HasGen {
			genCols[i+1] = true
		}
	}
	reads := false
	for _, ck := range t.Checks {
		reads = reads || RefersTo(ck, genCols)
	}
	if !reads {
		return false
	}
	for _, h := range checkedGenSources(t) {
		if !g.roleOf(t, h).inPK {
			return true
		}
	}
	return false
}

// checkedGenSources: base columns read by a generated column that a CHECK reads (changing one of them
// moves the generated value the CHECK judges); all generated-column sources if no CHECK reads a generated column.
func checkedGenSources(t *Table) []int {
	hot := map[int]bool{}
	for gi, gc := range t.Cols {
		if !gc.HasGen {
			continue
		}
		read := false
		for _, ck := range t.Checks {
			if RefersTo(ck, map[int]bool{gi + 1: true}) {
				read = true
			}
		}
		if !read {
			continue
		}
		for i := range t.Cols {
			if RefersTo(gc.Gen, map[int]bool{i + 1: true}) {
				hot[i+1] = true
			}
		}
	}
	if len(hot) == 0 {
		hot = genSources(t)
	}
	var out []int
	for i := range t.Cols {
		if hot[i+1] {
			out = append(out, i+1)
		}
	}
	return out
}

func (g *Gen) insert(tn string, t *Table, mode string) *Stmt {
	all := g.insertable(t)
	// steering around the known finding "INSERT IGNORE computes a generated column from the NULL it
	// then replaces by the column's zero value": such NULLs are rare
	noNull := map[int]bool{}
	if mode == "ignore" && !g.chance(0.06) {
		for c := range genSources(t) {
			if t.Cols[c-1].NotNull {
				noNull[c] = true
			}
		}
	}
	var cols []int
	for _, c := range all {
		col := t.Cols[c-1]
		omittable := col.HasDef || col.Auto || !col.NotNull
		if col.Auto && g.chance(0.6) {
			continue
		}
		if omittable && g.chance(g.P.OmitP) {
			continue
		}
		if !omittable && !noNull[c] && g.chance(g.P.NullNotNull*0.3) {
			continue // provokes "no default value"
		}
		cols = append(cols, c)
	}
	if len(cols) == 0 {
		cols = []int{all[len(all)-1]}
	}
	nrows := 1
	if g.chance(0.4) {
		nrows = 2 + g.pick(2)
	}
	selfCollide := 0.35
	if g.P.GenWide && mode == "odku" {
		// a later row mostly repeats the key of an earlier row of the statement: whatever the table holds, the
		// repeated row finds its key taken and goes down the ON DUPLICATE KEY UPDATE path
		if nrows == 1 && g.chance(0.45) {
			nrows = 2
		}
		selfCollide = 0.8
	}
	hasUniq := len(t.Uniq) > 0 && len(t.PK) > 0 || len(t.Uniq) > 1
	if (mode == "replace" || mode == "odku") && hasUniq && !g.chance(g.P.BadBail) {
		// steering around the known finding "a pending delete hides later duplicates of its unique key":
		// a multi-row REPLACE / ON DUPLICATE KEY UPDATE on a table with a secondary unique key is rare
		nrows = 1
	}
	var rows [][]Cell
	for r := 0; r < nrows; r++ {
		row := make([]Cell, len(cols))
		for i, c := range cols {
			col := t.Cols[c-1]
			switch {
			case col.Auto && r == 0 && nrows > 1 && !g.chance(0.1):
				row[i] = ValCell(sqlast.Null()) // mixed statements mostly start with a generated id (see C20 findings)
			case col.Auto:
				switch g.pick(5) {
				case 0:
					row[i] = ValCell(sqlast.Null())
				case 1:
					row[i] = ValCell(sqlast.Int(0))
				case 2:
					row[i] = DefaultCell()
				default:
					row[i] = ValCell(g.value(tn, t, c, false))
				}
			case (col.HasDef || !col.NotNull) && g.chance(0.08):
				row[i] = DefaultCell()
			case g.P.GenWide && mode == "odku" && g.roleOf(t, c).inPK && len(g.seen[fmt.Sprintf("%s.%d", tn, c)]) > 0 && g.chance(0.7):
				// ON DUPLICATE KEY UPDATE should mostly find its row
				sv := g.seen[fmt.Sprintf("%s.%d", tn, c)]
				row[i] = ValCell(sv[g.pick(len(sv))])
			default:
				row[i] = ValCell(g.value(tn, t, c, !noNull[c]))
			}
		}
		// collide with an earlier row of the same statement on its key columns
		risky := (mode == "replace" || mode == "odku") && !g.chance(g.P.BadBail)
		if r > 0 && g.chance(selfCollide) {
			src := rows[g.pick(r)]
			for i, c := range cols {
				role := g.roleOf(t, c)
				if risky && !role.inPK {
					continue
				}
				if role.inKey && !t.Cols[c-1].Auto && g.chance(0.8) {
					row[i] = src[i]
				}
			}
		}
		if risky && r > 0 {
			// keep the values of unique (non primary key) columns distinct inside the statement
			for i, c := range cols {
				role := g.roleOf(t, c)
				if !role.inKey || role.inPK || row[i].D {
					continue
				}
				for try := 0; try < 4; try++ {
					dup := false
					for _, prev := range rows {
						if !prev[i].D && !row[i].D && prev[i].E.V.T != "n" && prev[i].E.V.SQL() == row[i].E.V.SQL() {
							dup = true
						}
					}
					if !dup {
						break
					}
					row[i] = ValCell(g.poolValueRole(t.Cols[c-1], role))
				}
			}
		}
		rows = append(rows, row)
	}
	var odku []SetItem
	if mode == "odku" {
		w := len(t.Cols)
		var targets []int
		for _, c := range all {
			r := g.roleOf(t, c)
			if t.Cols[c-1].Auto || r.inPK {
				continue
			}
			if r.inKey && !g.chance(0.3) {
				continue
			}
			targets = append(targets, c)
		}
		if len(targets) == 0 {
			mode = "plain"
		} else {
			n := 1 + g.pick(2)
			used := map[int]bool{}
			var hot []int
			if g.P.GenWide {
				for _, h := range checkedGenSources(t) {
					for _, x := range targets {
						if x == h {
							hot = append(hot, h)
						}
					}
				}
			}
			for k := 0; k < n; k++ {
				c := targets[g.pick(len(targets))]
				if len(hot) > 0 && g.chance(0.7) {
					c = hot[g.pick(len(hot))]
				}
				if used[c] {
					continue
				}
				used[c] = true
				col := t.Cols[c-1]
				var e *Expr
				isHot := false
				for _, h := range hot {
					isHot = isHot || h == c
				}
				if isHot && col.Ty == "i" && g.chance(0.65) {
					odku = append(odku, SetItem{Col: c, E: g.farExpr(c, col)})
					continue
				}
				switch g.pick(3) {
				case 0:
					e = ValuesRef(c, w, col)
				case 1:
					if col.Ty == "i" && g.P.GenWide {
						e = sqlast.Op([]string{"plus", "minus"}[g.pick(2)], ColRef(c, col), Lit(sqlast.Int(1+g.pick(3))))
					} else if col.Ty == "i" {
						e = sqlast.Op("plus", ColRef(c, col), Lit(sqlast.Int(1)))
					} else {
						e = ValuesRef(c, w, col)
					}
				default:
					e = Lit(g.value(tn, t, c, false))
				}
				odku = append(odku, SetItem{Col: c, E: e})
			}
		}
	}
	return Insert(tn, mode, cols, rows, odku)
}

// insertSelect: INSERT / INSERT IGNORE / REPLACE INTO t (cols) SELECT .. FROM t WHERE .. ORDER BY <primary key>
// [LIMIT n]: the table feeds itself (the source is read before anything is written).  Every target column gets
// an expression of its own type over the source row: the column itself, another column of that type, the column
// moved by a constant (primary-key columns mostly, so that the new rows do not all collide) or a literal.
// Guarantee for the specification: ORDER BY names the full primary key, so there is no INSERT .. SELECT on keyless tables.
func (g *Gen) insertSelect(tn string, t *Table) *Stmt {
	if len(t.PK) == 0 {
		return g.insert(tn, t, "plain")
	}
	var cols []int
	for _, c := range g.insertable(t) {
		col := t.Cols[c-1]
		if (col.HasDef || !col.NotNull) && g.chance(g.P.OmitP*0.6) {
			continue
		}
		cols = append(cols, c)
	}
	if len(cols) == 0 {
		cols = g.insertable(t)
	}
	var exprs []*Expr
	for _, c := range cols {
		col := t.Cols[c-1]
		role := g.roleOf(t, c)
		ref := ColRef(c, col)
		var e *Expr
		switch x := g.pick(10); {
		case col.Ty == "i" && (x < 4 || (role.inPK && x < 8)):
			e = sqlast.Op("plus", ref, Lit(sqlast.Int(1+g.pick(8))))
		case col.Ty == "s" && role.inPK && x < 7:
			e = sqlast.Fn("concat", ref, Lit(sqlast.Str([]string{"1", "x", "b"}[g.pick(3)])))
		case x < 6:
			e = ref
		case x < 8:
			// another column of the same type (generated columns included: their values are readable)
			var o []int
			for i, oc := range t.Cols {
				if i+1 != c && oc.Ty == col.Ty && !oc.Auto {
					o = append(o, i+1)
				}
			}
			if len(o) > 0 {
				b := o[g.pick(len(o))]
				e = ColRef(b, t.Cols[b-1])
			} else {
				e = ref
			}
		default:
			e = Lit(g.value(tn, t, c, true))
		}
		exprs = append(exprs, e)
	}
	limit := -1
	if g.chance(0.5) {
		limit = 1 + g.pick(3)
	}
	mode := []string{"plain", "plain", "ignore", "replace"}[g.pick(4)]
	return InsertSelect(tn, mode, cols, &Select{From: tn, Exprs: exprs, Where: g.where(tn, t, 1), Order: g.pkOrder(t), Limit: limit})
}

func (g *Gen) where(tn string, t *Table, depth int) *Expr {
	if depth > 0 && g.chance(0.3) {
		op := "and"
		if g.chance(0.5) {
			op = "or"
		}
		return sqlast.Op(op, g.where(tn, t, depth-1), g.where(tn, t, depth-1))
	}
	c := 1 + g.pick(len(t.Cols))
	col := t.Cols[c-1]
	ref := ColRef(c, col)
	v := func() *Expr { return Lit(g.value(tn, t, c, false)) }
	switch g.pick(10) {
	case 0:
		return sqlast.True()
	case 1:
		return sqlast.Op("isnull", ref)
	case 2:
		return sqlast.Op("notnull", ref)
	case 3:
		return sqlast.Op([]string{"gt", "le", "ge", "lt"}[g.pick(4)], ref, v())
	case 4:
		if col.CollTag() == "ci" {
			// `c IN (..)` over an _ai_ci column compares byte-wise in the engine (a query-level defect
			// outside these properties): stay with comparison operators there
			return sqlast.Op("eq", ref, v())
		}
		return sqlast.In(ref, g.chance(0.25), v(), v())
	case 5:
		return sqlast.Op("ne", ref, v())
	default:
		return sqlast.Op("eq", ref, v())
	}
}

func (g *Gen) pkOrder(t *Table) []sqlast.Ord {
	var o []sqlast.Ord
	desc := g.chance(0.5)
	for _, k := range t.PK {
		o = append(o, sqlast.Ord{I: k, Desc: desc})
	}
	return o
}

func (g *Gen) orderLimit(t *Table, force bool) ([]sqlast.Ord, int) {
	if len(t.PK) == 0 {
		return nil, -1
	}
	if !force && !g.chance(0.3) {
		return nil, -1
	}
	limit := -1
	if g.chance(0.6) {
		limit = 1 + g.pick(2)
	}
	return g.pkOrder(t), limit
}

func (g *Gen) update(tn string, t *Table, ignore bool) *Stmt {
	// steering around the known finding "UPDATE IGNORE edits the table under its own scan": mostly
	// UPDATE IGNORE .. ORDER BY <primary key> (the sort reads every row before the first edit)
	safeIgnore := ignore && !g.chance(0.07)
	if safeIgnore && len(t.PK) == 0 {
		ignore, safeIgnore = false, false
	}
	var keyCols, otherCols []int
	for _, c := range g.insertable(t) {
		if t.Cols[c-1].Auto {
			continue
		}
		if g.roleOf(t, c).inKey {
			keyCols = append(keyCols, c)
		} else {
			otherCols = append(otherCols, c)
		}
	}
	n := 1
	if g.chance(0.3) {
		n = 2
	}
	var hot []int
	if g.P.GenWide {
		if g.chance(0.35) {
			n = 2 + g.pick(2) // UPDATE with several assignments (applied left to right)
		}
		for _, h := range checkedGenSources(t) {
			for _, x := range otherCols {
				if x == h {
					hot = append(hot, h)
				}
			}
		}
	}
	used := map[int]bool{}
	touchesKey := false
	var set []SetItem
	for k := 0; k < n; k++ {
		var c int
		if len(hot) > 0 && g.chance(0.5) {
			c = hot[g.pick(len(hot))]
		} else if len(keyCols) > 0 && (len(otherCols) == 0 || g.chance(g.P.KeyUpdP)) {
			if ignore && len(t.PK) == 0 {
				if len(otherCols) == 0 {
					continue
				}
				c = otherCols[g.pick(len(otherCols))]
			} else {
				c = keyCols[g.pick(len(keyCols))]
			}
		} else if len(otherCols) > 0 {
			c = otherCols[g.pick(len(otherCols))]
		} else {
			continue
		}
		if used[c] {
			continue
		}
		used[c] = true
		if g.roleOf(t, c).inKey {
			touchesKey = true
		}
		e := g.setExpr(tn, t, c)
		for _, h := range hot {
			if h == c && t.Cols[c-1].Ty == "i" && g.chance(0.35) {
				e = g.farExpr(c, t.Cols[c-1])
			}
		}
		if ignore && t.Cols[c-1].NotNull && genSources(t)[c] && !g.chance(0.06) {
			// steering around the known finding "IGNORE computes generated columns from the NULL it replaces"
			e = Lit(g.value(tn, t, c, false))
		}
		set = append(set, SetItem{Col: c, E: e})
	}
	if len(set) == 0 {
		return nil
	}
	order, limit := g.orderLimit(t, ignore && (touchesKey || safeIgnore))
	return Update(tn, ignore, set, g.where(tn, t, 1), order, limit)
}

func (g *Gen) setExpr(tn string, t *Table, c int) *Expr {
	col := t.Cols[c-1]
	ref := ColRef(c, col)
	lit := func(null bool) *Expr { return Lit(g.value(tn, t, c, null)) }
	switch g.pick(8) {
	case 0:
		if col.Ty == "i" {
			return sqlast.Op("plus", ref, Lit(sqlast.Int(1)))
		}
	case 1:
		// swap two values of the column
		a, b := lit(false), lit(false)
		return sqlast.Case(ref, [2]*Expr{sqlast.Op("eq", ref, a), b}, [2]*Expr{sqlast.Op("eq", ref, b), a})
	case 2:
		if !g.roleOf(t, c).inKey || g.chance(g.P.BadBail) {
			return sqlast.Fn("if", sqlast.Op("eq", ref, lit(false)), lit(false), lit(false))
		}
	case 3:
		// another base column of the same type and collation
		var o []int
		for i, oc := range t.Cols {
			if i+1 != c && oc.Ty == col.Ty && oc.Coll == col.Coll && !oc.Auto {
				o = append(o, i+1)
			}
		}
		if len(o) > 0 {
			b := o[g.pick(len(o))]
			return ColRef(b, t.Cols[b-1])
		}
	}
	return lit(true)
}

func (g *Gen) delete(tn string, t *Table) *Stmt {
	order, limit := g.orderLimit(t, false)
	if order != nil && limit < 0 {
		limit = 1
	}
	return Delete(tn, g.where(tn, t, 1), order, limit)
}

func (g *Gen) createIndex(tn string, t *Table) *Stmt {
	parts := g.idxParts(t)
	unique := g.chance(0.3)
	name := g.idxName()
	if !unique {
		t.Idx = append(t.Idx, Index{Name: name, Parts: parts})
	}
	return CreateIndex(tn, name, unique, parts)
}

func (g *Gen) dropIndex(tn string, t *Table) *Stmt {
	// only plain indexes and the initial unique indexes (names u*) are dropped: their existence is certain
	n := len(t.Idx) + len(t.Uniq)
	if n == 0 {
		return nil
	}
	k := g.pick(n)
	if k < len(t.Idx) {
		name := t.Idx[k].Name
		t.Idx = append(append([]Index{}, t.Idx[:k]...), t.Idx[k+1:]...)
		return DropIndex(tn, name)
	}
	k -= len(t.Idx)
	name := t.Uniq[k].Name
	t.Uniq = append(append([]Index{}, t.Uniq[:k]...), t.Uniq[k+1:]...)
	return DropIndex(tn, name)
}

// Generate builds one history: the schema as created, then the statements.
func Generate(seed int64, p Profile) (*History, map[string]*Table) {
	g := New(seed, p)
	h := g.Schema()
	// the schema event must show the tables as created: copy before DDL statements edit them
	initial := map[string]*Table{}
	for n, t := range h.Tables {
		c := *t
		c.Uniq = append([]Index{}, t.Uniq...)
		c.Idx = append([]Index{}, t.Idx...)
		initial[n] = c.Fix()
	}
	n := p.MinLen + g.pick(p.MaxLen-p.MinLen+1)
	g.Statements(n)
	return h, initial
}
