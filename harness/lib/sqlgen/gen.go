// Package sqlgen holds the seeded generators of schemas, data and type-correct query ASTs inside
// the interpreted fragment of spec/SQLSem.tla (DESIGN.md §3.1): INT and VARCHAR columns under
// utf8mb4_0900_bin / utf8mb4_0900_ai_ci, operands of one comparison from one family and one
// collation, arithmetic kept far inside int32, ONLY_FULL_GROUP_BY-conforming aggregates.
package sqlgen

import (
	"fmt"
	"math/rand"
	"strings"

	. "gmsverif/lib/sqlast"
)

type ColInfo struct {
	Ty      string `json:"ty"`   // "i" | "s"
	Coll    string `json:"coll"` // none | bin | ci
	NotNull bool   `json:"notnull"`
	Phys    string `json:"phys,omitempty"` // physical type of an "i" column when not INT (TINYINT, SMALLINT)
}

type TableDef struct {
	Name    string    `json:"name"`
	Cols    []ColInfo `json:"cols"`
	PK      []int     `json:"pk"`      // 0-based column indexes, may be empty
	Indexes [][]int   `json:"indexes"` // secondary indexes
	Unique  []bool    `json:"unique"`  // per secondary index
	Rows    [][]Value `json:"rows"`
}

func (t *TableDef) CreateSQL() string {
	var parts []string
	for i, c := range t.Cols {
		s := fmt.Sprintf("c%d ", i+1)
		if c.Ty == "i" && c.Phys != "" {
			s += c.Phys
		} else if c.Ty == "i" {
			s += "INT"
		} else if c.Ty == "d" {
			s += "DECIMAL(6,2)"
		} else if c.Coll == "ci" {
			s += "VARCHAR(16) COLLATE utf8mb4_0900_ai_ci"
		} else {
			s += "VARCHAR(16) COLLATE utf8mb4_0900_bin"
		}
		if c.NotNull {
			s += " NOT NULL"
		}
		parts = append(parts, s)
	}
	if len(t.PK) > 0 {
		parts = append(parts, "PRIMARY KEY ("+colList(t.PK)+")")
	}
	for i, ix := range t.Indexes {
		u := ""
		if t.Unique[i] {
			u = "UNIQUE "
		}
		parts = append(parts, fmt.Sprintf("%sKEY k%d (%s)", u, i+1, colList(ix)))
	}
	return fmt.Sprintf("CREATE TABLE %s (%s)", t.Name, strings.Join(parts, ", "))
}

func colList(ix []int) string {
	var s []string
	for _, i := range ix {
		s = append(s, fmt.Sprintf("c%d", i+1))
	}
	return strings.Join(s, ", ")
}

func (t *TableDef) InsertSQL() []string {
	var out []string
	for _, r := range t.Rows {
		var vs []string
		for _, v := range r {
			vs = append(vs, v.SQL())
		}
		out = append(out, fmt.Sprintf("INSERT INTO %s VALUES (%s)", t.Name, strings.Join(vs, ", ")))
	}
	return out
}

// DBJSON is the database in the trace encoding.
func DBJSON(ts []*TableDef) map[string]any {
	m := map[string]any{}
	for _, t := range ts {
		rows := t.Rows
		if rows == nil {
			rows = [][]Value{}
		}
		m[t.Name] = map[string]any{"w": len(t.Cols), "rows": rows}
	}
	return m
}

// SchemaJSON describes the physical schema (ignored by the specification; used to re-create the
// database when recorded or TLC-generated cases are executed).
func SchemaJSON(ts []*TableDef) []*TableDef { return ts }

// Gen is a seeded generator. Profile knobs are plain fields.
type Gen struct {
	R       *rand.Rand
	Tables  []*TableDef
	IntLo   int
	IntHi   int
	Strs    []string
	MaxRows int
	// feature switches
	NoSubq, NoStrings, NoAgg, NoSetOp, NoOuter bool
	AllowMod                                   bool // generate the % operator
	Decimals                                   bool // generate DECIMAL(6,2) columns (compared, grouped, ordered, IN-listed; no arithmetic)
	IndexAll                                   bool // every table gets single-column indexes on its first two columns (join-algorithm coverage)
	MaxJoin                                    int  // maximum number of table instances in one FROM clause (default 2)
	CIFuncs                                    bool // allow string functions over _ci columns
	NarrowInts                                 bool // some integer columns are TINYINT / SMALLINT holding their extreme values, compared with constants just outside the type
	CIDistinct                                 bool // allow DISTINCT / COUNT(DISTINCT) / set operations over _ci columns (C07's subject)
}

func New(seed int64) *Gen {
	return &Gen{R: rand.New(rand.NewSource(seed)), IntLo: -2, IntHi: 3, MaxRows: 5, MaxJoin: 2,
		Strs: []string{"a", "A", "b", "B", "ab", "Ab", "", "a ", "1", "b2"}}
}

func (g *Gen) pick(n int) int        { return g.R.Intn(n) }
func (g *Gen) chance(p float64) bool { return g.R.Float64() < p }

func (g *Gen) IntVal(nullP float64) Value {
	if g.chance(nullP) {
		return Null()
	}
	return Int(g.IntLo + g.pick(g.IntHi-g.IntLo+1))
}

func (g *Gen) StrVal(nullP float64) Value {
	if g.chance(nullP) {
		return Null()
	}
	return Str(g.Strs[g.pick(len(g.Strs))])
}

func (g *Gen) val(c ColInfo, nullP float64) Value {
	if c.NotNull {
		nullP = 0
	}
	if c.Ty == "i" && c.Phys != "" && !g.chance(nullP) && g.chance(0.35) {
		ext := narrowEdge[c.Phys]
		return Int(ext[g.pick(len(ext))])
	}
	if c.Ty == "i" {
		return g.IntVal(nullP)
	}
	if c.Ty == "d" {
		return g.DecVal(nullP)
	}
	return g.StrVal(nullP)
}

// narrowEdge: the extreme values of the narrow integer types; narrowOut: constants at and just past them.
var narrowEdge = map[string][]int{"TINYINT": {127, -128, 126}, "SMALLINT": {32767, -32768}}
var narrowOut = []int{127, 128, -128, -129, 126, 200, -200, 32767, 32768, -32768, -32769, 40000}

// decPool: values whose printed forms end in zeros / differ only in trailing digits, on purpose.
var decPool = []int{0, 100, 150, -225, 1000, 2000, 10000, 50, 200, 1050, -100}

func (g *Gen) DecVal(nullP float64) Value {
	if g.chance(nullP) {
		return Null()
	}
	return Dec(decPool[g.pick(len(decPool))])
}

// DecExpr: a DECIMAL column or a decimal / integer literal (no arithmetic: exactness rules are C25's).
func (g *Gen) DecExpr(s Scopes) *Expr {
	if c := g.colOf(s, "d", ""); c != nil && g.chance(0.7) {
		return c
	}
	if g.chance(0.3) {
		return Lit(g.IntVal(0.05))
	}
	return Lit(g.DecVal(0.05))
}

func (s Scopes) has(ty string) bool { return len(s.cols(ty, "")) > 0 }

// Schema generates n tables with data.
func (g *Gen) Schema(n int) []*TableDef {
	g.Tables = nil
	for ti := 0; ti < n; ti++ {
		t := &TableDef{Name: fmt.Sprintf("t%d", ti+1), PK: []int{}, Indexes: [][]int{}, Unique: []bool{}, Rows: [][]Value{}}
		w := 2 + g.pick(2)
		for c := 0; c < w; c++ {
			ci := ColInfo{Ty: "i", Coll: "none"}
			if g.NarrowInts && g.chance(0.5) {
				ci.Phys = []string{"TINYINT", "TINYINT", "SMALLINT"}[g.pick(3)]
			}
			if !g.NoStrings && c > 0 && g.chance(0.35) {
				ci = ColInfo{Ty: "s", Coll: "bin"}
				if g.chance(0.4) {
					ci.Coll = "ci"
				}
			} else if g.Decimals && c > 0 && g.chance(0.3) {
				ci = ColInfo{Ty: "d", Coll: "none"}
			}
			t.Cols = append(t.Cols, ci)
		}
		// keys
		switch g.pick(4) {
		case 0:
			t.PK = []int{0}
		case 1:
			if w >= 2 && t.Cols[1].Ty == "i" {
				t.PK = []int{0, 1}
			}
		}
		for _, k := range t.PK {
			t.Cols[k].NotNull = true
		}
		for k := 0; k < g.pick(3); k++ {
			ix := []int{g.pick(w)}
			if g.chance(0.4) {
				o := g.pick(w)
				if o != ix[0] {
					ix = append(ix, o)
				}
			}
			t.Indexes = append(t.Indexes, ix)
			t.Unique = append(t.Unique, false)
		}
		if g.NarrowInts {
			// the narrow columns are the ones whose range handling is at stake: index each of them
			for c := 0; c < w; c++ {
				if t.Cols[c].Phys != "" {
					t.Indexes = append(t.Indexes, []int{c})
					t.Unique = append(t.Unique, false)
				}
			}
		}
		if g.IndexAll {
			for c := 0; c < 2 && c < w; c++ {
				t.Indexes = append(t.Indexes, []int{c})
				t.Unique = append(t.Unique, false)
			}
		}
		nr := g.pick(g.MaxRows + 1)
		seen := map[string]bool{}
		for r := 0; r < nr; r++ {
			row := make([]Value, w)
			for c := range row {
				row[c] = g.val(t.Cols[c], 0.2)
			}
			if len(t.PK) > 0 {
				key := ""
				for _, k := range t.PK {
					key += fmt.Sprint(row[k].V) + "|"
				}
				if seen[key] {
					continue
				}
				seen[key] = true
			}
			t.Rows = append(t.Rows, row)
		}
		g.Tables = append(g.Tables, t)
	}
	return g.Tables
}

// scopeCols: column infos of the current FROM row followed by outer rows.
type Scopes [][]ColInfo

func (s Scopes) push(cur []ColInfo) Scopes { return append(Scopes{cur}, s...) }

type colRef struct {
	d, i int
	c    ColInfo
}

func (s Scopes) cols(ty string, coll string) []colRef {
	var out []colRef
	for d, sc := range s {
		for i, c := range sc {
			if c.Ty == ty && (coll == "" || c.Coll == coll) {
				out = append(out, colRef{d, i + 1, c})
			}
		}
	}
	return out
}

// ColOf returns a random column reference of the given type (and collation, "" = any) or nil.
func (g *Gen) ColOf(s Scopes, ty, coll string) *Expr { return g.colOf(s, ty, coll) }

func (g *Gen) colOf(s Scopes, ty, coll string) *Expr {
	cs := s.cols(ty, coll)
	if len(cs) == 0 {
		return nil
	}
	// prefer the innermost scope
	var inner []colRef
	for _, c := range cs {
		if c.d == 0 {
			inner = append(inner, c)
		}
	}
	if len(inner) > 0 && g.chance(0.8) {
		cs = inner
	}
	c := cs[g.pick(len(cs))]
	return Col(c.d, c.i, c.c.Coll)
}

func (g *Gen) IntExpr(s Scopes, depth int) *Expr {
	if depth <= 0 || g.chance(0.35) {
		if c := g.colOf(s, "i", ""); c != nil && g.chance(0.7) {
			return c
		}
		return Lit(g.IntVal(0.1))
	}
	switch g.pick(9) {
	case 0, 1:
		op := []string{"plus", "minus", "times"}[g.pick(3)]
		return Op(op, g.IntExpr(s, depth-1), g.IntExpr(s, depth-1))
	case 2:
		// % is generated only on request: -1 % -1 is a decimal negative zero in the engine, which
		// DISTINCT/grouping separate from 0 (known finding C02-mod-negative-zero-distinct; C25 owns %)
		op := "div"
		if g.AllowMod && g.chance(0.5) {
			op = "mod"
		}
		return Op(op, g.IntExpr(s, depth-1), g.IntExpr(s, depth-1))
	case 3:
		return Op("neg", g.IntExpr(s, depth-1))
	case 4:
		f := []string{"coalesce", "ifnull", "nullif"}[g.pick(3)]
		return Fn(f, g.IntExpr(s, depth-1), g.IntExpr(s, depth-1))
	case 5:
		return Fn("if", g.BoolExpr(s, depth-1), g.IntExpr(s, depth-1), g.IntExpr(s, depth-1))
	case 6:
		return Case(g.IntExpr(s, depth-1), [2]*Expr{g.BoolExpr(s, depth-1), g.IntExpr(s, depth-1)})
	case 7:
		if !g.NoStrings {
			return Fn([]string{"length", "char_length"}[g.pick(2)], g.StrExpr(s, depth-1, g.anyColl()))
		}
		return Fn("abs", g.IntExpr(s, depth-1))
	default:
		return Fn([]string{"abs", "sign"}[g.pick(2)], g.IntExpr(s, depth-1))
	}
}

func (g *Gen) anyColl() string {
	if g.chance(0.5) {
		return "bin"
	}
	return "ci"
}

// StrExpr generates a string expression whose columns all carry collation coll.
func (g *Gen) StrExpr(s Scopes, depth int, coll string) *Expr {
	// under the _ai_ci collation only columns and literals are generated: the collation the engine
	// assigns to function results over _ci arguments is outside the interpreted fragment (C07/C29)
	if depth <= 0 || g.chance(0.4) || (coll == "ci" && !g.CIFuncs) {
		if c := g.colOf(s, "s", coll); c != nil && g.chance(0.75) {
			return c
		}
		return Lit(g.StrVal(0.1))
	}
	switch g.pick(6) {
	case 0:
		return Fn("concat", g.StrExpr(s, depth-1, coll), g.StrExpr(s, depth-1, coll))
	case 1:
		return Fn([]string{"upper", "lower", "reverse"}[g.pick(3)], g.StrExpr(s, depth-1, coll))
	case 2:
		return Fn([]string{"left", "right"}[g.pick(2)], g.StrExpr(s, depth-1, coll), Lit(Int(g.pick(3))))
	case 3:
		return Fn("substring", g.StrExpr(s, depth-1, coll), Lit(Int(g.pick(4)-1)), Lit(Int(g.pick(3))))
	case 4:
		return Fn([]string{"coalesce", "ifnull"}[g.pick(2)], g.StrExpr(s, depth-1, coll), g.StrExpr(s, depth-1, coll))
	default:
		return Fn("if", g.BoolExpr(s, depth-1), g.StrExpr(s, depth-1, coll), g.StrExpr(s, depth-1, coll))
	}
}

var cmpOps = []string{"eq", "ne", "lt", "le", "gt", "ge", "nseq"}

func (g *Gen) BoolExpr(s Scopes, depth int) *Expr {
	if depth <= 0 {
		return g.cmp(s, 0)
	}
	switch g.pick(12) {
	case 0, 1, 2:
		return g.cmp(s, depth-1)
	case 3:
		return Op("and", g.BoolExpr(s, depth-1), g.BoolExpr(s, depth-1))
	case 4:
		return Op("or", g.BoolExpr(s, depth-1), g.BoolExpr(s, depth-1))
	case 5:
		return Op("not", g.BoolExpr(s, depth-1))
	case 6:
		if g.chance(0.3) {
			return Op("xor", g.BoolExpr(s, depth-1), g.BoolExpr(s, depth-1))
		}
		op := []string{"isnull", "notnull"}[g.pick(2)]
		if !g.NoStrings && g.chance(0.3) {
			return Op(op, g.StrExpr(s, depth-1, g.anyColl()))
		}
		return Op(op, g.IntExpr(s, depth-1))
	case 7:
		return Op([]string{"istrue", "isfalse", "isnottrue", "isnotfalse"}[g.pick(4)], g.BoolExpr(s, depth-1))
	case 8:
		// IN list
		n := 1 + g.pick(3)
		if g.Decimals && s.has("d") && g.chance(0.35) {
			// static decimal / integer literal lists take the hash-IN path
			var l []*Expr
			for i := 0; i < n+1; i++ {
				if g.chance(0.3) {
					l = append(l, Lit(g.IntVal(0.1)))
				} else {
					l = append(l, Lit(g.DecVal(0.1)))
				}
			}
			return In(g.colOf(s, "d", ""), g.chance(0.4), l...)
		}
		if !g.NoStrings && g.chance(0.3) {
			coll := g.anyColl()
			left := g.StrExpr(s, depth-1, coll)
			if coll == "ci" {
				// literal IN (_ci column, ..): the engine compares with the left operand's collation;
				// collation aggregation across IN operands is outside the fragment (C07/C29)
				if left = g.colOf(s, "s", "ci"); left == nil {
					coll = "bin"
					left = g.StrExpr(s, depth-1, coll)
				}
			}
			var l []*Expr
			for i := 0; i < n; i++ {
				l = append(l, g.StrExpr(s, 0, coll))
			}
			return In(left, g.chance(0.4), l...)
		}
		var l []*Expr
		for i := 0; i < n; i++ {
			l = append(l, g.IntExpr(s, 0))
		}
		return In(g.IntExpr(s, depth-1), g.chance(0.4), l...)
	case 9:
		if g.Decimals && s.has("d") && g.chance(0.3) {
			return Op([]string{"between", "notbetween"}[g.pick(2)], g.DecExpr(s), g.DecExpr(s), g.DecExpr(s))
		}
		op := []string{"between", "notbetween"}[g.pick(2)]
		return Op(op, g.IntExpr(s, depth-1), g.IntExpr(s, depth-1), g.IntExpr(s, depth-1))
	default:
		if g.NoSubq {
			return g.cmp(s, depth-1)
		}
		return g.subqPred(s, depth-1)
	}
}

func (g *Gen) cmp(s Scopes, depth int) *Expr {
	op := cmpOps[g.pick(len(cmpOps))]
	if g.Decimals && s.has("d") && g.chance(0.3) {
		return Op(op, g.DecExpr(s), g.DecExpr(s))
	}
	if !g.NoStrings && g.chance(0.3) {
		coll := g.anyColl()
		// (<=> over _ci operands was steered around until the repair of C02-nullsafe-eq-ignores-ci)
		return Op(op, g.StrExpr(s, depth, coll), g.StrExpr(s, depth, coll))
	}
	if g.NarrowInts && g.chance(0.3) {
		// a bare integer column against a constant at / just outside a narrow type's range
		if c := g.colOf(s, "i", ""); c != nil {
			k := Lit(Int(narrowOut[g.pick(len(narrowOut))]))
			if g.chance(0.5) {
				return Op(op, c, k)
			}
			return Op(op, k, c)
		}
	}
	return Op(op, g.IntExpr(s, depth), g.IntExpr(s, depth))
}

// subqPred: EXISTS / IN / NOT IN / scalar-aggregate comparison over one table, possibly correlated.
func (g *Gen) subqPred(s Scopes, depth int) *Expr {
	t := g.Tables[g.pick(len(g.Tables))]
	from := Table(t.Name, len(t.Cols))
	inner := s.push(t.Cols)
	where := True()
	if g.chance(0.7) {
		where = g.BoolExprNoSubq(inner, depth)
	}
	switch g.pick(5) {
	case 0:
		return Subq("exists", nil, Select(from, where, Lit(Int(1))))
	case 1:
		return Subq("notexists", nil, Select(from, where, Lit(Int(1))))
	case 2, 3:
		kind := []string{"in", "notin"}[g.pick(2)]
		// integer column of the inner table
		ics := Scopes{t.Cols}.cols("i", "")
		if len(ics) == 0 {
			return Subq("exists", nil, Select(from, where, Lit(Int(1))))
		}
		c := ics[g.pick(len(ics))]
		return Subq(kind, g.IntExpr(s, 0), Select(from, where, Col(0, c.i, "none")))
	default:
		ics := Scopes{t.Cols}.cols("i", "")
		var agg *Expr
		if len(ics) == 0 || g.chance(0.3) {
			agg = Agg("countstar", nil, false)
		} else {
			c := ics[g.pick(len(ics))]
			agg = Agg([]string{"count", "sum", "min", "max"}[g.pick(4)], Col(0, c.i, "none"), false)
		}
		q := Select(from, where, agg)
		q.Grouped = true
		return Op(cmpOps[g.pick(6)], g.IntExpr(s, 0), Subq("scalar", nil, q))
	}
}

func (g *Gen) BoolExprNoSubq(s Scopes, depth int) *Expr {
	old := g.NoSubq
	g.NoSubq = true
	defer func() { g.NoSubq = old }()
	return g.BoolExpr(s, depth)
}

// FromClause builds a join tree over 1..maxT table instances; returns the tree and its columns.
func (g *Gen) FromClause(maxT int, outer Scopes, depth int) (*From, []ColInfo) {
	n := 1 + g.pick(maxT)
	t := g.Tables[g.pick(len(g.Tables))]
	f := Table(t.Name, len(t.Cols))
	cols := append([]ColInfo{}, t.Cols...)
	for k := 1; k < n; k++ {
		t2 := g.Tables[g.pick(len(g.Tables))]
		var r *From = Table(t2.Name, len(t2.Cols))
		rcols := append([]ColInfo{}, t2.Cols...)
		if !g.NoSubq && g.chance(0.12) {
			dq := g.SimpleSelect(Scopes{}, 1)
			r = Derived(dq.q)
			rcols = dq.cols
		}
		jts := []string{"inner", "inner", "left", "right", "cross"}
		if g.NoOuter {
			jts = []string{"inner", "cross"}
		}
		jt := jts[g.pick(len(jts))]
		all := append(append([]ColInfo{}, cols...), rcols...)
		// outer joins make the padded side nullable
		var on *Expr
		if jt != "cross" {
			on = g.joinCond(Scopes{all}.pushOuter(outer), len(cols), depth)
		}
		f = Join(jt, f, r, on)
		cols = all
	}
	for i := range cols {
		cols[i].NotNull = false
	}
	return f, cols
}

func (s Scopes) pushOuter(outer Scopes) Scopes { return append(s, outer...) }

// joinCond prefers an equality between a left and a right integer column (index-friendly), else random.
func (g *Gen) joinCond(s Scopes, nLeft int, depth int) *Expr {
	cur := s[0]
	var li, ri []int
	for i, c := range cur {
		if c.Ty == "i" {
			if i < nLeft {
				li = append(li, i+1)
			} else {
				ri = append(ri, i+1)
			}
		}
	}
	if len(li) > 0 && len(ri) > 0 && g.chance(0.7) {
		e := Op("eq", Col(0, li[g.pick(len(li))], "none"), Col(0, ri[g.pick(len(ri))], "none"))
		if g.chance(0.3) {
			e = Op("and", e, g.BoolExprNoSubq(s, depth))
		}
		return e
	}
	return g.BoolExprNoSubq(s, depth)
}

type selOut struct {
	q    *Query
	cols []ColInfo
}

func (g *Gen) projExpr(s Scopes, depth int) (*Expr, ColInfo) {
	r := g.pick(10)
	switch {
	case r < 5:
		// plain column of the current row
		cur := s[0]
		if len(cur) > 0 {
			i := g.pick(len(cur))
			return Col(0, i+1, cur[i].Coll), cur[i]
		}
		return Lit(g.IntVal(0)), ColInfo{Ty: "i", Coll: "none"}
	case r < 7:
		return g.IntExpr(s, depth), ColInfo{Ty: "i", Coll: "none"}
	case r < 8 && !g.NoStrings:
		coll := g.anyColl()
		e := g.StrExpr(s, depth, coll)
		return e, ColInfo{Ty: "s", Coll: collOfExpr(e)}
	default:
		return g.BoolExpr(s, depth), ColInfo{Ty: "i", Coll: "none"}
	}
}

// collOfExpr mirrors CollOf of the specification for generated string expressions (needed only to
// type derived-table columns and set-operation arms; the specification recomputes it itself).
func collOfExpr(e *Expr) string {
	switch e.K {
	case "col":
		return e.C
	case "lit":
		return "none"
	case "fn":
		c := "none"
		for _, a := range e.A {
			c = comb(c, collOfExpr(a))
		}
		return c
	case "case":
		c := collOfExpr(e.Els)
		for _, w := range e.Whens {
			c = comb(c, collOfExpr(w[1]))
		}
		return c
	case "agg":
		if e.F == "min" || e.F == "max" {
			return collOfExpr(e.Arg)
		}
	}
	return "none"
}

func comb(a, b string) string {
	if a == "ci" || b == "ci" {
		return "ci"
	}
	if a == "bin" || b == "bin" {
		return "bin"
	}
	return "none"
}

// SimpleSelect: non-grouped select over a FROM clause.
func (g *Gen) SimpleSelect(outer Scopes, depth int) selOut {
	f, cols := g.FromClause(g.MaxJoin, outer, depth)
	s := outer.push(cols)
	var where *Expr
	if g.chance(0.7) {
		where = g.BoolExpr(s, depth)
	}
	n := 1 + g.pick(3)
	var proj []*Expr
	var out []ColInfo
	for i := 0; i < n; i++ {
		e, c := g.projExpr(s, depth-1)
		proj = append(proj, e)
		out = append(out, c)
	}
	q := Select(f, where, proj...)
	q.Distinct = g.chance(0.2) && (g.CIDistinct || !hasCI(out))
	return selOut{q, out}
}

// GroupedSelect: GROUP BY over plain columns with aggregates (ONLY_FULL_GROUP_BY-conforming).
func (g *Gen) GroupedSelect(outer Scopes, depth int) selOut {
	f, cols := g.FromClause(g.MaxJoin, outer, depth)
	s := outer.push(cols)
	var where *Expr
	if g.chance(0.5) {
		where = g.BoolExprNoSubq(s, depth)
	}
	q := Select(f, where)
	q.Grouped = true
	var out []ColInfo
	ng := g.pick(3)
	for i := 0; i < ng && len(cols) > 0; i++ {
		k := g.pick(len(cols))
		if cols[k].Coll == "ci" && !g.CIDistinct {
			continue // grouping on _ci columns is C07's subject
		}
		ge := Col(0, k+1, cols[k].Coll)
		q.Group = append(q.Group, ge)
		q.Proj = append(q.Proj, ge)
		out = append(out, cols[k])
	}
	na := 1 + g.pick(3)
	for i := 0; i < na; i++ {
		a, c := g.aggExpr(s, depth)
		q.Proj = append(q.Proj, a)
		out = append(out, c)
	}
	if g.chance(0.4) {
		// (HAVING over joins was steered around until the repair of C02-having-join-alias)
		k := len(q.Proj) - 1 - g.pick(na)
		if out[k].Ty == "i" {
			q.Having = Op(cmpOps[g.pick(6)], q.Proj[k], Lit(g.IntVal(0)))
		}
	}
	return selOut{q, out}
}

func (g *Gen) aggExpr(s Scopes, depth int) (*Expr, ColInfo) {
	ic := ColInfo{Ty: "i", Coll: "none"}
	// (subqueries inside aggregate arguments were steered around until the repair of C02-aggregate-over-subquery)
	switch g.pick(7) {
	case 0:
		return Agg("countstar", nil, false), ic
	case 1:
		return Agg("count", g.IntExpr(s[:1], depth), g.chance(0.3)), ic
	case 2:
		return Agg("sum", g.IntExpr(s[:1], depth), g.chance(0.2)), ic
	case 3:
		return Agg("avg", g.IntExpr(s[:1], 0), false), ColInfo{Ty: "q", Coll: "none"}
	case 4, 5:
		f := []string{"min", "max"}[g.pick(2)]
		if g.Decimals && g.chance(0.3) {
			if c := g.colOf(s[:1], "d", ""); c != nil {
				return Agg(f, c, false), ColInfo{Ty: "d", Coll: "none"}
			}
		}
		if !g.NoStrings && g.chance(0.3) {
			if c := g.colOf(s[:1], "s", ""); c != nil {
				return Agg(f, c, false), ColInfo{Ty: "s", Coll: c.C}
			}
		}
		return Agg(f, g.IntExpr(s[:1], depth), false), ic
	default:
		if !g.NoStrings {
			if c := g.colOf(s[:1], "s", ""); c != nil && (g.CIDistinct || c.C != "ci") {
				return Agg("count", c, true), ic
			}
		}
		return Agg("count", g.IntExpr(s[:1], 0), true), ic
	}
}

// orderAndLimit adds ORDER BY over output ordinals (never on AVG columns) and LIMIT/OFFSET.
func (g *Gen) orderAndLimit(o selOut) {
	q := o.q
	if g.chance(0.5) {
		perm := g.R.Perm(len(o.cols))
		k := 1 + g.pick(len(perm))
		for _, i := range perm[:k] {
			if o.cols[i].Ty == "q" {
				continue
			}
			q.Order = append(q.Order, Ord{I: i + 1, Desc: g.chance(0.4)})
		}
	}
	// (DISTINCT + ORDER BY <ordinal> and ORDER BY over self-joins used the alias form until the repairs of
	// C02-distinct-order-ordinal and C04-order-self-join; now all three spellings are drawn everywhere)
	q.OrdAlias = g.chance(0.4)
	if g.chance(0.3) {
		q.Limit = g.pick(4)
		if g.chance(0.5) {
			q.Offset = g.pick(3)
		}
	}
}

// Query generates one top-level query of the C02 grammar.
func (g *Gen) Query(depth int) *Query {
	r := g.pick(10)
	var o selOut
	switch {
	case r < 5 || (g.NoAgg && g.NoSetOp):
		o = g.SimpleSelect(Scopes{}, depth)
	case r < 8 && !g.NoAgg:
		o = g.GroupedSelect(Scopes{}, depth)
	case !g.NoSetOp:
		o = g.setOp(depth)
	default:
		o = g.SimpleSelect(Scopes{}, depth)
	}
	g.orderAndLimit(o)
	return o.q
}

// setOp: two single-table selects with the same column types.
func (g *Gen) setOp(depth int) selOut {
	t := g.Tables[g.pick(len(g.Tables))]
	// choose columns of t, and for the right arm columns of the same type/collation from any table
	n := 1 + g.pick(2)
	var lproj, rproj []*Expr
	var out []ColInfo
	t2 := g.Tables[g.pick(len(g.Tables))]
	for i := 0; i < n; i++ {
		k := g.pick(len(t.Cols))
		if t.Cols[k].Coll == "ci" && !g.CIDistinct {
			k = 0 // set operations over _ci columns are C07's subject (row hashing ignores the collation)
			if t.Cols[k].Coll == "ci" {
				continue
			}
		}
		c := t.Cols[k]
		lproj = append(lproj, Col(0, k+1, c.Coll))
		var cands []int
		for j, c2 := range t2.Cols {
			if c2.Ty == c.Ty && c2.Coll == c.Coll {
				cands = append(cands, j)
			}
		}
		if len(cands) > 0 {
			j := cands[g.pick(len(cands))]
			rproj = append(rproj, Col(0, j+1, c.Coll))
		} else if c.Ty == "i" {
			rproj = append(rproj, Lit(g.IntVal(0.2)))
		} else if c.Ty == "d" {
			rproj = append(rproj, Lit(g.DecVal(0.2)))
		} else {
			rproj = append(rproj, Lit(g.StrVal(0.2)))
		}
		c.NotNull = false
		out = append(out, c)
	}
	if len(lproj) == 0 {
		lproj = append(lproj, Lit(Int(1)))
		rproj = append(rproj, Lit(Int(g.pick(3))))
		out = append(out, ColInfo{Ty: "i", Coll: "none"})
	}
	n = len(lproj)
	var lw, rw *Expr
	if g.chance(0.5) {
		lw = g.BoolExprNoSubq(Scopes{t.Cols}, depth-1)
	}
	if g.chance(0.5) {
		rw = g.BoolExprNoSubq(Scopes{t2.Cols}, depth-1)
	}
	l := Select(Table(t.Name, len(t.Cols)), lw, lproj...)
	r := Select(Table(t2.Name, len(t2.Cols)), rw, rproj...)
	colls := make([]string, n)
	for i, c := range out {
		colls[i] = c.Coll
	}
	op := []string{"union", "union", "intersect", "except"}[g.pick(4)]
	q := SetOp(op, g.chance(0.4), l, r, colls)
	return selOut{q, out}
}

func hasCI(cs []ColInfo) bool {
	for _, c := range cs {
		if c.Coll == "ci" {
			return true
		}
	}
	return false
}

func hasSelfJoin(f *From) bool {
	seen := map[string]int{}
	var walk func(f *From)
	walk = func(f *From) {
		if f == nil {
			return
		}
		if f.K == "table" {
			seen[f.Name]++
		}
		walk(f.L)
		walk(f.R)
	}
	walk(f)
	for _, n := range seen {
		if n > 1 {
			return true
		}
	}
	return false
}

// OuterJoinResidual builds `SELECT a.*, b.* FROM ta a LEFT|RIGHT|INNER JOIN tb b ON a.ci = b.cj AND <residual>`:
// an equality on indexed integer columns (so merge / lookup / hash joins all apply) plus a residual
// predicate that is not a merge condition, over tables with duplicate join keys.
func (g *Gen) OuterJoinResidual(depth int) *Query {
	q, _ := g.OuterJoinResidualPair(depth)
	return q
}

// OuterJoinResidualPair also returns the same join with the residual predicate negated: whichever way
// the rows of a duplicate-key group are ordered, one of the two has a passing row before a failing one.
func (g *Gen) OuterJoinResidualPair(depth int) (*Query, *Query) {
	ta := g.Tables[g.pick(len(g.Tables))]
	tb := g.Tables[g.pick(len(g.Tables))]
	icol := func(t *TableDef) int {
		var c []int
		for i, ci := range t.Cols {
			if ci.Ty == "i" && i < 2 {
				c = append(c, i)
			}
		}
		if len(c) == 0 {
			return 0
		}
		return c[g.pick(len(c))]
	}
	ca, cb := icol(ta), icol(tb)
	all := append(append([]ColInfo{}, ta.Cols...), tb.Cols...)
	eq := Op("eq", Col(0, ca+1, "none"), Col(0, len(ta.Cols)+cb+1, "none"))
	on := eq
	if g.chance(0.8) {
		// residual over the right side (and sometimes both sides)
		var res *Expr
		if g.chance(0.8) {
			rc := len(ta.Cols) + g.pick(len(tb.Cols))
			if all[rc].Ty == "i" {
				res = Op(cmpOps[g.pick(6)], Col(0, rc+1, "none"), Lit(g.IntVal(0)))
			}
		}
		if res == nil {
			res = g.BoolExprNoSubq(Scopes{all}, depth)
		}
		on = Op("and", eq, res)
	}
	jt := []string{"left", "left", "left", "right", "right", "inner"}[g.pick(6)]
	var proj []*Expr
	for i, c := range all {
		proj = append(proj, Col(0, i+1, c.Coll))
	}
	var where *Expr
	if g.chance(0.3) {
		where = g.BoolExprNoSubq(Scopes{all}, 1)
	}
	q := Select(Join(jt, Table(ta.Name, len(ta.Cols)), Table(tb.Name, len(tb.Cols)), on), where, proj...)
	if g.chance(0.3) {
		q.Order = []Ord{{I: 1 + g.pick(len(all)), Desc: g.chance(0.5)}}
		q.OrdAlias = true
	}
	on2 := on
	if on.Op == "and" {
		on2 = Op("and", on.A[0], Op("not", on.A[1]))
	}
	q2 := Select(Join(jt, Table(ta.Name, len(ta.Cols)), Table(tb.Name, len(tb.Cols)), on2), where, proj...)
	q2.Order, q2.OrdAlias = q.Order, q.OrdAlias
	return q, q2
}
