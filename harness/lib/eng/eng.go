// Package eng is the engine fixture of the harness: an in-process sqle.Engine over the in-memory
// backend, sessions, and the normalisation of Go result values into the trace encoding.
package eng

import (
	"context"
	"os"
	"fmt"
	"math"
	"strings"
	"time"

	"github.com/cockroachdb/apd/v3"

	sqle "github.com/dolthub/go-mysql-server"
	"github.com/dolthub/go-mysql-server/memory"
	"github.com/dolthub/go-mysql-server/sql"
	"github.com/dolthub/go-mysql-server/sql/types"

	"gmsverif/lib/sqlast"
)

// DB is one engine with one database "d".
type DB struct {
	Engine   *sqle.Engine
	Provider *memory.DbProvider
	nextID   uint32
}

func New() *DB {
	db := memory.NewDatabase("d")
	pro := memory.NewDBProvider(db)
	e := sqle.NewDefault(pro)
	return &DB{Engine: e, Provider: pro, nextID: 1}
}

// Session is one client session.
type Session struct {
	DB   *DB
	Sess *memory.Session
	ID   uint32
}

func (d *DB) NewSession() *Session {
	d.nextID++
	base := sql.NewBaseSessionWithClientServer("srv", sql.Client{User: "root", Address: "localhost"}, d.nextID)
	s := memory.NewSession(base, d.Provider)
	s.SetCurrentDatabase("d")
	return &Session{DB: d, Sess: s, ID: d.nextID}
}

func (s *Session) Ctx() *sql.Context {
	ctx := sql.NewContext(context.Background(), sql.WithSession(s.Sess))
	ctx.SetCurrentDatabase("d")
	return ctx
}

// Result of one statement.
type Result struct {
	Kind     string           `json:"kind"` // rows | ok | err | panic
	Rows     [][]sqlast.Value `json:"rows"`
	Affected int              `json:"affected,omitempty"`
	InsertID int              `json:"insert_id,omitempty"`
	Msg      string           `json:"msg,omitempty"`
	Schema   sql.Schema       `json:"-"`
	Raw      []sql.Row        `json:"-"`
}

// Exec runs one statement and drains its result; panics are an outcome, not a crash of the driver.
func (s *Session) Exec(q string) (res Result) {
	return s.ExecCtx(s.Ctx(), q)
}

var showSQL = os.Getenv("VERIF_SHOW_SQL") != ""

func (s *Session) ExecCtx(ctx *sql.Context, q string) (res Result) {
	if showSQL {
		fmt.Fprintf(os.Stderr, "[s%d] %s\n", s.ID, q)
	}
	defer func() {
		if r := recover(); r != nil {
			res = Result{Kind: "panic", Msg: fmt.Sprint(r)}
		}
		if res.Rows == nil {
			res.Rows = [][]sqlast.Value{} // never JSON null: the TLA+ Json module rejects it
		}
	}()
	sch, iter, _, err := s.DB.Engine.Query(ctx, q)
	if err != nil {
		return Result{Kind: "err", Msg: err.Error()}
	}
	rows, err := sql.RowIterToRows(ctx, iter)
	if err != nil {
		return Result{Kind: "err", Msg: err.Error()}
	}
	return FromRows(sch, rows)
}

// FromRows normalises a drained result.
func FromRows(sch sql.Schema, rows []sql.Row) Result {
	if len(sch) == 1 && sch[0].Name == types.OkResultColumnName && len(rows) == 1 {
		if ok, isOk := rows[0][0].(types.OkResult); isOk {
			return Result{Kind: "ok", Affected: int(ok.RowsAffected), InsertID: int(ok.InsertID), Schema: sch, Rows: [][]sqlast.Value{}}
		}
	}
	out := make([][]sqlast.Value, len(rows))
	for i, r := range rows {
		out[i] = make([]sqlast.Value, len(r))
		for j, v := range r {
			out[i][j] = Norm(v)
		}
	}
	if out == nil {
		out = [][]sqlast.Value{}
	}
	return Result{Kind: "rows", Rows: out, Schema: sch, Raw: rows}
}

// MustExec is for fixture set-up statements.
func (s *Session) MustExec(q string) Result {
	r := s.Exec(q)
	if r.Kind == "err" || r.Kind == "panic" {
		panic(fmt.Sprintf("fixture statement failed: %s: %s", q, r.Msg))
	}
	return r
}

const maxI32 = math.MaxInt32

func intVal(i int64) sqlast.Value {
	if i >= -maxI32 && i <= maxI32 {
		return sqlast.Int(int(i))
	}
	return sqlast.Value{T: "big", S: fmt.Sprint(i)}
}

func floatVal(f float64) sqlast.Value {
	if f == math.Trunc(f) && math.Abs(f) <= maxI32 {
		return sqlast.Int(int(f))
	}
	x := f * 1e4
	if math.Abs(x) < maxI32 {
		return sqlast.Value{T: "f", V: int(math.Round(x))}
	}
	return sqlast.Opaque(fmt.Sprint(f))
}

// Norm converts a Go value returned by the engine into the trace encoding. It only changes the
// representation: integral floats/decimals become integers, other fractions are scaled by 10^4.
func Norm(v interface{}) sqlast.Value {
	switch x := v.(type) {
	case nil:
		return sqlast.Null()
	case bool:
		if x {
			return sqlast.Int(1)
		}
		return sqlast.Int(0)
	case int:
		return intVal(int64(x))
	case int8:
		return intVal(int64(x))
	case int16:
		return intVal(int64(x))
	case int32:
		return intVal(int64(x))
	case int64:
		return intVal(x)
	case uint8:
		return intVal(int64(x))
	case uint16:
		return intVal(int64(x))
	case uint32:
		return intVal(int64(x))
	case uint:
		return intVal(int64(x))
	case uint64:
		if x <= maxI32 {
			return sqlast.Int(int(x))
		}
		return sqlast.Value{T: "big", S: fmt.Sprint(x)}
	case float32:
		return floatVal(float64(x))
	case float64:
		return floatVal(x)
	case string:
		return sqlast.Str(x)
	case []byte:
		return sqlast.Str(string(x))
	case *apd.Decimal:
		f, _ := x.Float64()
		return floatVal(f)
	case apd.Decimal:
		f, _ := x.Float64()
		return floatVal(f)
	case time.Time:
		return sqlast.Opaque(x.Format("2006-01-02 15:04:05.999999"))
	case fmt.Stringer:
		return sqlast.Opaque(x.String())
	}
	return sqlast.Opaque(strings.TrimSpace(fmt.Sprintf("%T:%v", v, v)))
}
