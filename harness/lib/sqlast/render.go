package sqlast

import (
	"fmt"
	"strings"
)

// Renderer turns ASTs into MySQL text. Base tables have columns c1..cW; every table instance gets a
// fresh alias aN; select-list items are aliased x1..xW.
type Renderer struct {
	n int
	// TableAliases collects the aliases given to base tables of the outermost FROM clause (for hints).
	TableAliases []string
	depth        int
	ctes         []string // WITH definitions collected while rendering
	// Params renders literals marked P as `?` and collects their values in ParamVals (in text order).
	Params    bool
	ParamVals []Value
}

type scope []string // SQL name of each ordinal of the current FROM row

func (r *Renderer) alias() string {
	r.n++
	return fmt.Sprintf("a%d", r.n)
}

var opSQL = map[string]string{"eq": "=", "ne": "<>", "lt": "<", "le": "<=", "gt": ">", "ge": ">=", "nseq": "<=>",
	"and": "AND", "or": "OR", "xor": "XOR", "plus": "+", "minus": "-", "times": "*", "div": "DIV", "mod": "%"}

// Query renders a full statement.
func (r *Renderer) Query(q *Query) string {
	body := r.query(q, nil)
	if len(r.ctes) > 0 {
		return "WITH " + strings.Join(r.ctes, ", ") + " " + body
	}
	return body
}

func (r *Renderer) query(q *Query, outer []scope) string {
	var sb strings.Builder
	if q.K == "setop" {
		sb.WriteString("(" + r.query(q.L, outer) + ") " + strings.ToUpper(q.Op))
		if q.All {
			sb.WriteString(" ALL")
		} else {
			sb.WriteString(" DISTINCT")
		}
		sb.WriteString(" (" + r.query(q.R, outer) + ")")
		r.tail(&sb, q)
		return sb.String()
	}
	// the FROM clause is rendered first (its column names are needed by everything else) but comes
	// AFTER the select list in the text: its parameters are spliced in at their textual position
	saved := r.ParamVals
	r.ParamVals = nil
	fromSQL, sc := r.from(q.From, outer)
	fromParams := r.ParamVals
	r.ParamVals = saved
	scopes := append([]scope{sc}, outer...)
	sb.WriteString("SELECT ")
	if q.Hint != "" {
		sb.WriteString("/*+ " + q.Hint + " */ ")
	}
	if q.Distinct {
		sb.WriteString("DISTINCT ")
	}
	for i, p := range q.Proj {
		if i > 0 {
			sb.WriteString(", ")
		}
		sb.WriteString(fmt.Sprintf("%s AS x%d", r.expr(p, scopes), i+1))
	}
	r.ParamVals = append(r.ParamVals, fromParams...)
	if fromSQL != "" {
		sb.WriteString(" FROM " + fromSQL)
	}
	if !isTrueLit(q.Where) {
		sb.WriteString(" WHERE " + r.expr(q.Where, scopes))
	}
	if q.Grouped && len(q.Group) > 0 {
		sb.WriteString(" GROUP BY ")
		for i, g := range q.Group {
			if i > 0 {
				sb.WriteString(", ")
			}
			sb.WriteString(r.expr(g, scopes))
		}
	}
	if q.Grouped && !isTrueLit(q.Having) {
		sb.WriteString(" HAVING " + r.expr(q.Having, scopes))
	}
	r.tail(&sb, q)
	return sb.String()
}

func (r *Renderer) tail(sb *strings.Builder, q *Query) {
	if len(q.Order) > 0 {
		sb.WriteString(" ORDER BY ")
		for i, o := range q.Order {
			if i > 0 {
				sb.WriteString(", ")
			}
			if q.OrdAlias {
				sb.WriteString(fmt.Sprintf("x%d", o.I))
			} else {
				sb.WriteString(fmt.Sprint(o.I))
			}
			if o.Desc {
				sb.WriteString(" DESC")
			}
		}
	}
	if q.Limit >= 0 && r.Params && q.LimitParam {
		sb.WriteString(" LIMIT ?")
		r.ParamVals = append(r.ParamVals, Int(q.Limit))
		if q.Offset > 0 {
			sb.WriteString(" OFFSET ?")
			r.ParamVals = append(r.ParamVals, Int(q.Offset))
		}
	} else if q.Limit >= 0 {
		sb.WriteString(fmt.Sprintf(" LIMIT %d", q.Limit))
		if q.Offset > 0 {
			sb.WriteString(fmt.Sprintf(" OFFSET %d", q.Offset))
		}
	} else if q.Offset > 0 {
		sb.WriteString(fmt.Sprintf(" LIMIT 18446744073709551615 OFFSET %d", q.Offset))
	}
}

func isTrueLit(e *Expr) bool {
	return e == nil || (e.K == "lit" && e.V.T == "i" && fmt.Sprint(e.V.V) == "1")
}

// from renders a FROM item and returns the SQL names of its columns by ordinal.
func (r *Renderer) from(f *From, outer []scope) (string, scope) {
	switch f.K {
	case "dual":
		return "", nil
	case "table":
		a := r.alias()
		if r.depth == 0 && len(outer) == 0 {
			r.TableAliases = append(r.TableAliases, a)
		}
		sc := make(scope, f.W)
		for i := range sc {
			sc[i] = fmt.Sprintf("%s.c%d", a, i+1)
		}
		return fmt.Sprintf("%s AS %s", f.Name, a), sc
	case "cte":
		name := fmt.Sprintf("w%d", len(r.ctes)+1)
		r.depth++
		inner := r.query(f.Q, nil)
		r.depth--
		r.ctes = append(r.ctes, fmt.Sprintf("%s AS (%s)", name, inner))
		a := r.alias()
		sc := make(scope, f.Q.Width())
		for i := range sc {
			sc[i] = fmt.Sprintf("%s.x%d", a, i+1)
		}
		return fmt.Sprintf("%s AS %s", name, a), sc
	case "derived":
		a := r.alias()
		r.depth++
		inner := r.query(f.Q, nil)
		r.depth--
		sc := make(scope, f.Q.Width())
		for i := range sc {
			sc[i] = fmt.Sprintf("%s.x%d", a, i+1)
		}
		return fmt.Sprintf("(%s) AS %s", inner, a), sc
	case "join":
		ls, lsc := r.from(f.L, outer)
		rs, rsc := r.from(f.R, outer)
		sc := append(append(scope{}, lsc...), rsc...)
		if f.R.K == "join" {
			rs = "(" + rs + ")"
		}
		switch f.Jt {
		case "cross":
			return fmt.Sprintf("%s CROSS JOIN %s", ls, rs), sc
		case "inner":
			return fmt.Sprintf("%s INNER JOIN %s ON %s", ls, rs, r.expr(f.On, append([]scope{sc}, outer...))), sc
		case "left":
			return fmt.Sprintf("%s LEFT JOIN %s ON %s", ls, rs, r.expr(f.On, append([]scope{sc}, outer...))), sc
		case "right":
			return fmt.Sprintf("%s RIGHT JOIN %s ON %s", ls, rs, r.expr(f.On, append([]scope{sc}, outer...))), sc
		}
	}
	panic("bad from " + f.K)
}

func (r *Renderer) exprs(es []*Expr, scopes []scope) string {
	parts := make([]string, len(es))
	for i, e := range es {
		parts[i] = r.expr(e, scopes)
	}
	return strings.Join(parts, ", ")
}

func (r *Renderer) expr(e *Expr, scopes []scope) string {
	switch e.K {
	case "lit":
		if r.Params && e.P {
			r.ParamVals = append(r.ParamVals, *e.V)
			return "?"
		}
		return e.V.SQL()
	case "col":
		return scopes[e.D][e.I-1]
	case "op":
		a := func(i int) string { return r.expr(e.A[i], scopes) }
		switch e.Op {
		case "not":
			return "(NOT " + a(0) + ")"
		case "neg":
			return "(- " + a(0) + ")"
		case "isnull":
			return "(" + a(0) + " IS NULL)"
		case "notnull":
			return "(" + a(0) + " IS NOT NULL)"
		case "istrue":
			return "(" + a(0) + " IS TRUE)"
		case "isfalse":
			return "(" + a(0) + " IS FALSE)"
		case "isnottrue":
			return "(" + a(0) + " IS NOT TRUE)"
		case "isnotfalse":
			return "(" + a(0) + " IS NOT FALSE)"
		case "between":
			return "(" + a(0) + " BETWEEN " + a(1) + " AND " + a(2) + ")"
		case "notbetween":
			return "(" + a(0) + " NOT BETWEEN " + a(1) + " AND " + a(2) + ")"
		}
		return "(" + a(0) + " " + opSQL[e.Op] + " " + a(1) + ")"
	case "in":
		s := "(" + r.expr(e.E, scopes)
		if e.Neg {
			s += " NOT"
		}
		return s + " IN (" + r.exprs(e.List, scopes) + "))"
	case "case":
		s := "(CASE"
		for _, w := range e.Whens {
			s += " WHEN " + r.expr(w[0], scopes) + " THEN " + r.expr(w[1], scopes)
		}
		return s + " ELSE " + r.expr(e.Els, scopes) + " END)"
	case "fn":
		return strings.ToUpper(e.F) + "(" + r.exprs(e.A, scopes) + ")"
	case "raw":
		args := make([]interface{}, len(e.A))
		for i, a := range e.A {
			args[i] = r.expr(a, scopes)
		}
		return "(" + fmt.Sprintf(e.Raw, args...) + ")"
	case "agg":
		switch e.F {
		case "countstar":
			return "COUNT(*)"
		}
		d := ""
		if e.Dist {
			d = "DISTINCT "
		}
		return strings.ToUpper(e.F) + "(" + d + r.expr(e.Arg, scopes) + ")"
	case "subq":
		sub := r.query(e.Q, scopes)
		switch e.Kind {
		case "exists":
			return "EXISTS (" + sub + ")"
		case "notexists":
			return "(NOT EXISTS (" + sub + "))"
		case "scalar":
			return "(" + sub + ")"
		case "in":
			return "(" + r.expr(e.E, scopes) + " IN (" + sub + "))"
		case "notin":
			return "(" + r.expr(e.E, scopes) + " NOT IN (" + sub + "))"
		}
	}
	panic("bad expr " + e.K)
}
