// Package sqlast is the Go mirror of the AST records of spec/SQLSem.tla: generators build these
// structures, render SQL text from them (never the reverse) and serialise them as the JSON the
// TLA+ trace modules read.  There is no evaluator here: the meaning lives in the specification.
package sqlast

import (
	"encoding/json"
	"fmt"
	"strings"
)

// Value is a SQL value in the trace encoding: {"t":"n"} | {"t":"i","v":int32} | {"t":"s","v":[cp..]} |
// {"t":"f","v":round(x*1e4)} | {"t":"o","s":"opaque text"}.
type Value struct {
	T string `json:"t"`
	V any    `json:"v,omitempty"`
	S string `json:"s,omitempty"`
	// exact fraction N/D (T == "q"): DECIMAL(p,2) column values are sent as N/100
	N int `json:"-"`
	D int `json:"-"`
}

// MarshalJSON writes {"t":"q","n":N,"d":D} for fractions (n may be 0, so no omitempty) and the plain
// struct otherwise.
func (v Value) MarshalJSON() ([]byte, error) {
	if v.T == "q" {
		return []byte(fmt.Sprintf(`{"t":"q","n":%d,"d":%d}`, v.N, v.D)), nil
	}
	type plain struct {
		T string `json:"t"`
		V any    `json:"v,omitempty"`
		S string `json:"s,omitempty"`
	}
	return json.Marshal(plain{v.T, v.V, v.S})
}

func (v *Value) UnmarshalJSON(b []byte) error {
	var raw struct {
		T string `json:"t"`
		V any    `json:"v"`
		S string `json:"s"`
		N int    `json:"n"`
		D int    `json:"d"`
	}
	if err := json.Unmarshal(b, &raw); err != nil {
		return err
	}
	*v = Value{T: raw.T, V: raw.V, S: raw.S, N: raw.N, D: raw.D}
	return nil
}

// Dec is the DECIMAL(p,2) value n/100.
func Dec(n100 int) Value { return Value{T: "q", N: n100, D: 100} }

func Null() Value     { return Value{T: "n"} }
func Int(i int) Value { return Value{T: "i", V: i} }
func Str(s string) Value {
	cps := make([]int, 0, len(s))
	for _, r := range s {
		cps = append(cps, int(r))
	}
	return Value{T: "s", V: cps}
}
func Opaque(s string) Value { return Value{T: "o", S: s} }

func (v Value) IsNull() bool { return v.T == "n" }

// SQL renders the value as a literal.
func (v Value) SQL() string {
	switch v.T {
	case "n":
		return "NULL"
	case "i":
		return fmt.Sprint(v.V)
	case "q":
		n, sign := v.N, ""
		if n < 0 {
			n, sign = -n, "-"
		}
		return fmt.Sprintf("%s%d.%02d", sign, n/100, n%100)
	case "s":
		var sb strings.Builder
		sb.WriteByte('\'')
		for _, cp := range cpsOf(v.V) {
			if cp == '\'' {
				sb.WriteString("''")
			} else if cp == '\\' {
				sb.WriteString("\\\\")
			} else {
				sb.WriteRune(rune(cp))
			}
		}
		sb.WriteByte('\'')
		return sb.String()
	}
	panic("unrenderable value " + v.T)
}

func cpsOf(v any) []int {
	switch x := v.(type) {
	case []int:
		return x
	case []any:
		out := make([]int, len(x))
		for i, e := range x {
			out[i] = int(e.(float64))
		}
		return out
	case nil:
		return nil
	}
	panic(fmt.Sprintf("bad code points %T", v))
}

// Text returns the Go string of a string value.
func (v Value) Text() string {
	var sb strings.Builder
	for _, cp := range cpsOf(v.V) {
		sb.WriteRune(rune(cp))
	}
	return sb.String()
}

// Expr is one expression node; K selects which fields are meaningful (as in SQLSem.tla).
type Expr struct {
	K     string     `json:"k"`               // lit col op in case fn agg subq
	V     *Value     `json:"v,omitempty"`     // lit
	D     int        `json:"d"`               // col: scope depth
	I     int        `json:"i"`               // col: 1-based ordinal in the FROM row
	C     string     `json:"c,omitempty"`     // col: collation tag none|bin|ci
	Op    string     `json:"op,omitempty"`    // op
	A     []*Expr    `json:"a,omitempty"`     // op / fn arguments
	E     *Expr      `json:"e,omitempty"`     // in / subq left operand
	List  []*Expr    `json:"list,omitempty"`  // in
	Neg   bool       `json:"neg"`             // in
	Whens [][2]*Expr `json:"whens,omitempty"` // case
	Els   *Expr      `json:"els,omitempty"`   // case
	F     string     `json:"f,omitempty"`     // fn / agg name
	Arg   *Expr      `json:"arg,omitempty"`   // agg argument (serialised as "a" by MarshalJSON of aggNode)
	Dist  bool       `json:"dist"`            // agg DISTINCT
	Kind  string     `json:"kind,omitempty"`  // subq
	Q     *Query     `json:"q,omitempty"`     // subq
	Raw   string     `json:"raw,omitempty"`   // raw: SQL template with %s per argument (opaque to the specification)
	// P marks a literal as a statement parameter: rendered as `?` when Renderer.Params is set (the
	// specification always sees the literal value: the meaning of the statement with the value inlined).
	P bool `json:"-"`
}

// Query is a select or a set operation.
type Query struct {
	K        string  `json:"k"` // select | setop
	From     *From   `json:"from,omitempty"`
	Where    *Expr   `json:"where,omitempty"`
	Grouped  bool    `json:"grouped"`
	Group    []*Expr `json:"group"`
	Having   *Expr   `json:"having,omitempty"`
	Proj     []*Expr `json:"proj"`
	Distinct bool    `json:"distinct"`
	Order    []Ord   `json:"order"`
	Limit    int     `json:"limit"`
	Offset   int     `json:"offset"`
	// setop
	Op    string   `json:"op,omitempty"`
	All   bool     `json:"all"`
	L     *Query   `json:"l,omitempty"`
	R     *Query   `json:"r,omitempty"`
	Colls []string `json:"colls,omitempty"`
	// Hint is rendered after SELECT (/*+ ... */); it is not part of the meaning.
	Hint string `json:"hint,omitempty"`
	// OrdAlias renders ORDER BY with the select aliases (x1, x2..) instead of ordinals; same meaning.
	OrdAlias bool `json:"ordalias,omitempty"`
	// LimitParam renders LIMIT (and OFFSET) as `?` parameters when Renderer.Params is set.
	LimitParam bool `json:"-"`
}

type Ord struct {
	I    int  `json:"i"`
	Desc bool `json:"desc"`
}

type From struct {
	K    string `json:"k"` // table | join | derived | dual
	Name string `json:"name,omitempty"`
	Jt   string `json:"jt,omitempty"` // inner left right cross
	L    *From  `json:"l,omitempty"`
	R    *From  `json:"r,omitempty"`
	On   *Expr  `json:"on,omitempty"`
	Q    *Query `json:"q,omitempty"`
	// W is the number of columns of a base table (needed to render column names).
	W int `json:"-"`
}

// ---- constructors

func Lit(v Value) *Expr                      { return &Expr{K: "lit", V: &v} }
func Col(d, i int, c string) *Expr           { return &Expr{K: "col", D: d, I: i, C: c} }
func Op(op string, a ...*Expr) *Expr         { return &Expr{K: "op", Op: op, A: a} }
func Fn(f string, a ...*Expr) *Expr          { return &Expr{K: "fn", F: f, A: a} }
func In(e *Expr, neg bool, l ...*Expr) *Expr { return &Expr{K: "in", E: e, List: l, Neg: neg} }
func Agg(f string, a *Expr, dist bool) *Expr { return &Expr{K: "agg", F: f, Arg: a, Dist: dist} }
func Subq(kind string, e *Expr, q *Query) *Expr {
	if e == nil {
		e = True()
	}
	return &Expr{K: "subq", Kind: kind, E: e, Q: q}
}
func True() *Expr                             { return Lit(Int(1)) }
func Case(els *Expr, whens ...[2]*Expr) *Expr { return &Expr{K: "case", Whens: whens, Els: els} }

func Table(name string, w int) *From { return &From{K: "table", Name: name, W: w} }
func Join(jt string, l, r *From, on *Expr) *From {
	if on == nil {
		on = True()
	}
	return &From{K: "join", Jt: jt, L: l, R: r, On: on}
}
func Derived(q *Query) *From { return &From{K: "derived", Q: q} }

// CTE references a common table expression whose body is q (rendered in a WITH clause).
func CTE(q *Query) *From { return &From{K: "cte", Q: q} }

func Select(from *From, where *Expr, proj ...*Expr) *Query {
	if where == nil {
		where = True()
	}
	return &Query{K: "select", From: from, Where: where, Group: []*Expr{}, Having: True(), Proj: proj,
		Order: []Ord{}, Limit: -1}
}

func SetOp(op string, all bool, l, r *Query, colls []string) *Query {
	return &Query{K: "setop", Op: op, All: all, L: l, R: r, Colls: colls, Order: []Ord{}, Limit: -1,
		Group: []*Expr{}, Proj: []*Expr{}}
}

// Width of a query's result.
func (q *Query) Width() int {
	if q.K == "setop" {
		return q.L.Width()
	}
	return len(q.Proj)
}

func (f *From) Width() int {
	switch f.K {
	case "table":
		return f.W
	case "join":
		return f.L.Width() + f.R.Width()
	case "derived", "cte":
		return f.Q.Width()
	case "dual":
		return 0
	}
	panic("bad from")
}

// RawExpr is an expression the specification does not interpret: tmpl has one %s per argument.
func RawExpr(tmpl string, a ...*Expr) *Expr { return &Expr{K: "raw", Raw: tmpl, A: a} }

// HasRaw reports whether e contains an uninterpreted node.
func HasRaw(e *Expr) bool {
	if e == nil {
		return false
	}
	if e.K == "raw" {
		return true
	}
	for _, a := range e.A {
		if HasRaw(a) {
			return true
		}
	}
	for _, a := range e.List {
		if HasRaw(a) {
			return true
		}
	}
	for _, w := range e.Whens {
		if HasRaw(w[0]) || HasRaw(w[1]) {
			return true
		}
	}
	return HasRaw(e.E) || HasRaw(e.Arg) || HasRaw(e.Els)
}

// CloneExpr / CloneQuery / CloneFrom make deep copies (including the non-serialised P / W / hint fields).
func CloneExpr(e *Expr) *Expr {
	if e == nil {
		return nil
	}
	c := *e
	if e.V != nil {
		v := *e.V
		c.V = &v
	}
	c.A = nil
	for _, a := range e.A {
		c.A = append(c.A, CloneExpr(a))
	}
	c.List = nil
	for _, a := range e.List {
		c.List = append(c.List, CloneExpr(a))
	}
	c.Whens = nil
	for _, w := range e.Whens {
		c.Whens = append(c.Whens, [2]*Expr{CloneExpr(w[0]), CloneExpr(w[1])})
	}
	c.E, c.Arg, c.Els, c.Q = CloneExpr(e.E), CloneExpr(e.Arg), CloneExpr(e.Els), CloneQuery(e.Q)
	return &c
}

func CloneFrom(f *From) *From {
	if f == nil {
		return nil
	}
	c := *f
	c.L, c.R, c.On, c.Q = CloneFrom(f.L), CloneFrom(f.R), CloneExpr(f.On), CloneQuery(f.Q)
	return &c
}

func CloneQuery(q *Query) *Query {
	if q == nil {
		return nil
	}
	c := *q
	c.From, c.Where, c.Having = CloneFrom(q.From), CloneExpr(q.Where), CloneExpr(q.Having)
	c.Group, c.Proj = nil, nil
	for _, e := range q.Group {
		c.Group = append(c.Group, CloneExpr(e))
	}
	for _, e := range q.Proj {
		c.Proj = append(c.Proj, CloneExpr(e))
	}
	if c.Group == nil {
		c.Group = []*Expr{}
	}
	if c.Proj == nil {
		c.Proj = []*Expr{}
	}
	c.Order = append([]Ord{}, q.Order...)
	c.L, c.R = CloneQuery(q.L), CloneQuery(q.R)
	return &c
}

// WalkExprs calls f on every expression node reachable from q.
func WalkExprs(q *Query, f func(e *Expr)) {
	if q == nil {
		return
	}
	var fe func(e *Expr)
	var ff func(fr *From)
	fe = func(e *Expr) {
		if e == nil {
			return
		}
		f(e)
		for _, a := range e.A {
			fe(a)
		}
		for _, a := range e.List {
			fe(a)
		}
		for _, w := range e.Whens {
			fe(w[0])
			fe(w[1])
		}
		fe(e.E)
		fe(e.Arg)
		fe(e.Els)
		WalkExprs(e.Q, f)
	}
	ff = func(fr *From) {
		if fr == nil {
			return
		}
		ff(fr.L)
		ff(fr.R)
		fe(fr.On)
		WalkExprs(fr.Q, f)
	}
	ff(q.From)
	fe(q.Where)
	fe(q.Having)
	for _, e := range q.Proj {
		fe(e)
	}
	for _, e := range q.Group {
		fe(e)
	}
	WalkExprs(q.L, f)
	WalkExprs(q.R, f)
}
