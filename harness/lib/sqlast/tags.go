package sqlast

import "sort"

// Tags lists shape features of a query (used to classify disagreements for the known-findings
// file; never used by the specification).
func Tags(q *Query) []string {
	m := map[string]bool{}
	tagQuery(q, m, true)
	out := make([]string, 0, len(m))
	for k := range m {
		out = append(out, k)
	}
	sort.Strings(out)
	return out
}

func tagQuery(q *Query, m map[string]bool, top bool) {
	if q == nil {
		return
	}
	pre := ""
	if !top {
		pre = "sub."
	}
	if q.K == "setop" {
		m[pre+"setop:"+q.Op] = true
		if q.All {
			m[pre+"setop-all"] = true
		}
		tagQuery(q.L, m, false)
		tagQuery(q.R, m, false)
	} else {
		if q.Distinct {
			m[pre+"distinct"] = true
		}
		if q.Grouped {
			m[pre+"grouped"] = true
			if len(q.Group) == 0 {
				m[pre+"global-agg"] = true
			}
			if !isTrueLit(q.Having) {
				m[pre+"having"] = true
			}
		}
		tagFrom(q.From, m)
		tagExpr(q.Where, m)
		tagExpr(q.Having, m)
		for _, p := range q.Proj {
			tagExpr(p, m)
		}
	}
	if len(q.Order) > 0 {
		if q.OrdAlias {
			m[pre+"order-alias"] = true
		} else {
			m[pre+"order-ordinal"] = true
		}
	}
	if q.Limit >= 0 {
		m[pre+"limit"] = true
	}
	if q.Offset > 0 {
		m[pre+"offset"] = true
	}
}

func tagFrom(f *From, m map[string]bool) {
	if f == nil {
		return
	}
	switch f.K {
	case "join":
		m["join:"+f.Jt] = true
		tagFrom(f.L, m)
		tagFrom(f.R, m)
		tagExpr(f.On, m)
	case "cte":
		m["cte"] = true
		tagQuery(f.Q, m, false)
	case "derived":
		m["derived"] = true
		tagQuery(f.Q, m, false)
	}
}

func tagExpr(e *Expr, m map[string]bool) {
	if e == nil {
		return
	}
	switch e.K {
	case "col":
		if e.C == "ci" {
			m["ci"] = true
		}
		if e.D > 0 {
			m["correlated"] = true
		}
	case "op":
		m["op:"+e.Op] = true
	case "in":
		m["inlist"] = true
	case "raw":
		m["raw"] = true
	case "fn":
		m["fn:"+e.F] = true
	case "agg":
		m["agg:"+e.F] = true
		if e.Dist {
			m["agg-distinct"] = true
		}
		tagExpr(e.Arg, m)
	case "subq":
		m["subq:"+e.Kind] = true
		tagQuery(e.Q, m, false)
	case "case":
		m["case"] = true
		for _, w := range e.Whens {
			tagExpr(w[0], m)
			tagExpr(w[1], m)
		}
		tagExpr(e.Els, m)
	}
	for _, a := range e.A {
		tagExpr(a, m)
	}
	tagExpr(e.E, m)
	for _, a := range e.List {
		tagExpr(a, m)
	}
}
