package dml2gen

import (
	"fmt"
	"math/rand"
	"strings"

	. "gmsverif/lib/dmlast"
	"gmsverif/lib/sqlast"
)

// FK is one foreign key of the catalog (the record of spec/SQLForeignKeys.tla).
type FK struct {
	Name   string `json:"name"`
	Child  string `json:"child"`
	CCols  []int  `json:"ccols"`
	Parent string `json:"parent"`
	PCols  []int  `json:"pcols"`
	OnDel  string `json:"ondel"`
	OnUpd  string `json:"onupd"`
}

var actSQL = map[string]string{"restrict": "RESTRICT", "noaction": "NO ACTION", "cascade": "CASCADE", "setnull": "SET NULL"}

// SQL renders ALTER TABLE .. ADD CONSTRAINT .. FOREIGN KEY.
func (f FK) SQL() string {
	cols := func(cs []int) string {
		var s []string
		for _, c := range cs {
			s = append(s, fmt.Sprintf("c%d", c))
		}
		return strings.Join(s, ", ")
	}
	return fmt.Sprintf("ALTER TABLE %s ADD CONSTRAINT %s FOREIGN KEY (%s) REFERENCES %s (%s) ON DELETE %s ON UPDATE %s",
		f.Child, f.Name, cols(f.CCols), f.Parent, cols(f.PCols), actSQL[f.OnDel], actSQL[f.OnUpd])
}

// FKStep is one step of a foreign-key history: a DML statement (op "stmt") or SET foreign_key_checks (op "fkc").
type FKStep struct {
	ID   int    `json:"id"`
	Op   string `json:"op"`
	Val  int    `json:"val"`
	Stmt *Stmt  `json:"stmt"`
}

type FKHistory struct {
	Graph  string
	Names  []string
	Tables map[string]*Table
	FKs    []FK
	Steps  []FKStep
}

type fkGen struct {
	r *rand.Rand
	h *FKHistory
}

func intCol(notnull bool) Col {
	c := IntCol()
	c.NotNull = notnull
	return c
}

func (g *fkGen) table(name string, ncols int, pk []int) *Table {
	t := &Table{PK: pk}
	for i := 1; i <= ncols; i++ {
		inPK := false
		for _, p := range pk {
			inPK = inPK || p == i
		}
		t.Cols = append(t.Cols, intCol(inPK))
	}
	g.h.Names = append(g.h.Names, name)
	g.h.Tables[name] = t.Fix()
	return t
}

var acts = []string{"restrict", "noaction", "cascade", "setnull"}

func (g *fkGen) fk(child string, ccols []int, parent string, pcols []int) {
	f := FK{Name: fmt.Sprintf("fk%d", len(g.h.FKs)+1), Child: child, CCols: ccols, Parent: parent, PCols: pcols}
	f.OnDel = acts[g.r.Intn(4)]
	f.OnUpd = acts[g.r.Intn(4)]
	if child == parent {
		// ON UPDATE CASCADE / SET NULL that recurse into the same table act like RESTRICT in MySQL (murky): not generated
		f.OnUpd = acts[g.r.Intn(2)]
	}
	if f.OnDel != "setnull" && f.OnUpd != "setnull" && g.r.Intn(5) == 0 {
		for _, c := range ccols {
			g.h.Tables[child].Cols[c-1].NotNull = true
		}
	}
	g.h.FKs = append(g.h.FKs, f)
}

func (g *fkGen) schema() {
	switch g.r.Intn(6) {
	case 0:
		g.h.Graph = "chain"
		g.table("t1", 2, []int{1})
		g.table("t2", 3, []int{1})
		g.table("t3", 2, []int{1})
		g.fk("t2", []int{2}, "t1", []int{1})
		g.fk("t3", []int{2}, "t2", []int{1})
	case 1:
		g.h.Graph = "diamond"
		g.table("t1", 2, []int{1})
		g.table("t2", 2, []int{1})
		g.table("t3", 2, []int{1})
		g.table("t4", 3, []int{1})
		g.fk("t2", []int{2}, "t1", []int{1})
		g.fk("t3", []int{2}, "t1", []int{1})
		g.fk("t4", []int{2}, "t2", []int{1})
		g.fk("t4", []int{3}, "t3", []int{1})
	case 2:
		g.h.Graph = "self"
		g.table("t1", 3, []int{1})
		g.fk("t1", []int{2}, "t1", []int{1})
	case 3:
		g.h.Graph = "composite"
		g.table("t1", 3, []int{1, 2})
		g.table("t2", 4, []int{1})
		g.fk("t2", []int{2, 3}, "t1", []int{1, 2})
	case 4:
		g.h.Graph = "selfchain"
		g.table("t1", 3, []int{1})
		g.table("t2", 2, []int{1})
		g.fk("t1", []int{2}, "t1", []int{1})
		g.fk("t2", []int{2}, "t1", []int{1})
	default:
		g.h.Graph = "chain4"
		g.table("t1", 1, []int{1})
		g.table("t2", 2, []int{1})
		g.table("t3", 2, []int{1})
		g.table("t4", 2, []int{1})
		g.fk("t2", []int{2}, "t1", []int{1})
		g.fk("t3", []int{2}, "t2", []int{1})
		g.fk("t4", []int{2}, "t3", []int{1})
	}
}

func (g *fkGen) isFKCol(tn string, c int) bool {
	for _, f := range g.h.FKs {
		if f.Child == tn {
			for _, x := range f.CCols {
				if x == c {
					return true
				}
			}
		}
	}
	return false
}

// val draws a value for column c of table tn: foreign-key columns mostly name keys the parents usually
// hold (0..2), sometimes a key they rarely hold (3..4) or NULL; primary keys range over 0..4.
func (g *fkGen) val(tn string, c int) sqlast.Value {
	t := g.h.Tables[tn]
	if g.isFKCol(tn, c) {
		switch k := g.r.Intn(20); {
		case k < 2 && !t.Cols[c-1].NotNull:
			return sqlast.Null()
		case k < 4:
			return sqlast.Int(3 + g.r.Intn(2))
		default:
			return sqlast.Int(g.r.Intn(3))
		}
	}
	if !t.Cols[c-1].NotNull && g.r.Intn(6) == 0 {
		return sqlast.Null()
	}
	return sqlast.Int(g.r.Intn(5))
}

func (g *fkGen) where(tn string) *Expr {
	t := g.h.Tables[tn]
	c := 1 + g.r.Intn(len(t.Cols))
	ref := ColRef(c, t.Cols[c-1])
	switch g.r.Intn(6) {
	case 0:
		return sqlast.True()
	case 1:
		return sqlast.In(ref, false, Lit(sqlast.Int(g.r.Intn(5))), Lit(sqlast.Int(g.r.Intn(5))))
	case 2:
		return sqlast.Op("le", ref, Lit(sqlast.Int(g.r.Intn(5))))
	default:
		return sqlast.Op("eq", ColRef(1, t.Cols[0]), Lit(sqlast.Int(g.r.Intn(5))))
	}
}

func (g *fkGen) isParent(tn string) bool {
	for _, f := range g.h.FKs {
		if f.Parent == tn {
			return true
		}
	}
	return false
}

func (g *fkGen) stmt() *Stmt {
	tn := g.h.Names[g.r.Intn(len(g.h.Names))]
	kind := g.r.Intn(20)
	if kind >= 7 && kind < 16 && !g.isParent(tn) && g.r.Intn(3) > 0 {
		// deletes and key updates mostly hit referenced tables
		for try := 0; try < 4 && !g.isParent(tn); try++ {
			tn = g.h.Names[g.r.Intn(len(g.h.Names))]
		}
	}
	t := g.h.Tables[tn]
	all := make([]int, len(t.Cols))
	for i := range all {
		all[i] = i + 1
	}
	switch k := kind; {
	case k < 7: // INSERT (1-3 rows)
		n := 1
		if g.r.Intn(3) == 0 {
			n = 2 + g.r.Intn(2)
		}
		var rows [][]Cell
		for i := 0; i < n; i++ {
			row := make([]Cell, len(all))
			for j, c := range all {
				row[j] = ValCell(g.val(tn, c))
			}
			rows = append(rows, row)
		}
		return Insert(tn, "plain", all, rows, nil)
	case k < 12: // DELETE
		var order []sqlast.Ord
		limit := -1
		if g.r.Intn(5) == 0 {
			for _, p := range t.PK {
				order = append(order, sqlast.Ord{I: p})
			}
			limit = 1 + g.r.Intn(2)
		}
		return Delete(tn, g.where(tn), order, limit)
	case k < 16: // UPDATE of a key column: one row when it is the primary key
		c := t.PK[g.r.Intn(len(t.PK))]
		where := sqlast.Op("eq", ColRef(1, t.Cols[0]), Lit(sqlast.Int(g.r.Intn(5))))
		if len(t.PK) > 1 {
			where = sqlast.Op("and", where, sqlast.Op("eq", ColRef(2, t.Cols[1]), Lit(sqlast.Int(g.r.Intn(5)))))
		}
		return Update(tn, false, []SetItem{{Col: c, E: Lit(sqlast.Int(g.r.Intn(5)))}}, where, nil, -1)
	default: // UPDATE of a non-primary-key column (foreign-key columns included), any rows
		var cands []int
		for _, c := range all {
			inPK := false
			for _, p := range t.PK {
				inPK = inPK || p == c
			}
			if !inPK {
				cands = append(cands, c)
			}
		}
		if len(cands) == 0 {
			return Delete(tn, g.where(tn), nil, -1)
		}
		c := cands[g.r.Intn(len(cands))]
		set := []SetItem{{Col: c, E: Lit(g.val(tn, c))}}
		if g.isFKCol(tn, c) && g.r.Intn(3) == 0 {
			// the second column of a composite key too
			for _, c2 := range cands {
				if c2 != c && g.isFKCol(tn, c2) {
					set = append(set, SetItem{Col: c2, E: Lit(g.val(tn, c2))})
				}
			}
		}
		return Update(tn, false, set, g.where(tn), nil, -1)
	}
}

// C18History generates one foreign-key history.
func C18History(seed int64) *FKHistory {
	g := &fkGen{r: rand.New(rand.NewSource(seed ^ 0x18f18)), h: &FKHistory{Tables: map[string]*Table{}}}
	g.schema()
	n := 25 + g.r.Intn(20)
	// parents first, one row per statement, so that the children find rows to reference
	for _, tn := range g.h.Names {
		t := g.h.Tables[tn]
		all := make([]int, len(t.Cols))
		for i := range all {
			all[i] = i + 1
		}
		for i := 0; i < 3; i++ {
			row := make([]Cell, len(all))
			for j, c := range all {
				row[j] = ValCell(g.val(tn, c))
				if g.isFKCol(tn, c) && !row[j].E.V.IsNull() {
					row[j] = ValCell(sqlast.Int(g.r.Intn(i + 1)))
				}
			}
			row[0] = ValCell(sqlast.Int(i))
			if len(t.PK) > 1 {
				row[1] = ValCell(sqlast.Int(i % 2))
			}
			g.h.Steps = append(g.h.Steps, FKStep{Op: "stmt", Stmt: Insert(tn, "plain", all, [][]Cell{row}, nil)})
		}
	}
	n += len(g.h.Steps)
	off := false
	for len(g.h.Steps) < n {
		if len(g.h.Steps) > n/2 && g.r.Intn(20) == 0 {
			off = !off
			v := 1
			if off {
				v = 0
			}
			g.h.Steps = append(g.h.Steps, FKStep{Op: "fkc", Val: v, Stmt: (&Stmt{}).Fix()})
			continue
		}
		g.h.Steps = append(g.h.Steps, FKStep{Op: "stmt", Stmt: g.stmt()})
	}
	return g.h
}
