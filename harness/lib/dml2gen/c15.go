// Package dml2gen composes the DML generators of gmsverif/lib/dmlgen into the histories of the
// checks C15 / C17 / C18 / C23 (fault enumeration, transactions, foreign keys, triggers).
// Like dmlgen it builds ASTs only; SQL text is rendered from them and the meaning lives in the
// specification.
package dml2gen

import (
	"fmt"
	"math/rand"

	. "gmsverif/lib/dmlast"
	"gmsverif/lib/dmlgen"
	"gmsverif/lib/sqlast"
)

// C15Profile: tables with secondary / unique indexes, NOT NULL and CHECKs, every statement family;
// the shapes of the recorded DML findings are switched off (BadPrinted / BadCI / BadBail = 0).
func C15Profile() dmlgen.Profile {
	return dmlgen.Profile{Name: "c15", Tables: 1, PKNone: 1, PKSingle: 5, PKComposite: 3, StrKeyP: 0.3, CIP: 0.3, UniqP: 0.6, UniqMultiP: 0.3,
		PrefixP: 0.15, IdxP: 0.7, NotNullP: 0.25, DefaultP: 0.2, CheckP: 0.35, GenP: 0.15,
		W:      map[string]int{"insert": 34, "ignore": 10, "replace": 10, "odku": 8, "update": 22, "updignore": 5, "delete": 12, "truncate": 1},
		ReuseP: 0.55, NullP: 0.15, NullNotNull: 0.08, OmitP: 0.25, KeyUpdP: 0.45, Probes: true, MinLen: 8, MaxLen: 16}
}

// Steer drops the statement shapes of DML defects that are already recorded under C13 / C14 / C19
// (known_findings.jsonl), the way dmlgen steers around them with its Bad* probabilities:
//   - UPDATE IGNORE without ORDER BY (C13-update-ignore-revisits: edits the table under its own scan);
//   - IGNORE statements on tables with a stored generated column (C19-insert-ignore-generated).
func Steer(h *dmlgen.History) {
	var out []*Stmt
	for _, s := range h.Stmts {
		t := h.Tables[s.T]
		if s.K == "update" && s.Ignore && len(s.Order) == 0 {
			continue
		}
		if t != nil && hasGen(t) && ((s.K == "insert" && s.Mode == "ignore") || (s.K == "update" && s.Ignore)) {
			continue
		}
		out = append(out, s)
	}
	h.Stmts = out
}

func hasGen(t *Table) bool {
	for _, c := range t.Cols {
		if c.HasGen {
			return true
		}
	}
	return false
}

// Placed builds, for one table, families of multi-row statements whose natural failure sits at
// every row position j of m: an anchor row is inserted first (fresh key), then for every j the
// statement INSERT .. VALUES r1..rm where r_j repeats the anchor's primary key (duplicate at row j)
// or carries NULL in a NOT NULL column (at row j), all other rows fresh; for an INT single-column
// primary key also UPDATE .. SET pk = pk + 10 .. ORDER BY pk colliding with the anchor at row j.
// Values are fresh by a per-history counter, so the families do not depend on reading the table.
type Placed struct {
	R   *rand.Rand
	ctr int
}

func (p *Placed) fresh(c Col) Value {
	p.ctr++
	if c.Ty == "i" {
		return sqlast.Int(100 + p.ctr)
	}
	return sqlast.Str(fmt.Sprintf("q%d", p.ctr))
}

func insertable(t *Table) []int {
	var out []int
	for i, c := range t.Cols {
		if !c.HasGen {
			out = append(out, i+1)
		}
	}
	return out
}

func (p *Placed) freshRow(t *Table, cols []int) []Cell {
	row := make([]Cell, len(cols))
	for i, c := range cols {
		row[i] = ValCell(p.fresh(t.Cols[c-1]))
	}
	return row
}

// Family returns the statements of one family for table tn (possibly none).
func (p *Placed) Family(tn string, t *Table) []*Stmt {
	cols := insertable(t)
	if t.AutoCol() > 0 || len(cols) == 0 {
		return nil
	}
	pos := func(c int) int {
		for i, x := range cols {
			if x == c {
				return i
			}
		}
		return -1
	}
	var out []*Stmt
	m := 2 + p.R.Intn(2)
	mode := "plain"
	if p.R.Intn(4) == 0 && !hasGen(t) {
		mode = "ignore"
	}
	kind := p.R.Intn(3)
	switch {
	case kind <= 1 && len(t.PK) > 0:
		anchor := p.freshRow(t, cols)
		out = append(out, Insert(tn, "plain", cols, [][]Cell{anchor}, nil))
		if kind == 1 && len(t.PK) == 1 && t.Cols[t.PK[0]-1].Ty == "i" && pos(t.PK[0]) >= 0 {
			// UPDATE family: rows with keys b+1..b+m, the anchor of statement j sits at key (b+j)+10
			pk := t.PK[0]
			for j := 1; j <= m; j++ {
				p.ctr += 30
				b := 100 + p.ctr
				var rows [][]Cell
				for i := 1; i <= m; i++ {
					r := p.freshRow(t, cols)
					r[pos(pk)] = ValCell(sqlast.Int(b + i))
					rows = append(rows, r)
				}
				a := p.freshRow(t, cols)
				a[pos(pk)] = ValCell(sqlast.Int(b + j + 10))
				rows = append(rows, a)
				out = append(out, Insert(tn, "plain", cols, rows, nil))
				ref := ColRef(pk, t.Cols[pk-1])
				where := sqlast.Op("and", sqlast.Op("gt", ref, Lit(sqlast.Int(b))), sqlast.Op("le", ref, Lit(sqlast.Int(b+m))))
				out = append(out, Update(tn, false, []SetItem{{Col: pk, E: sqlast.Op("plus", ref, Lit(sqlast.Int(10)))}}, where,
					[]sqlast.Ord{{I: pk}}, -1))
			}
			p.ctr += 30
			return out
		}
		for j := 1; j <= m; j++ {
			var rows [][]Cell
			for i := 1; i <= m; i++ {
				r := p.freshRow(t, cols)
				if i == j {
					for _, k := range t.PK {
						if q := pos(k); q >= 0 {
							r[q] = anchor[q]
						}
					}
				}
				rows = append(rows, r)
			}
			out = append(out, Insert(tn, mode, cols, rows, nil))
		}
	default:
		// NOT NULL at row j
		nn := -1
		for _, c := range cols {
			if t.Cols[c-1].NotNull {
				nn = c
			}
		}
		if nn < 0 {
			return nil
		}
		for j := 1; j <= m; j++ {
			var rows [][]Cell
			for i := 1; i <= m; i++ {
				r := p.freshRow(t, cols)
				if i == j {
					r[pos(nn)] = ValCell(sqlast.Null())
				}
				rows = append(rows, r)
			}
			out = append(out, Insert(tn, mode, cols, rows, nil))
		}
	}
	return out
}

// C15History generates history h of a run: a steered dmlgen history with placed-failure families
// spliced in at random positions.
func C15History(seed int64) (*dmlgen.History, map[string]*Table) {
	p := C15Profile()
	h, initial := dmlgen.Generate(seed, p)
	Steer(h)
	r := rand.New(rand.NewSource(seed ^ 0x5eed))
	pl := &Placed{R: r}
	nf := 1 + r.Intn(2)
	for f := 0; f < nf; f++ {
		tn := h.Names[r.Intn(len(h.Names))]
		fam := pl.Family(tn, initial[tn])
		if len(fam) == 0 {
			continue
		}
		at := 0
		if len(h.Stmts) > 0 {
			at = r.Intn(len(h.Stmts) + 1)
		}
		var out []*Stmt
		out = append(out, h.Stmts[:at]...)
		out = append(out, fam...)
		out = append(out, h.Stmts[at:]...)
		h.Stmts = out
	}
	return h, initial
}

// NewPlaced starts the fresh-value counter at `start` (families generated elsewhere in a history must not
// collide with each other).
func NewPlaced(r *rand.Rand, start int) *Placed { return &Placed{R: r, ctr: start} }

// Insertable lists the columns an INSERT may name (not the generated ones).
func Insertable(t *Table) []int { return insertable(t) }

// FreshRows returns m VALUES tuples of fresh values for the columns cols.
func (p *Placed) FreshRows(t *Table, cols []int, m int) [][]Cell {
	var rows [][]Cell
	for i := 0; i < m; i++ {
		rows = append(rows, p.freshRow(t, cols))
	}
	return rows
}
