package dml2gen

import (
	"fmt"
	"math/rand"
	"strings"

	. "gmsverif/lib/dmlast"
	"gmsverif/lib/sqlast"
)

// TrigStmt is one statement of a trigger body (spec/SQLTriggers.tla): audit | set | signal | uvar | ins | upd | del.
// E / Vals are expressions over the row OLD.c1..OLD.cw ++ NEW.c1..NEW.cw (ordinals 1..2w) of the firing row;
// T is the table an ins / upd / del statement writes (another table, with its own triggers), Op eq | ge.
type TrigStmt struct {
	K    string  `json:"k"`
	Col  int     `json:"col"`
	E    *Expr   `json:"e"`
	T    string  `json:"t"`
	Vals []*Expr `json:"vals"`
	Op   string  `json:"op"`
}

// Trigger as created; Rel / Other: FOLLOWS | PRECEDES an earlier trigger of the same table, timing and event.
// Body is a BEGIN .. END block of 1..3 statements.
type Trigger struct {
	Name   string     `json:"name"`
	TID    int        `json:"tid"`
	Table  string     `json:"table"`
	Timing string     `json:"timing"`
	Event  string     `json:"event"`
	Rel    string     `json:"rel"`
	Other  string     `json:"other"`
	Body   []TrigStmt `json:"body"`
}

const TrigAudit = "au"
const TrigW = 3

// TrigTables: t1 may cascade into t2 and t3, t2 into t3 (MySQL rejects a body that writes the table in use).
var TrigTables = []string{"t1", "t2", "t3"}

func (s *TrigStmt) fix() {
	if s.E == nil {
		s.E = Lit(sqlast.Int(0))
	}
	if s.Vals == nil {
		s.Vals = []*Expr{}
	}
}

// TrigExprSQL renders a trigger expression: ordinals 1..w are OLD.c, w+1..2w NEW.c.
func TrigExprSQL(e *Expr, w int) string {
	switch e.K {
	case "lit":
		return e.V.SQL()
	case "col":
		if e.I > w {
			return fmt.Sprintf("NEW.c%d", e.I-w)
		}
		return fmt.Sprintf("OLD.c%d", e.I)
	case "op":
		ops := map[string]string{"eq": "=", "plus": "+", "times": "*", "minus": "-", "ge": ">=", "and": "AND"}
		return "(" + TrigExprSQL(e.A[0], w) + " " + ops[e.Op] + " " + TrigExprSQL(e.A[1], w) + ")"
	case "fn":
		var as []string
		for _, a := range e.A {
			as = append(as, TrigExprSQL(a, w))
		}
		return "COALESCE(" + strings.Join(as, ", ") + ")"
	}
	panic("trigger expression " + e.K)
}

func (s TrigStmt) sql(t Trigger, w int) string {
	switch s.K {
	case "audit":
		cols, vals := "tid", fmt.Sprint(t.TID)
		for i := 1; i <= w; i++ {
			cols += fmt.Sprintf(", o%d", i)
			if t.Event == "insert" {
				vals += ", NULL"
			} else {
				vals += fmt.Sprintf(", OLD.c%d", i)
			}
		}
		for i := 1; i <= w; i++ {
			cols += fmt.Sprintf(", n%d", i)
			if t.Event == "delete" {
				vals += ", NULL"
			} else {
				vals += fmt.Sprintf(", NEW.c%d", i)
			}
		}
		return fmt.Sprintf("INSERT INTO %s (%s) VALUES (%s)", TrigAudit, cols, vals)
	case "set":
		return fmt.Sprintf("SET NEW.c%d = %s", s.Col, TrigExprSQL(s.E, w))
	case "signal":
		return fmt.Sprintf("IF %s THEN SIGNAL SQLSTATE '45000' SET MESSAGE_TEXT = 'verif-signal'; END IF", TrigExprSQL(s.E, w))
	case "uvar":
		return "SET @cnt = @cnt + 1"
	case "ins":
		var vs []string
		for _, v := range s.Vals {
			vs = append(vs, TrigExprSQL(v, w))
		}
		return fmt.Sprintf("INSERT INTO %s (c1, c2, c3) VALUES (%s)", s.T, strings.Join(vs, ", "))
	case "upd":
		return fmt.Sprintf("UPDATE %s SET c3 = (COALESCE(c3, 0) + 1) WHERE (c1 %s %s) ORDER BY c1", s.T, map[string]string{"eq": "=", "ge": ">="}[s.Op], TrigExprSQL(s.E, w))
	case "del":
		return fmt.Sprintf("DELETE FROM %s WHERE (c1 %s %s) ORDER BY c1", s.T, map[string]string{"eq": "=", "ge": ">="}[s.Op], TrigExprSQL(s.E, w))
	}
	panic("trigger statement " + s.K)
}

// SQL renders CREATE TRIGGER.
func (t Trigger) SQL(w int) string {
	order := ""
	if t.Rel == "follows" {
		order = " FOLLOWS " + t.Other
	} else if t.Rel == "precedes" {
		order = " PRECEDES " + t.Other
	}
	head := fmt.Sprintf("CREATE TRIGGER %s %s %s ON %s FOR EACH ROW%s ", t.Name, map[string]string{"before": "BEFORE", "after": "AFTER"}[t.Timing],
		map[string]string{"insert": "INSERT", "update": "UPDATE", "delete": "DELETE"}[t.Event], t.Table, order)
	if len(t.Body) == 1 && t.Body[0].K != "signal" {
		return head + t.Body[0].sql(t, w)
	}
	var ss []string
	for _, s := range t.Body {
		ss = append(ss, s.sql(t, w))
	}
	return head + "BEGIN " + strings.Join(ss, "; ") + "; END"
}

// AuditCreateSQL: the audit table (seq orders the entries).
func AuditCreateSQL(w int) string {
	s := "CREATE TABLE " + TrigAudit + " (seq INT NOT NULL AUTO_INCREMENT PRIMARY KEY, tid INT"
	for i := 1; i <= w; i++ {
		s += fmt.Sprintf(", o%d INT", i)
	}
	for i := 1; i <= w; i++ {
		s += fmt.Sprintf(", n%d INT", i)
	}
	return s + ")"
}

type TrigHistory struct {
	Names  []string
	Tables map[string]*Table
	Trigs  []Trigger
	Stmts  []*Stmt
}

// Extra returns the set-up statements after the base tables: audit table, @cnt, triggers.
func (h *TrigHistory) Extra() []string {
	out := []string{AuditCreateSQL(TrigW), "SET @cnt = 0"}
	for _, t := range h.Trigs {
		out = append(out, t.SQL(TrigW))
	}
	return out
}

type trigGen struct {
	r *rand.Rand
	h *TrigHistory
}

func tlit(v int) *Expr    { return Lit(sqlast.Int(v)) }
func told(i int) *Expr    { return sqlast.Col(0, i, "none") }
func tnew(i int) *Expr    { return sqlast.Col(0, TrigW+i, "none") }
func coal0(e *Expr) *Expr { return sqlast.Fn("coalesce", e, tlit(0)) }

// row(i): the column of the firing row an expression may read (NEW unless the event is DELETE)
func rowRef(event string, i int) *Expr {
	if event == "delete" {
		return told(i)
	}
	return tnew(i)
}

func lower(table string) []string {
	switch table {
	case "t1":
		return []string{"t2", "t3"}
	case "t2":
		return []string{"t3"}
	}
	return nil
}

func (g *trigGen) dml(table, event, kind, target string) TrigStmt {
	key := rowRef(event, 1)
	if g.r.Intn(4) == 0 {
		key = sqlast.Op("plus", key, tlit(1))
	}
	s := TrigStmt{K: kind, T: target, E: key, Op: "eq"}
	if kind == "ins" {
		s.Vals = []*Expr{key, rowRef(event, 2), tlit(g.r.Intn(4))}
		s.E = tlit(0)
	} else if g.r.Intn(3) == 0 {
		s.Op = "ge"
	}
	s.fix()
	return s
}

func (g *trigGen) stmt(table, timing, event string) TrigStmt {
	low := lower(table)
	for {
		k := g.r.Intn(100)
		var s TrigStmt
		switch {
		case k < 38:
			s = TrigStmt{K: "audit"}
		case k < 52:
			s = TrigStmt{K: "uvar"}
		case k < 60:
			if timing != "before" || event == "delete" {
				continue
			}
			col := 2 + g.r.Intn(2)
			var e *Expr
			switch g.r.Intn(3) {
			case 0:
				e = sqlast.Op("plus", coal0(tnew(col)), tlit(1))
			case 1:
				e = sqlast.Op("times", tnew(1), tlit(2))
			default:
				if event == "update" {
					e = sqlast.Op("plus", coal0(told(2)), tnew(1))
				} else {
					e = sqlast.Op("plus", tnew(1), tlit(10))
				}
			}
			s = TrigStmt{K: "set", Col: col, E: e}
		case k < 72:
			if g.r.Intn(2) == 0 {
				s = TrigStmt{K: "signal", E: sqlast.Op("eq", rowRef(event, 1), tlit(g.r.Intn(7)))}
			} else {
				s = TrigStmt{K: "signal", E: sqlast.Op("eq", rowRef(event, 2), tlit(g.r.Intn(4)))}
			}
		default:
			if len(low) == 0 {
				continue
			}
			s = g.dml(table, event, []string{"ins", "ins", "upd", "del"}[g.r.Intn(4)], low[g.r.Intn(len(low))])
		}
		s.fix()
		return s
	}
}

func (g *trigGen) add(table, timing, event string, body []TrigStmt, rel bool) {
	n := len(g.h.Trigs) + 1
	tr := Trigger{Name: fmt.Sprintf("tr%d", n), TID: n, Table: table, Timing: timing, Event: event, Body: body}
	if rel {
		var same []string
		for _, o := range g.h.Trigs {
			if o.Table == table && o.Timing == timing && o.Event == event {
				same = append(same, o.Name)
			}
		}
		if len(same) > 0 {
			tr.Rel = []string{"follows", "precedes"}[g.r.Intn(2)]
			tr.Other = same[g.r.Intn(len(same))]
		}
	}
	g.h.Trigs = append(g.h.Trigs, tr)
}

var trigEvents = []string{"insert", "update", "delete"}
var trigTimings = []string{"before", "after"}

func evOf(kind string) string {
	return map[string]string{"ins": "insert", "upd": "update", "del": "delete"}[kind]
}

// cascade adds: a trigger on `parent` whose BEGIN .. END body holds a DML statement on `child` among SET @cnt /
// audit statements in a random order (the DML statement first, in the middle or last), and BEFORE + AFTER
// triggers of the matching event on `child` (so that the cascade is observable: NEW assignment, audit entries).
func (g *trigGen) cascade(parent, child string) {
	ev := trigEvents[g.r.Intn(3)]
	tm := trigTimings[g.r.Intn(2)]
	kind := []string{"ins", "ins", "upd", "del"}[g.r.Intn(4)]
	cev := evOf(kind)
	if cev == "delete" || g.r.Intn(2) == 0 {
		g.add(child, "before", cev, []TrigStmt{{K: "audit"}}, false)
	} else {
		col := 2 + g.r.Intn(2)
		g.add(child, "before", cev, []TrigStmt{{K: "set", Col: col, E: sqlast.Op("plus", coal0(tnew(col)), tlit(1))}}, false)
	}
	g.add(child, "after", cev, []TrigStmt{{K: "audit"}}, false)
	body := []TrigStmt{g.dml(parent, ev, kind, child), {K: "uvar"}}
	if g.r.Intn(2) == 0 {
		body = append(body, TrigStmt{K: "audit"})
	}
	g.r.Shuffle(len(body), func(i, j int) { body[i], body[j] = body[j], body[i] })
	g.add(parent, tm, ev, body, false)
	for i := range g.h.Trigs {
		for j := range g.h.Trigs[i].Body {
			g.h.Trigs[i].Body[j].fix()
		}
	}
}

// C23History generates one trigger set over t1, t2, t3 (each c1 INT PRIMARY KEY, c2 INT, c3 INT) and a DML history.
func C23History(seed int64) *TrigHistory {
	r := rand.New(rand.NewSource(seed ^ 0x23a23))
	g := &trigGen{r: r, h: &TrigHistory{Names: TrigTables, Tables: map[string]*Table{}}}
	for _, n := range TrigTables {
		t := &Table{Cols: []Col{IntCol(), IntCol(), IntCol()}, PK: []int{1}}
		t.Cols[0].NotNull = true
		if n == "t1" && r.Intn(3) == 0 {
			t.Cols[1].NotNull = true
		}
		g.h.Tables[n] = t.Fix()
	}
	// random triggers on all tables, all six timing / event combinations, bodies of 1..3 statements
	n := 3 + r.Intn(4)
	for i := 0; i < n; i++ {
		table := []string{"t1", "t1", "t2", "t2", "t3"}[r.Intn(5)]
		tm, ev := trigTimings[r.Intn(2)], trigEvents[r.Intn(3)]
		nst := []int{1, 1, 2, 2, 3}[r.Intn(5)]
		var body []TrigStmt
		for k := 0; k < nst; k++ {
			body = append(body, g.stmt(table, tm, ev))
		}
		g.add(table, tm, ev, body, r.Intn(2) == 0)
	}
	// cascades: t1 -> t2 or t3, and (depth 2) t2 -> t3
	if r.Intn(10) < 8 {
		g.cascade("t1", []string{"t2", "t2", "t3"}[r.Intn(3)])
	}
	if r.Intn(10) < 6 {
		g.cascade("t2", "t3")
	}
	// two audit triggers of one (table, timing, event) so that ordering is observable
	{
		ev, tm := []string{"insert", "update"}[r.Intn(2)], trigTimings[r.Intn(2)]
		g.add("t1", tm, ev, []TrigStmt{{K: "audit"}}, false)
		g.add("t1", tm, ev, []TrigStmt{{K: "audit"}}, r.Intn(3) > 0)
	}
	for i := range g.h.Trigs {
		for j := range g.h.Trigs[i].Body {
			g.h.Trigs[i].Body[j].fix()
		}
	}
	cols := []int{1, 2, 3}
	val := func(t *Table, c int) sqlast.Value {
		if c != 1 && !t.Cols[c-1].NotNull && r.Intn(8) == 0 {
			return sqlast.Null()
		}
		if c == 1 {
			return sqlast.Int(r.Intn(7))
		}
		return sqlast.Int(r.Intn(4))
	}
	m := 18 + r.Intn(10)
	for len(g.h.Stmts) < m {
		tn := []string{"t1", "t1", "t1", "t1", "t2", "t2", "t3"}[r.Intn(7)]
		t := g.h.Tables[tn]
		ref := func(c int) *Expr { return ColRef(c, t.Cols[c-1]) }
		where := func() *Expr {
			switch r.Intn(5) {
			case 0:
				return sqlast.True()
			case 1:
				return sqlast.Op("le", ref(1), tlit(r.Intn(7)))
			case 2:
				return sqlast.Op("ge", ref(1), tlit(r.Intn(7)))
			default:
				return sqlast.Op("eq", ref(1), tlit(r.Intn(7)))
			}
		}
		pkOrder := []sqlast.Ord{{I: 1, Desc: r.Intn(2) == 0}}
		switch k := r.Intn(10); {
		case k < 5:
			nr := 1
			if r.Intn(2) == 0 {
				nr = 2 + r.Intn(2)
			}
			var rows [][]Cell
			for i := 0; i < nr; i++ {
				rows = append(rows, []Cell{ValCell(val(t, 1)), ValCell(val(t, 2)), ValCell(val(t, 3))})
			}
			g.h.Stmts = append(g.h.Stmts, Insert(tn, "plain", cols, rows, nil))
		case k < 8:
			// an UPDATE that changes every designated row (a counter column), rows in primary-key order
			set := []SetItem{{Col: 3, E: sqlast.Op("plus", coal0(ref(3)), tlit(1+r.Intn(2)))}}
			if r.Intn(3) == 0 {
				set = append(set, SetItem{Col: 2, E: tlit(r.Intn(4))})
			}
			if r.Intn(6) == 0 {
				set = append(set, SetItem{Col: 1, E: sqlast.Op("plus", ref(1), tlit(1))}) // key collisions inside the statement
			}
			g.h.Stmts = append(g.h.Stmts, Update(tn, false, set, where(), pkOrder, -1))
		default:
			g.h.Stmts = append(g.h.Stmts, Delete(tn, where(), pkOrder, -1))
		}
	}
	return g.h
}
