package dml2gen

import (
	"fmt"
	"math/rand"

	. "gmsverif/lib/dmlast"
	"gmsverif/lib/sqlast"
)

// TrigBody is a trigger body from one of three templates (spec/SQLTriggers.tla): audit | set | signal.
// E is an expression over the row OLD.c1..OLD.cw ++ NEW.c1..NEW.cw (ordinals 1..2w).
type TrigBody struct {
	K   string `json:"k"`
	Col int    `json:"col"`
	E   *Expr  `json:"e"`
}

// Trigger as created; Rel / Other: FOLLOWS | PRECEDES an earlier trigger of the same timing and event.
type Trigger struct {
	Name   string   `json:"name"`
	TID    int      `json:"tid"`
	Timing string   `json:"timing"`
	Event  string   `json:"event"`
	Rel    string   `json:"rel"`
	Other  string   `json:"other"`
	Body   TrigBody `json:"body"`
}

const TrigBase, TrigAudit = "t1", "au"

// TrigExprSQL renders a trigger expression: ordinals 1..w are OLD.c, w+1..2w NEW.c.
func TrigExprSQL(e *Expr, w int) string {
	switch e.K {
	case "lit":
		return e.V.SQL()
	case "col":
		if e.I > w {
			return fmt.Sprintf("NEW.c%d", e.I-w)
		}
		return fmt.Sprintf("OLD.c%d", e.I)
	case "op":
		ops := map[string]string{"eq": "=", "plus": "+", "times": "*", "minus": "-", "ge": ">=", "and": "AND"}
		return "(" + TrigExprSQL(e.A[0], w) + " " + ops[e.Op] + " " + TrigExprSQL(e.A[1], w) + ")"
	case "fn":
		s := ""
		for i, a := range e.A {
			if i > 0 {
				s += ", "
			}
			s += TrigExprSQL(a, w)
		}
		return "COALESCE(" + s + ")"
	}
	panic("trigger expression " + e.K)
}

// SQL renders CREATE TRIGGER.
func (t Trigger) SQL(w int) string {
	order := ""
	if t.Rel == "follows" {
		order = " FOLLOWS " + t.Other
	} else if t.Rel == "precedes" {
		order = " PRECEDES " + t.Other
	}
	head := fmt.Sprintf("CREATE TRIGGER %s %s %s ON %s FOR EACH ROW%s ", t.Name, map[string]string{"before": "BEFORE", "after": "AFTER"}[t.Timing],
		map[string]string{"insert": "INSERT", "update": "UPDATE", "delete": "DELETE"}[t.Event], TrigBase, order)
	switch t.Body.K {
	case "audit":
		cols, vals := "tid", fmt.Sprint(t.TID)
		for i := 1; i <= w; i++ {
			cols += fmt.Sprintf(", o%d", i)
			if t.Event == "insert" {
				vals += ", NULL"
			} else {
				vals += fmt.Sprintf(", OLD.c%d", i)
			}
		}
		for i := 1; i <= w; i++ {
			cols += fmt.Sprintf(", n%d", i)
			if t.Event == "delete" {
				vals += ", NULL"
			} else {
				vals += fmt.Sprintf(", NEW.c%d", i)
			}
		}
		return head + fmt.Sprintf("INSERT INTO %s (%s) VALUES (%s)", TrigAudit, cols, vals)
	case "set":
		return head + fmt.Sprintf("SET NEW.c%d = %s", t.Body.Col, TrigExprSQL(t.Body.E, w))
	case "signal":
		return head + fmt.Sprintf("BEGIN IF %s THEN SIGNAL SQLSTATE '45000' SET MESSAGE_TEXT = 'verif-signal'; END IF; END", TrigExprSQL(t.Body.E, w))
	}
	panic("trigger body " + t.Body.K)
}

// AuditCreateSQL: the audit table (seq orders the entries).
func AuditCreateSQL(w int) string {
	s := "CREATE TABLE " + TrigAudit + " (seq INT NOT NULL AUTO_INCREMENT PRIMARY KEY, tid INT"
	for i := 1; i <= w; i++ {
		s += fmt.Sprintf(", o%d INT", i)
	}
	for i := 1; i <= w; i++ {
		s += fmt.Sprintf(", n%d INT", i)
	}
	return s + ")"
}

type TrigHistory struct {
	Table *Table
	Trigs []Trigger
	Stmts []*Stmt
}

// C23History generates one trigger set and DML history on t1(c1 INT PRIMARY KEY, c2 INT, c3 INT).
func C23History(seed int64) *TrigHistory {
	r := rand.New(rand.NewSource(seed ^ 0x23a23))
	t := &Table{Cols: []Col{IntCol(), IntCol(), IntCol()}, PK: []int{1}}
	t.Cols[0].NotNull = true
	if r.Intn(3) == 0 {
		t.Cols[1].NotNull = true
	}
	t.Fix()
	const w = 3
	h := &TrigHistory{Table: t}
	old := func(i int) *Expr { return sqlast.Col(0, i, "none") }
	nw := func(i int) *Expr { return sqlast.Col(0, w+i, "none") }
	lit := func(v int) *Expr { return Lit(sqlast.Int(v)) }
	n := 2 + r.Intn(5)
	for i := 1; i <= n; i++ {
		tr := Trigger{Name: fmt.Sprintf("tr%d", i), TID: i}
		tr.Event = []string{"insert", "insert", "update", "update", "delete"}[r.Intn(5)]
		tr.Timing = []string{"before", "after"}[r.Intn(2)]
		k := r.Intn(20)
		switch {
		case k < 4 && tr.Timing == "before" && tr.Event != "delete":
			col := 2 + r.Intn(2)
			var e *Expr
			switch r.Intn(3) {
			case 0:
				e = sqlast.Op("plus", sqlast.Fn("coalesce", nw(col), lit(0)), lit(1))
			case 1:
				e = sqlast.Op("times", nw(1), lit(2))
			default:
				if tr.Event == "update" {
					e = sqlast.Op("plus", sqlast.Fn("coalesce", old(2), lit(0)), nw(1))
				} else {
					e = sqlast.Op("plus", nw(1), lit(10))
				}
			}
			tr.Body = TrigBody{K: "set", Col: col, E: e}
		case k < 7:
			var e *Expr
			if tr.Event == "delete" {
				e = sqlast.Op("eq", old(1), lit(r.Intn(5)))
			} else if r.Intn(2) == 0 {
				e = sqlast.Op("eq", nw(1), lit(r.Intn(6)))
			} else {
				e = sqlast.Op("eq", nw(2), lit(r.Intn(4)))
			}
			tr.Body = TrigBody{K: "signal", E: e}
		default:
			tr.Body = TrigBody{K: "audit", E: lit(0)}
		}
		if tr.Body.E == nil {
			tr.Body.E = lit(0)
		}
		// FOLLOWS / PRECEDES an earlier trigger of the same timing and event
		var same []string
		for _, o := range h.Trigs {
			if o.Timing == tr.Timing && o.Event == tr.Event {
				same = append(same, o.Name)
			}
		}
		if len(same) > 0 && r.Intn(2) == 0 {
			tr.Rel = []string{"follows", "precedes"}[r.Intn(2)]
			tr.Other = same[r.Intn(len(same))]
		}
		h.Trigs = append(h.Trigs, tr)
	}
	// at least two audit triggers of one (timing, event) so that ordering is observable
	ev := []string{"insert", "update"}[r.Intn(2)]
	tm := []string{"before", "after"}[r.Intn(2)]
	for j := 0; j < 2; j++ {
		n++
		tr := Trigger{Name: fmt.Sprintf("tr%d", n), TID: n, Event: ev, Timing: tm, Body: TrigBody{K: "audit", E: lit(0)}}
		if j == 1 && r.Intn(3) > 0 {
			tr.Rel = []string{"follows", "precedes"}[r.Intn(2)]
			tr.Other = fmt.Sprintf("tr%d", n-1)
		}
		h.Trigs = append(h.Trigs, tr)
	}
	// mostly also a BEFORE trigger that assigns NEW (what it assigns is what must be stored)
	if r.Intn(10) < 7 {
		n++
		col := 2 + r.Intn(2)
		h.Trigs = append(h.Trigs, Trigger{Name: fmt.Sprintf("tr%d", n), TID: n, Event: []string{"insert", "update"}[r.Intn(2)], Timing: "before",
			Body: TrigBody{K: "set", Col: col, E: sqlast.Op("plus", sqlast.Fn("coalesce", nw(col), lit(0)), lit(1+r.Intn(2)))}})
	}
	cols := []int{1, 2, 3}
	val := func(c int) sqlast.Value {
		if c != 1 && !t.Cols[c-1].NotNull && r.Intn(8) == 0 {
			return sqlast.Null()
		}
		if c == 1 {
			return sqlast.Int(r.Intn(7))
		}
		return sqlast.Int(r.Intn(4))
	}
	ref := func(c int) *Expr { return ColRef(c, t.Cols[c-1]) }
	where := func() *Expr {
		switch r.Intn(5) {
		case 0:
			return sqlast.True()
		case 1:
			return sqlast.Op("le", ref(1), lit(r.Intn(7)))
		case 2:
			return sqlast.Op("ge", ref(1), lit(r.Intn(7)))
		default:
			return sqlast.Op("eq", ref(1), lit(r.Intn(7)))
		}
	}
	pkOrder := []sqlast.Ord{{I: 1, Desc: r.Intn(2) == 0}}
	m := 16 + r.Intn(10)
	for len(h.Stmts) < m {
		switch k := r.Intn(10); {
		case k < 5:
			nr := 1
			if r.Intn(2) == 0 {
				nr = 2 + r.Intn(2)
			}
			var rows [][]Cell
			for i := 0; i < nr; i++ {
				rows = append(rows, []Cell{ValCell(val(1)), ValCell(val(2)), ValCell(val(3))})
			}
			h.Stmts = append(h.Stmts, Insert(TrigBase, "plain", cols, rows, nil))
		case k < 8:
			// an UPDATE that changes every designated row (a counter column), rows in primary-key order
			set := []SetItem{{Col: 3, E: sqlast.Op("plus", sqlast.Fn("coalesce", ref(3), lit(0)), lit(1+r.Intn(2)))}}
			if r.Intn(3) == 0 {
				set = append(set, SetItem{Col: 2, E: lit(r.Intn(4))})
			}
			if r.Intn(6) == 0 {
				set = append(set, SetItem{Col: 1, E: sqlast.Op("plus", ref(1), lit(1))}) // key collisions inside the statement
			}
			h.Stmts = append(h.Stmts, Update(TrigBase, false, set, where(), pkOrder, -1))
		default:
			h.Stmts = append(h.Stmts, Delete(TrigBase, where(), pkOrder, -1))
		}
	}
	return h
}
