package dml2gen

import (
	"fmt"
	"math/rand"

	. "gmsverif/lib/dmlast"
	"gmsverif/lib/dmlgen"
)

// TxnStep is one step of a multi-session history: session S executes a DML statement of the
// SQLTables grammar (op "stmt"), a transaction-control statement (begin | start | commit | rollback |
// ac with Val 0/1 = SET autocommit) or a DDL statement that commits implicitly (op "ddl": CREATE INDEX).
type TxnStep struct {
	ID   int    `json:"id"`
	S    int    `json:"s"`
	Op   string `json:"op"`
	Val  int    `json:"val"`
	Stmt *Stmt  `json:"stmt"`
	// Quiet: the acting session's view is not read again before its own next step (that step is then
	// the first thing the session does after this one)
	Quiet bool `json:"quiet,omitempty"`
}

type TxnHistory struct {
	Names   []string
	Tables  map[string]*Table
	NSess   int
	Overlap bool // generated with interleaved transactions of different sessions
	Steps   []TxnStep
}

func C17Profile() dmlgen.Profile {
	return dmlgen.Profile{Name: "c17", Tables: 2, PKNone: 1, PKSingle: 7, PKComposite: 2, StrKeyP: 0.2, CIP: 0.2, UniqP: 0.4, UniqMultiP: 0.2,
		IdxP: 0.3, NotNullP: 0.15, DefaultP: 0.2,
		W:      map[string]int{"insert": 42, "ignore": 5, "replace": 8, "odku": 6, "update": 24, "delete": 14, "truncate": 0},
		ReuseP: 0.5, NullP: 0.15, NullNotNull: 0.05, OmitP: 0.25, KeyUpdP: 0.3, MinLen: 30, MaxLen: 30}
}

func ctl(s int, op string, val int) TxnStep {
	return TxnStep{S: s, Op: op, Val: val, Stmt: (&Stmt{}).Fix()}
}

// C17History generates one multi-session history.  Most histories (4 of 5) consist of transaction
// blocks run one after another (transactions of different sessions do not overlap in time); the
// others interleave the blocks of the sessions statement by statement.
func C17History(seed int64) *TxnHistory {
	p := C17Profile()
	r := rand.New(rand.NewSource(seed ^ 0x17c17))
	p.Tables = 1 + r.Intn(2)
	g := dmlgen.New(seed, p)
	base := g.Schema()
	initial := map[string]*Table{}
	for n, t := range base.Tables {
		initial[n] = CopyT(t)
	}
	g.Statements(60)
	Steer(base)
	pool := base.Stmts
	next := func() *Stmt {
		if len(pool) == 0 {
			g.Statements(len(base.Stmts) + 20)
			Steer(base)
			pool = base.Stmts
		}
		s := pool[0]
		pool = pool[1:]
		return s
	}
	names := base.Names
	h := &TxnHistory{Names: names, Tables: initial, NSess: 2 + r.Intn(2), Overlap: r.Intn(5) == 0}
	nidx := 0
	dml := func(s, n int) []TxnStep {
		var out []TxnStep
		for i := 0; i < n; i++ {
			out = append(out, TxnStep{S: s, Op: "stmt", Stmt: next()})
		}
		return out
	}
	end := func(s int) TxnStep {
		if r.Intn(2) == 0 {
			return ctl(s, "commit", 0)
		}
		return ctl(s, "rollback", 0)
	}
	begin := func(s int) TxnStep {
		if r.Intn(2) == 0 {
			return ctl(s, "begin", 0)
		}
		return ctl(s, "start", 0)
	}
	block := func(s int) []TxnStep {
		var b []TxnStep
		switch k := r.Intn(22); {
		case k >= 20: // a statement that fails before executing, then (unread) another session's work, then a statement
			o := 1 + (s % h.NSess)
			bad := ctl(s, "bad", 0)
			bad.Stmt.T = base.Names[r.Intn(len(base.Names))]
			bad.Quiet = true
			b = append(b, bad)
			b = append(b, dml(o, 1+r.Intn(2))...)
			b = append(b, dml(s, 1)...)
		case k < 6: // autocommit statements
			b = dml(s, 1+r.Intn(3))
		case k < 13: // explicit transaction
			b = append(b, begin(s))
			b = append(b, dml(s, 1+r.Intn(4))...)
			if r.Intn(8) == 0 {
				// a second START TRANSACTION commits the first one
				b = append(b, begin(s))
				b = append(b, dml(s, 1+r.Intn(2))...)
			}
			b = append(b, end(s))
		case k < 17: // autocommit off
			b = append(b, ctl(s, "ac", 0))
			for i := 0; i < 1+r.Intn(2); i++ {
				b = append(b, dml(s, 1+r.Intn(3))...)
				b = append(b, end(s))
			}
			if r.Intn(3) == 0 {
				b = append(b, dml(s, 1)...) // left open: SET autocommit = 1 commits it
			}
			b = append(b, ctl(s, "ac", 1))
		case k < 19: // DDL inside a transaction commits implicitly
			b = append(b, begin(s))
			b = append(b, dml(s, 1+r.Intn(2))...)
			// CREATE INDEX on a table in use
			tn := base.Names[r.Intn(len(base.Names))]
			nidx++
			col := 1 + r.Intn(len(initial[tn].Cols))
			b = append(b, TxnStep{S: s, Op: "ddl", Stmt: CreateIndex(tn, fmt.Sprintf("x%d", nidx), false, []KeyPart{{Col: col}})})
			b = append(b, dml(s, 1+r.Intn(2))...)
			b = append(b, end(s))
		default: // COMMIT / ROLLBACK without a transaction
			b = append(b, end(s))
			b = append(b, dml(s, 1)...)
		}
		return b
	}
	n := 14 + r.Intn(12)
	if !h.Overlap {
		for len(h.Steps) < n {
			h.Steps = append(h.Steps, block(1+r.Intn(h.NSess))...)
		}
	} else {
		queues := make([][]TxnStep, h.NSess)
		total := 0
		for total < n {
			s := 1 + r.Intn(h.NSess)
			b := block(s)
			queues[s-1] = append(queues[s-1], b...)
			total += len(b)
		}
		for total > 0 {
			s := r.Intn(h.NSess)
			if len(queues[s]) == 0 {
				continue
			}
			// run 1-2 steps of this session, then switch
			k := 1 + r.Intn(2)
			for k > 0 && len(queues[s]) > 0 {
				h.Steps = append(h.Steps, queues[s][0])
				queues[s] = queues[s][1:]
				total--
				k--
			}
		}
	}
	return h
}

// CopyT copies a table record (its index lists are not shared).
func CopyT(t *Table) *Table {
	c := *t
	c.Uniq = append([]Index{}, t.Uniq...)
	c.Idx = append([]Index{}, t.Idx...)
	return c.Fix()
}
