package dmlast

import (
	"fmt"
	"strings"

	"gmsverif/lib/sqlast"
)

// Rendering of tables and statements as MySQL text. Columns are c1..cW. This only changes the
// representation (AST -> text); it mirrors sqlast.Renderer for the expression forms used in DML.

var opSQL = map[string]string{"eq": "=", "ne": "<>", "lt": "<", "le": "<=", "gt": ">", "ge": ">=", "nseq": "<=>",
	"and": "AND", "or": "OR", "xor": "XOR", "plus": "+", "minus": "-", "times": "*", "div": "DIV", "mod": "%"}

// ExprSQL renders an expression over a table row of width w; ordinals above w denote VALUES(c).
func ExprSQL(e *Expr, w int) string {
	switch e.K {
	case "lit":
		return e.V.SQL()
	case "col":
		if e.I > w {
			return fmt.Sprintf("VALUES(c%d)", e.I-w)
		}
		return fmt.Sprintf("c%d", e.I)
	case "op":
		a := func(i int) string { return ExprSQL(e.A[i], w) }
		switch e.Op {
		case "not":
			return "(NOT " + a(0) + ")"
		case "neg":
			return "(- " + a(0) + ")"
		case "isnull":
			return "(" + a(0) + " IS NULL)"
		case "notnull":
			return "(" + a(0) + " IS NOT NULL)"
		case "between":
			return "(" + a(0) + " BETWEEN " + a(1) + " AND " + a(2) + ")"
		}
		return "(" + a(0) + " " + opSQL[e.Op] + " " + a(1) + ")"
	case "in":
		parts := make([]string, len(e.List))
		for i, x := range e.List {
			parts[i] = ExprSQL(x, w)
		}
		s := "(" + ExprSQL(e.E, w)
		if e.Neg {
			s += " NOT"
		}
		return s + " IN (" + strings.Join(parts, ", ") + "))"
	case "case":
		s := "(CASE"
		for _, wh := range e.Whens {
			s += " WHEN " + ExprSQL(wh[0], w) + " THEN " + ExprSQL(wh[1], w)
		}
		return s + " ELSE " + ExprSQL(e.Els, w) + " END)"
	case "fn":
		parts := make([]string, len(e.A))
		for i, x := range e.A {
			parts[i] = ExprSQL(x, w)
		}
		return strings.ToUpper(e.F) + "(" + strings.Join(parts, ", ") + ")"
	}
	panic("dmlast: unrenderable expression " + e.K)
}

func typeSQL(c Col) string {
	if c.Ty == "i" {
		return "INT"
	}
	if c.Coll == "ci" {
		return "VARCHAR(32) COLLATE utf8mb4_0900_ai_ci"
	}
	return "VARCHAR(32) COLLATE utf8mb4_0900_bin"
}

func partsSQL(ps []KeyPart) string {
	var s []string
	for _, p := range ps {
		if p.Plen > 0 {
			s = append(s, fmt.Sprintf("c%d(%d)", p.Col, p.Plen))
		} else {
			s = append(s, fmt.Sprintf("c%d", p.Col))
		}
	}
	return strings.Join(s, ", ")
}

// CreateSQL renders CREATE TABLE.
func CreateSQL(name string, t *Table) string {
	w := len(t.Cols)
	var parts []string
	for i, c := range t.Cols {
		s := fmt.Sprintf("c%d %s", i+1, typeSQL(c))
		if c.HasGen {
			if c.Virtual {
				s += " GENERATED ALWAYS AS (" + ExprSQL(c.Gen, w) + ") VIRTUAL"
			} else {
				s += " GENERATED ALWAYS AS (" + ExprSQL(c.Gen, w) + ") STORED"
			}
		}
		if c.NotNull {
			s += " NOT NULL"
		}
		if c.HasDef {
			s += " DEFAULT " + c.Def.SQL()
		}
		if c.Auto {
			s += " AUTO_INCREMENT"
		}
		parts = append(parts, s)
	}
	if len(t.PK) > 0 {
		var ks []KeyPart
		for _, p := range t.PK {
			ks = append(ks, KeyPart{Col: p})
		}
		parts = append(parts, "PRIMARY KEY ("+partsSQL(ks)+")")
	}
	for _, u := range t.Uniq {
		parts = append(parts, fmt.Sprintf("UNIQUE KEY %s (%s)", u.Name, partsSQL(u.Parts)))
	}
	for _, u := range t.Idx {
		parts = append(parts, fmt.Sprintf("KEY %s (%s)", u.Name, partsSQL(u.Parts)))
	}
	for i, c := range t.Checks {
		parts = append(parts, fmt.Sprintf("CONSTRAINT %s_ck%d CHECK (%s)", name, i+1, ExprSQL(c, w)))
	}
	return fmt.Sprintf("CREATE TABLE %s (%s)", name, strings.Join(parts, ", "))
}

func colNames(cols []int) string {
	var s []string
	for _, c := range cols {
		s = append(s, fmt.Sprintf("c%d", c))
	}
	return strings.Join(s, ", ")
}

func setSQL(items []SetItem, w int) string {
	var s []string
	for _, it := range items {
		s = append(s, fmt.Sprintf("c%d = %s", it.Col, ExprSQL(it.E, w)))
	}
	return strings.Join(s, ", ")
}

func tailSQL(s *Stmt, w int) string {
	out := ""
	if !(s.Where.K == "lit" && s.Where.V.T == "i" && fmt.Sprint(s.Where.V.V) == "1") {
		out += " WHERE " + ExprSQL(s.Where, w)
	}
	if len(s.Order) > 0 {
		var o []string
		for _, x := range s.Order {
			d := ""
			if x.Desc {
				d = " DESC"
			}
			o = append(o, fmt.Sprintf("c%d%s", x.I, d))
		}
		out += " ORDER BY " + strings.Join(o, ", ")
	}
	if s.Limit >= 0 {
		out += fmt.Sprintf(" LIMIT %d", s.Limit)
	}
	return out
}

// SQL renders a statement against a table of width w.
func SQL(s *Stmt, w int) string {
	switch s.K {
	case "insert":
		var rows []string
		for _, r := range s.Rows {
			var cs []string
			for _, c := range r {
				if c.D {
					cs = append(cs, "DEFAULT")
				} else {
					cs = append(cs, ExprSQL(c.E, w))
				}
			}
			rows = append(rows, "("+strings.Join(cs, ", ")+")")
		}
		head := "INSERT INTO"
		switch s.Mode {
		case "ignore":
			head = "INSERT IGNORE INTO"
		case "replace":
			head = "REPLACE INTO"
		}
		out := fmt.Sprintf("%s %s (%s) VALUES %s", head, s.T, colNames(s.Cols), strings.Join(rows, ", "))
		if s.Sel != nil {
			var es []string
			for _, e := range s.Sel.Exprs {
				es = append(es, ExprSQL(e, w))
			}
			src := &Stmt{Where: s.Sel.Where, Order: s.Sel.Order, Limit: s.Sel.Limit}
			out = fmt.Sprintf("%s %s (%s) SELECT %s FROM %s%s", head, s.T, colNames(s.Cols), strings.Join(es, ", "), s.Sel.From, tailSQL(src, w))
		}
		if s.Mode == "odku" {
			out += " ON DUPLICATE KEY UPDATE " + setSQL(s.Odku, w)
		}
		return out
	case "update":
		ig := ""
		if s.Ignore {
			ig = "IGNORE "
		}
		return fmt.Sprintf("UPDATE %s%s SET %s%s", ig, s.T, setSQL(s.Set, w), tailSQL(s, w))
	case "delete":
		return fmt.Sprintf("DELETE FROM %s%s", s.T, tailSQL(s, w))
	case "truncate":
		return "TRUNCATE TABLE " + s.T
	case "alterauto":
		return fmt.Sprintf("ALTER TABLE %s AUTO_INCREMENT = %d", s.T, s.N)
	case "createindex":
		u := ""
		if s.Unique {
			u = "UNIQUE "
		}
		return fmt.Sprintf("CREATE %sINDEX %s ON %s (%s)", u, s.Name, s.T, partsSQL(s.Parts))
	case "dropindex":
		return fmt.Sprintf("DROP INDEX %s ON %s", s.Name, s.T)
	case "lastid":
		return "SELECT LAST_INSERT_ID()"
	}
	panic("dmlast: unrenderable statement " + s.K)
}

// ---- constructors

func Lit(v Value) *Expr         { return sqlast.Lit(v) }
func ColRef(i int, c Col) *Expr { return sqlast.Col(0, i, c.CollTag()) }
func ValuesRef(i, w int, c Col) *Expr {
	return sqlast.Col(0, w+i, c.CollTag())
}

func Insert(t, mode string, cols []int, rows [][]Cell, odku []SetItem) *Stmt {
	return (&Stmt{K: "insert", T: t, Mode: mode, Cols: cols, Rows: rows, Odku: odku, Limit: -1}).Fix()
}

// InsertSelect: INSERT / INSERT IGNORE / REPLACE INTO t (cols) SELECT exprs FROM from WHERE .. ORDER BY .. LIMIT ..
func InsertSelect(t, mode string, cols []int, sel *Select) *Stmt {
	if sel.Where == nil {
		sel.Where = sqlast.True()
	}
	if sel.Order == nil {
		sel.Order = []sqlast.Ord{}
	}
	return (&Stmt{K: "insert", T: t, Mode: mode, Cols: cols, Sel: sel, Limit: -1}).Fix()
}
func Update(t string, ignore bool, set []SetItem, where *Expr, order []sqlast.Ord, limit int) *Stmt {
	return (&Stmt{K: "update", T: t, Ignore: ignore, Set: set, Where: where, Order: order, Limit: limit}).Fix()
}
func Delete(t string, where *Expr, order []sqlast.Ord, limit int) *Stmt {
	return (&Stmt{K: "delete", T: t, Where: where, Order: order, Limit: limit}).Fix()
}
func Truncate(t string) *Stmt { return (&Stmt{K: "truncate", T: t}).Fix() }
func AlterAuto(t string, n int) *Stmt {
	return (&Stmt{K: "alterauto", T: t, N: n}).Fix()
}
func CreateIndex(t, name string, unique bool, parts []KeyPart) *Stmt {
	return (&Stmt{K: "createindex", T: t, Name: name, Unique: unique, Parts: parts}).Fix()
}
func DropIndex(t, name string) *Stmt { return (&Stmt{K: "dropindex", T: t, Name: name}).Fix() }
func LastID() *Stmt                  { return (&Stmt{K: "lastid"}).Fix() }
func ValCell(v Value) Cell           { return Cell{E: sqlast.Lit(v)} }
func DefaultCell() Cell              { return Cell{D: true, E: sqlast.Lit(sqlast.Null())} }
