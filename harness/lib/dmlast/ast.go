// Package dmlast is the Go mirror of the table and statement records of spec/SQLTables.tla:
// generators build these structures, SQL text is rendered from them (never the reverse) and they
// are serialised as the JSON that spec/Trace_Tables.tla reads (field names = TLA+ record fields;
// every field is always present because a TLA+ record access to a missing field is an error).
// There is no evaluator here: the meaning of a statement lives in the specification.
// Column and key ordinals are 1-based, as in the specification.
package dmlast

import (
	"fmt"

	"gmsverif/lib/sqlast"
)

type Expr = sqlast.Expr
type Value = sqlast.Value

// Col is one column: ty "i" (INT) | "s" (VARCHAR(32)); coll none|bin|ci.
type Col struct {
	Ty      string `json:"ty"`
	Coll    string `json:"coll"`
	NotNull bool   `json:"notnull"`
	HasDef  bool   `json:"hasdef"`
	Def     Value  `json:"def"`
	Auto    bool   `json:"auto"`
	HasGen  bool   `json:"hasgen"`
	Gen     *Expr  `json:"gen"`
	// Virtual: the generated column is VIRTUAL instead of STORED.  The specification does not read the
	// field: either kind of generated column always shows its expression over the row's base columns.
	Virtual bool `json:"virtual,omitempty"`
}

// KeyPart is one column of an index; Plen > 0 is a prefix length.
type KeyPart struct {
	Col  int `json:"col"`
	Plen int `json:"plen"`
}

// Index is a unique index (part of the specification state) or a plain secondary index (not part
// of it: a lookup through any index means the filter over the rows).
type Index struct {
	Name  string    `json:"name"`
	Parts []KeyPart `json:"parts"`
}

type Table struct {
	Cols   []Col     `json:"cols"`
	Checks []*Expr   `json:"checks"`
	PK     []int     `json:"pk"`
	Uniq   []Index   `json:"uniq"`
	Idx    []Index   `json:"idx"` // plain secondary indexes (ignored by the specification)
	Rows   [][]Value `json:"rows"`
}

// Cell of a VALUES tuple: the DEFAULT keyword or an expression without column references.
type Cell struct {
	D bool  `json:"d"`
	E *Expr `json:"e"`
}

// SetItem is `c<Col> = E`; in ON DUPLICATE KEY UPDATE ordinals above the table width denote VALUES(c).
type SetItem struct {
	Col int   `json:"col"`
	E   *Expr `json:"e"`
}

// Stmt is one statement; K selects the meaningful fields.
type Stmt struct {
	K      string       `json:"k"` // insert update delete truncate alterauto createindex dropindex lastid
	T      string       `json:"t"`
	Mode   string       `json:"mode"` // insert: plain ignore replace odku
	Cols   []int        `json:"cols"`
	Rows   [][]Cell     `json:"rows"`
	Odku   []SetItem    `json:"odku"`
	Ignore bool         `json:"ignore"`
	Set    []SetItem    `json:"set"`
	Where  *Expr        `json:"where"`
	Order  []sqlast.Ord `json:"order"`
	Limit  int          `json:"limit"`
	N      int          `json:"n"`
	Name   string       `json:"name"`
	Unique bool         `json:"unique"`
	Parts  []KeyPart    `json:"parts"`
	// Sel: INSERT .. SELECT (the VALUES rows are then empty): the rows come from a query over one table
	Sel *Select `json:"sel,omitempty"`
}

// Select is the source of INSERT .. SELECT: Exprs (one per target column, over a row of table From)
// of the rows Where / Order / Limit designate, in that order.
type Select struct {
	From  string       `json:"from"`
	Exprs []*Expr      `json:"exprs"`
	Where *Expr        `json:"where"`
	Order []sqlast.Ord `json:"order"`
	Limit int          `json:"limit"`
}

// Fix fills the nil slices / pointers so that the JSON carries every field.
func (s *Stmt) Fix() *Stmt {
	if s.Cols == nil {
		s.Cols = []int{}
	}
	if s.Rows == nil {
		s.Rows = [][]Cell{}
	}
	if s.Odku == nil {
		s.Odku = []SetItem{}
	}
	if s.Set == nil {
		s.Set = []SetItem{}
	}
	if s.Where == nil {
		s.Where = sqlast.True()
	}
	if s.Order == nil {
		s.Order = []sqlast.Ord{}
	}
	if s.Parts == nil {
		s.Parts = []KeyPart{}
	}
	if s.K != "update" && s.K != "delete" {
		s.Limit = -1
	}
	return s
}

func (t *Table) Fix() *Table {
	if t.Checks == nil {
		t.Checks = []*Expr{}
	}
	if t.PK == nil {
		t.PK = []int{}
	}
	if t.Uniq == nil {
		t.Uniq = []Index{}
	}
	if t.Idx == nil {
		t.Idx = []Index{}
	}
	if t.Rows == nil {
		t.Rows = [][]Value{}
	}
	for i := range t.Cols {
		c := &t.Cols[i]
		if c.Gen == nil {
			c.Gen = sqlast.Lit(sqlast.Null())
		}
		if c.Def.T == "" {
			c.Def = sqlast.Null()
		}
		if c.Coll == "" {
			c.Coll = "none"
		}
	}
	for i := range t.Uniq {
		if t.Uniq[i].Parts == nil {
			t.Uniq[i].Parts = []KeyPart{}
		}
	}
	return t
}

func IntCol() Col            { return Col{Ty: "i", Coll: "none"} }
func StrCol(coll string) Col { return Col{Ty: "s", Coll: coll} }

// CollTag is the collation tag a reference to the column carries in expressions.
func (c Col) CollTag() string {
	if c.Ty == "s" {
		return c.Coll
	}
	return "none"
}

// AutoCol returns the 1-based ordinal of the AUTO_INCREMENT column or 0.
func (t *Table) AutoCol() int {
	for i, c := range t.Cols {
		if c.Auto {
			return i + 1
		}
	}
	return 0
}

// Tags lists shape features of a statement against its table; used to classify disagreements for
// the known-findings file, never by the specification.
func Tags(s *Stmt, t *Table) []string {
	var out []string
	add := func(x string) { out = append(out, x) }
	switch s.K {
	case "insert":
		add("insert:" + s.Mode)
		if len(s.Rows) > 1 {
			add("multirow")
		}
		if s.Sel != nil {
			add("select")
		}
		if t != nil && len(t.PK) > 1 && printCollide(s, t) {
			add("printcollide")
		}
		if t != nil && t.AutoCol() > 0 {
			// which rows name an explicit AUTO_INCREMENT value, which have one generated
			ac, pos := t.AutoCol(), -1
			for i, c := range s.Cols {
				if c == ac {
					pos = i
				}
			}
			gen := func(r []Cell) bool {
				if pos < 0 || r[pos].D {
					return true
				}
				v := r[pos].E.V
				return v == nil || v.T == "n" || (v.T == "i" && fmt.Sprint(v.V) == "0")
			}
			anyGen, firstGen := false, len(s.Rows) > 0 && gen(s.Rows[0])
			for _, r := range s.Rows {
				anyGen = anyGen || gen(r)
			}
			if anyGen {
				add("generates")
				if !firstGen {
					add("firstexplicit")
				}
			}
		}
	case "update":
		add("update")
		if s.Ignore {
			add("ignore")
		}
	default:
		add(s.K)
	}
	if s.K == "update" || s.K == "delete" {
		if len(s.Order) > 0 {
			add("order")
		}
		if s.Limit >= 0 {
			add("limit")
		}
	}
	if t != nil {
		switch {
		case len(t.PK) == 0:
			add("keyless")
		case len(t.PK) == 1:
			add("pk1")
		default:
			add("pkN")
		}
		if len(t.Uniq) > 0 {
			add("uniq")
		}
		ci, prefix, multi := false, false, false
		for _, u := range t.Uniq {
			if len(u.Parts) > 1 {
				multi = true
			}
			for _, p := range u.Parts {
				if p.Plen > 0 {
					prefix = true
				}
				if t.Cols[p.Col-1].Coll == "ci" {
					ci = true
				}
			}
		}
		for _, p := range t.PK {
			if t.Cols[p-1].Coll == "ci" {
				ci = true
			}
		}
		if ci {
			add("cikey")
		}
		if prefix {
			add("prefix")
		}
		if multi {
			add("uniqN")
		}
		if t.AutoCol() > 0 {
			add("auto")
		}
		gen, vgen, chk, def := false, false, len(t.Checks) > 0, false
		for _, c := range t.Cols {
			gen = gen || c.HasGen
			vgen = vgen || (c.HasGen && c.Virtual)
			def = def || c.HasDef
		}
		if gen {
			add("gen")
		}
		if vgen {
			add("vgen")
		}
		if chk {
			genCols := map[int]bool{}
			for i, c := range t.Cols {
				if c.HasGen {
					genCols[i+1] = true
				}
			}
			for _, c := range t.Checks {
				if RefersTo(c, genCols) {
					add("gencheck")
					break
				}
			}
		}
		if chk {
			add("check")
		}
		if def {
			add("default")
		}
		if s.K == "update" {
			setCols := map[int]bool{}
			for _, it := range s.Set {
				setCols[it.Col] = true
				for _, x := range t.Idx {
					for _, p := range x.Parts {
						if p.Col == it.Col {
							add("setidx")
						}
					}
				}
			}
			if RefersTo(s.Where, setCols) {
				add("wheresetcol")
			}
			for _, it := range s.Set {
				for _, p := range t.PK {
					if p == it.Col {
						add("setpk")
					}
				}
				for _, u := range t.Uniq {
					for _, p := range u.Parts {
						if p.Col == it.Col {
							add("setuniq")
						}
					}
				}
			}
		}
	}
	return dedup(out)
}

// RefersTo reports whether the expression mentions one of the columns.
func RefersTo(e *Expr, cols map[int]bool) bool {
	if e == nil {
		return false
	}
	if e.K == "col" && cols[e.I] {
		return true
	}
	for _, a := range e.A {
		if RefersTo(a, cols) {
			return true
		}
	}
	for _, a := range e.List {
		if RefersTo(a, cols) {
			return true
		}
	}
	for _, w := range e.Whens {
		if RefersTo(w[0], cols) || RefersTo(w[1], cols) {
			return true
		}
	}
	return RefersTo(e.E, cols) || RefersTo(e.Els, cols)
}

// printCollide: two VALUES tuples whose primary-key literals differ as tuples but whose printed
// forms concatenate to the same text ((1,11) / (11,1)).  A shape tag only.
func printCollide(s *Stmt, t *Table) bool {
	type key struct{ cat, sep string }
	var keys []key
	for _, r := range s.Rows {
		k := key{}
		for _, p := range t.PK {
			pos := -1
			for i, c := range s.Cols {
				if c == p {
					pos = i
				}
			}
			if pos < 0 || r[pos].D || r[pos].E.K != "lit" {
				return false
			}
			txt := r[pos].E.V.SQL()
			if r[pos].E.V.T == "s" {
				txt = r[pos].E.V.Text()
			}
			k.cat += txt
			k.sep += txt + "\x00"
		}
		keys = append(keys, k)
	}
	for i := range keys {
		for j := i + 1; j < len(keys); j++ {
			if keys[i].cat == keys[j].cat && keys[i].sep != keys[j].sep {
				return true
			}
		}
	}
	return false
}

func dedup(xs []string) []string {
	seen := map[string]bool{}
	var out []string
	for _, x := range xs {
		if !seen[x] {
			seen[x] = true
			out = append(out, x)
		}
	}
	return out
}
