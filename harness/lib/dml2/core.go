// Package dml2 holds what the drivers of C15 / C17 / C18 / C23 (harness/cmd/dml2) share: the
// fixture (fresh engine + tables from dmlast records), reading tables back, reply normalisation,
// the C16-style index probes, and the row-edit fault hook.  It composes gmsverif/lib/dmlast, eng,
// sqlast and vio; it contains no evaluator: every verdict comes from TLC reading the recorded events.
package dml2

import (
	"errors"
	"fmt"
	"sort"
	"strings"

	"github.com/dolthub/go-mysql-server/verifhook"

	. "gmsverif/lib/dmlast"
	"gmsverif/lib/eng"
	"gmsverif/lib/sqlast"
)

// Reply is the normalised answer of one statement (the fields spec/Trace_Tables.tla reads).
type Reply struct {
	Kind     string `json:"kind"`  // ok | err | rows | panic
	Class    string `json:"class"` // "" | dup | notnull | check | fault | fk | signal | other | panic
	Affected int    `json:"affected"`
	InsertID int    `json:"insert_id"`
	Val      int    `json:"val"`
	Msg      string `json:"msg"`
}

// Classify maps an engine error text to the error class the specification names.
func Classify(msg string) string {
	m := strings.ToLower(msg)
	switch {
	case strings.Contains(m, FaultText):
		return "fault"
	case strings.Contains(m, "duplicate primary key"), strings.Contains(m, "duplicate unique key"), strings.Contains(m, "duplicate entry"):
		return "dup"
	case strings.Contains(m, "non-nullable"), strings.Contains(m, "doesn't have a default value"), strings.Contains(m, "cannot be null"):
		return "notnull"
	case strings.Contains(m, "check constraint"):
		return "check"
	case strings.Contains(m, "foreign key"):
		return "fk"
	case strings.Contains(m, "verif-signal"):
		return "signal"
	}
	return "other"
}

// ToReply normalises an engine result; lastid says the statement is SELECT LAST_INSERT_ID().
func ToReply(res eng.Result, lastid bool) *Reply {
	if res.Kind == "rows" && !lastid && len(res.Rows) == 0 {
		res.Kind = "ok" // DDL statements answer with an empty result set
	}
	rep := &Reply{Kind: res.Kind, Affected: res.Affected, InsertID: res.InsertID, Msg: res.Msg}
	switch res.Kind {
	case "err":
		rep.Class = Classify(res.Msg)
	case "panic":
		rep.Class = "panic"
	case "rows":
		rep.Val = -1
		if len(res.Rows) == 1 && len(res.Rows[0]) == 1 && res.Rows[0][0].T == "i" {
			rep.Val = res.Rows[0][0].V.(int)
		}
	}
	return rep
}

// ---------------------------------------------------------------- fault hook

// FaultText is the text of the injected storage error.
const FaultText = "verif-injected storage fault"

// Fault drives verifhook.EditFaultFn: it counts the row-edit calls of the in-memory table editor
// and fails the K-th one (K = 0: counting mode).
type Fault struct {
	K     int
	Calls int
	Ops   []string // table:op of every call, in order
}

// Arm installs the hook (single goroutine drivers only).
func (f *Fault) Arm(k int) {
	f.K, f.Calls, f.Ops = k, 0, nil
	verifhook.EditFaultFn = func(table, op string) error {
		f.Calls++
		f.Ops = append(f.Ops, table+":"+op)
		if f.K > 0 && f.Calls == f.K {
			return errors.New(FaultText)
		}
		return nil
	}
}

func (f *Fault) Disarm() { verifhook.EditFaultFn = nil }

// Fired reports whether the armed fault was injected.
func (f *Fault) Fired() bool { return f.K > 0 && f.Calls >= f.K }

// ---------------------------------------------------------------- fixture

// Fixture is one fresh engine with the tables of a history.
type Fixture struct {
	DB    *eng.DB
	Sess  *eng.Session
	Names []string
	Tabs  map[string]*Table // schema as the driver believes it (index bookkeeping for probes)
}

func CopyTable(t *Table) *Table {
	c := *t
	c.Uniq = append([]Index{}, t.Uniq...)
	c.Idx = append([]Index{}, t.Idx...)
	return &c
}

// NewFixture creates the tables (and their initial rows) on a fresh engine; it returns the CREATE
// statements as well.
func NewFixture(names []string, tabs map[string]*Table, extra ...string) (*Fixture, []string, error) {
	db := eng.New()
	s := db.NewSession()
	fx := &Fixture{DB: db, Sess: s, Names: names, Tabs: map[string]*Table{}}
	var create []string
	for _, n := range names {
		t := tabs[n].Fix()
		sql := CreateSQL(n, t)
		create = append(create, sql)
		if res := s.Exec(sql); res.Kind == "err" || res.Kind == "panic" {
			return nil, nil, fmt.Errorf("fixture statement failed: %s: %s", sql, res.Msg)
		}
		fx.Tabs[n] = CopyTable(t)
		for _, row := range t.Rows {
			var vs []string
			for _, v := range row {
				vs = append(vs, v.SQL())
			}
			q := fmt.Sprintf("INSERT INTO %s VALUES (%s)", n, strings.Join(vs, ", "))
			if res := s.Exec(q); res.Kind != "ok" {
				return nil, nil, fmt.Errorf("fixture statement failed: %s: %s", q, res.Msg)
			}
		}
	}
	for _, q := range extra {
		create = append(create, q)
		if res := s.Exec(q); res.Kind == "err" || res.Kind == "panic" {
			return nil, nil, fmt.Errorf("fixture statement failed: %s: %s", q, res.Msg)
		}
	}
	return fx, create, nil
}

// ReadAll reads every table back through the session (SELECT *).
func ReadAll(s *eng.Session, names []string) map[string][][]Value {
	out := map[string][][]Value{}
	for _, n := range names {
		sel := s.Exec("SELECT * FROM " + n)
		if sel.Kind != "rows" {
			out[n] = [][]Value{{sqlast.Opaque("unreadable: " + sel.Msg)}}
			continue
		}
		out[n] = sel.Rows
	}
	return out
}

// Exec runs a statement AST of the SQLTables grammar on the fixture's session, keeping the index
// bookkeeping the probes need.
func (fx *Fixture) Exec(st *Stmt) (string, *Reply) {
	st.Fix()
	var t *Table
	w := 0
	if st.T != "" {
		t = fx.Tabs[st.T]
		if t == nil {
			panic("statement names unknown table " + st.T)
		}
		w = len(t.Cols)
	}
	sql := SQL(st, w)
	res := fx.Sess.Exec(sql)
	rep := ToReply(res, st.K == "lastid")
	if rep.Kind == "ok" && t != nil {
		switch st.K {
		case "createindex":
			ix := Index{Name: st.Name, Parts: st.Parts}
			if st.Unique {
				t.Uniq = append(t.Uniq, ix)
			} else {
				t.Idx = append(t.Idx, ix)
			}
		case "dropindex":
			t.Uniq = dropIdx(t.Uniq, st.Name)
			t.Idx = dropIdx(t.Idx, st.Name)
		}
	}
	return sql, rep
}

func dropIdx(xs []Index, name string) []Index {
	var out []Index
	for _, x := range xs {
		if x.Name != name {
			out = append(out, x)
		}
	}
	return out
}

// ---------------------------------------------------------------- probes (as harness/cmd/dml/probes.go)

type Probe struct {
	Q   *sqlast.Query `json:"q"`
	Res *eng.Result   `json:"res"`
	SQL string        `json:"sql"`
	Idx string        `json:"idx"`
	Via string        `json:"via"` // index | scan: what the engine's plan used
}

// Prober issues, for every index of a table, lookups whose WHERE names exactly the indexed columns.
// The probe list is a function of `basis` (table contents the caller passes) so that the probes
// before and after a statement can be made the same list.
type Prober struct {
	plan  map[string]string
	N, Ix int
}

func NewProber() *Prober { return &Prober{plan: map[string]string{}} }

func (p *Prober) Table(s *eng.Session, h int, name string, t *Table, basis [][]Value) []Probe {
	w := len(t.Cols)
	out := []Probe{}
	type ix struct {
		name  string
		parts []KeyPart
	}
	var ixs []ix
	if len(t.PK) > 0 {
		var ps []KeyPart
		for _, k := range t.PK {
			ps = append(ps, KeyPart{Col: k})
		}
		ixs = append(ixs, ix{"PRIMARY", ps})
	}
	for _, u := range t.Uniq {
		ixs = append(ixs, ix{u.Name, u.Parts})
	}
	for _, u := range t.Idx {
		ixs = append(ixs, ix{u.Name, u.Parts})
	}
	proj := make([]*sqlast.Expr, w)
	for i := range proj {
		proj[i] = ColRef(i+1, t.Cols[i])
	}
	epoch := fmt.Sprint(len(t.Uniq), len(t.Idx))
	run := func(ixn, shape string, where *sqlast.Expr) {
		q := sqlast.Select(sqlast.Table(name, w), where, proj...)
		sql := (&sqlast.Renderer{}).Query(q)
		res := s.Exec(sql)
		key := fmt.Sprintf("%d|%s|%s|%s|%s", h, name, ixn, shape, epoch)
		via, ok := p.plan[key]
		if !ok {
			via = "scan"
			ex := s.Exec("EXPLAIN PLAN " + sql)
			if ex.Kind != "rows" {
				ex = s.Exec("EXPLAIN " + sql)
			}
			for _, row := range ex.Rows {
				for _, v := range row {
					if v.T == "s" && strings.Contains(v.Text(), "IndexedTableAccess") {
						via = "index"
					}
				}
			}
			p.plan[key] = via
		}
		p.N++
		if via == "index" {
			p.Ix++
		}
		out = append(out, Probe{Q: q, Res: &res, SQL: sql, Idx: ixn, Via: via})
	}
	for _, x := range ixs {
		c := x.parts[0].Col
		col := t.Cols[c-1]
		ref := ColRef(c, col)
		var present []Value
		seen := map[string]bool{}
		for _, row := range basis {
			if c > len(row) {
				continue
			}
			v := row[c-1]
			if v.T != "i" && v.T != "s" {
				continue
			}
			k := v.SQL()
			if !seen[k] {
				seen[k] = true
				present = append(present, v)
			}
		}
		sort.SliceStable(present, func(i, j int) bool { return present[i].SQL() < present[j].SQL() })
		for i, v := range present {
			// the smallest and the largest present key
			if i == 0 || (i == len(present)-1) {
				run(x.name, "eq", sqlast.Op("eq", ref, Lit(v)))
			}
		}
		absent := sqlast.Int(97)
		if col.Ty == "s" {
			absent = sqlast.Str("zq")
		}
		run(x.name, "eq", sqlast.Op("eq", ref, Lit(absent)))
		if len(present) > 0 {
			run(x.name, "range", sqlast.Op([]string{"gt", "ge", "lt", "le"}[len(present)%4], ref, Lit(present[len(present)/2])))
		}
		if !col.NotNull {
			run(x.name, "null", sqlast.Op("isnull", ref))
		}
		if len(x.parts) > 1 {
			c2 := x.parts[1].Col
			col2 := t.Cols[c2-1]
			n := 0
			for _, row := range basis {
				if n >= 1 || c > len(row) || c2 > len(row) {
					break
				}
				a, b := row[c-1], row[c2-1]
				if (a.T != "i" && a.T != "s") || (b.T != "i" && b.T != "s") {
					continue
				}
				n++
				run(x.name, "eq2", sqlast.Op("and", sqlast.Op("eq", ref, Lit(a)), sqlast.Op("eq", ColRef(c2, col2), Lit(b))))
			}
		}
	}
	return out
}

// All probes every table of the fixture; basis[name] are the rows the probe keys are drawn from.
func (p *Prober) All(fx *Fixture, h int, basis map[string][][]Value) []Probe {
	out := []Probe{}
	for _, n := range fx.Names {
		out = append(out, p.Table(fx.Sess, h, n, fx.Tabs[n], basis[n])...)
	}
	return out
}
