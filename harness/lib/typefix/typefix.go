// Package typefix: a fixture with one column of every scalar type and a catalogue of read-only
// select-list expressions / aggregates over it (shared by the C09 and C11 drivers).
package typefix

var Fixture = []string{
	"CREATE TABLE a (k INT PRIMARY KEY, ti TINYINT, su SMALLINT UNSIGNED NOT NULL, bi BIGINT, bu BIGINT UNSIGNED, de DECIMAL(5,2), db DOUBLE, ch CHAR(3), vc VARCHAR(5) NOT NULL, dt DATE, ts DATETIME, yr YEAR, en ENUM('x','y'), js JSON, bl BLOB)",
	"INSERT INTO a VALUES (1, 127, 65535, 9223372036854775807, 18446744073709551615, 999.99, 1e100, 'abc', 'hello', '2020-02-29', '2020-02-29 23:59:59', 2155, 'x', '{\"a\":1}', 'b'), (2, -128, 0, -9223372036854775808, 0, -999.99, -0.5, '', '', '1000-01-01', '1000-01-01 00:00:00', 1901, 'y', '[1]', ''), (3, NULL, 1, NULL, NULL, NULL, NULL, NULL, 'x', NULL, NULL, NULL, NULL, NULL, NULL)",
	"CREATE TABLE b (k INT PRIMARY KEY, r INT NOT NULL, s VARCHAR(4) NOT NULL)",
	"INSERT INTO b VALUES (1, 10, 'one'), (5, 50, 'five')",
	"CREATE TABLE e (k INT PRIMARY KEY, v INT NOT NULL)",
}

var Exprs = []string{
	"ti", "su", "bi", "bu", "de", "db", "ch", "vc", "dt", "ts", "yr", "en", "js", "bl", "k",
	"ti + 1", "ti * ti", "su - 1", "bi - 1", "bu + 0", "de * 2", "de + ti", "db / 3", "ti / 2", "ti DIV 2", "ti % 3", "-su", "ABS(ti)",
	"ti = 1", "vc = 'x'", "ti IS NULL", "ti IN (1, 2)", "NOT ti", "ti AND su", "ti <=> NULL", "vc LIKE 'h%'",
	"COALESCE(ti, 0)", "COALESCE(ti, 'a')", "IFNULL(de, 0)", "IFNULL(ch, vc)", "NULLIF(su, 0)", "IF(ti > 0, ti, de)", "IF(ti > 0, 'pos', su)",
	"CASE WHEN ti > 0 THEN ti WHEN ti < 0 THEN 'neg' ELSE NULL END", "CASE ti WHEN 1 THEN 1.5 ELSE 2 END", "GREATEST(ti, su)", "LEAST(de, db)",
	"CONCAT(ch, vc)", "CONCAT(ti, vc)", "LENGTH(vc)", "UPPER(ch)", "SUBSTRING(vc, 2, 2)", "LPAD(vc, 8, '*')", "REPEAT(ch, 2)", "HEX(ti)", "LEFT(vc, 1)",
	"CAST(ti AS CHAR)", "CAST(vc AS SIGNED)", "CAST(de AS UNSIGNED)", "CAST(ti AS DECIMAL(4,1))", "CAST(db AS DECIMAL(10,3))", "CAST(dt AS DATETIME)", "CAST(ts AS DATE)", "CAST(ti AS UNSIGNED)",
	"ROUND(de, 1)", "ROUND(db)", "FLOOR(de)", "CEIL(db)", "TRUNCATE(de, 0)", "SIGN(de)", "POW(ti, 2)", "SQRT(su)", "MOD(su, 7)",
	"YEAR(dt)", "MONTH(ts)", "DATEDIFF(ts, dt)", "DATE_ADD(dt, INTERVAL 1 DAY)", "DATE_FORMAT(ts, '%Y')", "LAST_DAY(dt)", "dt + INTERVAL 1 MONTH", "TIMESTAMPDIFF(DAY, dt, ts)",
	"JSON_EXTRACT(js, '$.a')", "JSON_TYPE(js)", "JSON_ARRAY(ti, vc)", "JSON_LENGTH(js)",
	"ti | 1", "su & 255", "ti << 2", "~ti", "BIT_COUNT(su)", "ti XOR 1",
	"IFNULL(ti, bi)", "COALESCE(ch, dt)", "NULLIF(ti, ti)", "IF(ti > 0, NULL, 1)", "ti + NULL", "CASE WHEN ti > 200 THEN 1 END", "NULLIF(vc, 'x')", "ELT(k, 'p')",
	"1", "NULL", "'lit'", "1.5", "1e0", "TRUE", "0x41", "b'101'", "DATE '2020-01-01'", "18446744073709551615", "-9223372036854775808", "1 + 1.0", "'a' + 1", "1 / 0",
}

var Aggs = []string{
	"COUNT(*)", "COUNT(ti)", "COUNT(DISTINCT ch)", "SUM(ti)", "SUM(de)", "SUM(db)", "SUM(su)", "AVG(ti)", "AVG(de)", "MIN(ti)", "MAX(vc)", "MIN(dt)", "MAX(de)",
	"GROUP_CONCAT(vc)", "BIT_OR(su)", "BIT_AND(ti)", "JSON_ARRAYAGG(ti)", "STD(ti)", "VARIANCE(de)", "ANY_VALUE(ch)", "SUM(ti) / COUNT(*)", "MAX(ti) + MIN(su)",
}
