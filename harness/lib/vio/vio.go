// Package vio holds the small I/O conventions shared by all harness binaries:
// ndjson in, one JSON report on stdout, mismatches as structured records.
package vio

import (
	"bufio"
	"encoding/json"
	"fmt"
	"os"
)

// Mismatch is one disagreement between the specification's expectation and the real code.
type Mismatch struct {
	Case      int         `json:"case"`      // index of the transition / case in the input
	Signature string      `json:"signature"` // short classification used to match known findings
	Expected  interface{} `json:"expected"`
	Got       interface{} `json:"got"`
	Input     interface{} `json:"input"`
}

// Report is what every replayer / driver prints as its last stdout line.
type Report struct {
	Cases      int                    `json:"cases"`
	Nontrivial int                    `json:"nontrivial"`
	Mismatches []Mismatch             `json:"mismatches"`
	Samples    []interface{}          `json:"samples"`
	Extra      map[string]interface{} `json:"extra,omitempty"`
}

// ReadNDJSON calls f with every non-empty line of path.
func ReadNDJSON(path string, f func(i int, line []byte) error) error {
	fh, err := os.Open(path)
	if err != nil {
		return err
	}
	defer fh.Close()
	sc := bufio.NewScanner(fh)
	sc.Buffer(make([]byte, 1<<20), 1<<28)
	i := 0
	for sc.Scan() {
		b := sc.Bytes()
		if len(b) == 0 {
			continue
		}
		if err := f(i, b); err != nil {
			return fmt.Errorf("line %d: %w", i+1, err)
		}
		i++
	}
	return sc.Err()
}

// Emit prints the report as one JSON line.
func (r *Report) Emit() {
	if r.Mismatches == nil {
		r.Mismatches = []Mismatch{}
	}
	if r.Samples == nil {
		r.Samples = []interface{}{}
	}
	b, _ := json.Marshal(r)
	fmt.Println("REPORT " + string(b))
}

// Writer writes ndjson events.
type Writer struct {
	f *os.File
	w *bufio.Writer
}

func NewWriter(path string) (*Writer, error) {
	f, err := os.Create(path)
	if err != nil {
		return nil, err
	}
	return &Writer{f: f, w: bufio.NewWriterSize(f, 1<<16)}, nil
}

func (w *Writer) Write(v interface{}) {
	b, err := json.Marshal(v)
	if err != nil {
		panic(err)
	}
	w.w.Write(b)
	w.w.WriteByte('\n')
}

func (w *Writer) Flush() { w.w.Flush() }

func (w *Writer) Close() error {
	w.w.Flush()
	return w.f.Close()
}

// Fatal reports an infrastructure failure (exit 2 at the orchestrator).
func Fatal(format string, a ...interface{}) {
	fmt.Fprintf(os.Stderr, "FATAL "+format+"\n", a...)
	os.Exit(3)
}
