// c26: binding B of C26.  For every SQL type a pool of values in several representations is drawn
// (seeded: random subsets of <= 24 values in random order); the full Type.Compare matrix is recorded
// on the raw values and on the values after Type.Convert, one trace event per (type, value set), for
// validation by spec/Trace_TotalOrder.tla.  Values a type cannot convert (error or out-of-range flag)
// are left out of that type's matrices and counted.  Nothing is judged here.
package main

import (
	"context"
	"encoding/json"
	"flag"
	"fmt"
	"math/rand"
	"strconv"
	"strings"
	"time"

	"github.com/cockroachdb/apd/v3"
	"github.com/dolthub/vitess/go/sqltypes"

	"github.com/dolthub/go-mysql-server/sql"
	"github.com/dolthub/go-mysql-server/sql/expression"
	"github.com/dolthub/go-mysql-server/sql/sorters"
	"github.com/dolthub/go-mysql-server/sql/types"

	"gmsverif/lib/eng"
	"gmsverif/lib/vio"
)

type Interp struct {
	K   string `json:"k"` // null | num | str
	N   bool   `json:"n"`
	D   []int  `json:"d"`
	S   int    `json:"s"`
	Cps []int  `json:"cps"`
}

type Event struct {
	Ev       string   `json:"ev"`
	ID       int      `json:"id"`
	Type     string   `json:"type"`
	Fam      string   `json:"fam"`
	Labels   []string `json:"labels"`
	Nulls    []int    `json:"nulls"`
	M        [][]int  `json:"m"`
	MC       [][]int  `json:"mc"`
	MS       [][]int  `json:"ms"`
	Interp   []Interp `json:"interp"`
	Excluded []string `json:"excluded"`
	Errs     []string `json:"errs"`
}

type TypeCase struct {
	Name string
	Typ  sql.Type
	Fam  string // opaque | num | bin | aici
	Pool []interface{}
}

func dec(s string) *apd.Decimal {
	d, _, err := apd.NewFromString(s)
	if err != nil {
		panic(err)
	}
	return d
}

func tm(s string) time.Time {
	t, err := time.Parse("2006-01-02 15:04:05.999999", s)
	if err != nil {
		panic(err)
	}
	return t
}

func label(v interface{}) string {
	switch x := v.(type) {
	case nil:
		return "NULL"
	case string:
		return fmt.Sprintf("string %q", x)
	case []byte:
		return fmt.Sprintf("[]byte %q", string(x))
	case *apd.Decimal:
		return "decimal " + x.Text('f')
	case time.Time:
		return "time " + x.Format("2006-01-02 15:04:05.999999")
	case types.JSONDocument:
		b, _ := json.Marshal(x.Val)
		return "json " + string(b)
	}
	return fmt.Sprintf("%T %v", v, v)
}

// intPool: boundaries of the type and the same numbers in other representations.
func intPool(min, max string, unsigned bool) []interface{} {
	p := []interface{}{nil, nil, 0, int64(0), "0", 1, int8(1), int64(1), uint64(1), float64(1), float32(1), "1", "01", "1.0", dec("1"), dec("1.0"), true,
		2, "2", int16(2), 100, "100", uint8(100), dec("100"), float64(100)}
	if !unsigned {
		p = append(p, -1, int64(-1), "-1", dec("-1"), float64(-1), -2, "-2")
	}
	for _, s := range []string{min, max} {
		p = append(p, s, dec(s))
		if i, err := strconv.ParseInt(s, 10, 64); err == nil {
			p = append(p, i)
			if i > 0 {
				p = append(p, i-1, strconv.FormatInt(i-1, 10))
			} else if i < 0 {
				p = append(p, i+1, strconv.FormatInt(i+1, 10))
			}
		} else if u, err := strconv.ParseUint(s, 10, 64); err == nil {
			p = append(p, u, u-1, strconv.FormatUint(u-1, 10))
		}
	}
	return p
}

func strPool() []interface{} {
	return []interface{}{nil, nil, "", "a", "A", "b", "B", "ab", "aB", "Ab", "abc", "abd", "a1", "1", "01", "10", "2", "e", "E", "é", "É", "f", "z", "Z",
		[]byte("a"), []byte("ab"), 1, int64(10), dec("1.5"), "1.5", "ea", "éa", "eb"}
}

func typeCases() []TypeCase {
	varchar := func(c sql.CollationID) sql.Type { return types.MustCreateString(sqltypes.VarChar, 20, c) }
	char := func(c sql.CollationID) sql.Type { return types.MustCreateString(sqltypes.Char, 20, c) }
	day := func(s string) time.Time { return tm(s + " 00:00:00") }
	enumT := types.MustCreateEnumType([]string{"a", "b", "c"}, sql.Collation_Default)
	setT := types.MustCreateSetType([]string{"a", "b", "c"}, sql.Collation_Default)
	cases := []TypeCase{
		{"tinyint", types.Int8, "num", intPool("-128", "127", false)},
		{"tinyint unsigned", types.Uint8, "num", intPool("0", "255", true)},
		{"smallint", types.Int16, "num", intPool("-32768", "32767", false)},
		{"smallint unsigned", types.Uint16, "num", intPool("0", "65535", true)},
		{"mediumint", types.Int24, "num", intPool("-8388608", "8388607", false)},
		{"mediumint unsigned", types.Uint24, "num", intPool("0", "16777215", true)},
		{"int", types.Int32, "num", intPool("-2147483648", "2147483647", false)},
		{"int unsigned", types.Uint32, "num", intPool("0", "4294967295", true)},
		{"bigint", types.Int64, "num", intPool("-9223372036854775808", "9223372036854775807", false)},
		{"bigint unsigned", types.Uint64, "num", append(intPool("0", "18446744073709551615", true), uint64(9223372036854775807), uint64(9223372036854775808), "9223372036854775808", dec("9223372036854775808"))},
		{"float", types.Float32, "opaque", []interface{}{nil, nil, float32(0), float64(0), 0, "0", float32(1.5), float64(1.5), "1.5", dec("1.5"), "1.50", -1.5, float32(-1.5), "-1.5", 1, "1", "1e0", float64(1), 2.25, "2.25", dec("2.25"),
			float64(16777216), 16777216, "16777216", float32(1e10), float64(1e10), "1e10", -0.5, 0.5, "0.5", float32(1 << 40), float64(1 << 40), "1099511627776"}},
		{"double", types.Float64, "opaque", []interface{}{nil, nil, float64(0), float32(0), 0, "0", 1.5, float32(1.5), "1.5", dec("1.5"), "1.50", -1.5, "-1.5", 1, "1", "1e0", int64(1), 0.1, "0.1", dec("0.1"), "1e-1",
			9007199254740992.0, int64(9007199254740992), "9007199254740992", 1e308, "1e308", -1e308, 5e-324, "5e-324", 123456789012345678.0}},
		{"decimal(10,2)", types.MustCreateColumnDecimalType(10, 2), "num", []interface{}{nil, nil, dec("0"), dec("0.00"), 0, "0", "0.0", dec("1"), dec("1.00"), 1, int64(1), "1", "1.00", "01.0", float64(1), dec("-1"), -1, "-1.00",
			dec("1.5"), "1.5", 1.5, dec("1.50"), dec("1.25"), "1.25", dec("-99.99"), "-99.99", dec("12345678.90"), "12345678.9", dec("99999999.99"), "99999999.99", dec("-99999999.99"), 100, dec("100.00"), "1e2"}},
		{"decimal(20,0)", types.MustCreateColumnDecimalType(20, 0), "num", []interface{}{nil, dec("0"), 0, "0", dec("-1"), -1, "-1", dec("18446744073709551615"), uint64(18446744073709551615), "18446744073709551615",
			dec("18446744073709551616"), "18446744073709551616", dec("-9223372036854775808"), int64(-9223372036854775808), "-9223372036854775808", dec("99999999999999999999"), "99999999999999999999", dec("-99999999999999999999"), 7, "7", dec("7")}},
		{"varchar(20) utf8mb4_0900_bin", varchar(sql.Collation_utf8mb4_0900_bin), "bin", strPool()},
		{"char(20) utf8mb4_0900_bin", char(sql.Collation_utf8mb4_0900_bin), "bin", strPool()},
		{"varchar(20) utf8mb4_0900_ai_ci", varchar(sql.Collation_utf8mb4_0900_ai_ci), "aici", strPool()},
		{"varchar(20) utf8mb4_general_ci", varchar(sql.Collation_utf8mb4_general_ci), "opaque", strPool()},
		{"text utf8mb4_0900_ai_ci", types.CreateText(sql.Collation_utf8mb4_0900_ai_ci), "aici", strPool()},
		{"varbinary(20)", types.MustCreateBinary(sqltypes.VarBinary, 20), "opaque", []interface{}{nil, nil, []byte{}, "", []byte("a"), "a", []byte("A"), "A", []byte{0}, []byte{0xff}, []byte("ab"), "ab", []byte{0x61, 0x00}, []byte("b"), "b", []byte{0x00, 0x61}, []byte("é"), "é", []byte{0x7f}, []byte{0x80}, "a0", "a1"}},
		{"blob", types.Blob, "opaque", []interface{}{nil, []byte{}, "", []byte("a"), "a", []byte("A"), []byte{0}, []byte{0xff}, []byte("ab"), "ab", []byte{0x61, 0x00}, []byte("b"), []byte{0x80}, []byte{0x7f, 0xff}, "abc", []byte("abd")}},
		{"date", types.Date, "opaque", []interface{}{nil, nil, "2024-02-29", day("2024-02-29"), "2024-2-29", "20240229", 20240229, int64(20240229), "2024-02-29 10:11:12", tm("2024-02-29 10:11:12"), "2024-03-01", day("2024-03-01"), "2023-12-31", day("2023-12-31"),
			"1000-01-01", day("1000-01-01"), "9999-12-31", day("9999-12-31"), "2024-02-28", "240229", "2000-01-01", 20000101}},
		{"datetime", types.Datetime, "opaque", []interface{}{nil, nil, "2024-02-29 12:34:56", tm("2024-02-29 12:34:56"), "20240229123456", int64(20240229123456), "2024-02-29 12:34:56.4", "2024-02-29 12:34:55.6", "2024-02-29 12:34:57", tm("2024-02-29 12:34:57"), "2024-02-29 12:34:56.5",
			"2024-02-29", tm("2024-02-29 00:00:00"), "2024-02-29 00:00:00", "1000-01-01 00:00:00", tm("1000-01-01 00:00:00"), "9999-12-31 23:59:59", tm("9999-12-31 23:59:59"), "2023-12-31 23:59:59", "2024-2-29 1:2:3", "2024-02-29 01:02:03"}},
		{"datetime(6)", types.DatetimeMaxPrecision, "opaque", []interface{}{nil, nil, "2024-02-29 12:34:56", tm("2024-02-29 12:34:56"), "2024-02-29 12:34:56.000000", "2024-02-29 12:34:56.5", tm("2024-02-29 12:34:56.5"), "2024-02-29 12:34:56.500000", "2024-02-29 12:34:56.499999", tm("2024-02-29 12:34:56.499999"),
			"2024-02-29 12:34:56.000001", tm("2024-02-29 12:34:56.000001"), "2024-02-29 12:34:56.0000014", "2024-02-29 12:34:56.0000006", "2024-02-29", tm("2024-02-29 00:00:00"), "9999-12-31 23:59:59.999999", tm("9999-12-31 23:59:59.999999"), "1000-01-01 00:00:00", int64(20240229123456)}},
		{"timestamp", types.Timestamp, "opaque", []interface{}{nil, nil, "2024-02-29 12:34:56", tm("2024-02-29 12:34:56"), "20240229123456", "2024-02-29 12:34:56.4", "2024-02-29 12:34:57", tm("2024-02-29 12:34:57"), "1970-01-01 00:00:01", tm("1970-01-01 00:00:01"),
			"2038-01-19 03:14:07", tm("2038-01-19 03:14:07"), "2000-01-01 00:00:00", tm("2000-01-01 00:00:00"), "2000-01-01", "1999-12-31 23:59:59"}},
		{"time", types.Time, "opaque", []interface{}{nil, nil, "12:34:56", "12:34:56.000000", "123456", 123456, int64(123456), types.Timespan(45296000000), "-12:34:56", types.Timespan(-45296000000), "00:00:00", 0, "0", types.Timespan(0), "838:59:59", "-838:59:59",
			"12:34:56.5", types.Timespan(45296500000), "12:34:57", "00:00:01", 1, "1", "01:00:00", 10000, "1 00:00:00", "24:00:00"}},
		{"year", types.Year, "opaque", []interface{}{nil, nil, 0, "0", "00", 2000, "2000", int16(2000), 1, "1", 2001, "2001", int64(2001), uint64(2001), float64(2001), 69, "69", 2069, 70, "70", 1970, 99, 1999, "1999", 1901, "1901", 2155, "2155", int16(2155)}},
		{"enum('a','b','c')", enumT, "opaque", []interface{}{nil, nil, "a", 1, uint16(1), int64(1), "b", 2, uint16(2), "c", 3, uint16(3), int8(3), "A", "z", 0, 4, ""}},
		{"set('a','b','c')", setT, "opaque", []interface{}{nil, nil, "", 0, uint64(0), "a", 1, uint64(1), "b", 2, "a,b", "b,a", 3, uint64(3), "c", 4, "a,c", "c,a", 5, "b,c", 6, "a,b,c", "c,b,a", 7, uint64(7), "a,a", "z", 8}},
		{"bit(16)", types.MustCreateBitType(16), "opaque", []interface{}{nil, nil, 0, uint64(0), 1, uint64(1), int8(1), true, []byte{1}, []byte{0, 1}, 255, uint8(255), []byte{255}, 256, []byte{1, 0}, 65535, uint16(65535), []byte{255, 255}, 97, "a", []byte("a"), "ab", 24930, 65536, -1}},
		{"json", types.JSON, "opaque", []interface{}{nil, nil, types.MustJSON("null"), types.MustJSON("true"), types.MustJSON("false"), types.MustJSON("1"), types.MustJSON("1.0"), types.MustJSON("2"), types.MustJSON("-1"), types.MustJSON("1.5"), types.MustJSON("1e0"),
			types.MustJSON(`"a"`), types.MustJSON(`"b"`), types.MustJSON(`"A"`), types.MustJSON(`""`), types.MustJSON(`"1"`), types.MustJSON("[]"), types.MustJSON("[1]"), types.MustJSON("[1, 2]"), types.MustJSON("[1,2]"), types.MustJSON("[2]"), types.MustJSON("[1, 1]"),
			types.MustJSON("{}"), types.MustJSON(`{"a": 1}`), types.MustJSON(`{"a": 2}`), types.MustJSON(`{"b": 1}`), types.MustJSON(`{"a": 1, "b": 1}`), types.MustJSON(`{"b": 1, "a": 1}`), types.MustJSON(`[1, "a"]`), types.MustJSON(`[[1]]`), types.MustJSON(`{"a": {"b": 1}}`)}},
	}
	return cases
}

func sign(i int) int {
	if i < 0 {
		return -1
	}
	if i > 0 {
		return 1
	}
	return 0
}

func interpOf(fam string, v interface{}) Interp {
	if v == nil {
		return Interp{K: "null", D: []int{}, Cps: []int{}}
	}
	switch fam {
	case "num":
		var text string
		switch x := v.(type) {
		case *apd.Decimal:
			text = x.Text('f')
		case apd.Decimal:
			text = x.Text('f')
		default:
			text = fmt.Sprint(v)
		}
		in := Interp{K: "num", D: []int{}, Cps: []int{}}
		if strings.HasPrefix(text, "-") {
			in.N = true
			text = text[1:]
		}
		if dot := strings.IndexByte(text, '.'); dot >= 0 {
			in.S = len(text) - dot - 1
			text = text[:dot] + text[dot+1:]
		}
		for _, c := range text {
			if c < '0' || c > '9' {
				return Interp{K: "opaque", D: []int{}, Cps: []int{}}
			}
			in.D = append(in.D, int(c-'0'))
		}
		return in
	case "bin", "aici":
		in := Interp{K: "str", D: []int{}, Cps: []int{}}
		var s string
		switch x := v.(type) {
		case string:
			s = x
		case []byte:
			s = string(x)
		default:
			return Interp{K: "opaque", D: []int{}, Cps: []int{}}
		}
		for _, r := range s {
			in.Cps = append(in.Cps, int(r))
		}
		return in
	}
	return Interp{K: "opaque", D: []int{}, Cps: []int{}}
}

func compare(ctx *sql.Context, t sql.Type, a, b interface{}) (res int, errText string) {
	defer func() {
		if p := recover(); p != nil {
			res, errText = 2, fmt.Sprintf("panic: %v", p)
		}
	}()
	c, err := t.Compare(ctx, a, b)
	if err != nil {
		return 2, err.Error()
	}
	return sign(c), ""
}

// sortCompare: how ORDER BY c (ascending, the default NULL placement) orders two rows.
func sortCompare(ctx *sql.Context, conds sql.SortConditions, a, b interface{}) (res int, errText string) {
	defer func() {
		if p := recover(); p != nil {
			res, errText = 2, fmt.Sprintf("panic: %v", p)
		}
	}()
	rs := sorters.NewRowSorter(ctx, conds)
	c := rs.CompareRows(sql.Row{a}, sql.Row{b})
	if err := rs.GetError(); err != nil {
		return 2, err.Error()
	}
	return sign(c), ""
}

func convert(ctx *sql.Context, t sql.Type, v interface{}) (out interface{}, ok bool, why string) {
	defer func() {
		if p := recover(); p != nil {
			ok, why = false, fmt.Sprintf("panic: %v", p)
		}
	}()
	c, inRange, err := t.Convert(ctx, v)
	if err != nil {
		return nil, false, "error: " + err.Error()
	}
	if inRange != sql.InRange {
		return nil, false, "out of range"
	}
	if c != nil {
		if u, err := sql.UnwrapAny(context.Background(), c); err == nil {
			c = u
		}
	}
	return c, true, ""
}

func main() {
	out := flag.String("out", "", "trace file (ndjson)")
	seed := flag.Int64("seed", 1, "")
	sets := flag.Int("sets", 3, "value sets per type")
	maxN := flag.Int("n", 24, "values per set")
	only := flag.String("only", "", "comma separated event ids to record (others are skipped)")
	flag.Parse()
	onlyIDs := map[int]bool{}
	for _, s := range strings.Split(*only, ",") {
		if i, err := strconv.Atoi(s); err == nil {
			onlyIDs[i] = true
		}
	}
	db := eng.New()
	ctx := db.NewSession().Ctx()
	w, err := vio.NewWriter(*out)
	if err != nil {
		vio.Fatal("%v", err)
	}
	defer w.Close()
	rep := &vio.Report{Extra: map[string]interface{}{}}
	perType := map[string]int{}
	excludedTotal, compared, id := 0, 0, 0
	distinctSets := map[string]bool{}
	for ti, tc := range typeCases() {
		for k := 0; k < *sets; k++ {
			id = (ti+1)*1000 + k // stable across -sets
			rng := rand.New(rand.NewSource(*seed*1000003 + int64(id)))
			idx := rng.Perm(len(tc.Pool))
			if len(onlyIDs) > 0 && !onlyIDs[id] {
				continue
			}
			ev := Event{Ev: "set", ID: id, Type: tc.Name, Fam: tc.Fam, Labels: []string{}, Nulls: []int{}, Interp: []Interp{}, Excluded: []string{}, Errs: []string{}}
			var raw, conv []interface{}
			for _, i := range idx {
				if len(raw) >= *maxN {
					break
				}
				v := tc.Pool[i]
				c, ok, why := convert(ctx, tc.Typ, v)
				if v == nil {
					// SQL NULL is never handed to Convert by the engine (INSERT, CAST and comparison
					// short-circuit it); it stays NULL for every type.
					c, ok = nil, true
				}
				if !ok {
					ev.Excluded = append(ev.Excluded, label(v)+": "+why)
					continue
				}
				raw = append(raw, v)
				conv = append(conv, c)
				ev.Labels = append(ev.Labels, label(v))
				if v == nil {
					ev.Nulls = append(ev.Nulls, len(raw))
				}
				ev.Interp = append(ev.Interp, interpOf(tc.Fam, c))
			}
			n := len(raw)
			ev.M, ev.MC, ev.MS = make([][]int, n), make([][]int, n), make([][]int, n)
			conds := sql.SortConditions{{Expr: expression.NewGetField(0, tc.Typ, "c", true), Order: sql.Ascending, NullOrdering: sql.NullsFirst}}
			for i := 0; i < n; i++ {
				ev.M[i], ev.MC[i], ev.MS[i] = make([]int, n), make([]int, n), make([]int, n)
				for j := 0; j < n; j++ {
					var e1, e2, e3 string
					ev.M[i][j], e1 = compare(ctx, tc.Typ, raw[i], raw[j])
					ev.MC[i][j], e2 = compare(ctx, tc.Typ, conv[i], conv[j])
					ev.MS[i][j], e3 = sortCompare(ctx, conds, conv[i], conv[j])
					for _, e := range []string{e1, e2, e3} {
						if e != "" && len(ev.Errs) < 3 {
							ev.Errs = append(ev.Errs, fmt.Sprintf("(%s, %s): %s", ev.Labels[i], ev.Labels[j], e))
						}
					}
					compared += 3
				}
			}
			fam := tc.Fam
			for _, in := range ev.Interp {
				if in.K == "opaque" {
					fam = "opaque" // a converted value the interpretation does not cover: laws only
				}
			}
			ev.Fam = fam
			w.Write(ev)
			rep.Cases++
			perType[tc.Name]++
			excludedTotal += len(ev.Excluded)
			key := tc.Name + "|" + strings.Join(ev.Labels, ";")
			if n >= 3 && !distinctSets[key] {
				distinctSets[key] = true
				rep.Nontrivial++
			}
			if len(rep.Samples) < 2 && id%11 == 3 {
				rep.Samples = append(rep.Samples, map[string]interface{}{"type": tc.Name, "values": ev.Labels, "first_row": ev.M[0]})
			}
		}
	}
	rep.Extra["per_type"] = perType
	rep.Extra["values_excluded_not_convertible"] = excludedTotal
	rep.Extra["compare_calls"] = compared
	rep.Emit()
}
