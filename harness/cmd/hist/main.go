// hist: history-based drivers for C11 (repeated queries reflect the current data: no stale results)
// and C12 (prepared statements behave like the inlined statement text).
// Events are db / q / multi events of spec/Trace_Query.tla and equiv events of spec/Trace_Laws.tla.
package main

import (
	"flag"
	"fmt"
	"os"
	"strings"

	"github.com/dolthub/vitess/go/sqltypes"
	"github.com/dolthub/vitess/go/vt/sqlparser"

	"github.com/dolthub/go-mysql-server/sql"

	"gmsverif/lib/eng"
	. "gmsverif/lib/sqlast"
	"gmsverif/lib/sqlgen"
	"gmsverif/lib/typefix"
	"gmsverif/lib/vio"
)

type dbEvent struct {
	Ev     string             `json:"ev"`
	DB     map[string]any     `json:"db"`
	Schema []*sqlgen.TableDef `json:"schema"`
	Step   string             `json:"step,omitempty"`
}

type multiEvent struct {
	Ev     string        `json:"ev"`
	ID     int           `json:"id"`
	Q      *Query        `json:"q"`
	Ress   []*eng.Result `json:"ress"`
	SQLs   []string      `json:"sqls"`
	Labels []string      `json:"labels"`
	Tags   []string      `json:"tags"`
	After  string        `json:"after,omitempty"`
}

type equivEvent struct {
	Ev     string        `json:"ev"`
	ID     int           `json:"id"`
	Kind   string        `json:"kind"`
	Ress   []*eng.Result `json:"ress"`
	SQLs   []string      `json:"sqls"`
	Labels []string      `json:"labels"`
	Tags   []string      `json:"tags"`
}

type onlySet map[int]bool

func (o onlySet) skip(id int) bool { return o != nil && !o[id] }

func parseOnly(s string) onlySet {
	if s == "" {
		return nil
	}
	o := onlySet{}
	for _, p := range strings.Split(s, ",") {
		var n int
		if _, err := fmt.Sscan(p, &n); err == nil {
			if n >= 10000 {
				n = n / 10000 // an event id: its history is the unit of isolation
			}
			if n > 9999 {
				n = 9999 // the read-only-query phase
			}
			o[n] = true
		}
	}
	return o
}

func setup(tabs []*sqlgen.TableDef) (*eng.DB, *eng.Session) {
	db := eng.New()
	s := db.NewSession()
	for _, t := range tabs {
		s.MustExec(t.CreateSQL())
		for _, ins := range t.InsertSQL() {
			s.MustExec(ins)
		}
	}
	return db, s
}

// snapshot reads the current table contents with plain full scans (the state the specification's
// query meaning is evaluated on) and returns the db event.
func snapshot(s *eng.Session, tabs []*sqlgen.TableDef, step string) dbEvent {
	cur := make([]*sqlgen.TableDef, len(tabs))
	for i, t := range tabs {
		c := *t
		r := s.Exec("SELECT * FROM " + t.Name)
		if r.Kind != "rows" {
			vio.Fatal("snapshot of %s failed: %s", t.Name, r.Msg)
		}
		c.Rows = r.Rows
		if c.Rows == nil {
			c.Rows = [][]Value{}
		}
		cur[i] = &c
	}
	return dbEvent{Ev: "db", DB: sqlgen.DBJSON(cur), Schema: cur, Step: step}
}

// randomDML renders one data- or index-modifying statement as text (its correctness is C13's
// subject; here it only moves the database to a new state).
func randomDML(g *sqlgen.Gen, tabs []*sqlgen.TableDef, idxN *int) string {
	t := tabs[g.R.Intn(len(tabs))]
	lit := func(c sqlgen.ColInfo) string {
		if c.Ty == "i" {
			v := g.IntVal(0.15)
			if c.NotNull && v.IsNull() {
				v = Int(g.R.Intn(4))
			}
			return v.SQL()
		}
		return g.StrVal(0.15).SQL()
	}
	col := func() int { return g.R.Intn(len(t.Cols)) }
	where := func() string {
		c := col()
		if t.Cols[c].Ty == "i" {
			return fmt.Sprintf("c%d %s %s", c+1, []string{"=", "<", ">=", "<>"}[g.R.Intn(4)], Int(g.R.Intn(5)-1).SQL())
		}
		return fmt.Sprintf("c%d %s %s", c+1, []string{"=", "<", ">="}[g.R.Intn(3)], g.StrVal(0).SQL())
	}
	switch g.R.Intn(10) {
	case 0, 1, 2, 3:
		var vs []string
		for _, c := range t.Cols {
			vs = append(vs, lit(c))
		}
		return fmt.Sprintf("INSERT INTO %s VALUES (%s)", t.Name, strings.Join(vs, ", "))
	case 4, 5:
		c := col()
		for isPK(t, c) {
			c = (c + 1) % len(t.Cols)
			if len(t.PK) == len(t.Cols) {
				break
			}
		}
		return fmt.Sprintf("UPDATE %s SET c%d = %s WHERE %s", t.Name, c+1, lit(t.Cols[c]), where())
	case 6, 7:
		return fmt.Sprintf("DELETE FROM %s WHERE %s", t.Name, where())
	case 8:
		*idxN++
		return fmt.Sprintf("CREATE INDEX x%d ON %s (c%d)", *idxN, t.Name, col()+1)
	default:
		if g.R.Intn(4) == 0 {
			return "TRUNCATE TABLE " + t.Name
		}
		var vs []string
		for _, c := range t.Cols {
			vs = append(vs, lit(c))
		}
		return fmt.Sprintf("REPLACE INTO %s VALUES (%s)", t.Name, strings.Join(vs, ", "))
	}
}

func isPK(t *sqlgen.TableDef, c int) bool {
	for _, k := range t.PK {
		if k == c {
			return true
		}
	}
	return false
}

// cacheyQuery generates queries whose plans contain cacheable operators: uncorrelated subqueries,
// IN-subquery hash tables, hash joins, derived tables and CTEs referenced twice.
func cacheyQuery(g *sqlgen.Gen, depth int) *Query {
	g.NoSubq = false
	g.MaxJoin = 3
	for {
		q := g.Query(depth)
		tags := strings.Join(Tags(q), ",")
		if strings.Contains(tags, "subq:") || strings.Contains(tags, "join:") || strings.Contains(tags, "derived") || g.R.Intn(4) == 0 {
			return q
		}
	}
}

func main() {
	mode := flag.String("mode", "c11", "c11 | c12")
	seed := flag.Int64("seed", 1, "")
	nh := flag.Int("histories", 10, "")
	steps := flag.Int("steps", 8, "state changes per history")
	nq := flag.Int("queries", 4, "repeated queries per history")
	out := flag.String("out", "trace.ndjson", "")
	onlyS := flag.String("only", "", "run only the histories with these numbers (a history is the unit of isolation)")
	flag.Parse()
	only := parseOnly(*onlyS)
	w, err := vio.NewWriter(*out)
	if err != nil {
		vio.Fatal("%v", err)
	}
	rep := &vio.Report{Extra: map[string]interface{}{}}
	switch *mode {
	case "c11":
		runC11(w, rep, *seed, *nh, *steps, *nq, only)
	case "c12":
		runC12(w, rep, *seed, *nh, *steps, *nq, only)
	default:
		vio.Fatal("unknown mode")
	}
	w.Close()
	rep.Emit()
	_ = os.Stdout
}

// ------------------------------------------------------------------ C11

func runC11(w *vio.Writer, rep *vio.Report, seed int64, nh, steps, nq int, only onlySet) {
	kinds := map[string]int{}
	changed := 0
	for h := 1; h <= nh; h++ {
		g := sqlgen.New(seed*1000003 + int64(h))
		tabs := g.Schema(3)
		var qs []*Query
		for i := 0; i < nq; i++ {
			qs = append(qs, cacheyQuery(g, 2))
		}
		// all random choices of the history are drawn before anything runs
		var dml []string
		idxN := 0
		for i := 0; i < steps; i++ {
			dml = append(dml, randomDML(g, tabs, &idxN))
		}
		// failing statements interleaved with the history: an error at bind, analysis or execution time,
		// through any execution path, must not leave a stale snapshot or transaction behind in the session
		type failing struct {
			text string
			vals []Value
			path int // 0 plain, 1 bound parameters, 2 SQL PREPARE
			sess int
		}
		var fails [][]failing
		for i := 0; i <= steps; i++ {
			var fs []failing
			for k := 0; k < g.R.Intn(3); k++ {
				t := tabs[g.R.Intn(len(tabs))]
				// mostly the table the coming change touches: that is the snapshot that would go stale
				if i > 0 && g.R.Intn(4) > 0 {
					for _, cand := range tabs {
						if strings.Contains(dml[i-1], " "+cand.Name+" ") || strings.HasSuffix(dml[i-1], " "+cand.Name) {
							t = cand
						}
					}
				}
				var f failing
				switch g.R.Intn(6) {
				case 0:
					f = failing{text: fmt.Sprintf("SELECT nosuch FROM %s WHERE c1 = ?", t.Name), vals: []Value{Int(1)}}
				case 1:
					f = failing{text: fmt.Sprintf("SELECT c1 FROM %s WHERE nosuch_fn(c1) = ?", t.Name), vals: []Value{Int(0)}}
				case 2:
					f = failing{text: fmt.Sprintf("SELECT c1 FROM %s WHERE c1 = (SELECT c1 FROM %s UNION ALL SELECT ? UNION ALL SELECT 2)", t.Name, t.Name), vals: []Value{Int(1)}}
				case 3:
					f = failing{text: fmt.Sprintf("SELECT * FROM %s a JOIN nosuch_table b ON a.c1 = b.c1 WHERE a.c1 > ?", t.Name), vals: []Value{Int(-5)}}
				case 4:
					f = failing{text: fmt.Sprintf("UPDATE %s SET c1 = nosuch + ? WHERE c1 IS NOT NULL", t.Name), vals: []Value{Int(1)}}
				default:
					f = failing{text: fmt.Sprintf("SELECT c1, COUNT(*) FROM %s WHERE c1 < ? GROUP BY c9", t.Name), vals: []Value{Int(9)}}
				}
				f.path = g.R.Intn(3)
				f.sess = g.R.Intn(2)
				fs = append(fs, f)
			}
			fails = append(fails, fs)
		}
		if only.skip(h) {
			continue
		}
		db, s1 := setup(tabs)
		apiPrepared = map[string]bool{}
		s2 := db.NewSession()
		s3 := db.NewSession()
		texts := make([]string, len(qs))
		for i, q := range qs {
			texts[i] = (&Renderer{}).Query(q)
			// SQL-level prepared statements in both sessions, prepared ONCE before any change
			for _, s := range []*eng.Session{s1, s2} {
				s.Exec(fmt.Sprintf("PREPARE p%d FROM '%s'", i, strings.ReplaceAll(strings.ReplaceAll(texts[i], "\\", "\\\\"), "'", "''")))
			}
			// API-level prepared statement (cached per session by the engine)
			db.Engine.PrepareQuery(s1.Ctx(), texts[i])
		}
		last := make([]string, len(qs))
		for step := 0; step <= steps; step++ {
			// 1. failing statements first: whatever they leave behind in their session must not survive
			//    until that session's next statement, which comes only AFTER another session's change
			failedIn := -1
			for _, f := range fails[step] {
				sess := []*eng.Session{s1, s2}[f.sess]
				failedIn = f.sess
				var r eng.Result
				switch f.path {
				case 0:
					inl := f.text
					for _, v := range f.vals {
						inl = strings.Replace(inl, "?", v.SQL(), 1)
					}
					r = sess.Exec(inl)
				case 1:
					r = execBoundNoPrepare(db, sess, f.text, f.vals)
				default:
					r = sess.Exec("PREPARE bad FROM '" + strings.ReplaceAll(f.text, "'", "''") + "'")
				}
				kinds["failing:"+r.Kind]++
			}
			// 2. the change, made by the session that did not just fail (or alternating)
			after := "initial"
			if step > 0 {
				after = dml[step-1]
				sess := s1
				if failedIn == 0 || (failedIn < 0 && step%3 == 0) {
					sess = s2
				}
				r := sess.Exec(after)
				kinds["dml:"+r.Kind]++
			}
			// the recorded state is read by a THIRD session that runs nothing else
			w.Write(snapshot(s3, tabs, after))
			for i, q := range qs {
				id := h*10000 + step*100 + i
				ev := multiEvent{Ev: "multi", ID: id, Q: q, Tags: Tags(q), After: after}
				add := func(label string, r eng.Result) {
					ev.Ress = append(ev.Ress, &r)
					ev.SQLs = append(ev.SQLs, texts[i])
					ev.Labels = append(ev.Labels, label)
					kinds[r.Kind]++
				}
				add("s1-plain", s1.Exec(texts[i]))
				add("s1-plain-again", s1.Exec(texts[i]))
				add("s1-execute", s1.Exec(fmt.Sprintf("EXECUTE p%d", i)))
				add("s2-plain", s2.Exec(texts[i]))
				add("s2-execute", s2.Exec(fmt.Sprintf("EXECUTE p%d", i)))
				add("s1-api-prepared", execBound(db, s1, texts[i], nil))
				w.Write(ev)
				rep.Cases++
				key := fmt.Sprint(ev.Ress[0].Rows)
				if step > 0 && key != last[i] {
					changed++
					rep.Nontrivial++
				}
				last[i] = key
				if len(rep.Samples) < 3 && step > 0 && len(ev.Ress[0].Rows) > 0 && id%7 == 0 {
					rep.Samples = append(rep.Samples, map[string]interface{}{"query": texts[i], "after": after, "rows": len(ev.Ress[0].Rows)})
				}
			}
		}
	}
	rep.Extra["result_kinds"] = kinds
	rep.Extra["result_changed_after_step"] = changed
	if only == nil || only[9999] {
		pureQueries(w, rep, seed)
	}
}

// pureQueries: a read-only query changes nothing. Over a fixture with one column of every scalar
// type, each catalogued select-list expression / aggregate is run as a query and the full table is
// read before and after; the two snapshots form an `equiv` event (spec/Trace_Laws.tla).
func pureQueries(w *vio.Writer, rep *vio.Report, seed int64) {
	db := eng.New()
	s := db.NewSession()
	for _, f := range typefix.Fixture {
		s.MustExec(f)
	}
	w.Write(dbEvent{Ev: "db", DB: map[string]any{}, Schema: []*sqlgen.TableDef{}, Step: "type fixture"})
	snap := func() *eng.Result {
		r := s.Exec("SELECT * FROM a ORDER BY k")
		return &r
	}
	var qs []string
	for _, e := range typefix.Exprs {
		qs = append(qs, "SELECT "+e+" FROM a")
		qs = append(qs, "SELECT k FROM a WHERE "+e+" IS NOT NULL ORDER BY "+e)
	}
	for _, a := range typefix.Aggs {
		qs = append(qs, "SELECT "+a+" FROM a")
	}
	for i, q := range qs {
		before := snap()
		r := s.Exec(q)
		after := snap()
		w.Write(equivEvent{Ev: "equiv", ID: 99990000 + i, Kind: "read-only-query-changes-nothing", Ress: []*eng.Result{before, after},
			SQLs: []string{"SELECT * FROM a ORDER BY k  -- before", q + "  -- then SELECT * again"}, Labels: []string{"before", "after"}, Tags: []string{"pure:" + r.Kind}})
		rep.Cases++
	}
	rep.Extra["pure_queries"] = len(qs)
}

var apiPrepared = map[string]bool{}

// execBound runs a statement through Engine.QueryWithBindings (the path of the binary protocol).
func execBound(db *eng.DB, s *eng.Session, text string, vals []Value) (res eng.Result) {
	defer func() {
		if r := recover(); r != nil {
			res = eng.Result{Kind: "panic", Msg: fmt.Sprint(r), Rows: [][]Value{}}
		}
	}()
	if os.Getenv("VERIF_SHOW_SQL") != "" {
		fmt.Fprintf(os.Stderr, "[s%d] BOUND %s %v\n", s.ID, text, vals)
	}
	ctx := s.Ctx()
	bindings := map[string]sqlparser.Expr{}
	for i, v := range vals {
		var sv sqltypes.Value
		switch v.T {
		case "n":
			sv = sqltypes.NULL
		case "i":
			sv = sqltypes.NewInt64(int64(toInt(v.V)))
		default:
			sv = sqltypes.NewVarChar(v.Text())
		}
		e, err := sqlparser.ExprFromValue(sv)
		if err != nil {
			return eng.Result{Kind: "err", Msg: "binding: " + err.Error(), Rows: [][]Value{}}
		}
		bindings[fmt.Sprintf("v%d", i+1)] = e
	}
	// like a client of the binary protocol: COM_STMT_PREPARE once per statement text and session,
	// COM_STMT_EXECUTE many times
	key := fmt.Sprintf("%d|%s", s.ID, text)
	if !apiPrepared[key] {
		apiPrepared[key] = true
		if _, err := db.Engine.PrepareQuery(ctx, text); err != nil {
			return eng.Result{Kind: "err", Msg: err.Error(), Rows: [][]Value{}}
		}
	}
	sch, iter, _, err := db.Engine.QueryWithBindings(ctx, text, nil, bindings, nil)
	if err != nil {
		return eng.Result{Kind: "err", Msg: err.Error(), Rows: [][]Value{}}
	}
	rows, err := sql.RowIterToRows(ctx, iter)
	if err != nil {
		return eng.Result{Kind: "err", Msg: err.Error(), Rows: [][]Value{}}
	}
	return eng.FromRows(sch, rows)
}

// execBoundNoPrepare goes straight to QueryWithBindings with bindings for a text the session has not
// prepared (the engine prepares it on the fly).
func execBoundNoPrepare(db *eng.DB, s *eng.Session, text string, vals []Value) (res eng.Result) {
	defer func() {
		if r := recover(); r != nil {
			res = eng.Result{Kind: "panic", Msg: fmt.Sprint(r), Rows: [][]Value{}}
		}
	}()
	ctx := s.Ctx()
	bindings := map[string]sqlparser.Expr{}
	for i, v := range vals {
		sv := sqltypes.NewInt64(int64(toInt(v.V)))
		e, _ := sqlparser.ExprFromValue(sv)
		bindings[fmt.Sprintf("v%d", i+1)] = e
	}
	sch, iter, _, err := db.Engine.QueryWithBindings(ctx, text, nil, bindings, nil)
	if err != nil {
		return eng.Result{Kind: "err", Msg: err.Error(), Rows: [][]Value{}}
	}
	rows, err := sql.RowIterToRows(ctx, iter)
	if err != nil {
		return eng.Result{Kind: "err", Msg: err.Error(), Rows: [][]Value{}}
	}
	return eng.FromRows(sch, rows)
}

func toInt(v any) int {
	switch x := v.(type) {
	case int:
		return x
	case float64:
		return int(x)
	}
	return 0
}
