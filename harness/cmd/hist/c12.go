package main

import (
	"fmt"
	"strings"

	"gmsverif/lib/eng"
	. "gmsverif/lib/sqlast"
	"gmsverif/lib/sqlgen"
	"gmsverif/lib/vio"
)

// markParams marks a random subset of the literals of q as parameters; returns how many.
func markParams(g *sqlgen.Gen, q *Query) int {
	n := 0
	var fe func(e *Expr)
	var fq func(q *Query)
	var ff func(f *From)
	fe = func(e *Expr) {
		if e == nil {
			return
		}
		if e.K == "lit" {
			if g.R.Intn(2) == 0 {
				e.P = true
				n++
			}
			return
		}
		for _, a := range e.A {
			fe(a)
		}
		fe(e.E)
		fe(e.Arg)
		fe(e.Els)
		for _, a := range e.List {
			fe(a)
		}
		for _, w := range e.Whens {
			fe(w[0])
			fe(w[1])
		}
		if e.Q != nil {
			fq(e.Q)
		}
	}
	ff = func(f *From) {
		if f == nil {
			return
		}
		ff(f.L)
		ff(f.R)
		if f.On != nil && !(f.On.K == "lit") {
			fe(f.On)
		}
		if f.Q != nil {
			fq(f.Q)
		}
	}
	fq = func(q *Query) {
		if q == nil {
			return
		}
		if q.K == "setop" {
			fq(q.L)
			fq(q.R)
		} else {
			ff(q.From)
			if q.Where != nil && q.Where.K != "lit" {
				fe(q.Where)
			}
			if q.Grouped && q.Having != nil && q.Having.K != "lit" {
				fe(q.Having)
			}
			// select-list literals are parameters too, but never the GROUP BY keys themselves
			if !q.Grouped {
				for _, p := range q.Proj {
					fe(p)
				}
			}
		}
		if q.Limit >= 0 && g.R.Intn(2) == 0 {
			q.LimitParam = true
			n++
		}
	}
	fq(q)
	return n
}

// revalue gives every parameter literal a new value of the same type (re-execution with other values).
func revalue(g *sqlgen.Gen, q *Query) {
	var fe func(e *Expr)
	var fq func(q *Query)
	var ff func(f *From)
	fe = func(e *Expr) {
		if e == nil {
			return
		}
		if e.K == "lit" && e.P {
			var v Value
			switch e.V.T {
			case "s":
				v = g.StrVal(0.1)
			case "n":
				v = Null() // the type of a NULL parameter is not known here: keep it NULL
			default:
				v = g.IntVal(0.1)
			}
			e.V = &v
			return
		}
		for _, a := range e.A {
			fe(a)
		}
		fe(e.E)
		fe(e.Arg)
		fe(e.Els)
		for _, a := range e.List {
			fe(a)
		}
		for _, w := range e.Whens {
			fe(w[0])
			fe(w[1])
		}
		if e.Q != nil {
			fq(e.Q)
		}
	}
	ff = func(f *From) {
		if f == nil {
			return
		}
		ff(f.L)
		ff(f.R)
		fe(f.On)
		if f.Q != nil {
			fq(f.Q)
		}
	}
	fq = func(q *Query) {
		if q == nil {
			return
		}
		fq(q.L)
		fq(q.R)
		ff(q.From)
		fe(q.Where)
		fe(q.Having)
		for _, p := range q.Proj {
			fe(p)
		}
		if q.LimitParam {
			q.Limit = g.R.Intn(4)
			if q.Offset > 0 {
				q.Offset = 1 + g.R.Intn(2)
			}
		}
	}
	fq(q)
}

func quoteSQL(s string) string {
	return "'" + strings.ReplaceAll(strings.ReplaceAll(s, "\\", "\\\\"), "'", "''") + "'"
}

// threeWays executes the statement inlined, through SQL PREPARE/EXECUTE USING @vars, and through
// Engine.QueryWithBindings; name identifies the SQL-level prepared statement (prepared once).
func threeWays(db *eng.DB, s *eng.Session, q *Query, name string, prepared map[string]bool) ([]*eng.Result, []string, []string) {
	inl := (&Renderer{}).Query(q)
	pr := &Renderer{Params: true}
	ptext := pr.Query(q)
	vals := pr.ParamVals
	var ress []*eng.Result
	r0 := s.Exec(inl)
	ress = append(ress, &r0)
	if !prepared[name] {
		s.Exec("PREPARE " + name + " FROM " + quoteSQL(ptext))
		prepared[name] = true
	}
	var using []string
	for i, v := range vals {
		s.Exec(fmt.Sprintf("SET @v%d = %s", i+1, v.SQL()))
		using = append(using, fmt.Sprintf("@v%d", i+1))
	}
	ex := "EXECUTE " + name
	if len(using) > 0 {
		ex += " USING " + strings.Join(using, ", ")
	}
	r1 := s.Exec(ex)
	ress = append(ress, &r1)
	r2 := execBound(db, s, ptext, vals)
	ress = append(ress, &r2)
	return ress, []string{inl, ex + "  -- " + ptext, "bindings: " + ptext}, []string{"inlined", "sql-prepare-execute", "api-bindings"}
}

func runC12(w *vio.Writer, rep *vio.Report, seed int64, nh, steps, nq int, only onlySet) {
	kinds := map[string]int{}
	for h := 1; h <= nh; h++ {
		g := sqlgen.New(seed*1000003 + int64(h))
		tabs := g.Schema(3)
		var qs []*Query
		for i := 0; i < nq; i++ {
			for tries := 0; ; tries++ {
				q := g.Query(2)
				if markParams(g, q) > 0 || tries > 20 {
					qs = append(qs, q)
					break
				}
			}
		}
		// one statement per history that compares a binary-collation string column with a fixed literal and
		// an integer column with a parameter
		for _, t := range tabs {
			sc, ic := -1, -1
			for i, c := range t.Cols {
				if c.Ty == "s" && c.Coll == "bin" && sc < 0 {
					sc = i
				}
				if c.Ty == "i" && ic < 0 {
					ic = i
				}
			}
			if sc >= 0 && ic >= 0 {
				lit := Lit(g.StrVal(0))
				par := Lit(Int(g.R.Intn(3) - 2))
				par.P = true
				var proj []*Expr
				for i, c := range t.Cols {
					proj = append(proj, Col(0, i+1, c.Coll))
				}
				qs = append(qs, Select(Table(t.Name, len(t.Cols)), Op("and", Op("eq", Col(0, sc+1, "bin"), lit), Op("gt", Col(0, ic+1, "none"), par)), proj...))
				break
			}
		}
		// sibling statements: the same statement with the letter case of its non-parameter string literals
		// swapped. Under a binary collation it means something else, and a prepared-statement cache that
		// confuses the two texts returns the sibling's rows.
		for _, q := range append([]*Query{}, qs...) {
			v := CloneQuery(q)
			changed := false
			WalkExprs(v, func(e *Expr) {
				if e.K == "lit" && !e.P && e.V.T == "s" {
					t := e.V.Text()
					sw := strings.Map(func(r rune) rune {
						switch {
						case r >= 'a' && r <= 'z':
							return r - 32
						case r >= 'A' && r <= 'Z':
							return r + 32
						}
						return r
					}, t)
					if sw != t {
						nv := Str(sw)
						e.V = &nv
						changed = true
					}
				}
			})
			if changed {
				qs = append(qs, v)
			}
		}
		var dml []string
		idxN := 0
		for i := 0; i < steps; i++ {
			dml = append(dml, randomDML(g, tabs, &idxN))
		}
		// parameterised DML cases: (template with ?, values)
		type pdml struct {
			text string
			vals []Value
		}
		var pd []pdml
		for i := 0; i < 3; i++ {
			t := tabs[g.R.Intn(len(tabs))]
			switch g.R.Intn(3) {
			case 0:
				var vs []Value
				for _, c := range t.Cols {
					if c.Ty == "i" {
						v := g.IntVal(0.1)
						if c.NotNull && v.IsNull() {
							v = Int(7)
						}
						vs = append(vs, v)
					} else {
						vs = append(vs, g.StrVal(0.1))
					}
				}
				pd = append(pd, pdml{fmt.Sprintf("INSERT INTO %s VALUES (%s)", t.Name, strings.TrimSuffix(strings.Repeat("?, ", len(vs)), ", ")), vs})
			case 1:
				c := len(t.Cols) - 1
				v := Value(g.IntVal(0.1))
				if t.Cols[c].Ty == "s" {
					v = g.StrVal(0.1)
				}
				pd = append(pd, pdml{fmt.Sprintf("UPDATE %s SET c%d = ? WHERE c1 >= ?", t.Name, c+1), []Value{v, Int(g.R.Intn(4) - 1)}})
			default:
				pd = append(pd, pdml{fmt.Sprintf("DELETE FROM %s WHERE c1 = ? OR c1 < ?", t.Name), []Value{Int(g.R.Intn(4)), Int(g.R.Intn(3) - 2)}})
			}
		}
		// second value assignment for the re-execution
		seedRe := g.R.Int63()
		if only.skip(h) {
			continue
		}
		db, s := setup(tabs)
		apiPrepared = map[string]bool{}
		prepared := map[string]bool{}
		for round := 0; round <= steps; round++ {
			after := "initial"
			if round > 0 {
				after = dml[round-1]
				r := s.Exec(after)
				kinds["dml:"+r.Kind]++
			}
			w.Write(snapshot(s, tabs, after))
			for i, q := range qs {
				if round == 1 {
					// from the first change on, the parameters carry other values than at PREPARE time
					g2 := sqlgen.New(seedRe + int64(i))
					revalue(g2, q)
				}
				id := h*10000 + round*100 + i
				ress, sqls, labels := threeWays(db, s, q, fmt.Sprintf("p%d", i), prepared)
				w.Write(multiEvent{Ev: "multi", ID: id, Q: q, Ress: ress, SQLs: sqls, Labels: labels, Tags: Tags(q), After: after})
				rep.Cases++
				for _, r := range ress {
					kinds[r.Kind]++
				}
				if ress[0].Kind == "rows" && len(ress[0].Rows) > 0 {
					rep.Nontrivial++
				}
				if len(rep.Samples) < 3 && round > 0 && len(ress[0].Rows) > 0 && id%5 == 0 {
					rep.Samples = append(rep.Samples, map[string]interface{}{"inlined": sqls[0], "prepared": sqls[1]})
				}
			}
		}
		// parameterised DML on three twin engines: inlined / PREPARE+EXECUTE / bindings
		for i, p := range pd {
			id := h*10000 + 9000 + i
			var ress []*eng.Result
			var sqls []string
			for way := 0; way < 3; way++ {
				tdb, ts := setup(tabs)
				inl := p.text
				for _, v := range p.vals {
					inl = strings.Replace(inl, "?", v.SQL(), 1)
				}
				var r eng.Result
				switch way {
				case 0:
					r = ts.Exec(inl)
					sqls = append(sqls, inl)
				case 1:
					ts.Exec("PREPARE d FROM " + quoteSQL(p.text))
					var using []string
					for k, v := range p.vals {
						ts.Exec(fmt.Sprintf("SET @v%d = %s", k+1, v.SQL()))
						using = append(using, fmt.Sprintf("@v%d", k+1))
					}
					r = ts.Exec("EXECUTE d USING " + strings.Join(using, ", "))
					sqls = append(sqls, "EXECUTE: "+p.text)
				default:
					r = execBound(tdb, ts, p.text, p.vals)
					sqls = append(sqls, "bindings: "+p.text)
				}
				kinds["pdml:"+r.Kind]++
				// observable effect: reply class + affected count + contents of every table
				tname := strings.Fields(strings.TrimPrefix(strings.TrimPrefix(strings.TrimPrefix(p.text, "INSERT INTO "), "UPDATE "), "DELETE FROM "))[0]
				post := ts.Exec("SELECT * FROM " + tname)
				if r.Kind == "ok" {
					post.Rows = append(post.Rows, []Value{Str("affected"), Int(r.Affected)})
				} else {
					post.Rows = append(post.Rows, []Value{Str("outcome"), Str(r.Kind)})
				}
				ress = append(ress, &post)
			}
			w.Write(equivEvent{Ev: "equiv", ID: id, Kind: "dml-params", Ress: ress, SQLs: sqls, Labels: []string{"inlined", "sql-prepare-execute", "api-bindings"}, Tags: []string{"dml"}})
			rep.Cases++
		}
	}
	rep.Extra["result_kinds"] = kinds
}
