// c36: concurrent read-only sessions. One engine, one fixed generated database; G goroutines, each
// with its own session registered in the engine's process list the way the server handler does it
// (AddConnection / BeginQuery / EndQuery), run generated read-only queries at the same time. Every
// result is recorded as a `q` event (validated against the query's meaning over the fixed database by
// spec/Trace_Laws.tla) and the registries are recorded at quiescence. Built with -race: the race
// detector is how the real code is executed; a report ends the process (GORACE=halt_on_error=1).
package main

import (
	"context"
	"flag"
	"sync/atomic"
	"fmt"
	"sync"

	sqle "github.com/dolthub/go-mysql-server"
	"github.com/dolthub/go-mysql-server/sql"

	"gmsverif/lib/eng"
	. "gmsverif/lib/sqlast"
	"gmsverif/lib/sqlgen"
	"gmsverif/lib/vio"
)

type qEvent struct {
	Ev   string      `json:"ev"`
	ID   int         `json:"id"`
	G    int         `json:"g"`
	Seq  int         `json:"seq"`
	Q    *Query      `json:"q"`
	Res  *eng.Result `json:"res"`
	SQL  string      `json:"sql"`
	Tags []string    `json:"tags"`
}

type dbEvent struct {
	Ev     string             `json:"ev"`
	DB     map[string]any     `json:"db"`
	Schema []*sqlgen.TableDef `json:"schema"`
}

type quiesceEvent struct {
	Ev             string `json:"ev"`
	ID             int    `json:"id"`
	ThreadsRunning int    `json:"threads_running"`
	Busy           int    `json:"busy"`
	Connections    int    `json:"connections"`
	Expected       int    `json:"expected_connections"`
	Caches         int    `json:"caches"` // caches still registered in the engine's shared MemoryManager
}

var pidCounter uint64

func statusInt(name string) int {
	_, v, ok := sql.StatusVariables.GetGlobal(name)
	if !ok {
		return -1
	}
	switch x := v.(type) {
	case int64:
		return int(x)
	case uint64:
		return int(x)
	case int:
		return x
	}
	return -1
}

func main() {
	seed := flag.Int64("seed", 1, "")
	rounds := flag.Int("rounds", 4, "databases")
	gor := flag.Int("goroutines", 8, "")
	per := flag.Int("queries", 12, "queries per goroutine")
	out := flag.String("out", "trace.ndjson", "")
	flag.Parse()
	w, err := vio.NewWriter(*out)
	if err != nil {
		vio.Fatal("%v", err)
	}
	rep := &vio.Report{Extra: map[string]interface{}{}}
	id := 0
	for r := 0; r < *rounds; r++ {
		g := sqlgen.New(*seed*1000003 + int64(r))
		g.MaxJoin = 3
		tabs := g.Schema(3)
		db := eng.New()
		s0 := db.NewSession()
		for _, t := range tabs {
			s0.MustExec(t.CreateSQL())
			for _, ins := range t.InsertSQL() {
				s0.MustExec(ins)
			}
		}
		w.Write(dbEvent{Ev: "db", DB: sqlgen.DBJSON(tabs), Schema: tabs})
		// the query pool is generated up front (one generator is not safe for concurrent use)
		type job struct {
			q    *Query
			text string
		}
		pool := make([][]job, *gor)
		shared := []job{}
		for i := 0; i < 4; i++ { // some queries are run by every goroutine (same text, same plan cache keys)
			q := g.Query(2)
			shared = append(shared, job{q, (&Renderer{}).Query(q)})
		}
		for gi := range pool {
			for k := 0; k < *per; k++ {
				if k%3 == 0 {
					pool[gi] = append(pool[gi], shared[(gi+k)%len(shared)])
					continue
				}
				q := g.Query(2)
				pool[gi] = append(pool[gi], job{q, (&Renderer{}).Query(q)})
			}
		}
		pl := db.Engine.ProcessList
		if pl == nil {
			pl = sqle.NewProcessList()
			db.Engine.ProcessList = pl
		}
		run0 := statusInt("Threads_running")
		var mu sync.Mutex
		var wg sync.WaitGroup
		base := id
		sessions := make([]*eng.Session, *gor) // created sequentially: the fixture's id counter is not concurrent
		for gi := range sessions {
			sessions[gi] = db.NewSession()
		}
		for gi := 0; gi < *gor; gi++ {
			wg.Add(1)
			go func(gi int) {
				defer wg.Done()
				s := sessions[gi]
				pl.AddConnection(s.ID, "localhost")
				pl.ConnectionReady(s.Sess)
				for k, j := range pool[gi] {
					ctx := sql.NewContext(context.Background(), sql.WithSession(s.Sess), sql.WithPid(atomic.AddUint64(&pidCounter, 1)),
						sql.WithMemoryManager(db.Engine.MemoryManager), sql.WithProcessList(pl)) // as server.SessionManager builds them
					ctx.SetCurrentDatabase("d")
					qctx, err := pl.BeginQuery(ctx, j.text)
					var res eng.Result
					if err != nil {
						res = eng.Result{Kind: "err", Msg: "BeginQuery: " + err.Error(), Rows: [][]Value{}}
					} else {
						res = s.ExecCtx(qctx, j.text)
						pl.EndQuery(qctx)
					}
					mu.Lock()
					w.Write(qEvent{Ev: "q", ID: base + gi*1000 + k + 1, G: gi, Seq: k, Q: j.q, Res: &res, SQL: j.text, Tags: Tags(j.q)})
					rep.Cases++
					if res.Kind == "rows" && len(res.Rows) > 0 {
						rep.Nontrivial++
					}
					mu.Unlock()
				}
			}(gi)
		}
		wg.Wait()
		id += *gor * 1000
		busy := 0
		procs := pl.Processes()
		for _, p := range procs {
			if p.Command != sql.ProcessCommandSleep {
				busy++
			}
		}
		w.Write(quiesceEvent{Ev: "quiesce", ID: id, ThreadsRunning: statusInt("Threads_running") - run0, Busy: busy, Connections: len(procs), Expected: *gor, Caches: db.Engine.MemoryManager.NumCaches()})
		id++
		if len(rep.Samples) < 2 {
			rep.Samples = append(rep.Samples, map[string]interface{}{"round": r, "goroutines": *gor, "queries_each": *per, "example": pool[0][1].text})
		}
	}
	w.Close()
	rep.Extra["goroutines"] = *gor
	rep.Emit()
	_ = fmt.Sprint
}
