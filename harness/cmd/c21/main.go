// c21: binding A of C21 (schema changes preserve existing data).  Replays TLC behaviours of
// spec/SchemaChange.tla: every step is one statement (CREATE TABLE, INSERT, ALTER TABLE ..., CREATE /
// DROP INDEX, RENAME TABLE) whose SQL text was built by the specification.  After every step the
// reply class (ok / fail / panic) is compared with the specification's, and the table is observed:
//
//	tables     SHOW TABLES                                   = {exp.table}
//	rows       exp.select (SELECT * .. ORDER BY all columns) = exp.rows as a bag of value tuples
//	showcols   SHOW FULL COLUMNS   (Field, Type, Null, Key, Default, Collation), in column order
//	describe   DESCRIBE            (Field, Type, Null, Key, Default)
//	iscols     information_schema.COLUMNS (name, column_type, is_nullable, column_default, collation_name) by ordinal
//	showindex  SHOW INDEX          (Key_name, Seq_in_index, Column_name, Non_unique) as a set
//	statistics information_schema.STATISTICS (same fields) as a set
//	probe      equality look-ups through every key's leading column = the bag TLC computed
//
// all compared for EQUALITY with the values TLC printed for the post-state (canonical strings; the
// only wildcard is the Key flag "*" where the specification leaves it open).
package main

import (
	"encoding/json"
	"flag"
	"fmt"
	"regexp"
	"sort"
	"strings"

	"gmsverif/lib/eng"
	"gmsverif/lib/sqlast"
	"gmsverif/lib/vio"
)

type Probe struct {
	SQL  string           `json:"sql"`
	Rows [][]sqlast.Value `json:"rows"`
}

type Exp struct {
	Table  string           `json:"table"`
	Select string           `json:"select"`
	Rows   [][]sqlast.Value `json:"rows"`
	Cols   [][]string       `json:"cols"` // Field, Type, Null, Key, Default, Collation
	Idx    [][]string       `json:"idx"`  // Key_name, Seq_in_index, Column_name, Non_unique
	Probes []Probe          `json:"probes"`
}

type TR struct {
	Step int      `json:"step"`
	Op   string   `json:"op"`
	SQL  string   `json:"sql"`
	Ret  string   `json:"ret"`
	Tags []string `json:"tags"` // features of the statement named by the specification (labels a disagreement)
	Exp  Exp      `json:"exp"`
}

// canonical text of one value (representation only)
func canonVal(v sqlast.Value) string {
	switch v.T {
	case "n":
		return "NULL"
	case "i":
		switch x := v.V.(type) {
		case float64:
			return fmt.Sprintf("i:%d", int64(x))
		default:
			return fmt.Sprintf("i:%v", x)
		}
	case "s":
		var sb strings.Builder
		sb.WriteString("s:")
		switch x := v.V.(type) {
		case []int:
			for _, c := range x {
				sb.WriteRune(rune(c))
			}
		case []interface{}:
			for _, c := range x {
				sb.WriteRune(rune(int(c.(float64))))
			}
		}
		return sb.String()
	}
	return "o:" + v.T + ":" + v.S + fmt.Sprint(v.V)
}

func canonRows(rs [][]sqlast.Value) []string {
	out := make([]string, 0, len(rs))
	for _, r := range rs {
		t := make([]string, len(r))
		for i, v := range r {
			t[i] = canonVal(v)
		}
		out = append(out, strings.Join(t, "\x1f"))
	}
	sort.Strings(out)
	return out
}

func text(v interface{}) string {
	switch x := v.(type) {
	case nil:
		return "NULL"
	case string:
		return x
	case []byte:
		return string(x)
	}
	return fmt.Sprint(v)
}

// strRows runs a catalog query and returns its rows as strings (NULL = "NULL").
func strRows(s *eng.Session, q string) ([][]string, error) {
	r := s.Exec(q)
	if r.Kind != "rows" {
		return nil, fmt.Errorf("%s: %s %s", q, r.Kind, r.Msg)
	}
	out := make([][]string, 0, len(r.Raw))
	for _, row := range r.Raw {
		t := make([]string, len(row))
		for i, v := range row {
			t[i] = text(v)
		}
		out = append(out, t)
	}
	return out, nil
}

func pick(rs [][]string, idx ...int) [][]string {
	out := make([][]string, 0, len(rs))
	for _, r := range rs {
		t := make([]string, len(idx))
		for i, j := range idx {
			if j < len(r) {
				t[i] = r[j]
			}
		}
		out = append(out, t)
	}
	return out
}

func normType(t string) string { return strings.ReplaceAll(strings.ToLower(t), " ", "") }

// splitType: SHOW COLUMNS / DESCRIBE print a string type as "varchar(2) COLLATE x" when the column's collation
// is not the default one (MySQL prints "varchar(2)"): returns the bare type and the collation the text implies.
func splitType(t string) (string, string) {
	lt := strings.ToLower(t)
	coll := "NULL"
	if strings.HasPrefix(lt, "varchar") || strings.HasPrefix(lt, "char") || strings.Contains(lt, "text") {
		coll = "utf8mb4_0900_bin"
	}
	if i := strings.Index(lt, " collate "); i >= 0 {
		coll = strings.TrimSpace(lt[i+9:])
		lt = lt[:i]
	}
	return normType(lt), coll
}

// unquote: SHOW COLUMNS / DESCRIBE print a string default as the SQL literal 'x' (MySQL prints x).
func unquote(d string) string {
	if len(d) >= 2 && d[0] == '\'' && d[len(d)-1] == '\'' {
		return d[1 : len(d)-1]
	}
	return d
}

// sameSeq compares two sequences of tuples; "*" in an expected field is unspecified.
func sameSeq(exp, got [][]string) bool {
	if len(exp) != len(got) {
		return false
	}
	for i := range exp {
		if len(exp[i]) != len(got[i]) {
			return false
		}
		for j := range exp[i] {
			if exp[i][j] != "*" && exp[i][j] != got[i][j] {
				return false
			}
		}
	}
	return true
}

func sortSet(rs [][]string) [][]string {
	out := append([][]string{}, rs...)
	sort.Slice(out, func(i, j int) bool { return strings.Join(out[i], "\x00") < strings.Join(out[j], "\x00") })
	return out
}

func sameStrs(a, b []string) bool {
	if len(a) != len(b) {
		return false
	}
	for i := range a {
		if a[i] != b[i] {
			return false
		}
	}
	return true
}

var reQuoted = regexp.MustCompile("`[^`]*`|'[^']*'|\\[[0-9 ]*\\]")
var reDigits = regexp.MustCompile(`[0-9]+`)

// msgClass: an error message without names and numbers (labels a disagreement only).
func msgClass(m string) string {
	m = strings.ToLower(reQuoted.ReplaceAllString(m, ""))
	m = reDigits.ReplaceAllString(m, "n")
	m = strings.Join(strings.Fields(m), " ")
	if len(m) > 70 {
		m = m[:70]
	}
	return m
}

// which fields of the column tuples differ (labels a disagreement)
var colField = []string{"name", "type", "null", "key", "default", "collation"}

func colDiff(exp, got [][]string, fields []int) string {
	if len(exp) != len(got) {
		return "count"
	}
	seen := map[string]bool{}
	for i := range exp {
		for j := range exp[i] {
			if j < len(got[i]) && exp[i][j] != "*" && exp[i][j] != got[i][j] {
				seen[colField[fields[j]]] = true
			}
		}
	}
	var out []string
	for k := range seen {
		out = append(out, k)
	}
	sort.Strings(out)
	return strings.Join(out, "+")
}

type obsDiff struct {
	what string
	exp  interface{}
	got  interface{}
}

// observe compares everything the engine reports about the table with the expectation.
func observe(s *eng.Session, e *Exp, comparisons *int) []obsDiff {
	var ds []obsDiff
	add := func(what string, exp, got interface{}) { ds = append(ds, obsDiff{what, exp, got}) }
	qfail := func(what string, err error) {
		add(what+":query-failed:"+msgClass(err.Error()), "the query succeeds", err.Error())
	}

	// tables
	*comparisons++
	if tabs, err := strRows(s, "SHOW TABLES"); err != nil {
		qfail("tables", err)
	} else if exp := [][]string{{e.Table}}; !sameSeq(exp, sortSet(tabs)) {
		add("tables", exp, tabs)
	}
	// rows
	*comparisons++
	r := s.Exec(e.Select)
	if r.Kind != "rows" {
		add("rows:query-"+r.Kind+":"+msgClass(r.Msg), "the query succeeds", r.Kind+" "+r.Msg)
	} else if exp, got := canonRows(e.Rows), canonRows(r.Rows); !sameStrs(exp, got) {
		add("rows", exp, got)
	}
	t := "`" + e.Table + "`"
	// SHOW FULL COLUMNS: Field, Type, Collation, Null, Key, Default, Extra, Privileges, Comment
	*comparisons++
	if rs, err := strRows(s, "SHOW FULL COLUMNS FROM "+t); err != nil {
		qfail("showcols", err)
	} else {
		got := pick(rs, 0, 1, 3, 4, 5, 2)
		declared := make([][]string, len(got)) // the Collation column of SHOW FULL COLUMNS, judged on its own
		for i, g := range got {
			declared[i] = []string{g[0], g[5]}
			g[1], g[5] = splitType(g[1])
			g[4] = unquote(g[4])
		}
		if !sameSeq(e.Cols, got) {
			add("showcols["+colDiff(e.Cols, got, []int{0, 1, 2, 3, 4, 5})+"]", e.Cols, got)
		} else if exp := pick(e.Cols, 0, 5); !sameSeq(exp, declared) {
			add("showcollation", exp, declared)
		}
	}
	// DESCRIBE: Field, Type, Null, Key, Default, Extra
	*comparisons++
	if rs, err := strRows(s, "DESCRIBE "+t); err != nil {
		qfail("describe", err)
	} else {
		got := pick(rs, 0, 1, 2, 3, 4, 1)
		for _, g := range got {
			g[1], g[5] = splitType(g[1])
			g[4] = unquote(g[4])
		}
		if !sameSeq(e.Cols, got) {
			add("describe["+colDiff(e.Cols, got, []int{0, 1, 2, 3, 4, 5})+"]", e.Cols, got)
		}
	}
	// information_schema.COLUMNS
	*comparisons++
	if rs, err := strRows(s, "SELECT column_name, column_type, is_nullable, column_default, collation_name FROM information_schema.columns WHERE table_schema = 'd' AND table_name = '"+e.Table+"' ORDER BY ordinal_position"); err != nil {
		qfail("iscols", err)
	} else {
		for _, g := range rs {
			g[1] = normType(g[1])
		}
		exp := pick(e.Cols, 0, 1, 2, 4, 5)
		if !sameSeq(exp, rs) {
			add("iscols["+colDiff(exp, rs, []int{0, 1, 2, 4, 5})+"]", exp, rs)
		}
	}
	// SHOW INDEX: Table, Non_unique, Key_name, Seq_in_index, Column_name, ...
	*comparisons++
	expIdx := sortSet(e.Idx)
	if rs, err := strRows(s, "SHOW INDEX FROM "+t); err != nil {
		qfail("showindex", err)
	} else if got := sortSet(pick(rs, 2, 3, 4, 1)); !sameSeq(expIdx, got) {
		add("showindex", expIdx, got)
	}
	*comparisons++
	if rs, err := strRows(s, "SELECT index_name, seq_in_index, column_name, non_unique FROM information_schema.statistics WHERE table_schema = 'd' AND table_name = '"+e.Table+"'"); err != nil {
		qfail("statistics", err)
	} else if got := sortSet(rs); !sameSeq(expIdx, got) {
		add("statistics", expIdx, got)
	}
	// look-ups through the keys
	for _, p := range e.Probes {
		*comparisons++
		r := s.Exec(p.SQL)
		if r.Kind != "rows" {
			add("probe:query-"+r.Kind+":"+msgClass(r.Msg), "the query succeeds", p.SQL+": "+r.Kind+" "+r.Msg)
		} else if exp, got := canonRows(p.Rows), canonRows(r.Rows); !sameStrs(exp, got) {
			add("probe", map[string]interface{}{"sql": p.SQL, "rows": exp}, got)
		}
	}
	return ds
}

func main() {
	in := flag.String("in", "", "TLC behaviours (ndjson of TR records)")
	maxMM := flag.Int("maxmm", 60, "report at most this many disagreements")
	tri := flag.String("triage", "", "triage mode: execute the statements of this file and print the replies (panics with stack)")
	flag.Parse()
	if *tri != "" {
		triage(*tri)
		return
	}
	rep := &vio.Report{Extra: map[string]interface{}{}}
	var s *eng.Session
	skipping := false
	softSeen := map[string]bool{} // report-only disagreements already reported for the current behaviour
	behaviours, skipped, comparisons, rowsCompared := 0, 0, 0, 0
	byOp := map[string]int{}
	var prefix []json.RawMessage
	err := vio.ReadNDJSON(*in, func(i int, line []byte) error {
		var tr TR
		if err := json.Unmarshal(line, &tr); err != nil {
			return err
		}
		if tr.Step == 1 {
			s = eng.New().NewSession()
			skipping = false
			softSeen = map[string]bool{}
			behaviours++
			prefix = prefix[:0]
		}
		prefix = append(prefix, append(json.RawMessage{}, line...))
		if skipping {
			skipped++
			return nil
		}
		rep.Cases++
		byOp[tr.Op+"/"+tr.Ret]++
		r := s.Exec(tr.SQL)
		got := "ok"
		if r.Kind == "err" {
			got = "fail"
		} else if r.Kind == "panic" {
			got = "panic"
		}
		opLabel := tr.Op
		if tr.Ret == "fail" {
			opLabel += "(fail)" // the statement was expected to fail without effect
		}
		if len(tr.Tags) > 0 {
			opLabel += "{" + strings.Join(tr.Tags, ",") + "}"
		}
		mismatch := func(what string, exp, g interface{}) {
			rep.Mismatches = append(rep.Mismatches, vio.Mismatch{Case: i, Signature: "C21|" + opLabel + "|" + what, Expected: exp, Got: g,
				Input: map[string]interface{}{"sql": tr.SQL, "behaviour": append([]json.RawMessage{}, prefix...)}})
			skipping = true
		}
		if got != tr.Ret {
			what := "ret=" + got
			if got != "ok" {
				what += ":" + msgClass(r.Msg)
			}
			mismatch(what, tr.Ret, got+" "+r.Msg)
			return nil
		}
		if tr.Ret == "ok" && tr.Op != "Insert" && tr.Op != "CreateTable" && len(tr.Exp.Rows) > 0 {
			rep.Nontrivial++ // a successful schema change of a table that holds rows
		}
		rowsCompared += len(tr.Exp.Rows)
		ds := observe(s, &tr.Exp, &comparisons)
		// "showcollation" is a report-only disagreement (the table itself agrees with the specification):
		// it is reported once per behaviour and the behaviour goes on
		if len(ds) == 1 && ds[0].what == "showcollation" {
			if !softSeen[ds[0].what] {
				softSeen[ds[0].what] = true
				rep.Mismatches = append(rep.Mismatches, vio.Mismatch{Case: i, Signature: "C21|" + opLabel + "|" + ds[0].what, Expected: ds[0].exp, Got: ds[0].got,
					Input: map[string]interface{}{"sql": tr.SQL, "behaviour": append([]json.RawMessage{}, prefix...)}})
			}
			ds = nil
		}
		if len(ds) > 0 {
			var bad []string
			diff := map[string]interface{}{}
			for _, d := range ds {
				bad = append(bad, d.what)
				diff[d.what] = map[string]interface{}{"expected": d.exp, "got": d.got}
			}
			mismatch(strings.Join(bad, ","), nil, diff)
			return nil
		}
		if len(rep.Samples) < 3 && tr.Step > 6 && tr.Ret == "ok" && tr.Op != "Insert" && len(tr.Exp.Rows) > 1 && i%7 == 0 {
			rep.Samples = append(rep.Samples, map[string]interface{}{"step": tr.Step, "sql": tr.SQL, "ret": tr.Ret, "rows_after": canonRows(tr.Exp.Rows), "columns_after": tr.Exp.Cols})
		}
		return nil
	})
	if err != nil {
		vio.Fatal("%v", err)
	}
	rep.Extra["behaviours"] = behaviours
	rep.Extra["steps_skipped_after_divergence"] = skipped
	rep.Extra["comparisons"] = comparisons
	rep.Extra["rows_compared"] = rowsCompared
	rep.Extra["by_op"] = byOp
	if len(rep.Mismatches) > *maxMM {
		rep.Extra["mismatches_total"] = len(rep.Mismatches)
		rep.Mismatches = rep.Mismatches[:*maxMM]
	}
	rep.Emit()
}
