package main

import (
	"bufio"
	"fmt"
	"os"
	"runtime/debug"
	"strings"

	"github.com/dolthub/go-mysql-server/sql"

	"gmsverif/lib/eng"
)

// triage executes the statements of a file (one per line) on a fresh engine and prints every reply;
// a panic is printed with its stack (eng.Exec would swallow it).  Triage only, never part of a verdict.
func triage(path string) {
	f, err := os.Open(path)
	if err != nil {
		fmt.Println(err)
		os.Exit(3)
	}
	defer f.Close()
	s := eng.New().NewSession()
	sc := bufio.NewScanner(f)
	for sc.Scan() {
		q := strings.TrimSpace(sc.Text())
		if q == "" || strings.HasPrefix(q, "--") {
			continue
		}
		func() {
			defer func() {
				if r := recover(); r != nil {
					fmt.Printf("%s\n  -> PANIC %v\n%s\n", q, r, debug.Stack())
				}
			}()
			ctx := s.Ctx()
			sch, iter, _, err := s.DB.Engine.Query(ctx, q)
			if err != nil {
				fmt.Printf("%s\n  -> ERR %v\n", q, err)
				return
			}
			rows, err := sql.RowIterToRows(ctx, iter)
			if err != nil {
				fmt.Printf("%s\n  -> ERR %v\n", q, err)
				return
			}
			r := eng.FromRows(sch, rows)
			if r.Kind == "rows" {
				var out []string
				for _, row := range r.Raw {
					out = append(out, fmt.Sprint(row))
				}
				fmt.Printf("%s\n  -> %d rows %s\n", q, len(r.Raw), strings.Join(out, " "))
			} else {
				fmt.Printf("%s\n  -> %s affected=%d\n", q, r.Kind, r.Affected)
			}
		}()
	}
}
