// c50: driver of C50 (SELECT ... INTO OUTFILE -> LOAD DATA INFILE round trip).
//
//	-mode gen  -seed S -n N -opts opts.json -out cases.ndjson   seeded random cases (binding B) over
//	     the option sets TLC model-checked (opts.json = the set printed by MC_OutfileCodec)
//	-mode exec -in cases.ndjson -out trace.ndjson -dir TMP [-only id,id]   run cases on the engine
//
// A case is {id, o: option set, types, rows} (rows as cells {n: is NULL, v: code points}; an INT
// column holds the decimal spelling).  For every case the driver creates t, inserts the rows,
// records SELECT * FROM t, exports with INTO OUTFILE, reloads into u (CREATE TABLE u LIKE t) with
// the same options, records SELECT * FROM u and the bytes of the file.  It decides nothing: the
// trace is judged by TLC (spec/Trace_Outfile.tla).
package main

import (
	"encoding/hex"
	"encoding/json"
	"flag"
	"fmt"
	"math/rand"
	"os"
	"path/filepath"
	"strconv"
	"strings"
	"time"

	"gmsverif/lib/eng"
	"gmsverif/lib/vio"
)

type Cell struct {
	N bool  `json:"n"`
	V []int `json:"v"`
}

type Opts struct {
	Ft  []int `json:"ft"`
	Lt  []int `json:"lt"`
	Enc []int `json:"enc"`
	Opt bool  `json:"opt"`
	Esc []int `json:"esc"`
	St  []int `json:"st"`
}

type Case struct {
	ID    int      `json:"id"`
	O     Opts     `json:"o"`
	Types []string `json:"types"`
	Rows  [][]Cell `json:"rows"`
	File  []int    `json:"file,omitempty"` // the specification's Encode (binding A cases); diagnosis only
}

type Event struct {
	Ev        string   `json:"ev"`
	ID        int      `json:"id"`
	O         Opts     `json:"o"`
	Types     []string `json:"types"`
	Want      [][]Cell `json:"want"`
	Orig      [][]Cell `json:"orig"`
	Reload    [][]Cell `json:"reload"`
	Out       string   `json:"out"`  // ok | err | panic | hang
	Load      string   `json:"load"` // ok | err | panic | hang | skipped
	OutMsg    string   `json:"outmsg"`
	LoadMsg   string   `json:"loadmsg"`
	File      []int    `json:"file"`
	ModelFile []int    `json:"model_file"`
	SQLs      []string `json:"sqls"`
}

func cps(s string) []int {
	out := []int{}
	for _, r := range s {
		out = append(out, int(r))
	}
	return out
}

func str(cp []int) string {
	var b strings.Builder
	for _, c := range cp {
		b.WriteRune(rune(c))
	}
	return b.String()
}

// sqlLit renders a string as a MySQL string literal (representation only).
func sqlLit(s string) string {
	var b strings.Builder
	b.WriteByte('\'')
	for _, r := range s {
		switch r {
		case '\'':
			b.WriteString(`\'`)
		case '\\':
			b.WriteString(`\\`)
		case '\n':
			b.WriteString(`\n`)
		case '\r':
			b.WriteString(`\r`)
		case '\t':
			b.WriteString(`\t`)
		case 0:
			b.WriteString(`\0`)
		default:
			b.WriteRune(r)
		}
	}
	b.WriteByte('\'')
	return b.String()
}

func optClause(o Opts) string {
	var b strings.Builder
	b.WriteString(" FIELDS TERMINATED BY " + sqlLit(str(o.Ft)))
	if len(o.Enc) > 0 {
		if o.Opt {
			b.WriteString(" OPTIONALLY")
		}
		b.WriteString(" ENCLOSED BY " + sqlLit(str(o.Enc)))
	}
	b.WriteString(" ESCAPED BY " + sqlLit(str(o.Esc)))
	b.WriteString(" LINES")
	if len(o.St) > 0 {
		b.WriteString(" STARTING BY " + sqlLit(str(o.St)))
	}
	b.WriteString(" TERMINATED BY " + sqlLit(str(o.Lt)))
	return b.String()
}

func cellOf(v interface{}) Cell {
	switch x := v.(type) {
	case nil:
		return Cell{N: true, V: []int{}}
	case string:
		return Cell{V: cps(x)}
	case []byte:
		return Cell{V: cps(string(x))}
	case int32:
		return Cell{V: cps(strconv.FormatInt(int64(x), 10))}
	case int64:
		return Cell{V: cps(strconv.FormatInt(x, 10))}
	case int:
		return Cell{V: cps(strconv.Itoa(x))}
	}
	return Cell{V: cps(fmt.Sprint(v))}
}

func table(s *eng.Session, name string) ([][]Cell, string) {
	r := s.Exec("SELECT * FROM " + name)
	if r.Kind != "rows" {
		return [][]Cell{}, r.Kind + ": " + r.Msg
	}
	out := make([][]Cell, 0, len(r.Raw))
	for _, row := range r.Raw {
		cs := make([]Cell, len(row))
		for i, v := range row {
			cs[i] = cellOf(v)
		}
		out = append(out, cs)
	}
	return out, ""
}

func colName(i int) string { return fmt.Sprintf("c%d", i+1) }

func runCase(s *eng.Session, c Case, dir string) Event {
	ev := Event{Ev: "case", ID: c.ID, O: c.O, Types: c.Types, Want: c.Rows, Orig: [][]Cell{}, Reload: [][]Cell{},
		Out: "skipped", Load: "skipped", File: []int{}, ModelFile: c.File, SQLs: []string{}}
	if ev.ModelFile == nil {
		ev.ModelFile = []int{}
	}
	if ev.Want == nil {
		ev.Want = [][]Cell{}
	}
	s.Exec("DROP TABLE IF EXISTS t")
	s.Exec("DROP TABLE IF EXISTS u")
	cols := make([]string, len(c.Types))
	for i, ty := range c.Types {
		if ty == "i" {
			cols[i] = colName(i) + " INT"
		} else {
			cols[i] = colName(i) + " VARCHAR(40)"
		}
	}
	s.MustExec("CREATE TABLE t (" + strings.Join(cols, ", ") + ")")
	for _, row := range c.Rows {
		vals := make([]string, len(row))
		for i, cell := range row {
			switch {
			case cell.N:
				vals[i] = "NULL"
			case c.Types[i] == "i":
				vals[i] = str(cell.V)
			default:
				// hex literal converted to the column's character set: no SQL-literal escaping involved
				vals[i] = "CONVERT(X'" + hex.EncodeToString([]byte(str(cell.V))) + "' USING utf8mb4)"
			}
		}
		s.MustExec("INSERT INTO t VALUES (" + strings.Join(vals, ", ") + ")")
	}
	var msg string
	ev.Orig, msg = table(s, "t")
	if msg != "" {
		vio.Fatal("SELECT of the fixture table failed: %s", msg)
	}
	path := filepath.Join(dir, fmt.Sprintf("f%d-%d", c.ID, time.Now().UnixNano()))
	oc := optClause(c.O)
	q1 := "SELECT * FROM t INTO OUTFILE " + sqlLit(path) + oc
	q2 := "CREATE TABLE u LIKE t"
	q3 := "LOAD DATA INFILE " + sqlLit(path) + " INTO TABLE u" + oc
	ev.SQLs = []string{q1, q2, q3}
	r := s.Exec(q1)
	if r.Kind == "err" || r.Kind == "panic" {
		ev.Out, ev.OutMsg = r.Kind, r.Msg
		return ev
	}
	ev.Out = "ok"
	if b, err := os.ReadFile(path); err == nil {
		ev.File = cps(string(b))
	} else {
		ev.Out, ev.OutMsg = "err", "no file written: "+err.Error()
		return ev
	}
	defer os.Remove(path)
	s.MustExec(q2)
	r = s.Exec(q3)
	if r.Kind == "err" || r.Kind == "panic" {
		ev.Load, ev.LoadMsg = r.Kind, r.Msg
	} else {
		ev.Load = "ok"
	}
	ev.Reload, msg = table(s, "u")
	if msg != "" {
		vio.Fatal("SELECT of the reloaded table failed: %s", msg)
	}
	return ev
}

// ---------------------------------------------------------------- generator (binding B)

var alphabet = []rune{',', ';', '\t', '"', '\'', '\\', '\n', '\r', 0, '!', '>', 'a', 'b', 'N', 'é', ' ', 'x'}

func genStr(rng *rand.Rand) []int {
	if rng.Intn(12) == 0 {
		return cps("NULL")
	}
	n := rng.Intn(7)
	out := make([]int, n)
	hostile := rng.Intn(3) != 0 // one third of the strings are plain
	for i := range out {
		if hostile {
			out[i] = int(alphabet[rng.Intn(len(alphabet))])
		} else {
			out[i] = int(alphabet[11+rng.Intn(len(alphabet)-11)])
		}
	}
	return out
}

func genCases(seed int64, n int, opts []Opts) []Case {
	rng := rand.New(rand.NewSource(seed))
	ints := []string{"0", "-5", "12", "1000000", "-2147483648", "7"}
	cases := make([]Case, 0, n)
	for k := 0; k < n; k++ {
		c := Case{ID: k + 1, O: opts[rng.Intn(len(opts))], Types: []string{"s", "s", "i"}}
		nr := 1 + rng.Intn(6)
		for r := 0; r < nr; r++ {
			row := make([]Cell, 3)
			for i := 0; i < 2; i++ {
				if rng.Intn(7) == 0 {
					row[i] = Cell{N: true, V: []int{}}
				} else {
					row[i] = Cell{V: genStr(rng)}
				}
			}
			if rng.Intn(5) == 0 {
				row[2] = Cell{N: true, V: []int{}}
			} else {
				row[2] = Cell{V: cps(ints[rng.Intn(len(ints))])}
			}
			c.Rows = append(c.Rows, row)
		}
		cases = append(cases, c)
	}
	return cases
}

func hostileRow(c Case) bool {
	for _, row := range c.Rows {
		for _, cell := range row {
			for _, cp := range cell.V {
				for _, d := range [][]int{c.O.Ft, c.O.Lt, c.O.Enc, c.O.Esc, {0}} {
					for _, x := range d {
						if cp == x {
							return true
						}
					}
				}
			}
		}
	}
	return false
}

func main() {
	mode := flag.String("mode", "exec", "gen | exec")
	in := flag.String("in", "", "cases ndjson")
	out := flag.String("out", "", "output ndjson")
	dir := flag.String("dir", "", "scratch directory for the exported files")
	only := flag.String("only", "", "comma separated case ids")
	seed := flag.Int64("seed", 1, "seed")
	n := flag.Int("n", 100, "number of generated cases")
	optsFile := flag.String("opts", "", "json array of option sets (gen)")
	flag.Parse()

	rep := vio.Report{Extra: map[string]interface{}{}}
	w, err := vio.NewWriter(*out)
	if err != nil {
		vio.Fatal("%v", err)
	}
	if *mode == "gen" {
		var opts []Opts
		b, err := os.ReadFile(*optsFile)
		if err != nil {
			vio.Fatal("%v", err)
		}
		if err := json.Unmarshal(b, &opts); err != nil || len(opts) == 0 {
			vio.Fatal("bad option sets: %v", err)
		}
		cases := genCases(*seed, *n, opts)
		for _, c := range cases {
			w.Write(c)
			rep.Cases++
			if hostileRow(c) {
				rep.Nontrivial++
			}
		}
		w.Close()
		rep.Emit()
		return
	}

	keep := map[int]bool{}
	for _, f := range strings.Split(*only, ",") {
		if f != "" {
			id, _ := strconv.Atoi(f)
			keep[id] = true
		}
	}
	if *dir == "" {
		vio.Fatal("-dir required")
	}
	db := eng.New()
	s := db.NewSession()
	kinds := map[string]int{}
	err = vio.ReadNDJSON(*in, func(i int, line []byte) error {
		var c Case
		if err := json.Unmarshal(line, &c); err != nil {
			return err
		}
		if len(keep) > 0 && !keep[c.ID] {
			return nil
		}
		done := make(chan Event, 1)
		go func() { done <- runCase(s, c, *dir) }()
		var ev Event
		select {
		case ev = <-done:
		case <-time.After(60 * time.Second):
			// a hung engine cannot be reused: record and stop
			ev = Event{Ev: "case", ID: c.ID, O: c.O, Types: c.Types, Want: c.Rows, Orig: c.Rows, Reload: [][]Cell{}, Out: "hang", Load: "hang", File: []int{}, ModelFile: []int{}, SQLs: []string{}}
			w.Write(ev)
			w.Close()
			rep.Cases++
			rep.Extra["hang"] = c.ID
			rep.Emit()
			os.Exit(0)
		}
		w.Write(ev)
		rep.Cases++
		kinds[ev.Out+"/"+ev.Load]++
		if hostileRow(c) {
			rep.Nontrivial++
		}
		if len(rep.Samples) < 3 && hostileRow(c) {
			rep.Samples = append(rep.Samples, map[string]interface{}{"sqls": ev.SQLs, "file": str(ev.File), "rows": len(c.Rows)})
		}
		return nil
	})
	if err != nil {
		vio.Fatal("%v", err)
	}
	w.Close()
	rep.Extra["outcomes"] = kinds
	rep.Emit()
}
