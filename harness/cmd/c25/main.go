// c25: binding A of C25.  Executes the operand-pair cases enumerated by TLC from
// spec/MC_DecArithCases.tla on the real engine and compares the engine's answer -- canonicalised to a
// decimal digit string / "NULL" / "OutOfRange" -- with the outcomes the specification accepts.
// No arithmetic happens here: the comparison is string equality against strings printed by TLC.
package main

import (
	"encoding/json"
	"flag"
	"fmt"
	"strconv"
	"strings"

	"github.com/cockroachdb/apd/v3"

	"github.com/dolthub/go-mysql-server/sql"

	"gmsverif/lib/eng"
	"gmsverif/lib/vio"
)

type Opd struct {
	T   string `json:"t"`   // S U D i8 u8 ... u64
	Lit string `json:"lit"` // canonical decimal text (from TLC)
	P   int    `json:"p"`
	S   int    `json:"s"`
	SQL string `json:"sql"` // SQL type name (from TLC)
}

type Diag struct {
	Wrap  []string `json:"wrap"`
	Clamp string   `json:"clamp"`
	NZ    string   `json:"nz"`
}

type Case struct {
	Fam    string   `json:"fam"`
	Op     string   `json:"op"`
	A      Opd      `json:"a"`
	B      Opd      `json:"b"`
	Style  string   `json:"style"` // cast | col
	Exp    string   `json:"exp"`
	Accept []string `json:"accept"`
	Fit    bool     `json:"fit"`
	Exact  string   `json:"exact"`
	RScale string   `json:"rscale"`
	Diag   Diag     `json:"diag"`
}

func (c *Case) Key() string {
	if c.Op == "neg" {
		return fmt.Sprintf("%s|neg|%s:%s(%d,%d)", c.Style, c.A.T, c.A.Lit, c.A.P, c.A.S)
	}
	return fmt.Sprintf("%s|%s|%s:%s(%d,%d)|%s:%s(%d,%d)", c.Style, c.Op, c.A.T, c.A.Lit, c.A.P, c.A.S, c.B.T, c.B.Lit, c.B.P, c.B.S)
}

var opSym = map[string]string{"plus": "+", "minus": "-", "times": "*", "intdiv": "DIV", "mod": "%", "div": "/"}

func castExpr(o Opd) string {
	if o.T == "D" {
		return fmt.Sprintf("CAST(%s AS DECIMAL(%d,%d))", o.Lit, o.P, o.S)
	}
	return fmt.Sprintf("CAST(%s AS %s)", o.Lit, o.SQL)
}

// canon turns one engine value into the canonical text. Representation only.
func canon(v interface{}) string {
	switch x := v.(type) {
	case nil:
		return "NULL"
	case int8:
		return strconv.FormatInt(int64(x), 10)
	case int16:
		return strconv.FormatInt(int64(x), 10)
	case int32:
		return strconv.FormatInt(int64(x), 10)
	case int64:
		return strconv.FormatInt(x, 10)
	case int:
		return strconv.FormatInt(int64(x), 10)
	case uint8:
		return strconv.FormatUint(uint64(x), 10)
	case uint16:
		return strconv.FormatUint(uint64(x), 10)
	case uint32:
		return strconv.FormatUint(uint64(x), 10)
	case uint64:
		return strconv.FormatUint(x, 10)
	case uint:
		return strconv.FormatUint(uint64(x), 10)
	case *apd.Decimal:
		return x.Text('f')
	case apd.Decimal:
		return x.Text('f')
	case float64:
		return "float:" + strconv.FormatFloat(x, 'g', -1, 64)
	case float32:
		return "float:" + strconv.FormatFloat(float64(x), 'g', -1, 32)
	case string:
		return "string:" + x
	}
	return fmt.Sprintf("%T:%v", v, v)
}

func errClass(msg string) string {
	var b strings.Builder
	for _, r := range msg {
		if r >= '0' && r <= '9' {
			if !strings.HasSuffix(b.String(), "N") {
				b.WriteByte('N')
			}
			continue
		}
		b.WriteRune(r)
	}
	s := b.String()
	if len(s) > 60 {
		s = s[:60]
	}
	return s
}

type Outcome struct {
	Raw    string `json:"raw"`    // canonical text of the Go value
	Wire   string `json:"wire"`   // text a client receives (Type.SQL of the result column)
	Type   string `json:"type"`   // declared type of the result column
	TScale string `json:"tscale"` // declared scale if the result column is DECIMAL, else "-"
	SQL    string `json:"sql"`
}

type runner struct {
	db     *eng.DB
	s      *eng.Session
	tables map[string]bool
	rows   map[string]int
	nextK  int
	stmts  int
}

func newRunner() *runner {
	db := eng.New()
	return &runner{db: db, s: db.NewSession(), tables: map[string]bool{}, rows: map[string]int{}}
}

func (r *runner) result(q string) Outcome {
	r.stmts++
	res := r.s.Exec(q)
	out := Outcome{SQL: q, TScale: "-"}
	switch res.Kind {
	case "err":
		cls := "error:" + errClass(res.Msg)
		// the engine's two out-of-range error kinds (sql.ErrValueOutOfRange, expression.ErrIntDivDataOutOfRange)
		if strings.Contains(res.Msg, "out of range") {
			cls = "OutOfRange"
		}
		out.Raw, out.Wire = cls, cls
		return out
	case "panic":
		out.Raw, out.Wire = "panic:"+errClass(res.Msg), "panic:"+errClass(res.Msg)
		return out
	case "rows":
		if len(res.Raw) != 1 || len(res.Raw[0]) != 1 {
			out.Raw = fmt.Sprintf("shape:%d rows", len(res.Raw))
			out.Wire = out.Raw
			return out
		}
		v := res.Raw[0][0]
		out.Raw = canon(v)
		typ := res.Schema[0].Type
		out.Type = typ.String()
		if dt, ok := typ.(sql.DecimalType); ok {
			out.TScale = strconv.Itoa(int(dt.Scale()))
		}
		func() {
			defer func() {
				if p := recover(); p != nil {
					out.Wire = "panic:" + errClass(fmt.Sprint(p))
				}
			}()
			sv, err := typ.SQL(r.s.Ctx(), nil, v)
			if err != nil {
				out.Wire = "error:" + errClass(err.Error())
				if strings.Contains(err.Error(), "out of range") {
					out.Wire = "OutOfRange"
				}
				return
			}
			if sv.IsNull() {
				out.Wire = "NULL"
			} else {
				out.Wire = sv.ToString()
			}
		}()
		return out
	}
	out.Raw, out.Wire = "kind:"+res.Kind, "kind:"+res.Kind
	return out
}

// run executes one case. ok=false with a message means the operands could not be materialised.
func (r *runner) run(c *Case) (Outcome, string) {
	if c.Style == "cast" {
		var q string
		if c.Op == "neg" {
			q = "SELECT - " + castExpr(c.A)
		} else {
			q = fmt.Sprintf("SELECT %s %s %s", castExpr(c.A), opSym[c.Op], castExpr(c.B))
		}
		// operand sanity: the CAST yields the intended value
		for _, o := range []Opd{c.A, c.B} {
			k := "opd|" + castExpr(o)
			if !r.tables[k] {
				got := r.result("SELECT " + castExpr(o))
				if got.Raw != o.Lit {
					return got, fmt.Sprintf("operand %s evaluates to %s", castExpr(o), got.Raw)
				}
				r.tables[k] = true
			}
		}
		return r.result(q), ""
	}
	// column style: one table per type pair, one row per operand pair
	tn := fmt.Sprintf("p_%s_%s", c.A.T, c.B.T)
	if !r.tables[tn] {
		r.s.MustExec(fmt.Sprintf("CREATE TABLE %s (k INT PRIMARY KEY, a %s, b %s)", tn, c.A.SQL, c.B.SQL))
		r.tables[tn] = true
	}
	rk := tn + "|" + c.A.Lit + "|" + c.B.Lit
	k, ok := r.rows[rk]
	if !ok {
		r.nextK++
		k = r.nextK
		ins := r.s.Exec(fmt.Sprintf("INSERT INTO %s VALUES (%d, %s, %s)", tn, k, c.A.Lit, c.B.Lit))
		r.stmts++
		if ins.Kind != "ok" {
			return Outcome{Raw: ins.Kind + ":" + ins.Msg}, "insert of operands failed: " + ins.Msg
		}
		back := r.s.Exec(fmt.Sprintf("SELECT a, b FROM %s WHERE k = %d", tn, k))
		r.stmts++
		if back.Kind != "rows" || len(back.Raw) != 1 || canon(back.Raw[0][0]) != c.A.Lit || canon(back.Raw[0][1]) != c.B.Lit {
			return Outcome{Raw: fmt.Sprint(back.Raw)}, "stored operands read back differently"
		}
		r.rows[rk] = k
	}
	var q string
	if c.Op == "neg" {
		q = fmt.Sprintf("SELECT - a FROM %s WHERE k = %d", tn, k)
	} else {
		q = fmt.Sprintf("SELECT a %s b FROM %s WHERE k = %d", opSym[c.Op], tn, k)
	}
	return r.result(q), ""
}

func in(s string, set []string) bool {
	for _, x := range set {
		if x == s {
			return true
		}
	}
	return false
}

// label classifies a disagreement by string equality with the diagnostic values TLC printed.
func label(got string, c *Case) string {
	switch {
	case got == "OutOfRange":
		return "spurious-oor"
	case got == c.Diag.NZ:
		return "negzero"
	case in(got, c.Diag.Wrap):
		return "wrap"
	case got == c.Diag.Clamp:
		return "clamp"
	case got == "NULL":
		return "null"
	case strings.HasPrefix(got, "error:"), strings.HasPrefix(got, "panic:"):
		kv := strings.SplitN(got, ":", 2)
		return kv[0] + "(" + strings.ReplaceAll(kv[1], "|", "/") + ")"
	case strings.HasPrefix(got, "float:"):
		return "float"
	}
	return "wrong"
}

func trivial(s string) bool {
	switch s {
	case "0", "1", "2", "-1", "-2", "3", "4", "-3", "-4":
		return true
	}
	return false
}

func main() {
	file := flag.String("file", "", "cases (ndjson of CASE records printed by TLC)")
	flag.Parse()
	r := newRunner()
	rep := &vio.Report{Extra: map[string]interface{}{}}
	byOp, byFam, byExp, byLabel := map[string]int{}, map[string]int{}, map[string]int{}, map[string]int{}
	seen := map[string]bool{}
	dups, badOperands := 0, 0
	var opdProblems []string
	err := vio.ReadNDJSON(*file, func(i int, line []byte) error {
		var c Case
		if err := json.Unmarshal(line, &c); err != nil {
			return err
		}
		key := c.Key()
		if seen[key] {
			dups++
			return nil
		}
		seen[key] = true
		rep.Cases++
		byOp[c.Op]++
		byFam[c.Fam+"/"+c.Style]++
		switch c.Exp {
		case "NULL", "OutOfRange":
			byExp[c.Exp]++
		default:
			byExp["value"]++
		}
		if !trivial(c.Exact) {
			rep.Nontrivial++
		}
		got, problem := r.run(&c)
		if problem != "" {
			badOperands++
			if len(opdProblems) < 5 {
				opdProblems = append(opdProblems, key+": "+problem)
			}
			return nil
		}
		types := c.A.T
		if c.Op != "neg" {
			types += "," + c.B.T
		}
		fit := "fit"
		if !c.Fit {
			fit = "nofit"
		}
		var sig string
		switch {
		case !in(got.Raw, c.Accept):
			sig = fmt.Sprintf("C25|%s|%s|%s|%s|%s", label(got.Raw, &c), fit, c.Style, c.Op, types)
		case !in(got.Wire, c.Accept):
			sig = fmt.Sprintf("C25|wire-%s|%s|%s|%s|%s", label(got.Wire, &c), fit, c.Style, c.Op, types)
		case c.RScale != "-" && got.TScale != c.RScale && got.Raw != "OutOfRange":
			sig = fmt.Sprintf("C25|declared-scale|%s|%s|%s|%s", fit, c.Style, c.Op, types)
		}
		if sig != "" {
			byLabel[strings.Split(sig, "|")[1]]++
			rep.Mismatches = append(rep.Mismatches, vio.Mismatch{Case: i, Signature: sig,
				Expected: map[string]interface{}{"accept": c.Accept, "mysql": c.Exp, "rscale": c.RScale}, Got: got, Input: c})
		}
		if len(rep.Samples) < 4 && !trivial(c.Exact) && i%211 == 3 {
			rep.Samples = append(rep.Samples, map[string]interface{}{"sql": got.SQL, "accept": c.Accept, "engine": got.Raw, "wire": got.Wire})
		}
		return nil
	})
	if err != nil {
		vio.Fatal("%v", err)
	}
	rep.Extra["by_op"] = byOp
	rep.Extra["by_family"] = byFam
	rep.Extra["by_expected"] = byExp
	rep.Extra["by_label"] = byLabel
	rep.Extra["duplicates_skipped"] = dups
	rep.Extra["operands_not_materialised"] = badOperands
	rep.Extra["operand_problems"] = opdProblems
	rep.Extra["statements"] = r.stmts
	rep.Extra["mismatches_total"] = len(rep.Mismatches)
	rep.Emit()
}
