package main

import "gmsverif/lib/vio"

func replay(in string, rep *vio.Report) {}
