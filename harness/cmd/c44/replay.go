package main

import (
	"encoding/json"
	"fmt"
	"sort"
	"strings"

	"gmsverif/lib/vio"
)

// TR is one transition of a TLC behaviour of spec/SysVars.tla (its Emit record).
type TR struct {
	Step int `json:"step"`
	Act  struct {
		Name string `json:"name"`
		S    int    `json:"s"`
		Var  string `json:"var"`
		Val  TVal   `json:"val"`
	} `json:"act"`
	Ret   string                    `json:"ret"`
	Alive []int                     `json:"alive"`
	G     map[string]Val            `json:"g"`
	S     []sessVals `json:"s"`
	U     []sessVals `json:"u"`
}

type sessVals struct {
	Sid  int            `json:"sid"`
	Vals map[string]Val `json:"vals"`
}

func valsOf(l []sessVals, sid int) map[string]Val {
	for _, x := range l {
		if x.Sid == sid {
			return x.Vals
		}
	}
	return nil
}

func sameVal(a, b Val) bool {
	an, bn := "0", "0"
	if a.N != nil {
		an = a.N.String()
	}
	if b.N != nil {
		bn = b.N.String()
	}
	return a.T == b.T && an == bn && a.S == b.S && a.Cls == b.Cls
}

// resync forces every modelled value to the expected post-state with plain SET statements and
// verifies it by reading back.
func resync(sessions map[int]*session, tr TR) bool {
	lit := func(v Val) (string, bool) {
		switch v.T {
		case "int", "str":
			return Val{T: v.T, N: v.N, S: v.S}.SQL(), true
		case "null":
			return "NULL", true
		}
		return "", false
	}
	any := sessions[tr.Alive[0]]
	for name, v := range tr.G {
		if got := any.read("@@global." + name); !sameVal(got, v) {
			l, ok := lit(v)
			if !ok || !any.exec("SET GLOBAL "+name+" = "+l).ok || !sameVal(any.read("@@global."+name), v) {
				return false
			}
		}
	}
	for _, sv := range tr.S {
		s := sessions[sv.Sid]
		for name, v := range sv.Vals {
			if v.T == "err" {
				continue
			}
			if got := s.read("@@session." + name); !sameVal(got, v) {
				l, ok := lit(v)
				if !ok || !s.exec("SET SESSION "+name+" = "+l).ok || !sameVal(s.read("@@session."+name), v) {
					return false
				}
			}
		}
	}
	for _, uv := range tr.U {
		s := sessions[uv.Sid]
		for name, v := range uv.Vals {
			if got := s.read("@" + name); !sameVal(got, v) {
				l, ok := lit(v)
				if !ok || !s.exec("SET @"+name+" = "+l).ok || !sameVal(s.read("@"+name), v) {
					return false
				}
			}
		}
	}
	return true
}

func show(v Val) string {
	if v.T == "int" {
		return v.N.String() + ":" + v.Cls
	}
	return v.T + ":" + v.S + ":" + v.Cls
}

// replay executes the behaviours; after a disagreement the rest of that behaviour is skipped
// (the engine's state has left the specification's).
func replay(in string, rep *vio.Report, maxMM int) {
	descs := map[string]Desc{}
	newWorld()
	for _, d := range allDescs() {
		descs[d.Name] = d
	}
	var w *world
	sessions := map[int]*session{}
	skipping := false
	behaviours, skipped := 0, 0
	resyncs := 0
	byAct := map[string]int{}
	var prefix []json.RawMessage
	err := vio.ReadNDJSON(in, func(i int, line []byte) error {
		var tr TR
		if err := json.Unmarshal(line, &tr); err != nil {
			return err
		}
		if tr.Step == 1 {
			w = newWorld()
			sessions = map[int]*session{1: w.session()}
			skipping = false
			behaviours++
			prefix = prefix[:0]
		}
		prefix = append(prefix, append(json.RawMessage{}, line...))
		if skipping {
			skipped++
			return nil
		}
		rep.Cases++
		byAct[tr.Act.Name+"/"+tr.Ret]++
		lit := tr.Act.Val.val()
		var q string
		switch tr.Act.Name {
		case "SetSession":
			q = fmt.Sprintf("SET SESSION %s = %s", tr.Act.Var, lit.SQL())
		case "SetGlobal":
			q = fmt.Sprintf("SET GLOBAL %s = %s", tr.Act.Var, lit.SQL())
		case "SetUser":
			q = fmt.Sprintf("SET @%s = %s", tr.Act.Var, lit.SQL())
		case "NewSession":
			sessions[tr.Act.S] = w.session()
		default:
			return fmt.Errorf("unknown action %s", tr.Act.Name)
		}
		d := descs[tr.Act.Var]
		sigBase := fmt.Sprintf("A|%s|%s/%s|lit=%s", tr.Act.Name, d.Type, d.Scope, lit.T)
		mismatch := func(what string, exp, got interface{}) {
			rep.Mismatches = append(rep.Mismatches, vio.Mismatch{Case: i, Signature: sigBase + "|" + what, Expected: exp, Got: got,
				Input: map[string]interface{}{"sql": q, "behaviour": append([]json.RawMessage{}, prefix...)}})
			// resynchronise the engine with the specification's post-state so that the rest of the
			// behaviour is still checked; when that is impossible the rest is skipped
			skipping = !resync(sessions, tr)
			if !skipping {
				resyncs++
			}
		}
		if q != "" {
			s := sessions[tr.Act.S]
			if s == nil {
				return fmt.Errorf("line %d: session %d does not exist", i, tr.Act.S)
			}
			r := s.exec(q)
			got := "ok"
			if !r.ok {
				got = "err"
				if errClass(r.msg) == "panic" {
					got = "panic"
				}
			}
			if got != tr.Ret {
				mismatch("ret="+got, tr.Ret, got+" "+r.msg)
				return nil
			}
			if tr.Ret == "ok" {
				rep.Nontrivial++
			}
		}
		// observe everything the specification models
		var alive []int
		for s := range sessions {
			alive = append(alive, s)
		}
		sort.Ints(alive)
		if len(alive) != len(tr.Alive) {
			return fmt.Errorf("line %d: alive sessions differ", i)
		}
		vars := make([]string, 0, len(tr.G))
		for v := range tr.G {
			vars = append(vars, v)
		}
		sort.Strings(vars)
		for _, v := range vars {
			for _, s := range alive {
				if got := sessions[s].read("@@global." + v); !sameVal(got, tr.G[v]) {
					mismatch("global:"+descs[v].Type, show(tr.G[v]), fmt.Sprintf("@@global.%s in session %d = %s", v, s, show(got)))
					return nil
				}
			}
		}
		for _, s := range alive {
			exp := valsOf(tr.S, s)
			names := make([]string, 0, len(exp))
			for v := range exp {
				names = append(names, v)
			}
			sort.Strings(names)
			for _, v := range names {
				if got := sessions[s].read("@@session." + v); !sameVal(got, exp[v]) {
					who := "other"
					if s == tr.Act.S {
						who = "own"
					}
					mismatch("session:"+who+":"+descs[v].Type, show(exp[v]), fmt.Sprintf("@@session.%s in session %d = %s", v, s, show(got)))
					return nil
				}
			}
			uexp := valsOf(tr.U, s)
			for u, ev := range uexp {
				if got := sessions[s].read("@" + u); !sameVal(got, ev) {
					mismatch("uservar", show(ev), fmt.Sprintf("@%s in session %d = %s", u, s, show(got)))
					return nil
				}
			}
		}
		if len(rep.Samples) < 3 && tr.Step > 6 && i%53 == 0 {
			rep.Samples = append(rep.Samples, map[string]interface{}{"step": tr.Step, "sql": q, "ret": tr.Ret})
		}
		return nil
	})
	if err != nil {
		vio.Fatal("%v", err)
	}
	rep.Extra["behaviours"] = behaviours
	rep.Extra["resynchronisations"] = resyncs
	rep.Extra["steps_skipped_after_divergence"] = skipped
	rep.Extra["by_action"] = byAct
	if len(rep.Mismatches) > maxMM {
		rep.Extra["mismatches_total"] = len(rep.Mismatches)
		rep.Mismatches = rep.Mismatches[:maxMM]
	}
	_ = strings.ToLower
}
