package main

import (
	"encoding/json"
	"fmt"
	"math"
	"math/big"
	"reflect"
	"sort"
	"strconv"
	"strings"

	"github.com/dolthub/go-mysql-server/sql"
)

// Num is an integer in the trace encoding: sign + decimal digits (TLC's Json module wraps numbers
// beyond int32, so every bound and value travels as a digit array).
type Num struct {
	Neg bool  `json:"neg"`
	D   []int `json:"d"`
}

func numOfBig(b *big.Int) Num {
	s := b.String()
	n := Num{D: []int{}}
	if strings.HasPrefix(s, "-") {
		n.Neg = true
		s = s[1:]
	}
	for _, c := range s {
		n.D = append(n.D, int(c-'0'))
	}
	return n
}
func numOfInt(i int64) Num   { return numOfBig(big.NewInt(i)) }
func numOfUint(u uint64) Num { return numOfBig(new(big.Int).SetUint64(u)) }
func (n Num) String() string {
	var sb strings.Builder
	if n.Neg {
		sb.WriteByte('-')
	}
	for _, d := range n.D {
		sb.WriteByte(byte('0' + d))
	}
	return sb.String()
}
func (n Num) Big() *big.Int {
	b, _ := new(big.Int).SetString(n.String(), 10)
	return b
}

// Val is a value in the trace encoding:
//
//	{"t":"int","n":Num}      an integer (literal in a SET, or an integer read back; cls tells int/uint)
//	{"t":"str","s":"..."}    a string
//	{"t":"frac","s":"1.5"}   a non-integral number (literal text / %g of the float read back)
//	{"t":"null"}  {"t":"default"} (the DEFAULT keyword, SET only)  {"t":"err","s":msg} (a read that failed)
type Val struct {
	T   string `json:"t"`
	N   *Num   `json:"n"`
	S   string `json:"s"`
	Cls string `json:"cls"` // Go type class of a value read back: int | uint | float | str | null
}

var zeroNum = Num{D: []int{0}}

// MarshalJSON always writes all four fields (the specification compares whole records).
func (v Val) MarshalJSON() ([]byte, error) {
	n := v.N
	if n == nil {
		n = &zeroNum
	}
	type plain struct {
		T   string `json:"t"`
		N   *Num   `json:"n"`
		S   string `json:"s"`
		Cls string `json:"cls"`
	}
	return json.Marshal(plain{v.T, n, v.S, v.Cls})
}

func intVal(i int64) Val   { n := numOfInt(i); return Val{T: "int", N: &n} }
func bigVal(b *big.Int) Val { n := numOfBig(b); return Val{T: "int", N: &n} }
func strVal(s string) Val  { return Val{T: "str", S: s} }

// SQL renders a value as the right-hand side of a SET.
func (v Val) SQL() string {
	switch v.T {
	case "int":
		return v.N.String()
	case "str":
		return "'" + strings.ReplaceAll(strings.ReplaceAll(v.S, "\\", "\\\\"), "'", "''") + "'"
	case "frac":
		return v.S
	case "null":
		return "NULL"
	case "default":
		return "DEFAULT"
	}
	panic("unrenderable " + v.T)
}

// ofGo encodes a Go value returned by the engine (representation only).
func ofGo(x interface{}) Val {
	switch v := x.(type) {
	case nil:
		return Val{T: "null", Cls: "null"}
	case bool:
		if v {
			r := intVal(1)
			r.Cls = "bool"
			return r
		}
		r := intVal(0)
		r.Cls = "bool"
		return r
	case int8:
		r := intVal(int64(v))
		r.Cls = "int"
		return r
	case int16:
		r := intVal(int64(v))
		r.Cls = "int"
		return r
	case int32:
		r := intVal(int64(v))
		r.Cls = "int"
		return r
	case int:
		r := intVal(int64(v))
		r.Cls = "int"
		return r
	case int64:
		r := intVal(v)
		r.Cls = "int"
		return r
	case uint8:
		r := intVal(int64(v))
		r.Cls = "uint"
		return r
	case uint16:
		r := intVal(int64(v))
		r.Cls = "uint"
		return r
	case uint32:
		r := intVal(int64(v))
		r.Cls = "uint"
		return r
	case uint64:
		n := numOfUint(v)
		return Val{T: "int", N: &n, Cls: "uint"}
	case uint:
		n := numOfUint(uint64(v))
		return Val{T: "int", N: &n, Cls: "uint"}
	case float32:
		return ofGo(float64(v))
	case float64:
		if v == math.Trunc(v) && math.Abs(v) < 1e18 {
			r := intVal(int64(v))
			r.Cls = "float"
			return r
		}
		return Val{T: "frac", S: strconv.FormatFloat(v, 'g', -1, 64), Cls: "float"}
	case string:
		return Val{T: "str", S: v, Cls: "str"}
	case []byte:
		return Val{T: "str", S: string(v), Cls: "str"}
	case fmt.Stringer:
		// decimals and other numerics print as text
		s := v.String()
		if b, ok := new(big.Int).SetString(s, 10); ok {
			r := bigVal(b)
			r.Cls = "dec"
			return r
		}
		return Val{T: "frac", S: s, Cls: "dec"}
	}
	return Val{T: "str", S: fmt.Sprintf("%T:%v", x, x), Cls: "other"}
}

// Desc is the descriptor of one registered system variable, read from the engine's registry.
type Desc struct {
	Name    string   `json:"name"`
	Type    string   `json:"type"`  // bool | int | uint | double | enum | set | string | other
	Scope   string   `json:"scope"` // global | session | both
	Dynamic bool     `json:"dynamic"`
	Min     Num      `json:"min"`
	Max     Num      `json:"max"`
	NegOne  bool     `json:"negone"`
	FMin    string   `json:"fmin"` // double bounds as text
	FMax    string   `json:"fmax"`
	Members []string `json:"members"`
	Default Val      `json:"default"`
	Special bool     `json:"special"` // a NotifyChanged hook, a dotted (component) name or a name the engine special-cases
	Volatile bool    `json:"volatile"` // the value is computed on every read (ValueFunction): not recorded
}

// names the SET machinery treats specially (planbuilder/set.go, rowexec setSystemVar): couplings and
// extra validation beyond the type -- excluded from the generic rule, listed in the evidence
var specialNames = map[string]bool{
	"character_set_connection": true, "collation_connection": true, "character_set_server": true, "collation_server": true,
	"character_set_database": true, "collation_database": true, "time_zone": true, "sql_mode": true, "lc_time_names": true,
	"transaction_isolation": true, "transaction_read_only": true, "tx_isolation": true, "tx_read_only": true,
}

func describe(v sql.SystemVariable) Desc {
	d := Desc{Name: v.GetName(), Members: []string{}, Min: numOfInt(0), Max: numOfInt(0)}
	d.Dynamic = !v.IsReadOnly()
	if m, ok := v.(*sql.MysqlSystemVariable); ok {
		switch m.Scope.Type {
		case sql.SystemVariableScope_Global:
			d.Scope = "global"
		case sql.SystemVariableScope_Session:
			d.Scope = "session"
		case sql.SystemVariableScope_Both:
			d.Scope = "both"
		default:
			d.Scope = "other"
		}
		d.Special = m.NotifyChanged != nil || m.ValueFunction != nil
		d.Volatile = m.ValueFunction != nil
	} else {
		d.Scope = "other"
	}
	if specialNames[strings.ToLower(d.Name)] || strings.Contains(d.Name, ".") {
		d.Special = true
	}
	t := v.GetType()
	rv := reflect.ValueOf(t)
	switch t.String() {
	case "system_bool":
		d.Type = "bool"
	case "system_int":
		d.Type = "int"
		d.Min = numOfInt(rv.FieldByName("lowerbound").Int())
		d.Max = numOfInt(rv.FieldByName("upperbound").Int())
		d.NegOne = rv.FieldByName("negativeOne").Bool()
	case "system_uint":
		d.Type = "uint"
		d.Min = numOfUint(rv.FieldByName("lowerbound").Uint())
		d.Max = numOfUint(rv.FieldByName("upperbound").Uint())
	case "system_double":
		d.Type = "double"
		d.FMin = strconv.FormatFloat(rv.FieldByName("lowerbound").Float(), 'g', -1, 64)
		d.FMax = strconv.FormatFloat(rv.FieldByName("upperbound").Float(), 'g', -1, 64)
	case "system_enum":
		d.Type = "enum"
		iv := rv.FieldByName("indexToVal")
		for i := 0; i < iv.Len(); i++ {
			d.Members = append(d.Members, iv.Index(i).String())
		}
	case "system_set":
		d.Type = "set"
		if st, ok := t.(sql.SetType); ok {
			d.Members = append(d.Members, st.Values()...)
		}
	case "system_string":
		d.Type = "string"
	default:
		d.Type = "other"
	}
	d.Default = ofGo(v.GetDefault())
	return d
}

func allDescs() []Desc {
	var out []Desc
	for name := range sql.SystemVariables.GetAllGlobalVariables() {
		v, _, ok := sql.SystemVariables.GetGlobal(name)
		if !ok || v == nil {
			continue
		}
		out = append(out, describe(v))
	}
	sort.Slice(out, func(i, j int) bool { return out[i].Name < out[j].Name })
	return out
}
