// c44: system and user variables (C44).
//
//	-mode desc    dump the descriptors of every registered system variable (the constants of the spec)
//	-mode record  binding B: for every registered variable x generated values, SET SESSION / SET GLOBAL
//	              in session A, read back @@global / @@session in A, in another session B and in a NEW
//	              session; one event per SET (spec/Trace_SysVars.tla judges)
//	-mode replay  binding A: replay TLC behaviours of spec/SysVars.tla on a real engine with several
//	              sessions, comparing every modelled variable in every session after each step
//
// No verdict about SET semantics is taken here: the expected values come from TLC.
package main

import (
	"context"
	"encoding/json"
	"flag"
	"fmt"
	"math/big"
	"math/rand"
	"sort"
	"strings"

	sqle "github.com/dolthub/go-mysql-server"
	"github.com/dolthub/go-mysql-server/memory"
	"github.com/dolthub/go-mysql-server/sql"
	"github.com/dolthub/go-mysql-server/sql/variables"

	"gmsverif/lib/vio"
)

type world struct {
	e      *sqle.Engine
	pro    *memory.DbProvider
	nextID uint32
}

type session struct {
	w *world
	s *memory.Session
}

// newWorld resets the process-global system variable registry and builds a fresh engine.
func newWorld() *world {
	variables.InitSystemVariables()
	pro := memory.NewDBProvider(memory.NewDatabase("d"))
	return &world{e: sqle.NewDefault(pro), pro: pro}
}

func (w *world) session() *session {
	w.nextID++
	base := sql.NewBaseSessionWithClientServer("srv", sql.Client{User: "root", Address: "localhost"}, w.nextID)
	s := memory.NewSession(base, w.pro)
	s.SetCurrentDatabase("d")
	return &session{w, s}
}

type res struct {
	ok   bool
	msg  string
	rows []sql.Row
}

func (s *session) exec(q string) (r res) {
	defer func() {
		if p := recover(); p != nil {
			r = res{ok: false, msg: fmt.Sprintf("panic: %v", p)}
		}
	}()
	ctx := sql.NewContext(context.Background(), sql.WithSession(s.s))
	_, iter, _, err := s.w.e.Query(ctx, q)
	if err != nil {
		return res{msg: err.Error()}
	}
	rows, err := sql.RowIterToRows(ctx, iter)
	if err != nil {
		return res{msg: err.Error()}
	}
	return res{ok: true, rows: rows}
}

// read evaluates one scalar expression; a failing read is a value of its own ({"t":"err"}).
func (s *session) read(expr string) Val {
	r := s.exec("SELECT " + expr)
	if !r.ok {
		return Val{T: "err", S: errClass(r.msg)}
	}
	if len(r.rows) != 1 || len(r.rows[0]) != 1 {
		return Val{T: "err", S: "shape"}
	}
	return ofGo(r.rows[0][0])
}

func errClass(msg string) string {
	m := strings.ToLower(msg)
	switch {
	case strings.HasPrefix(m, "panic"):
		return "panic"
	case strings.Contains(m, "unknown system variable"):
		return "unknown"
	case strings.Contains(m, "is a session variable") || strings.Contains(m, "session variable and can't be used with set global") || strings.Contains(m, "session only"):
		return "session_only"
	case strings.Contains(m, "is a global variable") || strings.Contains(m, "global variable and should be set with set global") || strings.Contains(m, "global only"):
		return "global_only"
	case strings.Contains(m, "read only") || strings.Contains(m, "read-only"):
		return "read_only"
	case strings.Contains(m, "can't be set to the value") || strings.Contains(m, "invalid value") || strings.Contains(m, "incorrect argument"):
		return "bad_value"
	}
	return "other"
}

// ---------------------------------------------------------------- value generation (binding B)

func withLC(v Val) Val { return v }

func genValues(d Desc, rng *rand.Rand) []Val {
	frac := Val{T: "frac", S: "1.5"}
	null, def := Val{T: "null"}, Val{T: "default"}
	var vs []Val
	one := big.NewInt(1)
	switch d.Type {
	case "bool":
		vs = []Val{intVal(0), intVal(1), intVal(2), intVal(-1), strVal("ON"), strVal("off"), strVal("True"), strVal("FALSE"), strVal("maybe"), frac, null, def}
	case "int", "uint":
		mn, mx := d.Min.Big(), d.Max.Big()
		mid := new(big.Int).Add(mn, new(big.Int).Rand(rng, new(big.Int).Add(new(big.Int).Sub(mx, mn), one)))
		vs = []Val{bigVal(mn), bigVal(mx), bigVal(new(big.Int).Sub(mn, one)), bigVal(new(big.Int).Add(mx, one)), bigVal(mid),
			intVal(-1), intVal(0), strVal(mid.String()), strVal("abc"), frac, null, def}
	case "double":
		vs = []Val{intVal(0), intVal(1), intVal(-1), intVal(1000000), frac, strVal("abc"), null, def}
	case "enum":
		n := len(d.Members)
		vs = []Val{intVal(0), intVal(int64(n - 1)), intVal(int64(n)), intVal(-1), strVal("verif_bogus"), frac, null, def}
		for _, i := range rng.Perm(n) {
			if len(vs) >= 12 {
				break
			}
			m := d.Members[i]
			switch rng.Intn(3) {
			case 0:
				m = strings.ToLower(m)
			case 1:
				m = strings.ToUpper(m)
			}
			vs = append(vs, strVal(m))
		}
	case "set":
		vs = []Val{strVal(""), strVal("verif_bogus"), intVal(0), intVal(1), intVal(-1), null, def}
		if n := len(d.Members); n > 0 {
			a, b := d.Members[rng.Intn(n)], d.Members[rng.Intn(n)]
			vs = append(vs, strVal(a), strVal(strings.ToLower(a)+","+b), strVal(a+",verif_bogus"), intVal(int64(1)<<uint(min(n, 40))))
		}
	case "string":
		vs = []Val{strVal("verif_x"), strVal(""), intVal(5), frac, null, def}
		if d.Default.T == "str" {
			vs = append(vs, strVal(d.Default.S))
		}
	default:
		vs = []Val{intVal(1), strVal("x"), null, def}
	}
	rng.Shuffle(len(vs), func(i, j int) { vs[i], vs[j] = vs[j], vs[i] })
	return vs
}

// decorate adds the representation helpers the specification cannot compute on TLC strings:
// lower-case text and the comma-separated parts of a string, the small-int form of an integer.
type TVal struct {
	T     string   `json:"t"`
	N     *Num     `json:"n"`
	S     string   `json:"s"`
	Cls   string   `json:"cls"`
	LC    string   `json:"lc"`
	Parts []string `json:"parts"`
	I     int      `json:"i"`
	HasI  bool     `json:"hasi"`
	IsNum bool     `json:"isnum"`
	Num   *Num     `json:"num"`
}

func (t TVal) val() Val { return Val{T: t.T, N: t.N, S: t.S} }

func decorate(v Val) TVal {
	t := TVal{T: v.T, N: v.N, S: v.S, Parts: []string{}, Num: &zeroNum}
	if t.N == nil {
		t.N = &zeroNum
	}
	if v.T == "str" {
		t.LC = strings.ToLower(v.S)
		if v.S != "" {
			for _, p := range strings.Split(t.LC, ",") {
				t.Parts = append(t.Parts, strings.TrimSpace(p))
			}
		}
		if b, ok := new(big.Int).SetString(v.S, 10); ok && b.String() == v.S {
			n := numOfBig(b)
			t.IsNum, t.Num = true, &n
		}
	}
	if v.T == "int" {
		b := v.N.Big()
		if b.IsInt64() && b.Int64() > -(1<<31) && b.Int64() < (1<<31) {
			t.I, t.HasI = int(b.Int64()), true
		}
	}
	return t
}

type setEvent struct {
	Ev    string `json:"ev"`
	ID    int    `json:"id"`
	Var   string `json:"var"`
	Scope string `json:"scope,omitempty"`
	Val   *TVal  `json:"val,omitempty"`
	SQL   string `json:"sql,omitempty"`
	Out   string `json:"out,omitempty"`
	Err   string `json:"err,omitempty"`
	Msg   string `json:"msg,omitempty"`
	G     Val    `json:"g"` // @@global.var read in session A
	A     Val    `json:"a"` // @@session.var in A (the session that executes the SETs)
	B     Val    `json:"b"` // @@session.var in B
	GB    Val    `json:"gb"` // @@global.var read in session B
	N     Val    `json:"n"`  // @@session.var in a session created after the statement
}

func recordVar(d Desc, rng *rand.Rand, emit func(setEvent), only map[int]bool, id *int) {
	w := newWorld()
	a, b := w.session(), w.session()
	name := d.Name
	observe := func(ev *setEvent) {
		ev.G = a.read("@@global." + name)
		ev.A = a.read("@@session." + name)
		ev.B = b.read("@@session." + name)
		ev.GB = b.read("@@global." + name)
		ev.N = w.session().read("@@session." + name)
	}
	*id++
	init := setEvent{Ev: "init", ID: *id, Var: name}
	observe(&init)
	emit(init)
	type pair struct {
		v     Val
		scope string
	}
	var pairs []pair
	for _, v := range genValues(d, rng) {
		pairs = append(pairs, pair{v, "session"}, pair{v, "global"})
	}
	// interleave so that the session and the global value differ most of the time
	rng.Shuffle(len(pairs), func(i, j int) { pairs[i], pairs[j] = pairs[j], pairs[i] })
	for _, p := range pairs {
		v, scope := p.v, p.scope
		*id++
		spelled := spell(name, rng.Intn(4)) // system variable names are case-insensitive: the SET spells it in a seeded case variant
		if len(only) > 0 && !only[*id] {
			continue
		}
		q := fmt.Sprintf("SET %s %s = %s", strings.ToUpper(scope), spelled, v.SQL())
		r := a.exec(q)
		tv := decorate(v)
		ev := setEvent{Ev: "set", ID: *id, Var: name, Scope: scope, Val: &tv, SQL: q, Out: "ok"}
		if !r.ok {
			ev.Out, ev.Err, ev.Msg = "err", errClass(r.msg), r.msg
			if ev.Err == "panic" {
				ev.Out = "panic" // never an acceptable outcome
			}
		}
		observe(&ev)
		emit(ev)
	}
}

// spell returns a case variant of a variable name: as registered, upper case, capitalised, alternating.
func spell(name string, k int) string {
	switch k {
	case 1:
		return strings.ToUpper(name)
	case 2:
		return strings.ToUpper(name[:1]) + name[1:]
	case 3:
		b := []byte(name)
		for i := range b {
			if i%2 == 1 && b[i] >= 'a' && b[i] <= 'z' {
				b[i] -= 32
			}
		}
		return string(b)
	}
	return name
}

func main() {
	mode := flag.String("mode", "desc", "desc | record | replay")
	out := flag.String("out", "", "output ndjson")
	in := flag.String("in", "", "input ndjson (replay: TLC behaviours)")
	seed := flag.Int64("seed", 1, "")
	frac := flag.Float64("sample", 1.0, "record: fraction of the variables (seeded)")
	vars := flag.String("vars", "", "record: comma separated variable names that are always included (use -sample 0 for these only)")
	only := flag.String("only", "", "record: comma separated event ids to execute (the others are skipped)")
	shard := flag.String("shard", "", "record: i/n")
	maxMM := flag.Int("maxmm", 60, "replay: report at most this many disagreements")
	flag.Parse()
	rep := &vio.Report{Extra: map[string]interface{}{}}
	switch *mode {
	case "desc":
		newWorld()
		w, err := vio.NewWriter(*out)
		if err != nil {
			vio.Fatal("%v", err)
		}
		byType := map[string]int{}
		for _, d := range allDescs() {
			w.Write(descOut(d))
			byType[d.Type+"/"+d.Scope]++
			rep.Cases++
		}
		w.Close()
		rep.Extra["by_type_scope"] = byType
	case "record":
		newWorld()
		descs := allDescs()
		rng := rand.New(rand.NewSource(*seed))
		want := map[string]bool{}
		for _, n := range strings.Split(*vars, ",") {
			if n != "" {
				want[n] = true
			}
		}
		onlyIDs := map[int]bool{}
		for _, x := range strings.Split(*only, ",") {
			if x != "" {
				var n int
				fmt.Sscan(x, &n)
				onlyIDs[n] = true
			}
		}
		shI, shN := 0, 1
		if *shard != "" {
			fmt.Sscanf(*shard, "%d/%d", &shI, &shN)
		}
		w, err := vio.NewWriter(*out)
		if err != nil {
			vio.Fatal("%v", err)
		}
		outcomes := map[string]int{}
		id := 0
		for i, d := range descs {
			// one generator per variable so that sampling / sharding never changes a variable's values
			vr := rand.New(rand.NewSource(*seed*1000003 + int64(i)))
			pick := rng.Float64() < *frac || want[d.Name]
			id = i * 1000
			if !pick || i%shN != shI || d.Volatile {
				continue
			}
			recordVar(d, vr, func(ev setEvent) {
				w.Write(ev)
				if ev.Ev == "set" {
					rep.Cases++
					outcomes[d.Type+"/"+ev.Scope+"/"+ev.Out+":"+ev.Err]++
					if ev.Out == "ok" {
						rep.Nontrivial++
					}
					if len(rep.Samples) < 3 && ev.ID%977 == 3 {
						rep.Samples = append(rep.Samples, ev)
					}
				}
			}, onlyIDs, &id)
		}
		w.Close()
		rep.Extra["outcomes"] = outcomes
	case "replay":
		replay(*in, rep, *maxMM)
	default:
		vio.Fatal("unknown mode %s", *mode)
	}
	rep.Emit()
}

// descOut adds the lower-cased member names (TLC cannot fold case).
type descJSON struct {
	Desc
	MembersLC []string `json:"members_lc"`
	FInt      bool     `json:"fint"` // double bounds are integral (or unbounded) and given in fminn / fmaxn
	FMinN     Num      `json:"fminn"`
	FMaxN     Num      `json:"fmaxn"`
	FMinInf   bool     `json:"fmininf"`
	FMaxInf   bool     `json:"fmaxinf"`
}

func descOut(d Desc) descJSON {
	o := descJSON{Desc: d, MembersLC: []string{}, FMinN: numOfInt(0), FMaxN: numOfInt(0)}
	for _, m := range d.Members {
		o.MembersLC = append(o.MembersLC, strings.ToLower(m))
	}
	if d.Type == "double" {
		a, ok1 := new(big.Float).SetString(d.FMin)
		b, ok2 := new(big.Float).SetString(d.FMax)
		if ok1 && ok2 {
			// bounds beyond +-1e30 are "no bound" for every generated value
			big30 := new(big.Float).SetFloat64(1e30)
			o.FMaxInf = b.Cmp(big30) > 0
			o.FMinInf = a.Cmp(new(big.Float).Neg(big30)) < 0
			okA, okB := o.FMinInf || a.IsInt(), o.FMaxInf || b.IsInt()
			if okA && okB {
				o.FInt = true
				if !o.FMinInf {
					ai, _ := a.Int(nil)
					o.FMinN = numOfBig(ai)
				}
				if !o.FMaxInf {
					bi, _ := b.Int(nil)
					o.FMaxN = numOfBig(bi)
				}
			}
		}
	}
	return o
}

var _ = sort.Strings
var _ = json.Marshal
