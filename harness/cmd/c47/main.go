// c47: replays TLC-generated transitions of spec/IndexedSet.tla on the real
// sql/in_mem_table containers and table editors (binding A of C47).
package main

import (
	"encoding/json"
	"errors"
	"flag"
	"fmt"
	"math/rand"
	"sort"

	"gmsverif/lib/vio"

	"github.com/dolthub/go-mysql-server/sql"
	imt "github.com/dolthub/go-mysql-server/sql/in_mem_table"
)

type El struct {
	PK int `json:"pk"`
	A  int `json:"a"`
}

type pkKeyer struct{}

func (pkKeyer) GetKey(e *El) any { return e.PK }

type k1Keyer struct{}

func (k1Keyer) GetKey(e *El) any { return e.A % 2 }

var keyers = []imt.Keyer[*El]{pkKeyer{}, k1Keyer{}}

func eq(a, b *El) bool { return *a == *b }

var ops = imt.ValueOps[*El]{
	ToRow:   func(ctx *sql.Context, e *El) (sql.Row, error) { return sql.Row{e.PK, e.A}, nil },
	FromRow: func(ctx *sql.Context, r sql.Row) (*El, error) { return &El{r[0].(int), r[1].(int)}, nil },
	UpdateWithRow: func(ctx *sql.Context, r sql.Row, e *El) (*El, error) {
		return &El{r[0].(int), r[1].(int)}, nil
	},
}

func bit(x int) int {
	if x == 1 {
		return 1
	}
	return 2
}

// Multi rows are (pk, x): sub-row x of the entry with key pk.
var mops = imt.MultiValueOps[*El]{
	ToRows: func(ctx *sql.Context, e *El) ([]sql.Row, error) {
		var rs []sql.Row
		for _, x := range []int{1, 2} {
			if e.A&bit(x) != 0 {
				rs = append(rs, sql.Row{e.PK, x})
			}
		}
		return rs, nil
	},
	FromRow: func(ctx *sql.Context, r sql.Row) (*El, error) { return &El{r[0].(int), 0}, nil },
	AddRow: func(ctx *sql.Context, r sql.Row, e *El) (*El, error) {
		return &El{e.PK, e.A | bit(r[1].(int))}, nil
	},
	DeleteRow: func(ctx *sql.Context, r sql.Row, e *El) (*El, error) {
		return &El{e.PK, e.A &^ bit(r[1].(int))}, nil
	},
}

type Act struct {
	Name string `json:"name"`
	E    *El    `json:"e"`
	O    *El    `json:"o"`
	N    *El    `json:"n"`
	I    int    `json:"i"`
	K    int    `json:"k"`
	PK   int    `json:"pk"`
	X    int    `json:"x"`
	PK2  int    `json:"pk2"`
	X2   int    `json:"x2"`
}

type TR struct {
	Pre  []El   `json:"pre"`
	Act  Act    `json:"act"`
	Ret  string `json:"ret"`
	Post []El   `json:"post"`
	Step int    `json:"step"`
}

func materialise(pre []El, rng *rand.Rand) imt.IndexedSet[*El] {
	is := imt.NewIndexedSet[*El](eq, keyers)
	idx := rng.Perm(len(pre))
	for _, i := range idx {
		e := pre[i]
		is.Put(&e)
	}
	return is
}

func classify(err error) string {
	switch {
	case err == nil:
		return "ok"
	case sql.ErrPrimaryKeyViolation.Is(err):
		return "dup"
	case errors.Is(err, imt.ErrEntryNotFound):
		return "notfound"
	}
	return "error:" + err.Error()
}

func apply(is imt.IndexedSet[*El], a Act) (ret string) {
	defer func() {
		if r := recover(); r != nil {
			ret = fmt.Sprintf("panic:%v", r)
		}
	}()
	ctx := sql.NewEmptyContext()
	ed := &imt.IndexedSetTableEditor[*El]{Ops: ops, Set: is}
	med := &imt.MultiIndexedSetTableEditor[*El]{Ops: mops, Set: is}
	switch a.Name {
	case "Put":
		is.Put(&El{a.E.PK, a.E.A})
		return "ok"
	case "Remove":
		if _, found := is.Remove(&El{a.E.PK, a.E.A}); found {
			return "found"
		}
		return "notfound"
	case "RemoveMany":
		is.RemoveMany(keyers[a.I], a.K)
		return "ok"
	case "Clear":
		is.Clear()
		return "ok"
	case "EdInsert":
		return classify(ed.Insert(ctx, sql.Row{a.E.PK, a.E.A}))
	case "EdDelete":
		return classify(ed.Delete(ctx, sql.Row{a.E.PK, a.E.A}))
	case "EdUpdate":
		return classify(ed.Update(ctx, sql.Row{a.O.PK, a.O.A}, sql.Row{a.N.PK, a.N.A}))
	case "MultiInsert":
		return classify(med.Insert(ctx, sql.Row{a.PK, a.X}))
	case "MultiDelete":
		return classify(med.Delete(ctx, sql.Row{a.PK, a.X}))
	case "MultiUpdate":
		return classify(med.Update(ctx, sql.Row{a.PK, a.X}, sql.Row{a.PK2, a.X2}))
	}
	return "unknown-action"
}

func sorted(es []El) []El {
	out := append([]El{}, es...)
	sort.Slice(out, func(i, j int) bool {
		if out[i].PK != out[j].PK {
			return out[i].PK < out[j].PK
		}
		return out[i].A < out[j].A
	})
	return out
}

func deref(ps []*El) []El {
	var out []El
	for _, p := range ps {
		out = append(out, *p)
	}
	return sorted(out)
}

func same(a, b []El) bool {
	if len(a) != len(b) {
		return false
	}
	for i := range a {
		if a[i] != b[i] {
			return false
		}
	}
	return true
}

// observe compares every observable of the real container with the abstract set `post`.
func observe(is imt.IndexedSet[*El], post []El, pks, as []int) (string, interface{}) {
	want := sorted(post)
	var visited []El
	is.VisitEntries(func(e *El) { visited = append(visited, *e) })
	if got := sorted(visited); !same(got, want) {
		return "entries", got
	}
	if c := is.Count(); c != len(want) {
		return "count", c
	}
	for i, keys := range [][]int{pks, {0, 1}} {
		for _, k := range keys {
			var exp []El
			for _, e := range want {
				kk := e.PK
				if i == 1 {
					kk = e.A % 2
				}
				if kk == k {
					exp = append(exp, e)
				}
			}
			if got := deref(is.GetMany(keyers[i], k)); !same(got, exp) {
				return fmt.Sprintf("getmany[%d,%d]", i, k), got
			}
			// the raw index (MultiMap) must agree too
			if got := deref(is.Indexes[i].GetMany(k)); !same(got, exp) {
				return fmt.Sprintf("index[%d,%d]", i, k), got
			}
		}
	}
	in := map[El]bool{}
	for _, e := range want {
		in[e] = true
	}
	for _, pk := range pks {
		for _, a := range as {
			e := El{pk, a}
			got, found := is.Get(&e)
			if found != in[e] || (found && *got != e) {
				return fmt.Sprintf("get[%d,%d]", pk, a), found
			}
		}
	}
	return "", nil
}

func ints(s string) []int {
	var v []int
	if err := json.Unmarshal([]byte("["+s+"]"), &v); err != nil {
		vio.Fatal("bad int list %q", s)
	}
	return v
}

func main() {
	file := flag.String("file", "", "transitions (ndjson of TR records)")
	mode := flag.String("mode", "transitions", "transitions: materialise pre-state per record; behaviours: continue from the previous record while step increases")
	pksF := flag.String("pks", "1,2", "")
	asF := flag.String("as", "0,1,2,3", "")
	seed := flag.Int64("seed", 1, "")
	flag.Parse()
	pks, as := ints(*pksF), ints(*asF)
	rng := rand.New(rand.NewSource(*seed))
	rep := &vio.Report{Extra: map[string]interface{}{}}
	byAct := map[string]int{}
	var cur imt.IndexedSet[*El]
	lastStep := 0
	behaviours := 0
	err := vio.ReadNDJSON(*file, func(i int, line []byte) error {
		var tr TR
		if err := json.Unmarshal(line, &tr); err != nil {
			return err
		}
		rep.Cases++
		byAct[tr.Act.Name]++
		if len(tr.Pre) != len(tr.Post) || tr.Ret != "ok" {
			rep.Nontrivial++
		}
		if *mode == "transitions" || tr.Step != lastStep+1 || tr.Step == 1 {
			cur = materialise(tr.Pre, rng)
			behaviours++
		}
		lastStep = tr.Step
		if what, got := observe(cur, tr.Pre, pks, as); what != "" {
			rep.Mismatches = append(rep.Mismatches, vio.Mismatch{Case: i, Signature: "pre-state/" + what, Expected: tr.Pre, Got: got, Input: tr})
			cur = materialise(tr.Post, rng)
			return nil
		}
		ret := apply(cur, tr.Act)
		if ret != tr.Ret {
			rep.Mismatches = append(rep.Mismatches, vio.Mismatch{Case: i, Signature: tr.Act.Name + "/ret", Expected: tr.Ret, Got: ret, Input: tr})
		} else if what, got := observe(cur, tr.Post, pks, as); what != "" {
			rep.Mismatches = append(rep.Mismatches, vio.Mismatch{Case: i, Signature: tr.Act.Name + "/" + what, Expected: tr.Post, Got: got, Input: tr})
			cur = materialise(tr.Post, rng) // resynchronise so the rest of the behaviour is still checked
		}
		if len(rep.Samples) < 3 && len(tr.Pre) >= 2 && i%97 == 0 {
			rep.Samples = append(rep.Samples, tr)
		}
		return nil
	})
	if err != nil {
		vio.Fatal("%v", err)
	}
	rep.Extra["by_action"] = byAct
	rep.Extra["materialisations"] = behaviours
	if len(rep.Mismatches) > 50 {
		rep.Extra["mismatches_total"] = len(rep.Mismatches)
		rep.Mismatches = rep.Mismatches[:50]
	}
	rep.Emit()
}
