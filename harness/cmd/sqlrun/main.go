// sqlrun: triage tool. Reads SQL statements (one per line) from stdin, runs them on a fresh
// in-memory engine and prints each result. Not used by any check.
package main

import (
	"bufio"
	"encoding/json"
	"fmt"
	"os"
	"strings"

	"gmsverif/lib/eng"
)

func main() {
	db := eng.New()
	s := db.NewSession()
	sc := bufio.NewScanner(os.Stdin)
	sc.Buffer(make([]byte, 1<<20), 1<<26)
	for sc.Scan() {
		q := strings.TrimSpace(sc.Text())
		if q == "" || strings.HasPrefix(q, "--") {
			continue
		}
		r := s.Exec(q)
		switch r.Kind {
		case "rows":
			var out []string
			for _, row := range r.Raw {
				out = append(out, fmt.Sprint(row))
			}
			fmt.Printf("%s\n  -> %d rows %s\n", q, len(r.Raw), strings.Join(out, " "))
		default:
			b, _ := json.Marshal(r)
			fmt.Printf("%s\n  -> %s\n", q, b)
		}
	}
}
