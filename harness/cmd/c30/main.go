// c30: driver of C30 (character set conversion round-trips and never crashes).
//
//	-mode sweep  -dir DIR -seed S -tier quick|thorough [-only cs,cs]
//	     for EVERY character set of sql.NewCharacterSetsIterator: sweeps all code points 0..10FFFF
//	     through the real Encoder (Encode / EncodeReplaceUnknown / Decode), runs systematic + seeded
//	     random byte strings through Decode / Encode and through SQL (_cs X'..', CONVERT .. USING,
//	     CAST .. CHARACTER SET, a column of the character set), and writes DIR/trace-<cs>.ndjson.
//	-mode replay -in cases.ndjson   binding A: TLC-generated strings x character sets with the code
//	     words the specification expects; the real encoder's bytes are compared with them.
//
// The driver decides nothing.  What it computes itself is PROJECTION only (all of it in this file):
//   - utf8 <-> code point sequences by package unicode/utf8 (the engine's internal string encoding),
//   - the run-length compression of the sweep: a range is extended while the recorded facts are equal
//     and the code word, read as a big-endian number, grows by exactly one (extend()),
//   - classification of a call's result against the SAME call's neighbour results (same bytes / '?').
// Every verdict comes from TLC evaluating spec/Trace_Charset.tla over the recorded events.
package main

import (
	"bytes"
	"encoding/hex"
	"encoding/json"
	"flag"
	"fmt"
	"math/rand"
	"os"
	"path/filepath"
	"sort"
	"strings"
	"sync"
	"sync/atomic"
	"time"
	"unicode/utf8"

	"github.com/dolthub/go-mysql-server/sql"
	"github.com/dolthub/go-mysql-server/sql/encodings"

	"gmsverif/lib/eng"
	"gmsverif/lib/vio"
)

const maxCP = 0x10FFFF

var progress int64 // watchdog

type charset struct {
	ID     int
	Name   string
	MaxLen int
	Enc    encodings.Encoder
}

func charsets() []charset {
	var out []charset
	it := sql.NewCharacterSetsIterator()
	for {
		cs, ok := it.Next()
		if !ok {
			break
		}
		out = append(out, charset{ID: int(cs.ID), Name: cs.Name, MaxLen: int(cs.MaxLength), Enc: cs.ID.Encoder()})
	}
	return out
}

// exact returns a copy whose capacity equals its length: a read past the end is a run-time panic and
// never a silent read of stale memory (the engine's own strings have cap == len, see encodings.StringToBytes).
func exact(b []byte) []byte {
	c := make([]byte, len(b), len(b))
	copy(c, b)
	return c
}

func ints(b []byte) []int {
	out := make([]int, len(b))
	for i, x := range b {
		out[i] = int(x)
	}
	return out
}

// utf8Of is the engine's internal encoding of one code point; surrogates (not characters) in the
// generalized 3-byte form so that the sweep has an input for every code point.
func utf8Of(cp int) []byte {
	if cp >= 0xD800 && cp <= 0xDFFF {
		return []byte{0xE0 | byte(cp>>12), 0x80 | byte((cp>>6)&0x3F), 0x80 | byte(cp&0x3F)}
	}
	var buf [4]byte
	n := utf8.EncodeRune(buf[:], rune(cp))
	return append([]byte{}, buf[:n]...)
}

func utf8OfStr(cps []int) []byte {
	var out []byte
	for _, c := range cps {
		out = append(out, utf8Of(c)...)
	}
	return out
}

// cpsOf: code points of a well-formed internal string; ok=false when the bytes are not UTF-8.
func cpsOf(b []byte) ([]int, bool) {
	if !utf8.Valid(b) {
		return []int{}, false
	}
	out := []int{}
	for _, r := range string(b) {
		out = append(out, int(r))
	}
	return out, true
}

type callRes struct {
	out   []byte
	ok    bool
	panic bool
	msg   string
}

func call(f func() ([]byte, bool)) (r callRes) {
	defer func() {
		if p := recover(); p != nil {
			r = callRes{panic: true, msg: fmt.Sprint(p)}
		}
	}()
	o, ok := f()
	return callRes{out: o, ok: ok}
}

func encode(e encodings.Encoder, in []byte) callRes {
	return call(func() ([]byte, bool) { return e.Encode(exact(in)) })
}
func encodeRepl(e encodings.Encoder, in []byte) callRes {
	return call(func() ([]byte, bool) { return e.EncodeReplaceUnknown(exact(in)), true })
}
func decode(e encodings.Encoder, in []byte) callRes {
	return call(func() ([]byte, bool) { return e.Decode(exact(in)) })
}

// ---------------------------------------------------------------- the sweep

// facts recorded for one code point
type facts struct {
	St   string // Encode(u)            : ok (== the code word) | diff | fail | panic
	Pad  string // Encode(u+"AAA")      : ok (code word W followed by Encode("AAA")) | wrong | fail | panic
	Rep  string // EncodeReplaceUnknown(u)       : same (== W) | q (== "?") | other | panic
	Rpad string // EncodeReplaceUnknown(u+"AAA") : same | q | other | panic
	Dec  string // Decode(W)            : id | rej | wrong | panic | na (no code word)
	Len  int
}

type rangeEv struct {
	Ev   string `json:"ev"`
	Cs   string `json:"cs"`
	Lo   int    `json:"lo"`
	Hi   int    `json:"hi"`
	St   string `json:"st"`
	Pad  string `json:"pad"`
	Rep  string `json:"rep"`
	Rpad string `json:"rpad"`
	Dec  string `json:"dec"`
	Len  int    `json:"len"`
	Blo  []int  `json:"blo"`
	Bhi  []int  `json:"bhi"`
	Msg  string `json:"msg,omitempty"`
}

var pad = []byte("AAA")

func observe(e encodings.Encoder, cp int, e3 []byte) (facts, []byte, string) {
	u := utf8Of(cp)
	up := append(append([]byte{}, u...), pad...)
	var f facts
	var w []byte
	msg := ""
	p := encode(e, up)
	switch {
	case p.panic:
		f.Pad, msg = "panic", p.msg
	case !p.ok:
		f.Pad = "fail"
	case e3 != nil && len(p.out) > len(e3) && bytes.HasSuffix(p.out, e3):
		f.Pad = "ok"
		w = append([]byte{}, p.out[:len(p.out)-len(e3)]...)
	default:
		f.Pad = "wrong"
	}
	a := encode(e, u)
	switch {
	case a.panic:
		f.St, msg = "panic", a.msg
	case !a.ok:
		f.St = "fail"
	case w != nil && bytes.Equal(a.out, w):
		f.St = "ok"
	default:
		f.St = "diff"
	}
	cls := func(r callRes, suffix []byte) string {
		if r.panic {
			msg = r.msg
			return "panic"
		}
		o := r.out
		if suffix != nil {
			if !bytes.HasSuffix(o, suffix) {
				return "other"
			}
			o = o[:len(o)-len(suffix)]
		}
		if w != nil && bytes.Equal(o, w) {
			return "same"
		}
		if len(o) == 1 && o[0] == '?' {
			return "q"
		}
		return "other"
	}
	f.Rep = cls(encodeRepl(e, u), nil)
	f.Rpad = cls(encodeRepl(e, up), e3)
	f.Dec = "na"
	if w != nil {
		d := decode(e, w)
		switch {
		case d.panic:
			f.Dec, msg = "panic", d.msg
		case !d.ok:
			f.Dec = "rej"
		case bytes.Equal(d.out, u):
			f.Dec = "id"
		default:
			f.Dec = "wrong"
		}
		f.Len = len(w)
	}
	return f, w, msg
}

func num(w []byte) uint64 {
	var n uint64
	for _, b := range w {
		n = n<<8 | uint64(b)
	}
	return n
}

// extend: may cp (facts f, code word w) join the range that ends with (pf, pw) at cp-1 ?
func extend(pf, f facts, pw, w []byte, cp int) bool {
	if pf != f || cp == 0xD800 || cp == 0xE000 {
		return false
	}
	return len(w) == 0 || num(w) == num(pw)+1
}

// stripeEv: Count consecutive ranges of equal Size and equal facts whose first code words are Delta apart
// (as big-endian numbers).  Second level of the run-length projection (UTF-8 continuation bytes roll
// over every 64 code points, UTF-16 low surrogates every 1024).
type stripeEv struct {
	Ev    string `json:"ev"`
	Cs    string `json:"cs"`
	Lo    int    `json:"lo"`
	Size  int    `json:"size"`
	Count int    `json:"count"`
	Delta int    `json:"delta"`
	St    string `json:"st"`
	Pad   string `json:"pad"`
	Rep   string `json:"rep"`
	Rpad  string `json:"rpad"`
	Dec   string `json:"dec"`
	Len   int    `json:"len"`
	Blo   []int  `json:"blo"` // first code word of the first range
	Bhi   []int  `json:"bhi"` // last code word of the last range
}

func numInts(w []int) uint64 {
	var n uint64
	for _, b := range w {
		n = n<<8 | uint64(b)
	}
	return n
}

func sameFacts(a, b rangeEv) bool {
	return a.St == b.St && a.Pad == b.Pad && a.Rep == b.Rep && a.Rpad == b.Rpad && a.Dec == b.Dec && a.Len == b.Len
}

// stripes replaces every maximal run of >= 3 ranges with equal facts, equal size and equidistant first
// code words by one stripe event.
func stripes(rs []rangeEv) []interface{} {
	var out []interface{}
	for i := 0; i < len(rs); {
		j := i
		if rs[i].Len > 0 && i+1 < len(rs) {
			size := rs[i].Hi - rs[i].Lo + 1
			delta := int64(numInts(rs[i+1].Blo)) - int64(numInts(rs[i].Blo))
			ok := func(k int) bool {
				return sameFacts(rs[i], rs[k]) && rs[k].Hi-rs[k].Lo+1 == size && rs[k].Lo == rs[k-1].Hi+1 &&
					rs[k].Lo < 0xD800 == (rs[i].Lo < 0xD800) && rs[k].Lo > 0xDFFF == (rs[i].Lo > 0xDFFF) &&
					int64(numInts(rs[k].Blo))-int64(numInts(rs[k-1].Blo)) == delta
			}
			if delta > 0 && delta < 1<<24 {
				for j+1 < len(rs) && ok(j+1) {
					j++
				}
			}
		}
		if j-i+1 >= 3 {
			r := rs[i]
			out = append(out, stripeEv{Ev: "stripe", Cs: r.Cs, Lo: r.Lo, Size: r.Hi - r.Lo + 1, Count: j - i + 1,
				Delta: int(numInts(rs[i+1].Blo) - numInts(rs[i].Blo)), St: r.St, Pad: r.Pad, Rep: r.Rep, Rpad: r.Rpad, Dec: r.Dec, Len: r.Len,
				Blo: r.Blo, Bhi: rs[j].Bhi})
			i = j + 1
		} else {
			out = append(out, rs[i])
			i++
		}
	}
	return out
}

type tabEv struct {
	Ev    string  `json:"ev"`
	Cs    string  `json:"cs"`
	Cps   []int   `json:"cps"`
	Words [][]int `json:"words"`
	Dec   [][]int `json:"dec"`
}

const tabLimit = 2048 // sets with at most this many code words have their whole table recorded

func sweep(c charset, cur *int64) ([]rangeEv, *tabEv, int) {
	e := c.Enc
	var e3 []byte
	if r := encode(e, pad); !r.panic && r.ok {
		e3 = append([]byte{}, r.out...)
	}
	var ranges []rangeEv
	tab := &tabEv{Ev: "tab", Cs: c.Name, Cps: []int{}, Words: [][]int{}, Dec: [][]int{}}
	var pf facts
	var pw []byte
	nrep := 0
	for cp := 0; cp <= maxCP; cp++ {
		atomic.StoreInt64(cur, int64(cp))
		atomic.AddInt64(&progress, 1)
		f, w, msg := observe(e, cp, e3)
		if w != nil {
			nrep++
			if tab != nil {
				if len(tab.Cps) >= tabLimit {
					tab = nil
				} else {
					d := decode(e, w)
					dc := []int{-1}
					if d.panic {
						dc = []int{-2}
					} else if d.ok {
						if x, ok := cpsOf(d.out); ok {
							dc = x
						} else {
							dc = []int{-3}
						}
					}
					tab.Cps = append(tab.Cps, cp)
					tab.Words = append(tab.Words, ints(w))
					tab.Dec = append(tab.Dec, dc)
				}
			}
		}
		if cp > 0 && extend(pf, f, pw, w, cp) {
			r := &ranges[len(ranges)-1]
			r.Hi, r.Bhi = cp, ints(w)
		} else {
			ranges = append(ranges, rangeEv{Ev: "range", Cs: c.Name, Lo: cp, Hi: cp, St: f.St, Pad: f.Pad, Rep: f.Rep, Rpad: f.Rpad,
				Dec: f.Dec, Len: f.Len, Blo: ints(w), Bhi: ints(w), Msg: msg})
		}
		pf, pw = f, w
	}
	return ranges, tab, nrep
}

// ---------------------------------------------------------------- byte strings

type decEv struct {
	Ev  string `json:"ev"` // dec
	Cs  string `json:"cs"`
	Via string `json:"via"` // api | sql
	Src string `json:"src"`
	B   []int  `json:"b"`
	Out string `json:"out"` // api: ok | rej | panic | garbage ; sql: rows | err | panic | garbage
	Cps []int  `json:"cps"`
	Raw []int  `json:"raw"`
	Re  string `json:"re"` // re-encoding of an accepted result: ok | fail | panic | na
	Reb []int  `json:"reb"`
	Msg string `json:"msg,omitempty"`
}

type encEv struct {
	Ev   string `json:"ev"` // enc: Encode / EncodeReplaceUnknown of an arbitrary byte string
	Cs   string `json:"cs"`
	Src  string `json:"src"`
	B    []int  `json:"b"`
	St   string `json:"st"` // ok | fail | panic
	Out  []int  `json:"out"`
	Rep  string `json:"rep"` // ok | panic
	Rout []int  `json:"rout"`
	Msg  string `json:"msg,omitempty"`
}

func apiDec(c charset, b []byte, src string) decEv {
	ev := decEv{Ev: "dec", Cs: c.Name, Via: "api", Src: src, B: ints(b), Cps: []int{}, Raw: []int{}, Re: "na", Reb: []int{}}
	d := decode(c.Enc, b)
	switch {
	case d.panic:
		ev.Out, ev.Msg = "panic", d.msg
	case !d.ok:
		ev.Out = "rej"
	default:
		ev.Raw = ints(d.out)
		if x, ok := cpsOf(d.out); ok {
			ev.Out, ev.Cps = "ok", x
		} else {
			ev.Out = "garbage"
		}
		r := encode(c.Enc, d.out)
		switch {
		case r.panic:
			ev.Re, ev.Msg = "panic", r.msg
		case !r.ok:
			ev.Re = "fail"
		default:
			ev.Re, ev.Reb = "ok", ints(r.out)
		}
	}
	return ev
}

func apiEnc(c charset, b []byte, src string) encEv {
	ev := encEv{Ev: "enc", Cs: c.Name, Src: src, B: ints(b), Out: []int{}, Rout: []int{}}
	r := encode(c.Enc, b)
	switch {
	case r.panic:
		ev.St, ev.Msg = "panic", r.msg
	case !r.ok:
		ev.St = "fail"
	default:
		ev.St, ev.Out = "ok", ints(r.out)
	}
	q := encodeRepl(c.Enc, b)
	if q.panic {
		ev.Rep, ev.Msg = "panic", q.msg
	} else {
		ev.Rep, ev.Rout = "ok", ints(q.out)
	}
	return ev
}

func rawOf(v interface{}) ([]byte, bool) {
	switch x := v.(type) {
	case string:
		return []byte(x), true
	case []byte:
		return x, true
	}
	return nil, false
}

func sqlDec(s *eng.Session, c charset, b []byte, src string) decEv {
	ev := decEv{Ev: "dec", Cs: c.Name, Via: "sql", Src: src, B: ints(b), Cps: []int{}, Raw: []int{}, Re: "na", Reb: []int{}}
	q := "SELECT _" + c.Name + " X'" + hex.EncodeToString(b) + "'"
	r := s.Exec(q)
	ev.Out = r.Kind
	if r.Kind != "rows" {
		ev.Msg = r.Msg
		return ev
	}
	if len(r.Raw) != 1 || len(r.Raw[0]) != 1 {
		ev.Out, ev.Msg = "err", "unexpected result shape"
		return ev
	}
	raw, ok := rawOf(r.Raw[0][0])
	if !ok {
		ev.Out, ev.Msg = "err", fmt.Sprintf("unexpected value type %T", r.Raw[0][0])
		return ev
	}
	ev.Raw = ints(raw)
	if x, ok := cpsOf(raw); ok {
		ev.Cps = x
	} else {
		ev.Out = "garbage"
	}
	return ev
}

func alphabetOf(c charset, big bool) []byte {
	switch {
	case strings.HasPrefix(c.Name, "utf8") && big:
		return []byte{0x41, 0x7F, 0x80, 0x8F, 0x90, 0x9F, 0xA0, 0xBF, 0xC0, 0xC2, 0xDF, 0xE0, 0xED, 0xEF, 0xF0, 0xF4, 0xF5, 0xFF}
	case strings.HasPrefix(c.Name, "utf8"):
		return []byte{0x41, 0x80, 0x8F, 0x90, 0x9F, 0xA0, 0xBF, 0xC2, 0xE0, 0xED, 0xF0, 0xF4, 0xF5}
	case strings.HasPrefix(c.Name, "utf16"), c.Name == "ucs2":
		return []byte{0x00, 0x41, 0xD7, 0xD8, 0xDB, 0xDC, 0xDF, 0xE0, 0xFF}
	case c.Name == "utf32":
		return []byte{0x00, 0x01, 0x10, 0x11, 0x41, 0xD8, 0xDC, 0xDF, 0xE0, 0xFF}
	}
	return []byte{0x00, 0x3F, 0x41, 0x7F, 0x80, 0x81, 0x8D, 0x9F, 0xA0, 0xE9, 0xFF}
}

var utf8Alphabet = []byte{0x41, 0x3F, 0x7F, 0x80, 0xBF, 0xC2, 0xC3, 0xA9, 0xE0, 0xA0, 0xE2, 0x82, 0xAC, 0xED, 0xF0, 0x90, 0xF4, 0x8F, 0xFF}

func allStrings(alpha []byte, maxlen int, f func([]byte)) {
	var rec func(cur []byte)
	rec = func(cur []byte) {
		f(cur)
		if len(cur) == maxlen {
			return
		}
		for _, a := range alpha {
			rec(append(append([]byte{}, cur...), a))
		}
	}
	rec([]byte{})
}

// boundary code points whose code words are truncated
var boundaryCPs = []int{0x41, 0x7F, 0x80, 0xE9, 0x7FF, 0x800, 0xFFF, 0x1000, 0x20AC, 0xD7FF, 0xE000, 0xFFFD, 0xFFFF, 0x10000, 0x103FF, 0x10400, 0x3FFFF, 0x40000, 0x10FFFF}

type sizes struct {
	sysLen, sysLenSQL, nRand, nRandSQL, encLen, nStr int
	big                                              bool
}

func sizesOf(tier string) sizes {
	if tier == "thorough" {
		return sizes{sysLen: 3, sysLenSQL: 2, nRand: 1500, nRandSQL: 300, encLen: 3, nStr: 60, big: true}
	}
	return sizes{sysLen: 3, sysLenSQL: 2, nRand: 150, nRandSQL: 40, encLen: 2, nStr: 14}
}

func byteEvents(w *batcher, s *eng.Session, c charset, words [][]byte, rng *rand.Rand, sz sizes, counts map[string]int) {
	alpha := alphabetOf(c, sz.big)
	sysLen, sysLenSQL := sz.sysLen, sz.sysLenSQL
	if c.MaxLen == 1 { // a single-byte set decodes byte by byte: all 256 single bytes, pairs over the alphabet
		sysLen, sysLenSQL = 2, 1
		for b := 0; b < 256; b++ {
			w.Write(apiDec(c, []byte{byte(b)}, "byte"))
			w.Write(sqlDec(s, c, []byte{byte(b)}, "byte"))
			counts["dec"] += 2
		}
	}
	emit := func(b []byte, src string, withSQL bool) {
		atomic.AddInt64(&progress, 1)
		w.Write(apiDec(c, b, src))
		counts["dec"]++
		if withSQL {
			w.Write(sqlDec(s, c, b, src))
			counts["dec"]++
		}
	}
	allStrings(alpha, sysLen, func(b []byte) { emit(b, "sys", len(b) <= sysLenSQL) })
	// every proper prefix of the code words of boundary characters, alone and followed by 'A' / by the word again
	for _, wd := range words {
		for k := 1; k < len(wd); k++ {
			emit(wd[:k], "trunc", true)
			emit(append(append([]byte{}, wd[:k]...), 'A'), "trunc", true)
			emit(append(append([]byte{}, wd...), wd[:k]...), "trunc", true)
		}
		emit(wd, "word", true)
		emit(append(append([]byte{}, wd...), wd...), "word", false)
	}
	for i := 0; i < sz.nRand; i++ {
		n := 1 + rng.Intn(8)
		b := make([]byte, n)
		for j := range b {
			switch rng.Intn(3) {
			case 0:
				b[j] = byte(rng.Intn(256))
			default:
				b[j] = alpha[rng.Intn(len(alpha))]
			}
		}
		if len(words) > 0 && rng.Intn(2) == 0 { // a valid word somewhere inside
			wd := words[rng.Intn(len(words))]
			at := rng.Intn(len(b) + 1)
			b = append(append(append([]byte{}, b[:at]...), wd...), b[at:]...)
		}
		emit(b, "rand", i < sz.nRandSQL)
	}
	// Encode / EncodeReplaceUnknown of arbitrary byte strings (the engine's internal strings are not validated everywhere)
	allStrings(utf8Alphabet, sz.encLen, func(b []byte) {
		atomic.AddInt64(&progress, 1)
		w.Write(apiEnc(c, b, "sys"))
		counts["enc"]++
	})
	for i := 0; i < sz.nRand; i++ {
		n := 1 + rng.Intn(7)
		b := make([]byte, n)
		for j := range b {
			b[j] = utf8Alphabet[rng.Intn(len(utf8Alphabet))]
		}
		w.Write(apiEnc(c, b, "rand"))
		counts["enc"]++
	}
}

// ---------------------------------------------------------------- SQL level strings

type sqlEv struct {
	Ev   string `json:"ev"` // sql
	Cs   string `json:"cs"`
	Form string `json:"form"`
	S    []int  `json:"s"`
	Out  string `json:"out"` // rows | err | panic | ok
	Raw  []int  `json:"raw"` // the bytes of the result value (hex forms: the bytes the hex digits denote)
	Cps  []int  `json:"cps"` // code points of the result value, [-1] when it is not a well-formed internal string
	N    int    `json:"n"`   // numeric results (CHAR_LENGTH / LENGTH), -1 otherwise
	Ins  string `json:"ins"` // col forms: outcome of the INSERT
	SQL  string `json:"sql"`
	Msg  string `json:"msg,omitempty"`
}

func one(s *eng.Session, c charset, form string, cps []int, q string, hexed bool) sqlEv {
	atomic.AddInt64(&progress, 1)
	ev := sqlEv{Ev: "sql", Cs: c.Name, Form: form, S: cps, Raw: []int{}, Cps: []int{-1}, N: -1, Ins: "na", SQL: q}
	r := s.Exec(q)
	ev.Out = r.Kind
	if r.Kind != "rows" {
		ev.Msg = r.Msg
		return ev
	}
	if len(r.Raw) != 1 || len(r.Raw[0]) != 1 {
		ev.Out, ev.Msg = "err", fmt.Sprintf("unexpected result shape: %d rows", len(r.Raw))
		return ev
	}
	v := r.Raw[0][0]
	switch x := v.(type) {
	case int32:
		ev.N = int(x)
		return ev
	case int64:
		ev.N = int(x)
		return ev
	case nil:
		ev.Out, ev.Msg = "null", "NULL result"
		return ev
	}
	raw, ok := rawOf(v)
	if !ok {
		ev.Out, ev.Msg = "err", fmt.Sprintf("unexpected value type %T", v)
		return ev
	}
	if hexed {
		d, err := hex.DecodeString(string(raw))
		if err != nil {
			ev.Out, ev.Msg = "err", "HEX() result is not hex: "+string(raw)
			return ev
		}
		raw = d
	}
	ev.Raw = ints(raw)
	if x, ok := cpsOf(raw); ok {
		ev.Cps = x
	}
	return ev
}

func sqlStrings(w *batcher, s *eng.Session, c charset, strs [][]int, counts map[string]int) {
	lit := func(cps []int) string { return "_utf8mb4 X'" + hex.EncodeToString(utf8OfStr(cps)) + "'" }
	tbl := "c30_" + c.Name
	hasCol := false
	if c.Name != "binary" {
		r := s.Exec("CREATE TABLE " + tbl + " (id INT PRIMARY KEY, c VARCHAR(64) CHARACTER SET " + c.Name + ")")
		hasCol = r.Kind == "ok"
		if !hasCol {
			w.Write(sqlEv{Ev: "sql", Cs: c.Name, Form: "create", S: []int{}, Out: r.Kind, Raw: []int{}, Cps: []int{-1}, N: -1, Ins: "na", Msg: r.Msg})
		}
	}
	for i, cps := range strs {
		l := lit(cps)
		evs := []sqlEv{
			one(s, c, "conv", cps, "SELECT CONVERT("+l+" USING "+c.Name+")", false),
			one(s, c, "hexconv", cps, "SELECT HEX(CONVERT("+l+" USING "+c.Name+"))", true),
			one(s, c, "nested", cps, "SELECT CONVERT(CONVERT("+l+" USING "+c.Name+") USING utf8mb4)", false),
		}
		if c.Name != "binary" {
			evs = append(evs, one(s, c, "convchars", cps, "SELECT CHAR_LENGTH(CONVERT("+l+" USING "+c.Name+"))", false),
				one(s, c, "convbytes", cps, "SELECT LENGTH(CONVERT("+l+" USING "+c.Name+"))", false))
			evs = append(evs, one(s, c, "cast", cps, "SELECT HEX(CAST("+l+" AS CHAR CHARACTER SET "+c.Name+"))", true))
		}
		if hasCol {
			id := fmt.Sprint(i + 1)
			ins := s.Exec("INSERT INTO " + tbl + " VALUES (" + id + ", " + l + ")")
			for _, f := range []struct {
				form, expr string
				hexed      bool
			}{{"col", "c", false}, {"colhex", "HEX(c)", true}, {"colchars", "CHAR_LENGTH(c)", false}, {"colbytes", "LENGTH(c)", false}} {
				ev := sqlEv{Ev: "sql", Cs: c.Name, Form: f.form, S: cps, Out: "skipped", Raw: []int{}, Cps: []int{-1}, N: -1}
				if ins.Kind == "ok" {
					ev = one(s, c, f.form, cps, "SELECT "+f.expr+" FROM "+tbl+" WHERE id = "+id, f.hexed)
				}
				ev.Ins = ins.Kind
				if ins.Kind != "ok" {
					ev.Msg = ins.Msg
				}
				evs = append(evs, ev)
			}
			s.Exec("DELETE FROM " + tbl + " WHERE id = " + id)
		}
		for _, ev := range evs {
			w.Write(ev)
			counts["sql"]++
		}
	}
}

// strings over: ASCII, representable non-ASCII characters of the set, characters outside the set
func genStrings(rng *rand.Rand, reps []int, n int) [][]int {
	outside := []int{0x80, 0xE9, 0x20AC, 0x999, 0xFFFD, 0x10000, 0x1F600, 0x10FFFF, 0x3A9, 0x416}
	ascii := []int{0x41, 0x7A, 0x30, 0x3F, 0x20, 0x27, 0x5C, 0x7E, 0x40, 0x5B, 0x7F, 0x00, 0x0A}
	var nonASCII []int
	for _, c := range reps {
		if c > 127 {
			nonASCII = append(nonASCII, c)
		}
	}
	out := [][]int{{}, {0x41}, {0xE9}, {0x20AC}, {0x41, 0xE9, 0x42}, {0x999}, {0x41, 0x999}, {0x1F600, 0x41}}
	for len(out) < n {
		k := 1 + rng.Intn(5)
		s := make([]int, k)
		for j := range s {
			switch r := rng.Intn(10); {
			case r < 3:
				s[j] = ascii[rng.Intn(len(ascii))]
			case r < 8 && len(nonASCII) > 0:
				s[j] = nonASCII[rng.Intn(len(nonASCII))]
			default:
				s[j] = outside[rng.Intn(len(outside))]
			}
		}
		out = append(out, s)
	}
	return out
}

// ---------------------------------------------------------------- modes

type csEv struct {
	Ev     string `json:"ev"`
	Cs     string `json:"cs"`
	ID     int    `json:"id"`
	Enc    bool   `json:"enc"`
	MaxLen int    `json:"maxlen"`
	NRep   int    `json:"nrep"`
}

func runSweep(dir string, seed int64, tier string, only map[string]bool, rep *vio.Report) {
	sz := sizesOf(tier)
	all := charsets()
	type job struct {
		c      charset
		ranges []rangeEv
		tab    *tabEv
		nrep   int
		cur    int64
	}
	var jobs []*job
	for _, c := range all {
		if len(only) > 0 && !only[c.Name] {
			continue
		}
		jobs = append(jobs, &job{c: c})
	}
	// 1. the exhaustive sweeps, in parallel (pure encoder calls)
	var wg sync.WaitGroup
	sem := make(chan struct{}, 8)
	for _, j := range jobs {
		if j.c.Enc == nil {
			continue
		}
		wg.Add(1)
		go func(j *job) {
			defer wg.Done()
			sem <- struct{}{}
			defer func() { <-sem }()
			j.ranges, j.tab, j.nrep = sweep(j.c, &j.cur)
		}(j)
	}
	done := make(chan struct{})
	go func() { // watchdog: a conversion that never returns is an outcome, not a dead driver
		last, idle := int64(-1), 0
		for {
			select {
			case <-done:
				return
			case <-time.After(5 * time.Second):
			}
			p := atomic.LoadInt64(&progress)
			if p == last {
				idle++
			} else {
				idle, last = 0, p
			}
			if idle >= 24 {
				where := []string{}
				for _, j := range jobs {
					where = append(where, fmt.Sprintf("%s@%x", j.c.Name, atomic.LoadInt64(&j.cur)))
				}
				rep.Extra["hang"] = strings.Join(where, " ")
				rep.Emit()
				os.Exit(0)
			}
		}
	}()
	wg.Wait()
	// 2. byte strings and SQL, sequentially on one engine
	db := eng.New()
	s := db.NewSession()
	counts := map[string]int{}
	swept, nranges, tables := 0, 0, 0
	files := []map[string]interface{}{}
	for _, j := range jobs {
		c := j.c
		path := filepath.Join(dir, "trace-"+c.Name+".ndjson")
		vw, err := vio.NewWriter(path)
		if err != nil {
			vio.Fatal("%v", err)
		}
		w := &batcher{w: vw, cs: c.Name}
		w.Write(map[string]interface{}{"ev": "cfg", "cs": c.Name, "tier": tier, "seed": int(seed % 1000000)})
		w.Write(csEv{Ev: "cs", Cs: c.Name, ID: c.ID, Enc: c.Enc != nil, MaxLen: c.MaxLen, NRep: j.nrep})
		rng := rand.New(rand.NewSource(seed*1000 + int64(c.ID)))
		if c.Enc == nil {
			// an unsupported character set must be refused, not crash
			for _, q := range []struct{ form, q string }{
				{"conv", "SELECT CONVERT('a' USING " + c.Name + ")"},
				{"intro", "SELECT _" + c.Name + " X'41'"},
				{"cast", "SELECT CAST('a' AS CHAR CHARACTER SET " + c.Name + ")"},
				{"create", "CREATE TABLE c30_" + c.Name + " (c VARCHAR(10) CHARACTER SET " + c.Name + ")"},
			} {
				r := s.Exec(q.q)
				w.Write(sqlEv{Ev: "unsup", Cs: c.Name, Form: q.form, S: []int{}, Out: r.Kind, Raw: []int{}, Cps: []int{-1}, N: -1, Ins: "na", SQL: q.q, Msg: r.Msg})
				counts["unsup"]++
			}
			w.Write(map[string]interface{}{"ev": "end", "cs": c.Name})
			w.Flush()
			vw.Close()
			files = append(files, map[string]interface{}{"cs": c.Name, "path": path, "events": w.n, "lines": w.lines, "enc": false})
			continue
		}
		swept += maxCP + 1
		if j.tab != nil {
			w.Write(*j.tab)
			tables++
		}
		for _, r := range stripes(j.ranges) {
			w.Write(r)
		}
		nranges += len(j.ranges)
		w.Write(map[string]interface{}{"ev": "end", "cs": c.Name})
		// code words of the boundary characters (for truncation) and the representable characters (for strings)
		var words [][]byte
		var reps []int
		e3 := encode(c.Enc, pad)
		for _, cp := range boundaryCPs {
			if r := encode(c.Enc, append(utf8Of(cp), pad...)); !r.panic && r.ok && !e3.panic && e3.ok && bytes.HasSuffix(r.out, e3.out) {
				words = append(words, append([]byte{}, r.out[:len(r.out)-len(e3.out)]...))
			}
		}
		if j.tab != nil {
			reps = j.tab.Cps
			for i := 0; i < len(j.tab.Words) && len(words) < 40; i += 1 + len(j.tab.Words)/24 {
				wd := make([]byte, len(j.tab.Words[i]))
				for k, x := range j.tab.Words[i] {
					wd[k] = byte(x)
				}
				words = append(words, wd)
			}
		} else {
			reps = boundaryCPs
		}
		sub := map[string]int{}
		byteEvents(w, s, c, words, rng, sz, sub)
		sqlStrings(w, s, c, genStrings(rng, reps, sz.nStr), sub)
		for k, v := range sub {
			counts[k] += v
		}
		w.Flush()
		vw.Close()
		files = append(files, map[string]interface{}{"cs": c.Name, "path": path, "events": w.n, "lines": w.lines, "enc": true, "ranges": len(j.ranges), "representable": j.nrep})
	}
	close(done)
	rep.Cases = swept
	rep.Nontrivial = nranges
	rep.Extra["files"] = files
	rep.Extra["counts"] = counts
	rep.Extra["charsets"] = len(jobs)
	rep.Extra["tables"] = tables
	rep.Extra["ranges"] = nranges
}

// batcher groups consecutive events of one kind into {"ev":"batch","cs":..,"kind":..,"items":[..]} lines
// (TLC's cost per trace line is much higher than per item).
type batcher struct {
	w     *vio.Writer
	cs    string
	kind  string
	items []json.RawMessage
	lines int
	n     int
}

const batchSize = 120

func kindOf(v interface{}) string {
	switch x := v.(type) {
	case rangeEv:
		return x.Ev
	case stripeEv:
		return "range"
	case decEv:
		return x.Ev
	case encEv:
		return x.Ev
	case sqlEv:
		return x.Ev
	}
	return ""
}

func (b *batcher) Write(v interface{}) {
	k := kindOf(v)
	b.n++
	if k == "" { // cfg, cs, tab, end: lines of their own
		b.Flush()
		b.w.Write(v)
		b.lines++
		return
	}
	if k != b.kind || len(b.items) >= batchSize {
		b.Flush()
	}
	b.kind = k
	j, err := json.Marshal(v)
	if err != nil {
		panic(err)
	}
	b.items = append(b.items, j)
}

func (b *batcher) Flush() {
	if len(b.items) > 0 {
		b.w.Write(map[string]interface{}{"ev": "batch", "cs": b.cs, "kind": b.kind, "items": b.items})
		b.lines++
	}
	b.items, b.kind = nil, ""
}

// ---- binding A
type replayCase struct {
	ID     int    `json:"id"`
	Cs     string `json:"cs"`
	S      []int  `json:"s"`
	Strict []int  `json:"strict"`
	Repl   []int  `json:"repl"`
	Back   []int  `json:"back"`
}

func eqInts(a, b []int) bool {
	if len(a) != len(b) {
		return false
	}
	for i := range a {
		if a[i] != b[i] {
			return false
		}
	}
	return true
}

func runReplay(in string, rep *vio.Report) {
	byName := map[string]charset{}
	for _, c := range charsets() {
		byName[c.Name] = c
	}
	err := vio.ReadNDJSON(in, func(i int, line []byte) error {
		var c replayCase
		if err := json.Unmarshal(line, &c); err != nil {
			return err
		}
		cs, ok := byName[c.Cs]
		if !ok || cs.Enc == nil {
			return fmt.Errorf("character set %s has no encoder", c.Cs)
		}
		rep.Cases++
		if len(c.S) > 0 {
			rep.Nontrivial++
		}
		u := utf8OfStr(c.S)
		mm := func(api, exp string, got interface{}, want interface{}) {
			rep.Mismatches = append(rep.Mismatches, vio.Mismatch{Case: c.ID, Signature: "C30|replay|cs=" + c.Cs + "|api=" + api + "|" + exp,
				Expected: want, Got: got, Input: c})
		}
		failExpected := len(c.Strict) == 1 && c.Strict[0] == -1
		r := encode(cs.Enc, u)
		switch {
		case r.panic:
			if failExpected {
				mm("Encode", "exp=fail|got=panic", r.msg, c.Strict)
			} else {
				mm("Encode", "exp=ok|got=panic", r.msg, c.Strict)
			}
		case !r.ok && !failExpected:
			mm("Encode", "exp=ok|got=fail", "fail", c.Strict)
		case r.ok && failExpected:
			mm("Encode", "exp=fail|got=ok", ints(r.out), c.Strict)
		case r.ok && !eqInts(ints(r.out), c.Strict):
			mm("Encode", "exp=ok|got=other-bytes", ints(r.out), c.Strict)
		}
		q := encodeRepl(cs.Enc, u)
		switch {
		case q.panic:
			mm("EncodeReplaceUnknown", "got=panic", q.msg, c.Repl)
		case !eqInts(ints(q.out), c.Repl):
			got := "got=other-bytes"
			if n := len(q.out); n >= 1 && n < len(c.Repl) && q.out[n-1] == '?' && eqInts(ints(q.out), c.Repl[:n]) {
				got = "got=truncated"
			}
			if failExpected {
				got += "|str=unrepresentable"
			} else {
				got += "|str=representable"
			}
			mm("EncodeReplaceUnknown", got, ints(q.out), c.Repl)
		}
		// the specification's bytes decode to the string with '?' substituted
		wb := make([]byte, len(c.Repl))
		for k, x := range c.Repl {
			wb[k] = byte(x)
		}
		d := decode(cs.Enc, wb)
		switch {
		case d.panic:
			mm("Decode", "got=panic", d.msg, c.Back)
		case !d.ok:
			mm("Decode", "got=rejected", "rejected", c.Back)
		case !bytes.Equal(d.out, utf8OfStr(c.Back)):
			mm("Decode", "got=other-string", ints(d.out), c.Back)
		}
		if len(rep.Samples) < 3 && len(c.S) > 1 {
			rep.Samples = append(rep.Samples, c)
		}
		return nil
	})
	if err != nil {
		vio.Fatal("%v", err)
	}
}

func main() {
	mode := flag.String("mode", "sweep", "sweep | replay")
	dir := flag.String("dir", "", "output directory (sweep)")
	in := flag.String("in", "", "cases ndjson (replay)")
	seed := flag.Int64("seed", 1, "seed")
	tier := flag.String("tier", "quick", "quick | thorough")
	only := flag.String("only", "", "comma separated character set names")
	flag.Parse()
	rep := vio.Report{Extra: map[string]interface{}{}}
	switch *mode {
	case "sweep":
		if *dir == "" {
			vio.Fatal("-dir required")
		}
		keep := map[string]bool{}
		for _, f := range strings.Split(*only, ",") {
			if f != "" {
				keep[f] = true
			}
		}
		runSweep(*dir, *seed, *tier, keep, &rep)
	case "replay":
		runReplay(*in, &rep)
	default:
		vio.Fatal("unknown mode %s", *mode)
	}
	sort.Slice(rep.Mismatches, func(i, j int) bool { return rep.Mismatches[i].Case < rep.Mismatches[j].Case })
	rep.Emit()
}
