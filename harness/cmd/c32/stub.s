// empty: permits the body-less go:linkname declarations in main.go
