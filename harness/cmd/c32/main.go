// c32: binding of spec/JsonDoc.tla to the engine's JSON type and functions (C32).
//
//	replay -file tr.ndjson          binding A: TLC transitions {pre, op, p, v, post, kind, obs}; the pre document is
//	                                materialised as JSON text (literal or JSON column), the SQL function applied,
//	                                the printed result re-serialised into the trace encoding and compared with post
//	                                (equality of the canonical encodings, key order as printed), plus the observers.
//	gen -seed S -n N -out trace     binding B: round trips, quote/unquote, comparison matrices; judged by Trace_Json.tla.
//	exec -in events -out trace      binding B: re-records given input events.
//
// The program decides nothing about JSON semantics: it renders documents as text, runs SQL and parses the
// engine's output only to re-encode it (objects keep the key order the engine printed).
package main

import (
	"bytes"
	"encoding/json"
	"flag"
	"fmt"
	"io"
	"math/rand"
	"os"
	"strconv"
	"strings"
	"unicode/utf8"
	_ "unsafe" // go:linkname

	"gmsverif/lib/eng"
	"gmsverif/lib/vio"

	_ "github.com/dolthub/go-mysql-server/sql"
)

// internal/strings cannot be imported from outside the go-mysql-server module; it is linked into the
// binary through the engine and bound by name (stub.s permits the body-less declarations).
//
//go:linkname gmsQuote github.com/dolthub/go-mysql-server/internal/strings.Quote
func gmsQuote(s string) string

//go:linkname gmsUnquote github.com/dolthub/go-mysql-server/internal/strings.Unquote
func gmsUnquote(s string) (string, error)

// ---------------------------------------------------------------- documents in the trace encoding

type Member struct {
	K []int
	D Doc
}

type Doc struct {
	T  string
	KV []Member // t = o
	V  []Doc    // t = a
	S  []int    // t = s (code points)
	I  int      // t = i
	B  bool     // t = b
	N  string   // t = num (uninterpreted number text)
}

func (d Doc) MarshalJSON() ([]byte, error) {
	switch d.T {
	case "o":
		kv := make([][2]interface{}, len(d.KV))
		for i, m := range d.KV {
			k := m.K
			if k == nil {
				k = []int{}
			}
			kv[i] = [2]interface{}{k, m.D}
		}
		return json.Marshal(map[string]interface{}{"t": "o", "kv": kv})
	case "a":
		v := d.V
		if v == nil {
			v = []Doc{}
		}
		return json.Marshal(map[string]interface{}{"t": "a", "v": v})
	case "s":
		s := d.S
		if s == nil {
			s = []int{}
		}
		return json.Marshal(map[string]interface{}{"t": "s", "v": s})
	case "i":
		return json.Marshal(map[string]interface{}{"t": "i", "v": d.I})
	case "b":
		return json.Marshal(map[string]interface{}{"t": "b", "v": d.B})
	case "num":
		return json.Marshal(map[string]interface{}{"t": "num", "s": d.N})
	}
	return json.Marshal(map[string]interface{}{"t": d.T}) // z, m, err
}

func (d *Doc) UnmarshalJSON(b []byte) error {
	var raw map[string]json.RawMessage
	if err := json.Unmarshal(b, &raw); err != nil {
		return err
	}
	if err := json.Unmarshal(raw["t"], &d.T); err != nil {
		return err
	}
	switch d.T {
	case "o":
		var kv [][2]json.RawMessage
		if err := json.Unmarshal(raw["kv"], &kv); err != nil {
			return err
		}
		d.KV = make([]Member, len(kv))
		for i, p := range kv {
			if err := json.Unmarshal(p[0], &d.KV[i].K); err != nil {
				return err
			}
			if err := json.Unmarshal(p[1], &d.KV[i].D); err != nil {
				return err
			}
		}
	case "a":
		return json.Unmarshal(raw["v"], &d.V)
	case "s":
		return json.Unmarshal(raw["v"], &d.S)
	case "i":
		return json.Unmarshal(raw["v"], &d.I)
	case "b":
		return json.Unmarshal(raw["v"], &d.B)
	case "num":
		return json.Unmarshal(raw["s"], &d.N)
	}
	return nil
}

func enc(d Doc) string {
	b, _ := json.Marshal(d)
	return string(b)
}

func cpsToString(cps []int) string {
	var sb strings.Builder
	for _, c := range cps {
		sb.WriteRune(rune(c))
	}
	return sb.String()
}

func stringToCps(s string) []int {
	out := make([]int, 0, len(s))
	for _, r := range s {
		out = append(out, int(r))
	}
	return out
}

func jsonString(s string) string {
	var buf bytes.Buffer
	e := json.NewEncoder(&buf)
	e.SetEscapeHTML(false)
	e.Encode(s)
	return strings.TrimRight(buf.String(), "\n")
}

// text renders a document as JSON text (members in the order given).
func text(d Doc) string {
	switch d.T {
	case "o":
		parts := make([]string, len(d.KV))
		for i, m := range d.KV {
			parts[i] = jsonString(cpsToString(m.K)) + ": " + text(m.D)
		}
		return "{" + strings.Join(parts, ", ") + "}"
	case "a":
		parts := make([]string, len(d.V))
		for i, x := range d.V {
			parts[i] = text(x)
		}
		return "[" + strings.Join(parts, ", ") + "]"
	case "s":
		return jsonString(cpsToString(d.S))
	case "i":
		return strconv.Itoa(d.I)
	case "b":
		if d.B {
			return "true"
		}
		return "false"
	case "num":
		return d.N
	case "z":
		return "null"
	}
	panic("cannot render document of type " + d.T)
}

// parse re-encodes JSON text; objects keep the order of the text.
func parse(s string) (Doc, error) {
	dec := json.NewDecoder(strings.NewReader(s))
	dec.UseNumber()
	d, err := parseValue(dec)
	if err != nil {
		return Doc{}, err
	}
	if _, err := dec.Token(); err != io.EOF {
		return Doc{}, fmt.Errorf("trailing text")
	}
	return d, nil
}

func parseValue(dec *json.Decoder) (Doc, error) {
	tok, err := dec.Token()
	if err != nil {
		return Doc{}, err
	}
	switch t := tok.(type) {
	case json.Delim:
		switch t {
		case '{':
			d := Doc{T: "o", KV: []Member{}}
			for dec.More() {
				kt, err := dec.Token()
				if err != nil {
					return Doc{}, err
				}
				k, ok := kt.(string)
				if !ok {
					return Doc{}, fmt.Errorf("key expected")
				}
				v, err := parseValue(dec)
				if err != nil {
					return Doc{}, err
				}
				d.KV = append(d.KV, Member{K: stringToCps(k), D: v})
			}
			_, err := dec.Token()
			return d, err
		case '[':
			d := Doc{T: "a", V: []Doc{}}
			for dec.More() {
				v, err := parseValue(dec)
				if err != nil {
					return Doc{}, err
				}
				d.V = append(d.V, v)
			}
			_, err := dec.Token()
			return d, err
		}
		return Doc{}, fmt.Errorf("unexpected %v", t)
	case string:
		return Doc{T: "s", S: stringToCps(t)}, nil
	case json.Number:
		if n, err := strconv.ParseInt(string(t), 10, 64); err == nil && n >= -2147483647 && n <= 2147483647 &&
			strconv.FormatInt(n, 10) == string(t) {
			return Doc{T: "i", I: int(n)}, nil
		}
		return Doc{T: "num", N: string(t)}, nil
	case bool:
		return Doc{T: "b", B: t}, nil
	case nil:
		return Doc{T: "z"}, nil
	}
	return Doc{}, fmt.Errorf("unexpected token %v", tok)
}

// outcome of a JSON-valued SQL expression in the trace encoding: Missing for SQL NULL, {"t":"err"} otherwise
func docOf(s string) Doc {
	if s == "NULL" {
		return Doc{T: "m"}
	}
	if strings.HasPrefix(s, "ERROR") {
		return Doc{T: "err"}
	}
	d, err := parse(s)
	if err != nil {
		return Doc{T: "err"}
	}
	return d
}

// ---------------------------------------------------------------- engine access

type sess struct {
	s      *eng.Session
	nextID int
	ids    map[string]int
}

func newSess() *sess {
	db := eng.New()
	s := db.NewSession()
	s.MustExec("CREATE TABLE tj (id INT PRIMARY KEY, j JSON)")
	s.MustExec("CREATE TABLE ts (id INT PRIMARY KEY, s TEXT)")
	return &sess{s: s, ids: map[string]int{}}
}

// canon returns the wire rendering of every column of the first row, or an error text.
func (x *sess) canon(q string) ([]string, string) {
	r := x.s.Exec(q)
	if r.Kind == "err" || r.Kind == "panic" {
		return nil, r.Kind + ": " + r.Msg
	}
	if r.Kind != "rows" || len(r.Raw) == 0 {
		return nil, "no row"
	}
	ctx := x.s.Ctx()
	out := make([]string, len(r.Raw[0]))
	for i, v := range r.Raw[0] {
		if v == nil {
			out[i] = "NULL"
			continue
		}
		val, err := r.Schema[i].Type.SQL(ctx, nil, v)
		if err != nil {
			out[i] = "ERROR: " + err.Error()
			continue
		}
		out[i] = val.ToString()
	}
	return out, ""
}

func (x *sess) one(expr, from string) string {
	out, err := x.canon("SELECT " + expr + from)
	if err != "" || len(out) != 1 {
		return "ERROR: " + err
	}
	return out[0]
}

// sqlQuote renders a string as a SQL literal (backslash is an escape character in the default sql_mode).
func sqlQuote(s string) string {
	return "'" + strings.ReplaceAll(strings.ReplaceAll(s, `\`, `\\`), "'", "''") + "'"
}

func castJSON(d Doc) string { return "CAST(" + sqlQuote(text(d)) + " AS JSON)" }

// column stores the text in the JSON column (once per distinct text) and returns the column reference.
func (x *sess) column(txt string) (expr, from string, ok bool) {
	id, seen := x.ids[txt]
	if !seen {
		x.nextID++
		id = x.nextID
		r := x.s.Exec(fmt.Sprintf("INSERT INTO tj VALUES (%d, %s)", id, sqlQuote(txt)))
		if r.Kind != "ok" {
			return "", "", false
		}
		x.ids[txt] = id
	}
	return "j", fmt.Sprintf(" FROM tj WHERE id = %d", id), true
}

// ---------------------------------------------------------------- paths

type Step struct {
	K string          `json:"k"`
	V json.RawMessage `json:"v"`
}

func pathText(p []Step) string {
	var sb strings.Builder
	sb.WriteByte('$')
	for _, s := range p {
		if s.K == "i" {
			var n int
			json.Unmarshal(s.V, &n)
			fmt.Fprintf(&sb, "[%d]", n)
			continue
		}
		var cps []int
		json.Unmarshal(s.V, &cps)
		k := cpsToString(cps)
		simple := k != ""
		for i, r := range k {
			if !(r == '_' || (r >= 'a' && r <= 'z') || (r >= 'A' && r <= 'Z') || (i > 0 && r >= '0' && r <= '9')) {
				simple = false
			}
		}
		if simple {
			sb.WriteString("." + k)
		} else {
			sb.WriteString(`."` + strings.ReplaceAll(strings.ReplaceAll(k, `\`, `\\`), `"`, `\"`) + `"`)
		}
	}
	return sb.String()
}

// ---------------------------------------------------------------- binding A

type Obs struct {
	Extract  Doc    `json:"extract"`
	Contains bool   `json:"contains"`
	Len      int    `json:"len"`
	Type     string `json:"type"`
	Keys     Doc    `json:"keys"`
}

type TR struct {
	Pre  Doc    `json:"pre"`
	Op   string `json:"op"`
	P    []Step `json:"p"`
	V    Doc    `json:"v"`
	Post Doc    `json:"post"`
	Kind string `json:"kind"`
	Obs  Obs    `json:"obs"`
	Step int    `json:"step"`
}

var fnOf = map[string]string{"set": "JSON_SET", "insert": "JSON_INSERT", "replace": "JSON_REPLACE", "remove": "JSON_REMOVE",
	"append": "JSON_ARRAY_APPEND", "ainsert": "JSON_ARRAY_INSERT", "patch": "JSON_MERGE_PATCH"}

func (x *sess) applySQL(tr *TR, i int) (r string, from string, sqlText string) {
	pre, from := castJSON(tr.Pre), ""
	if i%2 == 1 {
		if e, f, ok := x.column(text(tr.Pre)); ok {
			pre, from = e, f
		}
	}
	p := sqlQuote(pathText(tr.P))
	switch tr.Op {
	case "remove":
		r = fmt.Sprintf("JSON_REMOVE(%s, %s)", pre, p)
	case "patch":
		r = fmt.Sprintf("JSON_MERGE_PATCH(%s, %s)", pre, castJSON(tr.V))
	default:
		r = fmt.Sprintf("%s(%s, %s, %s)", fnOf[tr.Op], pre, p, castJSON(tr.V))
	}
	return r, from, "SELECT " + r + from
}

func replay(file string, keep int) {
	x := newSess()
	rep := &vio.Report{Extra: map[string]interface{}{}}
	byOp, byKind, bySig := map[string]int{}, map[string]int{}, map[string]int{}
	distinct := map[string]bool{}
	err := vio.ReadNDJSON(file, func(i int, line []byte) error {
		var tr TR
		if err := json.Unmarshal(line, &tr); err != nil {
			return err
		}
		rep.Cases++
		byOp[tr.Op]++
		byKind[tr.Kind]++
		if enc(tr.Pre) != enc(tr.Post) {
			key := tr.Op + "|" + enc(tr.Pre) + "|" + pathText(tr.P) + "|" + enc(tr.V)
			if !distinct[key] {
				distinct[key] = true
				rep.Nontrivial++
			}
		}
		r, from, sqlText := x.applySQL(&tr, i)
		p := sqlQuote(pathText(tr.P))
		cols := []string{r, "JSON_EXTRACT(" + r + ", " + p + ")", "JSON_CONTAINS_PATH(" + r + ", 'one', " + p + ")",
			"JSON_LENGTH(" + r + ")", "JSON_TYPE(" + r + ")", "JSON_KEYS(" + r + ")"}
		out, e := x.canon("SELECT " + strings.Join(cols, ", ") + from)
		if e != "" {
			out = make([]string, len(cols))
			for k, c := range cols {
				out[k] = x.one(c, from)
			}
		}
		what, exp, got := "", interface{}(nil), interface{}(nil)
		post := docOf(out[0])
		switch {
		case enc(post) != enc(tr.Post):
			what, exp, got = "post", text(tr.Post), out[0]
		case enc(docOf(out[1])) != enc(tr.Obs.Extract):
			what, exp, got = "extract", tr.Obs.Extract, out[1]
		case out[2] != map[bool]string{true: "1", false: "0"}[tr.Obs.Contains] && out[2] != map[bool]string{true: "true", false: "false"}[tr.Obs.Contains]:
			what, exp, got = "contains_path", tr.Obs.Contains, out[2]
		case out[3] != strconv.Itoa(tr.Obs.Len):
			what, exp, got = "length", tr.Obs.Len, out[3]
		case out[4] != tr.Obs.Type:
			what, exp, got = "type", tr.Obs.Type, out[4]
		case enc(docOf(out[5])) != enc(tr.Obs.Keys):
			what, exp, got = "keys", tr.Obs.Keys, out[5]
		}
		if g, isStr := got.(string); isStr && strings.HasPrefix(g, "ERROR") { // the engine refused or crashed
			if strings.Contains(g, "panic") {
				what += "-panic"
			} else {
				what += "-error"
			}
		}
		if what != "" {
			sig := fmt.Sprintf("A|%s|%s|%s", tr.Op, tr.Kind, what)
			bySig[sig]++
			if bySig[sig] <= keep {
				rep.Mismatches = append(rep.Mismatches, vio.Mismatch{Case: i, Signature: sig, Expected: exp, Got: got,
					Input: map[string]interface{}{"sql": sqlText, "path": pathText(tr.P), "tr": json.RawMessage(append([]byte{}, line...))}})
			}
		}
		if len(rep.Samples) < 3 && enc(tr.Pre) != enc(tr.Post) && len(tr.P) == 2 && i%53 == 7 {
			rep.Samples = append(rep.Samples, map[string]interface{}{"sql": sqlText, "engine": out[0], "specification": text(tr.Post)})
		}
		return nil
	})
	if err != nil {
		vio.Fatal("%v", err)
	}
	rep.Extra["by_op"] = byOp
	rep.Extra["by_kind"] = byKind
	rep.Extra["by_signature"] = bySig
	rep.Emit()
}

// ---------------------------------------------------------------- binding B

type Ev struct {
	Ev string `json:"ev"` // rt | quote | order
	ID int    `json:"id"`
	// rt: raw document (members in generation order, duplicates possible), how it is stored
	Raw  *Doc   `json:"raw,omitempty"`
	Form string `json:"form,omitempty"` // cast | col
	D1   *Doc   `json:"d1,omitempty"`   // the engine's printed form, re-encoded
	D2   *Doc   `json:"d2,omitempty"`   // the printed form parsed and printed again
	// quote
	S  []int `json:"s"`
	Q  []int `json:"q"`  // JSON_QUOTE(s)
	U  []int `json:"u"`  // JSON_UNQUOTE(JSON_QUOTE(s))
	J  *Doc  `json:"j,omitempty"` // CAST(JSON_QUOTE(s) AS JSON)
	NQ []int `json:"nq"` // internal/strings.Quote(s)
	NU []int `json:"nu"` // internal/strings.Unquote(Quote(s))
	OK bool  `json:"ok"` // every statement of the group returned a value
	// order
	Docs []Doc      `json:"docs,omitempty"`
	LT   [][]string `json:"lt,omitempty"` // "t" | "f" | "n" (NULL) | "e" (error)
	EQ   [][]string `json:"eq,omitempty"`
	SQL  []string   `json:"sql"`
	Txt  []string   `json:"txt,omitempty"`
}

func hexLit(s string) string { return fmt.Sprintf("CONVERT(X'%X' USING utf8mb4)", []byte(s)) }

func boolStr(s string) string {
	switch s {
	case "1", "true":
		return "t"
	case "0", "false":
		return "f"
	case "NULL":
		return "n"
	}
	return "e"
}

func (x *sess) record(e *Ev) {
	e.SQL, e.Txt = nil, nil
	switch e.Ev {
	case "rt":
		txt := text(*e.Raw)
		var p1 string
		if e.Form == "col" {
			x.s.Exec(fmt.Sprintf("DELETE FROM tj WHERE id = %d", 1000000+e.ID))
			q := fmt.Sprintf("INSERT INTO tj VALUES (%d, %s)", 1000000+e.ID, sqlQuote(txt))
			e.SQL = append(e.SQL, q)
			if r := x.s.Exec(q); r.Kind != "ok" {
				p1 = "ERROR: " + r.Msg
			} else {
				p1 = x.one("j", fmt.Sprintf(" FROM tj WHERE id = %d", 1000000+e.ID))
			}
		} else {
			e.SQL = append(e.SQL, "SELECT CAST("+sqlQuote(txt)+" AS JSON)")
			p1 = x.one("CAST("+sqlQuote(txt)+" AS JSON)", "")
		}
		d1 := docOf(p1)
		e.D1 = &d1
		e.Txt = append(e.Txt, txt, p1)
		d2 := Doc{T: "err"}
		if d1.T != "err" && d1.T != "m" {
			e.SQL = append(e.SQL, "SELECT CAST("+sqlQuote(p1)+" AS JSON)")
			p2 := x.one("CAST("+sqlQuote(p1)+" AS JSON)", "")
			d2 = docOf(p2)
			e.Txt = append(e.Txt, p2)
		}
		e.D2 = &d2
	case "quote":
		s := cpsToString(e.S)
		lit := hexLit(s)
		e.SQL = append(e.SQL, "SELECT JSON_QUOTE("+lit+"), JSON_UNQUOTE(JSON_QUOTE("+lit+")), CAST(JSON_QUOTE("+lit+") AS JSON)")
		q := x.one("JSON_QUOTE("+lit+")", "")
		u := x.one("JSON_UNQUOTE(JSON_QUOTE("+lit+"))", "")
		j := docOf(x.one("CAST(JSON_QUOTE("+lit+") AS JSON)", ""))
		e.OK = !strings.HasPrefix(q, "ERROR") && !strings.HasPrefix(u, "ERROR") && q != "NULL" && u != "NULL"
		e.Q, e.U, e.J = stringToCps(q), stringToCps(u), &j
		nq := gmsQuote(s)
		nu, err := gmsUnquote(nq)
		if err != nil {
			nu = "ERROR: " + err.Error()
			e.OK = false
		}
		e.NQ, e.NU = stringToCps(nq), stringToCps(nu)
		e.Txt = append(e.Txt, q, u)
	case "order":
		n := len(e.Docs)
		e.LT, e.EQ = make([][]string, n), make([][]string, n)
		for i := 0; i < n; i++ {
			var lt, eq []string
			for j := 0; j < n; j++ {
				lt = append(lt, castJSON(e.Docs[i])+" < "+castJSON(e.Docs[j]))
				eq = append(eq, castJSON(e.Docs[i])+" = "+castJSON(e.Docs[j]))
			}
			out, er := x.canon("SELECT " + strings.Join(append(lt, eq...), ", "))
			if er != "" {
				out = make([]string, 2*n)
				for k, c := range append(lt, eq...) {
					out[k] = x.one(c, "")
				}
			}
			for j := 0; j < n; j++ {
				e.LT[i] = append(e.LT[i], boolStr(out[j]))
				e.EQ[i] = append(e.EQ[i], boolStr(out[n+j]))
			}
			e.Txt = append(e.Txt, text(e.Docs[i]))
		}
		e.SQL = append(e.SQL, "SELECT CAST(<docs[i]> AS JSON) < CAST(<docs[j]> AS JSON), ... = ...  for all i, j")
	default:
		vio.Fatal("unknown event %q", e.Ev)
	}
}

// ---- generators (structure only; what the results mean is decided by the specification)

var keyPool = []string{"a", "b", "aa", "ab", "B", "", "k1", "é", "ключ", "日本", "😀", "a b", "a\"b", "a.b", "z", "zz"}
var strPool = []string{"", "x", "a\"b", "back\\slash", "line\nfeed", "tab\t", "\u0000", "\u0001\u001f", "\u007f", "é", "日本語", "😀🎉", "'q'", "/", " ", "<&>", "\b\f\r"}

func genString(r *rand.Rand) []int {
	if r.Intn(3) > 0 {
		return stringToCps(strPool[r.Intn(len(strPool))])
	}
	n := r.Intn(6)
	var cps []int
	for i := 0; i < n; i++ {
		switch r.Intn(6) {
		case 0:
			cps = append(cps, r.Intn(32))
		case 1:
			cps = append(cps, []int{'"', '\\', '\'', '/', 'u', 'n'}[r.Intn(6)])
		case 2:
			cps = append(cps, 0x80+r.Intn(0x700))
		case 3:
			cps = append(cps, 0x4e00+r.Intn(0x100))
		case 4:
			cps = append(cps, 0x1f600+r.Intn(0x40))
		default:
			cps = append(cps, 'a'+r.Intn(26))
		}
	}
	return cps
}

func genNumber(r *rand.Rand) Doc {
	switch r.Intn(6) {
	case 0:
		return Doc{T: "i", I: r.Intn(2001) - 1000}
	case 1:
		return Doc{T: "i", I: []int{0, 1, -1, 2147483647, -2147483647}[r.Intn(5)]}
	case 2: // beyond 32 bits, inside 63: uninterpreted text, written canonically
		return Doc{T: "num", N: strconv.FormatInt(int64(1)<<(33+r.Intn(29))+int64(r.Intn(1000)), 10)}
	case 3:
		return Doc{T: "num", N: "-" + strconv.FormatInt(int64(1)<<(33+r.Intn(29))+int64(r.Intn(1000)), 10)}
	default: // a short decimal written canonically (no exponent, no trailing zero)
		s := fmt.Sprintf("%d.%d", r.Intn(1000), 1+r.Intn(9))
		if r.Intn(2) == 0 {
			s = fmt.Sprintf("%d.%02d", r.Intn(100), 1+2*r.Intn(49))
			s = strings.TrimRight(s, "0")
		}
		if r.Intn(3) == 0 {
			s = "-" + s
		}
		return Doc{T: "num", N: s}
	}
}

func genDoc(r *rand.Rand, depth int, dupKeys bool) Doc {
	k := r.Intn(10)
	if depth == 0 || k < 4 {
		switch r.Intn(6) {
		case 0:
			return Doc{T: "z"}
		case 1:
			return Doc{T: "b", B: r.Intn(2) == 0}
		case 2, 3:
			return Doc{T: "s", S: genString(r)}
		default:
			return genNumber(r)
		}
	}
	n := r.Intn(4)
	if k < 7 {
		d := Doc{T: "a", V: []Doc{}}
		for i := 0; i < n; i++ {
			d.V = append(d.V, genDoc(r, depth-1, dupKeys))
		}
		return d
	}
	d := Doc{T: "o", KV: []Member{}}
	used := map[string]bool{}
	for i := 0; i < n+1; i++ {
		key := keyPool[r.Intn(len(keyPool))]
		if r.Intn(4) == 0 {
			key = cpsToString(genString(r))
		}
		if !utf8.ValidString(key) || (used[key] && !dupKeys) {
			continue
		}
		used[key] = true
		d.KV = append(d.KV, Member{K: stringToCps(key), D: genDoc(r, depth-1, dupKeys)})
	}
	return d
}

// documents for the comparison matrix: integers only as numbers (the specification orders them)
func genOrderDoc(r *rand.Rand, depth int) Doc {
	k := r.Intn(12)
	switch {
	case k < 2:
		return Doc{T: "i", I: []int{0, 1, 2, -1, 10, 9}[r.Intn(6)]}
	case k < 4:
		return Doc{T: "s", S: stringToCps([]string{"", "a", "ab", "b", "B", "é", "10", "9"}[r.Intn(8)])}
	case k < 5:
		return Doc{T: "b", B: r.Intn(2) == 0}
	case k < 6:
		return Doc{T: "z"}
	case k < 9 && depth > 0:
		d := Doc{T: "a", V: []Doc{}}
		for i, n := 0, r.Intn(3); i < n; i++ {
			d.V = append(d.V, genOrderDoc(r, depth-1))
		}
		return d
	case depth > 0:
		d := Doc{T: "o", KV: []Member{}}
		used := map[string]bool{}
		for i, n := 0, r.Intn(3); i < n; i++ {
			key := []string{"a", "b", "aa"}[r.Intn(3)]
			if used[key] {
				continue
			}
			used[key] = true
			d.KV = append(d.KV, Member{K: stringToCps(key), D: genOrderDoc(r, depth-1)})
		}
		return d
	}
	return Doc{T: "i", I: r.Intn(3)}
}

func genEvent(seed int64, id int) *Ev {
	r := rand.New(rand.NewSource(seed*1000003 + int64(id)*7919))
	e := &Ev{ID: id}
	switch {
	case id%20 == 0:
		e.Ev = "order"
		n := 8 + r.Intn(9)
		for i := 0; i < n; i++ {
			if i > 0 && r.Intn(4) == 0 { // equal documents must compare equal
				e.Docs = append(e.Docs, e.Docs[r.Intn(i)])
			} else {
				e.Docs = append(e.Docs, genOrderDoc(r, 2))
			}
		}
	case id%2 == 0:
		e.Ev = "quote"
		e.S = genString(r)
		if len(e.S) > 0 && r.Intn(3) == 0 {
			e.S = append(append(genString(r), e.S...), genString(r)...)
		}
	default:
		e.Ev = "rt"
		d := genDoc(r, 1+r.Intn(4), r.Intn(4) == 0)
		e.Raw = &d
		e.Form = []string{"cast", "col"}[r.Intn(2)]
	}
	return e
}

func main() {
	if len(os.Args) < 2 {
		vio.Fatal("usage: c32 replay|gen|exec ...")
	}
	mode := os.Args[1]
	fs := flag.NewFlagSet(mode, flag.ExitOnError)
	file := fs.String("file", "", "transitions (replay)")
	keep := fs.Int("keep", 3, "mismatches kept in full per signature (replay)")
	seed := fs.Int64("seed", 1, "")
	n := fs.Int("n", 300, "events (gen)")
	only := fs.String("only", "", "comma-separated ids (gen)")
	in := fs.String("in", "", "input events (exec)")
	out := fs.String("out", "", "recorded trace")
	fs.Parse(os.Args[2:])
	switch mode {
	case "replay":
		replay(*file, *keep)
	case "gen", "exec":
		var evs []*Ev
		if mode == "gen" {
			want := map[int]bool{}
			for _, s := range strings.Split(*only, ",") {
				if s != "" {
					k, _ := strconv.Atoi(s)
					want[k] = true
				}
			}
			for id := 1; id <= *n; id++ {
				if len(want) == 0 || want[id] {
					evs = append(evs, genEvent(*seed, id))
				}
			}
		} else {
			err := vio.ReadNDJSON(*in, func(i int, line []byte) error {
				var e Ev
				if err := json.Unmarshal(line, &e); err != nil {
					return err
				}
				evs = append(evs, &e)
				return nil
			})
			if err != nil {
				vio.Fatal("%v", err)
			}
		}
		x := newSess()
		w, err := vio.NewWriter(*out)
		if err != nil {
			vio.Fatal("%v", err)
		}
		rep := &vio.Report{Extra: map[string]interface{}{}}
		byEv := map[string]int{}
		for _, e := range evs {
			x.record(e)
			if e.S == nil {
				e.S = []int{}
			}
			if e.Q == nil {
				e.Q = []int{}
			}
			if e.U == nil {
				e.U = []int{}
			}
			if e.NQ == nil {
				e.NQ = []int{}
			}
			if e.NU == nil {
				e.NU = []int{}
			}
			if e.SQL == nil {
				e.SQL = []string{}
			}
			w.Write(e)
			rep.Cases++
			byEv[e.Ev]++
			if len(rep.Samples) < 3 && e.Ev == "rt" && e.ID%7 == 1 {
				rep.Samples = append(rep.Samples, map[string]interface{}{"sql": e.SQL, "texts": e.Txt})
			}
		}
		w.Close()
		rep.Extra["by_event"] = byEv
		rep.Emit()
	default:
		vio.Fatal("unknown mode %q", mode)
	}
}
