package main

// The column catalogue of binding B (one table per column) and the generators of storable values
// (SQL literals).  The driver decides nothing here: it only provides inputs.

import (
	"fmt"
	"math/big"
	"math/rand"
	"strconv"
	"strings"
)

// Ty is the type descriptor of spec/WireFormat.tla.
type Ty struct {
	K    string  `json:"k"`
	Bits int     `json:"bits"`
	Uns  bool    `json:"uns"`
	P    int     `json:"p"`
	S    int     `json:"s"`
	N    int     `json:"n"`
	Cs   string  `json:"cs"`
	Mem  [][]int `json:"mem"`
}

const huge = 2147483647

type Lit struct {
	SQL    string
	Latin1 bool // character value that the latin1 result character set can carry
}

type Col struct {
	DDL  string // the column type as written in CREATE TABLE
	Ty   Ty
	Vals func(r *rand.Rand, n int) []Lit
}

func cps(s string) []int {
	out := []int{}
	for _, r := range s {
		out = append(out, int(r))
	}
	return out
}

func memCps(ms []string) [][]int {
	out := [][]int{}
	for _, m := range ms {
		out = append(out, cps(m))
	}
	return out
}

// quote renders a string as a MySQL string literal.
func quote(s string) string {
	var b strings.Builder
	b.WriteByte('\'')
	for _, r := range s {
		switch r {
		case 0:
			b.WriteString(`\0`)
		case '\'':
			b.WriteString(`''`)
		case '\\':
			b.WriteString(`\\`)
		case '\n':
			b.WriteString(`\n`)
		case '\r':
			b.WriteString(`\r`)
		case 0x1a:
			b.WriteString(`\Z`)
		default:
			b.WriteRune(r)
		}
	}
	b.WriteByte('\'')
	return b.String()
}

func isLatin1(s string) bool {
	for _, r := range s {
		if r > 0xff || (r >= 0x80 && r < 0xa0) {
			return false
		}
	}
	return true
}

func strLit(s string) Lit { return Lit{SQL: quote(s), Latin1: isLatin1(s)} }

func lits(ss ...string) []Lit {
	out := make([]Lit, len(ss))
	for i, s := range ss {
		out[i] = Lit{SQL: s}
	}
	return out
}

// ---- integers

func intRange(bits int, uns bool) (*big.Int, *big.Int) {
	one := big.NewInt(1)
	if uns {
		return big.NewInt(0), new(big.Int).Sub(new(big.Int).Lsh(one, uint(bits)), one)
	}
	h := new(big.Int).Lsh(one, uint(bits-1))
	return new(big.Int).Neg(h), new(big.Int).Sub(h, one)
}

func randBig(r *rand.Rand, lo, hi *big.Int) *big.Int {
	span := new(big.Int).Sub(hi, lo)
	span.Add(span, big.NewInt(1))
	// skew towards short numbers: choose a bit length first
	bl := r.Intn(span.BitLen()) + 1
	x := new(big.Int).Rand(r, new(big.Int).Lsh(big.NewInt(1), uint(bl)))
	x.Mod(x, span)
	return x.Add(x, lo)
}

func intVals(bits int, uns bool) func(*rand.Rand, int) []Lit {
	return func(r *rand.Rand, n int) []Lit {
		lo, hi := intRange(bits, uns)
		set := []*big.Int{lo, hi, big.NewInt(0), big.NewInt(1), new(big.Int).Sub(hi, big.NewInt(1)), new(big.Int).Add(lo, big.NewInt(1))}
		p := big.NewInt(10)
		for p.Cmp(hi) <= 0 {
			set = append(set, new(big.Int).Set(p), new(big.Int).Sub(p, big.NewInt(1)))
			if !uns {
				set = append(set, new(big.Int).Neg(p), new(big.Int).Neg(new(big.Int).Sub(p, big.NewInt(1))))
			}
			p = new(big.Int).Mul(p, big.NewInt(10))
		}
		if !uns {
			set = append(set, big.NewInt(-1))
		}
		for i := 0; i < n; i++ {
			set = append(set, randBig(r, lo, hi))
		}
		out := []Lit{}
		seen := map[string]bool{}
		for _, x := range set {
			if x.Cmp(lo) < 0 || x.Cmp(hi) > 0 || seen[x.String()] {
				continue
			}
			seen[x.String()] = true
			out = append(out, Lit{SQL: x.String()})
		}
		return out
	}
}

func intCol(name string, bits int, uns bool) Col {
	ddl := name
	if uns {
		ddl += " UNSIGNED"
	}
	return Col{DDL: ddl, Ty: Ty{K: "int", Bits: bits, Uns: uns}, Vals: intVals(bits, uns)}
}

// ---- DECIMAL

func digits(r *rand.Rand, n int) string {
	b := make([]byte, n)
	for i := range b {
		b[i] = byte('0' + r.Intn(10))
	}
	return string(b)
}

func decCol(p, s int) Col {
	return Col{DDL: fmt.Sprintf("DECIMAL(%d,%d)", p, s), Ty: Ty{K: "dec", P: p, S: s}, Vals: func(r *rand.Rand, n int) []Lit {
		ni := p - s
		mk := func(neg bool, ip, fp string) string {
			t := ip
			if t == "" {
				t = "0"
			}
			if fp != "" {
				t += "." + fp
			}
			if neg {
				t = "-" + t
			}
			return t
		}
		nines := func(k int) string { return strings.Repeat("9", k) }
		out := []string{"0", mk(false, nines(ni), nines(s)), mk(true, nines(ni), nines(s))}
		if s > 0 {
			tiny := strings.Repeat("0", s-1) + "1"
			out = append(out, mk(false, "", tiny), mk(true, "", tiny), mk(false, "", "5"), mk(true, "", strings.Repeat("0", s-1)+"5"),
				mk(false, "", tiny+"4"), mk(true, "", tiny+"5")) // the last two need rounding
		}
		if ni > 0 {
			out = append(out, "1", "-1", mk(false, "1"+strings.Repeat("0", ni-1), ""), mk(true, "1"+strings.Repeat("0", ni-1), ""))
		}
		for i := 0; i < n; i++ {
			ip, fp := "", ""
			if ni > 0 {
				ip = strings.TrimLeft(digits(r, 1+r.Intn(ni)), "0")
			}
			if s > 0 {
				fp = digits(r, 1+r.Intn(s))
			}
			out = append(out, mk(r.Intn(2) == 0, ip, fp))
		}
		return lits(out...)
	}}
}

// ---- FLOAT / DOUBLE

func floatVals(double bool) func(*rand.Rand, int) []Lit {
	return func(r *rand.Rand, n int) []Lit {
		out := []string{"0", "-0e0", "1", "-1", "1.5", "0.1", "-0.1", "0.5", "1e10", "123456", "1234567", "123456.7", "-1234567.9", "0.0001", "0.00001",
			"16777216", "16777217", "1e15", "1e21", "1e-5", "0.3333333333333333", "2.5e-10", "-9.999999e20", "100", "1e6", "999999", "1e-4"}
		if double {
			out = append(out, "1.7976931348623157e308", "-1.7976931348623157e308", "2.2250738585072014e-308", "5e-324", "-5e-324",
				"123456789012345680000", "9007199254740993", "0.1234567890123456789", "-1.2345678901234567e-300", "1e22", "1e23", "4.35e7")
		} else {
			out = append(out, "3.4028235e38", "-3.4028235e38", "1.17549435e-38", "1e-45", "-1e-45", "3.3e38", "8388608.5", "-0.000012345678", "6.02e23")
		}
		for i := 0; i < n; i++ {
			nd := 1 + r.Intn(17)
			if !double {
				nd = 1 + r.Intn(9)
			}
			m := strings.TrimLeft(digits(r, nd), "0")
			if m == "" {
				m = "7"
			}
			lim := 300
			if !double {
				lim = 36
			}
			e := r.Intn(2*lim) - lim
			if r.Intn(3) == 0 {
				e = r.Intn(12) - 6
			}
			s := m[:1] + "." + m[1:] + "0e" + strconv.Itoa(e)
			if r.Intn(2) == 0 {
				s = "-" + s
			}
			out = append(out, s)
		}
		return lits(out...)
	}
}

// ---- temporal

var dates = []string{"0000-00-00", "1000-01-01", "9999-12-31", "2024-02-29", "2023-02-28", "1970-01-01", "1969-12-31", "0001-01-01", "0999-12-31",
	"2000-02-29", "1900-03-01", "2038-01-19", "1582-10-15"}

func randDate(r *rand.Rand, ylo, yhi int) string {
	return fmt.Sprintf("%04d-%02d-%02d", ylo+r.Intn(yhi-ylo+1), 1+r.Intn(12), 1+r.Intn(28))
}

func randFrac(r *rand.Rand) string {
	switch r.Intn(4) {
	case 0:
		return ""
	case 1:
		return "." + digits(r, 1+r.Intn(6))
	case 2:
		return "." + digits(r, 6) + strconv.Itoa(r.Intn(10)) // a seventh digit: rounding
	}
	return []string{".5", ".999999", ".9999995", ".4999994", ".000001", ".0000005"}[r.Intn(6)]
}

func dateCol() Col {
	return Col{DDL: "DATE", Ty: Ty{K: "date"}, Vals: func(r *rand.Rand, n int) []Lit {
		out := []Lit{}
		for _, d := range dates {
			out = append(out, Lit{SQL: quote(d)})
		}
		for i := 0; i < n; i++ {
			out = append(out, Lit{SQL: quote(randDate(r, 1, 9999))})
		}
		return out
	}}
}

func datetimeCol(kind string, fsp int) Col {
	return Col{DDL: fmt.Sprintf("%s(%d)", strings.ToUpper(kind), fsp), Ty: Ty{K: kind, S: fsp}, Vals: func(r *rand.Rand, n int) []Lit {
		out := []string{"0000-00-00 00:00:00"}
		ds := []string{"1000-01-01", "9999-12-31", "2024-02-29", "1970-01-01", "1969-12-31", "2038-01-19", "2000-02-29", "1582-10-15"}
		if kind == "timestamp" {
			ds = []string{"1970-01-01", "1970-01-02", "2038-01-19", "2038-01-18", "2024-02-29", "2000-01-01"}
		} else {
			out = append(out, "0001-01-01 00:00:00", "0999-12-31 23:59:59.999999") // years below 1000
		}
		ts := []string{"00:00:00", "00:00:01", "23:59:59", "12:34:56.123456", "03:14:07.999999", "23:59:59.9999995", "00:00:00.5", "09:05:07.4999994", "03:14:07"}
		for i, d := range ds {
			for k := 0; k < 3; k++ {
				out = append(out, d+" "+ts[(3*i+k+fsp)%len(ts)])
			}
		}
		for i := 0; i < n; i++ {
			d := randDate(r, 1, 9999)
			if kind == "timestamp" {
				d = randDate(r, 1971, 2037)
			}
			out = append(out, fmt.Sprintf("%s %02d:%02d:%02d%s", d, r.Intn(24), r.Intn(60), r.Intn(60), randFrac(r)))
		}
		res := []Lit{}
		for _, s := range out {
			res = append(res, Lit{SQL: quote(s)})
		}
		return res
	}}
}

func timeCol() Col {
	return Col{DDL: "TIME", Ty: Ty{K: "time"}, Vals: func(r *rand.Rand, n int) []Lit {
		out := []string{"838:59:59", "-838:59:59", "00:00:00", "-00:00:00.5", "00:00:00.000001", "-00:00:00.000001", "23:59:59.999999", "100:00:00", "-100:00:00",
			"99:59:59.9999995", "01:02:03", "-01:02:03.04", "24:00:00", "837:59:59.999999", "00:00:59.9999996", "9:08:07", "00:00:00.1"}
		for i := 0; i < n; i++ {
			s := fmt.Sprintf("%d:%02d:%02d%s", r.Intn(839), r.Intn(60), r.Intn(60), randFrac(r))
			if r.Intn(2) == 0 {
				s = "-" + s
			}
			out = append(out, s)
		}
		res := []Lit{}
		for _, s := range out {
			res = append(res, Lit{SQL: quote(s)})
		}
		return res
	}}
}

func yearCol() Col {
	return Col{DDL: "YEAR", Ty: Ty{K: "year"}, Vals: func(r *rand.Rand, n int) []Lit {
		out := []string{"0", "1901", "2155", "2000", "1999", "'69'", "'70'", "1970", "2024", "'0'", "99", "1"}
		for i := 0; i < n; i++ {
			out = append(out, strconv.Itoa(1901+r.Intn(255)))
		}
		return lits(out...)
	}}
}

func bitCol(nb int) Col {
	return Col{DDL: fmt.Sprintf("BIT(%d)", nb), Ty: Ty{K: "bit", Uns: true, N: nb}, Vals: func(r *rand.Rand, n int) []Lit {
		one := big.NewInt(1)
		max := new(big.Int).Sub(new(big.Int).Lsh(one, uint(nb)), one)
		set := []*big.Int{big.NewInt(0), one, max, new(big.Int).Lsh(one, uint(nb-1)), big.NewInt(255), big.NewInt(256), big.NewInt(10922), big.NewInt(65535)}
		for i := 0; i < n; i++ {
			set = append(set, randBig(r, big.NewInt(0), max))
		}
		out := []Lit{}
		seen := map[string]bool{}
		for _, x := range set {
			if x.Cmp(max) > 0 || seen[x.String()] {
				continue
			}
			seen[x.String()] = true
			out = append(out, Lit{SQL: x.String()})
		}
		return out
	}}
}

// ---- strings

var uniAlphabet = []rune{'a', 'Z', '0', ' ', ',', '\'', '\\', '"', 0, '\n', '\t', 'é', 'ÿ', 'ß', 0x80, 0xa0, '€', 'Ω', 'ж', '中', 0x800, 0xffff, '😀', 0x10ffff, 0x10000, '%', '_'}
var latinAlphabet = []rune{'a', 'Z', '0', ' ', ',', '\'', '\\', '"', 0, '\n', 'é', 'ÿ', 'ß', 0xa0, 0xff, '%'}
var asciiAlphabet = []rune{'a', 'Z', '0', ' ', ',', '\'', '\\', '"', 0, '\n', '\t', '~', 0x7f, '%'}

func randStr(r *rand.Rand, alpha []rune, maxChars int) string {
	n := r.Intn(maxChars + 1)
	if r.Intn(3) == 0 && maxChars > 8 {
		n = r.Intn(8)
	}
	rs := make([]rune, n)
	for i := range rs {
		rs[i] = alpha[r.Intn(len(alpha))]
	}
	return string(rs)
}

// strCol: kind char | varchar | text; n = declared length in characters (text: the byte capacity);
// genMax = longest generated value in characters.
func strCol(ddl, kind string, n int, cs string, genMax int) Col {
	alpha := uniAlphabet
	switch cs {
	case "latin1":
		alpha = latinAlphabet
	case "ascii":
		alpha = asciiAlphabet
	case "utf8mb3":
		alpha = []rune{'a', ' ', ',', '\'', 0, 'é', 'ÿ', '€', '中', 0x800, 0xffff, 'ж'}
	}
	return Col{DDL: ddl, Ty: Ty{K: kind, N: n, Cs: cs}, Vals: func(r *rand.Rand, k int) []Lit {
		out := []string{"", "a", strings.Repeat("x", genMax), " lead", "x\x00y", "it's", `back\slash`, "line\nbreak", "a,b"}
		if kind != "char" {
			out = append(out, "trail ", "  ")
		}
		wide := []rune{'é', 'ÿ'}
		if cs == "utf8mb4" {
			wide = append(wide, '€', '😀', 0x10ffff)
		} else if cs == "utf8mb3" {
			wide = append(wide, '€', 0xffff)
		}
		if cs != "ascii" {
			for _, w := range wide {
				out = append(out, strings.Repeat(string(w), genMax), string(w), "a"+string(w))
			}
		}
		for i := 0; i < k; i++ {
			out = append(out, randStr(r, alpha, genMax))
		}
		res := []Lit{}
		seen := map[string]bool{}
		for _, s := range out {
			if len([]rune(s)) > genMax || seen[s] {
				continue
			}
			seen[s] = true
			res = append(res, strLit(s))
		}
		return res
	}}
}

func hexLit(b []byte) string { return fmt.Sprintf("X'%X'", b) }

func byteCol(ddl, kind string, n, genMax int) Col {
	return Col{DDL: ddl, Ty: Ty{K: kind, N: n, Cs: "binary"}, Vals: func(r *rand.Rand, k int) []Lit {
		out := [][]byte{{}, {0}, {0xff}, {'a'}, {0, 0}, {0x80, 0x81}, {0xc3, 0x28}, {0xfb}, {0xfe, 0xff}}
		full := make([]byte, genMax)
		for i := range full {
			full[i] = 0xff
		}
		out = append(out, full, make([]byte, genMax))
		for i := 0; i < k; i++ {
			b := make([]byte, r.Intn(genMax+1))
			r.Read(b)
			out = append(out, b)
		}
		res := []Lit{}
		for _, b := range out {
			if len(b) > genMax {
				continue
			}
			if len(b) == 0 {
				res = append(res, Lit{SQL: "''"})
			} else {
				res = append(res, Lit{SQL: hexLit(b)})
			}
		}
		return res
	}}
}

func memberDDL(kind string, ms []string, cs string) string {
	q := make([]string, len(ms))
	for i, m := range ms {
		q[i] = quote(m)
	}
	ddl := fmt.Sprintf("%s(%s)", strings.ToUpper(kind), strings.Join(q, ","))
	if cs != "utf8mb4" {
		ddl += " CHARACTER SET " + cs
	}
	return ddl
}

func enumCol(ms []string, cs string) Col {
	return Col{DDL: memberDDL("enum", ms, cs), Ty: Ty{K: "enum", Cs: cs, Mem: memCps(ms)}, Vals: func(r *rand.Rand, n int) []Lit {
		out := []Lit{}
		for i, m := range ms {
			out = append(out, strLit(m))
			if i%3 == 0 {
				out = append(out, Lit{SQL: strconv.Itoa(i + 1), Latin1: isLatin1(m)})
			}
		}
		return out
	}}
}

func setCol(ms []string, cs string) Col {
	return Col{DDL: memberDDL("set", ms, cs), Ty: Ty{K: "set", Cs: cs, Mem: memCps(ms)}, Vals: func(r *rand.Rand, n int) []Lit {
		l1 := true
		for _, m := range ms {
			l1 = l1 && isLatin1(m)
		}
		out := []Lit{{SQL: "''", Latin1: true}, {SQL: quote(strings.Join(ms, ",")), Latin1: l1}}
		for i, m := range ms {
			if i < 6 || i == len(ms)-1 {
				out = append(out, strLit(m))
			}
		}
		for i := 0; i < n; i++ {
			perm := r.Perm(len(ms))
			k := 1 + r.Intn(len(ms))
			if k > 6 {
				k = 1 + r.Intn(6)
			}
			pick := []string{}
			ok := true
			for _, j := range perm[:k] {
				pick = append(pick, ms[j])
				ok = ok && isLatin1(ms[j])
			}
			out = append(out, Lit{SQL: quote(strings.Join(pick, ",")), Latin1: ok}) // scrambled order: the engine normalises
		}
		if len(ms) <= 62 {
			out = append(out, Lit{SQL: new(big.Int).Sub(new(big.Int).Lsh(big.NewInt(1), uint(len(ms))), big.NewInt(1)).String(), Latin1: l1}, Lit{SQL: "1", Latin1: isLatin1(ms[0])})
		}
		return out
	}}
}

// ---- JSON

func randJSON(r *rand.Rand, depth int) string {
	strs := []string{`""`, `"a"`, `"é€😀"`, `"q\"uote"`, `"back\\slash"`, `"line\nbreak"`, `"tab\t"`, `"é€"`, `"😀"`, `"sl/ash"`, `"ctl\u0001"`, `"nul\u0000x"`}
	nums := []string{"0", "1", "-1", "2.5", "-0.125", "1e10", "1.5e-7", "123456789", "9007199254740993", "1e100", "-2.2250738585072014e-308", "3.0", "12345678901234567890", "0.1"}
	k := r.Intn(8)
	if depth >= 3 && k >= 6 {
		k = r.Intn(6)
	}
	switch k {
	case 0:
		return strs[r.Intn(len(strs))]
	case 1, 2:
		return nums[r.Intn(len(nums))]
	case 3:
		return "true"
	case 4:
		return "false"
	case 5:
		return "null"
	case 6:
		n := r.Intn(4)
		el := make([]string, n)
		for i := range el {
			el[i] = randJSON(r, depth+1)
		}
		return "[" + strings.Join(el, ", ") + "]"
	}
	keys := []string{`"a"`, `"b"`, `"bb"`, `"ab"`, `"é"`, `""`, `"k k"`, `"K"`, `"q\"k"`, `"zz9"`}
	r.Shuffle(len(keys), func(i, j int) { keys[i], keys[j] = keys[j], keys[i] })
	n := r.Intn(4)
	el := make([]string, n)
	for i := range el {
		el[i] = keys[i] + ": " + randJSON(r, depth+1)
	}
	return "{" + strings.Join(el, ", ") + "}"
}

func jsonCol() Col {
	return Col{DDL: "JSON", Ty: Ty{K: "json", N: huge}, Vals: func(r *rand.Rand, n int) []Lit {
		out := []string{`{}`, `[]`, `null`, `true`, `false`, `0`, `-1.5`, `"x"`, `""`, `[[]]`, `{"a": {}}`, `[1, [2, [3, [4]]]]`,
			`{"b": [1, 2.5, "x"], "a": null}`, `{"key": "é€😀", "k2": [true, false, null]}`, `[1e10, 1.5e-7, 123456789012]`,
			`{"a": "q\"uote", "b": "back\\slash", "c": "line\nbreak\ttab"}`, `"é😀"`, `{"": 1, " ": 2}`, `[9007199254740993, -9223372036854775808, 18446744073709551615]`}
		for i := 0; i < n; i++ {
			out = append(out, randJSON(r, 0))
		}
		res := []Lit{}
		for _, s := range out {
			res = append(res, Lit{SQL: quote(s)})
		}
		return res
	}}
}

// ---- the catalogue

func catalogue(thorough bool) []Col {
	cs := []Col{}
	for _, w := range []struct {
		name string
		bits int
	}{{"TINYINT", 8}, {"SMALLINT", 16}, {"MEDIUMINT", 24}, {"INT", 32}, {"BIGINT", 64}} {
		cs = append(cs, intCol(w.name, w.bits, false), intCol(w.name, w.bits, true))
	}
	cs = append(cs, Col{DDL: "BOOLEAN", Ty: Ty{K: "int", Bits: 8}, Vals: func(*rand.Rand, int) []Lit { return lits("TRUE", "FALSE", "0", "1", "-128", "127") }})
	for _, ps := range [][2]int{{10, 3}, {3, 1}, {2, 2}, {5, 0}, {65, 30}, {30, 30}, {38, 10}, {1, 0}, {65, 0}, {18, 9}} {
		cs = append(cs, decCol(ps[0], ps[1]))
	}
	cs = append(cs, Col{DDL: "FLOAT", Ty: Ty{K: "float"}, Vals: floatVals(false)}, Col{DDL: "DOUBLE", Ty: Ty{K: "double"}, Vals: floatVals(true)})
	cs = append(cs, dateCol(), timeCol(), yearCol())
	for f := 0; f <= 6; f++ {
		cs = append(cs, datetimeCol("datetime", f), datetimeCol("timestamp", f))
	}
	for _, n := range []int{1, 7, 8, 9, 12, 16, 33, 63, 64} {
		cs = append(cs, bitCol(n))
	}
	cs = append(cs,
		strCol("CHAR(1)", "char", 1, "utf8mb4", 1), strCol("CHAR(10)", "char", 10, "utf8mb4", 10), strCol("CHAR(255)", "char", 255, "utf8mb4", 255),
		strCol("VARCHAR(3)", "varchar", 3, "utf8mb4", 3), strCol("VARCHAR(50)", "varchar", 50, "utf8mb4", 50), strCol("VARCHAR(255)", "varchar", 255, "utf8mb4", 255),
		strCol("VARCHAR(20) COLLATE utf8mb4_0900_bin", "varchar", 20, "utf8mb4", 20), strCol("VARCHAR(20) COLLATE utf8mb4_general_ci", "varchar", 20, "utf8mb4", 20),
		strCol("CHAR(5) CHARACTER SET latin1", "char", 5, "latin1", 5), strCol("VARCHAR(20) CHARACTER SET latin1", "varchar", 20, "latin1", 20),
		strCol("VARCHAR(10) CHARACTER SET ascii", "varchar", 10, "ascii", 10), strCol("VARCHAR(10) CHARACTER SET utf8mb3", "varchar", 10, "utf8mb3", 10),
		strCol("TINYTEXT", "text", 255, "utf8mb4", 63), strCol("TEXT", "text", 65535, "utf8mb4", 300), strCol("MEDIUMTEXT", "text", 16777215, "utf8mb4", 120),
		strCol("LONGTEXT", "text", huge, "utf8mb4", 120), strCol("TEXT CHARACTER SET latin1", "text", 65535, "latin1", 260),
		byteCol("BINARY(1)", "binary", 1, 1), byteCol("BINARY(8)", "binary", 8, 8), byteCol("VARBINARY(5)", "varbinary", 5, 5), byteCol("VARBINARY(300)", "varbinary", 300, 300),
		byteCol("TINYBLOB", "blob", 255, 255), byteCol("BLOB", "blob", 65535, 400), byteCol("MEDIUMBLOB", "blob", 16777215, 100), byteCol("LONGBLOB", "blob", huge, 100),
		enumCol([]string{"a", "bé", "€x", "a longer member name", "B", "x y"}, "utf8mb4"), enumCol([]string{"one", "dé", "ÿ", "ééé"}, "latin1"),
		setCol([]string{"p", "q", "r"}, "utf8mb4"), setCol([]string{"a", "bé", "€x", "ab", "B b", "zz", "y", "0"}, "utf8mb4"), setCol([]string{"one", "dé", "ÿ"}, "latin1"),
		jsonCol(),
	)
	m64 := make([]string, 64)
	for i := range m64 {
		m64[i] = fmt.Sprintf("m%d", i+1)
	}
	cs = append(cs, setCol(m64, "utf8mb4"))
	if thorough {
		cs = append(cs, strCol("TEXT", "text", 65535, "utf8mb4", 2500), byteCol("BLOB", "blob", 65535, 3000), strCol("VARCHAR(2000)", "varchar", 2000, "utf8mb4", 2000),
			decCol(65, 1), decCol(20, 20), decCol(9, 4), bitCol(2), bitCol(24), bitCol(32), bitCol(40), bitCol(56))
	}
	return cs
}
