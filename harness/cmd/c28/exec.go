package main

// Binding B: store values, read them back (a) from the engine directly = the stored value, projected
// without any formatting, (b) through the real TCP server in the text protocol and (c) through a
// prepared statement (binary protocol).  One ndjson event per value; TLC judges (spec/Trace_Wire.tla).

import (
	"context"
	"encoding/binary"
	"fmt"
	"math"
	"math/rand"
	"sort"
	"strconv"
	"time"

	"github.com/cockroachdb/apd/v3"

	"github.com/dolthub/go-mysql-server/memory"
	"github.com/dolthub/go-mysql-server/sql"
	"github.com/dolthub/go-mysql-server/sql/types"

	"gmsverif/lib/vio"
)

type Field struct {
	Len   int `json:"len"` // announced length, capped at 2147483647 (TLC integers); comparisons with text lengths are unaffected
	Type  int `json:"type"`
	Flags int `json:"flags"`
	Dec   int `json:"dec"`
	Cs    int `json:"cs"`
}

type Event struct {
	Ev    string                 `json:"ev"`
	ID    int                    `json:"id"`
	Col   int                    `json:"col"`
	First bool                   `json:"first"`
	DDL   string                 `json:"ddl"`
	Lit   string                 `json:"lit"`
	Sess  string                 `json:"sess"` // utf8mb4 | latin1: the session's character_set_results
	Ty    Ty                     `json:"ty"`
	St    map[string]interface{} `json:"st"`
	Tf    Field                  `json:"tf"`
	Bf    Field                  `json:"bf"`
	Trow  []int                  `json:"trow"`
	Brow  []int                  `json:"brow"`
	Terr  string                 `json:"terr"`
	Berr  string                 `json:"berr"`
	Back  string                 `json:"back"` // eq | ne | err | skip: Type.Convert(text) compared with the stored value by the engine itself
}

func ints(b []byte) []int {
	out := make([]int, len(b))
	for i, x := range b {
		out[i] = int(x)
	}
	return out
}

func field(f FieldDef) Field {
	l := int64(f.Length)
	if l > huge {
		l = huge
	}
	return Field{Len: int(l), Type: f.Type, Flags: f.Flags, Dec: f.Decimals, Cs: f.Charset}
}

// ---- projection of the engine's Go values (no decimal or text formatting of numbers here)

func be64(u uint64) []int {
	var b [8]byte
	binary.BigEndian.PutUint64(b[:], u)
	return ints(b[:])
}

func jsonLeaves(v interface{}, path [][]int, out *[]map[string]interface{}) error {
	leaf := func(l []int) {
		p := make([][]int, len(path))
		copy(p, path)
		*out = append(*out, map[string]interface{}{"p": p, "l": l})
	}
	num := func(s string) { leaf(append([]int{1}, ints([]byte(s))...)) }
	switch x := v.(type) {
	case nil:
		leaf([]int{4})
	case bool:
		if x {
			leaf([]int{2})
		} else {
			leaf([]int{3})
		}
	case string:
		leaf(append([]int{0}, cps(x)...))
	case float64:
		num(strconv.FormatFloat(x, 'g', -1, 64))
	case float32:
		num(strconv.FormatFloat(float64(x), 'g', -1, 32))
	case int64:
		num(strconv.FormatInt(x, 10))
	case int:
		num(strconv.Itoa(x))
	case int32:
		num(strconv.FormatInt(int64(x), 10))
	case uint64:
		num(strconv.FormatUint(x, 10))
	case fmt.Stringer: // decimal, json.Number
		num(x.String())
	case map[string]interface{}:
		if len(x) == 0 {
			leaf([]int{5})
		}
		keys := make([]string, 0, len(x))
		for k := range x {
			keys = append(keys, k)
		}
		sort.Strings(keys)
		for _, k := range keys {
			if err := jsonLeaves(x[k], append(path, append([]int{0}, cps(k)...)), out); err != nil {
				return err
			}
		}
	case []interface{}:
		if len(x) == 0 {
			leaf([]int{6})
		}
		for i, e := range x {
			if err := jsonLeaves(e, append(path, []int{1, i}), out); err != nil {
				return err
			}
		}
	default:
		return fmt.Errorf("json value of type %T", v)
	}
	return nil
}

func project(ctx *sql.Context, v interface{}, ty Ty) (map[string]interface{}, error) {
	if v == nil {
		return map[string]interface{}{"t": "n"}, nil
	}
	if ty.K == "json" {
		w, ok := v.(sql.JSONWrapper)
		if !ok {
			return nil, fmt.Errorf("json column holds %T", v)
		}
		doc, err := w.ToInterface(ctx)
		if err != nil {
			return nil, err
		}
		leaves := []map[string]interface{}{}
		if err := jsonLeaves(doc, nil, &leaves); err != nil {
			return nil, err
		}
		return map[string]interface{}{"t": "j", "leaves": leaves}, nil
	}
	v, err := sql.UnwrapAny(ctx, v)
	if err != nil {
		return nil, err
	}
	si := func(x int64) map[string]interface{} {
		return map[string]interface{}{"t": "i", "be": be64(uint64(x)), "sg": true}
	}
	ui := func(x uint64) map[string]interface{} {
		return map[string]interface{}{"t": "i", "be": be64(x), "sg": false}
	}
	switch x := v.(type) {
	case int8:
		return si(int64(x)), nil
	case int16:
		return si(int64(x)), nil
	case int32:
		return si(int64(x)), nil
	case int64:
		return si(x), nil
	case int:
		return si(int64(x)), nil
	case bool:
		if x {
			return si(1), nil
		}
		return si(0), nil
	case uint8:
		return ui(uint64(x)), nil
	case uint16:
		if ty.K == "enum" {
			return map[string]interface{}{"t": "e", "i": int(x)}, nil
		}
		return ui(uint64(x)), nil
	case uint32:
		return ui(uint64(x)), nil
	case uint64:
		if ty.K == "set" {
			m := []int{}
			for i := 0; i < 64; i++ {
				if x&(1<<uint(i)) != 0 {
					m = append(m, i+1)
				}
			}
			return map[string]interface{}{"t": "m", "m": m}, nil
		}
		return ui(x), nil
	case float32:
		var b [4]byte
		binary.LittleEndian.PutUint32(b[:], math.Float32bits(x))
		return map[string]interface{}{"t": "f", "repr": ints([]byte(strconv.FormatFloat(float64(x), 'e', -1, 32))), "bits": ints(b[:])}, nil
	case float64:
		var b [8]byte
		binary.LittleEndian.PutUint64(b[:], math.Float64bits(x))
		bits := 64
		if ty.K == "float" {
			bits = 32
			binary.LittleEndian.PutUint32(b[:], math.Float32bits(float32(x)))
			return map[string]interface{}{"t": "f", "repr": ints([]byte(strconv.FormatFloat(x, 'e', -1, bits))), "bits": ints(b[:4])}, nil
		}
		return map[string]interface{}{"t": "f", "repr": ints([]byte(strconv.FormatFloat(x, 'e', -1, bits))), "bits": ints(b[:])}, nil
	case *apd.Decimal:
		return decProj(x)
	case apd.Decimal:
		return decProj(&x)
	case string:
		if ty.K == "binary" || ty.K == "varbinary" || ty.K == "blob" {
			return map[string]interface{}{"t": "b", "b": ints([]byte(x))}, nil
		}
		return map[string]interface{}{"t": "s", "u8": ints([]byte(x))}, nil
	case []byte:
		if ty.K == "char" || ty.K == "varchar" || ty.K == "text" {
			return map[string]interface{}{"t": "s", "u8": ints(x)}, nil
		}
		return map[string]interface{}{"t": "b", "b": ints(x)}, nil
	case time.Time:
		return map[string]interface{}{"t": "t", "y": x.Year(), "mo": int(x.Month()), "d": x.Day(), "h": x.Hour(), "mi": x.Minute(), "s": x.Second(), "us": x.Nanosecond() / 1000}, nil
	case types.Timespan:
		us := x.AsMicroseconds()
		neg := us < 0
		if neg {
			us = -us
		}
		return map[string]interface{}{"t": "ts", "neg": neg, "secs": int(us / 1000000), "us": int(us % 1000000)}, nil
	}
	return nil, fmt.Errorf("stored value of type %T", v)
}

func decProj(d *apd.Decimal) (map[string]interface{}, error) {
	if d.Form != apd.Finite {
		return nil, fmt.Errorf("non-finite decimal")
	}
	var mag apd.BigInt
	mag.Abs(&d.Coeff)
	return map[string]interface{}{"t": "d", "neg": d.Negative, "cb": ints(mag.Bytes()), "exp": int(d.Exponent)}, nil
}

// ---- the run

type valCase struct {
	ID  int
	Col int
	Lit Lit
}

type runner struct {
	f     *fixture
	cols  []Col
	wU    *wireConn // character_set_results = utf8mb4
	wL    *wireConn // character_set_results = latin1
	ectx  *sql.Context
	rep   *vio.Report
	perK  map[string]int
	rejK  map[string]int
	backs map[string]int
	lost  int
}

func (r *runner) engCtx() *sql.Context {
	base := sql.NewBaseSessionWithClientServer("srv", sql.Client{User: "root", Address: "localhost"}, 7)
	s := memory.NewSession(base, r.f.pro)
	s.SetCurrentDatabase("d")
	ctx := sql.NewContext(context.Background(), sql.WithSession(s))
	ctx.SetCurrentDatabase("d")
	return ctx
}

func (r *runner) engRows(q string) (sql.Schema, []sql.Row, error) {
	ctx := r.engCtx()
	sch, iter, _, err := r.f.eng.Query(ctx, q)
	if err != nil {
		return nil, nil, err
	}
	rows, err := sql.RowIterToRows(ctx, iter)
	return sch, rows, err
}

func newRunner(cols []Col) *runner {
	r := &runner{f: newFixture(), cols: cols, rep: &vio.Report{Extra: map[string]interface{}{}}, perK: map[string]int{}, rejK: map[string]int{}, backs: map[string]int{}}
	var err error
	if r.wU, err = dial(r.f.addr, "d", collUtf8mb4Gen); err != nil {
		vio.Fatal("dial: %v", err)
	}
	if r.wL, err = dial(r.f.addr, "d", collUtf8mb4Gen); err != nil {
		vio.Fatal("dial: %v", err)
	}
	if _, _, err = r.wU.Query("SET NAMES utf8mb4"); err != nil {
		vio.Fatal("set names: %v", err)
	}
	if _, _, err = r.wL.Query("SET character_set_results = latin1"); err != nil {
		vio.Fatal("set character_set_results: %v", err)
	}
	return r
}

func kindLabel(ty Ty) string {
	switch ty.K {
	case "int":
		if ty.Uns {
			return fmt.Sprintf("uint%d", ty.Bits)
		}
		return fmt.Sprintf("int%d", ty.Bits)
	case "datetime", "timestamp":
		return fmt.Sprintf("%s(%d)", ty.K, ty.S)
	}
	return ty.K
}

// one value through one session: both protocols
func (r *runner) redial(sess string) *wireConn {
	w, err := dial(r.f.addr, "d", collUtf8mb4Gen)
	if err != nil {
		vio.Fatal("redial: %v", err)
	}
	q := "SET NAMES utf8mb4"
	if sess == "latin1" {
		q = "SET character_set_results = latin1"
	}
	if _, _, err = w.Query(q); err != nil {
		vio.Fatal("%s: %v", q, err)
	}
	if sess == "latin1" {
		r.wL = w
	} else {
		r.wU = w
	}
	r.lost++
	return w
}

func (r *runner) observe(w *wireConn, ev *Event) {
	q := fmt.Sprintf("SELECT c FROM t%d WHERE id = %d", ev.Col, ev.ID)
	ev.Trow, ev.Brow = []int{}, []int{}
	fs, rows, err := w.Query(q)
	if _, ok := err.(*wireError); err != nil && !ok { // the server dropped the connection: an outcome of this value
		err = fmt.Errorf("connection lost: %v", err)
		w.Close()
		w = r.redial(ev.Sess)
	}
	switch {
	case err != nil:
		ev.Terr = err.Error()
	case len(fs) != 1 || len(rows) != 1:
		ev.Terr = fmt.Sprintf("text result has %d columns, %d rows", len(fs), len(rows))
	default:
		ev.Tf, ev.Trow = field(fs[0]), ints(rows[0])
	}
	fs, rows, err = w.Prepared(q)
	if _, ok := err.(*wireError); err != nil && !ok {
		err = fmt.Errorf("connection lost: %v", err)
		w.Close()
		r.redial(ev.Sess)
	}
	switch {
	case err != nil:
		ev.Berr = err.Error()
	case len(fs) != 1 || len(rows) != 1:
		ev.Berr = fmt.Sprintf("binary result has %d columns, %d rows", len(fs), len(rows))
	default:
		ev.Bf, ev.Brow = field(fs[0]), ints(rows[0])
	}
}

// textOf cuts the single length-encoded string out of a text row (framing only; for `back`)
func textOf(row []int) ([]byte, bool) {
	b := make([]byte, len(row))
	for i, x := range row {
		b[i] = byte(x)
	}
	if len(b) == 1 && b[0] == 0xfb {
		return nil, false
	}
	n, pos, ok := lenenc(b, 0)
	if !ok || pos+int(n) != len(b) {
		return nil, false
	}
	return b[pos:], true
}

func (r *runner) back(colType sql.Type, ty Ty, ev *Event, stored interface{}) (res string) {
	defer func() {
		if recover() != nil {
			res = "err"
		}
	}()
	if stored == nil || ty.K == "bit" || ty.K == "json" || ev.Terr != "" {
		return "skip"
	}
	txt, ok := textOf(ev.Trow)
	if !ok {
		return "skip"
	}
	ctx := r.engCtx()
	var in interface{} = string(txt)
	if ty.K == "binary" || ty.K == "varbinary" || ty.K == "blob" {
		in = txt
	}
	conv, _, err := colType.Convert(ctx, in)
	if err != nil {
		return "err"
	}
	c, err := colType.Compare(ctx, conv, stored)
	if err != nil {
		return "err"
	}
	if c == 0 {
		return "eq"
	}
	return "ne"
}

func runExec(seed int64, n int, thorough bool, only map[int]bool, out string) {
	cols := catalogue(thorough)
	r := newRunner(cols)
	w, err := vio.NewWriter(out)
	if err != nil {
		vio.Fatal("%v", err)
	}
	id := 0
	nontrivial := 0
	for ci, col := range cols {
		rng := rand.New(rand.NewSource(seed*1000003 + int64(ci)))
		vals := append([]Lit{{SQL: "NULL", Latin1: true}}, col.Vals(rng, n)...)
		cases := []valCase{}
		for _, l := range vals {
			id++
			if only != nil && !only[id] {
				continue
			}
			cases = append(cases, valCase{ID: id, Col: ci, Lit: l})
		}
		if len(cases) == 0 {
			continue
		}
		if _, _, err := r.wU.Query(fmt.Sprintf("CREATE TABLE t%d (id INT PRIMARY KEY, c %s)", ci, col.DDL)); err != nil {
			vio.Fatal("create table for %s: %v", col.DDL, err)
		}
		label := kindLabel(col.Ty)
		stored := map[int]bool{}
		for _, c := range cases {
			if _, _, err := r.wU.Query(fmt.Sprintf("INSERT INTO t%d VALUES (%d, %s)", ci, c.ID, c.Lit.SQL)); err != nil {
				r.rejK[label]++
				continue
			}
			stored[c.ID] = true
		}
		sch, rows, err := r.engRows(fmt.Sprintf("SELECT id, c FROM t%d ORDER BY id", ci))
		if err != nil {
			vio.Fatal("reading t%d from the engine: %v", ci, err)
		}
		byID := map[int]interface{}{}
		for _, row := range rows {
			k, _ := strconv.Atoi(fmt.Sprint(row[0]))
			byID[k] = row[1]
		}
		first := true
		seenLit := map[string]bool{}
		for _, c := range cases {
			if !stored[c.ID] {
				continue
			}
			sv, ok := byID[c.ID]
			if !ok {
				vio.Fatal("row %d of %s not found in the engine", c.ID, col.DDL)
			}
			st, err := project(r.engCtx(), sv, col.Ty)
			if err != nil {
				vio.Fatal("projecting the stored value of %s (%s): %v", col.DDL, c.Lit.SQL, err)
			}
			lit := c.Lit.SQL
			if len(lit) > 200 {
				lit = lit[:200] + "..."
			}
			sessions := []string{"utf8mb4"}
			isChar := col.Ty.K == "char" || col.Ty.K == "varchar" || col.Ty.K == "text" || col.Ty.K == "enum" || col.Ty.K == "set"
			if isChar && c.Lit.Latin1 {
				sessions = append(sessions, "latin1")
			}
			for _, s := range sessions {
				ev := Event{Ev: "val", ID: c.ID, Col: ci, First: first, DDL: col.DDL, Lit: lit, Sess: s, Ty: col.Ty, St: st}
				if ev.Ty.Mem == nil {
					ev.Ty.Mem = [][]int{}
				}
				if s == "utf8mb4" {
					r.observe(r.wU, &ev)
					ev.Back = r.back(sch[1].Type, col.Ty, &ev, sv)
				} else {
					r.observe(r.wL, &ev)
					ev.Back = "skip"
				}
				r.backs[ev.Back]++
				w.Write(ev)
				first = false
				r.perK[label]++
				r.rep.Cases++
				if sv != nil && s == "utf8mb4" && !seenLit[c.Lit.SQL] { // distinct non-NULL values of this column
					seenLit[c.Lit.SQL] = true
					nontrivial++
				}
				if len(r.rep.Samples) < 4 && sv != nil && r.rep.Cases%97 == 3 {
					r.rep.Samples = append(r.rep.Samples, map[string]interface{}{"column": col.DDL, "literal": lit, "text_row": ev.Trow, "binary_row": ev.Brow})
				}
			}
		}
	}
	if err := w.Close(); err != nil {
		vio.Fatal("%v", err)
	}
	r.rep.Nontrivial = nontrivial
	r.rep.Extra["values_per_type"] = r.perK
	r.rep.Extra["rejected_by_engine_per_type"] = r.rejK
	r.rep.Extra["columns"] = len(cols)
	r.rep.Extra["back"] = r.backs
	r.rep.Extra["connections_lost"] = r.lost
	r.rep.Emit()
}
