package main

// Binding A: TLC's Format is the expectation, the engine's wire text must equal it byte for byte.

import (
	"encoding/json"
	"fmt"
	"math/big"
	"strings"

	"gmsverif/lib/vio"
)

type ACase struct {
	Ty   Ty              `json:"ty"`
	V    json.RawMessage `json:"v"`
	Rcs  string          `json:"rcs"`
	Text []int           `json:"text"`
}

type aInt struct {
	Neg bool  `json:"neg"`
	D   []int `json:"d"`
}

func digitStr(d []int) string {
	var b strings.Builder
	for _, x := range d {
		b.WriteByte(byte('0' + x))
	}
	return b.String()
}

func runes(cp []int) string {
	rs := make([]rune, len(cp))
	for i, c := range cp {
		rs[i] = rune(c)
	}
	return string(rs)
}

// ddlOf renders the column type of a specification type descriptor.
func ddlOf(ty Ty) (string, error) {
	cs := ""
	if ty.Cs != "" && ty.Cs != "utf8mb4" && ty.Cs != "binary" {
		cs = " CHARACTER SET " + ty.Cs
	}
	switch ty.K {
	case "int":
		name := map[int]string{8: "TINYINT", 16: "SMALLINT", 24: "MEDIUMINT", 32: "INT", 64: "BIGINT"}[ty.Bits]
		if ty.Uns {
			name += " UNSIGNED"
		}
		return name, nil
	case "year":
		return "YEAR", nil
	case "bit":
		return fmt.Sprintf("BIT(%d)", ty.N), nil
	case "dec":
		return fmt.Sprintf("DECIMAL(%d,%d)", ty.P, ty.S), nil
	case "date":
		return "DATE", nil
	case "time":
		return "TIME", nil
	case "datetime", "timestamp":
		return fmt.Sprintf("%s(%d)", strings.ToUpper(ty.K), ty.S), nil
	case "char", "varchar", "binary", "varbinary":
		return fmt.Sprintf("%s(%d)%s", strings.ToUpper(ty.K), ty.N, cs), nil
	case "text":
		if ty.N == 255 {
			return "TINYTEXT" + cs, nil
		}
		return "TEXT" + cs, nil
	case "blob":
		if ty.N == 255 {
			return "TINYBLOB", nil
		}
		return "BLOB", nil
	case "enum", "set":
		ms := make([]string, len(ty.Mem))
		for i, m := range ty.Mem {
			ms[i] = runes(m)
		}
		return memberDDL(ty.K, ms, ty.Cs), nil
	}
	return "", fmt.Errorf("no DDL for kind %s", ty.K)
}

// literalOf renders the abstract value as an SQL literal (never the expected text itself for the
// types whose text is computed: sets and enums are given by number, bits as an integer).
func literalOf(ty Ty, raw json.RawMessage) (string, error) {
	switch ty.K {
	case "int", "year", "bit":
		var v aInt
		if err := json.Unmarshal(raw, &v); err != nil {
			return "", err
		}
		s := digitStr(v.D)
		if v.Neg {
			s = "-" + s
		}
		return s, nil
	case "dec":
		var v struct {
			Neg bool  `json:"neg"`
			Ip  []int `json:"ip"`
			Fp  []int `json:"fp"`
		}
		if err := json.Unmarshal(raw, &v); err != nil {
			return "", err
		}
		s := digitStr(v.Ip)
		if len(v.Fp) > 0 {
			s += "." + digitStr(v.Fp)
		}
		if v.Neg {
			s = "-" + s
		}
		return s, nil
	case "date", "datetime", "timestamp":
		var v struct{ Y, Mo, D, H, Mi, S, Us int }
		if err := json.Unmarshal(raw, &v); err != nil {
			return "", err
		}
		if ty.K == "date" {
			return fmt.Sprintf("'%04d-%02d-%02d'", v.Y, v.Mo, v.D), nil
		}
		return fmt.Sprintf("'%04d-%02d-%02d %02d:%02d:%02d.%06d'", v.Y, v.Mo, v.D, v.H, v.Mi, v.S, v.Us), nil
	case "time":
		var v struct {
			Neg          bool
			H, Mi, S, Us int
		}
		if err := json.Unmarshal(raw, &v); err != nil {
			return "", err
		}
		sign := ""
		if v.Neg {
			sign = "-"
		}
		return fmt.Sprintf("'%s%02d:%02d:%02d.%06d'", sign, v.H, v.Mi, v.S, v.Us), nil
	case "char", "varchar", "text":
		var v struct{ Cp []int }
		if err := json.Unmarshal(raw, &v); err != nil {
			return "", err
		}
		return quote(runes(v.Cp)), nil
	case "binary", "varbinary", "blob":
		var v struct{ B []int }
		if err := json.Unmarshal(raw, &v); err != nil {
			return "", err
		}
		if len(v.B) == 0 {
			return "''", nil
		}
		b := make([]byte, len(v.B))
		for i, x := range v.B {
			b[i] = byte(x)
		}
		return hexLit(b), nil
	case "enum":
		var v struct{ I int }
		if err := json.Unmarshal(raw, &v); err != nil {
			return "", err
		}
		return fmt.Sprint(v.I), nil
	case "set":
		var v struct{ M []int }
		if err := json.Unmarshal(raw, &v); err != nil {
			return "", err
		}
		mask := new(big.Int)
		for _, i := range v.M {
			mask.SetBit(mask, i-1, 1)
		}
		return mask.String(), nil
	}
	return "", fmt.Errorf("no literal for kind %s", ty.K)
}

func runReplay(in string, only map[int]bool) {
	f := newFixture()
	conns := map[string]*wireConn{}
	for _, cs := range []string{"utf8mb4", "latin1"} {
		w, err := dial(f.addr, "d", collUtf8mb4Gen)
		if err != nil {
			vio.Fatal("dial: %v", err)
		}
		if _, _, err := w.Query("SET character_set_results = " + cs); err != nil {
			vio.Fatal("%v", err)
		}
		conns[cs] = w
	}
	rep := &vio.Report{Extra: map[string]interface{}{}}
	tables := map[string]int{}
	perK, notStorable := map[string]int{}, map[string]int{}
	err := vio.ReadNDJSON(in, func(i int, line []byte) error {
		if only != nil && !only[i] {
			return nil
		}
		var c ACase
		if err := json.Unmarshal(line, &c); err != nil {
			return err
		}
		ddl, err := ddlOf(c.Ty)
		if err != nil {
			return err
		}
		lit, err := literalOf(c.Ty, c.V)
		if err != nil {
			return err
		}
		w := conns["utf8mb4"]
		t, ok := tables[ddl]
		if !ok {
			t = len(tables)
			tables[ddl] = t
			if _, _, err := w.Query(fmt.Sprintf("CREATE TABLE a%d (id INT PRIMARY KEY, c %s)", t, ddl)); err != nil {
				return fmt.Errorf("create %s: %v", ddl, err)
			}
		}
		label := kindLabel(c.Ty)
		if _, _, err := w.Query(fmt.Sprintf("INSERT INTO a%d VALUES (%d, %s)", t, i, lit)); err != nil {
			notStorable[label]++ // the engine does not store this value of the specification's value space: no claim
			return nil
		}
		rep.Cases++
		perK[label]++
		input := map[string]interface{}{"i": i, "ddl": ddl, "literal": lit, "rcs": c.Rcs, "case": json.RawMessage(append([]byte(nil), line...))}
		_, rows, err := conns[c.Rcs].Query(fmt.Sprintf("SELECT c FROM a%d WHERE id = %d", t, i))
		if _, _, derr := w.Query(fmt.Sprintf("DELETE FROM a%d WHERE id = %d", t, i)); derr != nil { // keep the tables small
			vio.Fatal("delete: %v", derr)
		}
		if _, isSrv := err.(*wireError); err != nil && !isSrv {
			vio.Fatal("connection lost: %v", err)
		}
		cls := ""
		if c.Ty.K == "date" || c.Ty.K == "datetime" || c.Ty.K == "timestamp" {
			var dv struct{ Y int }
			if json.Unmarshal(c.V, &dv) == nil && dv.Y > 0 && dv.Y < 1000 {
				cls = "year<1000"
			}
		}
		sig := fmt.Sprintf("C28|A|%s|%s|", label, cls)
		if err != nil || len(rows) != 1 {
			rep.Mismatches = append(rep.Mismatches, vio.Mismatch{Case: i, Signature: sig + "error", Expected: c.Text, Got: fmt.Sprint(err, len(rows)), Input: input})
			return nil
		}
		txt, ok := textOf(ints(rows[0]))
		if !ok {
			rep.Mismatches = append(rep.Mismatches, vio.Mismatch{Case: i, Signature: sig + "null-or-frame", Expected: c.Text, Got: ints(rows[0]), Input: input})
			return nil
		}
		same := len(txt) == len(c.Text)
		for k := 0; same && k < len(txt); k++ {
			same = int(txt[k]) == c.Text[k]
		}
		if !same {
			rep.Mismatches = append(rep.Mismatches, vio.Mismatch{Case: i, Signature: sig + "text", Expected: c.Text, Got: ints(txt), Input: input})
		} else if len(c.Text) > 0 {
			rep.Nontrivial++
		}
		if len(rep.Samples) < 3 && i%211 == 7 {
			rep.Samples = append(rep.Samples, map[string]interface{}{"column": ddl, "literal": lit, "expected_text": string(txt)})
		}
		return nil
	})
	if err != nil {
		vio.Fatal("replay: %v", err)
	}
	rep.Extra["values_per_type"] = perK
	rep.Extra["not_storable_per_type"] = notStorable
	rep.Emit()
}
