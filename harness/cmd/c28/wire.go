package main

// A minimal MySQL client that keeps the RAW packets: handshake (protocol 41, empty password),
// COM_QUERY (text protocol), COM_STMT_PREPARE / COM_STMT_EXECUTE / COM_STMT_CLOSE (binary protocol).
// It only frames: packets are split at their 4-byte headers and the column-definition packet is cut
// into its fields; row packets are handed on byte for byte (TLC decodes them).

import (
	"bufio"
	"encoding/binary"
	"fmt"
	"io"
	"net"
	"time"
)

type wireConn struct {
	c   net.Conn
	r   *bufio.Reader
	seq byte
}

// FieldDef is one column-definition packet (Protocol::ColumnDefinition41) cut into its fields.
type FieldDef struct {
	Name     string
	Charset  int    // collation id announced
	Length   uint32 // announced maximum length
	Type     int    // MySQL type byte
	Flags    int
	Decimals int
}

type wireError struct {
	Code int
	Msg  string
}

func (e *wireError) Error() string { return fmt.Sprintf("server error %d: %s", e.Code, e.Msg) }

const (
	capLongPassword   = 1
	capLongFlag       = 4
	capConnectWithDB  = 8
	capProtocol41     = 0x200
	capTransactions   = 0x2000
	capSecureConn     = 0x8000
	capPluginAuth     = 0x80000
	capMultiResults   = 0x20000
	comQuery          = 0x03
	comStmtPrepare    = 0x16
	comStmtExecute    = 0x17
	comStmtClose      = 0x19
	collUtf8mb4Gen    = 45
	defaultReadWindow = 60 * time.Second
)

func (w *wireConn) readPacket() ([]byte, error) {
	var out []byte
	for {
		w.c.SetReadDeadline(time.Now().Add(defaultReadWindow))
		var h [4]byte
		if _, err := io.ReadFull(w.r, h[:]); err != nil {
			return nil, err
		}
		n := int(h[0]) | int(h[1])<<8 | int(h[2])<<16
		w.seq = h[3] + 1
		b := make([]byte, n)
		if _, err := io.ReadFull(w.r, b); err != nil {
			return nil, err
		}
		out = append(out, b...)
		if n < 0xffffff {
			return out, nil
		}
	}
}

func (w *wireConn) writePacket(b []byte) error {
	for {
		n := len(b)
		if n > 0xffffff {
			n = 0xffffff
		}
		h := []byte{byte(n), byte(n >> 8), byte(n >> 16), w.seq}
		w.seq++
		if _, err := w.c.Write(append(h, b[:n]...)); err != nil {
			return err
		}
		b = b[n:]
		if n < 0xffffff {
			return nil
		}
	}
}

func (w *wireConn) command(cmd byte, arg []byte) error {
	w.seq = 0
	return w.writePacket(append([]byte{cmd}, arg...))
}

func dial(addr, db string, collation byte) (*wireConn, error) {
	c, err := net.DialTimeout("tcp", addr, 10*time.Second)
	if err != nil {
		return nil, err
	}
	w := &wireConn{c: c, r: bufio.NewReaderSize(c, 1<<16)}
	hs, err := w.readPacket()
	if err != nil {
		return nil, err
	}
	if len(hs) == 0 || hs[0] != 10 {
		return nil, fmt.Errorf("unexpected handshake packet % x", hs)
	}
	caps := uint32(capLongPassword | capLongFlag | capConnectWithDB | capProtocol41 | capTransactions | capSecureConn | capPluginAuth)
	p := make([]byte, 0, 128)
	p = binary.LittleEndian.AppendUint32(p, caps)
	p = binary.LittleEndian.AppendUint32(p, 1<<24)
	p = append(p, collation)
	p = append(p, make([]byte, 23)...)
	p = append(p, "root"...)
	p = append(p, 0)
	p = append(p, 0) // empty auth response (empty password)
	p = append(p, db...)
	p = append(p, 0)
	p = append(p, "mysql_native_password"...)
	p = append(p, 0)
	if err := w.writePacket(p); err != nil {
		return nil, err
	}
	r, err := w.readPacket()
	if err != nil {
		return nil, err
	}
	if len(r) > 0 && r[0] == 0xfe { // auth switch request: answer with an empty scramble
		if err := w.writePacket([]byte{}); err != nil {
			return nil, err
		}
		if r, err = w.readPacket(); err != nil {
			return nil, err
		}
	}
	if err := asError(r); err != nil {
		return nil, err
	}
	if len(r) == 0 || r[0] != 0 {
		return nil, fmt.Errorf("unexpected auth reply % x", r)
	}
	return w, nil
}

func asError(p []byte) error {
	if len(p) >= 3 && p[0] == 0xff {
		code := int(p[1]) | int(p[2])<<8
		msg := p[3:]
		if len(msg) >= 6 && msg[0] == '#' {
			msg = msg[6:]
		}
		return &wireError{Code: code, Msg: string(msg)}
	}
	return nil
}

func isEOF(p []byte) bool { return len(p) > 0 && p[0] == 0xfe && len(p) < 9 }

func lenenc(p []byte, pos int) (uint64, int, bool) {
	if pos >= len(p) {
		return 0, pos, false
	}
	switch b := p[pos]; {
	case b < 0xfb:
		return uint64(b), pos + 1, true
	case b == 0xfc && pos+3 <= len(p):
		return uint64(p[pos+1]) | uint64(p[pos+2])<<8, pos + 3, true
	case b == 0xfd && pos+4 <= len(p):
		return uint64(p[pos+1]) | uint64(p[pos+2])<<8 | uint64(p[pos+3])<<16, pos + 4, true
	case b == 0xfe && pos+9 <= len(p):
		return binary.LittleEndian.Uint64(p[pos+1:]), pos + 9, true
	}
	return 0, pos, false
}

func parseFieldDef(p []byte) (FieldDef, error) {
	var f FieldDef
	pos := 0
	var strs [6]string
	for i := 0; i < 6; i++ {
		n, np, ok := lenenc(p, pos)
		if !ok || np+int(n) > len(p) {
			return f, fmt.Errorf("bad column definition % x", p)
		}
		strs[i] = string(p[np : np+int(n)])
		pos = np + int(n)
	}
	f.Name = strs[4]
	if pos+13 > len(p) || p[pos] != 0x0c {
		return f, fmt.Errorf("bad column definition tail % x", p[pos:])
	}
	pos++
	f.Charset = int(binary.LittleEndian.Uint16(p[pos:]))
	f.Length = binary.LittleEndian.Uint32(p[pos+2:])
	f.Type = int(p[pos+6])
	f.Flags = int(binary.LittleEndian.Uint16(p[pos+7:]))
	f.Decimals = int(p[pos+9])
	return f, nil
}

// readResultSet reads column count, definitions, EOF, row packets, EOF. first = the first reply packet.
func (w *wireConn) readResultSet(first []byte) ([]FieldDef, [][]byte, error) {
	if err := asError(first); err != nil {
		return nil, nil, err
	}
	if len(first) > 0 && first[0] == 0 { // OK packet: no result set
		return nil, nil, nil
	}
	n, _, ok := lenenc(first, 0)
	if !ok {
		return nil, nil, fmt.Errorf("bad column count % x", first)
	}
	fields := make([]FieldDef, n)
	for i := range fields {
		p, err := w.readPacket()
		if err != nil {
			return nil, nil, err
		}
		if fields[i], err = parseFieldDef(p); err != nil {
			return nil, nil, err
		}
	}
	p, err := w.readPacket()
	if err != nil {
		return nil, nil, err
	}
	if !isEOF(p) {
		return nil, nil, fmt.Errorf("expected EOF after column definitions, got % x", p)
	}
	var rows [][]byte
	for {
		p, err := w.readPacket()
		if err != nil {
			return nil, nil, err
		}
		if err := asError(p); err != nil {
			return fields, rows, err
		}
		if isEOF(p) {
			return fields, rows, nil
		}
		rows = append(rows, p)
	}
}

// Query runs one statement in the text protocol.
func (w *wireConn) Query(q string) ([]FieldDef, [][]byte, error) {
	if err := w.command(comQuery, []byte(q)); err != nil {
		return nil, nil, err
	}
	p, err := w.readPacket()
	if err != nil {
		return nil, nil, err
	}
	return w.readResultSet(p)
}

// Prepared runs one parameterless statement through COM_STMT_PREPARE + COM_STMT_EXECUTE (binary rows).
func (w *wireConn) Prepared(q string) ([]FieldDef, [][]byte, error) {
	if err := w.command(comStmtPrepare, []byte(q)); err != nil {
		return nil, nil, err
	}
	p, err := w.readPacket()
	if err != nil {
		return nil, nil, err
	}
	if err := asError(p); err != nil {
		return nil, nil, err
	}
	if len(p) < 12 || p[0] != 0 {
		return nil, nil, fmt.Errorf("bad prepare reply % x", p)
	}
	id := binary.LittleEndian.Uint32(p[1:])
	ncols := int(binary.LittleEndian.Uint16(p[5:]))
	nparams := int(binary.LittleEndian.Uint16(p[7:]))
	for _, k := range []int{nparams, ncols} {
		if k == 0 {
			continue
		}
		for {
			q, err := w.readPacket()
			if err != nil {
				return nil, nil, err
			}
			if isEOF(q) {
				break
			}
		}
	}
	arg := binary.LittleEndian.AppendUint32(nil, id)
	arg = append(arg, 0)          // no cursor
	arg = append(arg, 1, 0, 0, 0) // iteration count
	if err := w.command(comStmtExecute, arg); err != nil {
		return nil, nil, err
	}
	if p, err = w.readPacket(); err != nil {
		return nil, nil, err
	}
	fields, rows, rerr := w.readResultSet(p)
	if err := w.command(comStmtClose, binary.LittleEndian.AppendUint32(nil, id)); err != nil {
		return nil, nil, err
	}
	return fields, rows, rerr
}

func (w *wireConn) Close() { w.c.Close() }
