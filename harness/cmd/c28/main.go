// c28: driver of C28 (values round-trip through their wire representation).
//
//	-mode exec  -seed S -n N [-thorough] [-only id,id] -out trace.ndjson
//	     binding B: one table per column type of the catalogue (cols.go), boundary + seeded random
//	     storable values; every stored value is read from the engine directly (projected, never
//	     formatted) and through the REAL TCP server (server.NewServer on 127.0.0.1:0) with a raw MySQL
//	     client that keeps the packets: text protocol (COM_QUERY) and binary protocol
//	     (COM_STMT_PREPARE/EXECUTE).  TLC judges the trace (spec/Trace_Wire.tla).
//	-mode replay -in cases.ndjson [-only i,i]
//	     binding A: (type, value, expected text) triples printed by TLC from WireFormat!Format
//	     (MC_Wire!Emit); the value is stored and the engine's wire text must equal the expected bytes.
//	-mode explore stmt...   ("B:stmt" = through a prepared statement) prints what the server sends
package main

import (
	"flag"
	"fmt"
	"os"
	"strconv"
	"strings"

	sqle "github.com/dolthub/go-mysql-server"
	"github.com/dolthub/go-mysql-server/memory"
	"github.com/dolthub/go-mysql-server/server"
	"github.com/dolthub/go-mysql-server/sql"
	"github.com/sirupsen/logrus"

	"gmsverif/lib/vio"
)

type fixture struct {
	eng  *sqle.Engine
	pro  *memory.DbProvider
	srv  *server.Server
	addr string
}

func newFixture() *fixture {
	logrus.SetLevel(logrus.PanicLevel)
	pro := memory.NewDBProvider(memory.NewDatabase("d"))
	eng := sqle.NewDefault(pro)
	cfg := server.Config{Protocol: "tcp", Address: "127.0.0.1:0", DisableConnectionWatcher: true}
	srv, err := server.NewServer(cfg, eng, sql.NewContext, memory.NewSessionBuilder(pro), nil)
	if err != nil {
		vio.Fatal("server: %v", err)
	}
	go srv.Start()
	return &fixture{eng: eng, pro: pro, srv: srv, addr: srv.Listener.Addr().String()}
}

func idSet(s string) map[int]bool {
	if s == "" {
		return nil
	}
	m := map[int]bool{}
	for _, x := range strings.Split(s, ",") {
		k, err := strconv.Atoi(strings.TrimSpace(x))
		if err != nil {
			vio.Fatal("bad id %q", x)
		}
		m[k] = true
	}
	return m
}

func main() {
	mode := flag.String("mode", "explore", "explore | exec | replay")
	seed := flag.Int64("seed", 1, "seed of the random values")
	n := flag.Int("n", 6, "random values per column")
	thorough := flag.Bool("thorough", false, "larger catalogue")
	only := flag.String("only", "", "comma separated ids")
	in := flag.String("in", "", "input file")
	out := flag.String("out", "", "output file")
	flag.Parse()
	switch *mode {
	case "explore":
		explore(flag.Args())
	case "exec":
		runExec(*seed, *n, *thorough, idSet(*only), *out)
	case "replay":
		runReplay(*in, idSet(*only))
	default:
		fmt.Fprintln(os.Stderr, "unknown mode")
		os.Exit(3)
	}
}

func explore(stmts []string) {
	f := newFixture()
	w, err := dial(f.addr, "d", collUtf8mb4Gen)
	if err != nil {
		vio.Fatal("dial: %v", err)
	}
	for _, q := range stmts {
		bin := strings.HasPrefix(q, "B:")
		q = strings.TrimPrefix(q, "B:")
		var fs []FieldDef
		var rows [][]byte
		if bin {
			fs, rows, err = w.Prepared(q)
		} else {
			fs, rows, err = w.Query(q)
		}
		fmt.Printf("%s\n  err=%v\n", q, err)
		for _, fd := range fs {
			fmt.Printf("  field %+v\n", fd)
		}
		for _, r := range rows {
			fmt.Printf("  row %q\n", r)
		}
	}
}
