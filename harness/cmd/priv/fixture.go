package main

import (
	"context"
	"fmt"
	"sort"
	"strings"

	sqle "github.com/dolthub/go-mysql-server"
	"github.com/dolthub/go-mysql-server/memory"
	"github.com/dolthub/go-mysql-server/sql"
	"github.com/dolthub/go-mysql-server/sql/mysql_db"
	"github.com/dolthub/go-mysql-server/sql/types"
)

// memPersister keeps the last serialised copy of the mysql database (what an integrator would
// write to disk).
type memPersister struct {
	data  []byte
	calls int
}

func (p *memPersister) Persist(ctx *sql.Context, data []byte) error {
	p.data = append([]byte(nil), data...)
	p.calls++
	return nil
}

const admin = "vadmin"

// Fix is one engine over the in-memory backend with the `mysql` privilege database ENABLED and a
// password-less ephemeral super user vadmin@localhost.
type Fix struct {
	Engine  *sqle.Engine
	Pro     *memory.DbProvider
	MySQLDb *mysql_db.MySQLDb
	Pers    *memPersister
	Dbs     []string
	Tbls    []string
	nextID  uint32
	sess    map[string]*memory.Session
}

func NewFix(dbs, tbls []string) *Fix {
	var mdbs []sql.Database
	for _, d := range dbs {
		mdbs = append(mdbs, memory.NewDatabase(d))
	}
	pro := memory.NewDBProvider(mdbs...)
	e := sqle.NewDefault(pro)
	md := e.Analyzer.Catalog.MySQLDb
	md.SetEnabled(true)
	pers := &memPersister{}
	md.SetPersister(pers)
	// the harness's own administrator: an EPHEMERAL super user (never persisted), so that what a
	// Persist/Reload does to the persisted accounts cannot take the replayer's hands away
	ed := md.Editor()
	md.AddEphemeralSuperUser(ed, admin, "localhost", "")
	ed.Close()
	md.AddRootAccount() // a persisted super user nobody logs in as: its SHOW GRANTS must survive a reload too
	f := &Fix{Engine: e, Pro: pro, MySQLDb: md, Pers: pers, Dbs: dbs, Tbls: tbls, nextID: 1, sess: map[string]*memory.Session{}}
	for _, d := range dbs {
		for _, t := range tbls {
			f.resetTable(d, t)
		}
	}
	return f
}

func (f *Fix) resetTable(d, t string) {
	f.Must(admin, fmt.Sprintf("DROP TABLE IF EXISTS %s.%s", d, t))
	f.Must(admin, fmt.Sprintf("CREATE TABLE %s.%s (a INT PRIMARY KEY, b INT)", d, t))
	f.Must(admin, fmt.Sprintf("INSERT INTO %s.%s VALUES (1,10),(2,20)", d, t))
}

// Session returns THE session of an account name (client user = name, client address = localhost).
// Privilege checks derive the account from ctx.Session.Client() (mysql_db.UserActivePrivilegeSet,
// planbuilder defaultAuthorizationHandler.NewQueryState), so this is what a connection
// authenticated as name@localhost gets from server/memory.NewSessionBuilder.
func (f *Fix) Session(user string) *memory.Session {
	if s, ok := f.sess[user]; ok {
		return s
	}
	f.nextID++
	base := sql.NewBaseSessionWithClientServer("srv", sql.Client{User: user, Address: "localhost"}, f.nextID)
	s := memory.NewSession(base, f.Pro)
	f.sess[user] = s
	return s
}

func (f *Fix) DropSession(user string) { delete(f.sess, user) }

// Res is the outcome of one statement.
type Res struct {
	Kind string     // ok | rows | denied | error | panic
	Msg  string
	Rows [][]string
}

func (f *Fix) Exec(user, q string) (res Res) {
	defer func() {
		if r := recover(); r != nil {
			res = Res{Kind: "panic", Msg: fmt.Sprint(r)}
		}
	}()
	s := f.Session(user)
	ctx := sql.NewContext(context.Background(), sql.WithSession(s))
	_, iter, _, err := f.Engine.Query(ctx, q)
	if err != nil {
		return classify(err)
	}
	rows, err := sql.RowIterToRows(ctx, iter)
	if err != nil {
		return classify(err)
	}
	out := make([][]string, 0, len(rows))
	for _, r := range rows {
		row := make([]string, len(r))
		for i, v := range r {
			if _, ok := v.(types.OkResult); ok {
				return Res{Kind: "ok"}
			}
			row[i] = fmt.Sprint(v)
		}
		out = append(out, row)
	}
	return Res{Kind: "rows", Rows: out}
}

// classify: `denied` is the access-denied class of errors (the four ways the engine refuses a
// statement for lack of privileges); every other error is recorded as such.
func classify(err error) Res {
	switch {
	case sql.ErrPrivilegeCheckFailed.Is(err), sql.ErrDatabaseAccessDeniedForUser.Is(err), sql.ErrTableAccessDeniedForUser.Is(err):
		return Res{Kind: "denied", Msg: err.Error()}
	case strings.HasPrefix(err.Error(), "Access denied for user"):
		return Res{Kind: "denied", Msg: err.Error()}
	}
	return Res{Kind: "error", Msg: err.Error()}
}

func (f *Fix) Must(user, q string) Res {
	r := f.Exec(user, q)
	if r.Kind != "ok" && r.Kind != "rows" {
		panic(fmt.Sprintf("fixture statement failed: %s: %s %s", q, r.Kind, r.Msg))
	}
	return r
}

// Fingerprint is the data projection "a denied statement has no effect" is judged on: the tables
// of every database with their definition and rows, and the account list.
func (f *Fix) Fingerprint() string {
	var sb strings.Builder
	for _, d := range f.Dbs {
		r := f.Must(admin, "SHOW TABLES FROM "+d)
		var names []string
		for _, row := range r.Rows {
			names = append(names, row[0])
		}
		sort.Strings(names)
		for _, t := range names {
			c := f.Must(admin, fmt.Sprintf("SHOW CREATE TABLE %s.%s", d, t))
			sb.WriteString(c.Rows[0][1])
			rows := f.Must(admin, fmt.Sprintf("SELECT * FROM %s.%s ORDER BY 1", d, t))
			fmt.Fprintf(&sb, "%v;", rows.Rows)
		}
	}
	u := f.Must(admin, "SELECT user, host FROM mysql.user ORDER BY 1, 2")
	fmt.Fprintf(&sb, "users=%v", u.Rows)
	return sb.String()
}
