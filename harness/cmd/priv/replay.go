package main

import (
	"context"
	"crypto/sha1"
	"encoding/hex"
	"encoding/json"
	"fmt"
	"sort"
	"strings"

	"gmsverif/lib/vio"

	"github.com/dolthub/go-mysql-server/sql"
	"github.com/dolthub/go-mysql-server/sql/mysql_db"
)

// ---- the vocabulary shared with spec/Privileges.tla (names only; no semantics here) ----------

type Atom struct {
	Db  string `json:"db"`
	Tbl string `json:"tbl"`
	P   string `json:"p"`
}

// Dyn is one dynamic (global-only) privilege an account holds, with its OWN grant-option flag.
type Dyn struct {
	P   string `json:"p"`
	Wgo bool   `json:"wgo"`
}

type AcctSt struct {
	A      string `json:"a"`
	Locked bool   `json:"locked"`
	Pw     string `json:"pw"`
	G      []Atom `json:"g"`
	D      []Dyn  `json:"d"`
}

type Edge struct {
	R   string `json:"r"`
	To  string `json:"to"`
	Adm bool   `json:"adm"`
}

// St is the projection of the access-control state (spec: StJson).
type St struct {
	Accts   []AcctSt          `json:"accts"`
	Edges   []Edge            `json:"edges"`
	Active  map[string]string `json:"active,omitempty"`
	Defrole map[string]string `json:"defrole,omitempty"`
}

type Act struct {
	Name string   `json:"name"`
	A    string   `json:"a,omitempty"`
	R    string   `json:"r,omitempty"`
	Db   string   `json:"db,omitempty"`
	Tbl  string   `json:"tbl,omitempty"`
	Ps   []string `json:"ps,omitempty"`
	Pw   string   `json:"pw,omitempty"`
	Adm  bool     `json:"adm"`
	Wgo  bool     `json:"wgo"`
	M    string   `json:"m,omitempty"`
}

type TR struct {
	Step int    `json:"step"`
	Act  Act    `json:"act"`
	Ret  string `json:"ret"`
	Pre  St     `json:"pre"`
	// the specification's own remark about the states of the transition (coverage accounting; in
	// transitions mode a probe matrix is also run BEFORE the step when pre is marked)
	Ov struct {
		Pre  bool `json:"pre"`
		Post bool `json:"post"`
	} `json:"ov"`
}

type Row struct {
	U    string `json:"u"`
	Cls  string `json:"cls"`
	Db   string `json:"db"`
	Tbl  string `json:"tbl"`
	Out  string `json:"out"`  // allow | deny | error | panic
	Unch bool   `json:"unch"` // the data projection after the statement equals the one before it
	Msg  string `json:"msg,omitempty"`
}

type GrantsOf struct {
	A  string   `json:"a"`
	G  []string `json:"g"`
	Sd []Dyn    `json:"sd"` // the dynamic privileges named by the lines of G (see shownDyn)
}

// the dynamic privileges the engine accepts in GRANT / REVOKE (plan.Privilege.IsValidDynamic)
var dynNames = []string{"CLONE_ADMIN", "REPLICATION_SLAVE_ADMIN"}

// shownDyn reads the dynamic privileges off SHOW GRANTS lines: "GRANT <names> ON *.* TO <account>
// [WITH GRANT OPTION]" where one of the names is a dynamic privilege; every name of such a line gets
// the line's flag (names only; no semantics here).
func shownDyn(lines []string) []Dyn {
	out := []Dyn{}
	for _, ln := range lines {
		i := strings.Index(ln, " ON *.* TO ")
		if !strings.HasPrefix(ln, "GRANT ") || i < 0 {
			continue
		}
		wgo := strings.HasSuffix(ln, " WITH GRANT OPTION")
		for _, n := range strings.Split(ln[len("GRANT "):i], ", ") {
			for _, d := range dynNames {
				if n == d {
					out = append(out, Dyn{P: n, Wgo: wgo})
				}
			}
		}
	}
	sort.Slice(out, func(i, j int) bool { return fmt.Sprint(out[i]) < fmt.Sprint(out[j]) })
	return out
}

type Event struct {
	Ev   string     `json:"ev"` // reset | step | matrix | reload (matrix: St = the stored state AFTER the probes)
	H    int        `json:"h"`
	Act  *Act       `json:"act,omitempty"`
	Ret  string     `json:"ret,omitempty"`
	Msg  string     `json:"msg,omitempty"`
	St   *St        `json:"st,omitempty"`
	Rows []Row      `json:"rows,omitempty"`
	Gb   []GrantsOf `json:"gb,omitempty"`
	Ga   []GrantsOf `json:"ga,omitempty"`
	Mb   []Row      `json:"mb,omitempty"`
	Ma   []Row      `json:"ma,omitempty"`
	Stb  *St        `json:"stb,omitempty"`
	Sta  *St        `json:"sta,omitempty"`
}

type Vocab struct {
	Users, Roles, Dbs, Tbls []string
	isUser, isRole          map[string]bool
}

func newVocab(users, roles, dbs, tbls []string) *Vocab {
	v := &Vocab{Users: users, Roles: roles, Dbs: dbs, Tbls: tbls, isUser: map[string]bool{}, isRole: map[string]bool{}}
	for _, u := range users {
		v.isUser[u] = true
	}
	for _, r := range roles {
		v.isRole[r] = true
	}
	return v
}

// acct renders an account name of the vocabulary: a role r is 'r' (= r@%), a user u is
// 'u'@'localhost', and a user written "u@host" is 'u'@'host'.
func (v *Vocab) acct(a string) string {
	if v.isRole[a] {
		return fmt.Sprintf("'%s'", a)
	}
	if i := strings.Index(a, "@"); i >= 0 {
		return fmt.Sprintf("'%s'@'%s'", a[:i], a[i+1:])
	}
	return fmt.Sprintf("'%s'@'localhost'", a)
}

func obj(db, tbl string) string {
	if db == "*" {
		return "*.*"
	}
	if tbl == "*" {
		return db + ".*"
	}
	return db + "." + tbl
}

const bystander = "pg" // an account outside the model that GRANT probes grant to
const probeUser = "p9"
const newTable = "n9"

func pwHash(pw string) string {
	s1 := sha1.Sum([]byte(pw))
	s2 := sha1.Sum(s1[:])
	return "*" + strings.ToUpper(hex.EncodeToString(s2[:]))
}

// ---- steps --------------------------------------------------------------------------------------

// render returns who runs the statement and the statement ("" = no SQL: session handling).
func (v *Vocab) render(a Act) (string, string) {
	switch a.Name {
	case "CreateUser":
		q := "CREATE USER " + v.acct(a.A)
		if a.Pw != "" && a.Pw != "none" {
			q += " IDENTIFIED BY '" + a.Pw + "'"
		}
		return admin, q
	case "CreateRole":
		return admin, "CREATE ROLE " + v.acct(a.A)
	case "DropAcct":
		if v.isRole[a.A] {
			return admin, "DROP ROLE " + v.acct(a.A)
		}
		return admin, "DROP USER " + v.acct(a.A)
	case "GrantPriv", "RevokePriv":
		var ps []string
		wgo := false
		for _, p := range a.Ps {
			if p == "GRANT OPTION" && a.Name == "GrantPriv" && len(a.Ps) > 1 {
				wgo = true
				continue
			}
			ps = append(ps, p)
		}
		if a.Name == "GrantPriv" {
			q := fmt.Sprintf("GRANT %s ON %s TO %s", strings.Join(ps, ", "), obj(a.Db, a.Tbl), v.acct(a.A))
			if wgo {
				q += " WITH GRANT OPTION"
			}
			return admin, q
		}
		return admin, fmt.Sprintf("REVOKE %s ON %s FROM %s", strings.Join(ps, ", "), obj(a.Db, a.Tbl), v.acct(a.A))
	case "GrantDyn":
		q := fmt.Sprintf("GRANT %s ON *.* TO %s", strings.Join(a.Ps, ", "), v.acct(a.A))
		if a.Wgo {
			q += " WITH GRANT OPTION"
		}
		return admin, q
	case "RevokeDyn":
		return admin, fmt.Sprintf("REVOKE %s ON *.* FROM %s", strings.Join(a.Ps, ", "), v.acct(a.A))
	case "GrantRole":
		q := fmt.Sprintf("GRANT %s TO %s", v.acct(a.R), v.acct(a.A))
		if a.Adm {
			q += " WITH ADMIN OPTION"
		}
		return admin, q
	case "RevokeRole":
		return admin, fmt.Sprintf("REVOKE %s FROM %s", v.acct(a.R), v.acct(a.A))
	case "SetRole":
		return a.A, "SET ROLE " + strings.ToUpper(a.M)
	case "SetDefaultRole":
		return admin, fmt.Sprintf("SET DEFAULT ROLE %s TO %s", strings.ToUpper(a.M), v.acct(a.A))
	}
	return "", ""
}

func msgClass(m string) string {
	for _, p := range []string{"syntax error", "not yet implemented", "Unknown authorization ID", "Operation ", "There is no such grant", "You are not allowed to create a user with GRANT", "Illegal GRANT/REVOKE"} {
		if strings.Contains(m, p) {
			return strings.TrimSpace(p)
		}
	}
	if len(m) > 60 {
		m = m[:60]
	}
	return m
}

// World is the engine under test plus what the replayer needs to swap it on Persist/Reload.
type World struct {
	V *Vocab
	F *Fix
}

func newWorld(v *Vocab) *World {
	w := &World{V: v, F: NewFix(v.Dbs, v.Tbls)}
	w.F.Must(admin, "CREATE USER '"+bystander+"'@'localhost'")
	return w
}

// apply executes one step; the reply is ok | error | denied | panic.
func (w *World) apply(a Act) (string, string) {
	switch a.Name {
	case "Reconnect":
		w.F.DropSession(a.A)
		return "ok", ""
	case "PersistReload":
		nf, err := w.F.Reload()
		if err != nil {
			return "error", err.Error()
		}
		w.F = nf
		return "ok", ""
	}
	who, q := w.V.render(a)
	if q == "" {
		vio.Fatal("unknown action %q", a.Name)
	}
	r := w.F.Exec(who, q)
	if a.Name == "DropAcct" && r.Kind == "ok" {
		w.F.DropSession(a.A) // a dropped account's connection is closed (what MySQL leaves open is not judged)
	}
	switch r.Kind {
	case "ok", "rows":
		return "ok", ""
	case "error":
		return "error", msgClass(r.Msg)
	}
	return r.Kind, msgClass(r.Msg)
}

// Reload persists the privilege database and loads it into a fresh engine (same databases, tables
// freshly created, a root account to administer it).
func (f *Fix) Reload() (*Fix, error) {
	ctx := sql.NewContext(context.Background(), sql.WithSession(f.Session(admin)))
	ed := f.MySQLDb.Editor()
	err := f.MySQLDb.Persist(ctx, ed)
	ed.Close()
	if err != nil {
		return nil, fmt.Errorf("persist: %w", err)
	}
	data := append([]byte(nil), f.Pers.data...)
	nf := NewFix(f.Dbs, f.Tbls)
	nctx := sql.NewContext(context.Background(), sql.WithSession(nf.Session(admin)))
	if err := nf.MySQLDb.LoadData(nctx, data); err != nil {
		return nil, fmt.Errorf("load: %w", err)
	}
	return nf, nil
}

// materialise brings a fresh world into the abstract state `pre` through SQL.
func (w *World) materialise(pre St) {
	for _, a := range pre.Accts {
		if w.V.isRole[a.A] {
			w.F.Must(admin, "CREATE ROLE "+w.V.acct(a.A))
		} else {
			q := "CREATE USER " + w.V.acct(a.A)
			if a.Pw != "" && a.Pw != "none" {
				q += " IDENTIFIED BY '" + a.Pw + "'"
			}
			w.F.Must(admin, q)
		}
	}
	for _, a := range pre.Accts {
		for _, g := range a.G {
			w.F.Must(admin, fmt.Sprintf("GRANT %s ON %s TO %s", g.P, obj(g.Db, g.Tbl), w.V.acct(a.A)))
		}
	}
	for _, a := range pre.Accts {
		for _, d := range a.D {
			q := fmt.Sprintf("GRANT %s ON *.* TO %s", d.P, w.V.acct(a.A))
			if d.Wgo {
				q += " WITH GRANT OPTION" // (the static global GRANT OPTION this implies is part of pre)
			}
			w.F.Must(admin, q)
		}
	}
	for _, e := range pre.Edges {
		q := fmt.Sprintf("GRANT %s TO %s", w.V.acct(e.R), w.V.acct(e.To))
		if e.Adm {
			q += " WITH ADMIN OPTION"
		}
		w.F.Must(admin, q)
	}
	for u, m := range pre.Active {
		if m == "none" {
			w.F.Exec(u, "SET ROLE NONE")
		}
	}
}

// ---- observation ---------------------------------------------------------------------------------

// project reads the stored access-control state of the model's accounts straight from the mysql
// database's in-memory tables (what Persist serialises).
func (w *World) project() *St {
	st := &St{Accts: []AcctSt{}, Edges: []Edge{}}
	rd := w.F.MySQLDb.Reader()
	defer rd.Close()
	name := func(user, host string) string {
		if (host == "localhost" && w.V.isUser[user]) || (host == "%" && w.V.isRole[user]) {
			return user
		}
		return user + "@" + host
	}
	rd.VisitUsers(func(u *mysql_db.User) {
		if u.Host == "localhost" && (u.User == admin || u.User == bystander || u.User == "root") {
			return
		}
		a := AcctSt{A: name(u.User, u.Host), Locked: u.Locked, G: []Atom{}, D: []Dyn{}}
		for _, wgo := range []bool{false, true} {
			for _, p := range u.PrivilegeSet.ToSliceDynamic(wgo) {
				a.D = append(a.D, Dyn{P: p, Wgo: wgo})
			}
		}
		sort.Slice(a.D, func(i, j int) bool { return fmt.Sprint(a.D[i]) < fmt.Sprint(a.D[j]) })
		switch u.AuthString {
		case "":
			a.Pw = "none"
		case pwHash("pw1"):
			a.Pw = "pw1"
		case pwHash("pw2"):
			a.Pw = "pw2"
		default:
			a.Pw = "other"
		}
		for _, p := range u.PrivilegeSet.ToSlice() {
			a.G = append(a.G, Atom{"*", "*", p.String()})
		}
		for _, d := range u.PrivilegeSet.GetDatabases() {
			for _, p := range d.ToSlice() {
				a.G = append(a.G, Atom{d.Name(), "*", p.String()})
			}
			for _, t := range d.GetTables() {
				for _, p := range t.ToSlice() {
					a.G = append(a.G, Atom{d.Name(), t.Name(), p.String()})
				}
				for _, c := range t.GetColumns() {
					for _, p := range c.ToSlice() {
						a.G = append(a.G, Atom{d.Name(), t.Name() + "." + c.Name(), p.String()})
					}
				}
			}
		}
		sort.Slice(a.G, func(i, j int) bool { return fmt.Sprint(a.G[i]) < fmt.Sprint(a.G[j]) })
		st.Accts = append(st.Accts, a)
	})
	rd.VisitRoleEdges(func(e *mysql_db.RoleEdge) {
		if e.ToUser == bystander {
			return
		}
		st.Edges = append(st.Edges, Edge{R: name(e.FromUser, e.FromHost), To: name(e.ToUser, e.ToHost), Adm: e.WithAdminOption})
	})
	sort.Slice(st.Accts, func(i, j int) bool { return st.Accts[i].A < st.Accts[j].A })
	sort.Slice(st.Edges, func(i, j int) bool { return fmt.Sprint(st.Edges[i]) < fmt.Sprint(st.Edges[j]) })
	return st
}

// showGrants: SHOW GRANTS FOR every account of the model that exists.
func (w *World) showGrants() []GrantsOf {
	out := []GrantsOf{}
	for _, a := range append(append([]string{"root"}, w.V.Users...), w.V.Roles...) {
		r := w.F.Exec(admin, "SHOW GRANTS FOR "+w.V.acct(a))
		if r.Kind != "rows" {
			continue // the account does not exist
		}
		g := GrantsOf{A: a, G: []string{}}
		for _, row := range r.Rows {
			g.G = append(g.G, row[0])
		}
		sort.Strings(g.G)
		g.Sd = shownDyn(g.G)
		out = append(out, g)
	}
	return out
}

type probe struct {
	cls, db, tbl string
	stmt, undo   string
	resetTbl     bool
}

func (w *World) probes() []probe {
	var ps []probe
	for _, d := range w.V.Dbs {
		for _, t := range w.V.Tbls {
			n := d + "." + t
			ps = append(ps,
				probe{cls: "SELECT", db: d, tbl: t, stmt: "SELECT * FROM " + n},
				probe{cls: "INSERT", db: d, tbl: t, stmt: "INSERT INTO " + n + " VALUES (9, 90)", resetTbl: true},
				probe{cls: "UPDATE", db: d, tbl: t, stmt: "UPDATE " + n + " SET b = 7", resetTbl: true},
				probe{cls: "DELETE", db: d, tbl: t, stmt: "DELETE FROM " + n + " WHERE 1 = 1", resetTbl: true},
				probe{cls: "DROP", db: d, tbl: t, stmt: "DROP TABLE " + n, resetTbl: true},
				probe{cls: "ALTER", db: d, tbl: t, stmt: "ALTER TABLE " + n + " ADD COLUMN c9 INT", resetTbl: true},
				probe{cls: "INDEX", db: d, tbl: t, stmt: "CREATE INDEX ix9 ON " + n + " (b)", resetTbl: true},
				probe{cls: "GRANT", db: d, tbl: t, stmt: "GRANT SELECT ON " + n + " TO '" + bystander + "'@'localhost'",
					undo: "REVOKE SELECT ON " + n + " FROM '" + bystander + "'@'localhost'"},
			)
		}
		ps = append(ps, probe{cls: "CREATE", db: d, tbl: newTable, stmt: "CREATE TABLE " + d + "." + newTable + " (a INT PRIMARY KEY)",
			undo: "DROP TABLE " + d + "." + newTable})
	}
	// STOP REPLICA needs the dynamic REPLICATION_SLAVE_ADMIN; the fixture has no replication controller, so
	// a statement that passed the privilege check ends in that error (see matrix)
	ps = append(ps, probe{cls: "REPLICA", db: "*", tbl: "*", stmt: "STOP REPLICA"})
	ps = append(ps, probe{cls: "CREATEUSER", db: "*", tbl: "*", stmt: "CREATE USER '" + probeUser + "'@'localhost'", undo: "DROP USER '" + probeUser + "'@'localhost'"})
	for _, r := range w.V.Roles {
		ps = append(ps, probe{cls: "GRANTROLE", db: r, tbl: "", stmt: "GRANT '" + r + "' TO '" + bystander + "'@'localhost'",
			undo: "REVOKE '" + r + "' FROM '" + bystander + "'@'localhost'"})
	}
	return ps
}

// matrix runs one statement of every privilege class per object as every user. An allowed probe is
// undone by the administrator so the state stays the one the specification expects; after every probe the data
// projection must be the baseline again (for a denied probe: "no effect").
func (w *World) matrix(classes map[string]bool) []Row {
	base := w.F.Fingerprint()
	rows := []Row{}
	for _, u := range w.V.Users {
		for _, p := range w.probes() {
			if len(classes) > 0 && !classes[p.cls] {
				continue
			}
			r := w.F.Exec(u, p.stmt)
			row := Row{U: u, Cls: p.cls, Db: p.db, Tbl: p.tbl}
			switch r.Kind {
			case "ok", "rows":
				row.Out = "allow"
				if p.resetTbl {
					w.F.resetTable(p.db, p.tbl)
				}
				if p.undo != "" {
					w.F.Must(admin, p.undo)
				}
			case "denied":
				row.Out = "deny"
			case "error":
				if p.cls == "REPLICA" && strings.Contains(r.Msg, "no replication controller available") {
					row.Out = "allow" // authorised; there is nothing to stop in this fixture
					break
				}
				row.Out = r.Kind
				row.Msg = msgClass(r.Msg)
			default:
				row.Out = r.Kind
				row.Msg = msgClass(r.Msg)
			}
			fp := w.F.Fingerprint()
			row.Unch = fp == base
			if !row.Unch {
				if row.Out == "allow" {
					vio.Fatal("undo of an allowed probe did not restore the baseline: %s as %s", p.stmt, u)
				}
				// a refused statement changed something: recorded (unch=false); restore for the rest
				for _, d := range w.V.Dbs {
					w.F.Exec(admin, "DROP TABLE IF EXISTS "+d+"."+newTable)
					for _, t := range w.V.Tbls {
						w.F.resetTable(d, t)
					}
				}
				w.F.Exec(admin, "DROP USER IF EXISTS '"+probeUser+"'@'localhost'")
				if p.undo != "" {
					w.F.Exec(admin, p.undo)
				}
				base = w.F.Fingerprint()
			}
			rows = append(rows, row)
		}
	}
	return rows
}

// ---- the replay loop -------------------------------------------------------------------------------

type replayOpts struct {
	file, out, mode string
	matrix          string // every | end | none
	reload          bool   // C41: persist/reload comparison after every history
	classes         map[string]bool
}

func replay(v *Vocab, o replayOpts) {
	wr, err := vio.NewWriter(o.out)
	if err != nil {
		vio.Fatal("%v", err)
	}
	defer wr.Close()
	rep := &vio.Report{Extra: map[string]interface{}{}}
	byAct := map[string]int{}
	var w *World
	h := 0
	lastStep := 0
	matrices, probesRun, differing, ovPost := 0, 0, 0, 0
	count := func(rows []Row) {
		matrices++
		probesRun += len(rows)
		// non-trivial: a probe whose outcome differs between at least two users
		cell := map[string]map[string]bool{}
		for _, r := range rows {
			k := r.Cls + "|" + r.Db + "|" + r.Tbl
			if cell[k] == nil {
				cell[k] = map[string]bool{}
			}
			cell[k][r.Out] = true
		}
		for _, outs := range cell {
			if len(outs) > 1 {
				differing++
			}
		}
	}
	finish := func() {
		if w == nil {
			return
		}
		if o.matrix == "end" {
			rows := w.matrix(o.classes)
			count(rows)
			wr.Write(Event{Ev: "matrix", H: h, Rows: rows, St: w.project()})
		}
		if o.reload {
			ev := Event{Ev: "reload", H: h}
			ev.Gb = w.showGrants()
			ev.Stb = w.project()
			ev.Mb = w.matrix(o.classes)
			count(ev.Mb)
			nf, err := w.F.Reload()
			if err != nil {
				ev.Ret, ev.Msg = "error", err.Error()
				ev.Ga, ev.Ma, ev.Sta = []GrantsOf{}, []Row{}, &St{Accts: []AcctSt{}, Edges: []Edge{}}
			} else {
				w.F = nf
				ev.Ret = "ok"
				ev.Ga = w.showGrants()
				ev.Sta = w.project()
				ev.Ma = w.matrix(o.classes)
				count(ev.Ma)
			}
			wr.Write(ev)
		}
	}
	err = vio.ReadNDJSON(o.file, func(i int, line []byte) error {
		var tr TR
		if err := json.Unmarshal(line, &tr); err != nil {
			return err
		}
		rep.Cases++
		byAct[tr.Act.Name]++
		if o.mode == "transitions" || tr.Step == 1 || tr.Step != lastStep+1 {
			finish()
			h++
			w = newWorld(v)
			w.materialise(tr.Pre)
			pre := tr.Pre
			for i := range pre.Accts { // records written before the model had dynamic privileges
				if pre.Accts[i].D == nil {
					pre.Accts[i].D = []Dyn{}
				}
				if pre.Accts[i].G == nil {
					pre.Accts[i].G = []Atom{}
				}
			}
			wr.Write(Event{Ev: "reset", H: h, St: &pre})
			if o.mode == "transitions" && o.matrix == "every" && tr.Ov.Pre {
				rows := w.matrix(o.classes) // sessions of every user exist and have looked at their privileges before the step
				count(rows)
				wr.Write(Event{Ev: "matrix", H: h, Rows: rows, St: w.project()})
			}
		}
		if tr.Ov.Post {
			ovPost++
		}
		lastStep = tr.Step
		a := tr.Act
		ret, msg := w.apply(a)
		wr.Write(Event{Ev: "step", H: h, Act: &a, Ret: ret, Msg: msg, St: w.project()})
		if o.matrix == "every" {
			rows := w.matrix(o.classes)
			count(rows)
			wr.Write(Event{Ev: "matrix", H: h, Rows: rows, St: w.project()})
		}
		return nil
	})
	if err != nil {
		vio.Fatal("%v", err)
	}
	finish()
	rep.Nontrivial = differing
	rep.Extra["by_action"] = byAct
	rep.Extra["histories"] = h
	rep.Extra["matrices"] = matrices
	rep.Extra["probes"] = probesRun
	rep.Extra["steps_into_table_overlap"] = ovPost
	rep.Emit()
}
