// priv: bindings of spec/Privileges.tla (C39, C41) and spec/Auth.tla (C40) to the real engine.
//
//	-mode replay   TLC-generated histories / transitions -> real SQL by a super user on an engine with the
//	               mysql privilege database enabled, probe matrix as every user, optional
//	               persist/reload comparison; writes the trace Trace_Privileges.tla validates.
//	-mode sql      debugging aid: "<user>\t<statement>" lines from stdin.
//	-mode auth / authchild   see auth.go (C40).
package main

import (
	"bufio"
	"flag"
	"fmt"
	"os"
	"strings"

	"gmsverif/lib/vio"
)

func list(s string) []string {
	var out []string
	for _, x := range strings.Split(s, ",") {
		if x = strings.TrimSpace(x); x != "" {
			out = append(out, x)
		}
	}
	return out
}

// selfcheck: the fixture must really enforce privileges (a wrong fixture would make every check
// vacuous): root can, an account without grants cannot, an unknown account cannot. (That a grant
// changes the answer is the property itself and is left to the checks.)
func selfcheck() {
	f := NewFix([]string{"d1"}, []string{"t1"})
	f.Must(admin, "CREATE USER 'u1'@'localhost'")
	want := func(user, q, kind string) {
		if r := f.Exec(user, q); r.Kind != kind {
			vio.Fatal("fixture self-check: %s as %s: got %s %s, want %s", q, user, r.Kind, r.Msg, kind)
		}
	}
	want(admin, "SELECT * FROM d1.t1", "rows")
	want("u1", "SELECT * FROM d1.t1", "denied")
	want("nobody", "SELECT * FROM d1.t1", "denied")
	want("u1", "INSERT INTO d1.t1 VALUES (5,5)", "denied")
	if r := f.Must("u1", "SELECT CURRENT_USER()"); r.Rows[0][0] != "u1@localhost" {
		vio.Fatal("fixture self-check: CURRENT_USER() = %v", r.Rows)
	}
}

func main() {
	mode := flag.String("mode", "", "sql | replay | auth | authchild")
	file := flag.String("file", "", "input ndjson")
	out := flag.String("out", "", "output trace ndjson")
	rmode := flag.String("rmode", "behaviours", "replay: behaviours (a history starts at step 1) | transitions (materialise pre per record)")
	matrix := flag.String("matrix", "every", "probe matrix: every | end | none")
	reload := flag.Bool("reload", false, "persist/reload comparison after every history (C41)")
	users := flag.String("users", "u1,u2", "")
	roles := flag.String("roles", "r1", "")
	dbs := flag.String("dbs", "d1,d2", "")
	tbls := flag.String("tbls", "t1,t2", "")
	classes := flag.String("classes", "", "restrict the probe classes (default all)")
	seed := flag.Int64("seed", 1, "")
	addr := flag.String("addr", "", "authchild: file to write the listen address to")
	flag.Parse()
	switch *mode {
	case "sql":
		f := NewFix(list(*dbs), list(*tbls))
		sc := bufio.NewScanner(os.Stdin)
		for sc.Scan() {
			p := strings.SplitN(sc.Text(), "\t", 2)
			if len(p) != 2 {
				continue
			}
			r := f.Exec(p[0], p[1])
			fmt.Printf("%-6s %-60s => %s %s %v\n", p[0], p[1], r.Kind, r.Msg, r.Rows)
		}
	case "replay":
		selfcheck()
		cl := map[string]bool{}
		for _, c := range list(*classes) {
			cl[c] = true
		}
		replay(newVocab(list(*users), list(*roles), list(*dbs), list(*tbls)),
			replayOpts{file: *file, out: *out, mode: *rmode, matrix: *matrix, reload: *reload, classes: cl})
	case "auth":
		authDriver(*file, *out, *seed)
	case "authchild":
		authChild(*file, *addr)
	default:
		fmt.Fprintln(os.Stderr, "unknown mode")
		os.Exit(3)
	}
}
