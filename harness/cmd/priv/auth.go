package main

// C40: connection attempts against the real TCP listener.
//
// The server (engine with the mysql privilege database enabled, server.NewServer on 127.0.0.1:0,
// with a throw-away TLS certificate) runs in a CHILD process (this binary, -mode authchild), so that a
// panic that kills the server is the outcome "crash" of the attempt whose flushed begin marker has
// no end, not a dead driver. The parent creates the accounts of each case through an ordinary root
// connection, makes the attempt (go-sql-driver for well-formed logins, a raw socket speaking just
// the handshake for hand-made auth responses: malformed ones, the valid scramble on a chosen salt, empty
// ones) and records what came back.

import (
	"bytes"
	"context"
	"crypto/ecdsa"
	"crypto/elliptic"
	crand "crypto/rand"
	"crypto/sha1"
	"crypto/tls"
	"crypto/x509"
	"crypto/x509/pkix"
	dsql "database/sql"
	"encoding/binary"
	"encoding/json"
	"errors"
	"fmt"
	"io"
	"math/big"
	"math/rand"
	"net"
	"os"
	"os/exec"
	"strings"
	"sync/atomic"
	"time"

	gomysql "github.com/go-sql-driver/mysql"

	"gmsverif/lib/vio"

	sqle "github.com/dolthub/go-mysql-server"
	"github.com/dolthub/go-mysql-server/memory"
	"github.com/dolthub/go-mysql-server/server"
	"github.com/dolthub/go-mysql-server/sql"
	"github.com/dolthub/go-mysql-server/sql/mysql_db"
)

// ---- the child: the system under test ----------------------------------------------------------------

func selfSigned() tls.Certificate {
	key, err := ecdsa.GenerateKey(elliptic.P256(), crand.Reader)
	if err != nil {
		vio.Fatal("key: %v", err)
	}
	tmpl := &x509.Certificate{SerialNumber: big.NewInt(1), Subject: pkix.Name{CommonName: "verif"},
		NotBefore: time.Now().Add(-time.Hour), NotAfter: time.Now().Add(24 * time.Hour),
		KeyUsage: x509.KeyUsageDigitalSignature, ExtKeyUsage: []x509.ExtKeyUsage{x509.ExtKeyUsageServerAuth},
		IPAddresses: []net.IP{net.ParseIP("127.0.0.1")}}
	der, err := x509.CreateCertificate(crand.Reader, tmpl, tmpl, &key.PublicKey, key)
	if err != nil {
		vio.Fatal("cert: %v", err)
	}
	return tls.Certificate{Certificate: [][]byte{der}, PrivateKey: key}
}

func authChild(_ string, addrFile string) {
	pro := memory.NewDBProvider(memory.NewDatabase("d1"))
	e := sqle.NewDefault(pro)
	md := e.Analyzer.Catalog.MySQLDb
	md.SetEnabled(true)
	md.SetPersister(&mysql_db.NoopPersister{}) // (without a persister every CREATE USER is a nil dereference)
	md.AddRootAccount()                        // root@localhost without a password: the driver's administration connection
	cfg := server.Config{Protocol: "tcp", Address: "127.0.0.1:0",
		TLSConfig: &tls.Config{Certificates: []tls.Certificate{selfSigned()}}}
	srv, err := server.NewServer(cfg, e, sql.NewContext, memory.NewSessionBuilder(pro), nil)
	if err != nil {
		vio.Fatal("server: %v", err)
	}
	go func() {
		if err := srv.Start(); err != nil {
			fmt.Fprintln(os.Stderr, "server stopped:", err)
		}
	}()
	if err := os.WriteFile(addrFile+".tmp", []byte(srv.Listener.Addr().String()), 0o644); err != nil {
		vio.Fatal("%v", err)
	}
	os.Rename(addrFile+".tmp", addrFile)
	io.Copy(io.Discard, os.Stdin) // lives as long as the parent keeps stdin open
	os.Exit(0)
}

// ---- the parent: the driver ------------------------------------------------------------------------------

type Acct struct {
	User   string `json:"user"`
	Host   string `json:"host"`
	Pw     string `json:"pw"`
	Plugin string `json:"plugin"`
	Locked string `json:"locked"`
}

type Proof struct {
	K    string `json:"k"`
	Pw   string `json:"pw"`
	N    int    `json:"n"`
	Base string `json:"base"`
}

type Attempt struct {
	User  string `json:"user"`
	TLS   bool   `json:"tls"`
	Proof Proof  `json:"proof"`
}

type AuthCase struct {
	ID    int             `json:"id"`
	Accts json.RawMessage `json:"accts"`
	Att   json.RawMessage `json:"att"`
}

type AuthOut struct {
	O    string `json:"o"` // accept | reject | dropped | crash | switch | timeout | error
	Cu   string `json:"cu"`
	Code int    `json:"code"`
	Note string `json:"note,omitempty"`
}

type AuthEvent struct {
	Ev    string          `json:"ev"` // begin | end
	ID    int             `json:"id"`
	Accts json.RawMessage `json:"accts,omitempty"`
	Att   json.RawMessage `json:"att,omitempty"`
	Out   *AuthOut        `json:"out,omitempty"`
}

type childProc struct {
	cmd    *exec.Cmd
	stdin  io.WriteCloser
	dead   chan struct{}
	addr   string
	logf   string
	admin  *dsql.DB
	starts int
}

func startChild(dir string, n int) *childProc {
	c := &childProc{dead: make(chan struct{})}
	addrFile := fmt.Sprintf("%s/addr-%d", dir, n)
	c.logf = fmt.Sprintf("%s/server-%d.log", dir, n)
	lf, err := os.Create(c.logf)
	if err != nil {
		vio.Fatal("%v", err)
	}
	c.cmd = exec.Command(os.Args[0], "-mode", "authchild", "-addr", addrFile)
	c.cmd.Stderr = lf
	c.cmd.Stdout = lf
	c.stdin, _ = c.cmd.StdinPipe()
	if err := c.cmd.Start(); err != nil {
		vio.Fatal("child: %v", err)
	}
	go func() { c.cmd.Wait(); lf.Close(); close(c.dead) }()
	for i := 0; ; i++ {
		if b, err := os.ReadFile(addrFile); err == nil {
			c.addr = string(b)
			break
		}
		select {
		case <-c.dead:
			vio.Fatal("server child died while starting: %s", tail(c.logf))
		default:
		}
		if i > 600 {
			vio.Fatal("server child did not start")
		}
		time.Sleep(50 * time.Millisecond)
	}
	db, err := dsql.Open("mysql", fmt.Sprintf("root:@tcp(%s)/", c.addr))
	if err != nil {
		vio.Fatal("admin: %v", err)
	}
	db.SetMaxOpenConns(1)
	c.admin = db
	return c
}

func (c *childProc) isDead(wait time.Duration) bool {
	select {
	case <-c.dead:
		return true
	case <-time.After(wait):
		return false
	}
}

func (c *childProc) stop() {
	if c.admin != nil {
		c.admin.Close()
	}
	c.stdin.Close()
	select {
	case <-c.dead:
	case <-time.After(3 * time.Second):
		c.cmd.Process.Kill()
	}
}

// tail: the interesting end of the server log (from the last panic report on, else the last bytes).
func tail(path string) string {
	b, _ := os.ReadFile(path)
	if k := bytes.LastIndex(b, []byte("panic")); k >= 0 {
		if k > 200 {
			k -= 200
		} else {
			k = 0
		}
		b = b[k:]
		if len(b) > 1800 {
			b = b[:1800]
		}
		return string(b)
	}
	if len(b) > 1500 {
		b = b[len(b)-1500:]
	}
	return string(b)
}

func q(s string) string { return "'" + strings.ReplaceAll(s, "'", "''") + "'" }

var pluginName = map[string]string{"native": "mysql_native_password", "sha2": "caching_sha2_password"}

// configure replaces every account except root by the accounts of the case, through SQL.
func (c *childProc) configure(accts []Acct) error {
	// DROP USER resolves its operand the way a connecting client is matched (GetUser), so
	// DROP USER 'alice'@'127.0.0.1' may remove 'alice'@'127.0.0.%' instead: drop until none is left.
	for round := 0; ; round++ {
		rows, err := c.admin.Query("SELECT user, host FROM mysql.user")
		if err != nil {
			return err
		}
		var drop [][2]string
		for rows.Next() {
			var u, h string
			if err := rows.Scan(&u, &h); err != nil {
				return err
			}
			if !(u == "root" && h == "localhost") {
				drop = append(drop, [2]string{u, h})
			}
		}
		rows.Close()
		if len(drop) == 0 {
			break
		}
		if round > 20 {
			return fmt.Errorf("cannot drop %v", drop)
		}
		c.admin.Exec("DROP USER " + q(drop[0][0]) + "@" + q(drop[0][1]))
	}
	for _, a := range accts {
		st := "CREATE USER " + q(a.User) + "@" + q(a.Host) + " IDENTIFIED WITH " + pluginName[a.Plugin]
		if a.Pw != "none" {
			st += " BY " + q(a.Pw)
		}
		if a.Locked == "create" {
			st += " ACCOUNT LOCK"
		}
		if _, err := c.admin.Exec(st); err != nil {
			return fmt.Errorf("%s: %w", st, err)
		}
		if a.Locked == "update" {
			if _, err := c.admin.Exec("UPDATE mysql.user SET account_locked = 'Y' WHERE user = " + q(a.User) + " AND host = " + q(a.Host)); err != nil {
				return fmt.Errorf("lock: %w", err)
			}
		}
	}
	return nil
}

// ---- attempts --------------------------------------------------------------------------------------------

func wellFormed(addr string, att Attempt) AuthOut {
	cfg := gomysql.NewConfig()
	cfg.User = att.User
	if att.Proof.Pw != "none" {
		cfg.Passwd = att.Proof.Pw
	}
	cfg.Net, cfg.Addr = "tcp", addr
	cfg.Timeout, cfg.ReadTimeout, cfg.WriteTimeout = 5*time.Second, 10*time.Second, 10*time.Second
	cfg.AllowNativePasswords = true
	if att.TLS {
		cfg.TLSConfig = "verif"
	}
	conn, err := gomysql.NewConnector(cfg)
	if err != nil {
		return AuthOut{O: "error", Note: err.Error()}
	}
	db := dsql.OpenDB(conn)
	defer db.Close()
	ctx, cancel := context.WithTimeout(context.Background(), 15*time.Second)
	defer cancel()
	c, err := db.Conn(ctx)
	if err != nil {
		var me *gomysql.MySQLError
		switch {
		case errors.As(err, &me):
			return AuthOut{O: "reject", Code: int(me.Number), Note: me.Message}
		case errors.Is(err, context.DeadlineExceeded):
			return AuthOut{O: "timeout", Note: err.Error()}
		case strings.Contains(err.Error(), "invalid connection"), strings.Contains(err.Error(), "bad connection"),
			strings.Contains(err.Error(), "EOF"), strings.Contains(err.Error(), "connection reset"), strings.Contains(err.Error(), "broken pipe"):
			return AuthOut{O: "dropped", Note: err.Error()}
		}
		return AuthOut{O: "error", Note: err.Error()}
	}
	defer c.Close()
	var cu string
	if err := c.QueryRowContext(ctx, "SELECT CURRENT_USER()").Scan(&cu); err != nil {
		return AuthOut{O: "accept", Cu: "?", Note: "CURRENT_USER(): " + err.Error()}
	}
	return AuthOut{O: "accept", Cu: cu}
}

func readPacket(c net.Conn) ([]byte, byte, error) {
	var h [4]byte
	if _, err := io.ReadFull(c, h[:]); err != nil {
		return nil, 0, err
	}
	n := int(h[0]) | int(h[1])<<8 | int(h[2])<<16
	b := make([]byte, n)
	if _, err := io.ReadFull(c, b); err != nil {
		return nil, 0, err
	}
	return b, h[3], nil
}

func writePacket(c net.Conn, seq byte, p []byte) error {
	h := []byte{byte(len(p)), byte(len(p) >> 8), byte(len(p) >> 16), seq}
	_, err := c.Write(append(h, p...))
	return err
}

func nativeScramble(salt []byte, pw string) []byte {
	s1 := sha1.Sum([]byte(pw))
	s2 := sha1.Sum(s1[:])
	h := sha1.New()
	h.Write(salt)
	h.Write(s2[:])
	x := h.Sum(nil)
	for i := range x {
		x[i] ^= s1[i]
	}
	return x
}

func junk(rng *rand.Rand, n int) []byte {
	b := make([]byte, n)
	for i := range b {
		b[i] = byte(1 + rng.Intn(255))
	}
	return b
}

// response builds the bytes the raw client answers with (the specification only knows their class).
func response(p Proof, salt []byte, rng *rand.Rand) []byte {
	s := nativeScramble(salt, "pw1")
	switch p.K {
	case "exact": // the valid proof itself (the salt was chosen so that it starts / ends with 0x00)
		return s
	case "padded": // the valid proof with n-20 NUL bytes after / before it
		pad := make([]byte, p.N-20)
		if p.Base == "lead" {
			return append(pad, s...)
		}
		return append(s, pad...)
	case "allnul":
		return make([]byte, p.N)
	case "empty":
		return []byte{}
	}
	if p.Base == "right" {
		if p.N <= 20 {
			return s[:p.N]
		}
		return append(s, junk(rng, p.N-20)...)
	}
	return junk(rng, p.N)
}

// shapeOK: does the handshake's salt give the scramble the shape an "exact" proof asks for?
func shapeOK(p Proof, salt []byte) bool {
	if p.K != "exact" {
		return true
	}
	s := nativeScramble(salt, "pw1")
	switch p.Base {
	case "end0":
		return s[19] == 0
	case "start0":
		return s[0] == 0
	}
	return false
}

// greet connects and reads the HandshakeV10 packet; returns the 20-byte salt.
func greet(addr string) (net.Conn, []byte, error) {
	c, err := net.DialTimeout("tcp", addr, 5*time.Second)
	if err != nil {
		return nil, nil, fmt.Errorf("dial: %w", err)
	}
	c.SetDeadline(time.Now().Add(8 * time.Second))
	hs, _, err := readPacket(c)
	if err != nil || len(hs) < 40 || hs[0] != 10 {
		c.Close()
		return nil, nil, fmt.Errorf("handshake: %v", err)
	}
	i := 1 + bytes.IndexByte(hs[1:], 0) + 1 // protocol version, server version NUL
	i += 4                                  // connection id
	salt := append([]byte{}, hs[i:i+8]...)
	i += 8 + 1 + 2 + 1 + 2 + 2 // part 1, filler, caps low, charset, status, caps high
	alen := int(hs[i])
	i += 1 + 10
	n2 := alen - 8
	if n2 < 13 {
		n2 = 13
	}
	salt = append(salt, hs[i:i+n2]...)
	return c, salt[:20], nil
}

const maxSaltTries = 20000 // (255/256)^20000 ~ 1e-34
const saltWorkers = 4

// rawAttempt speaks the connection phase by hand: HandshakeV10 <- , HandshakeResponse41 -> with the
// chosen bytes as auth response, then reads OK / ERR / auth switch. Without TLS it announces
// mysql_native_password; with TLS (SSLRequest, TLS handshake first) caching_sha2_password. For an
// "exact" proof it reconnects until the server's salt gives the scramble the requested shape (the
// server draws the salt; about 256 connections).
func rawAttempt(addr string, att Attempt, rng *rand.Rand) AuthOut {
	var c net.Conn
	var salt []byte
	tries := int64(1)
	if att.Proof.K != "exact" {
		var err error
		if c, salt, err = greet(addr); err != nil {
			if strings.HasPrefix(err.Error(), "dial") {
				return AuthOut{O: "dropped", Note: err.Error()}
			}
			return AuthOut{O: "error", Note: err.Error()}
		}
	} else {
		// a few connections at a time; the first handshake with a suitable salt is the one answered
		type hit struct {
			c    net.Conn
			salt []byte
			err  error
		}
		hits := make(chan hit)
		done := make(chan struct{})
		var n int64
		for w := 0; w < saltWorkers; w++ {
			go func() {
				for {
					select {
					case <-done:
						return
					default:
					}
					if atomic.AddInt64(&n, 1) > maxSaltTries {
						select {
						case hits <- hit{err: fmt.Errorf("no salt of the requested shape in %d handshakes", maxSaltTries)}:
						case <-done:
						}
						return
					}
					hc, hsalt, err := greet(addr)
					if err == nil && !shapeOK(att.Proof, hsalt) {
						hc.Close()
						continue
					}
					select {
					case hits <- hit{hc, hsalt, err}:
					case <-done:
						if hc != nil {
							hc.Close()
						}
					}
					return
				}
			}()
		}
		h := <-hits
		close(done)
		tries = atomic.LoadInt64(&n)
		if h.err != nil {
			return AuthOut{O: "error", Note: h.err.Error()}
		}
		c, salt = h.c, h.salt
	}
	defer func() { c.Close() }()
	c.SetDeadline(time.Now().Add(8 * time.Second))
	o := rawExchange(c, salt, att, rng)
	if att.Proof.K == "exact" {
		o.Note = fmt.Sprintf("salt %x after about %d handshakes; %s", salt, tries, o.Note)
	}
	return o
}

func rawExchange(c net.Conn, salt []byte, att Attempt, rng *rand.Rand) AuthOut {
	caps := uint32(0x1 | 0x200 | 0x8000 | 0x2000 | 0x80000) // LONG_PASSWORD, PROTOCOL_41, SECURE_CONNECTION, TRANSACTIONS, PLUGIN_AUTH
	plugin := "mysql_native_password"
	seq := byte(1)
	if att.TLS {
		caps |= 0x800 // CLIENT_SSL
		plugin = "caching_sha2_password"
		var r bytes.Buffer
		binary.Write(&r, binary.LittleEndian, caps)
		binary.Write(&r, binary.LittleEndian, uint32(1<<24-1))
		r.WriteByte(33)
		r.Write(make([]byte, 23))
		if err := writePacket(c, seq, r.Bytes()); err != nil {
			return AuthOut{O: "dropped", Note: "write: " + err.Error()}
		}
		seq++
		tc := tls.Client(c, &tls.Config{InsecureSkipVerify: true})
		tc.SetDeadline(time.Now().Add(8 * time.Second))
		if err := tc.Handshake(); err != nil {
			return AuthOut{O: "error", Note: "tls: " + err.Error()}
		}
		c = tc
	}
	resp := response(att.Proof, salt, rng)
	var p bytes.Buffer
	binary.Write(&p, binary.LittleEndian, caps)
	binary.Write(&p, binary.LittleEndian, uint32(1<<24-1))
	p.WriteByte(33)
	p.Write(make([]byte, 23))
	p.WriteString(att.User)
	p.WriteByte(0)
	p.WriteByte(byte(len(resp)))
	p.Write(resp)
	p.WriteString(plugin)
	p.WriteByte(0)
	if err := writePacket(c, seq, p.Bytes()); err != nil {
		return AuthOut{O: "dropped", Note: "write: " + err.Error()}
	}
	for round := 0; round < 3; round++ {
		r, rseq, err := readPacket(c)
		if err != nil {
			if ne, ok := err.(net.Error); ok && ne.Timeout() {
				return AuthOut{O: "timeout", Note: err.Error()}
			}
			return AuthOut{O: "dropped", Note: err.Error()}
		}
		if len(r) == 0 {
			return AuthOut{O: "error", Note: "empty packet"}
		}
		switch r[0] {
		case 0x00:
			return AuthOut{O: "accept"}
		case 0xff:
			code := 0
			if len(r) >= 3 {
				code = int(r[1]) | int(r[2])<<8
			}
			return AuthOut{O: "reject", Code: code, Note: string(r[3:])}
		case 0x01: // AuthMoreData: 0x03 = fast auth succeeded (OK follows), 0x04 = full authentication wanted
			if len(r) >= 2 && r[1] == 0x03 {
				continue
			}
			return AuthOut{O: "switch", Note: fmt.Sprintf("more data wanted: %x", r)}
		case 0xfe:
			j := bytes.IndexByte(r[1:], 0)
			if j < 0 {
				return AuthOut{O: "error", Note: "bad auth switch"}
			}
			to := string(r[1 : 1+j])
			if (to != "mysql_native_password" && to != "caching_sha2_password") || round >= 1 {
				return AuthOut{O: "switch", Note: to}
			}
			nsalt := r[1+j+1:]
			if len(nsalt) > 20 {
				nsalt = nsalt[:20]
			}
			// (the same kind of bytes under the new salt; an "exact" proof keeps its validity, not its shape)
			if err := writePacket(c, rseq+1, response(att.Proof, nsalt, rng)); err != nil {
				return AuthOut{O: "dropped", Note: "write: " + err.Error()}
			}
		default:
			return AuthOut{O: "error", Note: fmt.Sprintf("unexpected packet 0x%02x", r[0])}
		}
	}
	return AuthOut{O: "error", Note: "no final packet"}
}

func authDriver(file, out string, seed int64) {
	gomysql.RegisterTLSConfig("verif", &tls.Config{InsecureSkipVerify: true})
	gomysql.SetLogger(nopLogger{})
	dir, err := os.MkdirTemp("", "verif-auth-")
	if err != nil {
		vio.Fatal("%v", err)
	}
	defer os.RemoveAll(dir)
	wr, err := vio.NewWriter(out)
	if err != nil {
		vio.Fatal("%v", err)
	}
	defer wr.Close()
	rng := rand.New(rand.NewSource(seed))
	rep := &vio.Report{Extra: map[string]interface{}{}}
	byOut := map[string]int{}
	nchild := 0
	ch := startChild(dir, nchild)
	defer func() { ch.stop() }()
	cur := ""
	crashes, panics := 0, 0
	err = vio.ReadNDJSON(file, func(i int, line []byte) error {
		var cs AuthCase
		if err := json.Unmarshal(line, &cs); err != nil {
			return err
		}
		var accts []Acct
		var att Attempt
		if err := json.Unmarshal(cs.Accts, &accts); err != nil {
			return err
		}
		if err := json.Unmarshal(cs.Att, &att); err != nil {
			return err
		}
		if string(cs.Accts) != cur {
			if err := ch.configure(accts); err != nil {
				vio.Fatal("configure accounts %s: %v\n%s", cs.Accts, err, tail(ch.logf))
			}
			cur = string(cs.Accts)
		}
		rep.Cases++
		wr.Write(AuthEvent{Ev: "begin", ID: cs.ID})
		wr.Flush()
		logBefore, _ := os.Stat(ch.logf)
		var o AuthOut
		if att.Proof.K == "password" {
			o = wellFormed(ch.addr, att)
		} else {
			o = rawAttempt(ch.addr, att, rng)
		}
		// a recovered panic of the connection goroutine is logged by the listener; anything else that is
		// neither OK nor ERR gets a moment for the process to turn out dead
		recovered := false
		if o.O == "dropped" {
			if b, err := os.ReadFile(ch.logf); err == nil && logBefore != nil && int64(len(b)) > logBefore.Size() {
				nb := b[logBefore.Size():]
				if k := bytes.Index(nb, []byte("caught panic")); k >= 0 {
					recovered = true
					panics++
					e := k + 200
					if e > len(nb) {
						e = len(nb)
					}
					o.Note = "server log: " + string(nb[k:e])
				}
			}
		}
		wait := time.Duration(0)
		if o.O != "accept" && o.O != "reject" && !recovered {
			wait = 300 * time.Millisecond
		}
		if ch.isDead(wait) {
			o = AuthOut{O: "crash", Note: tail(ch.logf)}
			crashes++
			nchild++
			ch = startChild(dir, nchild)
			if err := ch.configure(accts); err != nil {
				vio.Fatal("configure after crash: %v", err)
			}
		}
		byOut[o.O]++
		wr.Write(AuthEvent{Ev: "end", ID: cs.ID, Accts: cs.Accts, Att: cs.Att, Out: &o})
		return nil
	})
	if err != nil {
		vio.Fatal("%v", err)
	}
	rep.Extra["by_outcome"] = byOut
	rep.Extra["server_crashes"] = crashes
	rep.Extra["server_panics_logged"] = panics
	rep.Extra["server_starts"] = nchild + 1
	rep.Emit()
}

type nopLogger struct{}

func (nopLogger) Print(v ...interface{}) {}
