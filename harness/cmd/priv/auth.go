package main

func authDriver(file, out string, seed int64) {}
func authChild(file, addr string)              {}
