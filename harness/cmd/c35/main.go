// c35: drivers of property C35 (clients receive exactly the engine's results over the wire).
//
//	-mode handler -plan cases.ndjson -out trace.ndjson     handler-level executions (binding B of spec/Spool.tla)
//	-mode e2e -clients C -stmts M -seed S -out trace.ndjson  TCP server + database/sql clients vs. a twin engine
//
// The binaries only record; spec/Trace_Spool.tla (TLC) judges.
package main

import (
	"encoding/json"
	"flag"
	"io"

	"github.com/sirupsen/logrus"

	"gmsverif/lib/vio"
)

func jsonUnmarshal(b []byte, v interface{}) error { return json.Unmarshal(b, v) }

func main() {
	mode := flag.String("mode", "handler", "handler | e2e")
	plan := flag.String("plan", "", "handler mode: ndjson of cases")
	out := flag.String("out", "", "trace output (ndjson)")
	clients := flag.Int("clients", 4, "e2e: concurrent clients")
	stmts := flag.Int("stmts", 40, "e2e: statements per client")
	seed := flag.Int64("seed", 1, "")
	only := flag.Int("only", 0, "e2e: run only this client (same statements as in the concurrent run)")
	flag.Parse()
	logrus.SetOutput(io.Discard)
	logrus.SetLevel(logrus.PanicLevel)
	if *out == "" {
		vio.Fatal("-out required")
	}
	switch *mode {
	case "handler":
		handlerMode(*plan, *out)
	case "e2e":
		e2eMode(*clients, *stmts, *seed, *out, *only)
	default:
		vio.Fatal("unknown mode %s", *mode)
	}
}
