package main

// Row-source tables of the harness database "src": iterators that yield the rows (k, "r<k>" | NULL)
// for k = 1..N in this order and can fail, stall or fire a hook at the k-th call of Next.
//
//	t<N>        N rows, no fault                       (both engines of the end-to-end mode)
//	f<N>_<k>    N rows, the k-th Next returns an error (both engines of the end-to-end mode)
//	v<N>        as t<N> through the sql.ValueRowIter interface (resultForValueRowIter)
//	h<N>, hv<N> as t<N> / v<N>, faults taken from the current Plan (handler-level mode, sequential)

import (
	"encoding/binary"
	"errors"
	"fmt"
	"io"
	"strconv"
	"strings"
	"sync/atomic"

	"github.com/dolthub/vitess/go/vt/proto/query"

	"github.com/dolthub/go-mysql-server/sql"
	"github.com/dolthub/go-mysql-server/sql/types"
)

// Plan is the fault plan of the handler-level execution in progress.
type Plan struct {
	IterErr int    // k-th Next returns errIter
	StallAt int    // k-th Next blocks until ctx is done, returns ctx.Err()
	HookAt  int    // Hook() is called inside the k-th Next, before it returns
	Hook    func() // e.g. KILL QUERY issued synchronously on another connection
}

var curPlan atomic.Pointer[Plan]
var openIters atomic.Int64 // created and not yet closed row iterators
var nextCalls atomic.Int64
var valueRowCalls atomic.Int64 // calls of NextValueRow: the resultForValueRowIter pipeline was taken

var errIter = errors.New("c35-iter-fault")

type srcDB struct{}

func (srcDB) Name() string { return "src" }

func (srcDB) GetTableNames(*sql.Context) ([]string, error) { return []string{}, nil }

func (srcDB) GetTableInsensitive(_ *sql.Context, name string) (sql.Table, bool, error) {
	name = strings.ToLower(name)
	t := &srcTable{name: name}
	rest := ""
	switch {
	case strings.HasPrefix(name, "hv"):
		t.usePlan, t.valueRows, rest = true, true, name[2:]
	case strings.HasPrefix(name, "h"):
		t.usePlan, rest = true, name[1:]
	case strings.HasPrefix(name, "t"):
		rest = name[1:]
	case strings.HasPrefix(name, "v"):
		t.valueRows, rest = true, name[1:]
	case strings.HasPrefix(name, "f"):
		parts := strings.SplitN(name[1:], "_", 2)
		if len(parts) != 2 {
			return nil, false, nil
		}
		k, err := strconv.Atoi(parts[1])
		if err != nil {
			return nil, false, nil
		}
		t.iterErr, rest = k, parts[0]
	default:
		return nil, false, nil
	}
	n, err := strconv.Atoi(rest)
	if err != nil || n < 0 || n > 100000 {
		return nil, false, nil
	}
	t.n = n
	return t, true, nil
}

type srcTable struct {
	name      string
	n         int
	iterErr   int
	usePlan   bool
	valueRows bool
}

func (t *srcTable) Name() string   { return t.name }
func (t *srcTable) String() string { return t.name }
func (t *srcTable) Schema(*sql.Context) sql.Schema {
	return sql.Schema{
		{Name: "id", Type: types.Int32, Nullable: false, Source: t.name, DatabaseSource: "src"},
		{Name: "v", Type: types.MustCreateStringWithDefaults(query.Type_VARCHAR, 20), Nullable: true, Source: t.name, DatabaseSource: "src"},
	}
}
func (t *srcTable) Collation() sql.CollationID { return sql.Collation_Default }

type srcPartition struct{}

func (srcPartition) Key() []byte { return []byte("p") }

func (t *srcTable) Partitions(*sql.Context) (sql.PartitionIter, error) {
	return sql.PartitionsToPartitionIter(srcPartition{}), nil
}

func (t *srcTable) PartitionRows(*sql.Context, sql.Partition) (sql.RowIter, error) {
	it := &srcIter{t: t, iterErr: t.iterErr}
	if t.usePlan {
		if p := curPlan.Load(); p != nil {
			it.plan = p
			it.iterErr = p.IterErr
		}
	}
	openIters.Add(1)
	if t.valueRows {
		return &srcValueIter{it}, nil
	}
	return it, nil
}

type srcIter struct {
	t       *srcTable
	plan    *Plan
	iterErr int
	calls   int
	closed  bool
}

func rowV(k int) interface{} {
	if k%7 == 0 {
		return nil
	}
	return fmt.Sprintf("r%d", k)
}

// step is one call of Next: the row number to yield, or an error.
func (i *srcIter) step(ctx *sql.Context) (int, error) {
	i.calls++
	nextCalls.Add(1)
	k := i.calls
	if p := i.plan; p != nil {
		if p.HookAt == k && p.Hook != nil {
			p.Hook()
		}
		if p.StallAt == k {
			<-ctx.Done()
			return 0, ctx.Err()
		}
	}
	if i.iterErr == k {
		return 0, errIter
	}
	if k > i.t.n {
		return 0, io.EOF
	}
	return k, nil
}

func (i *srcIter) Next(ctx *sql.Context) (sql.Row, error) {
	k, err := i.step(ctx)
	if err != nil {
		return nil, err
	}
	return sql.Row{int32(k), rowV(k)}, nil
}

func (i *srcIter) Close(*sql.Context) error {
	if !i.closed {
		i.closed = true
		openIters.Add(-1)
	}
	return nil
}

type srcValueIter struct{ *srcIter }

func (i *srcValueIter) IsValueRowIter(*sql.Context) bool { return true }

func (i *srcValueIter) NextValueRow(ctx *sql.Context) (sql.ValueRow, error) {
	valueRowCalls.Add(1)
	k, err := i.step(ctx)
	if err != nil {
		return nil, err
	}
	b := make([]byte, 4)
	binary.LittleEndian.PutUint32(b, uint32(int32(k)))
	row := sql.ValueRow{{Val: b, Typ: query.Type_INT32}, sql.NullValue}
	if v := rowV(k); v != nil {
		row[1] = sql.Value{Val: []byte(v.(string)), Typ: query.Type_VARCHAR}
	}
	return row, nil
}
