package main

// End-to-end binding: the real TCP server (127.0.0.1:0) + database/sql with go-sql-driver/mysql, 1..16
// concurrent clients; every statement is also executed by the in-process engine on a twin database.
// One event per statement with both outcomes; spec/Trace_Spool.tla (SameOutcome) judges.

import (
	"context"
	dsql "database/sql"
	"errors"
	"fmt"
	"math/rand"
	"strings"
	"sync"
	"time"

	gomysql "github.com/go-sql-driver/mysql"

	"github.com/dolthub/go-mysql-server/memory"
	"github.com/dolthub/go-mysql-server/sql"
	"github.com/dolthub/go-mysql-server/sql/types"

	"gmsverif/lib/vio"
)

type Outcome struct {
	Kind     string     `json:"kind"` // rows | ok | err | hang
	Cols     []string   `json:"cols"`
	Rows     [][]string `json:"rows"` // values: "n" | "i:<decimal>" | "s:<text>"
	Affected int        `json:"affected"`
	InsertID int        `json:"insert_id"`
	Code     int        `json:"code"` // MySQL error number; 0 = the connection broke mid-stream
	Msg      string     `json:"msg"`
}

func newOutcome(kind string) Outcome { return Outcome{Kind: kind, Cols: []string{}, Rows: [][]string{}} }

type Stmt struct {
	SQL  string
	Args []interface{}
	Twin string // the same statement with the arguments as literals
	Exec bool
	Tag  string
}

type SEvent struct {
	Ev     string  `json:"ev"`
	ID     int     `json:"id"`
	Client int     `json:"client"`
	Proto  string  `json:"proto"`
	SQL    string  `json:"sql"`
	Tag    string  `json:"tag"`
	C      Outcome `json:"c"`
	E      Outcome `json:"e"`
}

var sizes = []int{0, 1, 2, 127, 128, 129, 255, 256, 257, 300, 511, 512, 513, 1000}

func lit(a interface{}) string {
	switch x := a.(type) {
	case int:
		return fmt.Sprint(x)
	case string:
		return "'" + x + "'"
	case nil:
		return "NULL"
	}
	panic("lit")
}

func mk(tag string, exec bool, q string, args ...interface{}) Stmt {
	twin := q
	for _, a := range args {
		twin = strings.Replace(twin, "?", lit(a), 1)
	}
	return Stmt{SQL: q, Args: args, Twin: twin, Exec: exec, Tag: tag}
}

func genStmt(rng *rand.Rand, client int) Stmt {
	n := sizes[rng.Intn(len(sizes))]
	t := fmt.Sprintf("c%d", client)
	word := []string{"a", "bb", "ccc", "x y", "zz9"}[rng.Intn(5)]
	switch r := rng.Intn(100); {
	case r < 14:
		return mk("src", false, fmt.Sprintf("SELECT id, v FROM src.t%d", n))
	case r < 20:
		return mk("src-filter", false, fmt.Sprintf("SELECT id, v FROM src.t%d WHERE id <= %d", n, rng.Intn(n+2)))
	case r < 30:
		return mk("src-bin", false, fmt.Sprintf("SELECT id, v FROM src.t%d WHERE id <= ?", n), rng.Intn(n+2))
	case r < 36:
		return mk("vsrc", false, fmt.Sprintf("SELECT id, v FROM src.v%d", n))
	case r < 40:
		return mk("vsrc-bin", false, fmt.Sprintf("SELECT id, v FROM src.v%d WHERE id >= ?", n), 1+rng.Intn(3))
	case r < 47:
		return mk("mem", false, fmt.Sprintf("SELECT pk, a, s FROM %s ORDER BY pk", t))
	case r < 52:
		return mk("mem-bin", false, fmt.Sprintf("SELECT pk, a, s FROM %s WHERE a >= ? ORDER BY pk", t), rng.Intn(200))
	case r < 58:
		return mk("shared", false, fmt.Sprintf("SELECT pk, a, s FROM shr WHERE pk <= %d ORDER BY pk", n))
	case r < 61:
		return mk("agg", false, fmt.Sprintf("SELECT COUNT(*), MAX(a) FROM %s", t))
	case r < 66:
		return mk("insert", true, fmt.Sprintf("INSERT INTO %s (a, s) VALUES (%d, '%s'), (%d, NULL)", t, rng.Intn(300), word, rng.Intn(300)))
	case r < 71:
		return mk("insert-bin", true, fmt.Sprintf("INSERT INTO %s (a, s) VALUES (?, ?)", t), rng.Intn(300), word)
	case r < 76:
		return mk("insert-bulk", true, fmt.Sprintf("INSERT INTO %s (a, s) SELECT id, v FROM src.t%d", t, []int{127, 128, 129, 257}[rng.Intn(4)]))
	case r < 80:
		return mk("update", true, fmt.Sprintf("UPDATE %s SET a = a + 1 WHERE pk %% 3 = %d", t, rng.Intn(3)))
	case r < 83:
		return mk("update-bin", true, fmt.Sprintf("UPDATE %s SET s = ? WHERE a < ?", t), word, rng.Intn(300))
	case r < 87:
		return mk("delete", true, fmt.Sprintf("DELETE FROM %s WHERE pk %% 4 = %d", t, rng.Intn(4)))
	case r < 89:
		return mk("delete-all", true, fmt.Sprintf("DELETE FROM %s WHERE pk > ?", t), 0)
	case r < 91:
		return mk("fail-col", false, fmt.Sprintf("SELECT nope FROM %s", t))
	case r < 92:
		return mk("fail-syntax", false, "SELEC 1")
	case r < 94:
		return mk("fail-long", true, fmt.Sprintf("INSERT INTO %s (a, s) VALUES (1, 'this string is much too long for a varchar of twenty')", t))
	case r < 96:
		return mk("fail-early", false, "SELECT id, v FROM src.f100_50")
	case r < 98:
		return mk("fail-midstream", false, fmt.Sprintf("SELECT id, v FROM src.f%d_%d", 300+rng.Intn(300), 130+rng.Intn(170)))
	default:
		return mk("fail-midstream-bin", false, "SELECT id, v FROM src.f600_400 WHERE id >= ?", 1)
	}
}

func isIntType(name string) bool {
	name = strings.ToUpper(name)
	for _, p := range []string{"TINYINT", "SMALLINT", "MEDIUMINT", "INT", "BIGINT", "UNSIGNED"} {
		if strings.HasPrefix(name, p) {
			return true
		}
	}
	return false
}

func clientErr(err error) Outcome {
	o := newOutcome("err")
	var me *gomysql.MySQLError
	if errors.As(err, &me) {
		o.Code = int(me.Number)
	}
	o.Msg = trunc(err.Error())
	return o
}

func trunc(s string) string {
	if len(s) > 160 {
		return s[:160]
	}
	return s
}

func runClientStmt(conn *dsql.Conn, st Stmt) Outcome {
	ctx, cancel := context.WithTimeout(context.Background(), 60*time.Second)
	defer cancel()
	hang := func(err error) bool { return errors.Is(err, context.DeadlineExceeded) || ctx.Err() != nil }
	if st.Exec {
		res, err := conn.ExecContext(ctx, st.SQL, st.Args...)
		if err != nil {
			if hang(err) {
				return newOutcome("hang")
			}
			return clientErr(err)
		}
		o := newOutcome("ok")
		a, _ := res.RowsAffected()
		id, _ := res.LastInsertId()
		o.Affected, o.InsertID = int(a), int(id)
		return o
	}
	rows, err := conn.QueryContext(ctx, st.SQL, st.Args...)
	if err != nil {
		if hang(err) {
			return newOutcome("hang")
		}
		return clientErr(err)
	}
	defer rows.Close()
	o := newOutcome("rows")
	cols, _ := rows.Columns()
	o.Cols = append(o.Cols, cols...)
	cts, _ := rows.ColumnTypes()
	vals := make([]dsql.RawBytes, len(cols))
	ptrs := make([]interface{}, len(cols))
	for i := range vals {
		ptrs[i] = &vals[i]
	}
	for rows.Next() {
		if err := rows.Scan(ptrs...); err != nil {
			return clientErr(err)
		}
		r := make([]string, len(cols))
		for i, v := range vals {
			switch {
			case v == nil:
				r[i] = "n"
			case i < len(cts) && isIntType(cts[i].DatabaseTypeName()):
				r[i] = "i:" + string(v)
			default:
				r[i] = "s:" + string(v)
			}
		}
		o.Rows = append(o.Rows, r)
	}
	if err := rows.Err(); err != nil {
		if hang(err) {
			return newOutcome("hang")
		}
		return clientErr(err)
	}
	return o
}

func engineErr(err error) Outcome {
	o := newOutcome("err")
	if se := sql.CastSQLError(err); se != nil {
		o.Code = se.Number()
	}
	o.Msg = trunc(err.Error())
	return o
}

func runEngineStmt(f *fixture, sess *memory.Session, q string) (o Outcome) {
	defer func() {
		if r := recover(); r != nil {
			o = newOutcome("panic")
			o.Msg = trunc(fmt.Sprint(r))
		}
	}()
	ctx := sql.NewContext(context.Background(), sql.WithSession(sess))
	ctx.SetCurrentDatabase("d")
	sch, iter, _, err := f.eng.Query(ctx, q)
	if err != nil {
		return engineErr(err)
	}
	rows, err := sql.RowIterToRows(ctx, iter)
	if err != nil {
		return engineErr(err)
	}
	if types.IsOkResultSchema(sch) && len(rows) == 1 {
		if ok, isOk := rows[0][0].(types.OkResult); isOk {
			o = newOutcome("ok")
			o.Affected, o.InsertID = int(ok.RowsAffected), int(ok.InsertID)
			return o
		}
	}
	o = newOutcome("rows")
	for _, c := range sch {
		o.Cols = append(o.Cols, c.Name)
	}
	for _, r := range rows {
		out := make([]string, len(r))
		for i, v := range r {
			switch x := v.(type) {
			case nil:
				out[i] = "n"
			case int8, int16, int32, int64, int, uint8, uint16, uint32, uint64, uint:
				out[i] = fmt.Sprintf("i:%d", x)
			case string:
				out[i] = "s:" + x
			case []byte:
				out[i] = "s:" + string(x)
			default:
				out[i] = fmt.Sprintf("?%T:%v", v, v)
			}
		}
		o.Rows = append(o.Rows, out)
	}
	return o
}

func (f *fixture) session(id uint32) *memory.Session {
	base := sql.NewBaseSessionWithClientServer("twin", sql.Client{User: "root", Address: "localhost"}, id)
	s := memory.NewSession(base, f.pro)
	s.SetCurrentDatabase("d")
	return s
}

func (f *fixture) seedData(clients int) {
	s := f.session(1)
	must := func(q string) {
		if o := runEngineStmt(f, s, q); o.Kind == "err" || o.Kind == "panic" {
			vio.Fatal("fixture statement failed: %s: %s", q, o.Msg)
		}
	}
	must("CREATE TABLE shr (pk INT PRIMARY KEY, a INT, s VARCHAR(20))")
	must("INSERT INTO shr (pk, a, s) SELECT id, id * 2, v FROM src.t600")
	for i := 1; i <= clients; i++ {
		must(fmt.Sprintf("CREATE TABLE c%d (pk INT PRIMARY KEY AUTO_INCREMENT, a INT, s VARCHAR(20))", i))
		must(fmt.Sprintf("INSERT INTO c%d (a, s) SELECT id, v FROM src.t%d", i, 120+i))
	}
}

func e2eMode(clients, stmts int, seed int64, out string, only int) {
	w, err := vio.NewWriter(out)
	if err != nil {
		vio.Fatal("%v", err)
	}
	srvF := newFixture(0, true)
	twin := newFixture(0, false)
	srvF.seedData(clients)
	twin.seedData(clients)
	go srvF.srv.Start()
	dsn := fmt.Sprintf("root:@tcp(%s)/d?interpolateParams=false", srvF.srv.Listener.Addr().String())
	db, err := dsql.Open("mysql", dsn)
	if err != nil {
		vio.Fatal("open: %v", err)
	}
	db.SetMaxIdleConns(0)
	var twinMu sync.Mutex
	evs := make([][]SEvent, clients+1)
	var wg sync.WaitGroup
	for ci := 1; ci <= clients; ci++ {
		if only != 0 && ci != only {
			continue
		}
		wg.Add(1)
		go func(ci int) {
			defer wg.Done()
			rng := rand.New(rand.NewSource(seed*1000 + int64(ci)))
			sess := twin.session(uint32(1000 + ci))
			var conn *dsql.Conn
			for k := 0; k < stmts; k++ {
				st := genStmt(rng, ci)
				if conn == nil {
					for try := 0; try < 5 && conn == nil; try++ {
						c, err := db.Conn(context.Background())
						if err == nil {
							conn = c
						}
					}
					if conn == nil {
						vio.Fatal("client %d cannot connect", ci)
					}
				}
				c := runClientStmt(conn, st)
				twinMu.Lock()
				e := runEngineStmt(twin, sess, st.Twin)
				twinMu.Unlock()
				proto := "text"
				if len(st.Args) > 0 {
					proto = "bin"
				}
				evs[ci] = append(evs[ci], SEvent{Ev: "stmt", ID: ci*100000 + k, Client: ci, Proto: proto, SQL: st.Twin, Tag: st.Tag, C: c, E: e})
				if c.Kind != "rows" && c.Kind != "ok" {
					// an error may have broken the connection (mid-stream abort): take a fresh one
					conn.Close()
					conn = nil
				}
				if c.Kind == "hang" {
					return
				}
			}
			if conn != nil {
				conn.Close()
			}
		}(ci)
	}
	wg.Wait()
	db.Close()
	srvF.srv.Close()
	rep := &vio.Report{Extra: map[string]interface{}{}}
	byTag := map[string]int{}
	hangs := 0
	for ci := 1; ci <= clients; ci++ {
		for _, e := range evs[ci] {
			w.Write(e)
			rep.Cases++
			byTag[e.Proto+"/"+e.Tag+"/"+e.C.Kind]++
			// non-trivial: the result spans >= 2 batches, or the statement failed mid-stream
			if len(e.C.Rows) > rowsBatchReal || (e.C.Kind == "err" && strings.HasPrefix(e.Tag, "fail-midstream")) {
				rep.Nontrivial++
				if len(rep.Samples) < 2 && e.C.Kind == "err" {
					rep.Samples = append(rep.Samples, e)
				}
			}
			if e.C.Kind == "hang" {
				hangs++
			}
		}
	}
	if err := w.Close(); err != nil {
		vio.Fatal("%v", err)
	}
	rep.Extra["by_tag"] = byTag
	rep.Extra["hangs"] = hangs
	rep.Extra["value_row_calls"] = valueRowCalls.Load()
	rep.Emit()
}

const rowsBatchReal = 128
