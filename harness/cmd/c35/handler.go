package main

// Handler-level binding: the REAL server.Handler (obtained through server.NewServerWithHandler's
// wrapper) is driven through ComQuery / ComMultiQuery / ComPrepare+ComStmtExecute with a recording
// callback.  Events: reset (parameters), kill (logged before the cancellation is issued), cb (one per
// callback invocation), ret (class of the returned error).  No verdict is taken here.

import (
	"context"
	"fmt"
	"net"
	"strconv"
	"strings"
	"sync"
	"time"

	"github.com/dolthub/vitess/go/mysql"
	"github.com/dolthub/vitess/go/sqltypes"
	querypb "github.com/dolthub/vitess/go/vt/proto/query"

	sqle "github.com/dolthub/go-mysql-server"
	"github.com/dolthub/go-mysql-server/memory"
	"github.com/dolthub/go-mysql-server/server"
	"github.com/dolthub/go-mysql-server/sql"

	"gmsverif/lib/vio"
)

type Case struct {
	ID       int    `json:"id"`
	API      string `json:"api"`   // query | multi | stmt
	Table    string `json:"table"` // h | hv
	N        int    `json:"n"`
	IterErr  int    `json:"iterErr"`
	CbErr    int    `json:"cbErr"`
	StallAt  int    `json:"stallAt"`
	Kill     string `json:"kill"`     // "" | iter | cb | async
	KillAt   int    `json:"killAt"`   // Next call (iter, async) or callback number (cb)
	KillKind string `json:"killKind"` // query (KILL QUERY through the process list) | ctx (cancel the caller's context)
	Timeouts bool   `json:"timeouts"` // handler with a read timeout
	Repeat   int    `json:"repeat"`
}

type Params struct {
	N        int  `json:"n"`
	IterErr  int  `json:"iterErr"`
	CbErr    int  `json:"cbErr"`
	StallAt  int  `json:"stallAt"`
	More     bool `json:"more"`
	Timeouts bool `json:"timeouts"`
}

type HEvent struct {
	Ev     string  `json:"ev"`
	ID     int     `json:"id"`
	Rep    int     `json:"rep"`
	P      *Params `json:"p,omitempty"`
	Case   *Case   `json:"case,omitempty"`
	Cnt    int     `json:"cnt"`
	First  int     `json:"first"`
	Last   int     `json:"last"`
	Contig bool    `json:"contig"`
	More   bool    `json:"more"`
	Fields bool    `json:"fields"`
	Cls    string  `json:"cls"`
	Msg    string  `json:"msg"`
	Open   int     `json:"open"`
}

type mockAddr struct{}

func (mockAddr) Network() string { return "tcp" }
func (mockAddr) String() string  { return "localhost:1" }

type mockConn struct{ net.Conn }

func (*mockConn) Close() error         { return nil }
func (*mockConn) RemoteAddr() net.Addr { return mockAddr{} }

type fixture struct {
	eng    *sqle.Engine
	pro    *memory.DbProvider
	h      mysql.Handler
	srv    *server.Server
	connID uint32
}

func newFixture(readTimeout time.Duration, watcher bool) *fixture {
	pro := memory.NewDBProvider(memory.NewDatabase("d"), srcDB{})
	eng := sqle.NewDefault(pro)
	f := &fixture{eng: eng, pro: pro, connID: 100}
	cfg := server.Config{Protocol: "tcp", Address: "127.0.0.1:0", ConnReadTimeout: readTimeout, DisableConnectionWatcher: !watcher}
	srv, err := server.NewServerWithHandler(cfg, eng, sql.NewContext, memory.NewSessionBuilder(pro), nil,
		func(h mysql.Handler) (mysql.Handler, error) { f.h = h; return h, nil })
	if err != nil {
		vio.Fatal("server: %v", err)
	}
	f.srv = srv
	return f
}

func (f *fixture) newConn() *mysql.Conn {
	f.connID++
	c := &mysql.Conn{ConnectionID: f.connID, Conn: &mockConn{}}
	f.h.NewConnection(c)
	if err := f.h.ConnectionAuthenticated(c); err != nil {
		vio.Fatal("ConnectionAuthenticated: %v", err)
	}
	if err := f.h.ComInitDB(c, "d"); err != nil {
		vio.Fatal("ComInitDB: %v", err)
	}
	return c
}

func classify(err error) (string, string) {
	if err == nil {
		return "ok", ""
	}
	m := err.Error()
	switch {
	case strings.Contains(m, "c35-iter-fault"):
		return "iter", m
	case strings.Contains(m, "c35-cb-fault"):
		return "cb", m
	case strings.Contains(m, "context canceled"):
		return "canceled", m
	case strings.Contains(m, "row read wait bigger than connection timeout"):
		return "timeout", m
	}
	if len(m) > 200 {
		m = m[:200]
	}
	return "other", m
}

type recorder struct {
	mu  sync.Mutex
	evs []HEvent
}

func (r *recorder) add(e HEvent) {
	r.mu.Lock()
	r.evs = append(r.evs, e)
	r.mu.Unlock()
}

func summarise(res *sqltypes.Result) (cnt, first, last int, contig bool) {
	contig = true
	prev := 0
	for i, row := range res.Rows {
		id := -1
		if len(row) > 0 {
			if x, err := strconv.Atoi(row[0].ToString()); err == nil {
				id = x
			}
		}
		if i == 0 {
			first = id
		} else if id != prev+1 {
			contig = false
		}
		prev = id
		last = id
	}
	if len(res.Rows) > 0 && len(res.Rows[0]) != 2 {
		contig = false
	}
	return len(res.Rows), first, last, contig
}

// runCase performs one execution and returns its events; hang = the call did not return in time.
func (f *fixture) runCase(c Case, rep int) (evs []HEvent, hang bool) {
	rec := &recorder{}
	conn := f.newConn()
	killer := f.newConn()
	defer f.h.ConnectionClosed(conn)
	defer f.h.ConnectionClosed(killer)
	more := c.API == "multi"
	rec.add(HEvent{Ev: "reset", ID: c.ID, Rep: rep, Case: &c,
		P: &Params{N: c.N, IterErr: c.IterErr, CbErr: c.CbErr, StallAt: c.StallAt, More: more, Timeouts: c.Timeouts}})

	ctx, cancel := context.WithCancel(context.Background())
	defer cancel()
	var killOnce sync.Once
	var bg sync.WaitGroup
	doKill := func() {
		if c.KillKind == "ctx" {
			cancel()
			return
		}
		err := f.h.ComQuery(context.Background(), killer, fmt.Sprintf("KILL QUERY %d", conn.ConnectionID),
			func(*sqltypes.Result, bool) error { return nil })
		if err != nil {
			rec.add(HEvent{Ev: "note", ID: c.ID, Rep: rep, Msg: "kill failed: " + err.Error()})
		}
	}
	kill := func(async bool) {
		killOnce.Do(func() {
			rec.add(HEvent{Ev: "kill", ID: c.ID, Rep: rep}) // logged BEFORE the cancellation can take effect
			if async {
				bg.Add(1)
				go func() { defer bg.Done(); doKill() }()
			} else {
				doKill()
			}
		})
	}
	plan := &Plan{IterErr: c.IterErr, StallAt: c.StallAt}
	if c.Kill == "iter" || c.Kill == "async" {
		plan.HookAt = c.KillAt
		plan.Hook = func() { kill(c.Kill == "async") }
	}
	curPlan.Store(plan)
	defer curPlan.Store(nil)
	open0 := openIters.Load()

	ncb := 0
	cb := func(res *sqltypes.Result, moreFlag bool) error {
		cnt, first, last, contig := summarise(res)
		rec.add(HEvent{Ev: "cb", ID: c.ID, Rep: rep, Cnt: cnt, First: first, Last: last, Contig: contig,
			More: moreFlag, Fields: len(res.Fields) == 2 && res.Fields[0].Name == "id"})
		ncb++ // callbacks of one execution are never concurrent (Sender, then Main after Wait)
		if c.Kill == "cb" && ncb == c.KillAt {
			kill(false)
		}
		if c.CbErr == ncb {
			return fmt.Errorf("c35-cb-fault")
		}
		return nil
	}

	q := fmt.Sprintf("SELECT id, v FROM src.%s%d", c.Table, c.N)
	done := make(chan error, 1)
	go func() {
		var err error
		switch c.API {
		case "multi":
			var rem string
			rem, err = f.h.(mysql.Handler).ComMultiQuery(ctx, conn, q+"; SELECT 1", cb)
			if err == nil && strings.TrimSpace(rem) != "SELECT 1" {
				err = fmt.Errorf("unexpected remainder %q", rem)
			}
		case "stmt":
			q2 := q + " WHERE id >= ?"
			pd := &mysql.PrepareData{StatementID: 1, PrepareStmt: q2, ParamsCount: 1}
			if _, err = f.h.ComPrepare(ctx, conn, q2, pd); err == nil {
				pd.BindVars = map[string]*querypb.BindVariable{"v1": sqltypes.Int64BindVariable(1)}
				err = f.h.ComStmtExecute(ctx, conn, pd, func(r *sqltypes.Result) error { return cb(r, false) })
			}
		default:
			err = f.h.ComQuery(ctx, conn, q, cb)
		}
		done <- err
	}()
	select {
	case err := <-done:
		bg.Wait()
		cls, msg := classify(err)
		rec.add(HEvent{Ev: "ret", ID: c.ID, Rep: rep, Cls: cls, Msg: msg, Open: int(openIters.Load() - open0)})
	case <-time.After(30 * time.Second):
		rec.add(HEvent{Ev: "ret", ID: c.ID, Rep: rep, Cls: "hang"})
		hang = true
	}
	rec.mu.Lock()
	defer rec.mu.Unlock()
	return rec.evs, hang
}

func handlerMode(planPath, out string) {
	w, err := vio.NewWriter(out)
	if err != nil {
		vio.Fatal("%v", err)
	}
	rep := &vio.Report{Extra: map[string]interface{}{}}
	plain := newFixture(0, false)
	var timed *fixture
	byCls := map[string]int{}
	hangs := 0
	var cases []Case
	if err := vio.ReadNDJSON(planPath, func(i int, line []byte) error {
		var c Case
		if err := jsonUnmarshal(line, &c); err != nil {
			return err
		}
		cases = append(cases, c)
		return nil
	}); err != nil {
		vio.Fatal("%v", err)
	}
outer:
	for _, c := range cases {
		f := plain
		if c.Timeouts {
			if timed == nil {
				timed = newFixture(250*time.Millisecond, false)
			}
			f = timed
		}
		n := c.Repeat
		if n < 1 {
			n = 1
		}
		for r := 0; r < n; r++ {
			evs, hang := f.runCase(c, r)
			ncb, rows, cls := 0, 0, ""
			for _, e := range evs {
				w.Write(e)
				if e.Ev == "cb" {
					ncb++
					rows += e.Cnt
				}
				if e.Ev == "ret" {
					cls = e.Cls
				}
			}
			rep.Cases++
			byCls[cls]++
			// non-trivial: the result spans >= 2 batches, or a fault fired mid-stream (rows were already delivered)
			if ncb >= 2 || (cls != "ok" && rows > 0) {
				rep.Nontrivial++
			}
			if len(rep.Samples) < 3 && ncb >= 2 && cls != "ok" {
				rep.Samples = append(rep.Samples, evs)
			}
			if hang {
				hangs++
				break outer // the pipeline of this execution is still running: stop here
			}
		}
	}
	if err := w.Close(); err != nil {
		vio.Fatal("%v", err)
	}
	rep.Extra["by_class"] = byCls
	rep.Extra["hangs"] = hangs
	rep.Extra["next_calls"] = nextCalls.Load()
	rep.Extra["value_row_calls"] = valueRowCalls.Load()
	rep.Emit()
}
