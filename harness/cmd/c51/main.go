// c51: driver of C51 (MATCH ... AGAINST in natural-language mode over a FULLTEXT index).
//
//	-mode cases -in cases.ndjson [-only n,n]      binding A: TLC-built tables, queries and expected
//	     row ids (spec/MC_FullTextCases.tla); the driver compares id lists with TLC's expectation.
//	-mode hist -seed S -n N -steps K -out trace.ndjson [-only h,h]   binding B: seeded DML histories
//	     on a FULLTEXT table `ft` and an index-free twin `tw`; after every step the rows of both
//	     tables and the id lists of several MATCH queries are recorded; spec/Trace_FullText.tla judges.
//
// Text values are [n: is NULL, v: code points]; the driver never tokenizes anything.
package main

import (
	"encoding/json"
	"flag"
	"fmt"
	"math/rand"
	"os"
	"sort"
	"strconv"
	"strings"
	"time"

	"gmsverif/lib/eng"
	"gmsverif/lib/vio"
)

type Col struct {
	N bool  `json:"n"`
	V []int `json:"v"`
}

type Row struct {
	ID   int   `json:"id"`
	Cols []Col `json:"cols"`
}

type CaseQ struct {
	Q   []int `json:"q"`
	Exp []int `json:"exp"`
}

type Case struct {
	Coll  string  `json:"coll"`
	Multi bool    `json:"multi"`
	Rows  []Row   `json:"rows"`
	Qs    []CaseQ `json:"qs"`
}

func str(cp []int) string {
	var b strings.Builder
	for _, c := range cp {
		b.WriteRune(rune(c))
	}
	return b.String()
}

func cps(s string) []int {
	out := []int{}
	for _, r := range s {
		out = append(out, int(r))
	}
	return out
}

func lit(s string) string {
	var b strings.Builder
	b.WriteByte('\'')
	for _, r := range s {
		switch r {
		case '\'':
			b.WriteString("''")
		case '\\':
			b.WriteString(`\\`)
		case '\n':
			b.WriteString(`\n`)
		default:
			b.WriteRune(r)
		}
	}
	b.WriteByte('\'')
	return b.String()
}

func colLit(c Col) string {
	if c.N {
		return "NULL"
	}
	return lit(str(c.V))
}

func collName(c string) string {
	if c == "bin" {
		return "utf8mb4_bin"
	}
	return "utf8mb4_0900_ai_ci"
}

func createTables(s *eng.Session, coll string, multi bool) {
	s.Exec("DROP TABLE IF EXISTS ft")
	s.Exec("DROP TABLE IF EXISTS tw")
	c := collName(coll)
	idx := "a"
	if multi {
		idx = "a, b"
	}
	s.MustExec(fmt.Sprintf("CREATE TABLE ft (id INT PRIMARY KEY, a VARCHAR(700) COLLATE %s, b VARCHAR(700) COLLATE %s, FULLTEXT idx (%s))", c, c, idx))
	s.MustExec(fmt.Sprintf("CREATE TABLE tw (id INT PRIMARY KEY, a VARCHAR(700) COLLATE %s, b VARCHAR(700) COLLATE %s)", c, c))
}

func matchExpr(multi bool, q string) string {
	if multi {
		return "MATCH(a, b) AGAINST (" + lit(q) + ")"
	}
	return "MATCH(a) AGAINST (" + lit(q) + ")"
}

// ids runs a query returning one integer column.
func ids(s *eng.Session, q string) ([]int, string) {
	r := s.Exec(q)
	if r.Kind != "rows" {
		return []int{}, r.Kind + ": " + r.Msg
	}
	out := make([]int, 0, len(r.Rows))
	for _, row := range r.Rows {
		v, ok := row[0].V.(int)
		if len(row) == 0 || row[0].T != "i" || !ok {
			return []int{}, "unexpected value in id column"
		}
		out = append(out, v)
	}
	return out, ""
}

func same(a, b []int) bool {
	if len(a) != len(b) {
		return false
	}
	for i := range a {
		if a[i] != b[i] {
			return false
		}
	}
	return true
}

// classify names the way an id list differs from the expected list (set inclusion on integers only).
func classify(got, exp []int, msg string) string {
	if msg != "" {
		return "error"
	}
	in := func(x int, l []int) bool {
		for _, y := range l {
			if x == y {
				return true
			}
		}
		return false
	}
	for _, x := range exp {
		if !in(x, got) {
			return "missing"
		}
	}
	for _, x := range got {
		if !in(x, exp) {
			return "extra"
		}
	}
	return "duplicate"
}

// ---------------------------------------------------------------- binding A

func runCases(in string, keep map[int]bool, rep *vio.Report) {
	db := eng.New()
	s := db.NewSession()
	nq, nontriv := 0, 0
	planSeen := map[string]int{}
	err := vio.ReadNDJSON(in, func(i int, line []byte) error {
		if len(keep) > 0 && !keep[i] {
			return nil
		}
		var c Case
		if err := json.Unmarshal(line, &c); err != nil {
			return err
		}
		createTables(s, c.Coll, c.Multi)
		for _, r := range c.Rows {
			b := Col{N: true}
			if len(r.Cols) > 1 {
				b = r.Cols[1]
			}
			s.MustExec(fmt.Sprintf("INSERT INTO ft VALUES (%d, %s, %s)", r.ID, colLit(r.Cols[0]), colLit(b)))
		}
		rep.Cases++
		for k, q := range c.Qs {
			nq++
			exp := append([]int{}, q.Exp...)
			sort.Ints(exp)
			if len(exp) > 0 && len(exp) < len(c.Rows) {
				nontriv++
			}
			m := matchExpr(c.Multi, str(q.Q))
			variants := []struct{ name, sql string }{
				{"where", "SELECT id FROM ft WHERE " + m + " ORDER BY id"},
				{"score", "SELECT id FROM ft WHERE " + m + " > 0 ORDER BY id"},
			}
			for _, v := range variants {
				got, msg := ids(s, v.sql)
				if msg != "" || !same(got, exp) {
					kind := classify(got, exp, msg)
					rep.Mismatches = append(rep.Mismatches, vio.Mismatch{Case: i, Signature: fmt.Sprintf("C51|A|%s|%s|coll=%s|multi=%v", v.name, kind, c.Coll, c.Multi),
						Expected: exp, Got: map[string]interface{}{"ids": got, "err": msg},
						Input: map[string]interface{}{"sql": v.sql, "query": k, "case": c}})
				}
			}
			if k == 0 {
				r := s.Exec("EXPLAIN PLAN SELECT id FROM ft WHERE " + m + " ORDER BY id")
				if r.Kind == "rows" {
					txt := fmt.Sprint(r.Raw)
					if strings.Contains(txt, "IndexedTableAccess") {
						planSeen["indexed"]++
					} else {
						planSeen["other"]++
					}
				}
			}
			if len(rep.Samples) < 3 && len(exp) > 0 {
				rep.Samples = append(rep.Samples, map[string]interface{}{"docs": docsOf(c.Rows), "query": str(q.Q), "expected_ids": exp, "coll": c.Coll})
			}
		}
		return nil
	})
	if err != nil {
		vio.Fatal("%v", err)
	}
	rep.Nontrivial = nontriv
	rep.Extra["queries"] = nq
	rep.Extra["plans"] = planSeen
}

func docsOf(rows []Row) [][]interface{} {
	out := [][]interface{}{}
	for _, r := range rows {
		x := []interface{}{r.ID}
		for _, c := range r.Cols {
			if c.N {
				x = append(x, nil)
			} else {
				x = append(x, str(c.V))
			}
		}
		out = append(out, x)
	}
	return out
}

// ---------------------------------------------------------------- binding B

type QRes struct {
	Q     []int  `json:"q"`
	Where []int  `json:"where"`
	Score []int  `json:"score"`
	WErr  string `json:"werr"`
	SErr  string `json:"serr"`
}

type Step struct {
	Ev      string `json:"ev"`
	ID      int    `json:"id"` // hid*1000 + k
	Hid     int    `json:"hid"`
	K       int    `json:"k"`
	Coll    string `json:"coll"`
	Multi   bool   `json:"multi"`
	Op      string `json:"op"`
	SQL     string `json:"sql"`
	Res     string `json:"res"`
	TwRes   string `json:"twres"`
	Indexed bool   `json:"indexed"`
	Dirty   string `json:"dirty"` // "" or which of REPLACE / ON DUPLICATE KEY UPDATE has re-written an existing key in this history so far
	Rows    []Row  `json:"rows"`
	Twin    []Row  `json:"twin"`
	Qs      []QRes `json:"qs"`
}

var vocab = []string{"abc", "Abc", "ABC", "b'a1", "a_1", "ab", "xyz", "abcd", "it's", "Xyz", "a1b2"}
var seps = []string{" ", ",", "''", "'", "-", ". ", " '", "\n", "  "}

// words at the upper length boundary of the index (83, 84, 84, 85 characters; one 84 in capitals):
// the specification says which of them are words (FullText!MaxWordLen), the driver only spells them
var longVocab = []string{strings.Repeat("q", 83), strings.Repeat("q", 84), "Z" + strings.Repeat("k", 83), strings.Repeat("q", 85), strings.Repeat("Q", 84)}

func genWord(rng *rand.Rand) string {
	if rng.Intn(5) == 0 {
		return longVocab[rng.Intn(len(longVocab))]
	}
	return vocab[rng.Intn(len(vocab))]
}

func genText(rng *rand.Rand) string {
	n := 1 + rng.Intn(3)
	var b strings.Builder
	if rng.Intn(5) == 0 {
		b.WriteString(seps[rng.Intn(len(seps))])
	}
	for i := 0; i < n; i++ {
		if i > 0 {
			b.WriteString(seps[rng.Intn(len(seps))])
		}
		b.WriteString(genWord(rng))
	}
	if rng.Intn(5) == 0 {
		b.WriteString(seps[rng.Intn(len(seps))])
	}
	return b.String()
}

func genVal(rng *rand.Rand) string {
	if rng.Intn(8) == 0 {
		return "NULL"
	}
	if rng.Intn(12) == 0 {
		return "''"
	}
	return lit(genText(rng))
}

func tableRows(s *eng.Session, name string) []Row {
	r := s.Exec("SELECT id, a, b FROM " + name + " ORDER BY id")
	if r.Kind != "rows" {
		vio.Fatal("SELECT from %s failed: %s", name, r.Msg)
	}
	out := make([]Row, 0, len(r.Raw))
	for _, row := range r.Raw {
		x := Row{Cols: make([]Col, 2)}
		switch v := row[0].(type) {
		case int32:
			x.ID = int(v)
		case int64:
			x.ID = int(v)
		default:
			vio.Fatal("unexpected id type %T", row[0])
		}
		for j := 0; j < 2; j++ {
			switch v := row[j+1].(type) {
			case nil:
				x.Cols[j] = Col{N: true, V: []int{}}
			case string:
				x.Cols[j] = Col{V: cps(v)}
			default:
				x.Cols[j] = Col{V: cps(fmt.Sprint(v))}
			}
		}
		out = append(out, x)
	}
	return out
}

func kind(r eng.Result) string {
	if r.Kind == "err" || r.Kind == "panic" {
		return r.Kind + ": " + r.Msg
	}
	return "ok"
}

func runHistory(s *eng.Session, hid int, seed int64, steps int, w *vio.Writer, rep *vio.Report, ops map[string]int) {
	rng := rand.New(rand.NewSource(seed*1000003 + int64(hid)))
	coll := []string{"ci", "bin"}[rng.Intn(2)]
	multi := rng.Intn(2) == 0
	createTables(s, coll, multi)
	queries := []string{"abc", "Abc xyz", "b'a1 a_1 ab", "abcd,it's", longVocab[1], longVocab[0] + " " + longVocab[3] + "," + longVocab[2], genText(rng), genText(rng)}
	nextID := 1
	indexed := true
	h := &hist{hid: hid, coll: coll, multi: multi, indexed: true, dirty: map[string]bool{}, queries: queries}
	live := map[int]bool{}
	hitOrNew := func(wantHit bool) (int, bool) {
		if wantHit {
			for tries := 0; tries < 20 && nextID > 1; tries++ {
				id := 1 + rng.Intn(nextID-1)
				if live[id] {
					return id, true
				}
			}
		}
		nextID++
		return nextID - 1, false
	}
	idxCols := "a"
	if multi {
		idxCols = "a, b"
	}
	pick := func() int {
		if nextID == 1 {
			return 1
		}
		return 1 + rng.Intn(nextID-1)
	}
	for k := 1; k <= steps; k++ {
		var op, q string // q uses %T for the table name
		onlyFT := false
		x := rng.Intn(100)
		switch {
		case k > 2 && x < 7:
			// DELETE + re-INSERT: a new document under a primary key that was used and deleted before
			id := nextID
			op = "insert"
			dead := []int{}
			for d := 1; d < nextID; d++ {
				if !live[d] {
					dead = append(dead, d)
				}
			}
			if len(dead) > 0 {
				id, op = dead[rng.Intn(len(dead))], "insert-reuse"
			}
			if id == nextID {
				nextID++
			}
			q = fmt.Sprintf("INSERT INTO %%T (id, a, b) VALUES (%d, %s, %s)", id, genVal(rng), genVal(rng))
		case k <= 2 || x < 22:
			op = "insert"
			q = fmt.Sprintf("INSERT INTO %%T (id, a, b) VALUES (%d, %s, %s)", nextID, genVal(rng), genVal(rng))
			nextID++
		case x < 30:
			op = "insert-multi"
			q = fmt.Sprintf("INSERT INTO %%T (id, a, b) VALUES (%d, %s, %s), (%d, %s, %s)", nextID, genVal(rng), genVal(rng), nextID+1, genVal(rng), genVal(rng))
			nextID += 2
		case x < 42:
			op = "update-a"
			q = fmt.Sprintf("UPDATE %%T SET a = %s WHERE id = %d", genVal(rng), pick())
		case x < 50:
			op = "update-b"
			q = fmt.Sprintf("UPDATE %%T SET b = %s WHERE id = %d", genVal(rng), pick())
		case x < 56:
			op = "update-many"
			q = fmt.Sprintf("UPDATE %%T SET a = %s WHERE id >= %d", genVal(rng), pick())
		case x < 61:
			op = "update-id"
			q = fmt.Sprintf("UPDATE %%T SET id = %d WHERE id = %d", nextID, pick())
			nextID++
		case x < 72:
			op = "delete"
			q = fmt.Sprintf("DELETE FROM %%T WHERE id = %d", pick())
		case x < 76:
			op = "delete-many"
			q = fmt.Sprintf("DELETE FROM %%T WHERE id %% 2 = %d", rng.Intn(2))
		case x < 82:
			id, hit := hitOrNew(rng.Intn(3) > 0)
			op = map[bool]string{true: "replace-hit", false: "replace-new"}[hit]
			q = fmt.Sprintf("REPLACE INTO %%T (id, a, b) VALUES (%d, %s, %s)", id, genVal(rng), genVal(rng))
		case x < 86:
			id, hit := hitOrNew(rng.Intn(3) > 0)
			op = map[bool]string{true: "upsert-hit", false: "upsert-new"}[hit]
			q = fmt.Sprintf("INSERT INTO %%T (id, a, b) VALUES (%d, %s, %s) ON DUPLICATE KEY UPDATE a = %s", id, genVal(rng), genVal(rng), genVal(rng))
		case x < 88:
			id, hit := hitOrNew(rng.Intn(3) > 0)
			op = map[bool]string{true: "insert-ignore-hit", false: "insert-ignore-new"}[hit]
			q = fmt.Sprintf("INSERT IGNORE INTO %%T (id, a, b) VALUES (%d, %s, %s)", id, genVal(rng), genVal(rng))
		case x < 91:
			// a plain INSERT that fails on the primary key: the statement is rolled back
			id, hit := hitOrNew(true)
			op = map[bool]string{true: "insert-dup", false: "insert"}[hit]
			q = fmt.Sprintf("INSERT INTO %%T (id, a, b) VALUES (%d, %s, %s), (%d, %s, %s)", nextID, genVal(rng), genVal(rng), id, genVal(rng), genVal(rng))
			if !hit {
				q = fmt.Sprintf("INSERT INTO %%T (id, a, b) VALUES (%d, %s, %s)", id, genVal(rng), genVal(rng))
			}
		case x < 94:
			op = "truncate"
			q = "TRUNCATE TABLE %T"
		default:
			onlyFT = true
			if indexed {
				op = "drop-index"
				q = "ALTER TABLE %T DROP INDEX idx"
			} else {
				op = "add-index"
				q = "ALTER TABLE %T ADD FULLTEXT idx (" + idxCols + ")"
			}
		}
		ops[op]++
		st := h.exec(s, k, op, q, onlyFT, rep)
		live = map[int]bool{}
		for _, r := range st.Rows {
			live[r.ID] = true
		}
		indexed = h.indexed
		w.Write(st)
		if len(rep.Samples) < 2 && k == 6 {
			rep.Samples = append(rep.Samples, map[string]interface{}{"history": hid, "step": k, "sql": st.SQL, "rows": docsOf(st.Rows), "query": queries[0], "ids": st.Qs})
		}
	}
}

// hist is the recording state of one history.
type hist struct {
	hid     int
	coll    string
	multi   bool
	indexed bool
	dirty   map[string]bool
	queries []string
}

// exec runs one statement on ft (and on the twin unless it is index DDL) and records the step.
func (h *hist) exec(s *eng.Session, k int, op, q string, onlyFT bool, rep *vio.Report) Step {
	st := Step{Ev: "step", ID: h.hid*1000 + k, Hid: h.hid, K: k, Coll: h.coll, Multi: h.multi, Op: op, SQL: strings.ReplaceAll(q, "%T", "ft"), TwRes: "ok", Qs: []QRes{}}
	st.Res = kind(s.Exec(st.SQL))
	if !onlyFT {
		st.TwRes = kind(s.Exec(strings.ReplaceAll(q, "%T", "tw")))
	} else if st.Res == "ok" {
		h.indexed = !h.indexed
	}
	st.Indexed = h.indexed
	if op == "replace-hit" || op == "upsert-hit" {
		h.dirty[op] = true
	}
	ds := []string{}
	for d := range h.dirty {
		ds = append(ds, d)
	}
	sort.Strings(ds)
	st.Dirty = strings.Join(ds, "+")
	st.Rows = tableRows(s, "ft")
	st.Twin = tableRows(s, "tw")
	if h.indexed {
		for _, qs := range h.queries {
			m := matchExpr(h.multi, qs)
			qr := QRes{Q: cps(qs)}
			qr.Where, qr.WErr = ids(s, "SELECT id FROM ft WHERE "+m+" ORDER BY id")
			qr.Score, qr.SErr = ids(s, "SELECT id FROM ft WHERE "+m+" > 0 ORDER BY id")
			st.Qs = append(st.Qs, qr)
			if len(qr.Where) > 0 && len(qr.Where) < len(st.Rows) {
				rep.Nontrivial++
			}
		}
	}
	rep.Cases++
	return st
}

// Script is a recorded history (witness files): statements use %T for the table name.
type Script struct {
	Hid     int      `json:"hid"`
	Coll    string   `json:"coll"`
	Multi   bool     `json:"multi"`
	Stmts   []Stmt   `json:"stmts"`
	Queries []string `json:"queries"`
}

type Stmt struct {
	Op  string `json:"op"`
	SQL string `json:"sql"`
}

func runScripts(in string, w *vio.Writer, rep *vio.Report) {
	db := eng.New()
	s := db.NewSession()
	err := vio.ReadNDJSON(in, func(i int, line []byte) error {
		var sc Script
		if err := json.Unmarshal(line, &sc); err != nil {
			return err
		}
		createTables(s, sc.Coll, sc.Multi)
		h := &hist{hid: sc.Hid, coll: sc.Coll, multi: sc.Multi, indexed: true, dirty: map[string]bool{}, queries: sc.Queries}
		for k, st := range sc.Stmts {
			w.Write(h.exec(s, k+1, st.Op, st.SQL, st.Op == "drop-index" || st.Op == "add-index", rep))
		}
		return nil
	})
	if err != nil {
		vio.Fatal("%v", err)
	}
}

func main() {
	mode := flag.String("mode", "cases", "cases | hist")
	in := flag.String("in", "", "cases ndjson")
	out := flag.String("out", "", "trace ndjson (hist)")
	only := flag.String("only", "", "comma separated case indexes / history ids")
	seed := flag.Int64("seed", 1, "seed")
	n := flag.Int("n", 20, "histories")
	steps := flag.Int("steps", 25, "steps per history")
	flag.Parse()
	keep := map[int]bool{}
	for _, f := range strings.Split(*only, ",") {
		if f != "" {
			id, _ := strconv.Atoi(f)
			keep[id] = true
		}
	}
	rep := &vio.Report{Extra: map[string]interface{}{}}
	done := make(chan bool, 1)
	go func() {
		if *mode == "cases" {
			runCases(*in, keep, rep)
		} else if *mode == "script" {
			w, err := vio.NewWriter(*out)
			if err != nil {
				vio.Fatal("%v", err)
			}
			runScripts(*in, w, rep)
			w.Close()
		} else {
			w, err := vio.NewWriter(*out)
			if err != nil {
				vio.Fatal("%v", err)
			}
			db := eng.New()
			s := db.NewSession()
			ops := map[string]int{}
			for h := 1; h <= *n; h++ {
				if len(keep) > 0 && !keep[h] {
					continue
				}
				runHistory(s, h, *seed, *steps, w, rep, ops)
			}
			w.Close()
			rep.Extra["ops"] = ops
		}
		done <- true
	}()
	// watchdog on progress: a hang is 180 s without a finished case / step
	last, lastAt := -1, time.Now()
	for running := true; running; {
		select {
		case <-done:
			running = false
		case <-time.After(5 * time.Second):
			if rep.Cases != last {
				last, lastAt = rep.Cases, time.Now()
			} else if time.Since(lastAt) > 180*time.Second {
				fmt.Fprintln(os.Stderr, "FATAL engine hung")
				os.Exit(3)
			}
		}
	}
	rep.Emit()
}
