package main

import (
	"fmt"
	"math/rand"
)

// Generator of larger random procedure bodies for binding B: nesting <= 4, <= 12 payload statement
// nodes over the three parameters a (IN), b (OUT), c (INOUT) and block-local variables of the same
// names (shadowing), nested handlers, labels reused by sibling constructs.  It only builds
// well-formed ASTs; it knows nothing about what they compute (expectations come from TLC).
//
// Termination discipline: every loop at nesting level L owns the counter iL (declared in the
// outermost block, never touched by payload statements): the loop is preceded by SET iL = 0, its
// body starts with SET iL = iL + 1 and its condition / first statement bounds iL, so bodies stay
// within the specification's loop bound and the engine cannot spin because of the payload.
type gen struct {
	r        *rand.Rand
	budget   int
	maxDepth int
	used     map[int]bool // counters used
}

var names = []string{"a", "b", "c"}

func (g *gen) name() string { return names[g.r.Intn(3)] }

func (g *gen) expr() *Expr {
	switch g.r.Intn(10) {
	case 0, 1, 2:
		return Var(g.name())
	case 3:
		return Lit(Int(g.r.Intn(5)))
	case 4:
		return Lit(Null())
	case 5, 6:
		return Op("plus", Var(g.name()), Lit(Int(1+g.r.Intn(3))))
	case 7:
		return Op("minus", Var(g.name()), Var(g.name()))
	case 8:
		return Op("times", Var(g.name()), Lit(Int(2)))
	}
	return Op("plus", Var(g.name()), Var(g.name()))
}

func (g *gen) atom() *Expr {
	v := Var(g.name())
	switch g.r.Intn(6) {
	case 0, 1:
		return Op([]string{"lt", "le", "gt", "ge"}[g.r.Intn(4)], v, Lit(Int(g.r.Intn(5))))
	case 2:
		return Op([]string{"eq", "ne"}[g.r.Intn(2)], v, Var(g.name()))
	case 3:
		return Op("isnull", v)
	case 4:
		return Op("not", Op("isnull", v))
	}
	return Op("eq", v, Lit(Int(g.r.Intn(4))))
}

func (g *gen) cond() *Expr {
	switch g.r.Intn(6) {
	case 0:
		return Op("and", g.atom(), g.atom())
	case 1:
		return Op("or", g.atom(), g.atom())
	case 2:
		return Op("not", g.atom())
	}
	return g.atom()
}

type gctx struct {
	loops []string // labels of the enclosing loops
	blks  []string // labels of the enclosing labelled blocks
}

func lbl(level int) string { return fmt.Sprintf("l%d", level) }
func ctr(level int) string { return fmt.Sprintf("i%d", level) }

func (g *gen) setStmt() *Stmt { return &Stmt{K: "set", V: g.name(), E: g.expr()} }

func (g *gen) simple(cx gctx) *Stmt {
	g.budget--
	switch g.r.Intn(12) {
	case 0, 1, 2:
		return g.setStmt()
	case 3, 4:
		return &Stmt{K: "ins", E: g.expr()}
	case 5:
		return &Stmt{K: "sel", E: g.expr()}
	case 6:
		return &Stmt{K: "dup"}
	case 7:
		return &Stmt{K: "sig"}
	case 8, 9:
		all := append(append([]string{}, cx.loops...), cx.blks...)
		if len(all) > 0 {
			return &Stmt{K: "leave", L: all[g.r.Intn(len(all))]}
		}
	case 10, 11:
		if len(cx.loops) > 0 {
			return &Stmt{K: "iter", L: cx.loops[g.r.Intn(len(cx.loops))]}
		}
	}
	return &Stmt{K: "ins", E: g.expr()}
}

// body: 1..3 statements at the given level
func (g *gen) body(level int, cx gctx) []*Stmt {
	n := 1 + g.r.Intn(3)
	var out []*Stmt
	for i := 0; i < n; i++ {
		if i > 0 && g.budget <= 0 {
			break
		}
		out = append(out, g.stmt(level, cx)...)
	}
	return out
}

func (g *gen) handlers() []Handler {
	switch g.r.Intn(6) {
	case 0, 1:
		return []Handler{{Act: "continue", Cond: "exc", S: g.setStmt()}}
	case 2:
		return []Handler{{Act: "exit", Cond: "exc", S: g.setStmt()}}
	case 3:
		hs := []Handler{{Act: []string{"continue", "exit"}[g.r.Intn(2)], Cond: "nf", S: g.setStmt()}}
		if g.r.Intn(2) == 0 {
			hs = append(hs, Handler{Act: []string{"continue", "exit"}[g.r.Intn(2)], Cond: "exc", S: g.setStmt()})
		}
		return hs
	}
	return nil
}

func (g *gen) decls() []Decl {
	var ds []Decl
	for _, n := range names {
		switch g.r.Intn(16) {
		case 0, 1, 2, 3:
			ds = append(ds, Decl{V: n, Has: true, D: Int(g.r.Intn(5))})
		case 4:
			ds = append(ds, Decl{V: n, Has: false, D: Null()})
		}
	}
	return ds
}

// stmt returns one payload statement (for loops: the counter reset followed by the loop)
func (g *gen) stmt(level int, cx gctx) []*Stmt {
	if level > g.maxDepth || g.budget < 2 || g.r.Intn(100) < 45 {
		return []*Stmt{g.simple(cx)}
	}
	g.budget--
	l := lbl(level)
	inLoop := gctx{loops: append(append([]string{}, cx.loops...), l), blks: cx.blks}
	if all := append(append([]string{}, cx.loops...), cx.blks...); len(all) > 0 && g.r.Intn(5) == 0 {
		// IF c THEN LEAVE / ITERATE END IF
		g.budget--
		j := &Stmt{K: "leave", L: all[g.r.Intn(len(all))]}
		if len(cx.loops) > 0 && g.r.Intn(2) == 0 {
			j = &Stmt{K: "iter", L: cx.loops[g.r.Intn(len(cx.loops))]}
		}
		return []*Stmt{{K: "if", Arms: []Arm{{C: g.cond(), Body: []*Stmt{j}}}}}
	}
	switch g.r.Intn(12) {
	case 0, 1, 2:
		s := &Stmt{K: "if", Arms: []Arm{{C: g.cond(), Body: g.body(level+1, cx)}}}
		if g.r.Intn(3) == 0 && g.budget > 0 {
			s.Arms = append(s.Arms, Arm{C: g.cond(), Body: g.body(level+1, cx)})
		}
		if g.r.Intn(2) == 0 && g.budget > 0 {
			s.Els = g.body(level+1, cx)
		}
		return []*Stmt{s}
	case 3, 4:
		s := &Stmt{K: "case", Simple: g.r.Intn(2) == 0}
		n := 1 + g.r.Intn(2)
		if s.Simple {
			s.E = Var(g.name())
		} else {
			s.E = Lit(Null())
		}
		for i := 0; i < n && (i == 0 || g.budget > 0); i++ {
			c := g.cond()
			if s.Simple {
				c = Lit(Int(g.r.Intn(4)))
			}
			s.Arms = append(s.Arms, Arm{C: c, Body: g.body(level+1, cx)})
		}
		if g.r.Intn(2) == 0 && g.budget > 0 {
			s.Els = g.body(level+1, cx)
		}
		return []*Stmt{s}
	case 5, 6:
		g.used[level] = true
		i := ctr(level)
		k := 1 + g.r.Intn(3)
		c := Op("and", Op("lt", Var(i), Lit(Int(k))), g.cond())
		if g.r.Intn(3) == 0 {
			c = Op("lt", Var(i), Lit(Int(k)))
		}
		b := append([]*Stmt{{K: "set", V: i, E: Op("plus", Var(i), Lit(Int(1)))}}, g.body(level+1, inLoop)...)
		return []*Stmt{{K: "set", V: i, E: Lit(Int(0))}, {K: "while", Lbl: l, C: c, Body: b}}
	case 7, 8:
		g.used[level] = true
		i := ctr(level)
		k := 1 + g.r.Intn(2)
		b := []*Stmt{{K: "set", V: i, E: Op("plus", Var(i), Lit(Int(1)))}}
		if g.r.Intn(2) == 0 { // guard against ITERATE skipping the UNTIL test
			b = append(b, &Stmt{K: "if", Arms: []Arm{{C: Op("gt", Var(i), Lit(Int(k))), Body: []*Stmt{{K: "leave", L: l}}}}})
		}
		b = append(b, g.body(level+1, inLoop)...)
		c := Op("or", Op("ge", Var(i), Lit(Int(k))), g.cond())
		return []*Stmt{{K: "set", V: i, E: Lit(Int(0))}, {K: "repeat", Lbl: l, C: c, Body: b}}
	case 9:
		g.used[level] = true
		i := ctr(level)
		k := 1 + g.r.Intn(2)
		b := []*Stmt{{K: "set", V: i, E: Op("plus", Var(i), Lit(Int(1)))},
			{K: "if", Arms: []Arm{{C: Op("gt", Var(i), Lit(Int(k))), Body: []*Stmt{{K: "leave", L: l}}}}}}
		b = append(b, g.body(level+1, inLoop)...)
		return []*Stmt{{K: "set", V: i, E: Lit(Int(0))}, {K: "loop", Lbl: l, Body: b}}
	}
	// nested block
	s := &Stmt{K: "block", Decls: g.decls(), Hs: g.handlers()}
	in := cx
	if g.r.Intn(2) == 0 {
		s.Lbl = l
		in = gctx{loops: cx.loops, blks: append(append([]string{}, cx.blks...), l)}
	}
	s.Body = g.body(level+1, in)
	return []*Stmt{s}
}

var argVals = []Val{Null(), Int(0), Int(1), Int(2), Int(3), Int(5)}

func genProg(r *rand.Rand, maxDepth, maxNodes int) *Prog {
	g := &gen{r: r, budget: 3 + r.Intn(maxNodes-2), maxDepth: maxDepth, used: map[int]bool{}}
	top := &Stmt{K: "block", Hs: nil}
	cx := gctx{}
	if r.Intn(3) == 0 {
		top.Lbl = "l0"
		cx.blks = []string{"l0"}
	}
	if r.Intn(3) == 0 {
		top.Hs = g.handlers()
	}
	var body []*Stmt
	for len(body) == 0 || g.budget > 0 {
		body = append(body, g.stmt(1, cx)...)
	}
	for lv := 1; lv <= maxDepth+1; lv++ {
		if g.used[lv] {
			top.Decls = append(top.Decls, Decl{V: ctr(lv), Has: true, D: Int(0)})
		}
	}
	if r.Intn(4) == 0 {
		top.Decls = append(top.Decls, Decl{V: names[r.Intn(3)], Has: r.Intn(5) > 0, D: Int(r.Intn(4))})
		if !top.Decls[len(top.Decls)-1].Has {
			top.Decls[len(top.Decls)-1].D = Null()
		}
	}
	top.Body = body
	argB := Null() // the caller's value of the OUT argument is NULL in 5 of 6 programs
	if r.Intn(6) == 0 {
		argB = argVals[r.Intn(len(argVals))]
	}
	return &Prog{
		Params: []Param{{"a", "in"}, {"b", "out"}, {"c", "inout"}},
		Args:   []Val{argVals[r.Intn(len(argVals))], argB, argVals[r.Intn(len(argVals))]},
		Body:   top,
	}
}
