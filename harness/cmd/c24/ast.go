package main

import (
	"encoding/json"
	"fmt"
	"strings"
)

// Val is a value in the trace encoding of spec/ProcMachine.tla: {"t":"n"} or {"t":"i","v":n};
// anything else the engine returns is {"t":"x","s":text} (never equal to a specification value).
type Val struct {
	T string `json:"t"`
	V *int   `json:"v,omitempty"`
	S string `json:"s,omitempty"`
}

func Null() Val     { return Val{T: "n"} }
func Int(i int) Val { return Val{T: "i", V: &i} }

func (v Val) SQL() string {
	if v.T == "i" && v.V != nil {
		return fmt.Sprint(*v.V)
	}
	return "NULL"
}

// Expr: lit(v) | var(n) | op(op, a)
type Expr struct {
	K  string  `json:"k"`
	V  *Val    `json:"v,omitempty"`
	N  string  `json:"n,omitempty"`
	Op string  `json:"op,omitempty"`
	A  []*Expr `json:"a,omitempty"`
}

func Lit(v Val) *Expr                 { return &Expr{K: "lit", V: &v} }
func Var(n string) *Expr              { return &Expr{K: "var", N: n} }
func Op(op string, a ...*Expr) *Expr  { return &Expr{K: "op", Op: op, A: a} }
func (e *Expr) MarshalJSON() ([]byte, error) {
	switch e.K {
	case "lit":
		return json.Marshal(map[string]interface{}{"k": "lit", "v": e.V})
	case "var":
		return json.Marshal(map[string]interface{}{"k": "var", "n": e.N})
	}
	return json.Marshal(map[string]interface{}{"k": "op", "op": e.Op, "a": e.A})
}

var opSQL = map[string]string{"plus": "+", "minus": "-", "times": "*", "eq": "=", "ne": "<>", "lt": "<", "le": "<=",
	"gt": ">", "ge": ">=", "and": "AND", "or": "OR"}

func (e *Expr) SQL() string {
	switch e.K {
	case "lit":
		return e.V.SQL()
	case "var":
		return e.N
	}
	switch e.Op {
	case "not":
		return "(NOT " + e.A[0].SQL() + ")"
	case "isnull":
		return "(" + e.A[0].SQL() + " IS NULL)"
	}
	return "(" + e.A[0].SQL() + " " + opSQL[e.Op] + " " + e.A[1].SQL() + ")"
}

type Decl struct {
	V   string `json:"v"`
	Has bool   `json:"has"`
	D   Val    `json:"d"`
}

type Handler struct {
	Act  string `json:"act"`  // continue | exit
	Cond string `json:"cond"` // exc | nf
	S    *Stmt  `json:"s"`
}

type Arm struct {
	C    *Expr   `json:"c"`
	Body []*Stmt `json:"body"`
}

// Stmt is one statement node; which fields are meaningful depends on K (see ProcMachine.tla).
type Stmt struct {
	K      string    `json:"k"`
	Lbl    string    `json:"lbl"`
	Decls  []Decl    `json:"decls"`
	Hs     []Handler `json:"hs"`
	Body   []*Stmt   `json:"body"`
	V      string    `json:"v"`
	E      *Expr     `json:"e"`
	Arms   []Arm     `json:"arms"`
	Els    []*Stmt   `json:"els"`
	Simple bool      `json:"simple"`
	C      *Expr     `json:"c"`
	L      string    `json:"l"`
}

func stmts(ss []*Stmt) []*Stmt {
	if ss == nil {
		return []*Stmt{}
	}
	return ss
}

// MarshalJSON writes exactly the fields the specification reads for the statement kind (the TLA+
// Json module rejects null and the spec accesses every listed field).
func (s *Stmt) MarshalJSON() ([]byte, error) {
	m := map[string]interface{}{"k": s.K}
	switch s.K {
	case "block":
		ds := s.Decls
		if ds == nil {
			ds = []Decl{}
		}
		hs := s.Hs
		if hs == nil {
			hs = []Handler{}
		}
		m["lbl"], m["decls"], m["hs"], m["body"] = s.Lbl, ds, hs, stmts(s.Body)
	case "set":
		m["v"], m["e"] = s.V, s.E
	case "ins", "sel":
		m["e"] = s.E
	case "if":
		m["arms"], m["els"] = s.Arms, stmts(s.Els)
	case "case":
		m["simple"], m["e"], m["arms"], m["els"] = s.Simple, s.E, s.Arms, stmts(s.Els)
	case "while", "repeat":
		m["lbl"], m["c"], m["body"] = s.Lbl, s.C, stmts(s.Body)
	case "loop":
		m["lbl"], m["body"] = s.Lbl, stmts(s.Body)
	case "leave", "iter":
		m["l"] = s.L
	}
	return json.Marshal(m)
}

type Param struct {
	N string `json:"n"`
	M string `json:"m"` // in | out | inout
}

type Prog struct {
	Params []Param `json:"params"`
	Args   []Val   `json:"args"`
	Body   *Stmt   `json:"body"`
}

// ---------------------------------------------------------------- rendering

func label(l string) string {
	if l == "" {
		return ""
	}
	return l + ": "
}

func seqSQL(ss []*Stmt) string {
	var b strings.Builder
	for _, s := range ss {
		b.WriteString(s.SQL())
		b.WriteString("; ")
	}
	return b.String()
}

func (s *Stmt) SQL() string {
	switch s.K {
	case "block":
		var b strings.Builder
		b.WriteString(label(s.Lbl) + "BEGIN ")
		for _, d := range s.Decls {
			b.WriteString("DECLARE " + d.V + " INT")
			if d.Has {
				b.WriteString(" DEFAULT " + d.D.SQL())
			}
			b.WriteString("; ")
		}
		for _, h := range s.Hs {
			cond := "SQLEXCEPTION"
			if h.Cond == "nf" {
				cond = "NOT FOUND"
			}
			b.WriteString("DECLARE " + strings.ToUpper(h.Act) + " HANDLER FOR " + cond + " " + h.S.SQL() + "; ")
		}
		b.WriteString(seqSQL(s.Body))
		b.WriteString("END")
		return b.String()
	case "set":
		return "SET " + s.V + " = " + s.E.SQL()
	case "ins":
		return "INSERT INTO log (v) VALUES (" + s.E.SQL() + ")"
	case "sel":
		return "SELECT " + s.E.SQL()
	case "dup":
		return "INSERT INTO k VALUES (1)"
	case "sig":
		return "SIGNAL SQLSTATE '45000'"
	case "if":
		var b strings.Builder
		for i, a := range s.Arms {
			if i == 0 {
				b.WriteString("IF ")
			} else {
				b.WriteString("ELSEIF ")
			}
			b.WriteString(a.C.SQL() + " THEN " + seqSQL(a.Body))
		}
		if len(s.Els) > 0 {
			b.WriteString("ELSE " + seqSQL(s.Els))
		}
		b.WriteString("END IF")
		return b.String()
	case "case":
		var b strings.Builder
		b.WriteString("CASE ")
		if s.Simple {
			b.WriteString(s.E.SQL() + " ")
		}
		for _, a := range s.Arms {
			b.WriteString("WHEN " + a.C.SQL() + " THEN " + seqSQL(a.Body))
		}
		if len(s.Els) > 0 {
			b.WriteString("ELSE " + seqSQL(s.Els))
		}
		b.WriteString("END CASE")
		return b.String()
	case "while":
		return label(s.Lbl) + "WHILE " + s.C.SQL() + " DO " + seqSQL(s.Body) + "END WHILE"
	case "repeat":
		return label(s.Lbl) + "REPEAT " + seqSQL(s.Body) + "UNTIL " + s.C.SQL() + " END REPEAT"
	case "loop":
		return label(s.Lbl) + "LOOP " + seqSQL(s.Body) + "END LOOP"
	case "leave":
		return "LEAVE " + s.L
	case "iter":
		return "ITERATE " + s.L
	}
	return "/* unknown statement kind " + s.K + " */"
}

func (p *Prog) CreateSQL() string {
	var ps []string
	for _, q := range p.Params {
		ps = append(ps, strings.ToUpper(q.M)+" "+q.N+" INT")
	}
	return "CREATE PROCEDURE p(" + strings.Join(ps, ", ") + ") " + p.Body.SQL()
}

func (p *Prog) CallSQL() string {
	var as []string
	for _, q := range p.Params {
		as = append(as, "@"+q.N)
	}
	return "CALL p(" + strings.Join(as, ", ") + ")"
}
