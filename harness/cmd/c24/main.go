// c24: executes stored-procedure programs (ASTs of spec/ProcMachine.tla) on the real engine and
// records what a client observes (binding A: programs enumerated/sampled by TLC with the
// specification's expectation attached; binding B: programs of the seeded generator in gen.go,
// outcomes validated by spec/Trace_Proc.tla).  No semantics here: render, run, record.
//
//	-mode gen    -seed S -n N [-depth 4 -nodes 12] -out cases.ndjson
//	-mode exec   -in cases.ndjson -out trace.ndjson [-only id,id] [-par 4] [-timeout ms] [-maxhang n]
//	-mode worker (internal: one case per stdin line, one result per stdout line)
//
// Every case runs on a fresh engine in a child process; a case on which the child burns more than the
// CPU budget (or that exceeds the wall-clock timeout) is outcome "hang" (the child is killed), a dead
// child is outcome "crash".
package main

import (
	"bufio"
	"encoding/json"
	"flag"
	"fmt"
	"io"
	"math/rand"
	"os"
	"os/exec"
	"strconv"
	"strings"
	"sync"
	"time"

	"gmsverif/lib/eng"
	"gmsverif/lib/vio"
)

type Got struct {
	Err  string `json:"err"` // none | 45000 | 23000 | 20000 | other | create | panic | hang | crash
	Vars []Val  `json:"vars"`
	Log  []Val  `json:"log"`
	Sel  []Val  `json:"sel"`
}

type Case struct {
	Ev      string          `json:"ev"`
	ID      int             `json:"id"`
	Prog    *Prog           `json:"prog"`
	Tags    []string        `json:"tags"`
	Prelude []string        `json:"prelude,omitempty"` // extra statements run in the session before the CALL
	Finding string          `json:"finding,omitempty"` // witness of this recorded finding (carried through)
	Exp     json.RawMessage `json:"exp,omitempty"`     // carried through untouched (binding A)
	Mach    json.RawMessage `json:"mach,omitempty"`
	MTags   []string        `json:"mtags"`
	NT      bool            `json:"nt"`
	Tmo     int             `json:"tmo,omitempty"` // per-case timeout in ms (0: the -timeout flag)
	SQL     string          `json:"sql,omitempty"`
	Got     *Got            `json:"got,omitempty"`
	Raw     string          `json:"raw,omitempty"`
}

func val(v interface{}) Val {
	n := eng.Norm(v)
	switch n.T {
	case "n":
		return Null()
	case "i":
		if i, ok := n.V.(int); ok {
			return Int(i)
		}
	}
	return Val{T: "x", S: strings.TrimSpace(fmt.Sprintf("%T:%v", v, v))}
}

func classify(msg string) string {
	switch {
	case strings.Contains(msg, "sqlstate 45000"):
		return "45000"
	case strings.Contains(msg, "duplicate primary key"):
		return "23000"
	case strings.Contains(msg, "Case not found for CASE"):
		return "20000"
	}
	return "other"
}

// runCase executes one case on a fresh engine.
func runCase(c *Case) {
	db := eng.New()
	s := db.NewSession()
	s.MustExec("CREATE TABLE log (n INT AUTO_INCREMENT PRIMARY KEY, v INT)")
	s.MustExec("CREATE TABLE k (id INT PRIMARY KEY)")
	s.MustExec("INSERT INTO k VALUES (1)")
	g := &Got{Err: "none", Vars: []Val{}, Log: []Val{}, Sel: []Val{}}
	c.Got = g
	c.SQL = c.Prog.CreateSQL()
	if r := s.Exec(c.SQL); r.Kind == "err" || r.Kind == "panic" {
		g.Err, c.Raw = "create", r.Kind+": "+r.Msg
		return
	}
	for i, p := range c.Prog.Params {
		s.MustExec("SET @" + p.N + " = " + c.Prog.Args[i].SQL())
	}
	for _, q := range c.Prelude {
		if r := s.Exec(q); r.Kind == "err" || r.Kind == "panic" {
			g.Err, c.Raw = "prelude", r.Kind+": "+r.Msg
			return
		}
	}
	r := s.Exec(c.Prog.CallSQL())
	switch r.Kind {
	case "err":
		g.Err, c.Raw = classify(r.Msg), r.Msg
	case "panic":
		g.Err, c.Raw = "panic", r.Msg
	case "rows":
		if len(r.Raw) == 1 && len(r.Raw[0]) == 1 {
			g.Sel = []Val{val(r.Raw[0][0])}
		} else {
			g.Sel = []Val{{T: "x", S: fmt.Sprintf("%d rows", len(r.Raw))}}
		}
	}
	var us []string
	for _, p := range c.Prog.Params {
		us = append(us, "@"+p.N)
	}
	if vr := s.Exec("SELECT " + strings.Join(us, ", ")); vr.Kind == "rows" && len(vr.Raw) == 1 {
		for _, v := range vr.Raw[0] {
			g.Vars = append(g.Vars, val(v))
		}
	} else {
		g.Vars = append(g.Vars, Val{T: "x", S: vr.Kind + ": " + vr.Msg})
	}
	if lr := s.Exec("SELECT v FROM log ORDER BY n"); lr.Kind == "rows" {
		for _, row := range lr.Raw {
			g.Log = append(g.Log, val(row[0]))
		}
	} else {
		g.Log = append(g.Log, Val{T: "x", S: lr.Kind + ": " + lr.Msg})
	}
}

func worker() {
	in := bufio.NewReaderSize(os.Stdin, 1<<20)
	out := bufio.NewWriter(os.Stdout)
	// warm-up (engine start-up costs seconds of CPU on a loaded machine and must not count against a case)
	warm := &Case{Prog: &Prog{Params: []Param{{"x", "inout"}}, Args: []Val{Int(1)},
		Body: &Stmt{K: "block", Body: []*Stmt{{K: "set", V: "x", E: Op("plus", Var("x"), Lit(Int(1)))}, {K: "ins", E: Var("x")}}}}}
	runCase(warm)
	out.WriteString("READY\n")
	out.Flush()
	for {
		line, err := in.ReadBytes('\n')
		if len(line) > 1 {
			var c Case
			if e := json.Unmarshal(line, &c); e != nil {
				vio.Fatal("worker: bad case: %v", e)
			}
			runCase(&c)
			b, _ := json.Marshal(&c)
			out.Write(b)
			out.WriteByte('\n')
			out.Flush()
		}
		if err != nil {
			return
		}
	}
}

// child is one worker process.
type child struct {
	cmd *exec.Cmd
	in  io.WriteCloser
	out *bufio.Reader
}

func spawn() *child {
	cmd := exec.Command(os.Args[0], "-mode", "worker")
	cmd.Stderr = os.Stderr
	in, _ := cmd.StdinPipe()
	out, _ := cmd.StdoutPipe()
	if err := cmd.Start(); err != nil {
		vio.Fatal("cannot start worker: %v", err)
	}
	ch := &child{cmd: cmd, in: in, out: bufio.NewReaderSize(out, 1<<20)}
	ready := make(chan error, 1)
	go func() {
		line, err := ch.out.ReadString('\n')
		if err == nil && strings.TrimSpace(line) != "READY" {
			err = fmt.Errorf("unexpected worker greeting %q", line)
		}
		ready <- err
	}()
	select {
	case err := <-ready:
		if err != nil {
			vio.Fatal("worker did not start: %v", err)
		}
	case <-time.After(5 * time.Minute):
		vio.Fatal("worker did not become ready within 5 minutes")
	}
	return ch
}

func (ch *child) kill() {
	ch.in.Close()
	ch.cmd.Process.Kill()
	ch.cmd.Wait()
}

// run sends one case and waits for the result; on timeout or death the child is replaced.
// cpuTime returns the CPU time (user+system, all threads) the process has consumed so far.
func cpuTime(pid int) time.Duration {
	b, err := os.ReadFile(fmt.Sprintf("/proc/%d/stat", pid))
	if err != nil {
		return 0
	}
	s := string(b)
	if i := strings.LastIndexByte(s, ')'); i >= 0 { // the command name may contain spaces
		s = s[i+1:]
	}
	f := strings.Fields(s) // f[0] is the state (field 3 of stat); utime and stime are fields 14 and 15
	if len(f) < 13 {
		return 0
	}
	ut, _ := strconv.ParseInt(f[11], 10, 64)
	st, _ := strconv.ParseInt(f[12], 10, 64)
	return time.Duration(ut+st) * (time.Second / 100) // USER_HZ = 100
}

// run sends one case and waits for the result. The case is a "hang" when the child has burnt cpu of
// CPU time on it (independent of how loaded the machine is: an ordinary case needs a few 10 ms) or
// when the wall-clock timeout passes.
func (ch *child) run(c *Case, timeout, cpu time.Duration) (*Case, *child) {
	b, _ := json.Marshal(c)
	type res struct {
		line []byte
		err  error
	}
	done := make(chan res, 1)
	go func() {
		if _, err := ch.in.Write(append(b, '\n')); err != nil {
			done <- res{nil, err}
			return
		}
		line, err := ch.out.ReadBytes('\n')
		done <- res{line, err}
	}()
	fail := func(kind string) (*Case, *child) {
		ch.kill()
		c.SQL = c.Prog.CreateSQL()
		c.Got = &Got{Err: kind, Vars: []Val{}, Log: []Val{}, Sel: []Val{}}
		return c, spawn()
	}
	cpu0 := cpuTime(ch.cmd.Process.Pid)
	deadline := time.After(timeout)
	tick := time.NewTicker(100 * time.Millisecond)
	defer tick.Stop()
	for {
		select {
		case r := <-done:
			if r.err != nil || len(r.line) < 2 {
				return fail("crash")
			}
			var o Case
			if err := json.Unmarshal(r.line, &o); err != nil {
				return fail("crash")
			}
			return &o, ch
		case <-tick.C:
			if cpuTime(ch.cmd.Process.Pid)-cpu0 > cpu {
				return fail("hang")
			}
		case <-deadline:
			return fail("hang")
		}
	}
}

func main() {
	mode := flag.String("mode", "exec", "gen | exec | worker")
	in := flag.String("in", "", "cases (ndjson)")
	out := flag.String("out", "", "output (ndjson)")
	only := flag.String("only", "", "comma separated ids to run")
	seed := flag.Int64("seed", 1, "")
	n := flag.Int("n", 100, "programs to generate")
	depth := flag.Int("depth", 4, "")
	nodes := flag.Int("nodes", 12, "")
	par := flag.Int("par", 4, "worker processes")
	timeoutMs := flag.Int("timeout", 60000, "per-case wall-clock timeout (ms)")
	cpuMs := flag.Int("cpu", 3000, "per-case CPU-time budget of the worker process (ms); exceeding it is outcome hang")
	idBase := flag.Int("idbase", 0, "")
	maxHang := flag.Int("maxhang", 25, "stop executing after this many hangs/crashes (remaining cases are reported as skipped)")
	flag.Parse()

	switch *mode {
	case "worker":
		worker()
		return
	case "gen":
		r := rand.New(rand.NewSource(*seed))
		w, err := vio.NewWriter(*out)
		if err != nil {
			vio.Fatal("%v", err)
		}
		for i := 1; i <= *n; i++ {
			w.Write(&Case{Ev: "p", ID: *idBase + i, Prog: genProg(r, *depth, *nodes), Tags: []string{}})
		}
		w.Close()
		(&vio.Report{Cases: *n}).Emit()
		return
	}

	want := map[int]bool{}
	for _, x := range strings.Split(*only, ",") {
		if x != "" {
			i, err := strconv.Atoi(x)
			if err != nil {
				vio.Fatal("bad -only: %v", err)
			}
			want[i] = true
		}
	}
	var cases []*Case
	err := vio.ReadNDJSON(*in, func(i int, line []byte) error {
		var c Case
		if err := json.Unmarshal(line, &c); err != nil {
			return err
		}
		if c.Prog == nil {
			return nil
		}
		if len(want) == 0 || want[c.ID] {
			c.Ev = "p"
			if c.Tags == nil {
				c.Tags = []string{}
			}
			if c.MTags == nil {
				c.MTags = []string{} // never JSON null: the TLA+ Json module rejects it
			}
			cases = append(cases, &c)
		}
		return nil
	})
	if err != nil {
		vio.Fatal("%v", err)
	}
	results := make([]*Case, len(cases))
	var wg sync.WaitGroup
	var mu sync.Mutex
	hangs := 0
	next := make(chan int)
	for w := 0; w < *par; w++ {
		wg.Add(1)
		go func() {
			defer wg.Done()
			ch := spawn()
			for i := range next {
				mu.Lock()
				stop := hangs >= *maxHang
				mu.Unlock()
				if stop {
					continue
				}
				capMs := *timeoutMs
				if cases[i].Tmo > 0 && cases[i].Tmo < capMs {
					capMs = cases[i].Tmo
				}
				results[i], ch = ch.run(cases[i], time.Duration(capMs)*time.Millisecond, time.Duration(*cpuMs)*time.Millisecond)
				mu.Lock()
				if e := results[i].Got.Err; e == "hang" || e == "crash" {
					hangs++
				}
				mu.Unlock()
			}
			ch.kill()
		}()
	}
	for i := range cases {
		next <- i
	}
	close(next)
	wg.Wait()
	w, err := vio.NewWriter(*out)
	if err != nil {
		vio.Fatal("%v", err)
	}
	rep := &vio.Report{Extra: map[string]interface{}{}}
	kinds := map[string]int{}
	skipped := 0
	for _, c := range results {
		if c == nil {
			skipped++
			continue
		}
		w.Write(c)
		rep.Cases++
		kinds[c.Got.Err]++
		if c.NT {
			rep.Nontrivial++
		}
		if len(rep.Samples) < 3 && c.NT && c.Got.Err == "none" && len(c.Got.Log) > 1 {
			rep.Samples = append(rep.Samples, map[string]interface{}{"sql": c.SQL, "args": c.Prog.Args, "got": c.Got})
		}
	}
	w.Close()
	rep.Extra["outcomes"] = kinds
	rep.Extra["skipped"] = skipped
	rep.Emit()
}
