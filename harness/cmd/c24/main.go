// c24: executes stored-procedure programs (ASTs of spec/ProcMachine.tla) on the real engine and
// records what a client observes (binding A: programs enumerated/sampled by TLC with the
// specification's expectation attached; binding B: programs of the seeded generator in gen.go,
// outcomes validated by spec/Trace_Proc.tla).  No semantics here: render, run, record.
//
//	-mode gen    -seed S -n N [-depth 4 -nodes 12] -out cases.ndjson
//	-mode exec   -in cases.ndjson -out trace.ndjson [-only id,id] [-par 4] [-timeout ms] [-maxhang n]
//	-mode worker (internal: one case per stdin line, one result per stdout line)
//
// Every case runs on a fresh engine in a child process; a CALL that does not return within the
// timeout is outcome "hang" (the child is killed), a dead child is outcome "crash".
package main

import (
	"bufio"
	"encoding/json"
	"flag"
	"fmt"
	"io"
	"math/rand"
	"os"
	"os/exec"
	"sort"
	"strconv"
	"strings"
	"sync"
	"time"

	"gmsverif/lib/eng"
	"gmsverif/lib/vio"
)

type Got struct {
	Err  string `json:"err"` // none | 45000 | 23000 | 20000 | other | create | panic | hang | crash
	Vars []Val  `json:"vars"`
	Log  []Val  `json:"log"`
	Sel  []Val  `json:"sel"`
}

type Case struct {
	Ev      string          `json:"ev"`
	ID      int             `json:"id"`
	Prog    *Prog           `json:"prog"`
	Tags    []string        `json:"tags"`
	Prelude []string        `json:"prelude,omitempty"` // extra statements run in the session before the CALL
	Finding string          `json:"finding,omitempty"` // witness of this recorded finding (carried through)
	Exp     json.RawMessage `json:"exp,omitempty"`     // carried through untouched (binding A)
	Mach    json.RawMessage `json:"mach,omitempty"`
	MTags   []string        `json:"mtags"`
	NT      bool            `json:"nt"`
	Tmo     int             `json:"tmo,omitempty"` // per-case timeout in ms (0: the -timeout flag)
	SQL     string          `json:"sql,omitempty"`
	Got     *Got            `json:"got,omitempty"`
	Raw     string          `json:"raw,omitempty"`
}

func val(v interface{}) Val {
	n := eng.Norm(v)
	switch n.T {
	case "n":
		return Null()
	case "i":
		if i, ok := n.V.(int); ok {
			return Int(i)
		}
	}
	return Val{T: "x", S: strings.TrimSpace(fmt.Sprintf("%T:%v", v, v))}
}

func classify(msg string) string {
	switch {
	case strings.Contains(msg, "sqlstate 45000"):
		return "45000"
	case strings.Contains(msg, "duplicate primary key"):
		return "23000"
	case strings.Contains(msg, "Case not found for CASE"):
		return "20000"
	}
	return "other"
}

// runCase executes one case on a fresh engine.
func runCase(c *Case) {
	db := eng.New()
	s := db.NewSession()
	s.MustExec("CREATE TABLE log (n INT AUTO_INCREMENT PRIMARY KEY, v INT)")
	s.MustExec("CREATE TABLE k (id INT PRIMARY KEY)")
	s.MustExec("INSERT INTO k VALUES (1)")
	g := &Got{Err: "none", Vars: []Val{}, Log: []Val{}, Sel: []Val{}}
	c.Got = g
	c.SQL = c.Prog.CreateSQL()
	if r := s.Exec(c.SQL); r.Kind == "err" || r.Kind == "panic" {
		g.Err, c.Raw = "create", r.Kind+": "+r.Msg
		return
	}
	for i, p := range c.Prog.Params {
		s.MustExec("SET @" + p.N + " = " + c.Prog.Args[i].SQL())
	}
	for _, q := range c.Prelude {
		if r := s.Exec(q); r.Kind == "err" || r.Kind == "panic" {
			g.Err, c.Raw = "prelude", r.Kind+": "+r.Msg
			return
		}
	}
	r := s.Exec(c.Prog.CallSQL())
	switch r.Kind {
	case "err":
		g.Err, c.Raw = classify(r.Msg), r.Msg
	case "panic":
		g.Err, c.Raw = "panic", r.Msg
	case "rows":
		if len(r.Raw) == 1 && len(r.Raw[0]) == 1 {
			g.Sel = []Val{val(r.Raw[0][0])}
		} else {
			g.Sel = []Val{{T: "x", S: fmt.Sprintf("%d rows", len(r.Raw))}}
		}
	}
	var us []string
	for _, p := range c.Prog.Params {
		us = append(us, "@"+p.N)
	}
	if vr := s.Exec("SELECT " + strings.Join(us, ", ")); vr.Kind == "rows" && len(vr.Raw) == 1 {
		for _, v := range vr.Raw[0] {
			g.Vars = append(g.Vars, val(v))
		}
	} else {
		g.Vars = append(g.Vars, Val{T: "x", S: vr.Kind + ": " + vr.Msg})
	}
	if lr := s.Exec("SELECT v FROM log ORDER BY n"); lr.Kind == "rows" {
		for _, row := range lr.Raw {
			g.Log = append(g.Log, val(row[0]))
		}
	} else {
		g.Log = append(g.Log, Val{T: "x", S: lr.Kind + ": " + lr.Msg})
	}
}

func worker() {
	in := bufio.NewReaderSize(os.Stdin, 1<<20)
	out := bufio.NewWriter(os.Stdout)
	for {
		line, err := in.ReadBytes('\n')
		if len(line) > 1 {
			var c Case
			if e := json.Unmarshal(line, &c); e != nil {
				vio.Fatal("worker: bad case: %v", e)
			}
			runCase(&c)
			b, _ := json.Marshal(&c)
			out.Write(b)
			out.WriteByte('\n')
			out.Flush()
		}
		if err != nil {
			return
		}
	}
}

// child is one worker process.
type child struct {
	cmd *exec.Cmd
	in  io.WriteCloser
	out *bufio.Reader
}

func spawn() *child {
	cmd := exec.Command(os.Args[0], "-mode", "worker")
	cmd.Stderr = os.Stderr
	in, _ := cmd.StdinPipe()
	out, _ := cmd.StdoutPipe()
	if err := cmd.Start(); err != nil {
		vio.Fatal("cannot start worker: %v", err)
	}
	return &child{cmd: cmd, in: in, out: bufio.NewReaderSize(out, 1<<20)}
}

func (ch *child) kill() {
	ch.in.Close()
	ch.cmd.Process.Kill()
	ch.cmd.Wait()
}

// run sends one case and waits for the result; on timeout or death the child is replaced.
func (ch *child) run(c *Case, timeout time.Duration) (*Case, *child) {
	b, _ := json.Marshal(c)
	type res struct {
		line []byte
		err  error
	}
	done := make(chan res, 1)
	go func() {
		if _, err := ch.in.Write(append(b, '\n')); err != nil {
			done <- res{nil, err}
			return
		}
		line, err := ch.out.ReadBytes('\n')
		done <- res{line, err}
	}()
	fail := func(kind string) (*Case, *child) {
		ch.kill()
		c.SQL = c.Prog.CreateSQL()
		c.Got = &Got{Err: kind, Vars: []Val{}, Log: []Val{}, Sel: []Val{}}
		return c, spawn()
	}
	select {
	case r := <-done:
		if r.err != nil || len(r.line) < 2 {
			return fail("crash")
		}
		var o Case
		if err := json.Unmarshal(r.line, &o); err != nil {
			return fail("crash")
		}
		return &o, ch
	case <-time.After(timeout):
		return fail("hang")
	}
}

func main() {
	mode := flag.String("mode", "exec", "gen | exec | worker")
	in := flag.String("in", "", "cases (ndjson)")
	out := flag.String("out", "", "output (ndjson)")
	only := flag.String("only", "", "comma separated ids to run")
	seed := flag.Int64("seed", 1, "")
	n := flag.Int("n", 100, "programs to generate")
	depth := flag.Int("depth", 4, "")
	nodes := flag.Int("nodes", 12, "")
	par := flag.Int("par", 4, "worker processes")
	timeoutMs := flag.Int("timeout", 8000, "per-case timeout (ms)")
	idBase := flag.Int("idbase", 0, "")
	maxHang := flag.Int("maxhang", 25, "stop executing after this many hangs/crashes (remaining cases are reported as skipped)")
	flag.Parse()

	switch *mode {
	case "worker":
		worker()
		return
	case "gen":
		r := rand.New(rand.NewSource(*seed))
		w, err := vio.NewWriter(*out)
		if err != nil {
			vio.Fatal("%v", err)
		}
		for i := 1; i <= *n; i++ {
			w.Write(&Case{Ev: "p", ID: *idBase + i, Prog: genProg(r, *depth, *nodes), Tags: []string{}})
		}
		w.Close()
		(&vio.Report{Cases: *n}).Emit()
		return
	}

	want := map[int]bool{}
	for _, x := range strings.Split(*only, ",") {
		if x != "" {
			i, err := strconv.Atoi(x)
			if err != nil {
				vio.Fatal("bad -only: %v", err)
			}
			want[i] = true
		}
	}
	var cases []*Case
	err := vio.ReadNDJSON(*in, func(i int, line []byte) error {
		var c Case
		if err := json.Unmarshal(line, &c); err != nil {
			return err
		}
		if c.Prog == nil {
			return nil
		}
		if len(want) == 0 || want[c.ID] {
			c.Ev = "p"
			if c.Tags == nil {
				c.Tags = []string{}
			}
			if c.MTags == nil {
				c.MTags = []string{} // never JSON null: the TLA+ Json module rejects it
			}
			cases = append(cases, &c)
		}
		return nil
	})
	if err != nil {
		vio.Fatal("%v", err)
	}
	results := make([]*Case, len(cases))
	var wg sync.WaitGroup
	var mu sync.Mutex
	hangs := 0
	var durs []time.Duration
	next := make(chan int)
	for w := 0; w < *par; w++ {
		wg.Add(1)
		go func() {
			defer wg.Done()
			ch := spawn()
			for i := range next {
				mu.Lock()
				stop := hangs >= *maxHang
				mu.Unlock()
				if stop {
					continue
				}
				// adaptive timeout: 300 x the median duration of the completed cases, at least 4 s, at most the
				// -timeout flag (the machine may be heavily loaded); a per-case tmo lowers the cap
				capMs := *timeoutMs
				if cases[i].Tmo > 0 && cases[i].Tmo < capMs {
					capMs = cases[i].Tmo
				}
				mu.Lock()
				t := capMs
				if len(durs) >= 8 {
					d := append([]time.Duration{}, durs...)
					sort.Slice(d, func(a, b int) bool { return d[a] < d[b] })
					if m := int(d[len(d)/2].Milliseconds()) * 300; m < t {
						t = m
					}
					if t < 4000 {
						t = 4000
					}
					if t > capMs {
						t = capMs
					}
				}
				mu.Unlock()
				start := time.Now()
				results[i], ch = ch.run(cases[i], time.Duration(t)*time.Millisecond)
				if results[i].Got.Err == "hang" && cases[i].Tmo == 0 && t < capMs {
					// an unexpected hang under the adaptive timeout may be a load spike: one retry with a longer one
					t2 := 2 * t
					if t2 < 8000 {
						t2 = 8000
					}
					if t2 > capMs {
						t2 = capMs
					}
					cases[i].Got = nil
					start = time.Now()
					results[i], ch = ch.run(cases[i], time.Duration(t2)*time.Millisecond)
				}
				mu.Lock()
				if e := results[i].Got.Err; e == "hang" || e == "crash" {
					hangs++
				} else {
					durs = append(durs, time.Since(start))
					if len(durs) > 60 {
						durs = durs[len(durs)-60:]
					}
				}
				mu.Unlock()
			}
			ch.kill()
		}()
	}
	for i := range cases {
		next <- i
	}
	close(next)
	wg.Wait()
	w, err := vio.NewWriter(*out)
	if err != nil {
		vio.Fatal("%v", err)
	}
	rep := &vio.Report{Extra: map[string]interface{}{}}
	kinds := map[string]int{}
	skipped := 0
	for _, c := range results {
		if c == nil {
			skipped++
			continue
		}
		w.Write(c)
		rep.Cases++
		kinds[c.Got.Err]++
		if c.NT {
			rep.Nontrivial++
		}
		if len(rep.Samples) < 3 && c.NT && c.Got.Err == "none" && len(c.Got.Log) > 1 {
			rep.Samples = append(rep.Samples, map[string]interface{}{"sql": c.SQL, "args": c.Prog.Args, "got": c.Got})
		}
	}
	w.Close()
	rep.Extra["outcomes"] = kinds
	rep.Extra["skipped"] = skipped
	rep.Emit()
}
