// c04: driver of property C04 (ORDER BY output is ordered; LIMIT/OFFSET select the right slice).
// Generates databases (tables with and without primary keys / secondary indexes, NULLs, duplicates,
// _bin and _ai_ci strings over [0-9A-Za-z ]) and queries whose ORDER BY keys are all in the select
// list (the specification judges by output ordinals), runs the rendered SQL on the real engine and
// records db / q events for spec/Trace_Query.tla (binding B).  `-mode exec` executes cases produced
// elsewhere (TLC-enumerated cases of spec/MC_Order.tla = binding A; witnesses of known findings).
// Nothing here decides a verdict: the plan class and the non-triviality counters only classify.
package main

import (
	"encoding/json"
	"flag"
	"fmt"
	"os"
	"strings"
	"time"

	"github.com/dolthub/go-mysql-server/sql"

	"gmsverif/lib/eng"
	. "gmsverif/lib/sqlast"
	"gmsverif/lib/sqlgen"
	"gmsverif/lib/vio"
)

type event struct {
	Ev     string             `json:"ev"`
	DB     map[string]any     `json:"db,omitempty"`
	Schema []*sqlgen.TableDef `json:"schema,omitempty"`
	ID     int                `json:"id,omitempty"`
	Q      *Query             `json:"q,omitempty"`
	Res    *eng.Result        `json:"res,omitempty"`
	SQL    string             `json:"sql,omitempty"`
	Tags   []string           `json:"tags,omitempty"`
	Plan   string             `json:"plan,omitempty"`  // plan class: sort | topn | index | none
	Full   int                `json:"full,omitempty"`  // rows of the query without LIMIT/OFFSET (classification only)
	Shape  string             `json:"shape,omitempty"` // generator shape
}

type runner struct {
	w       *vio.Writer
	rep     *vio.Report
	kinds   map[string]int
	classes map[string]int // plan class -> executed cases
	ntClass map[string]int // plan class -> non-trivial cases
	why     map[string]int // reason of non-triviality -> cases
	shapes  map[string]int
	ndb     int             // databases set up so far
	seen    map[string]bool // database number + SQL text of the non-trivial cases (distinct count)
}

var showSQL = os.Getenv("SQLQ_SHOW") != ""

func setup(tabs []*sqlgen.TableDef) (*eng.DB, *eng.Session) {
	db := eng.New()
	s := db.NewSession()
	for _, t := range tabs {
		s.MustExec(t.CreateSQL())
		if showSQL {
			fmt.Println(t.CreateSQL())
		}
		for _, ins := range t.InsertSQL() {
			s.MustExec(ins)
			if showSQL {
				fmt.Println(ins)
			}
		}
	}
	return db, s
}

func (r *runner) dbEvent(tabs []*sqlgen.TableDef) event {
	r.ndb++
	return event{Ev: "db", DB: sqlgen.DBJSON(tabs), Schema: tabs}
}

// planClass names how the engine produces the order: the fingerprint class the property speaks of.
func planClass(db *eng.DB, s *eng.Session, text string) (class string) {
	defer func() {
		if r := recover(); r != nil { // a panic of the analyzer is an outcome of Exec already
			class = "none"
		}
	}()
	node, err := db.Engine.AnalyzeQuery(s.Ctx(), text)
	if err != nil {
		return "none"
	}
	p := sql.DebugString(s.Ctx(), node)
	if os.Getenv("C04_PLAN") != "" { // triage aid
		fmt.Println(p)
	}
	switch {
	case strings.Contains(p, "TopN("):
		return "topn"
	case strings.Contains(p, "Sort("):
		return "sort"
	case strings.Contains(p, "IndexedTableAccess"):
		if strings.Contains(p, "reverse: true") {
			return "index-reverse"
		}
		return "index"
	}
	return "none"
}

func extraTags(q *Query) []string {
	var out []string
	if q.K == "select" && selfJoin(q.From) {
		out = append(out, "selfjoin")
	}
	return out
}

func selfJoin(f *From) bool {
	seen := map[string]int{}
	var walk func(f *From)
	walk = func(f *From) {
		if f == nil {
			return
		}
		if f.K == "table" {
			seen[f.Name]++
		}
		walk(f.L)
		walk(f.R)
	}
	walk(f)
	for _, n := range seen {
		if n > 1 {
			return true
		}
	}
	return false
}

// execTimed runs one statement under a watchdog: an engine call that does not return is the outcome
// "hang"; the driver records it, reports and exits, because the stuck goroutine cannot be stopped.
func execTimed(s *eng.Session, q string) eng.Result {
	ch := make(chan eng.Result, 1)
	go func() { ch <- s.Exec(q) }()
	select {
	case res := <-ch:
		return res
	case <-time.After(stmtTimeout):
		return eng.Result{Kind: "hang", Msg: fmt.Sprintf("no result after %s", stmtTimeout), Rows: [][]Value{}}
	}
}

var stmtTimeout = 15 * time.Second

func (r *runner) finish(mode string) {
	r.w.Close()
	r.rep.Extra["result_kinds"] = r.kinds
	r.rep.Extra["plan_classes"] = r.classes
	r.rep.Extra["plan_classes_nontrivial"] = r.ntClass
	r.rep.Extra["nontrivial_reasons"] = r.why
	r.rep.Extra["shapes"] = r.shapes
	fmt.Fprintf(os.Stderr, "%s: %d cases %v classes %v\n", mode, r.rep.Cases, r.kinds, r.classes)
	r.rep.Emit()
}

func (r *runner) runQuery(db *eng.DB, s *eng.Session, id int, q *Query, shape string) {
	text := (&Renderer{}).Query(q)
	if showSQL {
		fmt.Println(text)
	}
	res := execTimed(s, text)
	ev := event{Ev: "q", ID: id, Q: q, Res: &res, SQL: text, Tags: append(Tags(q), extraTags(q)...), Shape: shape}
	if res.Kind == "hang" {
		ev.Plan = "none"
		r.w.Write(ev)
		r.rep.Cases++
		r.kinds[res.Kind]++
		r.rep.Extra["aborted"] = fmt.Sprintf("case %d did not return: %s", id, text)
		r.finish("aborted")
		os.Exit(0)
	}
	ev.Plan = planClass(db, s, text)
	r.rep.Cases++
	r.kinds[res.Kind]++
	r.classes[ev.Plan]++
	r.shapes[shape]++
	if res.Kind == "rows" {
		// classification only: size of the unsliced result, ties / NULLs among the reported sort keys
		full := len(res.Rows)
		if q.Limit >= 0 || q.Offset > 0 {
			q2 := *q
			q2.Limit, q2.Offset = -1, 0
			if fr := s.Exec((&Renderer{}).Query(&q2)); fr.Kind == "rows" {
				full = len(fr.Rows)
			}
		}
		ev.Full = full
		var why []string
		if len(q.Order) > 0 {
			if len(res.Rows) >= 2 && hasNullKey(q, res.Rows) {
				why = append(why, "null-key")
			}
			if len(res.Rows) >= 2 && hasTie(q, res.Rows) {
				why = append(why, "tie")
			}
			if (q.Offset > 0 && q.Offset < full) || (q.Limit >= 0 && q.Offset+q.Limit < full && q.Offset < full) {
				why = append(why, "cut-inside")
			}
		}
		if key := fmt.Sprintf("%d|%s", r.ndb, text); len(why) > 0 && !r.seen[key] {
			r.seen[key] = true
			r.rep.Nontrivial++
			r.ntClass[ev.Plan]++
			for _, w := range why {
				r.why[w]++
			}
			if len(r.rep.Samples) < 4 && len(why) >= 2 && r.sampleWanted(ev.Plan) {
				b, _ := json.Marshal(res.Rows)
				r.rep.Samples = append(r.rep.Samples, map[string]any{"sql": text, "plan_class": ev.Plan, "why": why, "rows": string(b)})
			}
		}
	}
	r.w.Write(ev)
}

// one sample per plan class
func (r *runner) sampleWanted(class string) bool {
	for _, s := range r.rep.Samples {
		if s.(map[string]any)["plan_class"] == class {
			return false
		}
	}
	return true
}

func hasNullKey(q *Query, rows [][]Value) bool {
	for _, row := range rows {
		for _, o := range q.Order {
			if o.I-1 < len(row) && row[o.I-1].IsNull() {
				return true
			}
		}
	}
	return false
}

func hasTie(q *Query, rows [][]Value) bool {
	seen := map[string]bool{}
	for _, row := range rows {
		var k []string
		for _, o := range q.Order {
			if o.I-1 >= len(row) {
				return false
			}
			v := row[o.I-1]
			if v.T == "s" {
				k = append(k, "s:"+strings.ToLower(v.Text()))
			} else {
				k = append(k, fmt.Sprintf("%s:%v%s", v.T, v.V, v.S))
			}
		}
		key := strings.Join(k, "|")
		if seen[key] {
			return true
		}
		seen[key] = true
	}
	return false
}

func main() {
	mode := flag.String("mode", "gen", "gen | exec")
	seed := flag.Int64("seed", 1, "")
	ndb := flag.Int("dbs", 10, "number of generated databases")
	nq := flag.Int("queries", 20, "queries per database")
	out := flag.String("out", "trace.ndjson", "")
	in := flag.String("in", "", "cases to execute (mode exec): db events with schema, q events without res")
	onlyS := flag.String("only", "", "run only the cases with these ids, comma separated (isolation re-run)")
	flag.Parse()
	only := parseOnly(*onlyS)
	w, err := vio.NewWriter(*out)
	if err != nil {
		vio.Fatal("%v", err)
	}
	r := &runner{w: w, rep: &vio.Report{Extra: map[string]interface{}{}}, kinds: map[string]int{},
		seen: map[string]bool{}, classes: map[string]int{}, ntClass: map[string]int{}, why: map[string]int{}, shapes: map[string]int{}}
	switch *mode {
	case "gen":
		r.gen(*seed, *ndb, *nq, only)
	case "exec":
		r.exec(*in, only)
	default:
		vio.Fatal("unknown mode %s", *mode)
	}
	r.finish(*mode)
}

// ---------------------------------------------------------------- generator

var strs = []string{"a", "A", "b", "B", "ab", "Ab", "aB", "a b", "a ", " a", "", "0", "9", "10", "Z", "z", "b2", "B10"}

type gen struct {
	*sqlgen.Gen
	tabs []*sqlgen.TableDef
}

func (g *gen) pick(n int) int        { return g.R.Intn(n) }
func (g *gen) chance(p float64) bool { return g.R.Float64() < p }

var limits = []int{0, 1, 1, 2, 2, 3, 4, 5, 7, 100}
var offsets = []int{1, 1, 2, 2, 3, 4, 6, 9}

func (g *gen) limitOffset(q *Query) {
	if !g.chance(0.7) {
		return
	}
	q.Limit = limits[g.pick(len(limits))]
	if g.chance(0.55) {
		q.Offset = offsets[g.pick(len(offsets))]
	}
}

// keyExpr: a sort key over the current row: mostly plain columns, else an expression.
func (g *gen) keyExpr(cols []sqlgen.ColInfo) (*Expr, sqlgen.ColInfo) {
	s := sqlgen.Scopes{cols}
	if g.chance(0.6) {
		i := g.pick(len(cols))
		return Col(0, i+1, cols[i].Coll), cols[i]
	}
	if g.chance(0.3) {
		e := g.StrExpr(s, 1, "bin")
		return e, sqlgen.ColInfo{Ty: "s", Coll: "bin"}
	}
	if g.chance(0.25) {
		return g.BoolExprNoSubq(s, 1), sqlgen.ColInfo{Ty: "i", Coll: "none"}
	}
	return g.IntExpr(s, 2), sqlgen.ColInfo{Ty: "i", Coll: "none"}
}

func (g *gen) orderOver(q *Query, nKeys int, sameDir bool) {
	desc := g.chance(0.4)
	for i := 0; i < nKeys; i++ {
		if !sameDir {
			desc = g.chance(0.4)
		}
		q.Order = append(q.Order, Ord{I: i + 1, Desc: desc})
	}
}

// the alias form is used most of the time where ORDER BY <ordinal> is a recorded engine defect
// (SELECT DISTINCT; self-joins; LEFT/RIGHT joins planned as merge joins), so that other defects
// stay visible there
func outerJoin(f *From) bool {
	if f == nil {
		return false
	}
	if f.K == "join" && (f.Jt == "left" || f.Jt == "right") {
		return true
	}
	return outerJoin(f.L) || outerJoin(f.R)
}

func (g *gen) ordForm(q *Query) {
	if os.Getenv("C04_ORDINALS") != "" { // hunting aid: always the ordinal form (consumes the same random numbers)
		defer func() { q.OrdAlias = false }()
	}
	if q.Distinct || selfJoin(q.From) || outerJoin(q.From) {
		q.OrdAlias = g.chance(0.85)
	} else {
		q.OrdAlias = g.chance(0.5)
	}
}

func (g *gen) single() (*Query, string) {
	t := g.tabs[g.pick(len(g.tabs))]
	nk := 1 + g.pick(3)
	var proj []*Expr
	for i := 0; i < nk; i++ {
		e, _ := g.keyExpr(t.Cols)
		proj = append(proj, e)
	}
	for i := 0; i < g.pick(3); i++ {
		k := g.pick(len(t.Cols))
		proj = append(proj, Col(0, k+1, t.Cols[k].Coll))
	}
	var where *Expr
	if g.chance(0.3) {
		where = g.BoolExprNoSubq(sqlgen.Scopes{t.Cols}, 1)
	}
	q := Select(Table(t.Name, len(t.Cols)), where, proj...)
	q.Distinct = g.chance(0.15) && !hasCIProj(proj)
	// the ORDER BY keys are a random subset (in random order) of the first nk outputs, at least one
	perm := g.R.Perm(nk)
	n := 1 + g.pick(nk)
	for _, i := range perm[:n] {
		q.Order = append(q.Order, Ord{I: i + 1, Desc: g.chance(0.4)})
	}
	return q, "single"
}

func hasCIProj(proj []*Expr) bool {
	for _, p := range proj {
		if p.K == "col" && p.C == "ci" {
			return true
		}
	}
	return false
}

// indexed: the keys are a prefix of a key of the table, one direction: the index can supply the order
func (g *gen) indexed() (*Query, string) {
	var cands []*sqlgen.TableDef
	for _, t := range g.tabs {
		if len(t.PK) > 0 || len(t.Indexes) > 0 {
			cands = append(cands, t)
		}
	}
	if len(cands) == 0 {
		return g.single()
	}
	t := cands[g.pick(len(cands))]
	var keys [][]int
	if len(t.PK) > 0 {
		keys = append(keys, t.PK)
	}
	keys = append(keys, t.Indexes...)
	key := keys[g.pick(len(keys))]
	n := 1 + g.pick(len(key))
	var proj []*Expr
	for _, c := range key[:n] {
		proj = append(proj, Col(0, c+1, t.Cols[c].Coll))
	}
	for i := 0; i < g.pick(3); i++ {
		k := g.pick(len(t.Cols))
		proj = append(proj, Col(0, k+1, t.Cols[k].Coll))
	}
	var where *Expr
	if g.chance(0.5) {
		// a range on the leading key column (static index lookup whose order is then reused)
		c := key[0]
		col := Col(0, c+1, t.Cols[c].Coll)
		var lit *Expr
		if t.Cols[c].Ty == "i" {
			lit = Lit(g.IntVal(0))
		} else {
			lit = Lit(g.StrVal(0))
		}
		switch g.pick(4) {
		case 0:
			where = Op([]string{"gt", "ge", "lt", "le"}[g.pick(4)], col, lit)
		case 1:
			where = Op("notnull", col)
		case 2:
			var lit2 *Expr
			if t.Cols[c].Ty == "i" {
				lit2 = Lit(g.IntVal(0))
			} else {
				lit2 = Lit(g.StrVal(0))
			}
			where = Op("or", Op("eq", col, lit), Op("gt", col, lit2))
		default:
			where = Op("ne", col, lit)
		}
	}
	q := Select(Table(t.Name, len(t.Cols)), where, proj...)
	g.orderOver(q, n, !g.chance(0.15))
	return q, "indexed"
}

// joined: two table instances (often the same table twice), keys from both sides
func (g *gen) joined() (*Query, string) {
	t1 := g.tabs[g.pick(len(g.tabs))]
	t2 := t1
	if !g.chance(0.5) {
		t2 = g.tabs[g.pick(len(g.tabs))]
	}
	all := append(append([]sqlgen.ColInfo{}, t1.Cols...), t2.Cols...)
	var on *Expr
	jt := "cross"
	if g.chance(0.6) {
		jt = []string{"inner", "inner", "left"}[g.pick(3)]
		// c1 of every table is an INT column
		on = Op([]string{"eq", "le", "ne"}[g.pick(3)], Col(0, 1, "none"), Col(0, len(t1.Cols)+1, "none"))
	}
	f := Join(jt, Table(t1.Name, len(t1.Cols)), Table(t2.Name, len(t2.Cols)), on)
	nk := 1 + g.pick(3)
	var proj []*Expr
	for i := 0; i < nk; i++ {
		k := g.pick(len(all))
		if i == 0 && g.chance(0.5) {
			k = len(t1.Cols) + g.pick(len(t2.Cols)) // a key of the right instance
		}
		proj = append(proj, Col(0, k+1, all[k].Coll))
	}
	q := Select(f, nil, proj...)
	g.orderOver(q, 1+g.pick(nk), false)
	return q, "join"
}

// joinTree: the shared generator's FROM clauses (up to 3 instances, inner/left/right/cross, random ON
// conditions, self-joins), keys = plain columns or expressions over the joined row
func (g *gen) joinTree() (*Query, string) {
	f, cols := g.FromClause(3, sqlgen.Scopes{}, 1)
	if f.K == "table" {
		return g.joined()
	}
	nk := 1 + g.pick(3)
	var proj []*Expr
	for i := 0; i < nk; i++ {
		e, _ := g.keyExpr(cols)
		proj = append(proj, e)
	}
	var where *Expr
	if g.chance(0.3) {
		where = g.BoolExprNoSubq(sqlgen.Scopes{cols}, 1)
	}
	q := Select(f, where, proj...)
	g.orderOver(q, 1+g.pick(nk), false)
	return q, "jointree"
}

func (g *gen) grouped() (*Query, string) {
	// the grouped shape of the shared generator (GROUP BY columns + aggregates [+ HAVING]); its own
	// ORDER BY / LIMIT choice is replaced by this driver's
	var q *Query
	for try := 0; try < 12; try++ {
		c := g.Gen.Query(1)
		if c.K == "select" && c.Grouped {
			q = c
			break
		}
	}
	if q == nil {
		return g.single()
	}
	q.Order, q.Limit, q.Offset = []Ord{}, -1, 0
	n := len(q.Proj)
	perm := g.R.Perm(n)
	k := 1 + g.pick(n)
	for _, i := range perm[:k] {
		if q.Proj[i].K == "agg" && q.Proj[i].F == "avg" {
			continue // fractions are never sort keys
		}
		q.Order = append(q.Order, Ord{I: i + 1, Desc: g.chance(0.4)})
	}
	if len(q.Order) == 0 {
		return g.single()
	}
	return q, "grouped"
}

func (g *gen) query() (*Query, string) {
	var q *Query
	var shape string
	switch r := g.pick(100); {
	case r < 40:
		q, shape = g.single()
	case r < 65:
		q, shape = g.indexed()
	case r < 78:
		q, shape = g.joined()
	case r < 88:
		q, shape = g.joinTree()
	default:
		q, shape = g.grouped()
	}
	g.ordForm(q)
	g.limitOffset(q)
	return q, shape
}

func (r *runner) gen(seed int64, ndb, nq int, only onlySet) {
	id := 0
	for d := 0; d < ndb; d++ {
		// every database is generated from its own seed so that one case can be re-run in isolation
		sg := sqlgen.New(seed*1000003 + int64(d))
		sg.Strs = strs
		sg.MaxRows = 8
		sg.NoSubq = true
		sg.MaxJoin = 1
		sg.NoSetOp = true
		g := &gen{Gen: sg}
		g.tabs = sg.Schema(2)
		var s *eng.Session
		var db *eng.DB
		for k := 0; k < nq; k++ {
			id++
			q, shape := g.query()
			if only.skip(id) {
				continue
			}
			if s == nil {
				db, s = setup(g.tabs)
				r.w.Write(r.dbEvent(g.tabs))
			}
			r.runQuery(db, s, id, q, shape)
		}
	}
}

// ---------------------------------------------------------------- exec mode

func (r *runner) exec(path string, only onlySet) {
	var s *eng.Session
	var edb *eng.DB
	var pending *event
	err := vio.ReadNDJSON(path, func(i int, line []byte) error {
		var e event
		if err := json.Unmarshal(line, &e); err != nil {
			return err
		}
		switch e.Ev {
		case "db":
			pending = &e
			s = nil
		case "q":
			if only.skip(e.ID) {
				return nil
			}
			if s == nil {
				if pending == nil {
					return fmt.Errorf("q before db")
				}
				edb, s = setup(pending.Schema)
				r.w.Write(r.dbEvent(pending.Schema))
			}
			fixWidths(e.Q, pending.Schema)
			shape := e.Shape
			if shape == "" {
				shape = "given"
			}
			r.runQuery(edb, s, e.ID, e.Q, shape)
		}
		return nil
	})
	if err != nil {
		vio.Fatal("%v", err)
	}
}

// fixWidths restores From.W (not serialised) from the schema.
func fixWidths(q *Query, tabs []*sqlgen.TableDef) {
	w := map[string]int{}
	for _, t := range tabs {
		w[t.Name] = len(t.Cols)
	}
	var fq func(q *Query)
	var fe func(e *Expr)
	var ff func(f *From)
	ff = func(f *From) {
		if f == nil {
			return
		}
		if f.K == "table" {
			f.W = w[f.Name]
		}
		ff(f.L)
		ff(f.R)
		fe(f.On)
		fq(f.Q)
	}
	fe = func(e *Expr) {
		if e == nil {
			return
		}
		for _, a := range e.A {
			fe(a)
		}
		fe(e.E)
		fe(e.Arg)
		fe(e.Els)
		for _, a := range e.List {
			fe(a)
		}
		for _, wh := range e.Whens {
			fe(wh[0])
			fe(wh[1])
		}
		fq(e.Q)
	}
	fq = func(q *Query) {
		if q == nil {
			return
		}
		ff(q.From)
		fe(q.Where)
		fe(q.Having)
		for _, p := range q.Proj {
			fe(p)
		}
		for _, p := range q.Group {
			fe(p)
		}
		fq(q.L)
		fq(q.R)
	}
	fq(q)
}

type onlySet map[int]bool

func (o onlySet) skip(id int) bool { return o != nil && !o[id] }

func parseOnly(s string) onlySet {
	if s == "" {
		return nil
	}
	o := onlySet{}
	for _, p := range strings.Split(s, ",") {
		var n int
		if _, err := fmt.Sscan(p, &n); err == nil {
			o[n] = true
		}
	}
	return o
}
