// c43: binding A of C43 (information_schema and SHOW reflect the catalog).  Replays TLC behaviours of
// spec/Catalog.tla: every step is one DDL statement whose SQL text was built by the specification;
// after every step all information_schema tables and SHOW statements of the property are queried
// for the test database, projected to their identity columns and compared with the rows TLC printed
// for the post-state (InfoRows) -- a comparison of canonical sets of string tuples.
package main

import (
	"encoding/json"
	"flag"
	"fmt"
	"regexp"
	"sort"
	"strings"

	sqle "github.com/dolthub/go-mysql-server"
	"github.com/dolthub/go-mysql-server/memory"
	"github.com/dolthub/go-mysql-server/sql"
	"github.com/dolthub/go-mysql-server/sql/analyzer"
	"github.com/dolthub/go-mysql-server/sql/mysql_db"

	"gmsverif/lib/eng"
	"gmsverif/lib/vio"
)

type TR struct {
	Step int                   `json:"step"`
	Op   string                `json:"op"`
	SQL  string                `json:"sql"`
	Ret  string                `json:"ret"`
	Exp  map[string][][]string `json:"exp"`
}

func text(v interface{}) string {
	switch x := v.(type) {
	case nil:
		return ""
	case string:
		return x
	case []byte:
		return string(x)
	}
	return fmt.Sprint(v)
}

// rows runs a query and returns its rows as lower-cased strings (NULL = "").
func rows(s *eng.Session, q string) ([][]string, error) {
	r := s.Exec(q)
	if r.Kind != "rows" {
		return nil, fmt.Errorf("%s: %s %s", q, r.Kind, r.Msg)
	}
	out := make([][]string, 0, len(r.Raw))
	for _, row := range r.Raw {
		t := make([]string, len(row))
		for i, v := range row {
			// enum / set columns of information_schema carry their numeric form: render the member text
			if i < len(r.Schema) && v != nil {
				switch ty := r.Schema[i].Type.(type) {
				case sql.EnumType:
					if idx, ok := v.(uint16); ok {
						if m, ok := ty.At(int(idx)); ok {
							v = m
						}
					}
				case sql.SetType:
					if bits, ok := v.(uint64); ok {
						if m, err := ty.BitsToString(bits); err == nil {
							v = m
						}
					}
				}
			}
			t[i] = strings.ToLower(text(v))
		}
		out = append(out, t)
	}
	return out, nil
}

// normalisation shared by both sides
func normType(t string) string { return strings.ReplaceAll(strings.ToLower(t), " ", "") }
func normCheck(c string) string {
	c = strings.ToLower(c)
	for _, x := range []string{"`", " ", "(", ")"} {
		c = strings.ReplaceAll(c, x, "")
	}
	return c
}

var reQuoted = regexp.MustCompile("`[^`]*`|'[^']*'")
var reDigits = regexp.MustCompile(`[0-9]+`)

// msgClass: an error message without names and numbers (labels a disagreement only).
func msgClass(m string) string {
	m = strings.ToLower(reQuoted.ReplaceAllString(m, ""))
	m = reDigits.ReplaceAllString(m, "n")
	return strings.Join(strings.Fields(m), " ")
}

func pick(rs [][]string, idx ...int) [][]string {
	out := make([][]string, 0, len(rs))
	for _, r := range rs {
		t := make([]string, len(idx))
		for i, j := range idx {
			if j < len(r) {
				t[i] = r[j]
			}
		}
		out = append(out, t)
	}
	return out
}

const db = "d"

// newEngine: one database "d"; the privilege database is enabled and every session is root@localhost
// (information_schema.TRIGGERS / ROUTINES / VIEWS list an object only to an account that holds the
// privilege for it; with the privilege database disabled they are empty).
func newEngine() *eng.DB {
	pro := memory.NewDBProvider(memory.NewDatabase(db))
	a := analyzer.NewDefault(pro)
	a.Catalog.MySQLDb.SetEnabled(true)
	a.Catalog.MySQLDb.SetPersister(&mysql_db.NoopPersister{})
	a.Catalog.MySQLDb.AddRootAccount()
	return &eng.DB{Engine: sqle.New(a, nil), Provider: pro}
}

// observe queries everything the property names, restricted to the test database.
func observe(s *eng.Session) (map[string][][]string, error) {
	o := map[string][][]string{}
	var err error
	q := func(which, query string) [][]string {
		if err != nil {
			return nil
		}
		var r [][]string
		r, err = rows(s, query)
		if err != nil {
			err = fmt.Errorf("%s: %w", which, err)
		}
		o[which] = r
		return r
	}
	tabs := q("TABLES", "SELECT table_name, table_type FROM information_schema.tables WHERE table_schema = '"+db+"'")
	base := map[string]bool{}
	var baseNames []string
	for _, t := range tabs {
		if t[1] == "base table" {
			base[t[0]] = true
			baseNames = append(baseNames, t[0])
		}
	}
	sort.Strings(baseNames)
	cols := q("COLUMNS", "SELECT table_name, column_name, ordinal_position, is_nullable, column_type, column_key FROM information_schema.columns WHERE table_schema = '"+db+"'")
	var bc [][]string
	for _, c := range cols {
		if base[c[0]] { // columns of views are not part of the comparison
			c[4] = normType(c[4])
			bc = append(bc, c)
		}
	}
	o["COLUMNS"] = bc
	q("STATISTICS", "SELECT table_name, index_name, seq_in_index, column_name, non_unique FROM information_schema.statistics WHERE table_schema = '"+db+"'")
	q("KEY_COLUMN_USAGE", "SELECT constraint_name, table_name, column_name, ordinal_position, referenced_table_name, referenced_column_name FROM information_schema.key_column_usage WHERE table_schema = '"+db+"'")
	q("TABLE_CONSTRAINTS", "SELECT constraint_name, table_name, constraint_type FROM information_schema.table_constraints WHERE table_schema = '"+db+"'")
	q("REFERENTIAL_CONSTRAINTS", "SELECT constraint_name, table_name, referenced_table_name, update_rule, delete_rule FROM information_schema.referential_constraints WHERE constraint_schema = '"+db+"'")
	ck := q("CHECK_CONSTRAINTS", "SELECT constraint_name, check_clause FROM information_schema.check_constraints WHERE constraint_schema = '"+db+"'")
	for _, c := range ck {
		c[1] = normCheck(c[1])
	}
	q("TRIGGERS", "SELECT trigger_name, event_manipulation, event_object_table, action_timing FROM information_schema.triggers WHERE trigger_schema = '"+db+"'")
	q("ROUTINES", "SELECT routine_name, routine_type FROM information_schema.routines WHERE routine_schema = '"+db+"'")
	q("VIEWS", "SELECT table_name FROM information_schema.views WHERE table_schema = '"+db+"'")
	q("SHOW_TABLES", "SHOW TABLES")
	q("SHOW_FULL_TABLES", "SHOW FULL TABLES")
	var sc, si [][]string
	for _, t := range baseNames {
		if err != nil {
			break
		}
		var r [][]string
		r, err = rows(s, "SHOW COLUMNS FROM `"+t+"`")
		for i, c := range r { // Field, Type, Null, Key
			sc = append(sc, []string{t, fmt.Sprint(i + 1), c[0], normType(c[1]), c[2], c[3]})
		}
		if err != nil {
			break
		}
		r, err = rows(s, "SHOW INDEX FROM `"+t+"`")
		si = append(si, pick(r, 0, 1, 2, 3, 4)...) // Table, Non_unique, Key_name, Seq_in_index, Column_name
	}
	o["SHOW_COLUMNS"], o["SHOW_INDEX"] = sc, si
	tr := q("SHOW_TRIGGERS", "SHOW TRIGGERS")
	o["SHOW_TRIGGERS"] = pick(tr, 0, 1, 2, 4) // Trigger, Event, Table, (Statement), Timing
	return o, err
}

func canon(rs [][]string) [][]string {
	out := make([][]string, 0, len(rs))
	for _, r := range rs {
		t := make([]string, len(r))
		for i, x := range r {
			t[i] = strings.ToLower(x)
		}
		out = append(out, t)
	}
	sort.Slice(out, func(i, j int) bool { return strings.Join(out[i], "\x00") < strings.Join(out[j], "\x00") })
	return out
}

// same compares two canonical tuple sets; "*" in an expected field is explicitly unspecified
// (only ever the last field, so the order of the sorted sets is not affected).
func same(exp, got [][]string) bool {
	if len(exp) != len(got) {
		return false
	}
	for i := range exp {
		if len(exp[i]) != len(got[i]) {
			return false
		}
		for j := range exp[i] {
			if exp[i][j] != "*" && exp[i][j] != got[i][j] {
				return false
			}
		}
	}
	return true
}

// nameField: the field of a tuple that names the object the row belongs to (index / constraint /
// trigger ...), used only to label a disagreement.
var nameField = map[string]int{"TABLES": 0, "STATISTICS": 1, "KEY_COLUMN_USAGE": 0, "TABLE_CONSTRAINTS": 0, "REFERENTIAL_CONSTRAINTS": 0,
	"CHECK_CONSTRAINTS": 0, "TRIGGERS": 0, "ROUTINES": 0, "VIEWS": 0, "SHOW_TABLES": 0, "SHOW_FULL_TABLES": 0, "SHOW_INDEX": 2, "SHOW_TRIGGERS": 0}

// describe labels the difference of two tuple sets: for COLUMNS / SHOW_COLUMNS whose rows differ only
// in the key class "key:<expected>-><got>", otherwise the names of the objects whose rows differ.
func describe(w string, exp, got [][]string) string {
	key := func(r []string) string { return strings.Join(r, "\x00") }
	in := func(set [][]string) map[string]bool {
		m := map[string]bool{}
		for _, r := range set {
			m[key(r)] = true
		}
		return m
	}
	ge, gg := in(exp), in(got)
	var missing, extra [][]string
	for _, r := range exp {
		if !gg[key(r)] {
			missing = append(missing, r)
		}
	}
	for _, r := range got {
		if !ge[key(r)] {
			extra = append(extra, r)
		}
	}
	labels := map[string]bool{}
	if w == "COLUMNS" || w == "SHOW_COLUMNS" {
		if len(missing) == len(extra) {
			ok := true
			for i := range missing {
				n := len(missing[i])
				if n != len(extra[i]) || key(missing[i][:n-1]) != key(extra[i][:n-1]) {
					ok = false
					break
				}
				if missing[i][n-1] != "*" {
					labels["key:"+missing[i][n-1]+"->"+extra[i][n-1]] = true
				}
			}
			if !ok {
				labels = map[string]bool{"rows": true}
			}
		} else {
			labels["rows"] = true
		}
	} else {
		f := nameField[w]
		for _, r := range append(missing, extra...) {
			if f < len(r) {
				labels[r[f]] = true
			}
		}
	}
	var out []string
	for l := range labels {
		out = append(out, l)
	}
	sort.Strings(out)
	return strings.Join(out, ",")
}

var order = []string{"TABLES", "COLUMNS", "STATISTICS", "KEY_COLUMN_USAGE", "TABLE_CONSTRAINTS", "REFERENTIAL_CONSTRAINTS", "CHECK_CONSTRAINTS",
	"TRIGGERS", "ROUTINES", "VIEWS", "SHOW_TABLES", "SHOW_FULL_TABLES", "SHOW_COLUMNS", "SHOW_INDEX", "SHOW_TRIGGERS"}

func main() {
	in := flag.String("in", "", "TLC behaviours (ndjson of TR records)")
	maxMM := flag.Int("maxmm", 60, "report at most this many disagreements")
	flag.Parse()
	rep := &vio.Report{Extra: map[string]interface{}{}}
	var s *eng.Session
	skipping := false
	behaviours, skipped, comparisons := 0, 0, 0
	byOp := map[string]int{}
	var prefix []json.RawMessage
	err := vio.ReadNDJSON(*in, func(i int, line []byte) error {
		var tr TR
		if err := json.Unmarshal(line, &tr); err != nil {
			return err
		}
		if tr.Step == 1 {
			s = newEngine().NewSession()
			skipping = false
			behaviours++
			prefix = prefix[:0]
		}
		prefix = append(prefix, append(json.RawMessage{}, line...))
		if skipping {
			skipped++
			return nil
		}
		rep.Cases++
		byOp[tr.Op+"/"+tr.Ret]++
		r := s.Exec(tr.SQL)
		got := "ok"
		if r.Kind == "err" {
			got = "fail"
		} else if r.Kind == "panic" {
			got = "panic"
		}
		opLabel := tr.Op
		if tr.Ret == "fail" {
			opLabel += "(fail)" // the statement was expected to fail without effect
		}
		mismatch := func(what string, exp, g interface{}) {
			rep.Mismatches = append(rep.Mismatches, vio.Mismatch{Case: i, Signature: "C43|" + opLabel + "|" + what, Expected: exp, Got: g,
				Input: map[string]interface{}{"sql": tr.SQL, "behaviour": append([]json.RawMessage{}, prefix...)}})
			skipping = true
		}
		if got != tr.Ret {
			what := "ret=" + got
			if got != "ok" {
				what += ":" + msgClass(r.Msg)
			}
			mismatch(what, tr.Ret, got+" "+r.Msg)
			return nil
		}
		if tr.Ret == "ok" {
			rep.Nontrivial++
		}
		obs, err := observe(s)
		if err != nil {
			mismatch("query-failed", "all catalog queries succeed", err.Error())
			return nil
		}
		var bad []string
		diff := map[string]interface{}{}
		for _, w := range order {
			e, g := canon(tr.Exp[w]), canon(obs[w])
			if w == "CHECK_CONSTRAINTS" {
				for _, x := range e {
					x[1] = normCheck(x[1])
				}
			}
			comparisons++
			if !same(e, g) {
				bad = append(bad, w+"["+describe(w, e, g)+"]")
				diff[w] = map[string]interface{}{"expected": e, "got": g}
			}
		}
		if len(bad) > 0 {
			mismatch(strings.Join(bad, ","), nil, diff)
			return nil
		}
		if len(rep.Samples) < 3 && tr.Step > 8 && i%41 == 0 {
			rep.Samples = append(rep.Samples, map[string]interface{}{"step": tr.Step, "sql": tr.SQL, "ret": tr.Ret, "tables": obs["TABLES"], "statistics": obs["STATISTICS"]})
		}
		return nil
	})
	if err != nil {
		vio.Fatal("%v", err)
	}
	rep.Extra["behaviours"] = behaviours
	rep.Extra["steps_skipped_after_divergence"] = skipped
	rep.Extra["set_comparisons"] = comparisons
	rep.Extra["by_op"] = byOp
	if len(rep.Mismatches) > *maxMM {
		rep.Extra["mismatches_total"] = len(rep.Mismatches)
		rep.Mismatches = rep.Mismatches[:*maxMM]
	}
	rep.Emit()
}
