// c03: driver of property C03 (index lookups return exactly the rows a full scan would).
// Per case a generated table shape (TINYINT / SMALLINT / INT and VARCHAR _bin / _ai_ci columns; primary
// key, secondary, composite, unique and prefix indexes) is created TWICE with identical rows: `ti`
// with the keys and `tn` with none.  A generated filter (a sqlast.Expr, so the specification can
// evaluate it) is run as SELECT * FROM ti WHERE f and SELECT * FROM tn WHERE f; both results are
// recorded as ONE event together with the index lookup (index columns, ranges as cut pairs, whether
// a Filter node remains above it) read off the analysed plan of the indexed variant and with probe
// rows.  spec/Trace_Index.tla judges: ResultOK of each result, bag equality between them, and point
// by point membership of the probe / table rows in the logged ranges (range construction vs range
// execution).  `-mode exec` executes cases produced elsewhere (TLC-enumerated cases of
// spec/MC_Index.tla = binding A; witnesses).  Nothing here decides a verdict.
package main

import (
	"encoding/json"
	"flag"
	"fmt"
	"math/rand"
	"os"
	"sort"
	"strings"
	"time"

	"github.com/dolthub/go-mysql-server/sql"
	"github.com/dolthub/go-mysql-server/sql/plan"
	"github.com/dolthub/go-mysql-server/sql/transform"

	"gmsverif/lib/eng"
	. "gmsverif/lib/sqlast"
	"gmsverif/lib/vio"
)

// ---------------------------------------------------------------- schema

type colDef struct {
	Ty      string `json:"ty"`   // i8 | i16 | i32 | s
	Coll    string `json:"coll"` // none | bin | ci
	NotNull bool   `json:"notnull"`
}

type idxDef struct {
	Cols   []int `json:"cols"`   // 0-based
	Prefix []int `json:"prefix"` // per column, 0 = whole value
	Unique bool  `json:"unique"`
}

type tableDef struct {
	Cols []colDef  `json:"cols"`
	PK   []int     `json:"pk"`
	Idx  []idxDef  `json:"idx"`
	Rows [][]Value `json:"rows"`
}

func (t *tableDef) createSQL(name string, keys bool) string {
	var parts []string
	for i, c := range t.Cols {
		s := fmt.Sprintf("c%d ", i+1)
		switch c.Ty {
		case "i8":
			s += "TINYINT"
		case "i16":
			s += "SMALLINT"
		case "i32":
			s += "INT"
		default:
			if c.Coll == "ci" {
				s += "VARCHAR(16) COLLATE utf8mb4_0900_ai_ci"
			} else {
				s += "VARCHAR(16) COLLATE utf8mb4_0900_bin"
			}
		}
		if c.NotNull {
			s += " NOT NULL"
		}
		parts = append(parts, s)
	}
	if keys {
		if len(t.PK) > 0 {
			var cs []string
			for _, k := range t.PK {
				cs = append(cs, fmt.Sprintf("c%d", k+1))
			}
			parts = append(parts, "PRIMARY KEY ("+strings.Join(cs, ", ")+")")
		}
		for i, ix := range t.Idx {
			var cs []string
			for j, k := range ix.Cols {
				c := fmt.Sprintf("c%d", k+1)
				if j < len(ix.Prefix) && ix.Prefix[j] > 0 {
					c += fmt.Sprintf("(%d)", ix.Prefix[j])
				}
				cs = append(cs, c)
			}
			u := ""
			if ix.Unique {
				u = "UNIQUE "
			}
			parts = append(parts, fmt.Sprintf("%sKEY k%d (%s)", u, i+1, strings.Join(cs, ", ")))
		}
	}
	return fmt.Sprintf("CREATE TABLE %s (%s)", name, strings.Join(parts, ", "))
}

func (t *tableDef) insertSQL(name string) []string {
	var out []string
	for _, r := range t.Rows {
		var vs []string
		for _, v := range r {
			vs = append(vs, v.SQL())
		}
		out = append(out, fmt.Sprintf("INSERT INTO %s VALUES (%s)", name, strings.Join(vs, ", ")))
	}
	return out
}

// ---------------------------------------------------------------- events

type cut struct {
	C string `json:"c"` // bn | an | aa | b (Below v) | a (Above v)
	V *Value `json:"v,omitempty"`
}

type rce struct {
	Lo cut `json:"lo"`
	Hi cut `json:"hi"`
}

type lookupJ struct {
	Has     bool      `json:"has"`
	Index   string    `json:"index"`
	Cols    []int     `json:"cols"`  // 1-based table ordinals of the index expressions
	Colls   []string  `json:"colls"` // collation tag of each of them
	Ranges  [][]rce   `json:"ranges"`
	Exact   bool      `json:"exact"` // no Filter node in the plan: the lookup alone selects the rows
	Reverse bool      `json:"reverse"`
	Prefix  bool      `json:"prefix"`
	Dom     [][]Value `json:"dom"` // probe rows (hypothetical rows of the table's column types)
	Text    string    `json:"text"`
}

type event struct {
	Ev    string         `json:"ev"`
	DB    map[string]any `json:"db,omitempty"`
	Def   *tableDef      `json:"def,omitempty"`
	ID    int            `json:"id,omitempty"`
	Q     *Query         `json:"q,omitempty"`
	RI    *eng.Result    `json:"ri,omitempty"`
	RN    *eng.Result    `json:"rn,omitempty"`
	LK    *lookupJ       `json:"lk,omitempty"`
	SQL   string         `json:"sql,omitempty"`  // indexed variant
	SQLN  string         `json:"sqln,omitempty"` // index-free variant
	Tags  []string       `json:"tags,omitempty"`
	Shape string         `json:"shape,omitempty"` // table shape / case origin
	Star  bool           `json:"star,omitempty"`  // rendered as SELECT *
}

type runner struct {
	w      *vio.Writer
	rep    *vio.Report
	kinds  map[string]int
	idxUse map[string]int // kind of key the chosen lookup goes through
	feats  map[string]int // filter features among the non-trivial cases
	exact  int
	ndb    int             // tables set up so far
	seen   map[string]bool // table number + SQL text of the non-trivial cases (distinct count)
}

var showSQL = os.Getenv("SQLQ_SHOW") != ""

func setup(t *tableDef) (*eng.DB, *eng.Session) {
	db := eng.New()
	s := db.NewSession()
	for _, nm := range []string{"ti", "tn"} {
		c := t.createSQL(nm, nm == "ti")
		if showSQL {
			fmt.Println(c)
		}
		s.MustExec(c)
		for _, ins := range t.insertSQL(nm) {
			if showSQL && nm == "ti" {
				fmt.Println(ins)
			}
			s.MustExec(ins)
		}
	}
	return db, s
}

func (r *runner) dbEvent(t *tableDef) event {
	r.ndb++
	rows := t.Rows
	if rows == nil {
		rows = [][]Value{}
	}
	return event{Ev: "db", DB: map[string]any{"t": map[string]any{"w": len(t.Cols), "rows": rows}}, Def: t}
}

func render(q *Query, table string, star bool) string {
	q2 := *q
	f := *q.From
	f.Name = table
	q2.From = &f
	text := (&Renderer{}).Query(&q2)
	if star {
		if i := strings.Index(text, " FROM "); i > 0 {
			text = "SELECT *" + text[i:]
		}
	}
	return text
}

func cutOf(c sql.MySQLRangeCut) cut {
	switch x := c.(type) {
	case sql.BelowNull:
		return cut{C: "bn"}
	case sql.AboveNull:
		return cut{C: "an"}
	case sql.AboveAll:
		return cut{C: "aa"}
	case sql.Below:
		v := eng.Norm(x.Key)
		return cut{C: "b", V: &v}
	case sql.Above:
		v := eng.Norm(x.Key)
		return cut{C: "a", V: &v}
	}
	v := Opaque(fmt.Sprintf("%T", c))
	return cut{C: "?", V: &v}
}

// lookupOf reads the index lookup of the analysed plan (nil without an index access).
func lookupOf(db *eng.DB, s *eng.Session, t *tableDef, text string) (lk *lookupJ, how string) {
	defer func() {
		if r := recover(); r != nil { // a panic of the analyzer is an outcome of Exec already
			lk, how = nil, "analyze-panic"
		}
	}()
	ctx := s.Ctx()
	node, err := db.Engine.AnalyzeQuery(ctx, text)
	if err != nil {
		return nil, "analyze-error"
	}
	var ita *plan.IndexedTableAccess
	hasFilter := false
	transform.Inspect(node, func(n sql.Node) bool {
		switch x := n.(type) {
		case *plan.IndexedTableAccess:
			ita = x
		case *plan.Filter:
			hasFilter = true
		}
		return true
	})
	if ita == nil {
		return nil, "scan"
	}
	lk = &lookupJ{Has: false, Exact: !hasFilter, Index: ita.Index().ID(), Cols: []int{}, Colls: []string{}, Ranges: [][]rce{}, Dom: [][]Value{}}
	if !ita.IsStatic() {
		return lk, "lookup-dynamic"
	}
	l, ok, err := ita.GetLookup(ctx, nil)
	if err != nil || !ok {
		return lk, "lookup-unreadable"
	}
	rs, isM := l.Ranges.(sql.MySQLRangeCollection)
	if !isM {
		return lk, "lookup-nonmysql"
	}
	lk.Reverse = l.IsReverse
	lk.Text = rs.DebugString(ctx)
	for _, e := range l.Index.Expressions() {
		name := e[strings.LastIndex(e, ".")+1:]
		var n int
		if _, err := fmt.Sscanf(strings.ToLower(name), "c%d", &n); err != nil || n < 1 || n > len(t.Cols) {
			return lk, "lookup-expr"
		}
		lk.Cols = append(lk.Cols, n)
		lk.Colls = append(lk.Colls, t.Cols[n-1].Coll)
	}
	for _, p := range l.Index.PrefixLengths() {
		if p > 0 {
			lk.Prefix = true
		}
	}
	for _, r := range rs {
		row := []rce{}
		for _, ce := range r {
			row = append(row, rce{Lo: cutOf(ce.LowerBound), Hi: cutOf(ce.UpperBound)})
		}
		if len(row) > len(lk.Cols) {
			return lk, "lookup-arity"
		}
		lk.Ranges = append(lk.Ranges, row)
	}
	lk.Has = true
	return lk, "lookup"
}

// typeRange of an integer column (probe rows stay inside the column's type)
func typeRange(ty string) (int, int) {
	switch ty {
	case "i8":
		return -128, 127
	case "i16":
		return -32768, 32767
	}
	return -1000000, 1000000
}

// probes: hypothetical rows around the literals of the filter and the stored values (test points
// for the point-by-point membership check; the specification evaluates them).
func probes(t *tableDef, q *Query, rnd *rand.Rand) [][]Value {
	w := len(t.Cols)
	cand := make([][]Value, w)
	seen := make([]map[string]bool, w)
	add := func(c int, v Value) {
		if v.IsNull() && t.Cols[c].NotNull {
			return
		}
		if t.Cols[c].Ty == "s" {
			if v.T != "s" && !v.IsNull() {
				return
			}
		} else if !v.IsNull() {
			if v.T != "i" {
				return
			}
			lo, hi := typeRange(t.Cols[c].Ty)
			if n := toInt(v.V); n < lo || n > hi {
				return
			}
		}
		k := fmt.Sprintf("%s|%v", v.T, v.V)
		if seen[c] == nil {
			seen[c] = map[string]bool{}
		}
		if !seen[c][k] {
			seen[c][k] = true
			cand[c] = append(cand[c], v)
		}
	}
	for c := range t.Cols {
		add(c, Null())
	}
	for _, r := range t.Rows {
		for c, v := range r {
			add(c, v)
		}
	}
	// literals compared with a column: the literal and its neighbours
	var walk func(e *Expr)
	lits := func(col *Expr, ls ...*Expr) {
		if col == nil || col.K != "col" {
			return
		}
		c := col.I - 1
		for _, l := range ls {
			if l == nil || l.K != "lit" || l.V == nil {
				continue
			}
			add(c, *l.V)
			if l.V.T == "i" {
				n := toInt(l.V.V)
				add(c, Int(n-1))
				add(c, Int(n+1))
			} else if l.V.T == "s" {
				add(c, Str(l.V.Text()+"a"))
				add(c, Str(strings.ToUpper(l.V.Text())))
			}
		}
	}
	walk = func(e *Expr) {
		if e == nil {
			return
		}
		switch e.K {
		case "op":
			if len(e.A) >= 2 {
				lits(e.A[0], e.A[1:]...)
				lits(e.A[1], e.A[0])
			}
			for _, a := range e.A {
				walk(a)
			}
		case "in":
			lits(e.E, e.List...)
		}
	}
	walk(q.Where)
	used := map[int]bool{}
	var mark func(e *Expr)
	mark = func(e *Expr) {
		if e == nil {
			return
		}
		if e.K == "col" {
			used[e.I-1] = true
		}
		for _, a := range e.A {
			mark(a)
		}
		mark(e.E)
		for _, a := range e.List {
			mark(a)
		}
	}
	mark(q.Where)
	// at most 6 candidates per column in use; unused columns keep one value
	total := 1
	for c := range cand {
		if len(cand[c]) == 0 { // NOT NULL column of an empty table
			if t.Cols[c].Ty == "s" {
				cand[c] = []Value{Str("a")}
			} else {
				cand[c] = []Value{Int(0)}
			}
		}
		if !used[c] {
			cand[c] = cand[c][len(cand[c])-1:]
			continue
		}
		if len(cand[c]) > 6 {
			rnd.Shuffle(len(cand[c])-1, func(i, j int) { cand[c][i+1], cand[c][j+1] = cand[c][j+1], cand[c][i+1] })
			cand[c] = cand[c][:6]
		}
		total *= len(cand[c])
	}
	var out [][]Value
	if total <= 150 {
		idx := make([]int, w)
		for {
			row := make([]Value, w)
			for c := range row {
				row[c] = cand[c][idx[c]]
			}
			out = append(out, row)
			c := 0
			for ; c < w; c++ {
				idx[c]++
				if idx[c] < len(cand[c]) {
					break
				}
				idx[c] = 0
			}
			if c == w {
				break
			}
		}
	} else {
		for k := 0; k < 150; k++ {
			row := make([]Value, w)
			for c := range row {
				row[c] = cand[c][rnd.Intn(len(cand[c]))]
			}
			out = append(out, row)
		}
	}
	return out
}

func toInt(v any) int {
	switch x := v.(type) {
	case int:
		return x
	case float64:
		return int(x)
	}
	return 0
}

func keyKind(t *tableDef, lk *lookupJ) string {
	if lk == nil {
		return "scan"
	}
	if strings.EqualFold(lk.Index, "PRIMARY") {
		if len(t.PK) > 1 {
			return "pk-composite"
		}
		return "pk"
	}
	var n int
	if _, err := fmt.Sscanf(lk.Index, "k%d", &n); err == nil && n >= 1 && n <= len(t.Idx) {
		ix := t.Idx[n-1]
		k := "secondary"
		if ix.Unique {
			k = "unique"
		}
		for _, p := range ix.Prefix {
			if p > 0 {
				k = "prefix"
			}
		}
		if len(ix.Cols) > 1 {
			k += "-composite"
		}
		return k
	}
	return "other"
}

// execTimed runs one statement under a watchdog: an engine call that does not return (a range
// operation that never terminates allocates without bound) is the outcome "hang"; the driver records
// it, reports and exits, because the stuck goroutine cannot be stopped.
func execTimed(s *eng.Session, q string) eng.Result {
	ch := make(chan eng.Result, 1)
	go func() { ch <- s.Exec(q) }()
	select {
	case res := <-ch:
		return res
	case <-time.After(stmtTimeout):
		return eng.Result{Kind: "hang", Msg: fmt.Sprintf("no result after %s", stmtTimeout), Rows: [][]Value{}}
	}
}

var stmtTimeout = 15 * time.Second

func (r *runner) finish(mode string) {
	r.w.Close()
	r.rep.Extra["result_kinds"] = r.kinds
	r.rep.Extra["index_use"] = r.idxUse
	r.rep.Extra["features_nontrivial"] = r.feats
	r.rep.Extra["lookups_without_filter_above"] = r.exact
	fmt.Fprintf(os.Stderr, "%s: %d cases, %d through an index %v\n", mode, r.rep.Cases, r.rep.Nontrivial, r.idxUse)
	r.rep.Emit()
}

func (r *runner) runCase(db *eng.DB, s *eng.Session, t *tableDef, id int, q *Query, shape string, star bool, rnd *rand.Rand) {
	ti := render(q, "ti", star)
	tn := render(q, "tn", star)
	if showSQL {
		fmt.Println(ti)
	}
	ri := execTimed(s, ti)
	rn := eng.Result{Kind: "skipped", Rows: [][]Value{}}
	var lk *lookupJ
	how := "hang"
	if ri.Kind != "hang" {
		rn = execTimed(s, tn)
		lk, how = lookupOf(db, s, t, ti)
	}
	tags := Tags(q)
	for _, c := range usedCols(q.Where) {
		tags = append(tags, "col:"+t.Cols[c].Ty+colSuffix(t.Cols[c]))
	}
	tags = append(tags, outOfRangeTags(t, q.Where)...)
	tags = append(tags, inCITags(t, q.Where)...)
	sort.Strings(tags)
	tags = uniq(tags)
	kk := keyKind(t, lk)
	tags = append(tags, "key:"+kk)
	if lk != nil {
		if lk.Has {
			lk.Dom = probes(t, q, rnd)
		}
		if lk.Exact {
			r.exact++
		}
	}
	ev := event{Ev: "ix", ID: id, Q: q, RI: &ri, RN: &rn, LK: lk, SQL: ti, SQLN: tn, Tags: tags, Shape: shape, Star: star}
	r.w.Write(ev)
	r.rep.Cases++
	r.kinds[ri.Kind+"/"+rn.Kind]++
	r.idxUse[kk]++
	r.idxUse["how:"+how]++
	if ri.Kind == "hang" || rn.Kind == "hang" {
		r.rep.Extra["aborted"] = fmt.Sprintf("case %d did not return: %s", id, ti)
		r.finish("aborted")
		os.Exit(0)
	}
	if key := fmt.Sprintf("%d|%s", r.ndb, ti); lk != nil && !r.seen[key] {
		r.seen[key] = true
		r.rep.Nontrivial++
		for _, tg := range tags {
			if strings.HasPrefix(tg, "op:") || strings.HasPrefix(tg, "col:") || tg == "inlist" || strings.HasPrefix(tg, "lit:") {
				r.feats[tg]++
			}
		}
		if len(r.rep.Samples) < 4 && len(ri.Rows) > 0 && len(lk.Ranges) > 1 && r.sampleWanted(kk) {
			b, _ := json.Marshal(ri.Rows)
			r.rep.Samples = append(r.rep.Samples, map[string]any{"sql": ti, "key": kk, "ranges": lk.Text, "filter_above": !lk.Exact, "rows": string(b)})
		}
	}
}

func (r *runner) sampleWanted(kk string) bool {
	for _, s := range r.rep.Samples {
		if s.(map[string]any)["key"] == kk {
			return false
		}
	}
	return true
}

func colSuffix(c colDef) string {
	if c.Ty == "s" {
		return "-" + c.Coll
	}
	return ""
}

func uniq(s []string) []string {
	var out []string
	for i, x := range s {
		if i == 0 || x != s[i-1] {
			out = append(out, x)
		}
	}
	return out
}

func usedCols(e *Expr) []int {
	m := map[int]bool{}
	var walk func(e *Expr)
	walk = func(e *Expr) {
		if e == nil {
			return
		}
		if e.K == "col" {
			m[e.I-1] = true
		}
		for _, a := range e.A {
			walk(a)
		}
		walk(e.E)
		for _, a := range e.List {
			walk(a)
		}
	}
	walk(e)
	var out []int
	for c := range m {
		out = append(out, c)
	}
	sort.Ints(out)
	return out
}

// outOfRangeTags: lit:oor when an integer literal compared with a column lies outside the column's type
func outOfRangeTags(t *tableDef, e *Expr) []string {
	var out []string
	check := func(col *Expr, ls ...*Expr) {
		if col == nil || col.K != "col" || t.Cols[col.I-1].Ty == "s" {
			return
		}
		lo, hi := typeRange(t.Cols[col.I-1].Ty)
		for _, l := range ls {
			if l != nil && l.K == "lit" && l.V != nil {
				if l.V.T == "i" {
					if n := toInt(l.V.V); n < lo || n > hi {
						out = append(out, "lit:oor")
					} else if n == lo || n == hi {
						out = append(out, "lit:boundary")
					}
				} else if l.V.T == "n" {
					out = append(out, "lit:null")
				}
			}
		}
	}
	var walk func(e *Expr)
	walk = func(e *Expr) {
		if e == nil {
			return
		}
		switch e.K {
		case "op":
			if len(e.A) >= 2 {
				check(e.A[0], e.A[1:]...)
				check(e.A[1], e.A[0])
			}
			for _, a := range e.A {
				walk(a)
			}
		case "in":
			check(e.E, e.List...)
		}
	}
	walk(e)
	return out
}

// inCITags: in:ci when an IN list is applied to an _ai_ci column; in:alloor see below
func inCITags(t *tableDef, e *Expr) []string {
	var out []string
	var walk func(e *Expr)
	walk = func(e *Expr) {
		if e == nil {
			return
		}
		if e.K == "in" && e.E != nil && e.E.K == "col" && e.E.C == "ci" {
			out = append(out, "in:ci")
		}
		if e.K == "in" && e.E != nil && e.E.K == "col" && t.Cols[e.E.I-1].Ty != "s" && len(e.List) > 0 {
			// in:alloor: every member of the list is an integer outside the column's type
			lo, hi := typeRange(t.Cols[e.E.I-1].Ty)
			all := true
			for _, l := range e.List {
				if l.K != "lit" || l.V == nil || l.V.T != "i" || (toInt(l.V.V) >= lo && toInt(l.V.V) <= hi) {
					all = false
				}
			}
			if all {
				out = append(out, "in:alloor")
			}
		}
		for _, a := range e.A {
			walk(a)
		}
	}
	walk(e)
	return out
}

func main() {
	mode := flag.String("mode", "gen", "gen | exec")
	seed := flag.Int64("seed", 1, "")
	ndb := flag.Int("dbs", 10, "number of generated tables")
	nq := flag.Int("queries", 20, "filters per table")
	out := flag.String("out", "trace.ndjson", "")
	in := flag.String("in", "", "cases to execute (mode exec): db events with def, ix events without results")
	onlyS := flag.String("only", "", "run only the cases with these ids, comma separated (isolation re-run)")
	flag.Parse()
	only := parseOnly(*onlyS)
	w, err := vio.NewWriter(*out)
	if err != nil {
		vio.Fatal("%v", err)
	}
	r := &runner{w: w, rep: &vio.Report{Extra: map[string]interface{}{}}, kinds: map[string]int{}, seen: map[string]bool{}, idxUse: map[string]int{}, feats: map[string]int{}}
	switch *mode {
	case "gen":
		r.gen(*seed, *ndb, *nq, only)
	case "exec":
		r.exec(*in, only, *seed)
	default:
		vio.Fatal("unknown mode %s", *mode)
	}
	r.finish(*mode)
}

// ---------------------------------------------------------------- exec mode

func (r *runner) exec(path string, only onlySet, seed int64) {
	var s *eng.Session
	var edb *eng.DB
	var pending *event
	err := vio.ReadNDJSON(path, func(i int, line []byte) error {
		var e event
		if err := json.Unmarshal(line, &e); err != nil {
			return err
		}
		switch e.Ev {
		case "db":
			pending = &e
			s = nil
		case "ix":
			if only.skip(e.ID) {
				return nil
			}
			if pending == nil || pending.Def == nil {
				return fmt.Errorf("ix before db")
			}
			if s == nil {
				edb, s = setup(pending.Def)
				r.w.Write(r.dbEvent(pending.Def))
			}
			e.Q.From.W = len(pending.Def.Cols)
			shape := e.Shape
			if shape == "" {
				shape = "given"
			}
			r.runCase(edb, s, pending.Def, e.ID, e.Q, shape, e.Star, rand.New(rand.NewSource(seed*7919+int64(e.ID))))
		}
		return nil
	})
	if err != nil {
		vio.Fatal("%v", err)
	}
}

type onlySet map[int]bool

func (o onlySet) skip(id int) bool { return o != nil && !o[id] }

func parseOnly(s string) onlySet {
	if s == "" {
		return nil
	}
	o := onlySet{}
	for _, p := range strings.Split(s, ",") {
		var n int
		if _, err := fmt.Sscan(p, &n); err == nil {
			o[n] = true
		}
	}
	return o
}
