package main

import (
	"fmt"
	"os"

	"github.com/dolthub/go-mysql-server/sql"

	"gmsverif/lib/eng"
)

func main() {
	db := eng.New()
	s := db.NewSession()
	for _, q := range []string{
		"CREATE TABLE ti (c1 TINYINT, c2 SMALLINT, c3 VARCHAR(16) COLLATE utf8mb4_0900_ai_ci, c4 VARCHAR(16) COLLATE utf8mb4_0900_bin, c5 INT NOT NULL, PRIMARY KEY (c5), KEY k1 (c1), KEY k2 (c2, c1), KEY k3 (c3(2)), UNIQUE KEY k4 (c4), KEY k5(c3))",
		"INSERT INTO ti VALUES (1, 2, 'ab', 'x', 1), (NULL, 3, 'AB', 'y', 2), (127, NULL, NULL, NULL, 3), (-128, 70, 'abc', 'X', 4), (1, 2, 'Abd', 'xy', 5)",
	} {
		s.MustExec(q)
	}
	for _, q := range os.Args[1:] {
		if q[0] == '!' {
			s.MustExec(q[1:])
			continue
		}
		res := s.Exec(q)
		fmt.Println(q, "=>", res.Kind, res.Msg, len(res.Rows))
		for _, r := range res.Raw {
			fmt.Println("   ", r)
		}
		node, err := db.Engine.AnalyzeQuery(s.Ctx(), q)
		if err != nil {
			fmt.Println("analyze err", err)
			continue
		}
		fmt.Println(sql.DebugString(s.Ctx(), node))
	}
}
