package main

import (
	"fmt"
	"math/rand"
	"strings"

	"gmsverif/lib/eng"
	. "gmsverif/lib/sqlast"
)

// Seeded generators of table shapes and of filters over their indexed columns.  Type-correct and
// crisp: integer columns are compared with integer literals (incl. NULL, the type's boundary values
// and values outside the type: 200 / -200 / 128 / -129 for TINYINT, 70000 / 32768 for SMALLINT),
// string columns with string literals; one collation per comparison.

type gen struct {
	r *rand.Rand
	t *tableDef
	// columns that occur in some key of the table (the filter targets them most of the time)
	keyCols []int
}

func (g *gen) pick(n int) int        { return g.r.Intn(n) }
func (g *gen) chance(p float64) bool { return g.r.Float64() < p }

var i8vals = []int{-128, -127, -2, -1, 0, 1, 2, 3, 5, 100, 126, 127}
var i16vals = []int{-32768, -300, -1, 0, 1, 2, 3, 127, 128, 200, 300, 32767}
var i32vals = []int{-70000, -200, -2, -1, 0, 1, 2, 3, 128, 200, 32768, 70000}
var svals = []string{"a", "A", "b", "B", "ab", "Ab", "aB", "abc", "abd", "ABC", "b2", "", "a ", "1", "10", "z", "Z"}

// literals: stored values plus the out-of-type neighbours
var i8lits = []int{-200, -129, -128, -127, -1, 0, 1, 2, 3, 5, 100, 126, 127, 128, 200, 70000}
var i16lits = []int{-70000, -32769, -32768, -300, -1, 0, 1, 2, 3, 127, 128, 200, 300, 32767, 32768, 70000}
var i32lits = []int{-70000, -200, -3, -2, -1, 0, 1, 2, 3, 4, 127, 128, 200, 32768, 70000, 100000}
var slits = []string{"a", "A", "b", "B", "ab", "Ab", "AB", "abc", "abd", "ABC", "b2", "", "a ", "1", "10", "z", "Z", "aa", "c"}

func (g *gen) value(c colDef, nullP float64) Value {
	if !c.NotNull && g.chance(nullP) {
		return Null()
	}
	switch c.Ty {
	case "i8":
		return Int(i8vals[g.pick(len(i8vals))])
	case "i16":
		return Int(i16vals[g.pick(len(i16vals))])
	case "i32":
		return Int(i32vals[g.pick(len(i32vals))])
	}
	return Str(svals[g.pick(len(svals))])
}

func (g *gen) literal(c colDef, nullP float64) *Expr {
	if g.chance(nullP) {
		return Lit(Null())
	}
	// most of the time near a stored value of the column (hits and boundaries), else from the menu
	switch c.Ty {
	case "i8":
		return Lit(Int(i8lits[g.pick(len(i8lits))]))
	case "i16":
		return Lit(Int(i16lits[g.pick(len(i16lits))]))
	case "i32":
		return Lit(Int(i32lits[g.pick(len(i32lits))]))
	}
	return Lit(Str(slits[g.pick(len(slits))]))
}

// storedOrLiteral prefers a value that occurs in the column (so equalities hit rows)
func (g *gen) storedOrLiteral(col int, nullP float64) *Expr {
	c := g.t.Cols[col]
	if len(g.t.Rows) > 0 && g.chance(0.5) {
		v := g.t.Rows[g.pick(len(g.t.Rows))][col]
		if !v.IsNull() {
			if v.T == "i" && g.chance(0.3) {
				return Lit(Int(toInt(v.V) + []int{-1, 1}[g.pick(2)]))
			}
			return Lit(v)
		}
	}
	return g.literal(c, nullP)
}

func normKey(c colDef, v Value) string {
	if v.IsNull() {
		return "\x00null"
	}
	if v.T == "s" {
		s := v.Text()
		if c.Coll == "ci" {
			s = strings.ToLower(s)
		}
		return "s:" + s
	}
	return fmt.Sprint("i:", v.V)
}

// table generates one table shape with rows satisfying its unique keys (NULLs exempt).
func (g *gen) table() *tableDef {
	t := &tableDef{PK: []int{}, Idx: []idxDef{}, Rows: [][]Value{}}
	w := 2 + g.pick(3)
	for c := 0; c < w; c++ {
		var cd colDef
		switch r := g.pick(10); {
		case r < 2:
			cd = colDef{Ty: "i8", Coll: "none"}
		case r < 4:
			cd = colDef{Ty: "i16", Coll: "none"}
		case r < 6:
			cd = colDef{Ty: "i32", Coll: "none"}
		case r < 8:
			cd = colDef{Ty: "s", Coll: "bin"}
		default:
			cd = colDef{Ty: "s", Coll: "ci"}
		}
		t.Cols = append(t.Cols, cd)
	}
	// primary key: none / one column / two columns
	switch g.pick(5) {
	case 0, 1:
		t.PK = []int{g.pick(w)}
	case 2:
		a, b := g.pick(w), g.pick(w)
		if a != b {
			t.PK = []int{a, b}
		} else {
			t.PK = []int{a}
		}
	}
	for _, k := range t.PK {
		t.Cols[k].NotNull = true
	}
	nIdx := g.pick(4)
	if len(t.PK) == 0 && nIdx == 0 {
		nIdx = 1
	}
	for k := 0; k < nIdx; k++ {
		ix := idxDef{Cols: []int{g.pick(w)}, Prefix: []int{0}}
		if g.chance(0.45) {
			if o := g.pick(w); o != ix.Cols[0] {
				ix.Cols = append(ix.Cols, o)
				ix.Prefix = append(ix.Prefix, 0)
				if g.chance(0.25) {
					if o2 := g.pick(w); o2 != o && o2 != ix.Cols[0] {
						ix.Cols = append(ix.Cols, o2)
						ix.Prefix = append(ix.Prefix, 0)
					}
				}
			}
		}
		pre := false
		for j, c := range ix.Cols {
			if t.Cols[c].Ty == "s" && g.chance(0.3) {
				ix.Prefix[j] = 1 + g.pick(2)
				pre = true
			}
		}
		ix.Unique = !pre && g.chance(0.25)
		t.Idx = append(t.Idx, ix)
	}
	inKey := map[int]bool{}
	for _, k := range t.PK {
		inKey[k] = true
	}
	for _, ix := range t.Idx {
		for _, c := range ix.Cols {
			inKey[c] = true
		}
	}
	for c := 0; c < w; c++ {
		if inKey[c] {
			g.keyCols = append(g.keyCols, c)
		}
	}
	g.t = t
	// rows
	nr := g.pick(15)
	var uniq [][]int
	if len(t.PK) > 0 {
		uniq = append(uniq, t.PK)
	}
	for _, ix := range t.Idx {
		if ix.Unique {
			uniq = append(uniq, ix.Cols)
		}
	}
	seen := make([]map[string]bool, len(uniq))
	for i := range seen {
		seen[i] = map[string]bool{}
	}
	for r := 0; r < nr; r++ {
		row := make([]Value, w)
		for c := range row {
			row[c] = g.value(t.Cols[c], 0.2)
		}
		ok := true
		keys := make([]string, len(uniq))
		for i, u := range uniq {
			hasNull := false
			var parts []string
			for _, c := range u {
				if row[c].IsNull() {
					hasNull = true
				}
				parts = append(parts, normKey(t.Cols[c], row[c]))
			}
			if hasNull {
				continue
			}
			keys[i] = strings.Join(parts, "\x01")
			if seen[i][keys[i]] {
				ok = false
			}
		}
		if !ok {
			continue
		}
		for i, k := range keys {
			if k != "" {
				seen[i][k] = true
			}
		}
		t.Rows = append(t.Rows, row)
	}
	return t
}

func (g *gen) col() (int, *Expr) {
	var c int
	if len(g.keyCols) > 0 && g.chance(0.9) {
		c = g.keyCols[g.pick(len(g.keyCols))]
	} else {
		c = g.pick(len(g.t.Cols))
	}
	return c, Col(0, c+1, g.t.Cols[c].Coll)
}

var cmpOps = []string{"eq", "eq", "ne", "lt", "le", "gt", "ge"}
var swapOp = map[string]string{"eq": "eq", "ne": "ne", "lt": "gt", "le": "ge", "gt": "lt", "ge": "le", "nseq": "nseq"}

func (g *gen) atom() *Expr {
	c, col := g.col()
	cd := g.t.Cols[c]
	switch r := g.pick(100); {
	case r < 45:
		op := cmpOps[g.pick(len(cmpOps))]
		lit := g.storedOrLiteral(c, 0.06)
		if g.chance(0.15) {
			return Op(swapOp[op], lit, col) // literal on the left
		}
		return Op(op, col, lit)
	case r < 50:
		// null-safe equality; over _ai_ci columns <=> compares binary (known finding of C02), not generated there
		if cd.Coll == "ci" {
			return Op("eq", col, g.storedOrLiteral(c, 0.05))
		}
		return Op("nseq", col, g.storedOrLiteral(c, 0.3))
	case r < 65:
		// x IN (..) over an _ai_ci column compares binary unless an index range answers it (known
		// finding C03-in-list-ignores-ci = C07-in-list-ignores-column-collation): generated there only
		// now and then, a disjunction of equalities otherwise, so that other defects stay visible
		if cd.Coll == "ci" && !g.chance(0.1) {
			e := Op("eq", col, g.storedOrLiteral(c, 0.05))
			for i := g.pick(3); i > 0; i-- {
				e = Op("or", e, Op("eq", col, g.storedOrLiteral(c, 0.05)))
			}
			return e
		}
		n := 1 + g.pick(4)
		var l []*Expr
		for i := 0; i < n; i++ {
			l = append(l, g.storedOrLiteral(c, 0.08))
		}
		return In(col, g.chance(0.25), l...)
	case r < 77:
		return Op([]string{"isnull", "notnull"}[g.pick(2)], col)
	case r < 92:
		op := "between"
		if g.chance(0.2) {
			op = "notbetween"
		}
		return Op(op, col, g.storedOrLiteral(c, 0.05), g.storedOrLiteral(c, 0.05))
	default:
		// column against another column of the same family and collation (not indexable; stays a filter)
		for try := 0; try < 4; try++ {
			o := g.pick(len(g.t.Cols))
			od := g.t.Cols[o]
			if o != c && (od.Ty == "s") == (cd.Ty == "s") && od.Coll == cd.Coll {
				return Op(cmpOps[g.pick(len(cmpOps))], col, Col(0, o+1, od.Coll))
			}
		}
		return Op("notnull", col)
	}
}

func (g *gen) filter(depth int) *Expr {
	if depth <= 0 || g.chance(0.3) {
		a := g.atom()
		if g.chance(0.08) {
			return Op("not", a)
		}
		return a
	}
	op := []string{"and", "and", "or"}[g.pick(3)]
	e := Op(op, g.filter(depth-1), g.filter(depth-1))
	if g.chance(0.05) {
		return Op("not", e)
	}
	return e
}

func starQuery(t *tableDef, where *Expr) *Query {
	var proj []*Expr
	for c := range t.Cols {
		proj = append(proj, Col(0, c+1, t.Cols[c].Coll))
	}
	return Select(Table("t", len(t.Cols)), where, proj...)
}

func (r *runner) gen(seed int64, ndb, nq int, only onlySet) {
	id := 0
	for d := 0; d < ndb; d++ {
		// every table is generated from its own seed so that one case can be re-run in isolation
		g := &gen{r: rand.New(rand.NewSource(seed*1000003 + int64(d)))}
		t := g.table()
		var s *eng.Session
		var db *eng.DB
		for k := 0; k < nq; k++ {
			id++
			q := starQuery(t, g.filter(1+g.pick(2)))
			star := g.chance(0.5)
			prs := rand.New(rand.NewSource(seed*7919 + int64(id)))
			if only.skip(id) {
				continue
			}
			if s == nil {
				db, s = setup(t)
				r.w.Write(r.dbEvent(t))
			}
			r.runCase(db, s, t, id, q, "generated", star, prs)
		}
	}
}
