package main

import (
	"crypto/sha1"
	"fmt"
	"hash/fnv"
	"strings"

	"github.com/dolthub/go-mysql-server/sql"
	"github.com/dolthub/go-mysql-server/sql/memo"

	"gmsverif/lib/eng"
	"gmsverif/lib/sqlast"
	"gmsverif/lib/sqlgen"
)

// rndCoster steers the memo to alternatives no hint names: the cost of a physical operator is a
// hash of (seed, operator string). It is installed through the public Analyzer.Coster field.
type rndCoster struct{ seed uint64 }

func (c rndCoster) EstimateCost(ctx *sql.Context, n memo.RelExpr, s sql.StatsProvider) (float64, error) {
	h := fnv.New64a()
	fmt.Fprintf(h, "%d|%s", c.seed, n.String())
	return float64(h.Sum64()%10000) + 1, nil
}

type steering struct {
	label  string
	hint   string
	coster memo.Coster
}

func steerings(aliases []string, nRandom int, seed uint64) []steering {
	out := []steering{{label: "default"}}
	for i := 0; i < nRandom; i++ {
		out = append(out, steering{label: fmt.Sprintf("coster%d", i), coster: rndCoster{seed*131 + uint64(i)}})
	}
	if len(aliases) >= 2 {
		a, b := aliases[0], aliases[1]
		rev := make([]string, len(aliases))
		for i := range aliases {
			rev[len(aliases)-1-i] = aliases[i]
		}
		out = append(out,
			steering{label: "join_order_fwd", hint: "JOIN_ORDER(" + strings.Join(aliases, ",") + ")"},
			steering{label: "join_order_rev", hint: "JOIN_ORDER(" + strings.Join(rev, ",") + ")"},
			steering{label: "hash", hint: "HASH_JOIN(" + a + "," + b + ")"},
			steering{label: "merge", hint: "MERGE_JOIN(" + a + "," + b + ")"},
			steering{label: "lookup", hint: "LOOKUP_JOIN(" + a + "," + b + ")"},
			steering{label: "inner", hint: "INNER_JOIN(" + a + "," + b + ")"},
			steering{label: "no_merge_left_deep", hint: "NO_MERGE_JOIN LEFT_DEEP"},
		)
		if len(aliases) >= 3 {
			c := aliases[2]
			out = append(out,
				steering{label: "join_order_mid", hint: "JOIN_ORDER(" + b + "," + a + "," + c + ")"},
				steering{label: "hash_bc", hint: "HASH_JOIN(" + b + "," + c + ")"},
				steering{label: "merge_bc_lookup_ab", hint: "MERGE_JOIN(" + b + "," + c + ") LOOKUP_JOIN(" + a + "," + b + ")"})
		}
	}
	return out
}

func (r *runner) genC01(seed int64, ndb, nq, depth int, only onlySet, nRandom int) {
	id := 0
	distinctPlans := 0
	for d := 0; d < ndb; d++ {
		g := sqlgen.New(seed*1000003 + int64(d))
		g.MaxJoin = 3
		g.MaxRows = 10
		g.IndexAll = d%4 != 0 // three of four databases has indexes on all join candidates (merge/lookup joins apply)
		tabs := g.Schema(3)
		var s *eng.Session
		var db *eng.DB
		var pendingNeg *sqlast.Query
		for k := 0; k < nq; k++ {
			id++
			var q *sqlast.Query
			nr := nRandom
			if pendingNeg != nil {
				q, pendingNeg = pendingNeg, nil
				nr = 1
			} else if k%3 != 0 {
				q, pendingNeg = g.OuterJoinResidualPair(1) // join + residual ON predicate over duplicate keys
				nr = 1                                    // the hint steerings matter here; fewer random costers, more queries
			} else {
				q = g.Query(depth)
			}
			if only.skip(id) {
				continue
			}
			if s == nil {
				db, s = setup(tabs)
				r.w.Write(dbEvent(tabs))
			}
			distinctPlans += r.runMulti(db, s, id, q, nr, uint64(seed)*7919+uint64(id))
		}
	}
	r.rep.Extra["plan_fingerprints_total"] = distinctPlans
}

// runMulti executes q under every steering and records one "multi" event; returns the number of
// distinct plan fingerprints.
func (r *runner) runMulti(db *eng.DB, s *eng.Session, id int, q *sqlast.Query, nRandom int, cseed uint64) int {
	rd := &sqlast.Renderer{}
	rd.Query(q)
	ev := multiEvent{Ev: "multi", ID: id, Q: q, Tags: sqlast.Tags(q), CSeed: cseed, NRandom: nRandom}
	plans := map[string]bool{}
	def := db.Engine.Analyzer.Coster
	for _, st := range steerings(rd.TableAliases, nRandom, cseed) {
		if q.K != "select" && st.hint != "" {
			continue
		}
		q.Hint = st.hint
		text := (&sqlast.Renderer{}).Query(q)
		q.Hint = ""
		if st.coster != nil {
			db.Engine.Analyzer.Coster = st.coster
		}
		res := s.Exec(text)
		fp := "?"
		if node, err := db.Engine.AnalyzeQuery(s.Ctx(), text); err == nil {
			fp = fmt.Sprintf("%x", sha1.Sum([]byte(sql.DebugString(s.Ctx(), node))))[:12]
		}
		db.Engine.Analyzer.Coster = def
		plans[fp] = true
		ev.Ress = append(ev.Ress, &res)
		ev.SQLs = append(ev.SQLs, text)
		ev.Labels = append(ev.Labels, st.label)
		ev.Plans = append(ev.Plans, fp)
		r.kinds[res.Kind]++
	}
	r.w.Write(ev)
	r.rep.Cases++
	if len(plans) > 1 {
		r.rep.Nontrivial++
	}
	if len(r.rep.Samples) < 3 && len(plans) > 2 {
		r.rep.Samples = append(r.rep.Samples, map[string]interface{}{"sql": ev.SQLs[0], "distinct_plans": len(plans), "steerings": ev.Labels})
	}
	return len(plans)
}
