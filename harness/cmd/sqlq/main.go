// sqlq: drivers for the query-semantics properties. Generates databases and query ASTs inside the
// interpreted fragment, runs the rendered SQL on the real engine and records db / query / result
// events for spec/Trace_Query.tla (binding B).  `-mode exec` executes cases produced elsewhere
// (TLC-enumerated cases = binding A; recorded witnesses of known findings).
package main

import (
	"encoding/json"
	"flag"
	"fmt"
	"os"
	"strings"

	"gmsverif/lib/eng"
	"gmsverif/lib/sqlast"
	"gmsverif/lib/sqlgen"
	"gmsverif/lib/vio"
)

type multiEvent struct {
	Ev      string        `json:"ev"`
	ID      int           `json:"id"`
	Q       *sqlast.Query `json:"q"`
	Ress    []*eng.Result `json:"ress"`
	SQLs    []string      `json:"sqls"`
	Labels  []string      `json:"labels"`
	Plans   []string      `json:"plans"`
	Tags    []string      `json:"tags"`
	CSeed   uint64        `json:"cseed"`
	NRandom int           `json:"nrandom"`
}

type event struct {
	Ev      string             `json:"ev"`
	DB      map[string]any     `json:"db,omitempty"`
	Schema  []*sqlgen.TableDef `json:"schema,omitempty"`
	ID      int                `json:"id,omitempty"`
	Q       *sqlast.Query      `json:"q,omitempty"`
	Res     *eng.Result        `json:"res,omitempty"`
	SQL     string             `json:"sql,omitempty"`
	Tags    []string           `json:"tags,omitempty"`
	Qs      []*sqlast.Query    `json:"qs,omitempty"`
	Ress    []*eng.Result      `json:"ress,omitempty"`
	SQLs    []string           `json:"sqls,omitempty"`
	Note    string             `json:"note,omitempty"`
	CSeed   uint64             `json:"cseed,omitempty"`
	NRandom int                `json:"nrandom,omitempty"`
}

func setup(tabs []*sqlgen.TableDef) (*eng.DB, *eng.Session) {
	db := eng.New()
	s := db.NewSession()
	for _, t := range tabs {
		s.MustExec(t.CreateSQL())
		if showSQL {
			fmt.Println(t.CreateSQL())
		}
		for _, ins := range t.InsertSQL() {
			s.MustExec(ins)
			if showSQL {
				fmt.Println(ins)
			}
		}
	}
	return db, s
}

func dbEvent(tabs []*sqlgen.TableDef) event {
	return event{Ev: "db", DB: sqlgen.DBJSON(tabs), Schema: tabs}
}

type runner struct {
	w     *vio.Writer
	rep   *vio.Report
	kinds map[string]int
}

var showSQL = os.Getenv("SQLQ_SHOW") != ""

func (r *runner) runQuery(s *eng.Session, id int, q *sqlast.Query) {
	text := (&sqlast.Renderer{}).Query(q)
	if showSQL {
		fmt.Println(text)
	}
	res := s.Exec(text)
	r.w.Write(event{Ev: "q", ID: id, Q: q, Res: &res, SQL: text, Tags: sqlast.Tags(q)})
	r.rep.Cases++
	r.kinds[res.Kind]++
	if res.Kind == "rows" && len(res.Rows) > 0 {
		r.rep.Nontrivial++
	}
	if len(r.rep.Samples) < 3 && res.Kind == "rows" && len(res.Rows) > 1 && id%7 == 0 {
		b, _ := json.Marshal(res.Rows)
		r.rep.Samples = append(r.rep.Samples, map[string]string{"sql": text, "rows": string(b)})
	}
}

func main() {
	mode := flag.String("mode", "c02", "driver profile: c02 | exec")
	seed := flag.Int64("seed", 1, "")
	ndb := flag.Int("dbs", 10, "number of generated databases")
	nq := flag.Int("queries", 20, "queries per database")
	depth := flag.Int("depth", 2, "expression depth")
	out := flag.String("out", "trace.ndjson", "")
	in := flag.String("in", "", "cases to execute (mode exec): db events with schema, q events without res")
	onlyS := flag.String("only", "", "run only the cases with these ids, comma separated (isolation re-run)")
	variants := flag.Int("variants", 4, "random costers per query (mode c01)")
	flag.Parse()
	only := parseOnly(*onlyS)
	w, err := vio.NewWriter(*out)
	if err != nil {
		vio.Fatal("%v", err)
	}
	r := &runner{w: w, rep: &vio.Report{Extra: map[string]interface{}{}}, kinds: map[string]int{}}
	switch *mode {
	case "c02":
		r.genC02(*seed, *ndb, *nq, *depth, only)
	case "exec":
		r.exec(*in, only)
	case "c06":
		r.genC06(*seed, *ndb, *nq, *depth, only)
	case "c05":
		r.genC05(*seed, *ndb, *nq, *depth, only)
	case "c01":
		r.genC01(*seed, *ndb, *nq, *depth, only, *variants)
	default:
		vio.Fatal("unknown mode %s", *mode)
	}
	w.Close()
	r.rep.Extra["result_kinds"] = r.kinds
	fmt.Fprintf(os.Stderr, "%s: %d cases %v\n", *mode, r.rep.Cases, r.kinds)
	r.rep.Emit()
}

func (r *runner) genC02(seed int64, ndb, nq, depth int, only onlySet) {
	id := 0
	for d := 0; d < ndb; d++ {
		// every database is generated from its own seed so that one case can be re-run in isolation
		g := sqlgen.New(seed*1000003 + int64(d))
		g.Decimals = d%2 == 0
		tabs := g.Schema(2 + g.R.Intn(2))
		var s *eng.Session
		for k := 0; k < nq; k++ {
			id++
			q := g.Query(depth)
			if only.skip(id) {
				continue
			}
			if s == nil {
				_, s = setup(tabs)
				r.w.Write(dbEvent(tabs))
			}
			r.runQuery(s, id, q)
		}
	}
}

// exec runs given cases: `db` events (with schema) create a fresh engine, `q` events are executed.
func (r *runner) exec(path string, only onlySet) {
	var s *eng.Session
	var edb *eng.DB
	var pending *event
	err := vio.ReadNDJSON(path, func(i int, line []byte) error {
		var e event
		if err := json.Unmarshal(line, &e); err != nil {
			return err
		}
		switch e.Ev {
		case "db":
			pending = &e
			s = nil
		case "tlp", "equiv":
			if only.skip(e.ID) {
				return nil
			}
			if s == nil {
				if pending == nil {
					return fmt.Errorf("event before db")
				}
				edb, s = setup(pending.Schema)
				r.w.Write(dbEvent(pending.Schema))
			}
			r.reexecLaw(s, line)
		case "q", "multi":
			if only.skip(e.ID) {
				return nil
			}
			if s == nil {
				if pending == nil {
					return fmt.Errorf("q before db")
				}
				for _, t := range pending.Schema {
					fixFrom(t)
				}
				edb, s = setup(pending.Schema)
				r.w.Write(dbEvent(pending.Schema))
			}
			fixWidths(e.Q, pending.Schema)
			if e.Ev == "multi" {
				r.runMulti(edb, s, e.ID, e.Q, e.NRandom, e.CSeed)
			} else {
				r.runQuery(s, e.ID, e.Q)
			}
		}
		return nil
	})
	if err != nil {
		vio.Fatal("%v", err)
	}
}

func fixFrom(t *sqlgen.TableDef) {}

// fixWidths restores From.W (not serialised) from the schema.
func fixWidths(q *sqlast.Query, tabs []*sqlgen.TableDef) {
	if q == nil {
		return
	}
	w := map[string]int{}
	for _, t := range tabs {
		w[t.Name] = len(t.Cols)
	}
	var fq func(q *sqlast.Query)
	var fe func(e *sqlast.Expr)
	var ff func(f *sqlast.From)
	ff = func(f *sqlast.From) {
		if f == nil {
			return
		}
		if f.K == "table" {
			f.W = w[f.Name]
		}
		ff(f.L)
		ff(f.R)
		fe(f.On)
		fq(f.Q)
	}
	fe = func(e *sqlast.Expr) {
		if e == nil {
			return
		}
		for _, a := range e.A {
			fe(a)
		}
		fe(e.E)
		fe(e.Arg)
		fe(e.Els)
		for _, a := range e.List {
			fe(a)
		}
		for _, wh := range e.Whens {
			fe(wh[0])
			fe(wh[1])
		}
		fq(e.Q)
	}
	fq = func(q *sqlast.Query) {
		if q == nil {
			return
		}
		ff(q.From)
		fe(q.Where)
		fe(q.Having)
		for _, p := range q.Proj {
			fe(p)
		}
		for _, p := range q.Group {
			fe(p)
		}
		fq(q.L)
		fq(q.R)
	}
	fq(q)
}

// onlySet restricts a run to given case ids (nil = all).
type onlySet map[int]bool

func (o onlySet) skip(id int) bool { return o != nil && !o[id] }

func parseOnly(s string) onlySet {
	if s == "" {
		return nil
	}
	o := onlySet{}
	for _, p := range strings.Split(s, ",") {
		var n int
		if _, err := fmt.Sscan(p, &n); err == nil {
			o[n] = true
		}
	}
	return o
}

// reexecLaw re-runs a recorded tlp / equiv event from its SQL texts (the ASTs are kept as recorded).
func (r *runner) reexecLaw(s *eng.Session, line []byte) {
	var m map[string]json.RawMessage
	if err := json.Unmarshal(line, &m); err != nil {
		vio.Fatal("%v", err)
	}
	var sqls []string
	json.Unmarshal(m["sqls"], &sqls)
	var ress []*eng.Result
	for _, q := range sqls {
		res := s.Exec(q)
		ress = append(ress, &res)
		r.kinds[res.Kind]++
	}
	put := func(k string, v interface{}) {
		b, _ := json.Marshal(v)
		m[k] = b
	}
	var ev string
	json.Unmarshal(m["ev"], &ev)
	if ev == "tlp" && len(ress) == 5 {
		put("all", ress[0])
		put("t", ress[1])
		put("f", ress[2])
		put("n", ress[3])
		put("sel", ress[4])
	} else {
		put("ress", ress)
	}
	r.w.Write(m)
	r.rep.Cases++
}
