package main

import (
	"fmt"

	"gmsverif/lib/eng"
	. "gmsverif/lib/sqlast"
	"gmsverif/lib/sqlgen"
)

// C05: ternary-logic partitioning. For a base query Q and a predicate p the driver records
// Q, Q|p, Q|NOT p, Q|p IS NULL and Q extended by the select-list value of p; p is placed in WHERE,
// HAVING or an inner-join ON clause. p may use built-ins the specification does not interpret
// (raw nodes): then only the law is judged (spec/Trace_Laws.tla).

type tlpEvent struct {
	Ev    string      `json:"ev"`
	ID    int         `json:"id"`
	Place string      `json:"place"`
	W     int         `json:"w"`
	All   *eng.Result `json:"all"`
	T     *eng.Result `json:"t"`
	F     *eng.Result `json:"f"`
	N     *eng.Result `json:"n"`
	Sel   *eng.Result `json:"sel"`
	Qs    []*Query    `json:"qs,omitempty"`
	SQLs  []string    `json:"sqls"`
	Tags  []string    `json:"tags"`
	Pred  string      `json:"pred"`
}

var rawInt1 = []string{
	"(%s %% 2) = 0", "ABS(%s) > 1", "(%s & 1) = 1", "ROUND(%s / 2) = 1", "POW(%s, 2) > 3", "GREATEST(%s, 0) = 0",
	"IF(%s > 0, TRUE, NULL)", "%s IN (1, 2, NULL)", "CASE %s WHEN 1 THEN TRUE WHEN 2 THEN FALSE END",
	"COALESCE(%s, 0) > 0", "ISNULL(%s)", "INTERVAL(%s, 0, 2) = 1",
	"DATE_ADD('2020-01-31', INTERVAL %s MONTH) > '2020-02-01'",
	"DAYOFWEEK(DATE_ADD('2020-01-01', INTERVAL %s DAY)) = 4",
	"JSON_EXTRACT(JSON_ARRAY(%s, 5), '$[0]') = 1", "CONV(%s, 10, 2) = '10'", "BIT_COUNT(%s) = 1",
	"(%s DIV 2) = 0", "SIGN(%s) = -1", "CAST(%s AS CHAR) = '1'", "NULLIF(%s, 1) IS NULL",
	"%s NOT IN (0, 3)", "SQRT(ABS(%s)) >= 1", "(%s * 1.5) > 1.4", "FLOOR(%s / 2) = 0", "MOD(%s, 3) = 1",
	"LPAD(%s, 3, '0') = '001'", "%s BETWEEN -1 AND 1", "NOT (%s > 0)", "(%s > 0) IS UNKNOWN",
	"ELT(%s, 'a', 'b') = 'b'", "STR_TO_DATE(CONCAT('2020-01-0', %s), '%%Y-%%m-%%d') IS NOT NULL",
}

var rawStr1 = []string{
	"%s LIKE 'a%%'", "%s LIKE '_b'", "%s NOT LIKE '%%a%%'", "%s REGEXP '^[aA]'", "LENGTH(%s) > 1", "UPPER(%s) = 'A'",
	"LOCATE('a', %s) > 0", "%s > 'a'", "CONCAT(%s, 'x') = 'ax'", "LEFT(%s, 1) = 'a'", "STRCMP(%s, 'a') = 0",
	"%s IN ('a', 'b', NULL)", "TRIM(%s) = 'a'", "REVERSE(%s) = 'ba'", "ASCII(%s) = 97", "FIELD(%s, 'a', 'b') = 1",
	"INSTR(%s, 'b') = 2", "HEX(%s) = '61'", "%s = ''", "CHAR_LENGTH(%s) = 0", "LOWER(%s) = 'ab'",
	"REPLACE(%s, 'a', 'b') = 'bb'", "SUBSTRING(%s, 2) = 'b'", "%s BETWEEN 'A' AND 'b'", "RPAD(%s, 2, 'z') = 'az'",
	"COALESCE(%s, 'a') = 'a'", "%s IS NOT NULL", "FIND_IN_SET(%s, 'a,b,ab') > 0", "TO_BASE64(%s) = 'YQ=='",
	"CAST(%s AS SIGNED) = 1", "JSON_QUOTE(%s) = '\"a\"'", "%s LIKE 'a\\_' ESCAPE '\\\\'",
}

var rawInt2 = []string{"(%s + %s) > 1", "%s = %s", "(%s < %s) OR (%s IS NULL)", "LEAST(%s, %s) = 0", "(%s - %s) IN (0, 1)", "%s <=> %s", "NULLIF(%s, %s) IS NULL"}

// rawPred builds a boolean-valued predicate over the current scope, mixing uninterpreted built-ins
// with interpreted sub-predicates.
func rawPred(g *sqlgen.Gen, s sqlgen.Scopes, depth int) *Expr {
	pickCol := func(ty string) *Expr { return g.ColOf(s, ty, "") }
	if depth > 0 && g.R.Intn(3) == 0 {
		switch g.R.Intn(3) {
		case 0:
			return Op("and", rawPred(g, s, depth-1), rawPred(g, s, depth-1))
		case 1:
			return Op("or", rawPred(g, s, depth-1), rawPred(g, s, depth-1))
		default:
			return Op("not", rawPred(g, s, depth-1))
		}
	}
	switch g.R.Intn(5) {
	case 0:
		return g.BoolExprNoSubq(s, 1)
	case 1, 2:
		if c := pickCol("i"); c != nil {
			if g.R.Intn(4) == 0 {
				if d := pickCol("i"); d != nil {
					t := rawInt2[g.R.Intn(len(rawInt2))]
					if t == rawInt2[2] {
						return RawExpr(t, c, d, c)
					}
					return RawExpr(t, c, d)
				}
			}
			return RawExpr(rawInt1[g.R.Intn(len(rawInt1))], c)
		}
	default:
		if c := pickCol("s"); c != nil {
			return RawExpr(rawStr1[g.R.Intn(len(rawStr1))], c)
		}
	}
	if c := pickCol("i"); c != nil {
		return RawExpr(rawInt1[g.R.Intn(len(rawInt1))], c)
	}
	return g.BoolExprNoSubq(s, 1)
}

// narrowPred: a narrow integer column compared with a constant at or just outside its type's range
// (the index builder clamps such keys), bare, negated or combined with another predicate.
func narrowPred(g *sqlgen.Gen, cols []sqlgen.ColInfo, sc sqlgen.Scopes) *Expr {
	var idx []int
	for i, c := range cols {
		if c.Phys != "" {
			idx = append(idx, i)
		}
	}
	if len(idx) == 0 {
		return nil
	}
	i := idx[g.R.Intn(len(idx))]
	edge := map[string][]int{"TINYINT": {127, 128, -128, -129, 126, 200, -200, 1000}, "SMALLINT": {32767, 32768, -32768, -32769, 40000, -40000}}[cols[i].Phys]
	k := Lit(Int(edge[g.R.Intn(len(edge))]))
	c := Col(0, i+1, "none")
	ops := []string{"eq", "ne", "lt", "le", "gt", "ge", "nseq"}
	op := ops[g.R.Intn(len(ops))]
	p := Op(op, c, k)
	if g.R.Intn(3) == 0 {
		p = Op(op, k, c)
	}
	switch g.R.Intn(5) {
	case 0:
		p = Op("not", p)
	case 1:
		p = Op("and", p, g.BoolExprNoSubq(sc, 1))
	case 2:
		p = Op("or", p, g.BoolExprNoSubq(sc, 1))
	}
	return p
}

func starProj(cols []sqlgen.ColInfo) []*Expr {
	out := make([]*Expr, len(cols))
	for i, c := range cols {
		out[i] = Col(0, i+1, c.Coll)
	}
	return out
}

func (r *runner) genC05(seed int64, ndb, nq, depth int, only onlySet) {
	id := 0
	places := map[string]int{}
	rawN := 0
	for d := 0; d < ndb; d++ {
		g := sqlgen.New(seed*1000003 + int64(d))
		g.AllowMod = true
		g.NarrowInts = d%2 == 1
		tabs := g.Schema(2 + g.R.Intn(2))
		var s *eng.Session
		for k := 0; k < nq; k++ {
			id++
			// base FROM and predicate
			place := []string{"where", "where", "having", "on"}[g.R.Intn(4)]
			var from *From
			var cols []sqlgen.ColInfo
			switch place {
			case "on":
				t1 := tabs[g.R.Intn(len(tabs))]
				t2 := tabs[g.R.Intn(len(tabs))]
				from = Join("cross", Table(t1.Name, len(t1.Cols)), Table(t2.Name, len(t2.Cols)), nil)
				cols = append(append([]sqlgen.ColInfo{}, t1.Cols...), t2.Cols...)
			default:
				from, cols = g.FromClause(2, sqlgen.Scopes{}, 1)
			}
			sc := sqlgen.Scopes{cols}
			var p *Expr
			// (subqueries under HAVING were steered around until the repair of C02-aggregate-over-subquery)
			if g.R.Intn(2) == 0 {
				p = g.BoolExpr(sc, depth)
			} else {
				p = rawPred(g, sc, depth)
			}
			if g.NarrowInts && g.R.Intn(3) == 0 {
				if np := narrowPred(g, cols, sc); np != nil {
					p = np
				}
			}
			if only.skip(id) {
				continue
			}
			if s == nil {
				_, s = setup(tabs)
				r.w.Write(dbEvent(tabs))
			}
			star := starProj(cols)
			mk := func(w *Expr) *Query {
				switch place {
				case "having":
					q := Select(from, nil, star...)
					q.Grouped = true
					q.Group = star
					if w != nil {
						q.Having = w
					}
					return q
				case "on":
					if w == nil {
						return Select(from, nil, star...)
					}
					j := Join("inner", from.L, from.R, w)
					return Select(j, nil, star...)
				}
				return Select(from, w, star...)
			}
			qAll := mk(nil)
			qT := mk(p)
			qF := mk(Op("not", p))
			qN := mk(Op("isnull", p))
			qSel := mk(nil)
			qSel.Proj = append(append([]*Expr{}, star...), p)
			qs := []*Query{qAll, qT, qF, qN, qSel}
			ev := tlpEvent{Ev: "tlp", ID: id, Place: place, W: len(cols), Tags: Tags(qT)}
			var ress []*eng.Result
			for _, q := range qs {
				text := (&Renderer{}).Query(q)
				res := s.Exec(text)
				ress = append(ress, &res)
				ev.SQLs = append(ev.SQLs, text)
				r.kinds[res.Kind]++
			}
			ev.All, ev.T, ev.F, ev.N, ev.Sel = ress[0], ress[1], ress[2], ress[3], ress[4]
			ev.Pred = (&Renderer{}).Query(Select(from, nil, p))
			if !HasRaw(p) {
				ev.Qs = qs[:4]
			} else {
				rawN++
			}
			r.w.Write(ev)
			r.rep.Cases++
			places[place]++
			if ress[0].Kind == "rows" && len(ress[1].Rows) > 0 && len(ress[1].Rows) < len(ress[0].Rows) {
				r.rep.Nontrivial++
			}
			if len(r.rep.Samples) < 3 && HasRaw(p) && len(ress[1].Rows) > 0 && len(ress[3].Rows) > 0 {
				r.rep.Samples = append(r.rep.Samples, map[string]interface{}{"filtered": ev.SQLs[1], "all": len(ress[0].Rows),
					"true": len(ress[1].Rows), "false": len(ress[2].Rows), "null": len(ress[3].Rows)})
			}
		}
	}
	r.rep.Extra["placements"] = places
	r.rep.Extra["uninterpreted_predicates"] = rawN
	_ = fmt.Sprint
}
