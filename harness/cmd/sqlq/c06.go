package main

import (
	"fmt"

	"gmsverif/lib/eng"
	. "gmsverif/lib/sqlast"
	"gmsverif/lib/sqlgen"
)

// C06: pairs (or triples) of formulations that SQL defines as equivalent, generated from one AST by a
// rewriting function. All are inside the interpreted fragment, so TLC judges each result against its
// own query's meaning AND the results against each other (spec/Trace_Laws.tla, event "equiv").

type equivEvent struct {
	Ev   string        `json:"ev"`
	ID   int           `json:"id"`
	Kind string        `json:"kind"`
	Ress []*eng.Result `json:"ress"`
	Qs   []*Query      `json:"qs"`
	SQLs []string      `json:"sqls"`
	Tags []string      `json:"tags"`
}

func orChain(es []*Expr, op string) *Expr {
	e := es[0]
	for _, x := range es[1:] {
		e = Op(op, e, x)
	}
	return e
}

// subst replaces references to the columns of a derived table (depth 0, ordinal i) by the inner
// projection expressions: the inlining of a derived table / CTE.
func subst(e *Expr, proj []*Expr) *Expr {
	if e == nil {
		return nil
	}
	if e.K == "col" && e.D == 0 {
		return proj[e.I-1]
	}
	c := *e
	c.A = nil
	for _, a := range e.A {
		c.A = append(c.A, subst(a, proj))
	}
	c.List = nil
	for _, a := range e.List {
		c.List = append(c.List, subst(a, proj))
	}
	c.E = subst(e.E, proj)
	c.Arg = subst(e.Arg, proj)
	c.Els = subst(e.Els, proj)
	c.Whens = nil
	for _, w := range e.Whens {
		c.Whens = append(c.Whens, [2]*Expr{subst(w[0], proj), subst(w[1], proj)})
	}
	return &c
}

func (r *runner) genC06(seed int64, ndb, nq, depth int, only onlySet) {
	id := 0
	kinds := map[string]int{}
	for d := 0; d < ndb; d++ {
		g := sqlgen.New(seed*1000003 + int64(d))
		g.NoSubq = true
		g.Decimals = true
		tabs := g.Schema(3)
		var s *eng.Session
		for k := 0; k < nq; k++ {
			id++
			t := tabs[g.R.Intn(len(tabs))]
			from := Table(t.Name, len(t.Cols))
			sc := sqlgen.Scopes{t.Cols}
			star := starProj(t.Cols)
			var qs []*Query
			kind := []string{"in-or", "notin-and", "between", "in-exists", "on-where", "cte-derived-inline", "literal-column", "in-semijoin"}[g.R.Intn(8)]
			var extra []*sqlgen.TableDef
			switch kind {
			case "in-or", "notin-and":
				// lists longer than the hash-IN threshold are included
				n := 1 + g.R.Intn(4)
				if g.R.Intn(3) == 0 {
					n = 9 + g.R.Intn(6)
				}
				var x *Expr
				var list []*Expr
				if c := g.ColOf(sc, "d", ""); c != nil && g.R.Intn(2) == 0 {
					// DECIMAL column against a static list of decimal and integer literals
					x = c
					for i := 0; i < n; i++ {
						if g.R.Intn(4) == 0 {
							list = append(list, Lit(g.IntVal(0.1)))
						} else {
							list = append(list, Lit(g.DecVal(0.1)))
						}
					}
				} else if c := g.ColOf(sc, "s", "bin"); c != nil && g.R.Intn(3) == 0 {
					x = c
					for i := 0; i < n; i++ {
						list = append(list, g.StrExpr(sc, 0, "bin"))
					}
				} else {
					x = g.IntExpr(sc, 1)
					allLit := g.R.Intn(2) == 0 // static lists take the hash-IN path
					for i := 0; i < n; i++ {
						if allLit {
							list = append(list, Lit(g.IntVal(0.15)))
						} else {
							list = append(list, g.IntExpr(sc, 0))
						}
					}
				}
				var alt []*Expr
				for _, y := range list {
					if kind == "in-or" {
						alt = append(alt, Op("eq", x, y))
					} else {
						alt = append(alt, Op("ne", x, y))
					}
				}
				if kind == "in-or" {
					qs = []*Query{Select(from, In(x, false, list...), star...), Select(from, orChain(alt, "or"), star...)}
				} else {
					qs = []*Query{Select(from, In(x, true, list...), star...), Select(from, orChain(alt, "and"), star...)}
				}
				// the same as select-list values (NULL results must agree too)
				qs = append(qs, Select(from, nil, qs[0].Where), Select(from, nil, qs[1].Where))
				qs[2], qs[3] = qs[2], qs[3]
			case "between":
				x, lo, hi := g.IntExpr(sc, 1), g.IntExpr(sc, 1), g.IntExpr(sc, 1)
				neg := g.R.Intn(3) == 0
				a := Op("between", x, lo, hi)
				b := Op("and", Op("ge", x, lo), Op("le", x, hi))
				if neg {
					a = Op("notbetween", x, lo, hi)
					b = Op("not", b)
				}
				qs = []*Query{Select(from, a, star...), Select(from, b, star...), Select(from, nil, a), Select(from, nil, b)}
			case "in-exists", "in-semijoin":
				u := tabs[g.R.Intn(3)] // base tables always have an INT column
				ics := []int{}
				for i, c := range u.Cols {
					if c.Ty == "i" {
						ics = append(ics, i+1)
					}
				}
				y := ics[g.R.Intn(len(ics))]
				uf := Table(u.Name, len(u.Cols))
				w := g.BoolExprNoSubq(sqlgen.Scopes{u.Cols}, 1)
				x := g.ColOf(sc, "i", "")
				if x == nil {
					x = Lit(g.IntVal(0))
				}
				inq := Select(from, Subq("in", x, Select(uf, w, Col(0, y, "none"))), star...)
				if kind == "in-exists" {
					// correlated form: the outer operand moves one scope out
					xo := *x
					if xo.K == "col" {
						xo.D = 1
					}
					ex := Select(from, Subq("exists", nil, Select(uf, Op("and", w, Op("eq", Col(0, y, "none"), &xo)), Lit(Int(1)))), star...)
					qs = []*Query{inq, ex}
				} else {
					// semi-join as DISTINCT over an inner join: needs the outer rows to be distinct
					if len(t.PK) == 0 || x.K != "col" {
						kind = "in-exists-only"
						qs = []*Query{inq, inq}
						break
					}
					all := append(append([]sqlgen.ColInfo{}, t.Cols...), u.Cols...)
					_ = all
					// shift the inner filter's columns behind the outer table's
					shift := func(e *Expr) *Expr { return shiftCols(e, len(t.Cols)) }
					j := Join("inner", from, uf, Op("and", Op("eq", x, Col(0, len(t.Cols)+y, "none")), shift(w)))
					sj := Select(j, nil, star...)
					sj.Distinct = true
					if hasCIcols(t.Cols) {
						kind = "in-exists-only"
						qs = []*Query{inq, inq}
						break
					}
					qs = []*Query{inq, sj}
				}
			case "on-where":
				t2 := tabs[g.R.Intn(len(tabs))]
				all := append(append([]sqlgen.ColInfo{}, t.Cols...), t2.Cols...)
				c := g.BoolExprNoSubq(sqlgen.Scopes{all}, depth)
				f2 := Table(t2.Name, len(t2.Cols))
				qs = []*Query{Select(Join("inner", from, f2, c), nil, starProj(all)...), Select(Join("cross", from, f2, nil), c, starProj(all)...)}
			case "cte-derived-inline":
				// inner: project some expressions with a filter; outer: filter + projection over them
				n := 1 + g.R.Intn(3)
				var ip []*Expr
				var ic []sqlgen.ColInfo
				for i := 0; i < n; i++ {
					if g.R.Intn(2) == 0 {
						ip = append(ip, g.IntExpr(sc, 1))
						ic = append(ic, sqlgen.ColInfo{Ty: "i", Coll: "none"})
					} else {
						j := g.R.Intn(len(t.Cols))
						ip = append(ip, Col(0, j+1, t.Cols[j].Coll))
						ic = append(ic, t.Cols[j])
					}
				}
				iw := g.BoolExprNoSubq(sc, 1)
				inner := Select(from, iw, ip...)
				osc := sqlgen.Scopes{ic}
				ow := g.BoolExprNoSubq(osc, 1)
				var op []*Expr
				for i := 0; i < 1+g.R.Intn(2); i++ {
					if g.R.Intn(2) == 0 {
						op = append(op, g.IntExpr(osc, 1))
					} else {
						j := g.R.Intn(len(ic))
						op = append(op, Col(0, j+1, ic[j].Coll))
					}
				}
				var inl []*Expr
				for _, e := range op {
					inl = append(inl, subst(e, ip))
				}
				qs = []*Query{Select(CTE(inner), ow, op...), Select(Derived(inner), ow, op...),
					Select(from, Op("and", iw, subst(ow, ip)), inl...)}
			case "literal-column":
				// an expression over literal constants vs. the same over a one-row table holding them
				n := 2 + g.R.Intn(2)
				lt := &sqlgen.TableDef{Name: fmt.Sprintf("lit%d", id), PK: []int{}, Indexes: [][]int{}, Unique: []bool{}}
				row := []Value{}
				for i := 0; i < n; i++ {
					if g.R.Intn(3) == 0 {
						lt.Cols = append(lt.Cols, sqlgen.ColInfo{Ty: "s", Coll: "bin"})
						row = append(row, g.StrVal(0.2))
					} else {
						lt.Cols = append(lt.Cols, sqlgen.ColInfo{Ty: "i", Coll: "none"})
						row = append(row, g.IntVal(0.2))
					}
				}
				lt.Rows = [][]Value{row}
				lsc := sqlgen.Scopes{lt.Cols}
				var es []*Expr
				for i := 0; i < 1+g.R.Intn(3); i++ {
					switch g.R.Intn(3) {
					case 0:
						es = append(es, g.IntExpr(lsc, depth))
					case 1:
						es = append(es, g.BoolExprNoSubq(lsc, depth))
					default:
						es = append(es, g.StrExpr(lsc, depth, "bin"))
					}
				}
				var les []*Expr
				lits := make([]*Expr, len(row))
				for i, v := range row {
					lits[i] = Lit(v)
				}
				for _, e := range es {
					les = append(les, subst(e, lits))
				}
				qs = []*Query{Select(&From{K: "dual"}, nil, les...), Select(Table(lt.Name, len(lt.Cols)), nil, es...)}
				extra = []*sqlgen.TableDef{lt}
			}
			// the generated tables are part of the generator's state: keep it identical under -only
			if extra != nil {
				tabs = append(tabs, extra...)
			}
			if only.skip(id) && only.skip(id+500000) {
				continue
			}
			if s == nil {
				_, s = setup(tabs)
				r.w.Write(dbEvent(tabs))
			} else if extra != nil {
				for _, x := range extra {
					s.MustExec(x.CreateSQL())
					for _, ins := range x.InsertSQL() {
						s.MustExec(ins)
					}
				}
				r.w.Write(dbEvent(tabs))
			}
			ev := equivEvent{Ev: "equiv", ID: id, Kind: kind, Qs: qs, Tags: Tags(qs[0])}
			for _, q := range qs {
				text := (&Renderer{}).Query(q)
				res := s.Exec(text)
				ev.Ress = append(ev.Ress, &res)
				ev.SQLs = append(ev.SQLs, text)
				r.kinds[res.Kind]++
			}
			// in-or / between carry two pairs (filter form and select-list form): results are compared pairwise
			if len(qs) == 4 {
				ev1 := ev
				ev1.Qs, ev1.Ress, ev1.SQLs = qs[:2], ev.Ress[:2], ev.SQLs[:2]
				r.w.Write(ev1)
				ev.ID = id + 500000
				ev.Kind = kind + "-value"
				ev.Qs, ev.Ress, ev.SQLs = qs[2:], ev.Ress[2:], ev.SQLs[2:]
			}
			r.w.Write(ev)
			r.rep.Cases++
			kinds[kind]++
			if ev.Ress[0].Kind == "rows" && len(ev.Ress[0].Rows) > 0 {
				r.rep.Nontrivial++
			}
			if len(r.rep.Samples) < 4 && len(ev.Ress[0].Rows) > 0 && id%5 == 0 {
				r.rep.Samples = append(r.rep.Samples, map[string]interface{}{"kind": kind, "formulations": ev.SQLs})
			}
		}
	}
	r.rep.Extra["equivalence_kinds"] = kinds
}

func hasCIcols(cs []sqlgen.ColInfo) bool {
	for _, c := range cs {
		if c.Coll == "ci" {
			return true
		}
	}
	return false
}

// shiftCols moves depth-0 column references n positions to the right (a table's columns behind
// another table's in a join row).
func shiftCols(e *Expr, n int) *Expr {
	if e == nil {
		return nil
	}
	c := *e
	if e.K == "col" && e.D == 0 {
		c.I = e.I + n
		return &c
	}
	c.A = nil
	for _, a := range e.A {
		c.A = append(c.A, shiftCols(a, n))
	}
	c.List = nil
	for _, a := range e.List {
		c.List = append(c.List, shiftCols(a, n))
	}
	c.E = shiftCols(e.E, n)
	c.Arg = shiftCols(e.Arg, n)
	c.Els = shiftCols(e.Els, n)
	c.Whens = nil
	for _, w := range e.Whens {
		c.Whens = append(c.Whens, [2]*Expr{shiftCols(w[0], n), shiftCols(w[1], n)})
	}
	return &c
}
