// c46: replays the cases printed by TLC from spec/Ranges.tla on the real range code of package
// sql (binding A of C46).  Every case carries the point sets the specification demands; this
// program builds the real ranges with the real constructors, calls the real operation and judges
// the REAL result by evaluating membership of every key tuple of the domain with the real cut
// comparison (MySQLRangeCut.Compare), plus sortedness (MySQLRange.Compare / cut Compare) and
// pairwise disjointness (MySQLRange.Overlaps and point-wise).  No expectation is computed here.
package main

import (
	"bufio"
	"encoding/json"
	"flag"
	"fmt"
	"hash/fnv"
	"math/rand"
	"os"
	"runtime/pprof"
	"sort"
	"strings"
	"sync"
	"sync/atomic"
	"time"

	"gmsverif/lib/vio"

	"github.com/dolthub/go-mysql-server/sql"
	"github.com/dolthub/go-mysql-server/sql/types"
)

var typ sql.Type = types.Int8

const prefix = "C46 "

// ---- JSON shapes printed by Ranges.tla ----------------------------------------------------------

type Rce [2]int // <<lo, hi>> cut ranks
type Rng []Rce  // K column expressions
type PSet []int // key tuples, base-8 codes of point indexes, ascending (TLC's normal order)

type Bin struct {
	In  PSet `json:"in"`
	Ov  bool `json:"ov"`
	Df  PSet `json:"df"`
	Sub bool `json:"sub"`
	Sup bool `json:"sup"`
}

type Case struct {
	Op  string `json:"op"`
	K   int    `json:"k"`
	NV  int    `json:"nv"`
	Rs  []Rng  `json:"rs"`
	Pts []PSet `json:"pts"`
	Un  PSet   `json:"un"`
	Emp []bool `json:"emp"`
	Nt  bool   `json:"nt"`
	Deg bool   `json:"deg"`
	Bin []Bin  `json:"bin"`
	Ci  []PSet `json:"ci"`
	// build
	Ctor string `json:"ctor"`
	L    int    `json:"l"`
	U    int    `json:"u"`
	// tree
	Step int    `json:"step"`
	Kind string `json:"kind"`
	R    Rng    `json:"r"`
	Pre  []Rng  `json:"pre"`
	Post []Rng  `json:"post"`
	Qs   []struct {
		Q    Rng   `json:"q"`
		Must []Rng `json:"must"`
	} `json:"qs"`
}

// ---- the correspondence spec value <-> real value (the only projection in this file) --------------

func key(v int) int8 { return int8(2 * v) } // key value v of the spec is 2v on int8, so half points exist

func cut(rank, nv int) sql.MySQLRangeCut {
	switch {
	case rank == 0:
		return sql.BelowNull{}
	case rank == 1:
		return sql.AboveNull{}
	case rank == 2*nv+2:
		return sql.AboveAll{}
	case rank%2 == 0:
		return sql.Below{Key: key((rank - 2) / 2), Typ: typ}
	default:
		return sql.Above{Key: key((rank - 3) / 2), Typ: typ}
	}
}

func rank(c sql.MySQLRangeCut, nv int) int {
	switch c := c.(type) {
	case sql.BelowNull:
		return 0
	case sql.AboveNull:
		return 1
	case sql.AboveAll:
		return 2*nv + 2
	case sql.Below:
		return int(c.Key.(int8)) + 2
	case sql.Above:
		return int(c.Key.(int8)) + 3
	}
	return -1
}

// mkRce builds the column expression with the real constructor that produces this pair of cuts
// when there is one (the constructors themselves are judged by the "build" cases and by the
// input-membership check of every case), otherwise as a struct literal like the repo's tests do.
func mkRce(e Rce, nv int) sql.MySQLRangeColumnExpr {
	lo, hi := e[0], e[1]
	top := 2*nv + 2
	isB := func(r int) bool { return r >= 2 && r < top && r%2 == 0 }
	isA := func(r int) bool { return r >= 3 && r < top && r%2 == 1 }
	bk := func(r int) interface{} { return key((r - 2) / 2) }
	ak := func(r int) interface{} { return key((r - 3) / 2) }
	switch {
	case isB(lo) && isA(hi):
		return sql.ClosedRangeColumnExpr(bk(lo), ak(hi), typ)
	case isA(lo) && isB(hi):
		return sql.OpenRangeColumnExpr(ak(lo), bk(hi), typ)
	case lo == 1 && isB(hi):
		return sql.LessThanRangeColumnExpr(bk(hi), typ)
	case lo == 1 && isA(hi):
		return sql.LessOrEqualRangeColumnExpr(ak(hi), typ)
	case isA(lo) && hi == top:
		return sql.GreaterThanRangeColumnExpr(ak(lo), typ)
	case isB(lo) && hi == top:
		return sql.GreaterOrEqualRangeColumnExpr(bk(lo), typ)
	case lo == 0 && hi == top:
		return sql.AllRangeColumnExpr(typ)
	case lo == top && hi == top:
		return sql.EmptyRangeColumnExpr(typ)
	case lo == 0 && hi == 1:
		return sql.NullRangeColumnExpr(typ)
	case lo == 1 && hi == top:
		return sql.NotNullRangeColumnExpr(typ)
	}
	return sql.MySQLRangeColumnExpr{LowerBound: cut(lo, nv), UpperBound: cut(hi, nv), Typ: typ}
}

func mkRange(r Rng, nv int) sql.MySQLRange {
	out := make(sql.MySQLRange, len(r))
	for i, e := range r {
		out[i] = mkRce(e, nv)
	}
	return out
}

func mkRanges(rs []Rng, nv int) []sql.MySQLRange {
	out := make([]sql.MySQLRange, len(rs))
	for i, r := range rs {
		out[i] = mkRange(r, nv)
	}
	return out
}

func backRange(r sql.MySQLRange, nv int) string {
	var sb strings.Builder
	for _, e := range r {
		fmt.Fprintf(&sb, "[%d,%d]", rank(e.LowerBound, nv), rank(e.UpperBound, nv))
	}
	return sb.String()
}

func specRange(r Rng) string {
	var sb strings.Builder
	for _, e := range r {
		fmt.Fprintf(&sb, "[%d,%d]", e[0], e[1])
	}
	return sb.String()
}

// ---- judging a real value: membership with the real cut comparison ------------------------------------

type W struct {
	ctx *sql.Context
}

// member: point index p (0 = NULL, p >= 1 is the int8 value p-2) lies in e  <=>
// e.lower <= Below(p) and Above(p) <= e.upper, with the real Compare.
func (w *W) member(p int, e sql.MySQLRangeColumnExpr) bool {
	var below, above sql.MySQLRangeCut
	if p == 0 {
		below, above = sql.BelowNull{}, sql.AboveNull{}
	} else {
		below, above = sql.Below{Key: int8(p - 2), Typ: typ}, sql.Above{Key: int8(p - 2), Typ: typ}
	}
	c1, err := e.LowerBound.Compare(w.ctx, below, e.Typ)
	if err != nil {
		panic(err)
	}
	c2, err := above.Compare(w.ctx, e.UpperBound, e.Typ)
	if err != nil {
		panic(err)
	}
	return c1 <= 0 && c2 <= 0
}

func tuples(k, nv int) []int {
	np := 2*nv + 2
	var out []int
	n := 1
	for i := 0; i < k; i++ {
		n *= 8
	}
	for t := 0; t < n; t++ {
		ok := true
		for x, i := t, 0; i < k; i++ {
			if x%8 >= np {
				ok = false
			}
			x /= 8
		}
		if ok {
			out = append(out, t)
		}
	}
	return out
}

func (w *W) memberT(t, k int, r sql.MySQLRange) bool {
	if len(r) != k {
		return false // MySQLRange.IsEmpty: a range of length 0 is empty
	}
	for i := k - 1; i >= 0; i-- {
		if !w.member(t%8, r[i]) {
			return false
		}
		t /= 8
	}
	return true
}

// pointsOf returns the tuples of the domain in the union of rs and the largest multiplicity.
func (w *W) pointsOf(rs []sql.MySQLRange, k, nv int) (PSet, int) {
	out := PSet{}
	maxMult := 0
	for _, t := range tuples(k, nv) {
		m := 0
		for _, r := range rs {
			if w.memberT(t, k, r) {
				m++
			}
		}
		if m > 0 {
			out = append(out, t)
		}
		if m > maxMult {
			maxMult = m
		}
	}
	return out, maxMult
}

func same(a, b PSet) bool {
	if len(a) != len(b) {
		return false
	}
	for i := range a {
		if a[i] != b[i] {
			return false
		}
	}
	return true
}

func (w *W) sortedRanges(rs []sql.MySQLRange) bool {
	for i := 0; i+1 < len(rs); i++ {
		if len(rs[i]) != len(rs[i+1]) {
			continue
		}
		c, err := rs[i].Compare(w.ctx, rs[i+1])
		if err != nil {
			panic(err)
		}
		if c > 0 {
			return false
		}
	}
	return true
}

func (w *W) overlapFree(rs []sql.MySQLRange) bool {
	for i := range rs {
		for j := i + 1; j < len(rs); j++ {
			ok, err := rs[i].Overlaps(w.ctx, rs[j])
			if err != nil {
				panic(err)
			}
			if ok {
				return false
			}
		}
	}
	return true
}

func cols(es []sql.MySQLRangeColumnExpr) []sql.MySQLRange {
	out := make([]sql.MySQLRange, len(es))
	for i, e := range es {
		out[i] = sql.MySQLRange{e}
	}
	return out
}

func show(rs []sql.MySQLRange, nv int) []string {
	out := []string{}
	for _, r := range rs {
		out = append(out, backRange(r, nv)+" "+r.String())
	}
	return out
}

// ---- collecting ---------------------------------------------------------------------------------------

type Collector struct {
	mu       sync.Mutex
	rep      *vio.Report
	bySig    map[string]int
	byOp     map[string]int
	total    int
	seen     map[string]bool
	dedupe   bool
	okUnion  [2]int
	okMerge  [2]int
	treeMat  int
	unchosen int
	maxShown int
}

type caseCtx struct {
	tag   string // appended to every signature: "[degenerate]" for inputs with a degenerate column expression
	c     *Collector
	idx   int
	raw   json.RawMessage
	local map[string]int
	mm    []vio.Mismatch
	slot  *slot
}

// slot is what one worker is doing right now; the watchdog reads it.
type slot struct {
	tag   string
	mu    sync.Mutex
	idx   int
	op    string
	raw   json.RawMessage
	start time.Time
	hung  bool
}

func (s *slot) setTag(t string) {
	if s == nil {
		return
	}
	s.mu.Lock()
	s.tag = t
	s.mu.Unlock()
}

func (s *slot) set(idx int, op string, raw json.RawMessage) {
	// op already carries the case's tag (see guarded)
	if s == nil {
		return
	}
	s.mu.Lock()
	s.idx, s.op, s.raw, s.start = idx, op, raw, time.Now()
	s.mu.Unlock()
}

func (cc *caseCtx) op(name string) { cc.local[name]++ }

func (cc *caseCtx) fail(sig string, expected, got interface{}) {
	cc.mm = append(cc.mm, vio.Mismatch{Case: cc.idx, Signature: sig + cc.tag, Expected: expected, Got: got, Input: cc.raw})
}

// failErr classifies an error return: <op>/error:overlapping-ranges is validateRangeCollection
// rejecting the operation's own result, anything else is <op>/error.
func (cc *caseCtx) failErr(op string, err error) {
	if strings.Contains(err.Error(), "overlapping ranges") {
		cc.fail(op+"/error:overlapping-ranges", "a result", err.Error())
		return
	}
	cc.fail(op+"/error", "a result", err.Error())
}

// guarded runs one real operation; a panic is a mismatch <op>/panic.
func (cc *caseCtx) guarded(name string, f func()) {
	cc.op(name)
	cc.slot.set(cc.idx, name, cc.raw)
	cc.slot.setTag(cc.tag)
	defer cc.slot.set(cc.idx, "", nil)
	defer func() {
		if r := recover(); r != nil {
			cc.fail(name+"/panic", "no panic", fmt.Sprint(r))
		}
	}()
	f()
}

// judge a list result: points, and optionally sorted / disjoint.
func (w *W) judgeList(cc *caseCtx, name string, res []sql.MySQLRange, want PSet, k, nv int, wantSorted, wantDisjoint bool) {
	got, mult := w.pointsOf(res, k, nv)
	if !same(got, want) {
		cc.fail(name+"/points", want, map[string]interface{}{"points": got, "result": show(res, nv)})
		return
	}
	if wantSorted && !w.sortedRanges(res) {
		cc.fail(name+"/sorted", "sorted by MySQLRange.Compare", show(res, nv))
	}
	if wantDisjoint && (mult > 1 || !w.overlapFree(res)) {
		cc.fail(name+"/disjoint", "pairwise disjoint", show(res, nv))
	}
}

// norm sorts the point sets of a case (TLC prints sets in its own normal order).
func (c *Case) norm() {
	sort.Ints(c.Un)
	for _, p := range c.Pts {
		sort.Ints(p)
	}
	for _, p := range c.Ci {
		sort.Ints(p)
	}
	for i := range c.Bin {
		sort.Ints(c.Bin[i].In)
		sort.Ints(c.Bin[i].Df)
	}
}

func (w *W) runCase(cc *caseCtx, c *Case) {
	ctx := w.ctx
	k, nv, n := c.K, c.NV, len(c.Rs)
	in := mkRanges(c.Rs, nv)
	// the inputs themselves (constructors + the membership projection) against the spec's point sets
	for i := range in {
		cc.guarded("input", func() {
			got, _ := w.pointsOf([]sql.MySQLRange{in[i]}, k, nv)
			if !same(got, c.Pts[i]) {
				cc.fail("input/points", c.Pts[i], map[string]interface{}{"points": got, "range": show(in[i:i+1], nv)})
			}
		})
		cc.guarded("IsEmpty", func() {
			e, err := in[i].IsEmpty(ctx)
			if err != nil {
				cc.failErr("IsEmpty", err)
			} else if e != c.Emp[i] {
				cc.fail("IsEmpty/value", c.Emp[i], e)
			}
		})
	}
	if n == 2 {
		a, b, x := in[0], in[1], c.Bin[0]
		bothNonEmpty := !c.Emp[0] && !c.Emp[1]
		if k == 1 {
			ea, eb := a[0], b[0]
			cc.guarded("TryIntersect", func() {
				r, ok, err := ea.TryIntersect(ctx, eb)
				if err != nil {
					cc.failErr("TryIntersect", err)
					return
				}
				if ok != x.Ov {
					cc.fail("TryIntersect/ok", x.Ov, ok)
				}
				w.judgeList(cc, "TryIntersect", cols([]sql.MySQLRangeColumnExpr{r}), x.In, k, nv, false, false)
			})
			cc.guarded("ColOverlaps", func() {
				r, ok, err := ea.Overlaps(ctx, eb)
				if err != nil {
					cc.failErr("ColOverlaps", err)
					return
				}
				if ok != x.Ov {
					cc.fail("ColOverlaps/ok", x.Ov, ok)
				}
				w.judgeList(cc, "ColOverlaps", cols([]sql.MySQLRangeColumnExpr{r}), x.In, k, nv, false, false)
			})
			cc.guarded("TryUnion", func() {
				r, ok, err := ea.TryUnion(ctx, eb)
				if err != nil {
					cc.failErr("TryUnion", err)
					return
				}
				cc.c.mu.Lock()
				if ok {
					cc.c.okUnion[0]++
				} else {
					cc.c.okUnion[1]++
				}
				cc.c.mu.Unlock()
				if ok { // it may fail; only a reported success is judged
					w.judgeList(cc, "TryUnion", cols([]sql.MySQLRangeColumnExpr{r}), c.Un, k, nv, false, false)
				}
			})
			cc.guarded("Subtract", func() {
				rs, err := ea.Subtract(ctx, eb)
				if err != nil {
					cc.failErr("Subtract", err)
					return
				}
				w.judgeList(cc, "Subtract", cols(rs), x.Df, k, nv, true, true)
			})
			if bothNonEmpty {
				cc.guarded("ColIsSubsetOf", func() {
					ok, err := ea.IsSubsetOf(ctx, eb)
					if err != nil {
						cc.failErr("ColIsSubsetOf", err)
					} else if ok != x.Sub {
						cc.fail("ColIsSubsetOf/value", x.Sub, ok)
					}
				})
			}
		}
		cc.guarded("Intersect", func() {
			r, err := a.Intersect(ctx, b)
			if err != nil {
				cc.failErr("Intersect", err)
				return
			}
			w.judgeList(cc, "Intersect", []sql.MySQLRange{r}, x.In, k, nv, false, false)
		})
		cc.guarded("IntersectRanges", func() {
			r := sql.IntersectRanges(ctx, a, b)
			w.judgeList(cc, "IntersectRanges", []sql.MySQLRange{r}, x.In, k, nv, false, false)
		})
		cc.guarded("Overlaps", func() {
			ok, err := a.Overlaps(ctx, b)
			if err != nil {
				cc.failErr("Overlaps", err)
			} else if ok != x.Ov {
				cc.fail("Overlaps/value", x.Ov, ok)
			}
		})
		if bothNonEmpty {
			cc.guarded("IsSubsetOf", func() {
				ok, err := a.IsSubsetOf(ctx, b)
				if err != nil {
					cc.failErr("IsSubsetOf", err)
				} else if ok != x.Sub {
					cc.fail("IsSubsetOf/value", x.Sub, ok)
				}
				ok, err = a.IsSupersetOf(ctx, b)
				if err != nil {
					cc.failErr("IsSupersetOf", err)
				} else if ok != x.Sup {
					cc.fail("IsSupersetOf/value", x.Sup, ok)
				}
			})
		}
		cc.guarded("TryMerge", func() {
			r, ok, err := a.TryMerge(ctx, b)
			if err != nil {
				cc.failErr("TryMerge", err)
				return
			}
			cc.c.mu.Lock()
			if ok {
				cc.c.okMerge[0]++
			} else {
				cc.c.okMerge[1]++
			}
			cc.c.mu.Unlock()
			if ok {
				w.judgeList(cc, "TryMerge", []sql.MySQLRange{r}, c.Un, k, nv, false, false)
			}
		})
		cc.guarded("RemoveOverlap", func() {
			rs, _, err := a.RemoveOverlap(ctx, b)
			if err != nil {
				cc.failErr("RemoveOverlap", err)
				return
			}
			w.judgeList(cc, "RemoveOverlap", rs, c.Un, k, nv, false, true)
		})
	}
	cc.guarded("RemoveOverlappingRanges", func() {
		rs, err := sql.RemoveOverlappingRanges(ctx, mkRanges(c.Rs, nv)...)
		if err != nil {
			cc.failErr("RemoveOverlappingRanges", err)
			return
		}
		w.judgeList(cc, "RemoveOverlappingRanges", rs, c.Un, k, nv, true, true)
	})
	cc.guarded("SortRanges", func() {
		rs, err := sql.SortRanges(ctx, mkRanges(c.Rs, nv)...)
		if err != nil {
			cc.failErr("SortRanges", err)
			return
		}
		if len(rs) != n {
			cc.fail("SortRanges/length", n, len(rs))
		}
		w.judgeList(cc, "SortRanges", rs, c.Un, k, nv, true, false)
	})
	if k == 1 {
		cc.guarded("SimplifyRangeColumn", func() {
			es := make([]sql.MySQLRangeColumnExpr, n)
			for i := range in {
				es[i] = in[i][0]
			}
			rs, err := sql.SimplifyRangeColumn(ctx, es...)
			if err != nil {
				cc.failErr("SimplifyRangeColumn", err)
				return
			}
			w.judgeList(cc, "SimplifyRangeColumn", cols(rs), c.Un, k, nv, true, true)
		})
	}
	for s := 1; s < n; s++ {
		s := s
		cc.guarded("CollectionIntersect", func() {
			A := sql.MySQLRangeCollection(mkRanges(c.Rs[:s], nv))
			B := sql.MySQLRangeCollection(mkRanges(c.Rs[s:], nv))
			rs, err := A.Intersect(ctx, B)
			if err != nil {
				cc.failErr("CollectionIntersect", err)
				return
			}
			w.judgeList(cc, "CollectionIntersect", rs, c.Ci[s-1], k, nv, true, true)
		})
	}
}

func (w *W) runBuild(cc *caseCtx, c *Case, nv int) {
	arg := func(v int) interface{} {
		if v < 0 {
			return nil
		}
		return key(v)
	}
	cc.guarded("Build", func() {
		var e sql.MySQLRangeColumnExpr
		switch c.Ctor {
		case "closed":
			e = sql.ClosedRangeColumnExpr(arg(c.L), arg(c.U), typ)
		case "open":
			e = sql.OpenRangeColumnExpr(arg(c.L), arg(c.U), typ)
		case "lt":
			e = sql.LessThanRangeColumnExpr(arg(c.U), typ)
		case "le":
			e = sql.LessOrEqualRangeColumnExpr(arg(c.U), typ)
		case "gt":
			e = sql.GreaterThanRangeColumnExpr(arg(c.L), typ)
		case "ge":
			e = sql.GreaterOrEqualRangeColumnExpr(arg(c.L), typ)
		case "all":
			e = sql.AllRangeColumnExpr(typ)
		case "empty":
			e = sql.EmptyRangeColumnExpr(typ)
		case "null":
			e = sql.NullRangeColumnExpr(typ)
		case "notnull":
			e = sql.NotNullRangeColumnExpr(typ)
		default:
			vio.Fatal("unknown constructor %q", c.Ctor)
		}
		got, _ := w.pointsOf([]sql.MySQLRange{{e}}, 1, nv)
		if !same(got, c.Un) {
			cc.fail("Build/points", c.Un, map[string]interface{}{"points": got, "built": e.String()})
		}
	})
}

// ---- the range tree ---------------------------------------------------------------------------------------

type seeded struct{ seed int64 }

type treeState struct {
	tree  *sql.MySQLRangeColumnExprTree
	abs   string // the abstract state the real tree is believed to be in ("?" = unknown)
	valid bool
}

// absOf is the canonical text of a set of spec ranges.
func absOf(rs []Rng) string {
	xs := make([]string, len(rs))
	for i, r := range rs {
		xs[i] = specRange(r)
	}
	sort.Strings(xs)
	return strings.Join(xs, " ")
}

func (w *W) materialise(rs []Rng, nv int, rng *rand.Rand) *sql.MySQLRangeColumnExprTree {
	if len(rs) == 0 {
		return nil
	}
	var tree *sql.MySQLRangeColumnExprTree
	for _, i := range rng.Perm(len(rs)) {
		r := mkRange(rs[i], nv)
		if tree == nil {
			var err error
			tree, err = sql.NewMySQLRangeColumnExprTree(r, sql.GetColExprTypes([]sql.MySQLRange{r}))
			if err != nil {
				panic(err)
			}
			continue
		}
		if err := tree.Insert(w.ctx, r); err != nil {
			panic(err)
		}
	}
	return tree
}

func (w *W) runTree(cc *caseCtx, c *Case, ts *treeState, behaviours bool, rng seeded) {
	k, nv := c.K, c.NV
	ctx := w.ctx
	// behaviours mode: continue on the history-dependent real tree while its abstract state is the
	// pre-state of this step; otherwise (and always in transitions mode) build the pre-state afresh
	cont := behaviours && ts.valid && ts.abs == absOf(c.Pre)
	if !cont {
		ts.tree = nil
		// insertion order: seeded by the run's seed and the state itself, so that a re-run of the
		// same records alone builds the same tree
		h := fnv.New64a()
		h.Write([]byte(absOf(c.Pre)))
		mrng := rand.New(rand.NewSource(rng.seed ^ int64(h.Sum64()>>1)))
		cc.guarded("Tree.materialise", func() { ts.tree = w.materialise(c.Pre, nv, mrng) })
		cc.c.mu.Lock()
		cc.c.treeMat++
		cc.c.mu.Unlock()
	}
	ts.abs, ts.valid = absOf(c.Post), true
	name := "Tree." + c.Kind
	before := len(cc.mm)
	cc.guarded(name, func() {
		switch c.Kind {
		case "ins":
			r := mkRange(c.R, nv)
			if ts.tree == nil {
				t, err := sql.NewMySQLRangeColumnExprTree(r, sql.GetColExprTypes([]sql.MySQLRange{r}))
				if err != nil {
					cc.fail(name+"/error", nil, err.Error())
					return
				}
				ts.tree = t
			} else if err := ts.tree.Insert(ctx, r); err != nil {
				cc.fail(name+"/error", nil, err.Error())
				return
			}
		case "rem":
			if err := ts.tree.Remove(ctx, mkRange(c.R, nv)); err != nil {
				cc.fail(name+"/error", nil, err.Error())
				return
			}
		}
		if ts.tree == nil {
			return
		}
		stored := map[string]bool{}
		for _, p := range c.Post {
			stored[specRange(p)] = true
		}
		// FindConnections(q): stored ranges only, and at least every stored range overlapping q
		for _, q := range c.Qs {
			found, err := ts.tree.FindConnections(ctx, mkRange(q.Q, nv), 0)
			if err != nil {
				cc.fail(name+"/find-error", nil, err.Error())
				return
			}
			cc.local["Tree.FindConnections"]++
			got := map[string]bool{}
			for _, f := range found {
				got[backRange(f, nv)] = true
			}
			for _, m := range q.Must {
				if !got[specRange(m)] {
					cc.fail(name+"/find-missed", map[string]string{"query": specRange(q.Q), "missed": specRange(m)}, show(found, nv))
				}
			}
			for g := range got {
				if !stored[g] {
					cc.fail(name+"/find-phantom", map[string]string{"query": specRange(q.Q)}, g)
				}
			}
		}
		coll, err := ts.tree.GetRangeCollection(ctx)
		if err != nil {
			cc.fail(name+"/collect-error", nil, err.Error())
			return
		}
		w.judgeList(cc, name+"/collect", coll, c.Un, k, nv, true, true)
	})
	if len(cc.mm) > before {
		ts.valid = false // resynchronise: the next step re-materialises its pre-state
	}
}

// ---- main -------------------------------------------------------------------------------------------------

func decode(line []byte) (json.RawMessage, bool) {
	if len(line) == 0 {
		return nil, false
	}
	if line[0] == '{' {
		return json.RawMessage(append([]byte{}, line...)), true
	}
	if line[0] != '"' || !strings.HasPrefix(string(line[1:min(len(line), 6)]), prefix) {
		return nil, false
	}
	var s string
	if err := json.Unmarshal(line, &s); err != nil {
		vio.Fatal("undecodable TLC print: %v", err)
	}
	return json.RawMessage(s[len(prefix):]), true
}

type job struct {
	idx int
	raw json.RawMessage
}

func main() {
	file := flag.String("file", "", "TLC output (lines \"C46 <json>\") or ndjson of cases")
	treeMode := flag.String("tree", "transitions", "tree records: transitions (build every pre-state afresh) | behaviours (-simulate output: follow the step that was taken) | path (apply every record in order)")
	seed := flag.Int64("seed", 1, "")
	workers := flag.Int("workers", 6, "")
	dedupe := flag.Bool("dedupe", false, "count distinct inputs (simulation output repeats cases)")
	every := flag.Int("every", 1, "replay only every n-th case (offset = seed % n); 1 = all")
	start := flag.Int("start", 0, "skip the cases before this index (resuming after a hang)")
	opTimeout := flag.Duration("optimeout", 4*time.Second, "an operation on one case running longer than this is a hang")
	prof := flag.String("cpuprofile", "", "write a CPU profile (diagnostics)")
	logPath := flag.String("log", "", "with -file -: write TLC's other output lines here")
	flag.Parse()
	if *prof != "" {
		pf, err := os.Create(*prof)
		if err != nil {
			vio.Fatal("%v", err)
		}
		pprof.StartCPUProfile(pf)
		defer pprof.StopCPUProfile()
	}

	col := &Collector{rep: &vio.Report{Extra: map[string]interface{}{}}, bySig: map[string]int{}, byOp: map[string]int{},
		seen: map[string]bool{}, dedupe: *dedupe, maxShown: 40}
	fh := os.Stdin
	var logw *bufio.Writer
	if *file != "-" {
		var err error
		if fh, err = os.Open(*file); err != nil {
			vio.Fatal("%v", err)
		}
		defer fh.Close()
	} else if *logPath != "" {
		lf, err := os.Create(*logPath)
		if err != nil {
			vio.Fatal("%v", err)
		}
		defer lf.Close()
		logw = bufio.NewWriter(lf)
		defer logw.Flush()
	}
	sc := bufio.NewScanner(fh)
	sc.Buffer(make([]byte, 1<<20), 1<<28)

	// Watchdog: an operation that does not return (the overlap removal loops on some inputs) is
	// recorded as <op>/hang; no further case is started, the other workers finish theirs, and the
	// report says where to resume (the stuck goroutine cannot be stopped, so the process must end).
	var hung atomic.Bool
	var wg sync.WaitGroup
	slots := make([]*slot, *workers+1)
	for i := range slots {
		slots[i] = &slot{}
	}
	stopDog := make(chan struct{})
	go func() {
		for {
			select {
			case <-stopDog:
				return
			case <-time.After(200 * time.Millisecond):
			}
			for _, s := range slots {
				s.mu.Lock()
				if s.op != "" && !s.hung && time.Since(s.start) > *opTimeout {
					s.hung = true
					hung.Store(true)
					col.mu.Lock()
					col.total++
					col.bySig[s.op+"/hang"+s.tag]++
					col.rep.Cases++
					col.rep.Mismatches = append(col.rep.Mismatches, vio.Mismatch{Case: s.idx, Signature: s.op + "/hang" + s.tag,
						Expected: "returns", Got: fmt.Sprintf("still running after %s", *opTimeout), Input: s.raw})
					col.mu.Unlock()
					wg.Done() // this worker will never finish
				}
				s.mu.Unlock()
			}
		}
	}()

	jobs := make(chan job, 64)
	var treeJobs []job // tree records are order dependent: replayed sequentially afterwards
	nontrivialSamples := 0
	for i := 0; i < *workers; i++ {
		wg.Add(1)
		sl := slots[i]
		go func() {
			w := &W{ctx: sql.NewEmptyContext()}
			for j := range jobs {
				var c Case
				if err := json.Unmarshal(j.raw, &c); err != nil {
					vio.Fatal("case %d: %v", j.idx, err)
				}
				c.norm()
				cc := &caseCtx{c: col, idx: j.idx, raw: j.raw, local: map[string]int{}, slot: sl}
				if c.Deg {
					cc.tag = "[degenerate]"
				}
				switch c.Op {
				case "case":
					w.runCase(cc, &c)
				case "build":
					w.runBuild(cc, &c, c.NV)
				}
				col.merge(cc, &c, &nontrivialSamples)
			}
			wg.Done()
		}()
	}
	idx := 0
	skipped := 0
	resume := -1
	for sc.Scan() {
		raw, ok := decode(sc.Bytes())
		if !ok {
			if logw != nil {
				logw.Write(sc.Bytes())
				logw.WriteByte('\n')
			}
			continue
		}
		i := idx
		idx++
		if i < *start {
			continue
		}
		if strings.HasPrefix(string(raw[:min(len(raw), 16)]), `{"op":"tree"`) {
			treeJobs = append(treeJobs, job{i, raw})
			continue
		}
		if *every > 1 && i%*every != int(*seed)%*every && !strings.HasPrefix(string(raw[:min(len(raw), 16)]), `{"op":"build"`) {
			skipped++
			continue
		}
		sent := false
		for !sent && !hung.Load() {
			select {
			case jobs <- job{i, raw}:
				sent = true
			case <-time.After(100 * time.Millisecond):
			}
		}
		if !sent {
			resume = i
			break
		}
	}
	close(jobs)
	wg.Wait()
	if err := sc.Err(); err != nil {
		vio.Fatal("%v", err)
	}
	// tree records, sequentially, in one more watched goroutine
	if !hung.Load() && len(treeJobs) > 0 {
		wg.Add(1)
		sl := slots[*workers]
		go func() {
			w := &W{ctx: sql.NewEmptyContext()}
			ts := &treeState{}
			rng := seeded{*seed}
			// In -simulate output TLC prints every candidate successor of a step (one group of
			// consecutive records with the same step); the behaviour continues from the candidate
			// whose post-state is the pre-state of the next group.  Queries do not change the tree,
			// so every candidate query of a group is asked on the history-dependent real tree.
			var cs []*Case
			for _, j := range treeJobs {
				c := &Case{}
				if err := json.Unmarshal(j.raw, c); err != nil {
					vio.Fatal("case %d: %v", j.idx, err)
				}
				c.norm()
				cs = append(cs, c)
			}
			// history = the steps applied to the real tree since it was last built from scratch; a
			// mismatch of a behaviour carries it, so that it can be re-run alone (-tree path)
			var history []json.RawMessage
			run := func(i int) {
				raw := treeJobs[i].raw
				if *treeMode != "transitions" {
					if !(ts.valid && ts.abs == absOf(cs[i].Pre)) {
						history = history[:0] // runTree will build the pre-state afresh
					}
					history = append(history, treeJobs[i].raw)
					b, _ := json.Marshal(map[string]interface{}{"op": "tree", "behaviour": history})
					raw = json.RawMessage(b)
				}
				cc := &caseCtx{c: col, idx: treeJobs[i].idx, raw: raw, local: map[string]int{}, slot: sl,
					tag: fmt.Sprintf("[k=%d]", cs[i].K)}
				w.runTree(cc, cs[i], ts, *treeMode != "transitions", rng)
				cc.raw = treeJobs[i].raw // samples show the single step
				col.merge(cc, cs[i], &nontrivialSamples)
			}
			for i := 0; i < len(cs); {
				if *treeMode != "behaviours" {
					run(i)
					i++
					continue
				}
				e := i
				for e < len(cs) && cs[e].Step == cs[i].Step && absOf(cs[e].Pre) == absOf(cs[i].Pre) {
					e++
				}
				// the step that was taken: the sweep (deterministic), or the candidate whose post-state
				// the next printed step starts from; none when the behaviour went on with an unprinted
				// step (first column of an insert) or ended here
				chosen := -1
				if cs[i].Kind == "sweep" {
					chosen = i
				} else if e < len(cs) && cs[e].Step > cs[i].Step {
					next := absOf(cs[e].Pre)
					for x := i; x < e; x++ {
						if absOf(cs[x].Post) == next {
							chosen = x
							break
						}
					}
				}
				col.mu.Lock()
				col.unchosen += e - i
				col.mu.Unlock()
				if chosen >= 0 {
					run(chosen)
					col.mu.Lock()
					col.unchosen--
					col.mu.Unlock()
				}
				i = e
			}
			wg.Done()
		}()
		wg.Wait()
		if hung.Load() {
			sl.mu.Lock()
			resume = sl.idx + 1
			sl.mu.Unlock()
		}
	} else if hung.Load() && resume < 0 && len(treeJobs) > 0 {
		resume = treeJobs[0].idx
	}
	close(stopDog)
	col.mu.Lock()
	rep := col.rep
	rep.Extra["by_op"] = col.byOp
	rep.Extra["by_signature"] = col.bySig
	rep.Extra["mismatches_total"] = col.total
	rep.Extra["tryunion_ok_fail"] = col.okUnion
	rep.Extra["trymerge_ok_fail"] = col.okMerge
	rep.Extra["tree_materialisations"] = col.treeMat
	rep.Extra["tree_unchosen_candidates"] = col.unchosen
	rep.Extra["skipped_by_sampling"] = skipped
	rep.Extra["hung"] = hung.Load()
	rep.Extra["resume_from"] = resume // -1: the whole file was processed
	if *dedupe {
		rep.Extra["distinct_inputs"] = len(col.seen)
	}
	sort.SliceStable(rep.Mismatches, func(i, j int) bool { return rep.Mismatches[i].Case < rep.Mismatches[j].Case })
	rep.Emit()
	os.Stdout.Sync()
	if logw != nil {
		logw.Flush()
	}
	pprof.StopCPUProfile()
	os.Exit(0)
}

func (col *Collector) merge(cc *caseCtx, c *Case, nsamples *int) {
	col.mu.Lock()
	defer col.mu.Unlock()
	col.rep.Cases++
	distinct := true
	if col.dedupe {
		b, _ := json.Marshal([]interface{}{c.Op, c.K, c.Rs, c.Kind, c.R, c.Pre})
		if col.seen[string(b)] {
			distinct = false
		}
		col.seen[string(b)] = true
	}
	if c.Nt && distinct {
		col.rep.Nontrivial++
		if *nsamples < 3 && (cc.idx%101 == 7 || c.Op == "tree" && cc.idx%11 == 3) {
			*nsamples++
			col.rep.Samples = append(col.rep.Samples, cc.raw)
		}
	}
	for k, v := range cc.local {
		col.byOp[k] += v
	}
	shown := map[string]bool{}
	for _, m := range cc.mm {
		col.total++
		col.bySig[m.Signature]++
		// keep the first example of every signature (all are counted in by_signature)
		if !shown[m.Signature] && col.bySig[m.Signature] == 1 {
			shown[m.Signature] = true
			col.rep.Mismatches = append(col.rep.Mismatches, m)
		}
	}
}
