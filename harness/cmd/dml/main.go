// dml: driver of the data-modification properties (C13, C14, C16, C19, C20).
//
//	-mode gen  : generates histories (lib/dmlgen, one seed per history), runs each on a FRESH engine
//	             and records schema / stmt events for spec/Trace_Tables.tla (binding B)
//	-mode exec : executes histories produced elsewhere (TLC-simulated behaviours of MC_Tables =
//	             binding A; recorded witnesses of known findings): schema + stmt events without replies
//
// After every statement the driver reads every table back with SELECT * and (optionally) issues the
// C16 index probes.  It never judges anything: TLC does, from the recorded events.
package main

import (
	"encoding/json"
	"flag"
	"fmt"
	"os"
	"strings"

	. "gmsverif/lib/dmlast"
	"gmsverif/lib/dmlgen"
	"gmsverif/lib/eng"
	"gmsverif/lib/sqlast"
	"gmsverif/lib/vio"
)

type Reply struct {
	Kind     string `json:"kind"`
	Class    string `json:"class"`
	Affected int    `json:"affected"`
	InsertID int    `json:"insert_id"`
	Val      int    `json:"val"`
	Msg      string `json:"msg"`
}

type Probe struct {
	Q   *sqlast.Query `json:"q"`
	Res *eng.Result   `json:"res"`
	SQL string        `json:"sql"`
	Idx string        `json:"idx"`
	Via string        `json:"via"` // index | scan: what the engine's plan used
}

type Event struct {
	Ev      string               `json:"ev"`
	H       int                  `json:"h"`
	Tabs    map[string]*Table    `json:"tabs,omitempty"`
	Autoinc map[string]int       `json:"autoinc,omitempty"`
	Create  []string             `json:"create,omitempty"`
	ID      int                  `json:"id,omitempty"`
	Stmt    *Stmt                `json:"stmt,omitempty"`
	Reply   *Reply               `json:"reply,omitempty"`
	Post    map[string][][]Value `json:"post,omitempty"`
	Probes  []Probe              `json:"probes"`
	SQL     string               `json:"sql,omitempty"`
	Tags    []string             `json:"tags,omitempty"`
}

var show = os.Getenv("DML_SHOW") != ""

func classify(msg string) string {
	m := strings.ToLower(msg)
	switch {
	case strings.Contains(m, "duplicate primary key"), strings.Contains(m, "duplicate unique key"), strings.Contains(m, "duplicate entry"):
		return "dup"
	case strings.Contains(m, "non-nullable"), strings.Contains(m, "doesn't have a default value"), strings.Contains(m, "cannot be null"):
		return "notnull"
	case strings.Contains(m, "check constraint"):
		return "check"
	}
	return "other"
}

type runner struct {
	w        *vio.Writer
	rep      *vio.Report
	kinds    map[string]int
	stmtKind map[string]int
	probes   bool
	nprobe   int
	nprobeIx int
	changed  int
}

// history state while running one history
type hist struct {
	h     int
	names []string
	tabs  map[string]*Table // schema as the driver believes it (index bookkeeping for probes)
	sess  *eng.Session
	last  map[string]string // last seen contents (to count statements that changed something)
}

func (r *runner) begin(h int, names []string, tabs map[string]*Table) *hist {
	db := eng.New()
	s := db.NewSession()
	hs := &hist{h: h, names: names, tabs: map[string]*Table{}, sess: s, last: map[string]string{}}
	ev := Event{Ev: "schema", H: h, Tabs: map[string]*Table{}, Autoinc: map[string]int{}, Probes: []Probe{}}
	for _, n := range names {
		t := tabs[n].Fix()
		sql := CreateSQL(n, t)
		if show {
			fmt.Println(sql + ";")
		}
		res := s.Exec(sql)
		if res.Kind != "ok" {
			vio.Fatal("history %d: fixture statement failed: %s: %s", h, sql, res.Msg)
		}
		ev.Create = append(ev.Create, sql)
		c := *t
		c.Uniq = append([]Index{}, t.Uniq...)
		c.Idx = append([]Index{}, t.Idx...)
		hs.tabs[n] = &c
		ev.Tabs[n] = t
		ev.Autoinc[n] = 0
		for _, row := range t.Rows { // initial rows (TLC-generated pre-states)
			var vs []string
			for _, v := range row {
				vs = append(vs, v.SQL())
			}
			s.MustExec(fmt.Sprintf("INSERT INTO %s VALUES (%s)", n, strings.Join(vs, ", ")))
		}
	}
	r.w.Write(ev)
	return hs
}

func (r *runner) step(hs *hist, id int, st *Stmt) {
	st.Fix()
	var t *Table
	w := 0
	if st.T != "" {
		t = hs.tabs[st.T]
		if t == nil {
			vio.Fatal("statement %d names unknown table %q", id, st.T)
		}
		w = len(t.Cols)
	}
	sql := SQL(st, w)
	if show {
		fmt.Println(sql + ";")
	}
	res := hs.sess.Exec(sql)
	if res.Kind == "rows" && st.K != "lastid" && len(res.Rows) == 0 {
		res.Kind = "ok" // DDL statements answer with an empty result set instead of an OK result
	}
	rep := &Reply{Kind: res.Kind, Affected: res.Affected, InsertID: res.InsertID, Msg: res.Msg}
	switch res.Kind {
	case "err":
		rep.Class = classify(res.Msg)
	case "panic":
		rep.Class = "panic"
	case "rows":
		rep.Val = -1
		if len(res.Rows) == 1 && len(res.Rows[0]) == 1 && res.Rows[0][0].T == "i" {
			rep.Val = res.Rows[0][0].V.(int)
		}
	}
	if show {
		fmt.Printf("-- %s %s aff=%d id=%d %s\n", rep.Kind, rep.Class, rep.Affected, rep.InsertID, rep.Msg)
	}
	// index bookkeeping for the probes
	if res.Kind == "ok" && t != nil {
		switch st.K {
		case "createindex":
			ix := Index{Name: st.Name, Parts: st.Parts}
			if st.Unique {
				t.Uniq = append(t.Uniq, ix)
			} else {
				t.Idx = append(t.Idx, ix)
			}
		case "dropindex":
			t.Uniq = dropIdx(t.Uniq, st.Name)
			t.Idx = dropIdx(t.Idx, st.Name)
		}
	}
	ev := Event{Ev: "stmt", H: hs.h, ID: id, Stmt: st, Reply: rep, Post: map[string][][]Value{}, SQL: sql, Tags: Tags(st, t), Probes: []Probe{}}
	ch := false
	for _, n := range hs.names {
		sel := hs.sess.Exec("SELECT * FROM " + n)
		if sel.Kind != "rows" {
			// the table cannot be read any more: record an impossible content so that TLC reports it
			ev.Post[n] = [][]Value{{sqlast.Opaque("unreadable: " + sel.Msg)}}
			continue
		}
		ev.Post[n] = sel.Rows
		b, _ := json.Marshal(sel.Rows)
		if hs.last[n] != string(b) {
			ch = true
		}
		hs.last[n] = string(b)
	}
	if r.probes {
		for _, n := range hs.names {
			ev.Probes = append(ev.Probes, r.probeTable(hs, n, ev.Post[n])...)
		}
	}
	r.w.Write(ev)
	r.rep.Cases++
	r.kinds[rep.Kind+":"+rep.Class]++
	r.stmtKind[st.K+":"+st.Mode]++
	if ch {
		r.changed++
		r.rep.Nontrivial++
	}
	if len(r.rep.Samples) < 4 && ch && id%5 == 0 {
		r.rep.Samples = append(r.rep.Samples, map[string]interface{}{"sql": sql, "reply": rep.Kind + " " + rep.Class, "affected": rep.Affected})
	}
}

func dropIdx(xs []Index, name string) []Index {
	var out []Index
	for _, x := range xs {
		if x.Name != name {
			out = append(out, x)
		}
	}
	return out
}

func main() {
	mode := flag.String("mode", "gen", "gen | exec")
	profile := flag.String("profile", "c13", "generator profile: c13 c14 c16 c19 c20")
	seed := flag.Int64("seed", 1, "")
	n := flag.Int("n", 10, "number of histories (gen)")
	out := flag.String("out", "trace.ndjson", "")
	in := flag.String("in", "", "histories to execute (exec)")
	only := flag.Int("only", -1, "run only this history (isolation re-run)")
	upto := flag.Int("upto", -1, "with -only: stop after the statement with this id")
	probes := flag.Bool("probes", false, "issue the C16 index probes after every statement (exec mode; gen: from the profile)")
	flag.Parse()
	w, err := vio.NewWriter(*out)
	if err != nil {
		vio.Fatal("%v", err)
	}
	r := &runner{w: w, rep: &vio.Report{Extra: map[string]interface{}{}}, kinds: map[string]int{}, stmtKind: map[string]int{}, probes: *probes}
	switch *mode {
	case "gen":
		p := dmlgen.ProfileFor(*profile)
		r.probes = p.Probes || *probes
		for h := 1; h <= *n; h++ {
			if *only >= 0 && h != *only {
				continue
			}
			// every history has its own seed so that it can be re-run alone
			hist, initial := dmlgen.Generate(*seed*1000003+int64(h), p)
			hs := r.begin(h, hist.Names, initial)
			for k, st := range hist.Stmts {
				id := h*1000 + k + 1
				if *upto >= 0 && id > *upto {
					break
				}
				r.step(hs, id, st)
			}
		}
	case "exec":
		var hs *hist
		skip := false
		err := vio.ReadNDJSON(*in, func(i int, line []byte) error {
			var e Event
			if err := json.Unmarshal(line, &e); err != nil {
				return err
			}
			switch e.Ev {
			case "schema":
				skip = *only >= 0 && e.H != *only
				if skip {
					return nil
				}
				names := make([]string, 0, len(e.Tabs))
				for n := range e.Tabs {
					names = append(names, n)
				}
				sortStrings(names)
				hs = r.begin(e.H, names, e.Tabs)
			case "stmt":
				if skip || hs == nil || (*upto >= 0 && e.ID > *upto) {
					return nil
				}
				r.step(hs, e.ID, e.Stmt)
			}
			return nil
		})
		if err != nil {
			vio.Fatal("%v", err)
		}
	default:
		vio.Fatal("unknown mode %s", *mode)
	}
	w.Close()
	r.rep.Extra["reply_kinds"] = r.kinds
	r.rep.Extra["stmt_kinds"] = r.stmtKind
	r.rep.Extra["probes"] = r.nprobe
	r.rep.Extra["probes_via_index"] = r.nprobeIx
	r.rep.Extra["changed"] = r.changed
	fmt.Fprintf(os.Stderr, "%s: %d statements %v probes=%d (index %d)\n", *mode, r.rep.Cases, r.kinds, r.nprobe, r.nprobeIx)
	r.rep.Emit()
}

func sortStrings(xs []string) {
	for i := 1; i < len(xs); i++ {
		for j := i; j > 0 && xs[j] < xs[j-1]; j-- {
			xs[j], xs[j-1] = xs[j-1], xs[j]
		}
	}
}
