package main

import (
	"encoding/json"
	"fmt"
	"strings"

	. "gmsverif/lib/dmlast"
	"gmsverif/lib/eng"
	"gmsverif/lib/sqlast"
)

// C16 probes: after a statement, for every index of a table (primary key, unique, plain; single,
// multi-column, prefix) the driver issues lookups whose WHERE names exactly the indexed columns:
// equality for present keys and one absent key, a range, IS NULL.  The query AST and the rows the
// engine returned are recorded; TLC validates them as the filter over the logged table contents
// (the specification has no index).  `via` records whether the engine's plan used an index.

var planCache = map[string]string{}

func (r *runner) probeTable(hs *hist, name string, rows [][]Value) []Probe {
	t := hs.tabs[name]
	w := len(t.Cols)
	var out []Probe
	type ix struct {
		name  string
		parts []KeyPart
	}
	var ixs []ix
	if len(t.PK) > 0 {
		var ps []KeyPart
		for _, k := range t.PK {
			ps = append(ps, KeyPart{Col: k})
		}
		ixs = append(ixs, ix{"PRIMARY", ps})
	}
	for _, u := range t.Uniq {
		ixs = append(ixs, ix{u.Name, u.Parts})
	}
	for _, u := range t.Idx {
		ixs = append(ixs, ix{u.Name, u.Parts})
	}
	proj := make([]*sqlast.Expr, w)
	for i := range proj {
		proj[i] = ColRef(i+1, t.Cols[i])
	}
	epoch := fmt.Sprint(len(t.Uniq), len(t.Idx))
	run := func(ixn, shape string, where *sqlast.Expr) {
		q := sqlast.Select(sqlast.Table(name, w), where, proj...)
		sql := (&sqlast.Renderer{}).Query(q)
		res := hs.sess.Exec(sql)
		key := fmt.Sprintf("%d|%s|%s|%s|%s", hs.h, name, ixn, shape, epoch)
		via, ok := planCache[key]
		if !ok {
			via = "scan"
			ex := hs.sess.Exec("EXPLAIN PLAN " + sql)
			if ex.Kind != "rows" {
				ex = hs.sess.Exec("EXPLAIN " + sql)
			}
			b, _ := json.Marshal(eng.Result{Kind: ex.Kind, Rows: ex.Rows})
			_ = b
			for _, row := range ex.Rows {
				for _, v := range row {
					if v.T == "s" && strings.Contains(v.Text(), "IndexedTableAccess") {
						via = "index"
					}
				}
			}
			planCache[key] = via
		}
		r.nprobe++
		if via == "index" {
			r.nprobeIx++
		}
		if show {
			fmt.Printf("-- probe[%s %s %s] %s -> %d rows\n", ixn, shape, via, sql, len(res.Rows))
		}
		out = append(out, Probe{Q: q, Res: &res, SQL: sql, Idx: ixn, Via: via})
	}
	for _, x := range ixs {
		c := x.parts[0].Col
		col := t.Cols[c-1]
		ref := ColRef(c, col)
		// distinct present values of the first indexed column
		var present []Value
		seen := map[string]bool{}
		for _, row := range rows {
			if c > len(row) {
				continue
			}
			v := row[c-1]
			if v.T != "i" && v.T != "s" {
				continue
			}
			k := v.SQL()
			if !seen[k] {
				seen[k] = true
				present = append(present, v)
			}
		}
		for i, v := range present {
			if i >= 3 {
				break
			}
			run(x.name, "eq", sqlast.Op("eq", ref, Lit(v)))
		}
		absent := sqlast.Int(97)
		if col.Ty == "s" {
			absent = sqlast.Str("zq")
		}
		run(x.name, "eq", sqlast.Op("eq", ref, Lit(absent)))
		if len(present) > 0 {
			run(x.name, "range", sqlast.Op([]string{"gt", "ge", "lt", "le"}[r.nprobe%4], ref, Lit(present[len(present)/2])))
		}
		if !col.NotNull {
			run(x.name, "null", sqlast.Op("isnull", ref))
		}
		if len(x.parts) > 1 {
			c2 := x.parts[1].Col
			col2 := t.Cols[c2-1]
			n := 0
			for _, row := range rows {
				if n >= 2 || c > len(row) || c2 > len(row) {
					break
				}
				a, b := row[c-1], row[c2-1]
				if (a.T != "i" && a.T != "s") || (b.T != "i" && b.T != "s") {
					continue
				}
				n++
				run(x.name, "eq2", sqlast.Op("and", sqlast.Op("eq", ref, Lit(a)), sqlast.Op("eq", ColRef(c2, col2), Lit(b))))
			}
		}
	}
	return out
}
