// c29: records, for EVERY collation the engine implements, the observations that spec/Trace_Collation.tla
// judges (C29): the StringType.Compare matrix of a set of strings, their weight strings and hashes, and the
// results of =, <, LIKE and IN over a VARCHAR column of that collation.
//
//	gen -seed S -out trace [-only name,name] [-nosql]
//
// This program decides nothing: it builds the string sets (from characters the collation's character set can
// encode), calls the engine and writes down what it returned.
package main

import (
	"bytes"
	"context"
	"flag"
	"fmt"
	"math/rand"
	"os"
	"strconv"
	"strings"

	"github.com/dolthub/go-mysql-server/sql"
	"github.com/dolthub/go-mysql-server/sql/types"
	"github.com/dolthub/vitess/go/sqltypes"

	"gmsverif/lib/eng"
	"gmsverif/lib/vio"
)

type Ev struct {
	Ev       string     `json:"ev"`
	ID       int        `json:"id"`
	Name     string     `json:"name"`
	Charset  string     `json:"charset"`
	Cls      string     `json:"cls"`
	Pad      bool       `json:"pad"`
	AsciiBin bool       `json:"ascii_bin"`
	Ai0900   bool       `json:"ai0900"`
	Strs     [][]int    `json:"strs"`
	Text     []string   `json:"text"` // for the reader; stripped before validation
	M        [][]int    `json:"M"`
	W        [][]int    `json:"W"`
	H        []string   `json:"H"`
	SQLOK    bool       `json:"sqlok"`
	SQLNote  string     `json:"sqlnote,omitempty"`
	EQ       [][]int    `json:"EQ,omitempty"`
	LT       [][]int    `json:"LT,omitempty"`
	LIKE     [][]int    `json:"LIKE,omitempty"`
	IN       [][]int    `json:"IN,omitempty"`
}

func cps(s string) []int {
	out := []int{}
	for _, r := range s {
		out = append(out, int(r))
	}
	return out
}

// candidate characters: ASCII letters / digit / space, Latin-1 accents, sharp s, BMP (Cyrillic, CJK), astral
var base = []rune{'a', 'A', ' '}
var extra = []rune{'é', 'É', 'ß', 'ж', '日', '😀'}
// singles include siblings that share their UTF-8 lead bytes with a candidate (é/è/ê: C3 xx, ж/з: D0 xx, 日/旦: E6 97 xx,
// 😀/😁: F0 9F 98 xx; no character whose code point order differs from its byte order in a single-byte set, e.g. €): two strings may first differ inside a multi-byte character
var singles = []rune{'b', 'B', 'e', '0', 'z', 'é', 'É', 'ж', 'è', 'ê', 'з', '旦', '😁', '日', '😀'}

func encodable(c sql.Collation, r rune) bool {
	_, ok := c.CharacterSet.Encoder().Encode([]byte(string(r)))
	return ok
}

// stringSet: all strings of length <= 2 over 4 characters (a, A, space, one seeded non-ASCII character of the
// character set, or b), single-character strings of the other candidates, and seeded random longer strings.
func stringSet(c sql.Collation, r *rand.Rand) []string {
	var enc []rune
	for _, x := range extra {
		if encodable(c, x) {
			enc = append(enc, x)
		}
	}
	fourth := 'b'
	if len(enc) > 0 {
		fourth = enc[r.Intn(len(enc))]
	}
	alpha := append(append([]rune{}, base...), fourth)
	seen := map[string]bool{}
	var out []string
	add := func(s string) {
		if !seen[s] {
			seen[s] = true
			out = append(out, s)
		}
	}
	add("")
	for _, x := range alpha {
		add(string(x))
	}
	for _, x := range alpha {
		for _, y := range alpha {
			add(string(x) + string(y))
		}
	}
	var all []rune
	for _, x := range append(append(append([]rune{}, alpha...), singles...), enc...) {
		if encodable(c, x) {
			all = append(all, x)
		}
	}
	for _, x := range singles {
		if encodable(c, x) {
			add(string(x))
		}
	}
	for k := 0; k < 4; k++ {
		n := 3 + r.Intn(3)
		var sb strings.Builder
		for i := 0; i < n; i++ {
			sb.WriteRune(all[r.Intn(len(all))])
		}
		s := sb.String()
		add(s)
		if k == 0 { // a case variant and a padded variant of a longer string
			add(strings.ToUpper(s))
			add(s + " ")
		}
	}
	return out
}

func strLit(s string) string {
	return "'" + strings.ReplaceAll(strings.ReplaceAll(s, "\\", "\\\\"), "'", "''") + "'"
}

func boolInt(v interface{}) (int, bool) {
	switch x := v.(type) {
	case bool:
		if x {
			return 1, true
		}
		return 0, true
	case int8:
		return int(x), true
	case int64:
		return int(x), true
	case int:
		return x, true
	}
	return 0, false
}

func unicodeCharset(name string) bool {
	for _, p := range []string{"utf8", "utf16", "utf32", "ucs2", "ascii", "latin1", "binary"} {
		if strings.HasPrefix(name, p) {
			return true
		}
	}
	return false
}

func main() {
	if len(os.Args) < 2 || os.Args[1] != "gen" {
		vio.Fatal("usage: c29 gen -seed S -out trace [-only names] [-nosql]")
	}
	fs := flag.NewFlagSet("gen", flag.ExitOnError)
	seed := fs.Int64("seed", 1, "seed")
	out := fs.String("out", "", "output trace")
	onlyS := fs.String("only", "", "comma separated collation names")
	nosql := fs.Bool("nosql", false, "skip the SQL part")
	fs.Parse(os.Args[2:])
	only := map[string]bool{}
	for _, n := range strings.Split(*onlyS, ",") {
		if n != "" {
			only[n] = true
		}
	}
	w, err := vio.NewWriter(*out)
	if err != nil {
		vio.Fatal("%v", err)
	}
	db := eng.New()
	s := db.NewSession()
	ctx := context.Background()
	rep := &vio.Report{Extra: map[string]interface{}{}}
	total, noSorter, sqlFail := 0, 0, 0
	byCls := map[string]int{}
	var skipped []string
	it := sql.NewCollationsIterator()
	for {
		c, ok := it.Next()
		if !ok {
			break
		}
		total++
		if c.Sorter == nil {
			noSorter++
			skipped = append(skipped, c.Name)
			continue
		}
		if len(only) > 0 && !only[c.Name] {
			continue
		}
		// the string set depends on the seed and the collation only
		r := rand.New(rand.NewSource(*seed*1000003 + int64(c.ID)*7919))
		strs := stringSet(c, r)
		n := len(strs)
		e := &Ev{Ev: "coll", ID: int(c.ID), Name: c.Name, Charset: c.CharacterSet.Name(), Pad: c.PadAttribute == "PAD SPACE", Text: strs}
		switch {
		case strings.HasSuffix(c.Name, "_bin") || c.Name == "binary":
			e.Cls = "bin"
		case strings.HasSuffix(c.Name, "_ci"):
			e.Cls = "ci"
		default:
			e.Cls = "cs"
		}
		e.AsciiBin = !unicodeCharset(c.CharacterSet.Name())
		e.Ai0900 = c.Name == "utf8mb4_0900_ai_ci"
		st, err := types.CreateString(sqltypes.VarChar, 20, c.ID)
		if err != nil {
			vio.Fatal("CreateString(%s): %v", c.Name, err)
		}
		e.M = make([][]int, n)
		for i := range strs {
			e.Strs = append(e.Strs, cps(strs[i]))
			e.M[i] = make([]int, n)
			for j := range strs {
				cmp, err := st.Compare(ctx, strs[i], strs[j])
				if err != nil {
					vio.Fatal("Compare(%s, %q, %q): %v", c.Name, strs[i], strs[j], err)
				}
				switch {
				case cmp < 0:
					e.M[i][j] = -1
				case cmp > 0:
					e.M[i][j] = 1
				}
			}
			var buf bytes.Buffer
			if err := c.ID.WriteWeightString(&buf, strs[i]); err != nil {
				vio.Fatal("WriteWeightString(%s, %q): %v", c.Name, strs[i], err)
			}
			ws := make([]int, buf.Len())
			for k, b := range buf.Bytes() {
				ws[k] = int(b)
			}
			e.W = append(e.W, ws)
			h, err := c.ID.HashToUint(strs[i])
			if err != nil {
				vio.Fatal("HashToUint(%s, %q): %v", c.Name, strs[i], err)
			}
			e.H = append(e.H, strconv.FormatUint(h, 10))
		}
		if !*nosql {
			tbl := fmt.Sprintf("c%d", c.ID)
			res := s.Exec(fmt.Sprintf("CREATE TABLE %s (id INT PRIMARY KEY, a VARCHAR(20) CHARACTER SET %s COLLATE %s)", tbl, c.CharacterSet.Name(), c.Name))
			if res.Kind != "ok" {
				e.SQLNote = "create: " + res.Msg
			} else {
				vals := make([]string, n)
				for i, x := range strs {
					vals[i] = fmt.Sprintf("(%d, %s)", i+1, strLit(x))
				}
				res = s.Exec(fmt.Sprintf("INSERT INTO %s VALUES %s", tbl, strings.Join(vals, ", ")))
				if res.Kind != "ok" {
					e.SQLNote = "insert: " + res.Msg
				} else {
					res = s.Exec(fmt.Sprintf("SELECT x.id, y.id, x.a = y.a, x.a < y.a, x.a LIKE y.a, x.a IN (y.a) FROM %s x CROSS JOIN %s y", tbl, tbl))
					if res.Kind != "rows" || len(res.Raw) != n*n {
						e.SQLNote = fmt.Sprintf("select: %s %s (%d rows)", res.Kind, res.Msg, len(res.Raw))
					} else {
						mk := func() [][]int {
							m := make([][]int, n)
							for i := range m {
								m[i] = make([]int, n)
							}
							return m
						}
						e.EQ, e.LT, e.LIKE, e.IN = mk(), mk(), mk(), mk()
						e.SQLOK = true
						for _, row := range res.Raw {
							i, _ := boolInt(row[0])
							j, _ := boolInt(row[1])
							if i32, ok := row[0].(int32); ok {
								i = int(i32)
							}
							if j32, ok := row[1].(int32); ok {
								j = int(j32)
							}
							for k, m := range []([][]int){e.EQ, e.LT, e.LIKE, e.IN} {
								v, ok := boolInt(row[2+k])
								if !ok || i < 1 || j < 1 || i > n || j > n {
									e.SQLOK = false
									e.SQLNote = fmt.Sprintf("unexpected value %T %v in row %v", row[2+k], row[2+k], row)
									break
								}
								m[i-1][j-1] = v
							}
						}
						if !e.SQLOK {
							e.EQ, e.LT, e.LIKE, e.IN = nil, nil, nil, nil
						}
					}
				}
				s.Exec("DROP TABLE " + tbl)
			}
			if !e.SQLOK {
				sqlFail++
			}
		}
		w.Write(e)
		rep.Cases++
		byCls[e.Cls]++
		if len(rep.Samples) < 2 && (c.Name == "utf8mb4_0900_ai_ci" || c.Name == "latin1_swedish_ci") {
			rep.Samples = append(rep.Samples, map[string]interface{}{"collation": c.Name, "strings": strs, "compare_row_of_a": e.M[1], "weights_of_a": e.W[1], "hash_of_a": e.H[1]})
		}
	}
	w.Close()
	rep.Extra["collations_total"] = total
	rep.Extra["without_sorter"] = noSorter
	rep.Extra["without_sorter_names"] = skipped
	rep.Extra["sql_unavailable"] = sqlFail
	rep.Extra["by_class"] = byCls
	rep.Emit()
}
