// c09: result values conform to the result schema. Runs type-stressing statements on the real engine
// and records, per result column, the reported type and, per value, a description (category, sign,
// digits, fraction digits, length); spec/Trace_Types.tla decides whether each value fits its type.
package main

import (
	"encoding/json"
	"flag"
	"fmt"
	"math"
	"math/rand"
	"regexp"
	"strconv"
	"strings"
	"time"
	"unicode/utf8"

	"github.com/cockroachdb/apd/v3"

	"github.com/dolthub/go-mysql-server/sql"
	"github.com/dolthub/go-mysql-server/sql/types"

	"gmsverif/lib/eng"
	"gmsverif/lib/sqlast"
	"gmsverif/lib/sqlgen"
	"gmsverif/lib/typefix"
	"gmsverif/lib/vio"
)

var fixture, exprs, aggs = typefix.Fixture, typefix.Exprs, typefix.Aggs

// string columns whose character capacity and byte capacity order differently (character sets of
// different widths, binary strings): the reported type of a conditional / set operation over two
// of them must still admit every value either operand can produce.
var wideFixture = []string{
	"CREATE TABLE w (k INT PRIMARY KEY, l1 VARCHAR(30) CHARACTER SET latin1, u8 VARCHAR(10), vb VARBINARY(30), lc CHAR(20) CHARACTER SET latin1, u16 VARCHAR(8) CHARACTER SET utf16, u3 VARCHAR(12) CHARACTER SET utf8mb3)",
	"INSERT INTO w VALUES (1, REPEAT('a', 30), REPEAT('b', 10), REPEAT('c', 30), REPEAT('d', 20), REPEAT('e', 8), REPEAT('f', 12)), (2, 'x', 'y', 'z', 'p', 'q', 'r'), (3, NULL, REPEAT('b', 10), NULL, REPEAT('d', 20), NULL, REPEAT('f', 12)), (4, REPEAT('a', 30), NULL, REPEAT('c', 30), NULL, REPEAT('e', 8), NULL)",
}
var wideCols = []string{"l1", "u8", "vb", "lc", "u16", "u3"}

type colTy struct {
	Base     string `json:"base"`
	P        int    `json:"p"`
	S        int    `json:"s"`
	Unsigned bool   `json:"unsigned"`
	Nullable bool   `json:"nullable"`
	Text     string `json:"text"`
}

type valD struct {
	C   string `json:"c"`
	Neg bool   `json:"neg"`
	D   []int  `json:"d"`
	F   int    `json:"f"`
	N   int    `json:"n"`
	G   string `json:"g"`
}

type typedEvent struct {
	Ev   string   `json:"ev"`
	ID   int      `json:"id"`
	SQL  string   `json:"sql"`
	Cols []colTy  `json:"cols"`
	Rows [][]valD `json:"rows"`
	Kind string   `json:"kind"`
	Src  []string `json:"src"`
}

var tyRe = regexp.MustCompile(`^([a-z]+)(?:\((\d+)(?:,(\d+))?\))?`)

func parseType(t sql.Type, nullable bool) colTy {
	text := strings.ToLower(t.String())
	c := colTy{Text: text, Nullable: nullable}
	m := tyRe.FindStringSubmatch(text)
	if m != nil {
		c.Base = m[1]
		if m[2] != "" {
			c.P, _ = strconv.Atoi(m[2])
		}
		if m[3] != "" {
			c.S, _ = strconv.Atoi(m[3])
		}
	}
	c.Unsigned = strings.Contains(text, "unsigned")
	switch {
	case c.Base == "decimal" && c.P == 0:
		c.P = 10
	case strings.HasPrefix(text, "tinyint(1)"):
		c.Base = "tinyint"
	}
	if types.IsEnum(t) {
		c.Base = "enum"
	} else if types.IsSet(t) {
		c.Base = "set"
	}
	return c
}

func digits(s string) []int {
	d := []int{}
	for _, r := range s {
		if r >= '0' && r <= '9' {
			d = append(d, int(r-'0'))
		}
	}
	if len(d) == 0 {
		d = []int{0}
	}
	return d
}

func intD(neg bool, mag string) valD { return valD{C: "int", Neg: neg, D: digits(mag)} }

func decD(s string) valD {
	neg := strings.HasPrefix(s, "-")
	s = strings.TrimLeft(s, "-+")
	ip, fp := s, ""
	if i := strings.IndexByte(s, '.'); i >= 0 {
		ip, fp = s[:i], s[i+1:]
	}
	if strings.ContainsAny(s, "eE") {
		return valD{C: "float", D: []int{0}}
	}
	return valD{C: "dec", Neg: neg, D: digits(ip), F: len(fp)}
}

func describe(v interface{}) valD {
	d := valD{D: []int{0}, G: fmt.Sprintf("%T", v)}
	switch x := v.(type) {
	case nil:
		d.C = "null"
	case bool:
		d.C = "bool"
	case int, int8, int16, int32, int64:
		s := fmt.Sprint(x)
		d = intD(strings.HasPrefix(s, "-"), strings.TrimPrefix(s, "-"))
	case uint, uint8, uint16, uint32, uint64:
		d = intD(false, fmt.Sprint(x))
	case float32:
		d.C = "float"
		if math.IsNaN(float64(x)) || math.IsInf(float64(x), 0) {
			d.C = "unknown"
		}
	case float64:
		d.C = "float"
		if math.IsNaN(x) || math.IsInf(x, 0) {
			d.C = "unknown"
		}
	case *apd.Decimal:
		d = decD(x.Text('f'))
	case apd.Decimal:
		d = decD(x.Text('f'))
	case string:
		d.C = "str"
		d.N = utf8.RuneCountInString(x)
	case []byte:
		d.C = "bytes"
		d.N = len(x)
	case time.Time:
		d.C = "time"
	case types.Timespan:
		d.C = "duration"
	case sql.JSONWrapper:
		d.C = "json"
	default:
		if _, ok := v.(fmt.Stringer); ok && strings.Contains(d.G, "JSON") {
			d.C = "json"
		} else if strings.Contains(d.G, "types.Point") || strings.Contains(d.G, "types.Polygon") || strings.Contains(d.G, "types.LineString") || strings.Contains(d.G, "Geom") {
			d.C = "geometry"
		} else {
			d.C = "unknown"
		}
	}
	d.G = fmt.Sprintf("%T", v)
	return d
}

func main() {
	seed := flag.Int64("seed", 1, "")
	n := flag.Int("n", 600, "statements")
	out := flag.String("out", "trace.ndjson", "")
	onlyS := flag.String("only", "", "")
	in := flag.String("in", "", "run the statements of this ndjson file ({id, sql, kind, src}) instead of generating")
	flag.Parse()
	only := map[int]bool{}
	for _, p := range strings.Split(*onlyS, ",") {
		var x int
		if _, err := fmt.Sscan(p, &x); err == nil {
			only[x] = true
		}
	}
	w, err := vio.NewWriter(*out)
	if err != nil {
		vio.Fatal("%v", err)
	}
	rep := &vio.Report{Extra: map[string]interface{}{}}
	r := rand.New(rand.NewSource(*seed))
	db := eng.New()
	s := db.NewSession()
	for _, f := range fixture {
		s.MustExec(f)
	}
	for _, f := range wideFixture {
		s.MustExec(f)
	}
	// generated C02-style schema for the AST-generated queries
	g := sqlgen.New(*seed)
	tabs := g.Schema(3)
	for _, t := range tabs {
		s.MustExec(t.CreateSQL())
		for _, ins := range t.InsertSQL() {
			s.MustExec(ins)
		}
	}
	pick := func(xs []string) string { return xs[r.Intn(len(xs))] }
	kinds := map[string]int{}
	typesSeen := map[string]bool{}
	var given []typedEvent
	if *in != "" {
		vio.ReadNDJSON(*in, func(i int, line []byte) error {
			var e typedEvent
			if err := json.Unmarshal(line, &e); err == nil {
				given = append(given, e)
			}
			return nil
		})
		*n = len(given)
	}
	for id := 1; id <= *n; id++ {
		var q, kind string
		var src []string
		sel := func(from string, cols ...string) string {
			src = cols
			return "SELECT " + strings.Join(cols, ", ") + " " + from
		}
		switch r.Intn(10) {
		case 9:
			kind = "string-width-mix"
			x, y := pick(wideCols), pick(wideCols)
			form := pick([]string{"IF(k %% 2 = 0, %s, %s)", "IFNULL(%s, %s)", "COALESCE(%s, %s)", "CASE WHEN k < 3 THEN %s ELSE %s END", "CASE k WHEN 1 THEN %s WHEN 4 THEN %s END", "NULLIF(%s, %s)", "CONCAT(%s, %s)", "GREATEST(%s, %s)"})
			if r.Intn(4) == 0 {
				q = fmt.Sprintf("SELECT %s FROM w UNION ALL SELECT %s FROM w", x, y)
				src = []string{x + " UNION " + y}
			} else {
				q = sel("FROM w", fmt.Sprintf(form, x, y), fmt.Sprintf(form, y, x))
			}
		case 0, 1:
			kind = "select-list"
			q = sel("FROM a", pick(exprs), pick(exprs), pick(exprs))
		case 2:
			kind = "outer-join-padding"
			if r.Intn(2) == 0 {
				q = sel("FROM a LEFT JOIN b ON a.k = b.k", "a.k", "b.k", "b.r", "b.s", pick(exprs))
			} else {
				q = sel("FROM a RIGHT JOIN b ON a.k = b.k", "b.k", "b.r", "b.s", "a.su", "a.vc")
			}
		case 3:
			kind = "aggregate-empty"
			if r.Intn(3) == 0 {
				q = sel("FROM e", "COUNT(*)", "SUM(v)", "AVG(v)", "MIN(v)", "MAX(v)", "GROUP_CONCAT(v)")
			} else {
				q = sel("FROM a WHERE "+pick([]string{"k < 0", "k > 0", "ti IS NULL", "1 = 0"}), pick(aggs), pick(aggs))
			}
		case 4:
			kind = "aggregate-grouped"
			q = sel("FROM a GROUP BY 1", pick([]string{"ch", "ti", "en", "yr"}), pick(aggs))
		case 5:
			kind = "union-arms"
			l, rr := pick(exprs), pick(exprs)
			q = fmt.Sprintf("SELECT %s FROM a UNION %s SELECT %s FROM a", l, pick([]string{"", "ALL"}), rr)
			src = []string{l + " UNION " + rr}
		case 6:
			kind = "subquery-value"
			e1, e2 := pick(exprs), pick([]string{"MAX(v)", "v", "COUNT(*)"})
			q = fmt.Sprintf("SELECT (SELECT %s FROM a WHERE k = %d), (SELECT %s FROM e), EXISTS (SELECT 1 FROM e)", e1, r.Intn(5), e2)
			src = []string{"(SELECT " + e1 + ")", "(SELECT " + e2 + " FROM e)", "EXISTS"}
		case 7:
			kind = "window"
			wf := pick([]string{"ROW_NUMBER()", "RANK()", "SUM(ti)", "AVG(de)", "LAG(vc)", "LEAD(su, 1, 0)", "FIRST_VALUE(dt)", "PERCENT_RANK()", "NTILE(2)", "COUNT(*)", "MAX(bu)"})
			q = sel("FROM a", "k", wf+" OVER (ORDER BY k)")
		default:
			kind = "generated"
			gq := g.Query(2)
			q = (&sqlast.Renderer{}).Query(gq)
			tags := strings.Join(sqlast.Tags(gq), ",")
			if strings.Contains(tags, "join:left") || strings.Contains(tags, "join:right") {
				kind = "generated-outer-join"
			}
			for _, p := range gq.Proj {
				if p.K == "agg" {
					src = append(src, strings.ToUpper(p.F)+"(")
				} else {
					src = append(src, "expr")
				}
			}
		}
		if given != nil {
			q, kind, src, id = given[id-1].SQL, given[id-1].Kind, given[id-1].Src, given[id-1].ID
		}
		if len(only) > 0 && !only[id] {
			continue
		}
		ctx := s.Ctx()
		if src == nil {
			src = []string{}
		}
		ev := typedEvent{Ev: "typed", ID: id, SQL: q, Kind: kind, Cols: []colTy{}, Rows: [][]valD{}, Src: src}
		func() {
			defer func() { recover() }()
			sch, iter, _, err := db.Engine.Query(ctx, q)
			if err != nil {
				kinds["err"]++
				return
			}
			rows, err := sql.RowIterToRows(ctx, iter)
			if err != nil {
				kinds["err"]++
				return
			}
			if len(sch) == 1 && sch[0].Name == types.OkResultColumnName {
				return
			}
			for _, c := range sch {
				ct := parseType(c.Type, c.Nullable)
				ev.Cols = append(ev.Cols, ct)
				typesSeen[ct.Base] = true
			}
			for _, row := range rows {
				vr := make([]valD, len(row))
				for j, v := range row {
					vr[j] = describe(v)
				}
				ev.Rows = append(ev.Rows, vr)
			}
			kinds["rows"]++
		}()
		if len(ev.Cols) == 0 {
			continue
		}
		w.Write(ev)
		rep.Cases++
		if len(ev.Rows) > 0 {
			rep.Nontrivial++
		}
		if len(rep.Samples) < 4 && len(ev.Rows) > 0 && id%11 == 0 {
			var ts []string
			for _, c := range ev.Cols {
				ts = append(ts, c.Text)
			}
			rep.Samples = append(rep.Samples, map[string]interface{}{"sql": q, "types": ts})
		}
	}
	w.Close()
	var tl []string
	for t := range typesSeen {
		tl = append(tl, t)
	}
	rep.Extra["result_kinds"] = kinds
	rep.Extra["reported_type_bases"] = tl
	rep.Emit()
}
