// c38: binds spec/LockSubsystem.tla and spec/LockAtomic.tla to the real sql.LockSubsystem.
//
//	-mode gated   binding A: replays TLC-generated behaviours (one record per atomic step of one
//	              session) on the real code.  One goroutine per session runs the real calls; the
//	              verifhook.Yield gate parks it at every Yield point and the scheduler releases
//	              exactly the session TLC chose.  After every step the real lock states, counts,
//	              session lock sets, the Yield point the session reached and the reply of a finished
//	              call are compared with the specification's.
//	-mode free    binding B: goroutines run random calls without gates; call start/end stamps come
//	              from one atomic counter; the histories are written as ndjson and a linearisation is
//	              searched by TLC (spec/Trace_Locks.tla).
//
// Nothing here decides what a lock operation should do: expectations come from TLC.
package main

import (
	"context"
	"encoding/json"
	"flag"
	"fmt"
	"hash/fnv"
	"math/rand"
	"os"
	"reflect"
	"runtime"
	"sort"
	"strings"
	"sync"
	"sync/atomic"
	"time"
	"unsafe"

	"gmsverif/lib/vio"

	"github.com/dolthub/go-mysql-server/sql"
	"github.com/dolthub/go-mysql-server/verifhook"
)

// ---------------------------------------------------------------- records

type Op struct {
	K string `json:"k"`
	N string `json:"n"`
	T string `json:"t"`
}

type Ret struct {
	S string `json:"s"`
	I int    `json:"i"`
}

type Act struct {
	S   int    `json:"s"`
	At  string `json:"at"`
	Nxt string `json:"nxt"`
	Op  Op     `json:"op"`
	Tgt string `json:"tgt"`
	Ok  bool   `json:"ok"`
	Ret Ret    `json:"ret"`
}

type LockSt struct {
	O int `json:"o"`
	C int `json:"c"`
}

type HeldRec struct {
	S     int      `json:"s"`
	Names []string `json:"names"`
}

// TR is one step of a behaviour as printed by LockSubsystem!Emit.
type TR struct {
	Step    int               `json:"step"`
	Act     Act               `json:"act"`
	Lock    map[string]LockSt `json:"lock"`
	Created []string          `json:"created"`
	Held    []HeldRec         `json:"held"`
}

// Call is one call of a history (binding B and the witness replay).
type Call struct {
	S  int    `json:"s"`
	K  string `json:"k"`
	N  string `json:"n"`
	T  string `json:"t"`
	St int    `json:"st"`
	En int    `json:"en"`
	Rs string `json:"rs"`
	Ri int    `json:"ri"`
	P  bool   `json:"p"` // pending: invoked, not returned when the history ends
}

type History struct {
	H     int    `json:"h"`
	Calls []Call `json:"calls"`
}

const pendingEnd = 1 << 30

// ---------------------------------------------------------------- the real calls

// gsess is a real *sql.BaseSession whose IterLocks visits the REAL lock set in the order the
// scheduler dictates instead of Go's random map order (TLC chooses the order of ReleaseAll's
// iteration; the gate can only follow it if the iteration order is under control).
type gsess struct {
	*sql.BaseSession
	plan []string
}

func (g *gsess) IterLocks(cb func(name string) error) error {
	var names []string
	_ = g.BaseSession.IterLocks(func(n string) error { names = append(names, n); return nil })
	pos := func(n string) int {
		for i, p := range g.plan {
			if p == n {
				return i
			}
		}
		return len(g.plan)
	}
	sort.SliceStable(names, func(i, j int) bool {
		if pi, pj := pos(names[i]), pos(names[j]); pi != pj {
			return pi < pj
		}
		return names[i] < names[j]
	})
	for _, n := range names {
		if err := cb(n); err != nil {
			return err
		}
	}
	return nil
}

func lockSet(s *sql.BaseSession) []string {
	names := []string{}
	_ = s.IterLocks(func(n string) error { names = append(names, n); return nil })
	sort.Strings(names)
	return names
}

const finTimeout = 250 * time.Microsecond

func timeoutOf(t string) time.Duration {
	switch t {
	case "inf":
		return -1
	case "zero":
		return 0
	case "fin":
		return finTimeout
	}
	vio.Fatal("unknown timeout class %q", t)
	return 0
}

// call runs one real operation and renders its reply in the vocabulary of the specification.
func call(ls *sql.LockSubsystem, ctx *sql.Context, op Op) (ret Ret) {
	defer func() {
		if r := recover(); r != nil {
			ret = Ret{S: fmt.Sprintf("panic:%v", r)}
		}
	}()
	switch op.K {
	case "try":
		ok, err := ls.TryLock(ctx, op.N)
		if err != nil {
			return Ret{S: "error:" + err.Error()}
		}
		if ok {
			return Ret{S: "true"}
		}
		return Ret{S: "false"}
	case "lock":
		err := ls.Lock(ctx, op.N, timeoutOf(op.T))
		switch {
		case err == nil:
			return Ret{S: "ok"}
		case sql.ErrLockTimeout.Is(err):
			return Ret{S: "timeout"}
		}
		return Ret{S: "error:" + err.Error()}
	case "unlock":
		err := ls.Unlock(ctx, op.N)
		switch {
		case err == nil:
			return Ret{S: "ok"}
		case sql.ErrLockDoesNotExist.Is(err):
			return Ret{S: "noexist"}
		case sql.ErrLockNotOwned.Is(err):
			return Ret{S: "notowned"}
		}
		return Ret{S: "error:" + err.Error()}
	case "state":
		return stateOf(ls, op.N)
	case "relall":
		n, err := ls.ReleaseAll(ctx)
		if err != nil {
			return Ret{S: "error:" + err.Error()}
		}
		return Ret{S: "count", I: n}
	}
	vio.Fatal("unknown op %q", op.K)
	return Ret{}
}

func stateOf(ls *sql.LockSubsystem, name string) Ret {
	st, owner := ls.GetLockState(name)
	switch st {
	case sql.LockDoesNotExist:
		return Ret{S: "noexist", I: int(owner)}
	case sql.LockFree:
		return Ret{S: "free", I: int(owner)}
	case sql.LockInUse:
		return Ret{S: "used", I: int(owner)}
	}
	return Ret{S: fmt.Sprintf("state:%d", st), I: int(owner)}
}

// peek reads (owner, count) of the ownedLock currently installed for name. The fields are
// unexported; their shape is verified by reflection first (anything unexpected is an
// infrastructure failure, not a verdict). Only called while every session goroutine is parked.
func peek(ls *sql.LockSubsystem, name string) (owner, count int64, exists bool) {
	m := reflect.ValueOf(ls).Elem().FieldByName("locks")
	if !m.IsValid() || m.Kind() != reflect.Map {
		vio.Fatal("LockSubsystem.locks is not a map any more")
	}
	et := m.Type().Elem() // **ownedLock
	if et.Kind() != reflect.Ptr || et.Elem().Kind() != reflect.Ptr || et.Elem().Elem().Kind() != reflect.Struct {
		vio.Fatal("LockSubsystem.locks has element type %s, expected **ownedLock", et)
	}
	st := et.Elem().Elem()
	if st.NumField() != 2 || st.Field(0).Name != "Owner" || st.Field(1).Name != "Count" ||
		st.Field(0).Type.Kind() != reflect.Int64 || st.Field(1).Type.Kind() != reflect.Int64 {
		vio.Fatal("ownedLock is no longer struct{Owner, Count int64}: %s", st)
	}
	v := m.MapIndex(reflect.ValueOf(name))
	if !v.IsValid() || v.IsNil() {
		return 0, 0, false
	}
	slot := (*unsafe.Pointer)(v.UnsafePointer())
	cur := (*struct{ Owner, Count int64 })(atomic.LoadPointer(slot))
	return cur.Owner, cur.Count, true
}

// ---------------------------------------------------------------- the gate scheduler

type event struct {
	parked bool
	point  string
	sid    uint32
	ret    Ret
}

type runner struct {
	id     int
	base   *sql.BaseSession
	g      *gsess
	ctx    *sql.Context
	ops    chan Op
	resume chan bool
	at     string // "idle" or the Yield point it is parked at (owned by the scheduler)
	start  int    // stamp of the running call's invocation
	op     Op
}

type world struct {
	ls        *sql.LockSubsystem
	runners   map[int]*runner
	ev        chan event
	cur       *runner
	observing bool
	wg        sync.WaitGroup
	calls     []Call
}

var theWorld *world

var gateTimeout = 20 * time.Second

func gate(point string, session uint32) {
	w := theWorld
	if w == nil || w.observing {
		return
	}
	r := w.cur
	if r == nil {
		vio.Fatal("Yield(%s,%d) with no session scheduled", point, session)
	}
	w.ev <- event{parked: true, point: point, sid: session}
	if !<-r.resume {
		runtime.Goexit()
	}
}

func newWorld(sessions []int) *world {
	w := &world{ls: sql.NewLockSubsystem(), runners: map[int]*runner{}, ev: make(chan event)}
	for _, id := range sessions {
		base := sql.NewBaseSessionWithClientServer("verif", sql.Client{User: "u", Address: "h"}, uint32(id))
		g := &gsess{BaseSession: base}
		r := &runner{id: id, base: base, g: g, ctx: sql.NewContext(context.Background(), sql.WithSession(g)),
			ops: make(chan Op), resume: make(chan bool), at: "idle"}
		w.runners[id] = r
		w.wg.Add(1)
		go func() {
			defer w.wg.Done()
			for op := range r.ops {
				ret := call(w.ls, r.ctx, op)
				w.ev <- event{ret: ret}
			}
		}()
	}
	return w
}

// close releases every goroutine of the world (parked ones exit at their gate).
func (w *world) close() {
	for _, r := range w.runners {
		if r.at != "idle" {
			r.resume <- false
		}
		close(r.ops)
	}
	w.wg.Wait()
}

var waitTimer = time.NewTimer(time.Hour)

func (w *world) wait() event {
	if !waitTimer.Stop() {
		select {
		case <-waitTimer.C:
		default:
		}
	}
	waitTimer.Reset(gateTimeout)
	select {
	case ev := <-w.ev:
		return ev
	case <-waitTimer.C:
		vio.Fatal("gate wait timed out: the scheduled session neither reached a Yield point nor returned")
	}
	return event{}
}

type diff struct {
	what     string
	expected interface{}
	got      interface{}
}

// step executes one specification step on the real code and compares. stamp = 2*index of the step.
func (w *world) step(tr *TR, plan []string, stamp int) *diff {
	r := w.runners[tr.Act.S]
	if r == nil {
		vio.Fatal("behaviour uses session %d, not in -sessions", tr.Act.S)
	}
	if r.at != tr.Act.At {
		return &diff{"diverge/at", tr.Act.At, r.at}
	}
	w.cur = r
	if tr.Act.At == "idle" {
		r.g.plan = plan
		r.op = tr.Act.Op
		r.start = stamp
		r.ops <- tr.Act.Op
	} else {
		r.resume <- true
	}
	ev := w.wait()
	w.cur = nil
	var d *diff
	if ev.parked {
		r.at = ev.point
		if ev.sid != 0 && int(ev.sid) != r.id {
			d = &diff{"yield-session", r.id, ev.sid}
		}
	} else {
		r.at = "idle"
		w.calls = append(w.calls, Call{S: r.id, K: r.op.K, N: r.op.N, T: r.op.T, St: r.start, En: stamp + 1, Rs: ev.ret.S, Ri: ev.ret.I})
	}
	if d != nil {
		return d
	}
	if r.at != tr.Act.Nxt {
		return &diff{"diverge/nxt", tr.Act.Nxt, r.at}
	}
	if !ev.parked && ev.ret != tr.Act.Ret {
		return &diff{"ret", tr.Act.Ret, ev.ret}
	}
	return w.observe(tr)
}

// observe compares the real lock states, counts and session sets with the specification's post-state.
func (w *world) observe(tr *TR) *diff {
	w.observing = true
	defer func() { w.observing = false }()
	created := map[string]bool{}
	for _, n := range tr.Created {
		created[n] = true
	}
	names := make([]string, 0, len(tr.Lock))
	for n := range tr.Lock {
		names = append(names, n)
	}
	sort.Strings(names)
	for _, n := range names {
		exp := Ret{S: "noexist"}
		if created[n] {
			exp = Ret{S: "free"}
			if tr.Lock[n].O != 0 {
				exp = Ret{S: "used", I: tr.Lock[n].O}
			}
		}
		if got := stateOf(w.ls, n); got != exp {
			return &diff{"lockstate[" + n + "]", exp, got}
		}
		o, c, ex := peek(w.ls, n)
		if ex != created[n] || int(o) != tr.Lock[n].O || int(c) != tr.Lock[n].C {
			return &diff{"count[" + n + "]", tr.Lock[n], LockSt{int(o), int(c)}}
		}
	}
	for _, h := range tr.Held {
		r := w.runners[h.S]
		if r == nil {
			continue
		}
		exp := append([]string{}, h.Names...)
		sort.Strings(exp)
		if got := lockSet(r.base); strings.Join(got, ",") != strings.Join(exp, ",") {
			return &diff{fmt.Sprintf("held[%d]", h.S), exp, got}
		}
	}
	return nil
}

// planFor returns the order in which the ReleaseAll invoked at beh[i] visits names in the behaviour.
func planFor(beh []TR, i int) []string {
	s := beh[i].Act.S
	var plan []string
	if beh[i].Act.Nxt == "idle" {
		return nil
	}
	plan = append(plan, beh[i].Act.Tgt)
	for j := i + 1; j < len(beh); j++ {
		a := beh[j].Act
		if a.S != s {
			continue
		}
		if a.Nxt == "idle" {
			break
		}
		if a.Nxt == "releaseall.load" && a.Tgt != plan[len(plan)-1] {
			plan = append(plan, a.Tgt)
		}
	}
	return plan
}

func nontrivialStep(a Act) (failedCas, contended bool) {
	failedCas = !a.Ok
	contended = a.At == "trylock.load" && (a.Nxt == "lock.sleep" || a.Ret.S == "false")
	return
}

func gated(file, historyOut string, sessions []int, rep *vio.Report) {
	verifhook.YieldFn = gate
	var all []TR
	err := vio.ReadNDJSON(file, func(i int, line []byte) error {
		var tr TR
		if err := json.Unmarshal(line, &tr); err != nil {
			return err
		}
		all = append(all, tr)
		return nil
	})
	if err != nil {
		vio.Fatal("%v", err)
	}
	var hw *vio.Writer
	if historyOut != "" {
		if hw, err = vio.NewWriter(historyOut); err != nil {
			vio.Fatal("%v", err)
		}
		defer hw.Close()
	}
	steps, behaviours, failedCas, contended, skipped, returns := 0, 0, 0, 0, 0, 0
	byPoint := map[string]int{}
	distinctNT := map[uint64]bool{}
	for lo := 0; lo < len(all); {
		hi := lo + 1
		for hi < len(all) && all[hi].Step != 1 && all[hi].Step == all[hi-1].Step+1 {
			hi++
		}
		beh := all[lo:hi]
		behaviours++
		w := newWorld(sessions)
		theWorld = w
		nt := false
		hash := fnv.New64a()
		for i := range beh {
			tr := &beh[i]
			fmt.Fprintf(hash, "%d:%s>%s:%s(%s,%s);", tr.Act.S, tr.Act.At, tr.Act.Nxt, tr.Act.Op.K, tr.Act.Op.N, tr.Act.Op.T)
			var plan []string
			if tr.Act.At == "idle" && tr.Act.Op.K == "relall" {
				plan = planFor(beh, i)
			}
			steps++
			byPoint[tr.Act.At]++
			if tr.Act.Nxt == "idle" {
				returns++
			}
			f, c := nontrivialStep(tr.Act)
			if f {
				failedCas++
			}
			if c {
				contended++
			}
			nt = nt || f || c
			if d := w.step(tr, plan, 2*i); d != nil {
				rep.Mismatches = append(rep.Mismatches, vio.Mismatch{Case: lo + i,
					Signature: tr.Act.Op.K + "/" + tr.Act.At + "/" + d.what, Expected: d.expected, Got: d.got,
					Input: map[string]interface{}{"behaviour_start": lo, "step": tr}})
				skipped += len(beh) - i - 1
				break
			}
		}
		if nt {
			distinctNT[hash.Sum64()] = true
		}
		if hw != nil {
			calls := append([]Call{}, w.calls...)
			ids := make([]int, 0, len(w.runners))
			for id := range w.runners {
				ids = append(ids, id)
			}
			sort.Ints(ids)
			for _, id := range ids {
				if r := w.runners[id]; r.at != "idle" {
					calls = append(calls, Call{S: r.id, K: r.op.K, N: r.op.N, T: r.op.T, St: r.start, En: pendingEnd, Rs: "none", P: true})
				}
			}
			sort.Slice(calls, func(i, j int) bool { return calls[i].St < calls[j].St })
			hw.Write(History{H: behaviours, Calls: calls})
		}
		if len(rep.Samples) < 2 && nt && len(beh) > 8 {
			var sched []string
			for i := range beh {
				a := beh[i].Act
				x := fmt.Sprintf("s%d %s(%s) %s>%s", a.S, a.Op.K, a.Tgt, a.At, a.Nxt)
				if !a.Ok {
					x += " CAS-FAILED"
				}
				if a.Nxt == "idle" {
					x += fmt.Sprintf(" = %s/%d", a.Ret.S, a.Ret.I)
				}
				sched = append(sched, x)
			}
			rep.Samples = append(rep.Samples, map[string]interface{}{"gated_behaviour_steps": len(beh), "schedule": sched})
		}
		w.close()
		theWorld = nil
		lo = hi
	}
	rep.Cases = steps
	rep.Nontrivial = len(distinctNT)
	rep.Extra["behaviours"] = behaviours
	rep.Extra["failed_cas_steps"] = failedCas
	rep.Extra["contended_acquire_steps"] = contended
	rep.Extra["steps_skipped_after_mismatch"] = skipped
	rep.Extra["calls_returned"] = returns
	rep.Extra["by_point"] = byPoint
}

// ---------------------------------------------------------------- free-running histories

var shake uint64

// abandon is set when the recording of a history is given up (a call did not return): every
// goroutine still inside the lock subsystem ends at its next Yield point.
var abandon int32

// historyDeadline only bounds the recording (a watchdog); it never orders or judges anything: calls
// that have not returned are recorded as pending and the history is judged as it stands.
var historyDeadline = 8 * time.Second

func shakeYield(point string, session uint32) {
	if atomic.LoadInt32(&abandon) != 0 {
		runtime.Goexit()
	}
	x := atomic.AddUint64(&shake, 0x9E3779B97F4A7C15)
	x ^= x >> 29
	if x&3 != 0 {
		runtime.Gosched()
	}
}

func free(out string, n, nsess, ncalls int, names []string, seed int64, rep *vio.Report) {
	verifhook.YieldFn = shakeYield
	hw, err := vio.NewWriter(out)
	if err != nil {
		vio.Fatal("%v", err)
	}
	defer hw.Close()
	rng := rand.New(rand.NewSource(seed))
	byKind := map[string]int{}
	overlapping, timeouts, contended, abandoned, written := 0, 0, 0, 0, 0
	for h := 1; h <= n; h++ {
		ls := sql.NewLockSubsystem()
		per := ncalls / nsess
		plans := make([][]Op, nsess)
		for s := 0; s < nsess; s++ {
			holdsNothing := true // known only after a relall or at the start: an untimed Lock is offered only then
			for c := 0; c < per-1; c++ {
				name := names[rng.Intn(len(names))]
				var op Op
				switch x := rng.Intn(100); {
				case x < 25:
					op = Op{"try", name, "na"}
				case x < 45:
					t := "fin"
					if rng.Intn(3) == 0 {
						t = "zero"
					}
					if holdsNothing && rng.Intn(2) == 0 {
						t = "inf"
					}
					op = Op{"lock", name, t}
				case x < 70:
					op = Op{"unlock", name, "na"}
				case x < 88:
					op = Op{"state", name, "na"}
				default:
					op = Op{"relall", "-", "na"}
				}
				holdsNothing = op.K == "relall" || (holdsNothing && (op.K == "state" || op.K == "unlock"))
				plans[s] = append(plans[s], op)
			}
			plans[s] = append(plans[s], Op{"relall", "-", "na"}) // every session ends by releasing everything
		}
		var clock int64
		var startFlag int32
		results := make([][]Call, nsess)
		running := make([]*Call, nsess) // the call a session is inside of (guarded by mu)
		var mu sync.Mutex
		var wg sync.WaitGroup
		for s := 0; s < nsess; s++ {
			wg.Add(1)
			go func(s int) {
				defer wg.Done()
				id := s + 1
				base := sql.NewBaseSessionWithClientServer("verif", sql.Client{User: "u", Address: "h"}, uint32(id))
				ctx := sql.NewContext(context.Background(), sql.WithSession(base))
				for atomic.LoadInt32(&startFlag) == 0 {
					runtime.Gosched()
				}
				for _, op := range plans[s] {
					st := atomic.AddInt64(&clock, 1)
					mu.Lock()
					running[s] = &Call{S: id, K: op.K, N: op.N, T: op.T, St: int(st), En: pendingEnd, Rs: "none", P: true}
					mu.Unlock()
					ret := call(ls, ctx, op)
					en := atomic.AddInt64(&clock, 1)
					mu.Lock()
					running[s] = nil
					results[s] = append(results[s], Call{S: id, K: op.K, N: op.N, T: op.T, St: int(st), En: int(en), Rs: ret.S, Ri: ret.I})
					mu.Unlock()
				}
			}(s)
		}
		atomic.StoreInt32(&startFlag, 1)
		finished := make(chan struct{})
		go func() { wg.Wait(); close(finished) }()
		select {
		case <-finished:
		case <-time.After(historyDeadline):
			// some call does not return (e.g. an untimed Lock on a lock nobody will release)
			abandoned++
			atomic.StoreInt32(&abandon, 1)
			<-finished
			atomic.StoreInt32(&abandon, 0)
		}
		var calls []Call
		mu.Lock()
		for s := range results {
			calls = append(calls, results[s]...)
			if running[s] != nil {
				calls = append(calls, *running[s])
			}
		}
		mu.Unlock()
		// when everybody has released everything every lock must be free: observed by session 1
		for _, nm := range names {
			st := atomic.AddInt64(&clock, 1)
			ret := stateOf(ls, nm)
			en := atomic.AddInt64(&clock, 1)
			calls = append(calls, Call{S: 1, K: "state", N: nm, T: "na", St: int(st), En: int(en), Rs: ret.S, Ri: ret.I})
		}
		sort.Slice(calls, func(i, j int) bool { return calls[i].St < calls[j].St })
		ov := false
		for i := range calls {
			byKind[calls[i].K]++
			if calls[i].Rs == "timeout" {
				timeouts++
			}
			if calls[i].Rs == "false" || calls[i].Rs == "timeout" {
				contended++
			}
			if i > 0 && calls[i].St < calls[i-1].En {
				ov = true
			}
		}
		if ov {
			overlapping++
			rep.Nontrivial++
		}
		rep.Cases += len(calls)
		hw.Write(History{H: h, Calls: calls})
		if len(rep.Samples) < 2 && ov {
			rep.Samples = append(rep.Samples, History{H: h, Calls: calls})
		}
		written = h
		if abandoned >= 3 {
			break // calls keep hanging: what is recorded so far is enough to judge
		}
	}
	rep.Extra["histories"] = written
	rep.Extra["histories_abandoned"] = abandoned
	rep.Extra["histories_with_overlapping_calls"] = overlapping
	rep.Extra["by_kind"] = byKind
	rep.Extra["timeouts"] = timeouts
	rep.Extra["failed_acquires"] = contended
}

func main() {
	mode := flag.String("mode", "gated", "gated | free")
	file := flag.String("file", "", "gated: behaviours (ndjson of LockSubsystem!Emit records)")
	history := flag.String("history", "", "gated: also write the real call histories here; free: output file")
	sessF := flag.String("sessions", "1,2,3", "session ids")
	namesF := flag.String("names", "a,b", "free: lock names")
	n := flag.Int("n", 200, "free: number of histories")
	calls := flag.Int("calls", 12, "free: calls per history (split over the sessions)")
	seed := flag.Int64("seed", 1, "")
	flag.Parse()
	var sessions []int
	if err := json.Unmarshal([]byte("["+*sessF+"]"), &sessions); err != nil {
		vio.Fatal("bad -sessions")
	}
	rep := &vio.Report{Extra: map[string]interface{}{}}
	if !verifhook.Enabled {
		vio.Fatal("built without -tags verif")
	}
	switch *mode {
	case "gated":
		gated(*file, *history, sessions, rep)
	case "free":
		if *history == "" {
			vio.Fatal("-history required")
		}
		free(*history, *n, len(sessions), *calls, strings.Split(*namesF, ","), *seed, rep)
	default:
		vio.Fatal("unknown mode")
	}
	if len(rep.Mismatches) > 50 {
		rep.Extra["mismatches_total"] = len(rep.Mismatches)
		rep.Mismatches = rep.Mismatches[:50]
	}
	rep.Emit()
	os.Stdout.Sync()
}
