// c52: binding A of C52 (geometry round trips through WKT / WKB / storage, structure accessors,
// spatial index lookups vs. predicate).  Input: cases printed by TLC (spec/MC_GeometryCases.tla):
//
//	{srid, wkt, kind, exp: {<check name>: <text the SQL function must return>},
//	 idx: {mixed, rows: [{id, wkt}], qs: [{pred, wkt, exp: [ids]}]}}
//
// For every entry of exp the driver runs the SQL query registered under that name (built from the
// case's WKT text and SRID) and compares the result TEXT with TLC's expectation; for the index case
// it loads the rows into a table with a SPATIAL KEY and into a twin without one, runs every query on
// both and compares the id lists with TLC's.  It interprets no geometry.
package main

import (
	"encoding/json"
	"flag"
	"fmt"
	"math"
	"sort"
	"strconv"
	"strings"
	"time"

	"gmsverif/lib/eng"
	"gmsverif/lib/vio"
)

type IdxRow struct {
	ID  int    `json:"id"`
	WKT string `json:"wkt"`
}

type IdxQ struct {
	Pred string `json:"pred"`
	WKT  string `json:"wkt"`
	Exp  []int  `json:"exp"`
	// ExpWeak: TLC's expectation without the rectangle pairs that only cross; used to name a disagreement
	ExpWeak []int `json:"expweak"`
}

type Idx struct {
	Mixed bool     `json:"mixed"`
	Rows  []IdxRow `json:"rows"`
	Qs    []IdxQ   `json:"qs"`
}

type Case struct {
	SRID int               `json:"srid"`
	WKT  string            `json:"wkt"`
	Kind string            `json:"kind"`
	Tags []string          `json:"tags"`
	Exp  map[string]string `json:"exp"`
	Idx  Idx               `json:"idx"`
}

// queries: check name -> SQL with %G = ST_GeomFromText('<wkt>', srid), %S = srid
var queries = map[string]string{
	"rt_text":     "SELECT ST_AsText(%G)",
	"rt_text2":    "SELECT ST_AsText(ST_GeomFromText(ST_AsText(%G), %S))",
	"rt_wkb":      "SELECT ST_AsText(ST_GeomFromWKB(ST_AsWKB(%G), %S))",
	"rt_wkb_srid": "SELECT ST_SRID(ST_GeomFromWKB(ST_AsWKB(%G), %S))",
	"srid":        "SELECT ST_SRID(%G)",
	"type":        "SELECT ST_GeometryType(%G)",
	"dim":         "SELECT ST_Dimension(%G)",
	"x":           "SELECT ST_X(%G)",
	"y":           "SELECT ST_Y(%G)",
	"lat":         "SELECT ST_Latitude(%G)",
	"lon":         "SELECT ST_Longitude(%G)",
	"numpoints":   "SELECT ST_NumPoints(%G)",
	"startpoint":  "SELECT ST_AsText(ST_StartPoint(%G))",
	"endpoint":    "SELECT ST_AsText(ST_EndPoint(%G))",
	"isclosed":    "SELECT ST_IsClosed(%G)",
	"pointn2":     "SELECT ST_AsText(ST_PointN(%G, 2))",
	"extring":     "SELECT ST_AsText(ST_ExteriorRing(%G))",
	"numintrings": "SELECT ST_NumInteriorRings(%G)",
	"intring1":    "SELECT ST_AsText(ST_InteriorRingN(%G, 1))",
	"numgeoms":    "SELECT ST_NumGeometries(%G)",
	"geomn1":      "SELECT ST_AsText(ST_GeometryN(%G, 1))",
	"geomnlast":   "SELECT ST_AsText(ST_GeometryN(%G, ST_NumGeometries(%G)))",
	// rt_store / rt_store_srid: through a GEOMETRY column (serialisation of sql/types)
}

func lit(s string) string { return "'" + strings.ReplaceAll(s, "'", "''") + "'" }

// text renders one result value (representation only).
func text(v interface{}) string {
	switch x := v.(type) {
	case nil:
		return "NULL"
	case bool:
		if x {
			return "1"
		}
		return "0"
	case string:
		return x
	case []byte:
		return string(x)
	case float64:
		if x == math.Trunc(x) && math.Abs(x) < 1e15 {
			return strconv.FormatInt(int64(x), 10)
		}
		return strconv.FormatFloat(x, 'g', -1, 64)
	case float32:
		return text(float64(x))
	}
	return fmt.Sprint(v)
}

func one(s *eng.Session, q string) string {
	r := s.Exec(q)
	if r.Kind != "rows" {
		return r.Kind + ": " + r.Msg
	}
	if len(r.Raw) != 1 || len(r.Raw[0]) != 1 {
		return fmt.Sprintf("unexpected shape: %d rows", len(r.Raw))
	}
	return text(r.Raw[0][0])
}

func ids(s *eng.Session, q string) ([]int, string) {
	r := s.Exec(q)
	if r.Kind != "rows" {
		return []int{}, r.Kind + ": " + r.Msg
	}
	out := []int{}
	for _, row := range r.Raw {
		n, err := strconv.Atoi(text(row[0]))
		if err != nil {
			return []int{}, "unexpected id " + text(row[0])
		}
		out = append(out, n)
	}
	return out, ""
}

func same(a, b []int) bool {
	if len(a) != len(b) {
		return false
	}
	for i := range a {
		if a[i] != b[i] {
			return false
		}
	}
	return true
}

func errClass(got string) string {
	if strings.HasPrefix(got, "err: ") || strings.HasPrefix(got, "panic: ") {
		return strings.SplitN(got, ":", 2)[0]
	}
	return "value"
}

func main() {
	in := flag.String("in", "", "cases ndjson")
	only := flag.String("only", "", "comma separated case indexes")
	flag.Parse()
	keep := map[int]bool{}
	for _, f := range strings.Split(*only, ",") {
		if f != "" {
			n, _ := strconv.Atoi(f)
			keep[n] = true
		}
	}
	rep := &vio.Report{Extra: map[string]interface{}{}}
	done := make(chan bool, 1)
	go func() {
		run(*in, keep, rep)
		done <- true
	}()
	// watchdog on progress: a hang is 180 s without a finished case
	last, lastAt := -1, time.Now()
	for running := true; running; {
		select {
		case <-done:
			running = false
		case <-time.After(5 * time.Second):
			if rep.Cases != last {
				last, lastAt = rep.Cases, time.Now()
			} else if time.Since(lastAt) > 180*time.Second {
				vio.Fatal("engine hung")
			}
		}
	}
	rep.Emit()
}

func run(in string, keep map[int]bool, rep *vio.Report) {
	db := eng.New()
	s := db.NewSession()
	s.MustExec("CREATE TABLE gs (k INT PRIMARY KEY, g GEOMETRY)")
	nchecks, nidx := 0, 0
	plans := map[string]int{}
	byKind := map[string]int{}
	seen := map[string]bool{}
	err := vio.ReadNDJSON(in, func(i int, line []byte) error {
		if len(keep) > 0 && !keep[i] {
			return nil
		}
		var c Case
		if err := json.Unmarshal(line, &c); err != nil {
			return err
		}
		rep.Cases++
		byKind[c.Kind]++
		if !seen[c.WKT] {
			seen[c.WKT] = true
			rep.Nontrivial++
		}
		g := fmt.Sprintf("ST_GeomFromText(%s, %d)", lit(c.WKT), c.SRID)
		mismatch := func(name, sql, exp, got string) {
			rep.Mismatches = append(rep.Mismatches, vio.Mismatch{Case: i, Signature: fmt.Sprintf("C52|geom|%s|%s|kind=%s|srid=%d|tags=%s", name, errClass(got), c.Kind, c.SRID, strings.Join(c.Tags, "+")),
				Expected: exp, Got: got, Input: map[string]interface{}{"sql": sql, "wkt": c.WKT, "srid": c.SRID, "check": name}})
		}
		names := make([]string, 0, len(c.Exp))
		for name := range c.Exp {
			names = append(names, name)
		}
		sort.Strings(names)
		stored := false
		for _, name := range names {
			exp := c.Exp[name]
			nchecks++
			if name == "rt_store" || name == "rt_store_srid" {
				if !stored {
					s.Exec("DELETE FROM gs")
					if r := s.Exec("INSERT INTO gs VALUES (1, " + g + ")"); r.Kind != "ok" {
						mismatch(name, "INSERT INTO gs VALUES (1, "+g+")", exp, r.Kind+": "+r.Msg)
						continue
					}
					stored = true
				}
				q := "SELECT ST_AsText(g) FROM gs WHERE k = 1"
				if name == "rt_store_srid" {
					q = "SELECT ST_SRID(g) FROM gs WHERE k = 1"
				}
				if got := one(s, q); got != exp {
					mismatch(name, "INSERT INTO gs VALUES (1, "+g+"); "+q, exp, got)
				}
				continue
			}
			tmpl, ok := queries[name]
			if !ok {
				vio.Fatal("no query registered for check %q", name)
			}
			q := strings.ReplaceAll(strings.ReplaceAll(tmpl, "%G", g), "%S", strconv.Itoa(c.SRID))
			if got := one(s, q); got != exp {
				mismatch(name, q, exp, got)
			}
		}
		if len(rep.Samples) < 3 && (c.Kind == "gc" || c.Kind == "pg" || c.Kind == "mpt") && len(c.WKT) < 200 {
			rep.Samples = append(rep.Samples, map[string]interface{}{"wkt": c.WKT, "srid": c.SRID, "expected": c.Exp})
		}

		// ---- spatial index vs. twin vs. specification
		s.Exec("DROP TABLE IF EXISTS g")
		s.Exec("DROP TABLE IF EXISTS h")
		s.MustExec("CREATE TABLE g (id INT PRIMARY KEY, p GEOMETRY NOT NULL SRID 0, SPATIAL KEY (p))")
		s.MustExec("CREATE TABLE h (id INT PRIMARY KEY, p GEOMETRY NOT NULL SRID 0)")
		for _, r := range c.Idx.Rows {
			v := fmt.Sprintf("(%d, ST_GeomFromText(%s))", r.ID, lit(r.WKT))
			s.MustExec("INSERT INTO g VALUES " + v)
			s.MustExec("INSERT INTO h VALUES " + v)
		}
		for k, q := range c.Idx.Qs {
			nidx++
			exp := append([]int{}, q.Exp...)
			sort.Ints(exp)
			fn := "ST_Intersects"
			if q.Pred == "within" {
				fn = "ST_Within"
			}
			pred := fmt.Sprintf("%s(p, ST_GeomFromText(%s))", fn, lit(q.WKT))
			for _, tb := range []string{"g", "h"} {
				sql := "SELECT id FROM " + tb + " WHERE " + pred + " ORDER BY id"
				got, msg := ids(s, sql)
				if msg != "" || !same(got, exp) {
					kind := "wrong-ids"
					if msg != "" {
						kind = "error"
					} else if weak := append([]int{}, q.ExpWeak...); len(weak) < len(exp) && func() bool { sort.Ints(weak); return same(got, weak) }() {
						kind = "missing-cross-only"
					} else if len(got) < len(exp) {
						kind = "missing"
					} else if len(got) > len(exp) {
						kind = "extra"
					}
					where := "indexed"
					if tb == "h" {
						where = "twin"
					}
					rep.Mismatches = append(rep.Mismatches, vio.Mismatch{Case: i, Signature: fmt.Sprintf("C52|index|%s|%s|%s|mixed=%v", where, q.Pred, kind, c.Idx.Mixed),
						Expected: exp, Got: map[string]interface{}{"ids": got, "err": msg},
						Input: map[string]interface{}{"sql": sql, "rows": c.Idx.Rows, "query": k, "check": "index"}})
				}
			}
			r := s.Exec("EXPLAIN PLAN SELECT id FROM g WHERE " + pred + " ORDER BY id")
			if r.Kind == "rows" {
				txt := fmt.Sprint(r.Raw)
				switch {
				case strings.Contains(txt, "IndexedTableAccess(g)") && strings.Contains(txt, "index: [g.p]"):
					plans["spatial-index:"+q.Pred]++
				case strings.Contains(txt, "IndexedTableAccess"):
					plans["other-index:"+q.Pred]++
				default:
					plans["scan:"+q.Pred]++
				}
			}
		}
		if len(rep.Samples) < 4 && len(c.Idx.Qs) > 0 && len(c.Idx.Qs[0].Exp) > 0 {
			rep.Samples = append(rep.Samples, map[string]interface{}{"index_rows": c.Idx.Rows, "query": c.Idx.Qs[0]})
		}
		return nil
	})
	if err != nil {
		vio.Fatal("%v", err)
	}
	rep.Extra["checks"] = nchecks
	rep.Extra["index_queries"] = nidx
	rep.Extra["plans"] = plans
	rep.Extra["kinds"] = byKind
}
