// c49: binds spec/SimilarText.tla to the real internal/similartext package.
//
//	replay -file cases.ndjson            binding A: every TLC-enumerated case (with the set of
//	                                     suggestion sets the specification allows) is run on the
//	                                     real Find and FindFromMap; the suggested SET must be a
//	                                     member of `allowed`.
//	gen -seed S -n N -out trace.ndjson   binding B: seeded random longer names / candidate lists are
//	                                     run on the real code and recorded; Trace_SimilarText.tla
//	                                     decides.
//	record -file in.ndjson -out t.ndjson re-runs recorded inputs (used to confirm a mismatch in a
//	                                     fresh process).
//
// The Go side never computes an edit distance: expectations come from TLC.
package main

import (
	"encoding/json"
	"flag"
	"fmt"
	"math/rand"
	"os"
	"sort"
	"strings"

	_ "unsafe" // go:linkname

	"gmsverif/lib/vio"

	// internal/similartext cannot be imported from outside the go-mysql-server module; importing
	// package sql links it into the binary and the two functions are bound by name (stub.s allows
	// the body-less declarations).  The code that runs is /repo's (or a mutant overlay's) package.
	_ "github.com/dolthub/go-mysql-server/sql"
)

//go:linkname similarFind github.com/dolthub/go-mysql-server/internal/similartext.Find
func similarFind(names []string, src string) string

//go:linkname similarFindFromMap github.com/dolthub/go-mysql-server/internal/similartext.FindFromMap
func similarFindFromMap(names interface{}, src string) string

const (
	prefix = ", maybe you mean "
	suffix = "?"
	sep    = " or "
)

// parse turns Find's rendering into the set of suggested names (sorted, deduplicated).
func parse(s string) ([]string, error) {
	if s == "" {
		return []string{}, nil
	}
	if !strings.HasPrefix(s, prefix) || !strings.HasSuffix(s, suffix) {
		return nil, fmt.Errorf("unexpected rendering %q", s)
	}
	inner := s[len(prefix) : len(s)-len(suffix)]
	set := map[string]bool{}
	for _, p := range strings.Split(inner, sep) {
		set[p] = true
	}
	return keys(set), nil
}

func keys(m map[string]bool) []string {
	out := make([]string, 0, len(m))
	for k := range m {
		out = append(out, k)
	}
	sort.Strings(out)
	return out
}

// suggest runs the two real entry points; a panic is reported as an outcome, never swallowed.
func suggest(cands []string, name string) (find, fromMap []string, err error) {
	defer func() {
		if r := recover(); r != nil {
			err = fmt.Errorf("panic: %v", r)
		}
	}()
	find, err = parse(similarFind(append([]string{}, cands...), name))
	if err != nil {
		return nil, nil, err
	}
	m := map[string]int{}
	for i, c := range cands {
		m[c] = i
	}
	fromMap, err = parse(similarFindFromMap(m, name))
	return find, fromMap, err
}

type Case struct {
	Name    string     `json:"name"`
	Cands   []string   `json:"cands"`
	Allowed [][]string `json:"allowed"`
	QID     []string   `json:"qID"`
	CID     []string   `json:"cID"`
	QLev    []string   `json:"qLev"`
	CLev    []string   `json:"cLev"`
	NT      bool       `json:"nt"`
}

func sameSet(a, b []string) bool {
	if len(a) != len(b) {
		return false
	}
	x := append([]string{}, a...)
	y := append([]string{}, b...)
	sort.Strings(x)
	sort.Strings(y)
	for i := range x {
		if x[i] != y[i] {
			return false
		}
	}
	return true
}

func subset(a, b []string) bool {
	in := map[string]bool{}
	for _, x := range b {
		in[x] = true
	}
	for _, x := range a {
		if !in[x] {
			return false
		}
	}
	return true
}

// okSets mirrors the shape of the spec's OkSets on TLC-provided sets; used for the signature and
// for the "which metric explains the tree" statistic only, never for the verdict.
func okSets(s, q, c []string) bool { return (len(s) == 0) == (len(q) == 0) && subset(s, c) }

func classify(c Case, s []string) string {
	switch {
	case len(s) == 0:
		return "missing"
	case !subset(s, c.QLev) && !subset(s, c.QID):
		return "not-qualifying"
	}
	return "not-closest"
}

func replay(file string) {
	rep := &vio.Report{Extra: map[string]interface{}{}}
	explained := map[string]int{"DistID": 0, "DistLev": 0, "empty-name": 0, "DistID-or-empty-name": 0}
	nonempty := 0
	err := vio.ReadNDJSON(file, func(i int, line []byte) error {
		var c Case
		if err := json.Unmarshal(line, &c); err != nil {
			return err
		}
		rep.Cases++
		if c.NT {
			rep.Nontrivial++
		}
		find, fromMap, err := suggest(c.Cands, c.Name)
		if err != nil {
			rep.Mismatches = append(rep.Mismatches, vio.Mismatch{Case: i, Signature: "error", Expected: c.Allowed, Got: err.Error(), Input: c})
			return nil
		}
		for _, o := range []struct {
			api string
			s   []string
		}{{"Find", find}, {"FindFromMap", fromMap}} {
			ok := false
			for _, a := range c.Allowed {
				if sameSet(a, o.s) {
					ok = true
				}
			}
			if !ok {
				rep.Mismatches = append(rep.Mismatches, vio.Mismatch{Case: i, Signature: o.api + "/" + classify(c, o.s), Expected: c.Allowed, Got: o.s, Input: c})
			}
		}
		if len(find) > 0 {
			nonempty++
		}
		if okSets(find, c.QID, c.CID) {
			explained["DistID"]++
		}
		if okSets(find, c.QLev, c.CLev) {
			explained["DistLev"]++
		}
		if c.Name == "" && len(find) == 0 {
			explained["empty-name"]++
		}
		if okSets(find, c.QID, c.CID) || (c.Name == "" && len(find) == 0) {
			explained["DistID-or-empty-name"]++
		}
		if len(rep.Samples) < 3 && c.NT && len(c.Cands) >= 2 && i%997 == 0 {
			rep.Samples = append(rep.Samples, map[string]interface{}{"name": c.Name, "cands": c.Cands, "allowed": c.Allowed, "Find": find, "FindFromMap": fromMap})
		}
		return nil
	})
	if err != nil {
		vio.Fatal("%v", err)
	}
	rep.Extra["explained_by"] = explained
	rep.Extra["nonempty_suggestions"] = nonempty
	if len(rep.Mismatches) > 50 {
		rep.Extra["mismatches_total"] = len(rep.Mismatches)
		rep.Mismatches = rep.Mismatches[:50]
	}
	rep.Emit()
}

// ---- binding B: recorded cases ------------------------------------------------------------------

// Line is one recorded call; names are arrays of one-character strings (TLC cannot index strings).
type Line struct {
	Name  []string   `json:"name"`
	Cands [][]string `json:"cands"`
	Find  [][]string `json:"find"`
	Map   [][]string `json:"map"`
	Err   string     `json:"err"` // "" or a panic / unparseable rendering (never allowed by the spec)
}

func chars(s string) []string {
	out := make([]string, 0, len(s))
	for i := 0; i < len(s); i++ {
		out = append(out, s[i:i+1])
	}
	return out
}

func charsAll(ss []string) [][]string {
	out := make([][]string, 0, len(ss))
	for _, s := range ss {
		out = append(out, chars(s))
	}
	return out
}

func joinAll(cs [][]string) []string {
	out := make([]string, 0, len(cs))
	for _, c := range cs {
		out = append(out, strings.Join(c, ""))
	}
	return out
}

func recordOne(name string, cands []string) Line {
	find, fromMap, err := suggest(cands, name)
	l := Line{Name: chars(name), Cands: charsAll(cands), Find: charsAll(find), Map: charsAll(fromMap)}
	if err != nil {
		l.Err = err.Error()
	}
	return l
}

func randStr(rng *rand.Rand, alpha string, maxLen int) string {
	n := rng.Intn(maxLen + 1)
	b := make([]byte, n)
	for i := range b {
		b[i] = alpha[rng.Intn(len(alpha))]
	}
	return string(b)
}

// mutate applies k random single-character edits, keeping the length within maxLen.
func mutate(rng *rand.Rand, s, alpha string, k, maxLen int) string {
	b := []byte(s)
	for ; k > 0; k-- {
		switch op := rng.Intn(3); {
		case op == 0 && len(b) < maxLen: // insert
			p := rng.Intn(len(b) + 1)
			b = append(b[:p], append([]byte{alpha[rng.Intn(len(alpha))]}, b[p:]...)...)
		case op == 1 && len(b) > 0: // delete
			p := rng.Intn(len(b))
			b = append(b[:p], b[p+1:]...)
		case len(b) > 0: // substitute
			b[rng.Intn(len(b))] = alpha[rng.Intn(len(alpha))]
		}
	}
	return string(b)
}

func gen(seed int64, n, maxLen, maxCands int, out string) {
	rng := rand.New(rand.NewSource(seed))
	w, err := vio.NewWriter(out)
	if err != nil {
		vio.Fatal("%v", err)
	}
	rep := &vio.Report{Extra: map[string]interface{}{}}
	nonempty := 0
	for i := 0; i < n; i++ {
		alpha := "abcd"[:3+rng.Intn(2)]
		name := randStr(rng, alpha, maxLen)
		if name == "" && rng.Intn(4) != 0 { // keep a few empty given names only
			name = randStr(rng, alpha, maxLen-1) + alpha[:1]
		}
		cands := make([]string, 0, maxCands)
		for k := rng.Intn(maxCands + 1); k > 0; k-- {
			if rng.Intn(10) < 7 {
				cands = append(cands, mutate(rng, name, alpha, rng.Intn(5), maxLen))
			} else {
				cands = append(cands, randStr(rng, alpha, maxLen))
			}
		}
		l := recordOne(name, cands)
		w.Write(l)
		rep.Cases++
		if len(l.Find) > 0 {
			nonempty++
		}
		if len(rep.Samples) < 3 && len(l.Find) > 0 && len(cands) >= 3 {
			rep.Samples = append(rep.Samples, map[string]interface{}{"name": name, "cands": cands, "Find": joinAll(l.Find), "FindFromMap": joinAll(l.Map)})
		}
	}
	if err := w.Close(); err != nil {
		vio.Fatal("%v", err)
	}
	rep.Nontrivial = nonempty
	rep.Extra["nonempty_suggestions"] = nonempty
	rep.Emit()
}

func record(file, out string) {
	w, err := vio.NewWriter(out)
	if err != nil {
		vio.Fatal("%v", err)
	}
	rep := &vio.Report{}
	err = vio.ReadNDJSON(file, func(i int, line []byte) error {
		var l Line
		if err := json.Unmarshal(line, &l); err != nil {
			return err
		}
		w.Write(recordOne(strings.Join(l.Name, ""), joinAll(l.Cands)))
		rep.Cases++
		return nil
	})
	if err != nil {
		vio.Fatal("%v", err)
	}
	if err := w.Close(); err != nil {
		vio.Fatal("%v", err)
	}
	rep.Emit()
}

func main() {
	if len(os.Args) < 2 {
		vio.Fatal("usage: c49 replay|gen|record ...")
	}
	fs := flag.NewFlagSet(os.Args[1], flag.ExitOnError)
	file := fs.String("file", "", "input ndjson")
	out := fs.String("out", "", "output ndjson")
	seed := fs.Int64("seed", 1, "")
	n := fs.Int("n", 1000, "random cases")
	maxLen := fs.Int("maxlen", 7, "")
	maxCands := fs.Int("maxcands", 5, "")
	fs.Parse(os.Args[2:])
	switch os.Args[1] {
	case "replay":
		replay(*file)
	case "gen":
		gen(*seed, *n, *maxLen, *maxCands, *out)
	case "record":
		record(*file, *out)
	default:
		vio.Fatal("unknown subcommand %s", os.Args[1])
	}
}
