// c48: runs the task-tree configurations enumerated by TLC from spec/ErrGuard.tla on the real
// errguard.Go / errguard.RecoverAndLog and records what the process observed (binding B of C48).
//
//	run   -file cases.ndjson -out trace.ndjson -seed S
//	      parent: re-executes itself as `child`; the child prints a flushed "B <k>" marker before
//	      case k and "E <k> <json>" after it.  A child that dies (or stalls) after "B k" makes the
//	      outcome of case k "crash" ("hang"), and a new child continues with case k+1.
//	child -file cases.ndjson -from K -seed S
//
// The verdict is not taken here: Trace_ErrGuard.tla decides whether each recorded outcome is in the
// set the specification allows.
package main

import (
	"bufio"
	"encoding/json"
	"errors"
	"flag"
	"fmt"
	"io"
	"math/rand"
	"os"
	"os/exec"
	"runtime"
	"strconv"
	"strings"
	"sync"
	"time"

	"gmsverif/lib/vio"

	"github.com/dolthub/go-mysql-server/errguard"
	"github.com/sirupsen/logrus"
	"golang.org/x/sync/errgroup"
)

type Ending struct {
	K string `json:"k"` // nil | err | panic
	V string `json:"v"` // kind of panic value
}

type Task struct {
	P int    `json:"p"`
	M string `json:"m"` // group | inner | log
	E Ending `json:"e"`
}

type Case struct {
	Key   string `json:"key"`
	Tasks []Task `json:"tasks"`
	// Gate, when present, is a completion order recorded by an earlier run: the tasks are released
	// one after the other in that order (used to re-run a mismatch under the schedule that showed it).
	Gate []int `json:"gate,omitempty"`
}

// Out is what the root Wait returned, classified against the tasks' own error values.
type Out struct {
	K        string `json:"k"`        // nil | err (identical to task T's error value) | other | crash | hang
	T        int    `json:"t"`        // for err
	Mentions []int  `json:"mentions"` // for other: panicking tasks whose panic value's %v text occurs in the message
	Is       []int  `json:"is"`       // for other: tasks whose error value the result wraps (errors.Is)
	Msg      string `json:"msg"`
}

type Line struct {
	Key     string `json:"key"`
	Tasks   []Task `json:"tasks"`
	Out     Out    `json:"out"`
	Logged  []int  `json:"logged"`  // log tasks for which RecoverAndLog logged their panic value
	BadLogs int    `json:"badlogs"` // log entries that belong to no panicking log task
	Order   []int  `json:"order"`   // the order in which the tasks reached their end
}

// taskErr is the distinct error value task I returns (identity is what "unchanged" means).
type taskErr struct{ I int }

func (e *taskErr) Error() string { return "task-error-T" + strconv.Itoa(e.I) }

var sink int

// doPanic panics with a value of the given kind; i makes the value specific to the task where the
// kind allows it.
func doPanic(kind string, i int) {
	switch kind {
	case "string":
		panic("boom-T" + strconv.Itoa(i))
	case "error":
		panic(fmt.Errorf("perr-T%d", i))
	case "nilmap":
		var m map[string]int
		m["k"+strconv.Itoa(i)] = i // runtime error: assignment to entry in nil map
	case "index":
		s := make([]int, 3)
		sink = s[10+i] // runtime error: index out of range
	case "nilptr":
		var p *taskErr
		sink = p.I // runtime error: invalid memory address or nil pointer dereference
	case "nil":
		panic(nil)
	case "nilerr":
		var e error
		panic(e)
	case "typednil":
		var p *taskErr
		panic(error(p)) // non-nil interface holding a nil pointer
	case "int":
		panic(4200 + i)
	default:
		vio.Fatal("unknown panic kind %q", kind)
	}
	vio.Fatal("panic kind %q did not panic", kind)
}

// rendering is the %v text of the value a panic of this kind carries (obtained by recovering the
// same panic here, outside errguard).
func rendering(kind string, i int) (s string) {
	defer func() { s = fmt.Sprintf("%v", recover()) }()
	doPanic(kind, i)
	return
}

type logHook struct {
	mu   sync.Mutex
	msgs []string
}

func (h *logHook) Levels() []logrus.Level { return logrus.AllLevels }
func (h *logHook) Fire(e *logrus.Entry) error {
	h.mu.Lock()
	h.msgs = append(h.msgs, e.Message)
	h.mu.Unlock()
	return nil
}
func (h *logHook) take() []string {
	h.mu.Lock()
	defer h.mu.Unlock()
	m := h.msgs
	h.msgs = nil
	return m
}

var hook = &logHook{}

func firstLine(s string) string {
	if i := strings.IndexByte(s, '\n'); i >= 0 {
		s = s[:i]
	}
	if len(s) > 200 {
		s = s[:200]
	}
	return s
}

// runCase builds the goroutine tree of c on the real errguard and returns what was observed.
func runCase(c Case, rng *rand.Rand) Line {
	n := len(c.Tasks)
	errs := make([]*taskErr, n+1)
	yields := make([]int, n+1)
	delays := make([]int, n+1)
	kids := make([][]int, n+1)
	for i := 1; i <= n; i++ {
		errs[i] = &taskErr{i}
		yields[i] = rng.Intn(4)
		delays[i] = rng.Intn(3)
		kids[c.Tasks[i-1].P] = append(kids[c.Tasks[i-1].P], i)
	}
	// gating: turn[i] is closed when task i may end; without a recorded order every task is free
	turn := make([]chan struct{}, n+1)
	nextOf := make([]int, n+1)
	for i := 1; i <= n; i++ {
		turn[i] = make(chan struct{})
	}
	gated := map[int]bool{}
	for pos, i := range c.Gate {
		if i < 1 || i > n || gated[i] {
			vio.Fatal("bad gate %v", c.Gate)
		}
		gated[i] = true
		if pos+1 < len(c.Gate) {
			nextOf[i] = c.Gate[pos+1]
		}
	}
	for i := 1; i <= n; i++ {
		if !gated[i] || i == c.Gate[0] {
			close(turn[i])
		}
	}
	var mu sync.Mutex
	order := []int{}
	var logwg sync.WaitGroup
	end := func(i int, inner error) error {
		if gated[i] {
			<-turn[i]
			time.Sleep(gateSettle) // let the predecessor's wrapper hand its result to the group
			if nx := nextOf[i]; nx != 0 {
				defer close(turn[nx]) // also runs while a panic unwinds
			}
		} else {
			for k := 0; k < yields[i]; k++ {
				runtime.Gosched()
			}
			time.Sleep(time.Duration(delays[i]) * 30 * time.Microsecond)
		}
		mu.Lock()
		order = append(order, i)
		mu.Unlock()
		switch e := c.Tasks[i-1].E; e.K {
		case "err":
			return errs[i]
		case "panic":
			doPanic(e.V, i)
		}
		return inner
	}
	var spawn func(i int, g *errgroup.Group)
	body := func(i int, g *errgroup.Group) func() error {
		return func() error {
			ig := new(errgroup.Group)
			hasInner := false
			for _, k := range kids[i] {
				switch c.Tasks[k-1].M {
				case "inner":
					hasInner = true
					spawn(k, ig)
				default:
					spawn(k, g)
				}
			}
			var inner error
			if hasInner {
				inner = ig.Wait()
			}
			return end(i, inner)
		}
	}
	spawn = func(i int, g *errgroup.Group) {
		if c.Tasks[i-1].M == "log" {
			logwg.Add(1)
			go func() {
				defer logwg.Done()
				func() {
					defer errguard.RecoverAndLog("log-T" + strconv.Itoa(i))
					end(i, nil)
				}()
			}()
			return
		}
		errguard.Go(g, body(i, g))
	}
	base := runtime.NumGoroutine()
	root := new(errgroup.Group)
	for _, k := range kids[0] {
		spawn(k, root)
	}
	err := root.Wait()
	logwg.Wait()
	// errgroup's deferred done() also runs while an unrecovered panic unwinds, so Wait can return
	// a moment before the process dies: the case is over only when all its goroutines are gone
	// (a dying process never gets there, and the death is attributed to this case).
	for t0 := time.Now(); runtime.NumGoroutine() > base && time.Since(t0) < 2*time.Second; {
		time.Sleep(20 * time.Microsecond)
	}

	mu.Lock()
	l := Line{Key: c.Key, Tasks: c.Tasks, Out: Out{Mentions: []int{}, Is: []int{}}, Logged: []int{}, Order: append([]int{}, order...)}
	mu.Unlock()
	switch {
	case err == nil:
		l.Out.K = "nil"
	default:
		l.Out.K = "other"
		l.Out.Msg = firstLine(err.Error())
		for i := 1; i <= n; i++ {
			if err == error(errs[i]) {
				l.Out.K, l.Out.T = "err", i
			}
		}
		if l.Out.K == "other" {
			for i := 1; i <= n; i++ {
				t := c.Tasks[i-1]
				if t.M != "log" && t.E.K == "panic" && strings.Contains(err.Error(), rendering(t.E.V, i)) {
					l.Out.Mentions = append(l.Out.Mentions, i)
				}
				if errors.Is(err, errs[i]) {
					l.Out.Is = append(l.Out.Is, i)
				}
			}
		}
	}
	for _, m := range hook.take() {
		matched := false
		for i := 1; i <= n; i++ {
			t := c.Tasks[i-1]
			if t.M == "log" && t.E.K == "panic" && strings.Contains(m, "log-T"+strconv.Itoa(i)) && strings.Contains(m, rendering(t.E.V, i)) {
				matched = true
				dup := false
				for _, x := range l.Logged {
					dup = dup || x == i
				}
				if !dup {
					l.Logged = append(l.Logged, i)
				}
			}
		}
		if !matched {
			l.BadLogs++
		}
	}
	return l
}

func loadCases(file string) []Case {
	var cs []Case
	err := vio.ReadNDJSON(file, func(i int, line []byte) error {
		var c Case
		if err := json.Unmarshal(line, &c); err != nil {
			return err
		}
		if c.Tasks == nil {
			c.Tasks = []Task{}
		}
		cs = append(cs, c)
		return nil
	})
	if err != nil {
		vio.Fatal("%v", err)
	}
	return cs
}

const (
	caseTimeout = 10 * time.Second
	gateSettle  = 3 * time.Millisecond
)

func child(file string, from int, seed int64) {
	logrus.SetOutput(io.Discard)
	logrus.AddHook(hook)
	cs := loadCases(file)
	for k := from; k < len(cs); k++ {
		fmt.Fprintf(os.Stdout, "B %d\n", k) // os.Stdout is unbuffered: the marker is out before the case runs
		rng := rand.New(rand.NewSource(seed*1000003 + int64(k)))
		res := make(chan Line, 1)
		go func() { res <- runCase(cs[k], rng) }()
		select {
		case l := <-res:
			b, _ := json.Marshal(l)
			fmt.Fprintf(os.Stdout, "E %d %s\n", k, b)
		case <-time.After(caseTimeout):
			os.Exit(7) // the parent attributes the stall to case k
		}
	}
}

func parent(file, out string, seed int64, maxDeaths int) {
	cs := loadCases(file)
	w, err := vio.NewWriter(out)
	if err != nil {
		vio.Fatal("%v", err)
	}
	rep := &vio.Report{Extra: map[string]interface{}{}}
	byOut := map[string]int{}
	children, crashes := 0, 0
	self, err := os.Executable()
	if err != nil {
		vio.Fatal("%v", err)
	}
	record := func(l Line) {
		w.Write(l)
		rep.Cases++
		byOut[l.Out.K]++
		nt := false
		for _, t := range l.Tasks {
			nt = nt || t.E.K != "nil"
		}
		if nt {
			rep.Nontrivial++
		}
		if len(rep.Samples) < 3 && len(l.Tasks) >= 3 && l.Out.K == "other" && rep.Cases%7 == 0 {
			rep.Samples = append(rep.Samples, l)
		}
	}
	next := 0
	aborted := false
	for next < len(cs) {
		if crashes >= maxDeaths {
			aborted = true // enough process deaths to decide; the remaining cases are not run
			break
		}
		children++
		if children > len(cs)+5 {
			vio.Fatal("too many child restarts")
		}
		cmd := exec.Command(self, "child", "-file", file, "-from", strconv.Itoa(next), "-seed", strconv.FormatInt(seed, 10))
		var stderr strings.Builder
		cmd.Stderr = &stderr
		pipe, err := cmd.StdoutPipe()
		if err != nil {
			vio.Fatal("%v", err)
		}
		if err := cmd.Start(); err != nil {
			vio.Fatal("%v", err)
		}
		begun := -1
		sc := bufio.NewScanner(pipe)
		sc.Buffer(make([]byte, 1<<20), 1<<26)
		for sc.Scan() {
			s := sc.Text()
			switch {
			case strings.HasPrefix(s, "B "):
				begun, _ = strconv.Atoi(s[2:])
			case strings.HasPrefix(s, "E "):
				parts := strings.SplitN(s, " ", 3)
				k, _ := strconv.Atoi(parts[1])
				var l Line
				if len(parts) != 3 || k != next || json.Unmarshal([]byte(parts[2]), &l) != nil {
					vio.Fatal("child protocol error at case %d: %q", next, s)
				}
				record(l)
				next++
				begun = -1
			}
		}
		werr := cmd.Wait()
		if next >= len(cs) && werr == nil {
			break
		}
		if begun != next {
			vio.Fatal("child ended (%v) outside a case (next=%d begun=%d): %s", werr, next, begun, firstLine(stderr.String()))
		}
		// the process ended between "B next" and "E next": that case killed (or stalled) it
		kind := "crash"
		if ee, ok := werr.(*exec.ExitError); ok && ee.ExitCode() == 7 {
			kind = "hang"
		}
		crashes++
		record(Line{Key: cs[next].Key, Tasks: cs[next].Tasks, Logged: []int{}, Order: []int{},
			Out: Out{K: kind, Mentions: []int{}, Is: []int{}, Msg: fmt.Sprintf("%v: %s", werr, firstLine(stderr.String()))}})
		next++
	}
	if err := w.Close(); err != nil {
		vio.Fatal("%v", err)
	}
	rep.Extra["by_outcome"] = byOut
	rep.Extra["child_processes"] = children
	rep.Extra["process_deaths"] = crashes
	rep.Extra["aborted_after_deaths"] = aborted
	rep.Emit()
}

func main() {
	if len(os.Args) < 2 {
		vio.Fatal("usage: c48 run|child ...")
	}
	fs := flag.NewFlagSet(os.Args[1], flag.ExitOnError)
	file := fs.String("file", "", "cases (ndjson of CASE records)")
	out := fs.String("out", "", "trace ndjson")
	from := fs.Int("from", 0, "")
	seed := fs.Int64("seed", 1, "")
	maxDeaths := fs.Int("maxdeaths", 40, "stop after this many cases killed or stalled the child")
	fs.Parse(os.Args[2:])
	switch os.Args[1] {
	case "run":
		parent(*file, *out, *seed, *maxDeaths)
	case "child":
		child(*file, *from, *seed)
	default:
		vio.Fatal("unknown subcommand %s", os.Args[1])
	}
}
