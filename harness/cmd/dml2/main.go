// dml2: driver of the checks C15 (a failed statement has no effect; storage-fault enumeration),
// C17 (transactions), C18 (foreign keys) and C23 (triggers).
//
//	-prop c15 -mode gen|exec   fault enumeration over steered dmlgen histories (spec/Trace_Faults.tla)
//	-prop c17 -mode gen|exec   multi-session transactional histories        (spec/Trace_Txn.tla)
//	-prop c18 -mode gen|exec   foreign-key histories                         (spec/Trace_FK.tla)
//	-prop c23 -mode gen|exec   trigger sets + DML                            (spec/Trace_Trig.tla)
//
// gen: seeded generators, one seed per history (so `-only h -upto id` re-runs one history alone);
// exec: histories produced elsewhere (TLC-simulated behaviours = binding A, witnesses of findings).
// The driver records events; it never judges anything: TLC does.
package main

import (
	"flag"
	"fmt"
	"os"

	"gmsverif/lib/vio"
)

type opts struct {
	mode   string
	seed   int64
	n      int
	from   int
	out    string
	in     string
	only   int
	upto   int
	maxk   int
	probes bool
	x      bool
}

var show = os.Getenv("DML_SHOW") != ""

func main() {
	var o opts
	prop := flag.String("prop", "c15", "c15 | c17 | c18 | c23")
	flag.StringVar(&o.mode, "mode", "gen", "gen | exec")
	flag.Int64Var(&o.seed, "seed", 1, "")
	flag.IntVar(&o.n, "n", 10, "number of histories (gen): histories from..from+n-1")
	flag.IntVar(&o.from, "from", 1, "first history number (gen)")
	flag.StringVar(&o.out, "out", "trace.ndjson", "")
	flag.StringVar(&o.in, "in", "", "histories to execute (exec)")
	flag.IntVar(&o.only, "only", -1, "run only this history (isolation re-run)")
	flag.IntVar(&o.upto, "upto", -1, "with -only: stop after the statement with this id")
	flag.IntVar(&o.maxk, "maxk", 12, "c15: largest fault position enumerated per statement")
	flag.BoolVar(&o.probes, "probes", true, "issue the index probes")
	flag.BoolVar(&o.x, "x", false, "c15 gen: the foreign-key / trigger histories (fault enumeration over cascades and trigger targets)")
	flag.Parse()
	w, err := vio.NewWriter(o.out)
	if err != nil {
		vio.Fatal("%v", err)
	}
	rep := &vio.Report{Extra: map[string]interface{}{}}
	switch *prop {
	case "c15":
		runC15(o, w, rep)
	case "c17":
		runC17(o, w, rep)
	case "c18":
		runC18(o, w, rep)
	case "c23":
		runC23(o, w, rep)
	default:
		vio.Fatal("unknown property %s", *prop)
	}
	w.Close()
	fmt.Fprintf(os.Stderr, "%s %s: %d cases, %d non-trivial\n", *prop, o.mode, rep.Cases, rep.Nontrivial)
	rep.Emit()
}
