package main

import "gmsverif/lib/vio"

func runC23(o opts, w *vio.Writer, rep *vio.Report) { vio.Fatal("c23 not built yet") }
