package main

import (
	"encoding/json"
	"fmt"
	"sort"

	"github.com/dolthub/go-mysql-server/verifhook"

	"gmsverif/lib/dml2"
	"gmsverif/lib/dml2gen"
	. "gmsverif/lib/dmlast"
	"gmsverif/lib/eng"
	"gmsverif/lib/vio"
)

// C17 — multi-session transactional histories, statement-granular interleaving in one goroutine,
// two or three sessions on ONE engine.  After every step the driver records what sessions see
// (SELECT * of every table): in a history whose transactions do not overlap, every session that is in
// plain autocommit mode (its read is a transaction of its own and opens nothing) and the acting
// session while it is inside its transaction; in an overlapping history every session.  The transaction events of the memory session
// (hook verifhook.EventFn: StartTransaction / CommitTransaction / Rollback) are recorded per step.

type c17View struct {
	S    int                  `json:"s"`
	Tabs map[string][][]Value `json:"tabs"`
}

type c17Hook struct {
	Name string `json:"name"`
	S    int    `json:"s"`
}

type c17Event struct {
	Ev      string            `json:"ev"`
	H       int               `json:"h"`
	Tabs    map[string]*Table `json:"tabs,omitempty"`
	Autoinc map[string]int    `json:"autoinc,omitempty"`
	Create  []string          `json:"create,omitempty"`
	NSess   int               `json:"nsess,omitempty"`
	Overlap bool              `json:"overlap"`
	ID      int               `json:"id,omitempty"`
	S       int               `json:"s,omitempty"`
	Op      string            `json:"op,omitempty"`
	Val     int               `json:"val"`
	Quiet   bool              `json:"quiet,omitempty"`
	Stmt    *Stmt             `json:"stmt,omitempty"`
	Reply   *dml2.Reply       `json:"reply,omitempty"`
	Views   []c17View         `json:"views"`
	Hook    []c17Hook         `json:"hook"`
	SQL     string            `json:"sql,omitempty"`
	Tags    []string          `json:"tags,omitempty"`
}

func c17SQL(st dml2gen.TxnStep, tabs map[string]*Table) string {
	switch st.Op {
	case "begin":
		return "BEGIN"
	case "start":
		return "START TRANSACTION"
	case "commit":
		return "COMMIT"
	case "rollback":
		return "ROLLBACK"
	case "ac":
		return fmt.Sprintf("SET autocommit = %d", st.Val)
	case "bad":
		// a statement that fails before it executes (unknown column): no effect, no transaction ended
		return "SELECT nosuchcolumn FROM " + st.Stmt.T
	}
	w := 0
	if t := tabs[st.Stmt.T]; t != nil {
		w = len(t.Cols)
	}
	return SQL(st.Stmt, w)
}

type c17Runner struct {
	o       opts
	w       *vio.Writer
	rep     *vio.Report
	ops     map[string]int
	kinds   map[string]int
	ovl     int
	changed int
	hookN   map[string]int
}

func (r *c17Runner) history(hn int, h *dml2gen.TxnHistory) {
	fx, create, err := dml2.NewFixture(h.Names, h.Tables)
	if err != nil {
		vio.Fatal("history %d: %v", hn, err)
	}
	sess := []*eng.Session{fx.Sess}
	for len(sess) < h.NSess {
		sess = append(sess, fx.DB.NewSession())
	}
	sid := map[uint32]int{}
	for i, s := range sess {
		sid[s.ID] = i + 1
	}
	ev := c17Event{Ev: "schema", H: hn, Tabs: map[string]*Table{}, Autoinc: map[string]int{}, Create: create, NSess: h.NSess,
		Overlap: h.Overlap, Views: []c17View{}, Hook: []c17Hook{}}
	for _, n := range h.Names {
		ev.Tabs[n] = h.Tables[n].Fix()
		ev.Autoinc[n] = 0
	}
	r.w.Write(ev)
	if h.Overlap {
		r.ovl++
	}
	// the driver's bookkeeping of what it SENT (only used to decide whose view is read)
	ac := make([]bool, h.NSess)
	expl := make([]bool, h.NSess)
	hushed := make([]bool, h.NSess)
	for i := range ac {
		ac[i] = true
	}
	var hooks []c17Hook
	verifhook.EventFn = func(name string, kv ...interface{}) {
		switch name {
		case "StartTransaction", "CommitTransaction", "Rollback":
			s := 0
			for i := 0; i+1 < len(kv); i += 2 {
				if kv[i] == "session" {
					if id, ok := kv[i+1].(uint32); ok {
						s = sid[id]
					}
				}
			}
			hooks = append(hooks, c17Hook{Name: name, S: s})
		}
	}
	defer func() { verifhook.EventFn = nil }()
	last := ""
	for _, st := range h.Steps {
		if r.o.upto >= 0 && st.ID > r.o.upto {
			break
		}
		x := st.S - 1
		hushed[x] = st.Quiet // not read again before its own next step
		sql := c17SQL(st, fx.Tabs)
		hooks = nil
		res := sess[x].Exec(sql)
		rep := dml2.ToReply(res, st.Stmt.K == "lastid")
		hk := append([]c17Hook{}, hooks...)
		switch st.Op {
		case "begin", "start":
			expl[x] = true
		case "commit", "rollback", "ddl":
			expl[x] = false
		case "ac":
			ac[x] = st.Val == 1
		}
		e := c17Event{Ev: "step", H: hn, ID: st.ID, S: st.S, Op: st.Op, Val: st.Val, Quiet: st.Quiet, Stmt: st.Stmt.Fix(), Reply: rep, Views: []c17View{},
			Hook: hk, SQL: sql}
		if e.Hook == nil {
			e.Hook = []c17Hook{}
		}
		if st.Op == "stmt" {
			e.Tags = Tags(st.Stmt, fx.Tabs[st.Stmt.T])
		}
		for y := 0; y < h.NSess; y++ {
			// whose view is read: in an overlapping history everybody's; otherwise only reads that cannot
			// open a transaction of their own -- sessions in plain autocommit mode, and the acting session
			// when the statement certainly left its transaction open
			plain := ac[y] && !expl[y]
			inside := y == x && (st.Op == "stmt" || st.Op == "begin" || st.Op == "start")
			if hushed[y] {
				continue
			}
			if h.Overlap || plain || inside {
				e.Views = append(e.Views, c17View{S: y + 1, Tabs: dml2.ReadAll(sess[y], h.Names)})
			}
		}
		r.w.Write(e)
		r.rep.Cases++
		r.ops[st.Op]++
		r.kinds[rep.Kind+":"+rep.Class]++
		for _, k := range hk {
			r.hookN[k.Name]++
		}
		b, _ := json.Marshal(e.Views)
		if string(b) != last {
			r.changed++
			r.rep.Nontrivial++
		}
		last = string(b)
		if show {
			fmt.Printf("[s%d] %s;\n-- %s %s aff=%d hooks=%v %s\n", st.S, sql, rep.Kind, rep.Class, rep.Affected, hk, rep.Msg)
			for _, v := range e.Views {
				vb, _ := json.Marshal(v.Tabs)
				fmt.Printf("--    s%d sees %d bytes\n", v.S, len(vb))
			}
		}
		if len(r.rep.Samples) < 3 && (st.Op == "rollback" || st.Op == "commit") && len(hk) > 0 {
			r.rep.Samples = append(r.rep.Samples, map[string]interface{}{"session": st.S, "sql": sql, "hooks": hk, "sessions_observed": len(e.Views)})
		}
	}
}

func runC17(o opts, w *vio.Writer, rep *vio.Report) {
	r := &c17Runner{o: o, w: w, rep: rep, ops: map[string]int{}, kinds: map[string]int{}, hookN: map[string]int{}}
	switch o.mode {
	case "gen":
		for h := o.from; h < o.from+o.n; h++ {
			if o.only >= 0 && h != o.only {
				continue
			}
			hist := dml2gen.C17History(o.seed*1000003 + int64(h))
			for k := range hist.Steps {
				hist.Steps[k].ID = h*1000 + k + 1
			}
			r.history(h, hist)
		}
	case "exec":
		var cur *dml2gen.TxnHistory
		curH := 0
		flush := func() {
			if cur != nil && (o.only < 0 || curH == o.only) {
				r.history(curH, cur)
			}
			cur = nil
		}
		err := vio.ReadNDJSON(o.in, func(i int, line []byte) error {
			var e c17Event
			if err := json.Unmarshal(line, &e); err != nil {
				return err
			}
			switch e.Ev {
			case "schema":
				flush()
				cur = &dml2gen.TxnHistory{Tables: e.Tabs, NSess: e.NSess, Overlap: e.Overlap}
				curH = e.H
				for n := range e.Tabs {
					cur.Names = append(cur.Names, n)
				}
				sort.Strings(cur.Names)
				if cur.NSess < 1 {
					cur.NSess = 2
				}
			case "step":
				if cur != nil {
					st := e.Stmt
					if st == nil {
						st = &Stmt{}
					}
					cur.Steps = append(cur.Steps, dml2gen.TxnStep{ID: e.ID, S: e.S, Op: e.Op, Val: e.Val, Stmt: st.Fix(), Quiet: e.Quiet})
				}
			}
			return nil
		})
		if err != nil {
			vio.Fatal("%v", err)
		}
		flush()
	default:
		vio.Fatal("unknown mode %s", o.mode)
	}
	rep.Extra["ops"] = r.ops
	rep.Extra["reply_kinds"] = r.kinds
	rep.Extra["overlapping_histories"] = r.ovl
	rep.Extra["changed"] = r.changed
	rep.Extra["hook_events"] = r.hookN
}
