package main

import (
	"encoding/json"
	"fmt"
	"io"
	"sort"

	"github.com/sirupsen/logrus"

	"gmsverif/lib/dml2"
	"gmsverif/lib/dml2gen"
	. "gmsverif/lib/dmlast"
	"gmsverif/lib/vio"
)

// C23 — generated trigger sets (BEFORE / AFTER x INSERT / UPDATE / DELETE, FOLLOWS / PRECEDES; audit,
// SET NEW, conditional SIGNAL bodies) and DML on the base table.  After every statement the base table
// and the audit table (ordered by its AUTO_INCREMENT sequence column) are read back.

type c23Event struct {
	Ev     string               `json:"ev"`
	H      int                  `json:"h"`
	Tabs   map[string]*Table    `json:"tabs,omitempty"`
	Trigs  []dml2gen.Trigger    `json:"trigs"`
	Create []string             `json:"create,omitempty"`
	ID     int                  `json:"id,omitempty"`
	Stmt   *Stmt                `json:"stmt,omitempty"`
	Reply  *dml2.Reply          `json:"reply,omitempty"`
	Post   map[string][][]Value `json:"post,omitempty"`
	Audit  [][]Value            `json:"audit"` // the whole audit table ordered by seq: [seq, tid, o.., n..]
	Cnt    int                  `json:"cnt"`   // @cnt after the statement
	SQL    string               `json:"sql,omitempty"`
	Tags   []string             `json:"tags,omitempty"`
}

type c23Runner struct {
	o      opts
	w      *vio.Writer
	rep    *vio.Report
	kinds  map[string]int
	bodies map[string]int
	rel    int
	fired  int
	multi  int
	// trigger shapes
	cascading  int // triggers whose body writes another table
	dmlNotLast int // DML statements of a body that are not its last statement
	blocks     int // bodies of several statements
	deep       int // statements whose audit entries come from more than one table's triggers
}

func (r *c23Runner) history(hn int, h *dml2gen.TrigHistory, ids []int) {
	names := h.Names
	fx, create, err := dml2.NewFixture(names, h.Tables, h.Extra()...)
	if err != nil {
		vio.Fatal("history %d: %v", hn, err)
	}
	tabs := map[string]*Table{}
	for _, n := range names {
		tabs[n] = h.Tables[n].Fix()
	}
	r.w.Write(c23Event{Ev: "schema", H: hn, Tabs: tabs, Trigs: h.Trigs, Create: create, Audit: [][]Value{}})
	for _, t := range h.Trigs {
		nd := 0
		for k, b := range t.Body {
			r.bodies[t.Timing+" "+t.Event+" "+b.K]++
			if b.K == "ins" || b.K == "upd" || b.K == "del" {
				nd++
				if k < len(t.Body)-1 {
					r.dmlNotLast++
				}
			}
		}
		if nd > 0 {
			r.cascading++
		}
		if len(t.Body) > 1 {
			r.blocks++
		}
		if t.Rel != "" {
			r.rel++
		}
	}
	last := 0
	for i, st := range h.Stmts {
		if r.o.upto >= 0 && ids[i] > r.o.upto {
			break
		}
		e := c23Event{Ev: "step", H: hn, ID: ids[i], Stmt: st.Fix(), Trigs: []dml2gen.Trigger{}, Tags: Tags(st, fx.Tabs[st.T])}
		e.SQL, e.Reply = fx.Exec(st)
		e.Post = dml2.ReadAll(fx.Sess, names)
		if c := fx.Sess.Exec("SELECT @cnt"); c.Kind == "rows" && len(c.Rows) == 1 && c.Rows[0][0].T == "i" {
			e.Cnt = c.Rows[0][0].V.(int)
		} else {
			e.Cnt = -1
		}
		au := fx.Sess.Exec("SELECT * FROM " + dml2gen.TrigAudit + " ORDER BY seq")
		e.Audit = au.Rows
		if au.Kind != "rows" {
			e.Audit = [][]Value{}
			e.Reply.Msg += " / audit unreadable: " + au.Msg
		}
		r.w.Write(e)
		r.rep.Cases++
		r.kinds[e.Reply.Kind+":"+e.Reply.Class]++
		added := len(e.Audit) - last
		if added > 0 {
			r.fired++
			r.rep.Nontrivial++
		}
		if added > 1 {
			r.multi++
		}
		if added > 0 {
			// entries written by triggers of a table other than the statement's: the cascade reached it
			own := map[int]bool{}
			for _, t := range h.Trigs {
				if t.Table == st.T {
					own[t.TID] = true
				}
			}
			for _, row := range e.Audit[last:] {
				if len(row) > 1 && row[1].T == "i" && !own[row[1].V.(int)] {
					r.deep++
					break
				}
			}
		}
		if show {
			fmt.Printf("%s;\n-- %s %s aff=%d audit+%d %s\n", e.SQL, e.Reply.Kind, e.Reply.Class, e.Reply.Affected, added, e.Reply.Msg)
		}
		if len(r.rep.Samples) < 3 && added > 2 {
			r.rep.Samples = append(r.rep.Samples, map[string]interface{}{"triggers": create[len(names)+2:], "sql": e.SQL, "audit_rows_added": added})
		}
		last = len(e.Audit)
	}
}

func runC23(o opts, w *vio.Writer, rep *vio.Report) {
	// the engine logs one error per trigger-carrying statement (the memory session has no savepoints)
	logrus.SetOutput(io.Discard)
	r := &c23Runner{o: o, w: w, rep: rep, kinds: map[string]int{}, bodies: map[string]int{}}
	switch o.mode {
	case "gen":
		for h := o.from; h < o.from+o.n; h++ {
			if o.only >= 0 && h != o.only {
				continue
			}
			hist := dml2gen.C23History(o.seed*1000003 + int64(h))
			ids := make([]int, len(hist.Stmts))
			for k := range ids {
				ids[k] = h*1000 + k + 1
			}
			r.history(h, hist, ids)
		}
	case "exec":
		var cur *dml2gen.TrigHistory
		var ids []int
		curH := 0
		flush := func() {
			if cur != nil && (o.only < 0 || curH == o.only) {
				r.history(curH, cur, ids)
			}
			cur, ids = nil, nil
		}
		err := vio.ReadNDJSON(o.in, func(i int, line []byte) error {
			var e c23Event
			if err := json.Unmarshal(line, &e); err != nil {
				return err
			}
			switch e.Ev {
			case "schema":
				flush()
				cur = &dml2gen.TrigHistory{Tables: e.Tabs, Trigs: e.Trigs}
				for n := range e.Tabs {
					cur.Names = append(cur.Names, n)
				}
				sort.Strings(cur.Names)
				curH = e.H
			case "step":
				if cur != nil {
					cur.Stmts = append(cur.Stmts, e.Stmt.Fix())
					ids = append(ids, e.ID)
				}
			}
			return nil
		})
		if err != nil {
			vio.Fatal("%v", err)
		}
		flush()
	default:
		vio.Fatal("unknown mode %s", o.mode)
	}
	rep.Extra["reply_kinds"] = r.kinds
	rep.Extra["trigger_bodies"] = r.bodies
	rep.Extra["triggers_with_follows_or_precedes"] = r.rel
	rep.Extra["statements_that_fired_audit_triggers"] = r.fired
	rep.Extra["statements_with_several_audit_rows"] = r.multi
	rep.Extra["cascading_triggers"] = r.cascading
	rep.Extra["body_dml_statements_not_last"] = r.dmlNotLast
	rep.Extra["multi_statement_bodies"] = r.blocks
	rep.Extra["statements_whose_cascade_fired_other_tables_triggers"] = r.deep
}
