package main

import (
	"encoding/json"
	"fmt"
	"io"
	"math/rand"
	"sort"
	"strings"

	"github.com/sirupsen/logrus"

	"gmsverif/lib/dml2"
	"gmsverif/lib/dml2gen"
	. "gmsverif/lib/dmlast"
	"gmsverif/lib/sqlast"
	"gmsverif/lib/vio"
)

// C15 — fault enumeration.  For every statement S_i of a history the driver
//  1. runs S_i on the main engine with the hook in counting mode (N = row-edit calls of S_i),
//  2. for k = 1..N builds a FRESH copy of the state before S_i (new engine, the history prefix
//     S_1..S_{i-1} replayed), reads all tables and issues the index probes, runs S_i with the
//     storage fault injected at the k-th row-edit call, reads / probes again  -> one "fault" event,
//  3. records the unfaulted run as the "stmt" event (pre, reply, post, probes).
// Natural failures at every row position come from the placed families of dml2gen and from the
// collision-heavy dmlgen histories.

type c15Event struct {
	Ev        string               `json:"ev"`
	H         int                  `json:"h"`
	Tabs      map[string]*Table    `json:"tabs,omitempty"`
	Autoinc   map[string]int       `json:"autoinc,omitempty"`
	Create    []string             `json:"create,omitempty"`
	ID        int                  `json:"id,omitempty"`
	Stmt      *Stmt                `json:"stmt,omitempty"`
	K         int                  `json:"k"`     // fault position (0 = none)
	Calls     int                  `json:"calls"` // row-edit calls seen in this run
	N         int                  `json:"n"`     // row-edit calls of the unfaulted run
	Ops       []string             `json:"ops"`
	Pre       map[string][][]Value `json:"pre,omitempty"`
	Reply     *dml2.Reply          `json:"reply,omitempty"`
	Post      map[string][][]Value `json:"post,omitempty"`
	PreProbes []dml2.Probe         `json:"preprobes"`
	Probes    []dml2.Probe         `json:"probes"`
	SQL       string               `json:"sql,omitempty"`
	Setup     []string             `json:"setup,omitempty"` // sfault: what was created on the copy before the statement
	Tags      []string             `json:"tags,omitempty"`
}

type c15Case struct {
	h     int
	names []string // tables read back before / after
	tabs  map[string]*Table
	stmts []*Stmt
	ids   []int
	// x-histories (foreign keys / triggers: outside the SQLTables grammar): own fixture, events
	// xschema / xfault / xstmt, judged by "a failed statement changes no table" alone
	famR  *rand.Rand // gen mode: draws the row-source-failure families (nil: none)
	x     string     // "" | "fk" | "trig"
	setup func() (*dml2.Fixture, []string, error)
}

type c15Runner struct {
	o        opts
	w        *vio.Writer
	rep      *vio.Report
	prober   *dml2.Prober
	kinds    map[string]int
	faults   int
	fired    int
	natural  map[string]int
	maxN     int
	trunc    int
	changed  int
	rowpos   map[string]int
	famCtr   int
	srcRuns  int // row-source failures (k >= 1)
	srcLater int
	srcTxn   int
	srcKinds map[string]int
	xmulti   int // x fault runs whose row edits reached another table than the statement's (cascade / trigger target)
	xhist    map[string]int
}

func union(a, b map[string][][]Value) map[string][][]Value {
	out := map[string][][]Value{}
	for k, v := range a {
		out[k] = append(append([][]Value{}, v...), b[k]...)
	}
	return out
}

func (c *c15Case) newFixture() (*dml2.Fixture, []string, error) {
	if c.setup != nil {
		return c.setup()
	}
	return dml2.NewFixture(c.names, c.tabs)
}

func (r *c15Runner) fixture(c *c15Case, upto int) *dml2.Fixture {
	fx, _, err := c.newFixture()
	if err != nil {
		vio.Fatal("history %d: %v", c.h, err)
	}
	for i := 0; i < upto; i++ {
		fx.Exec(c.stmts[i])
	}
	return fx
}

func same(a, b map[string][][]Value) bool {
	x, _ := json.Marshal(a)
	y, _ := json.Marshal(b)
	return string(x) == string(y)
}

func (r *c15Runner) history(c *c15Case) {
	main, create, err := c.newFixture()
	if err != nil {
		vio.Fatal("history %d: %v", c.h, err)
	}
	px := ""
	if c.x != "" {
		px = "x"
	}
	probes := r.o.probes && c.x == ""
	ev := c15Event{Ev: px + "schema", H: c.h, Tabs: map[string]*Table{}, Autoinc: map[string]int{}, Create: create,
		PreProbes: []dml2.Probe{}, Probes: []dml2.Probe{}, Ops: []string{}}
	for _, n := range c.names {
		if c.tabs[n] != nil {
			ev.Tabs[n] = c.tabs[n].Fix()
			ev.Autoinc[n] = 0
		}
	}
	r.w.Write(ev)
	var f dml2.Fault
	for i, st := range c.stmts {
		id := c.ids[i]
		if r.o.upto >= 0 && id > r.o.upto {
			break
		}
		// the unfaulted run, counting
		pre := dml2.ReadAll(main.Sess, c.names)
		tags := Tags(st, main.Tabs[st.T])
		if c.x != "" {
			tags = append([]string{c.x}, tags...)
		}
		f.Arm(0)
		sql, rep := main.Exec(st)
		f.Disarm()
		n, ops := f.Calls, append([]string{}, f.Ops...)
		post := dml2.ReadAll(main.Sess, c.names)
		mainEv := c15Event{Ev: px + "stmt", H: c.h, ID: id, Stmt: st, K: 0, Calls: n, N: n, Ops: ops, Pre: pre, Reply: rep, Post: post,
			PreProbes: []dml2.Probe{}, Probes: []dml2.Probe{}, SQL: sql, Tags: tags}
		if probes && rep.Kind != "ok" && rep.Kind != "rows" {
			// index contents after a naturally failed statement (successful ones are C16's subject)
			mainEv.Probes = r.prober.All(main, c.h, union(post, pre))
		}
		if show {
			fmt.Printf("%s;\n-- %s %s aff=%d calls=%d %s\n", sql, rep.Kind, rep.Class, rep.Affected, n, rep.Msg)
		}
		// fault positions
		ks := []int{}
		if n <= r.o.maxk {
			for k := 1; k <= n; k++ {
				ks = append(ks, k)
			}
		} else {
			r.trunc++
			seen := map[int]bool{}
			for j := 0; j < r.o.maxk; j++ {
				k := 1 + j*(n-1)/(r.o.maxk-1)
				if !seen[k] {
					seen[k] = true
					ks = append(ks, k)
				}
			}
			sort.Ints(ks)
		}
		if n > r.maxN {
			r.maxN = n
		}
		for _, k := range ks {
			fx := r.fixture(c, i)
			fpre := dml2.ReadAll(fx.Sess, c.names)
			fe := c15Event{Ev: px + "fault", H: c.h, ID: id, Stmt: st, K: k, N: n, Pre: fpre, PreProbes: []dml2.Probe{}, Probes: []dml2.Probe{}, Tags: tags}
			if probes && k == ks[len(ks)-1] {
				// every copy is built the same way: the probes before the statement are recorded once
				fe.PreProbes = r.prober.All(fx, c.h, fpre)
			}
			f.Arm(k)
			fe.SQL, fe.Reply = fx.Exec(st)
			f.Disarm()
			fe.Calls, fe.Ops = f.Calls, append([]string{}, f.Ops...)
			fe.Post = dml2.ReadAll(fx.Sess, c.names)
			if probes && (k >= 2 || !f.Fired() || !same(fpre, fe.Post)) {
				// index contents after the discard (a fault at the first row edit discards nothing)
				fe.Probes = r.prober.All(fx, c.h, union(fe.Post, fpre))
			}
			r.w.Write(fe)
			r.faults++
			if f.Fired() {
				r.fired++
				r.rep.Nontrivial++
			}
			r.rep.Cases++
			r.kinds[px+"fault:"+fe.Reply.Kind+":"+fe.Reply.Class]++
			if c.x != "" && len(fe.Ops) > 0 {
				multi := false
				for _, o := range fe.Ops {
					multi = multi || !strings.HasPrefix(o, st.T+":")
				}
				if multi {
					r.xmulti++
				}
			}
			if show {
				fmt.Printf("--   fault k=%d/%d -> %s %s unchanged=%v\n", k, n, fe.Reply.Kind, fe.Reply.Class, same(fpre, fe.Post))
			}
			if len(r.rep.Samples) < 3 && f.Fired() && k > 1 {
				r.rep.Samples = append(r.rep.Samples, map[string]interface{}{"sql": sql, "fault_at_call": k, "of": n, "ops": fe.Ops,
					"reply": fe.Reply.Kind + " " + fe.Reply.Class, "tables_unchanged": same(fpre, fe.Post)})
			}
		}
		r.w.Write(mainEv)
		r.rep.Cases++
		r.kinds[rep.Kind+":"+rep.Class]++
		if rep.Kind == "err" {
			r.natural[rep.Class]++
			// position of the natural failure: row-edit calls made before the statement failed
			r.rowpos[fmt.Sprintf("%s@edit%d", rep.Class, n)]++
			r.rep.Nontrivial++
		}
		if !same(pre, post) {
			r.changed++
		}
		if c.famR != nil && c.x == "" && c.famR.Intn(100) < 18 {
			r.sourceFaults(c, i, id, main)
		}
	}
}

const bigMax = "9223372036854775807"

// sourceFaults: a family of non-IGNORE INSERT / REPLACE statements of m fresh rows whose ROW SOURCE fails at source
// row k (k = 0: it does not fail), each run on a fresh copy of the state after statement i.  Mechanisms:
//
//	signal  CREATE TRIGGER .. BEFORE INSERT .. IF NEW.c = <poison> THEN SIGNAL, VALUES list whose k-th row carries the poison
//	select  INSERT / REPLACE .. SELECT .. FROM vsrc ORDER BY ord, one INT expression c + p * 9223372036854775807 * 2
//	        (BIGINT overflow exactly on the row with p = 1)
//
// in autocommit mode or inside START TRANSACTION .. COMMIT (the tables are read after the COMMIT).
func (r *c15Runner) sourceFaults(c *c15Case, i, id int, main *dml2.Fixture) {
	tn := c.names[c.famR.Intn(len(c.names))]
	t := main.Tabs[tn]
	cols := dml2gen.Insertable(t)
	if t.AutoCol() > 0 || len(cols) == 0 {
		return
	}
	r.famCtr += 40
	pl := dml2gen.NewPlaced(c.famR, 400+r.famCtr)
	m := 2 + c.famR.Intn(2)
	rows := pl.FreshRows(t, cols, m)
	// the poisoned column: an INT column if there is one (preferably not a key column)
	pc := -1
	for pass := 0; pass < 2 && pc < 0; pass++ {
		for j, col := range cols {
			inPK := false
			for _, k := range t.PK {
				inPK = inPK || k == col
			}
			if t.Cols[col-1].Ty == "i" && (pass == 1 || !inPK) {
				pc = j
				break
			}
		}
	}
	mech := "signal"
	if pc >= 0 && c.famR.Intn(2) == 0 {
		mech = "select"
	}
	if pc < 0 {
		pc = len(cols) - 1
	}
	mode, txn := "plain", c.famR.Intn(2) == 0
	if c.famR.Intn(3) == 0 {
		mode = "replace"
	}
	isInt := t.Cols[cols[pc]-1].Ty == "i"
	poison := sqlast.Str("zzq")
	if isInt {
		poison = sqlast.Int(9999)
	}
	tags := []string{mech, map[string]string{"plain": "insert", "replace": "replace"}[mode], map[bool]string{false: "autocommit", true: "txn"}[txn]}
	head := map[string]string{"plain": "INSERT INTO", "replace": "REPLACE INTO"}[mode]
	for k := 0; k <= m; k++ {
		fx := r.fixture(c, i+1)
		krows := make([][]Cell, m)
		for j := range rows {
			krows[j] = append([]Cell{}, rows[j]...)
		}
		var setup []string
		var sql string
		w := len(t.Cols)
		if mech == "signal" {
			if k >= 1 {
				krows[k-1][pc] = ValCell(poison)
			}
			setup = append(setup, fmt.Sprintf("CREATE TRIGGER vt BEFORE INSERT ON %s FOR EACH ROW BEGIN IF NEW.c%d = %s THEN SIGNAL SQLSTATE '45000' SET MESSAGE_TEXT = 'verif-signal'; END IF; END",
				tn, cols[pc], poison.SQL()))
			sql = SQL(Insert(tn, mode, cols, krows, nil), w)
		} else {
			def := "CREATE TABLE vsrc (ord INT PRIMARY KEY"
			var names, sel []string
			for j, col := range cols {
				ty := "INT"
				if t.Cols[col-1].Ty == "s" {
					ty = "VARCHAR(32) COLLATE utf8mb4_0900_bin"
				}
				def += fmt.Sprintf(", c%d %s", col, ty)
				names = append(names, fmt.Sprintf("c%d", col))
				if j == pc {
					sel = append(sel, fmt.Sprintf("c%d + p * %s * 2", col, bigMax))
				} else {
					sel = append(sel, fmt.Sprintf("c%d", col))
				}
			}
			setup = append(setup, def+", p BIGINT)")
			for j, row := range krows {
				vals := []string{fmt.Sprint(j + 1)}
				for _, cell := range row {
					vals = append(vals, cell.E.V.SQL())
				}
				p := "0"
				if j+1 == k {
					p = "1"
				}
				setup = append(setup, fmt.Sprintf("INSERT INTO vsrc VALUES (%s, %s)", strings.Join(vals, ", "), p))
			}
			sql = fmt.Sprintf("%s %s (%s) SELECT %s FROM vsrc ORDER BY ord", head, tn, strings.Join(names, ", "), strings.Join(sel, ", "))
		}
		for _, q := range setup {
			if res := fx.Sess.Exec(q); res.Kind == "err" || res.Kind == "panic" {
				vio.Fatal("history %d: source-fault set-up failed: %s: %s", c.h, q, res.Msg)
			}
		}
		fe := c15Event{Ev: "sfault", H: c.h, ID: id, Stmt: Insert(tn, mode, cols, krows, nil), K: k, N: m, Ops: []string{}, PreProbes: []dml2.Probe{},
			Probes: []dml2.Probe{}, Setup: setup, Tags: tags}
		fe.Pre = dml2.ReadAll(fx.Sess, c.names)
		if txn {
			fx.Sess.Exec("START TRANSACTION")
		}
		fe.SQL = sql
		fe.Reply = dml2.ToReply(fx.Sess.Exec(sql), false)
		if txn {
			fx.Sess.Exec("COMMIT")
		}
		fe.Post = dml2.ReadAll(fx.Sess, c.names)
		if r.o.probes {
			fe.Probes = r.prober.All(fx, c.h, union(fe.Post, fe.Pre))
		}
		r.w.Write(fe)
		r.rep.Cases++
		if k >= 1 {
			r.rep.Nontrivial++
			r.srcRuns++
			r.srcKinds[strings.Join(tags, ",")+"->"+fe.Reply.Kind+":"+fe.Reply.Class]++
			if k >= 2 {
				r.srcLater++
			}
			if txn {
				r.srcTxn++
			}
		}
		if show {
			fmt.Printf("--   source fault %v k=%d/%d: %s -> %s %s unchanged=%v\n", tags, k, m, sql, fe.Reply.Kind, fe.Reply.Class, same(fe.Pre, fe.Post))
		}
	}
}

// xCase builds the x-history number h: foreign-key histories (statements with cascades) and, every
// fourth one, a trigger history (the audit table is a trigger target).
func xCase(seed int64, h int) *c15Case {
	if h%4 == 0 {
		th := dml2gen.C23History(seed*1000003 + int64(h))
		names := append([]string{dml2gen.TrigAudit}, th.Names...)
		c := &c15Case{h: h, names: names, tabs: th.Tables, x: "trig", stmts: th.Stmts}
		c.setup = func() (*dml2.Fixture, []string, error) { return dml2.NewFixture(th.Names, th.Tables, th.Extra()...) }
		return c
	}
	fh := dml2gen.C18History(seed*1000003 + int64(h))
	c := &c15Case{h: h, names: fh.Names, tabs: fh.Tables, x: "fk"}
	c.setup = func() (*dml2.Fixture, []string, error) { return fkFixture(fh) }
	for _, st := range fh.Steps {
		if st.Op == "stmt" {
			c.stmts = append(c.stmts, st.Stmt)
		}
	}
	return c
}

func runC15(o opts, w *vio.Writer, rep *vio.Report) {
	logrus.SetOutput(io.Discard)
	r := &c15Runner{o: o, w: w, rep: rep, prober: dml2.NewProber(), kinds: map[string]int{}, natural: map[string]int{}, rowpos: map[string]int{},
		xhist: map[string]int{}, srcKinds: map[string]int{}}
	switch o.mode {
	case "gen":
		for h := o.from; h < o.from+o.n; h++ {
			if o.only >= 0 && h != o.only {
				continue
			}
			if o.x {
				c := xCase(o.seed, h)
				for k := range c.stmts {
					c.ids = append(c.ids, h*1000+k+1)
				}
				r.xhist[c.x]++
				r.history(c)
				continue
			}
			hist, initial := dml2gen.C15History(o.seed*1000003 + int64(h))
			c := &c15Case{h: h, names: hist.Names, tabs: initial, stmts: hist.Stmts, famR: rand.New(rand.NewSource((o.seed*1000003 + int64(h)) ^ 0x5fa17))}
			for k := range hist.Stmts {
				c.ids = append(c.ids, h*1000+k+1)
			}
			r.history(c)
		}
	case "exec":
		var cur *c15Case
		flush := func() {
			if cur != nil && (o.only < 0 || cur.h == o.only) {
				r.history(cur)
			}
			cur = nil
		}
		err := vio.ReadNDJSON(o.in, func(i int, line []byte) error {
			var e c15Event
			if err := json.Unmarshal(line, &e); err != nil {
				return err
			}
			switch e.Ev {
			case "schema":
				flush()
				cur = &c15Case{h: e.H, tabs: e.Tabs}
				for n := range e.Tabs {
					cur.names = append(cur.names, n)
				}
				sort.Strings(cur.names)
			case "stmt":
				if cur != nil {
					cur.stmts = append(cur.stmts, e.Stmt)
					cur.ids = append(cur.ids, e.ID)
				}
			}
			return nil
		})
		if err != nil {
			vio.Fatal("%v", err)
		}
		flush()
	default:
		vio.Fatal("unknown mode %s", o.mode)
	}
	rep.Extra["reply_kinds"] = r.kinds
	rep.Extra["fault_runs"] = r.faults
	rep.Extra["faults_fired"] = r.fired
	rep.Extra["natural_failures"] = r.natural
	rep.Extra["natural_failure_positions"] = r.rowpos
	rep.Extra["max_calls"] = r.maxN
	rep.Extra["statements_with_sampled_positions"] = r.trunc
	rep.Extra["changed"] = r.changed
	rep.Extra["probes"] = r.prober.N
	rep.Extra["probes_via_index"] = r.prober.Ix
	rep.Extra["source_fault_runs"] = r.srcRuns
	rep.Extra["source_fault_runs_later_row"] = r.srcLater
	rep.Extra["source_fault_runs_in_txn"] = r.srcTxn
	rep.Extra["source_fault_kinds"] = r.srcKinds
	rep.Extra["x_histories"] = r.xhist
	rep.Extra["x_fault_runs_reaching_other_tables"] = r.xmulti
}
