package main

import (
	"encoding/json"
	"fmt"
	"sort"

	"gmsverif/lib/dml2"
	"gmsverif/lib/dml2gen"
	. "gmsverif/lib/dmlast"
	"gmsverif/lib/vio"
)

// C18 — foreign-key histories: INSERT / UPDATE / DELETE on parents and children (multi-row, key
// updates, deletes of referenced rows, SET foreign_key_checks = 0 / 1 mid-history) over generated
// foreign-key graphs (chains, diamonds, self references, composite keys); after every statement the
// contents of ALL tables are read back.  spec/Trace_FK.tla judges every step.

type c18Event struct {
	Ev      string               `json:"ev"`
	H       int                  `json:"h"`
	Graph   string               `json:"graph,omitempty"`
	Tabs    map[string]*Table    `json:"tabs,omitempty"`
	Autoinc map[string]int       `json:"autoinc,omitempty"`
	FKs     []dml2gen.FK         `json:"fks"`
	Create  []string             `json:"create,omitempty"`
	ID      int                  `json:"id,omitempty"`
	Op      string               `json:"op,omitempty"`
	Val     int                  `json:"val"`
	Stmt    *Stmt                `json:"stmt,omitempty"`
	Reply   *dml2.Reply          `json:"reply,omitempty"`
	Pre     map[string][][]Value `json:"pre,omitempty"`
	Post    map[string][][]Value `json:"post,omitempty"`
	SQL     string               `json:"sql,omitempty"`
	Tags    []string             `json:"tags,omitempty"`
}

type c18Runner struct {
	o       opts
	w       *vio.Writer
	rep     *vio.Report
	kinds   map[string]int
	graphs  map[string]int
	actions map[string]int
	multi   int // statements that changed more than one table (cascades)
	changed int
}

func fkFixture(h *dml2gen.FKHistory) (*dml2.Fixture, []string, error) {
	var extra []string
	for _, f := range h.FKs {
		extra = append(extra, f.SQL())
	}
	return dml2.NewFixture(h.Names, h.Tables, extra...)
}

func changedTables(a, b map[string][][]Value) int {
	n := 0
	for t := range a {
		x, _ := json.Marshal(a[t])
		y, _ := json.Marshal(b[t])
		if string(x) != string(y) {
			n++
		}
	}
	return n
}

func (r *c18Runner) history(hn int, h *dml2gen.FKHistory) {
	fx, create, err := fkFixture(h)
	if err != nil {
		vio.Fatal("history %d: %v", hn, err)
	}
	ev := c18Event{Ev: "schema", H: hn, Graph: h.Graph, Tabs: map[string]*Table{}, Autoinc: map[string]int{}, FKs: h.FKs, Create: create}
	for _, n := range h.Names {
		ev.Tabs[n] = h.Tables[n].Fix()
		ev.Autoinc[n] = 0
	}
	r.w.Write(ev)
	r.graphs[h.Graph]++
	for _, f := range h.FKs {
		r.actions["del:"+f.OnDel]++
		r.actions["upd:"+f.OnUpd]++
	}
	pre := dml2.ReadAll(fx.Sess, h.Names)
	for _, st := range h.Steps {
		if r.o.upto >= 0 && st.ID > r.o.upto {
			break
		}
		e := c18Event{Ev: "step", H: hn, ID: st.ID, Op: st.Op, Val: st.Val, Stmt: st.Stmt.Fix(), FKs: []dml2gen.FK{}, Pre: pre}
		if st.Op == "fkc" {
			e.SQL = fmt.Sprintf("SET foreign_key_checks = %d", st.Val)
			e.Reply = dml2.ToReply(fx.Sess.Exec(e.SQL), false)
		} else {
			e.Tags = Tags(st.Stmt, fx.Tabs[st.Stmt.T])
			e.SQL, e.Reply = fx.Exec(st.Stmt)
		}
		e.Post = dml2.ReadAll(fx.Sess, h.Names)
		r.w.Write(e)
		r.rep.Cases++
		r.kinds[e.Reply.Kind+":"+e.Reply.Class]++
		nch := changedTables(pre, e.Post)
		if nch > 0 {
			r.changed++
			r.rep.Nontrivial++
		}
		if nch > 1 {
			r.multi++
			if len(r.rep.Samples) < 3 {
				r.rep.Samples = append(r.rep.Samples, map[string]interface{}{"graph": h.Graph, "fks": h.FKs, "sql": e.SQL, "reply": e.Reply.Kind, "tables_changed": nch})
			}
		}
		if show {
			fmt.Printf("%s;\n-- %s %s aff=%d changed=%d %s\n", e.SQL, e.Reply.Kind, e.Reply.Class, e.Reply.Affected, nch, e.Reply.Msg)
		}
		pre = e.Post
	}
}

func runC18(o opts, w *vio.Writer, rep *vio.Report) {
	r := &c18Runner{o: o, w: w, rep: rep, kinds: map[string]int{}, graphs: map[string]int{}, actions: map[string]int{}}
	switch o.mode {
	case "gen":
		for h := o.from; h < o.from+o.n; h++ {
			if o.only >= 0 && h != o.only {
				continue
			}
			hist := dml2gen.C18History(o.seed*1000003 + int64(h))
			for k := range hist.Steps {
				hist.Steps[k].ID = h*1000 + k + 1
			}
			r.history(h, hist)
		}
	case "exec":
		var cur *dml2gen.FKHistory
		curH := 0
		flush := func() {
			if cur != nil && (o.only < 0 || curH == o.only) {
				r.history(curH, cur)
			}
			cur = nil
		}
		err := vio.ReadNDJSON(o.in, func(i int, line []byte) error {
			var e c18Event
			if err := json.Unmarshal(line, &e); err != nil {
				return err
			}
			switch e.Ev {
			case "schema":
				flush()
				cur = &dml2gen.FKHistory{Graph: e.Graph, Tables: e.Tabs, FKs: e.FKs}
				curH = e.H
				for n := range e.Tabs {
					cur.Names = append(cur.Names, n)
				}
				sort.Strings(cur.Names)
			case "step":
				if cur != nil {
					st := e.Stmt
					if st == nil {
						st = &Stmt{}
					}
					cur.Steps = append(cur.Steps, dml2gen.FKStep{ID: e.ID, Op: e.Op, Val: e.Val, Stmt: st.Fix()})
				}
			}
			return nil
		})
		if err != nil {
			vio.Fatal("%v", err)
		}
		flush()
	default:
		vio.Fatal("unknown mode %s", o.mode)
	}
	rep.Extra["reply_kinds"] = r.kinds
	rep.Extra["graphs"] = r.graphs
	rep.Extra["actions"] = r.actions
	rep.Extra["statements_changing_several_tables"] = r.multi
	rep.Extra["changed"] = r.changed
}
