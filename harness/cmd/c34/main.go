// c34: binding of spec/StrFuncs.tla to the engine's scalar functions (C34).
//
//	replay -file cases.ndjson [-keep N]   binding A: TLC-enumerated cases {f, a, ok, dev, tag, nt}; every case is
//	                                      rendered to one SQL expression, executed, and the engine's value (bytes /
//	                                      integer / NULL / error) must be one of `ok` (equality of canonical forms).
//	gen -seed S -n N -out trace [-only ids]   binding B: seeded random argument tuples; the values of the expressions
//	                                      of each law are recorded; spec/Trace_StrFuncs.tla judges the laws.
//	exec -in events -out trace            binding B: re-records given input events (witnesses, confirmation).
//
// This program decides nothing about the functions: it renders arguments as SQL literals, runs SQL, and
// changes the representation of results (strings <-> code points / bytes, decimal text <-> scaled integer).
package main

import (
	"encoding/hex"
	"encoding/json"
	"flag"
	"fmt"
	"math/big"
	"math/rand"
	"os"
	"sort"
	"strconv"
	"strings"
	"unicode/utf8"

	"github.com/dolthub/go-mysql-server/sql"

	"gmsverif/lib/eng"
	"gmsverif/lib/vio"
)

// ---------------------------------------------------------------- values

// Val is a tagged value of spec/StrFuncs.tla as TLC prints it.
type Val struct {
	T string `json:"t"`
	I int    `json:"i"`
	S []int  `json:"s"`
	X []int  `json:"x"`
	B []int  `json:"b"`
}

func bytesOf(xs []int) []byte {
	b := make([]byte, len(xs))
	for i, x := range xs {
		b[i] = byte(x)
	}
	return b
}

func strOf(cps []int) string {
	var sb strings.Builder
	for _, c := range cps {
		sb.WriteRune(rune(c))
	}
	return sb.String()
}

// canon is the canonical form both sides are compared in: N | E | I:<decimal> | B:<hex of the bytes>.
func (v Val) canon() string {
	switch v.T {
	case "n":
		return "N"
	case "e":
		return "E"
	case "i":
		return "I:" + strconv.Itoa(v.I)
	case "b256":
		return "I:" + new(big.Int).SetBytes(bytesOf(v.B)).String()
	case "s":
		return "B:" + hex.EncodeToString([]byte(strOf(v.S)))
	case "x":
		return "B:" + hex.EncodeToString(bytesOf(v.X))
	}
	return "?" + v.T
}

func kindOf(c string) string {
	switch {
	case c == "N":
		return "null"
	case c == "E":
		return "error"
	case strings.HasPrefix(c, "I:"):
		return "int"
	case strings.HasPrefix(c, "B:"):
		return "str"
	}
	return "other"
}

// canonGo is the canonical form of a Go value returned by the engine.
func canonGo(ctx *sql.Context, v interface{}) string {
	if w, err := sql.UnwrapAny(ctx, v); err == nil {
		v = w
	}
	switch x := v.(type) {
	case nil:
		return "N"
	case string:
		return "B:" + hex.EncodeToString([]byte(x))
	case []byte:
		return "B:" + hex.EncodeToString(x)
	case bool:
		if x {
			return "I:1"
		}
		return "I:0"
	case int:
		return "I:" + strconv.FormatInt(int64(x), 10)
	case int8:
		return "I:" + strconv.FormatInt(int64(x), 10)
	case int16:
		return "I:" + strconv.FormatInt(int64(x), 10)
	case int32:
		return "I:" + strconv.FormatInt(int64(x), 10)
	case int64:
		return "I:" + strconv.FormatInt(x, 10)
	case uint8:
		return "I:" + strconv.FormatUint(uint64(x), 10)
	case uint16:
		return "I:" + strconv.FormatUint(uint64(x), 10)
	case uint32:
		return "I:" + strconv.FormatUint(uint64(x), 10)
	case uint:
		return "I:" + strconv.FormatUint(uint64(x), 10)
	case uint64:
		return "I:" + strconv.FormatUint(x, 10)
	case float64:
		if x == float64(int64(x)) {
			return "I:" + strconv.FormatInt(int64(x), 10)
		}
	case fmt.Stringer: // decimals: an integral value is an integer
		if r, ok := new(big.Rat).SetString(x.String()); ok && r.IsInt() {
			return "I:" + r.Num().String()
		}
	}
	return fmt.Sprintf("O:%T:%v", v, v)
}

// lit renders a tagged argument as a SQL literal.
func lit(v Val) string {
	switch v.T {
	case "n":
		return "NULL"
	case "i":
		return strconv.Itoa(v.I)
	case "s":
		return strLit(strOf(v.S))
	}
	vio.Fatal("unrenderable argument %+v", v)
	return ""
}

func strLit(s string) string {
	return "'" + strings.ReplaceAll(strings.ReplaceAll(s, "\\", "\\\\"), "'", "''") + "'"
}

// ---------------------------------------------------------------- engine

type sess struct{ s *eng.Session }

func newSess() *sess {
	db := eng.New()
	return &sess{s: db.NewSession()}
}

// row evaluates `SELECT e1, e2, ..` and returns the canonical form of every column, or nil on error.
func (x *sess) row(exprs []string) ([]string, string) {
	r := x.s.Exec("SELECT " + strings.Join(exprs, ", "))
	if r.Kind != "rows" {
		return nil, r.Kind + ": " + r.Msg
	}
	if len(r.Raw) != 1 || len(r.Raw[0]) != len(exprs) {
		return nil, "shape"
	}
	ctx := x.s.Ctx()
	out := make([]string, len(exprs))
	for i, v := range r.Raw[0] {
		out[i] = canonGo(ctx, v)
	}
	return out, ""
}

// each evaluates the expressions in batches; an expression whose own evaluation fails is "E".
func (x *sess) each(exprs []string, batch int) ([]string, []string) {
	out := make([]string, len(exprs))
	msgs := make([]string, len(exprs))
	for lo := 0; lo < len(exprs); lo += batch {
		hi := lo + batch
		if hi > len(exprs) {
			hi = len(exprs)
		}
		if got, e := x.row(exprs[lo:hi]); e == "" {
			copy(out[lo:hi], got)
			continue
		}
		for i := lo; i < hi; i++ {
			got, e := x.row(exprs[i : i+1])
			if e != "" {
				out[i], msgs[i] = "E", e
			} else {
				out[i] = got[0]
			}
		}
	}
	return out, msgs
}

// ---------------------------------------------------------------- binding A

type Dev struct {
	N string `json:"n"`
	V Val    `json:"v"`
}

type Case struct {
	F   string `json:"f"`
	A   []Val  `json:"a"`
	OK  []Val  `json:"ok"`
	Dev []Dev  `json:"dev"`
	Tag string `json:"tag"`
	NT  bool   `json:"nt"`
}

var templates = map[string]string{
	"char_length": "CHAR_LENGTH(%s)", "character_length": "CHARACTER_LENGTH(%s)", "length": "LENGTH(%s)",
	"octet_length": "OCTET_LENGTH(%s)", "bit_length": "BIT_LENGTH(%s)", "upper": "UPPER(%s)", "ucase": "UCASE(%s)",
	"lower": "LOWER(%s)", "lcase": "LCASE(%s)", "reverse": "REVERSE(%s)", "ltrim": "LTRIM(%s)", "rtrim": "RTRIM(%s)",
	"trim": "TRIM(%s)", "ascii": "ASCII(%s)", "ord": "ORD(%s)", "space": "SPACE(%s)",
	"concat": "CONCAT(%s, %s)", "concat3": "CONCAT(%s, %s, %s)", "strcmp": "STRCMP(%s, %s)", "locate2": "LOCATE(%s, %s)",
	"position": "POSITION(%s IN %s)", "instr": "INSTR(%s, %s)", "trim_both": "TRIM(BOTH %s FROM %s)",
	"trim_leading": "TRIM(LEADING %s FROM %s)", "trim_trailing": "TRIM(TRAILING %s FROM %s)",
	"replace": "REPLACE(%s, %s, %s)", "left": "LEFT(%s, %s)", "right": "RIGHT(%s, %s)", "substring2": "SUBSTRING(%s, %s)",
	"substr2": "SUBSTR(%s, %s)", "repeat": "REPEAT(%s, %s)", "substring3": "SUBSTRING(%s, %s, %s)", "mid": "MID(%s, %s, %s)",
	"locate3": "LOCATE(%s, %s, %s)", "substring_index": "SUBSTRING_INDEX(%s, %s, %s)", "insert": "INSERT(%s, %s, %s, %s)",
	"lpad": "LPAD(%s, %s, %s)", "rpad": "RPAD(%s, %s, %s)", "field": "FIELD(%s, %s, %s)", "elt": "ELT(%s, %s, %s)",
	"char": "CHAR(%s, %s)", "find_in_set": "FIND_IN_SET(%s, %s)",
}

func (c *Case) expr() string {
	t, ok := templates[c.F]
	if !ok {
		vio.Fatal("no SQL template for function %q", c.F)
	}
	if strings.Count(t, "%s") != len(c.A) {
		vio.Fatal("function %q: %d arguments for template %q", c.F, len(c.A), t)
	}
	args := make([]interface{}, len(c.A))
	for i, a := range c.A {
		args[i] = lit(a)
	}
	return fmt.Sprintf(t, args...)
}

func replay(file string, batch, keep int) {
	x := newSess()
	var cases []Case
	if err := vio.ReadNDJSON(file, func(i int, line []byte) error {
		var c Case
		if err := json.Unmarshal(line, &c); err != nil {
			return err
		}
		cases = append(cases, c)
		return nil
	}); err != nil {
		vio.Fatal("%v", err)
	}
	// group by function so that an erroring expression only disturbs batches of its own family
	order := make([]int, len(cases))
	for i := range order {
		order[i] = i
	}
	sort.SliceStable(order, func(a, b int) bool { return cases[order[a]].F < cases[order[b]].F })
	exprs := make([]string, len(cases))
	for k, i := range order {
		exprs[k] = cases[i].expr()
	}
	got, msgs := x.each(exprs, batch)
	rep := &vio.Report{Extra: map[string]interface{}{}}
	byF, bySig, byTag := map[string]int{}, map[string]int{}, map[string]int{}
	kept := map[string]int{}
	ntSeen := map[string]bool{}
	for k, i := range order {
		c := &cases[i]
		rep.Cases++
		byF[c.F]++
		byTag[c.Tag]++
		if c.NT && !ntSeen[exprs[k]] {
			ntSeen[exprs[k]] = true
			rep.Nontrivial++
		}
		okc := make([]string, len(c.OK))
		hit := false
		for j, v := range c.OK {
			okc[j] = v.canon()
			hit = hit || okc[j] == got[k]
		}
		if len(rep.Samples) < 4 && c.NT && k%997 == 0 {
			rep.Samples = append(rep.Samples, map[string]interface{}{"sql": exprs[k], "accepted": okc, "engine": got[k]})
		}
		if hit {
			continue
		}
		sig := ""
		for _, d := range c.Dev {
			if d.V.canon() == got[k] {
				sig = fmt.Sprintf("A|%s|dev:%s", c.F, d.N)
			}
		}
		if sig == "" {
			sig = fmt.Sprintf("A|%s|%s|exp=%s|got=%s", c.F, c.Tag, kindOf(okc[0]), kindOf(got[k]))
		}
		bySig[sig]++
		if kept[sig] < keep {
			kept[sig]++
			rep.Mismatches = append(rep.Mismatches, vio.Mismatch{Case: i, Signature: sig, Expected: okc,
				Got: map[string]string{"value": got[k], "msg": msgs[k]}, Input: map[string]interface{}{"sql": exprs[k], "case": c}})
		}
	}
	rep.Extra["by_function"] = byF
	rep.Extra["by_signature"] = bySig
	rep.Extra["by_tag"] = byTag
	rep.Emit()
}

// ---------------------------------------------------------------- binding B: events

// Ev is one recorded event. Inputs are set by the generator; R (results by name) and SQL by exec.
type Ev struct {
	Ev  string                 `json:"ev"`
	ID  int                    `json:"id"`
	Tag string                 `json:"tag"`
	In  map[string]interface{} `json:"in"`
	R   map[string]interface{} `json:"r,omitempty"`
	SQL map[string]string      `json:"sql,omitempty"`
}

func vN() map[string]interface{}      { return map[string]interface{}{"t": "n"} }
func vE() map[string]interface{}      { return map[string]interface{}{"t": "e"} }
func vI(i int64) map[string]interface{} { return map[string]interface{}{"t": "i", "i": i} }
func vO(s string) map[string]interface{} { return map[string]interface{}{"t": "o", "o": s} }
func vX(b []byte) map[string]interface{} {
	xs := make([]int, len(b))
	for i, c := range b {
		xs[i] = int(c)
	}
	return map[string]interface{}{"t": "x", "x": xs}
}
func vS(s string) map[string]interface{} {
	cps := []int{}
	for _, r := range s {
		cps = append(cps, int(r))
	}
	return map[string]interface{}{"t": "s", "s": cps}
}

// tagged converts an engine value into the trace encoding: character data as code points when it is
// valid UTF-8 (bytes otherwise), integers within 32 bits as integers.
func tagged(ctx *sql.Context, v interface{}, asBytes bool) map[string]interface{} {
	c := canonGo(ctx, v)
	switch {
	case c == "N":
		return vN()
	case strings.HasPrefix(c, "I:"):
		n, err := strconv.ParseInt(c[2:], 10, 64)
		if err != nil || n > 2147483647 || n < -2147483647 {
			return vO(c[2:])
		}
		return vI(n)
	case strings.HasPrefix(c, "B:"):
		b, _ := hex.DecodeString(c[2:])
		if asBytes || !utf8.Valid(b) {
			return vX(b)
		}
		return vS(string(b))
	}
	return vO(c)
}

// scaled parses the decimal text of a numeric result into round(x * 10^4) when it is exact.
func scaled(text string) map[string]interface{} {
	t := strings.TrimSpace(text)
	if r, ok := new(big.Rat).SetString(t); ok {
		r.Mul(r, big.NewRat(10000, 1))
		if r.IsInt() && r.Num().IsInt64() {
			if n := r.Num().Int64(); n < 2147483647 && n > -2147483647 {
				return vI(n)
			}
		}
	}
	return vO(t)
}

type namedExpr struct {
	name, sql string
	mode      byte // 's' string, 'x' bytes, 'd' decimal text -> scaled integer
}

const asciiAlpha = "abcAB xyz0 "

var mbAlpha = []rune("ab éÉ😀日 xж")

func randStr(r *rand.Rand, mb bool, max int) string {
	n := r.Intn(max + 1)
	var sb strings.Builder
	for i := 0; i < n; i++ {
		if mb {
			sb.WriteRune(mbAlpha[r.Intn(len(mbAlpha))])
		} else {
			sb.WriteByte(asciiAlpha[r.Intn(len(asciiAlpha))])
		}
	}
	return sb.String()
}

func cps(s string) []int {
	out := []int{}
	for _, r := range s {
		out = append(out, int(r))
	}
	return out
}

func ints(b []byte) []int {
	out := make([]int, len(b))
	for i, c := range b {
		out[i] = int(c)
	}
	return out
}

var kinds = []string{"str", "str", "str", "hex", "b64", "conv", "inet", "inet6", "zip", "round", "round", "nullarg"}

// genEvent builds the inputs of event id (deterministic in seed and id).
func genEvent(seed int64, id int) *Ev {
	r := rand.New(rand.NewSource(seed*1000003 + int64(id)*7919))
	k := kinds[id%len(kinds)]
	e := &Ev{Ev: k, ID: id, Tag: "ascii", In: map[string]interface{}{}}
	switch k {
	case "str", "nullarg":
		mb := r.Intn(2) == 0
		s := randStr(r, mb, 10)
		t := randStr(r, mb, 4)
		var u string
		rs := []rune(s)
		switch {
		case len(rs) > 0 && r.Intn(3) > 0: // a substring of s, so that LOCATE / REPLACE find something
			a := r.Intn(len(rs))
			b := a + 1 + r.Intn(min(3, len(rs)-a))
			u = string(rs[a:b])
		default:
			u = randStr(r, mb, 2)
		}
		if r.Intn(4) == 0 {
			s = s + u + s
		}
		n := r.Intn(len([]rune(s)) + 3)
		m := 1 + r.Intn(len([]rune(s))+1)
		sp := strings.Repeat(" ", r.Intn(3)) + s + strings.Repeat(" ", r.Intn(3))
		if mb && strings.IndexFunc(s+t+u, func(c rune) bool { return c > 127 }) >= 0 {
			e.Tag = "mb"
		}
		// classification only: a case-insensitive search would find u earlier than an exact one
		if strings.Index(strings.ToLower(s), strings.ToLower(u)) != strings.Index(s, u) ||
			strings.Index(strings.ToLower(s[min(len(s), len(string([]rune(s)[:min(m-1, len([]rune(s)))]))):]), strings.ToLower(u)) !=
				strings.Index(s[min(len(s), len(string([]rune(s)[:min(m-1, len([]rune(s)))]))):], u) {
			e.Tag += "+case"
		}
		e.In = map[string]interface{}{"s": cps(s), "t": cps(t), "u": cps(u), "sp": cps(sp), "n": n, "m": m}
	case "hex":
		x := make([]byte, r.Intn(13))
		r.Read(x)
		s := randStr(r, true, 6)
		e.In = map[string]interface{}{"x": ints(x), "s": cps(s), "p": r.Intn(2*len(x) + 1)}
	case "b64":
		n := r.Intn(20)
		if r.Intn(4) == 0 {
			n = 50 + r.Intn(70)
		}
		x := make([]byte, n)
		r.Read(x)
		e.In = map[string]interface{}{"x": ints(x), "p": r.Intn(100)}
	case "conv":
		n := r.Intn(2147483647)
		switch r.Intn(4) {
		case 0:
			n = r.Intn(40)
		case 1:
			n = r.Intn(70000)
		}
		e.In = map[string]interface{}{"n": n, "b": 2 + r.Intn(35)}
	case "inet":
		q := []int{r.Intn(256), r.Intn(256), r.Intn(256), r.Intn(256)}
		if r.Intn(3) == 0 {
			q[r.Intn(4)] = []int{0, 1, 127, 128, 255}[r.Intn(5)]
		}
		if q[0] >= 128 {
			e.Tag = "high"
		} else {
			e.Tag = "low"
		}
		e.In = map[string]interface{}{"q": q, "bad": r.Intn(4)}
	case "inet6":
		g := make([]int, 8)
		for i := range g {
			if r.Intn(3) > 0 {
				g[i] = r.Intn(65536)
			}
		}
		e.In = map[string]interface{}{"g": g}
	case "zip":
		s := randStr(r, r.Intn(2) == 0, 12)
		if r.Intn(2) == 0 {
			s = strings.Repeat(s, 1+r.Intn(20))
		}
		if strings.IndexFunc(s, func(c rune) bool { return c > 127 }) >= 0 {
			e.Tag = "mb"
		}
		e.In = map[string]interface{}{"s": cps(s)}
	case "round":
		fd := r.Intn(5)
		fv := 0
		if fd > 0 {
			fv = r.Intn(pow10(fd))
			if r.Intn(3) == 0 { // ties and near-ties
				fv = []int{5, 4, 6, 0, 9}[r.Intn(5)] * pow10(fd-1)
				if r.Intn(2) == 0 && fd > 1 {
					fv += []int{5, 0, 9}[r.Intn(3)] * pow10(fd-2)
				}
			}
		}
		ip := r.Intn(10000)
		if r.Intn(3) == 0 {
			ip = []int{0, 1, 9, 10, 99, 999, 9999, 5, 15, 25, 50, 150, 500}[r.Intn(13)]
		}
		e.In = map[string]interface{}{"neg": r.Intn(2) == 0, "ip": ip, "fv": fv, "fd": fd, "d": r.Intn(8) - 3}
		e.Tag = "dec"
	}
	return e
}

func pow10(n int) int {
	p := 1
	for i := 0; i < n; i++ {
		p *= 10
	}
	return p
}

func inStr(e *Ev, k string) string {
	v, ok := e.In[k]
	if !ok {
		vio.Fatal("event %d lacks input %q", e.ID, k)
	}
	switch x := v.(type) {
	case []int:
		return strOf(x)
	case []interface{}:
		c := make([]int, len(x))
		for i, y := range x {
			c[i] = int(y.(float64))
		}
		return strOf(c)
	}
	vio.Fatal("event %d input %q is not a code point array", e.ID, k)
	return ""
}

func inInts(e *Ev, k string) []int {
	switch x := e.In[k].(type) {
	case []int:
		return x
	case []interface{}:
		c := make([]int, len(x))
		for i, y := range x {
			c[i] = int(y.(float64))
		}
		return c
	}
	vio.Fatal("event %d input %q is not an integer array", e.ID, k)
	return nil
}

func inInt(e *Ev, k string) int {
	switch x := e.In[k].(type) {
	case int:
		return x
	case float64:
		return int(x)
	}
	vio.Fatal("event %d input %q is not an integer", e.ID, k)
	return 0
}

func inBool(e *Ev, k string) bool {
	b, _ := e.In[k].(bool)
	return b
}

const b64Alphabet = "ABCDEFGHIJKLMNOPQRSTUVWXYZabcdefghijklmnopqrstuvwxyz0123456789+/"

// exprsOf lists the expressions whose values event e records.
func exprsOf(e *Ev) []namedExpr {
	var out []namedExpr
	add := func(mode byte, name, format string, a ...interface{}) {
		out = append(out, namedExpr{name, fmt.Sprintf(format, a...), mode})
	}
	switch e.Ev {
	case "str":
		S, T, U, SP := strLit(inStr(e, "s")), strLit(inStr(e, "t")), strLit(inStr(e, "u")), strLit(inStr(e, "sp"))
		n, m := inInt(e, "n"), inInt(e, "m")
		add('s', "cl_s", "CHAR_LENGTH(%s)", S)
		add('s', "cl_t", "CHAR_LENGTH(%s)", T)
		add('s', "cl_u", "CHAR_LENGTH(%s)", U)
		add('s', "cl_st", "CHAR_LENGTH(CONCAT(%s, %s))", S, T)
		add('s', "bl_s", "LENGTH(%s)", S)
		add('s', "bl_t", "LENGTH(%s)", T)
		add('s', "bl_st", "LENGTH(CONCAT(%s, %s))", S, T)
		add('s', "cat", "CONCAT(%s, %s)", S, T)
		add('s', "rev", "REVERSE(%s)", S)
		add('s', "revrev", "REVERSE(REVERSE(%s))", S)
		add('s', "cl_rev", "CHAR_LENGTH(REVERSE(%s))", S)
		add('s', "left", "LEFT(%s, %d)", S, n)
		add('s', "rest", "SUBSTRING(%s, %d)", S, n+1)
		add('s', "right", "RIGHT(%s, %d)", S, n)
		add('s', "subneg", "SUBSTRING(%s, %d)", S, -n)
		add('s', "sub3", "SUBSTRING(%s, %d, %d)", S, m, n)
		add('s', "loc", "LOCATE(%s, %s)", U, S)
		add('s', "at", "SUBSTRING(%s, LOCATE(%s, %s), CHAR_LENGTH(%s))", S, U, S, U)
		add('s', "instr", "INSTR(%s, %s)", S, U)
		add('s', "pos", "POSITION(%s IN %s)", U, S)
		add('s', "loc3", "LOCATE(%s, %s, %d)", U, S, m)
		add('s', "at3", "SUBSTRING(%s, LOCATE(%s, %s, %d), CHAR_LENGTH(%s))", S, U, S, m, U)
		add('s', "ins", "INSERT(%s, %d, %d, %s)", S, m, n, T)
		// a count beyond every string length saturates: the literal is one of the classic overflow edges
		huge := []string{"2147483647", "2147483648", "4294967296", "9223372036854775807"}[(n+m)%4]
		add('s', "left_h", "LEFT(%s, %s)", S, huge)
		add('s', "right_h", "RIGHT(%s, %s)", S, huge)
		add('s', "sub3_h", "SUBSTRING(%s, %d, %s)", S, m, huge)
		add('s', "ins_h", "INSERT(%s, %d, %s, %s)", S, m, huge, T)
		add('s', "insl", "LEFT(%s, %d)", S, m-1)
		add('s', "insr", "SUBSTRING(%s, %d)", S, m+n)
		add('s', "lpad", "LPAD(%s, %d, %s)", S, n, U)
		add('s', "rpad", "RPAD(%s, %d, %s)", S, n, U)
		add('s', "cl_lpad", "CHAR_LENGTH(LPAD(%s, %d, %s))", S, n, U)
		add('s', "cl_rpad", "CHAR_LENGTH(RPAD(%s, %d, %s))", S, n, U)
		add('s', "rep", "REPLACE(%s, %s, %s)", S, U, T)
		add('s', "rep0", "REPLACE(%s, %s, '')", S, U)
		add('s', "repid", "REPLACE(%s, %s, %s)", S, U, U)
		add('s', "cl_rep", "CHAR_LENGTH(REPLACE(%s, %s, %s))", S, U, T)
		add('s', "cl_rep0", "CHAR_LENGTH(REPLACE(%s, %s, ''))", S, U)
		add('s', "trim", "TRIM(%s)", SP)
		add('s', "ltrim", "LTRIM(%s)", SP)
		add('s', "rtrim", "RTRIM(%s)", SP)
		add('s', "lrtrim", "LTRIM(RTRIM(%s))", SP)
		add('s', "repeat", "REPEAT(%s, %d)", U, n)
		add('s', "cl_repeat", "CHAR_LENGTH(REPEAT(%s, %d))", U, n)
		add('s', "unrep", "REPLACE(REPEAT(%s, %d), %s, '')", U, n, U)
		add('s', "low", "LOWER(%s)", S)
		add('s', "lowup", "LOWER(UPPER(%s))", S)
		add('s', "uplow", "UPPER(LOWER(%s))", S)
		add('s', "up", "UPPER(%s)", S)
	case "nullarg":
		S, U := strLit(inStr(e, "s")), strLit(inStr(e, "u"))
		n := inInt(e, "n")
		for i, q := range []string{
			"CONCAT(%[1]s, NULL)", "CONCAT(NULL, %[1]s)", "CHAR_LENGTH(NULL)", "LENGTH(NULL)", "REVERSE(NULL)", "UPPER(NULL)", "LOWER(NULL)",
			"LEFT(NULL, %[3]d)", "LEFT(%[1]s, NULL)", "RIGHT(NULL, %[3]d)", "RIGHT(%[1]s, NULL)", "SUBSTRING(NULL, %[3]d)",
			"SUBSTRING(%[1]s, NULL)", "SUBSTRING(%[1]s, %[3]d, NULL)", "LOCATE(NULL, %[1]s)", "LOCATE(%[2]s, NULL)",
			"INSTR(NULL, %[2]s)", "INSTR(%[1]s, NULL)", "INSERT(NULL, 1, %[3]d, %[2]s)", "INSERT(%[1]s, NULL, %[3]d, %[2]s)",
			"INSERT(%[1]s, 1, NULL, %[2]s)", "INSERT(%[1]s, 1, %[3]d, NULL)", "LPAD(NULL, %[3]d, %[2]s)", "LPAD(%[1]s, NULL, %[2]s)",
			"LPAD(%[1]s, %[3]d, NULL)", "RPAD(NULL, %[3]d, %[2]s)", "RPAD(%[1]s, NULL, %[2]s)", "RPAD(%[1]s, %[3]d, NULL)",
			"REPEAT(NULL, %[3]d)", "REPEAT(%[1]s, NULL)", "REPLACE(NULL, %[2]s, %[1]s)", "REPLACE(%[1]s, NULL, %[2]s)",
			"REPLACE(%[1]s, %[2]s, NULL)", "TRIM(NULL)", "LTRIM(NULL)", "RTRIM(NULL)", "TRIM(BOTH NULL FROM %[1]s)", "TRIM(BOTH %[2]s FROM NULL)",
			"SPACE(NULL)", "STRCMP(NULL, %[1]s)", "STRCMP(%[1]s, NULL)", "FIND_IN_SET(NULL, %[1]s)", "FIND_IN_SET(%[2]s, NULL)",
			"SUBSTRING_INDEX(NULL, %[2]s, %[3]d)", "SUBSTRING_INDEX(%[1]s, NULL, %[3]d)", "SUBSTRING_INDEX(%[1]s, %[2]s, NULL)",
			"ASCII(NULL)", "ORD(NULL)", "HEX(NULL)", "UNHEX(NULL)", "TO_BASE64(NULL)", "FROM_BASE64(NULL)", "CONV(NULL, 10, 2)",
			"CONV(%[3]d, NULL, 2)", "CONV(%[3]d, 10, NULL)", "INET_ATON(NULL)", "INET_NTOA(NULL)", "COMPRESS(NULL)", "UNCOMPRESS(NULL)",
			"ROUND(NULL)", "ROUND(NULL, %[3]d)", "ROUND(1.5, NULL)", "TRUNCATE(NULL, %[3]d)", "TRUNCATE(1.5, NULL)", "FLOOR(NULL)", "CEIL(NULL)",
		} {
			q = strings.NewReplacer("%[1]s", S, "%[2]s", U, "%[3]d", strconv.Itoa(n)).Replace(q)
			add('s', fmt.Sprintf("e%02d", i), "%s", q)
		}
	case "hex":
		x := bytesOf(inInts(e, "x"))
		L := "x'" + strings.ToUpper(hex.EncodeToString(x)) + "'"
		S := strLit(inStr(e, "s"))
		add('s', "h", "HEX(%s)", L)
		add('x', "u", "UNHEX(HEX(%s))", L)
		add('x', "ul", "UNHEX('%s')", hex.EncodeToString(x))
		add('s', "hs", "HEX(%s)", S)
		add('x', "us", "UNHEX(HEX(%s))", S)
		if len(x) > 0 {
			t := []byte(strings.ToUpper(hex.EncodeToString(x)))
			t[inInt(e, "p")%len(t)] = 'G'
			add('x', "bad", "UNHEX('%s')", string(t))
		}
	case "b64":
		x := bytesOf(inInts(e, "x"))
		L := "x'" + hex.EncodeToString(x) + "'"
		add('s', "b", "TO_BASE64(%s)", L)
		add('x', "back", "FROM_BASE64(TO_BASE64(%s))", L)
		// texts that are not base-64: a character outside the alphabet; a length that is not a multiple of 4
		p := inInt(e, "p")
		t := make([]byte, 4*(1+p%3))
		for i := range t {
			t[i] = b64Alphabet[(p*7+i*13)%64]
		}
		bc := append([]byte{}, t...)
		bc[p%len(bc)] = '!'
		add('x', "bad_char", "FROM_BASE64('%s')", string(bc))
		add('x', "bad_len", "FROM_BASE64('%s')", string(t[:len(t)-1-p%3]))
		add('x', "good", "FROM_BASE64('%s')", string(t))
	case "conv":
		n, b := inInt(e, "n"), inInt(e, "b")
		add('s', "c", "CONV(%d, 10, %d)", n, b)
		add('s', "back", "CONV(CONV(%d, 10, %d), %d, 10)", n, b, b)
		add('s', "backl", "CONV(LOWER(CONV(%d, 10, %d)), %d, 10)", n, b, b)
		add('s', "cs", "CONV('%d', 10, %d)", n, b)
	case "inet":
		q := inInts(e, "q")
		Q := fmt.Sprintf("'%d.%d.%d.%d'", q[0], q[1], q[2], q[3])
		add('s', "hi", "INET_ATON(%s) DIV 65536", Q)
		add('s', "lo", "INET_ATON(%s) MOD 65536", Q)
		add('s', "ntoa", "INET_NTOA(INET_ATON(%s))", Q)
		bad := append([]int{}, q...)
		bad[inInt(e, "bad")] = 256 + q[0]
		add('s', "bad", "INET_ATON('%d.%d.%d.%d')", bad[0], bad[1], bad[2], bad[3])
	case "inet6":
		g := inInts(e, "g")
		parts := make([]string, 8)
		for i, v := range g {
			parts[i] = fmt.Sprintf("%04x", v)
		}
		Q := "'" + strings.Join(parts, ":") + "'"
		add('s', "hx", "HEX(INET6_ATON(%s))", Q)
		add('s', "nt", "INET6_NTOA(INET6_ATON(%s))", Q)
		add('s', "back", "HEX(INET6_ATON(INET6_NTOA(INET6_ATON(%s))))", Q)
	case "zip":
		S := strLit(inStr(e, "s"))
		add('x', "u", "UNCOMPRESS(COMPRESS(%s))", S)
		add('s', "ul", "UNCOMPRESSED_LENGTH(COMPRESS(%s))", S)
		add('s', "bl", "LENGTH(%s)", S)
		add('s', "ce", "LENGTH(COMPRESS(''))")
	case "round":
		fd, d := inInt(e, "fd"), inInt(e, "d")
		X := strconv.Itoa(inInt(e, "ip"))
		if fd > 0 {
			X += "." + fmt.Sprintf("%0*d", fd, inInt(e, "fv"))
		}
		if inBool(e, "neg") {
			X = "-" + X
		}
		add('d', "rd", "ROUND(%s, %d)", X, d)
		add('d', "tr", "TRUNCATE(%s, %d)", X, d)
		add('d', "fl", "FLOOR(%s)", X)
		add('d', "ce", "CEIL(%s)", X)
		add('d', "cg", "CEILING(%s)", X)
		add('d', "r0", "ROUND(%s)", X)
	default:
		vio.Fatal("unknown event kind %q", e.Ev)
	}
	return out
}

// record executes the expressions of e and fills R / SQL.
func (x *sess) record(e *Ev) {
	ne := exprsOf(e)
	qs := make([]string, len(ne))
	for i, n := range ne {
		qs[i] = n.sql
	}
	e.R = map[string]interface{}{}
	e.SQL = map[string]string{}
	vals := make([]interface{}, len(ne))
	errs := make([]bool, len(ne))
	var sch sql.Schema
	run := func(lo, hi int) bool {
		r := x.s.Exec("SELECT " + strings.Join(qs[lo:hi], ", "))
		if r.Kind != "rows" || len(r.Raw) != 1 || len(r.Raw[0]) != hi-lo {
			return false
		}
		copy(vals[lo:hi], r.Raw[0])
		if sch == nil {
			sch = make(sql.Schema, len(ne))
		}
		copy(sch[lo:hi], r.Schema)
		return true
	}
	if !run(0, len(ne)) {
		for i := range ne {
			if !run(i, i+1) {
				errs[i] = true
			}
		}
	}
	ctx := x.s.Ctx()
	for i, n := range ne {
		e.SQL[n.name] = n.sql
		switch {
		case errs[i]:
			e.R[n.name] = vE()
		case n.mode == 'd':
			if vals[i] == nil {
				e.R[n.name] = vN()
				break
			}
			text := fmt.Sprint(vals[i])
			if sch != nil && sch[i] != nil {
				if sv, err := sch[i].Type.SQL(ctx, nil, vals[i]); err == nil {
					text = sv.ToString()
				}
			}
			e.R[n.name] = scaled(text)
		default:
			e.R[n.name] = tagged(ctx, vals[i], n.mode == 'x')
		}
	}
}

func gen(seed int64, n int, only map[int]bool, out string) {
	x := newSess()
	w, err := vio.NewWriter(out)
	if err != nil {
		vio.Fatal("%v", err)
	}
	rep := &vio.Report{Extra: map[string]interface{}{}}
	byEv := map[string]int{}
	for id := 1; id <= n; id++ {
		if only != nil && !only[id] {
			continue
		}
		e := genEvent(seed, id)
		x.record(e)
		w.Write(e)
		rep.Cases++
		byEv[e.Ev]++
		if len(rep.Samples) < 3 && id%len(kinds) == 3*len(rep.Samples) {
			rep.Samples = append(rep.Samples, e)
		}
	}
	w.Close()
	rep.Extra["by_event"] = byEv
	rep.Emit()
}

func execEvents(in, out string) {
	x := newSess()
	w, err := vio.NewWriter(out)
	if err != nil {
		vio.Fatal("%v", err)
	}
	rep := &vio.Report{Extra: map[string]interface{}{}}
	if err := vio.ReadNDJSON(in, func(i int, line []byte) error {
		var e Ev
		if err := json.Unmarshal(line, &e); err != nil {
			return err
		}
		x.record(&e)
		w.Write(&e)
		rep.Cases++
		return nil
	}); err != nil {
		vio.Fatal("%v", err)
	}
	w.Close()
	rep.Emit()
}

func main() {
	if len(os.Args) < 2 {
		vio.Fatal("usage: c34 replay|gen|exec ...")
	}
	fs := flag.NewFlagSet(os.Args[1], flag.ExitOnError)
	file := fs.String("file", "", "cases (replay)")
	batch := fs.Int("batch", 40, "expressions per SELECT (replay)")
	keep := fs.Int("keep", 6, "mismatches kept per signature (replay)")
	seed := fs.Int64("seed", 1, "seed (gen)")
	n := fs.Int("n", 100, "events (gen)")
	onlyS := fs.String("only", "", "comma separated event ids (gen)")
	in := fs.String("in", "", "input events (exec)")
	out := fs.String("out", "", "output trace (gen, exec)")
	fs.Parse(os.Args[2:])
	switch os.Args[1] {
	case "replay":
		replay(*file, *batch, *keep)
	case "gen":
		var only map[int]bool
		if *onlyS != "" {
			only = map[int]bool{}
			for _, s := range strings.Split(*onlyS, ",") {
				id, err := strconv.Atoi(s)
				if err != nil {
					vio.Fatal("bad id %q", s)
				}
				only[id] = true
			}
		}
		gen(*seed, *n, only, *out)
	case "exec":
		execEvents(*in, *out)
	default:
		vio.Fatal("unknown mode %q", os.Args[1])
	}
}
