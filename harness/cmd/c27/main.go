// c27: binding A of C27.  Executes the (type, value, mode) cases enumerated by TLC from
// spec/MC_StoreConv.tla: CREATE TABLE s (c <type>), INSERT [IGNORE] INTO s VALUES (<literal>),
// SHOW WARNINGS, SELECT c FROM s -- and compares outcome class (Stored / Rejected / Adjusted) and the
// canonical form of the value read back with TLC's expectation (string / code-point equality only).
// Also records, for every value that was stored and for a list of values of types the specification
// does not interpret, what Type.Convert returns when applied once and twice and what reads back
// (trace for spec/Trace_StoreConv.tla: the idempotence law).
package main

import (
	"context"
	"encoding/hex"
	"encoding/json"
	"flag"
	"fmt"
	"strconv"
	"strings"
	"time"
	"unicode/utf8"

	"github.com/cockroachdb/apd/v3"

	"github.com/dolthub/go-mysql-server/sql"

	"gmsverif/lib/eng"
	"gmsverif/lib/vio"
)

type JVal struct {
	K    string `json:"k"` // int | dec | str | names
	Num  string `json:"num"`
	Cps  []int  `json:"cps"`
	List string `json:"list"`
}

type JOut struct {
	O    string `json:"o"`    // Stored | Rejected | Adjusted
	Kind string `json:"kind"` // num | str | bytes | text | none
	S    string `json:"s"`
	Cps  []int  `json:"cps"`
}

type Case struct {
	DDL  string `json:"ddl"`
	TK   string `json:"tk"`
	Val  JVal   `json:"val"`
	Mode string `json:"mode"`
	Exp  JOut   `json:"exp"`
}

func (c *Case) Key() string {
	return fmt.Sprintf("%s|%s|%s|%s|%v|%s", c.DDL, c.Mode, c.Val.K, c.Val.Num, c.Val.Cps, c.Val.List)
}

func sqlString(cps []int) string {
	var b strings.Builder
	b.WriteByte('\'')
	for _, c := range cps {
		switch c {
		case '\'':
			b.WriteString("''")
		case '\\':
			b.WriteString("\\\\")
		default:
			b.WriteRune(rune(c))
		}
	}
	b.WriteByte('\'')
	return b.String()
}

func literal(v JVal) string {
	switch v.K {
	case "int", "dec":
		return v.Num
	case "str":
		return sqlString(v.Cps)
	case "names":
		cps := []int{}
		for _, r := range v.List {
			cps = append(cps, int(r))
		}
		return sqlString(cps)
	}
	return "NULL"
}

func numText(v interface{}) (string, bool) {
	switch x := v.(type) {
	case int8:
		return strconv.FormatInt(int64(x), 10), true
	case int16:
		return strconv.FormatInt(int64(x), 10), true
	case int32:
		return strconv.FormatInt(int64(x), 10), true
	case int64:
		return strconv.FormatInt(x, 10), true
	case int:
		return strconv.FormatInt(int64(x), 10), true
	case uint8:
		return strconv.FormatUint(uint64(x), 10), true
	case uint16:
		return strconv.FormatUint(uint64(x), 10), true
	case uint32:
		return strconv.FormatUint(uint64(x), 10), true
	case uint64:
		return strconv.FormatUint(x, 10), true
	case uint:
		return strconv.FormatUint(uint64(x), 10), true
	case *apd.Decimal:
		return x.Text('f'), true
	case apd.Decimal:
		return x.Text('f'), true
	}
	return "", false
}

// canonStored renders the value read back in the canonical form of the expectation kind.
func canonStored(ctx *sql.Context, typ sql.Type, tk string, v interface{}) JOut {
	out := JOut{Cps: []int{}}
	switch tk {
	case "int", "bit", "year", "decimal":
		out.Kind = "num"
		if s, ok := numText(v); ok {
			out.S = s
		} else {
			out.S = fmt.Sprintf("%T:%v", v, v)
		}
	case "char", "varchar":
		out.Kind = "str"
		switch x := v.(type) {
		case string:
			if !utf8.ValidString(x) {
				out.Kind = "invalid-utf8"
				for _, b := range []byte(x) {
					out.Cps = append(out.Cps, int(b))
				}
				return out
			}
			for _, r := range x {
				out.Cps = append(out.Cps, int(r))
			}
		default:
			out.Kind = fmt.Sprintf("%T", v)
		}
	case "binary", "varbinary":
		out.Kind = "bytes"
		switch x := v.(type) {
		case []byte:
			for _, b := range x {
				out.Cps = append(out.Cps, int(b))
			}
		case string:
			for _, b := range []byte(x) {
				out.Cps = append(out.Cps, int(b))
			}
		default:
			out.Kind = fmt.Sprintf("%T", v)
		}
	case "enum", "set":
		out.Kind = "text"
		sv, err := typ.SQL(ctx, nil, v)
		if err != nil {
			out.S = "error:" + err.Error()
		} else {
			out.S = sv.ToString()
		}
	}
	return out
}

// canonOpaque: an injective text form of an arbitrary Go value (for equality only).
func canonOpaque(v interface{}) string {
	switch x := v.(type) {
	case nil:
		return "NULL"
	case []byte:
		return "bytes:" + hex.EncodeToString(x)
	case string:
		return "string:" + hex.EncodeToString([]byte(x))
	case time.Time:
		return "time:" + x.UTC().Format("2006-01-02T15:04:05.000000000")
	case float64:
		return "f64:" + strconv.FormatFloat(x, 'g', -1, 64)
	case float32:
		return "f32:" + strconv.FormatFloat(float64(x), 'g', -1, 32)
	case *apd.Decimal:
		return "dec:" + x.Text('f')
	case sql.JSONWrapper:
		iv, err := x.ToInterface(context.Background())
		if err != nil {
			return "json-error:" + err.Error()
		}
		b, err := json.Marshal(iv) // encoding/json sorts object keys: a canonical text
		if err != nil {
			return "json-error:" + err.Error()
		}
		return "json:" + string(b)
	case fmt.Stringer:
		return fmt.Sprintf("%T:%s", v, x.String())
	}
	if s, ok := numText(v); ok {
		return fmt.Sprintf("%T:%s", v, s)
	}
	return fmt.Sprintf("%T:%v", v, v)
}

type Idem struct {
	Ev   string `json:"ev"`
	ID   int    `json:"id"`
	Type string `json:"type"`
	In   string `json:"in"`
	RB   string `json:"rb"` // read back from the table ("-" if n/a)
	C1   string `json:"c1"` // Type.Convert(input or stored value)
	C2   string `json:"c2"` // Type.Convert(c1)
}

func convertTwice(ctx *sql.Context, typ sql.Type, v interface{}) (c1, c2 string) {
	defer func() {
		if p := recover(); p != nil {
			if c1 == "" {
				c1 = fmt.Sprintf("panic:%v", p)
			}
			c2 = fmt.Sprintf("panic:%v", p)
		}
	}()
	a, _, err := typ.Convert(ctx, v)
	if err != nil {
		return "error:" + err.Error(), "-"
	}
	c1 = canonOpaque(a)
	b, _, err := typ.Convert(ctx, a)
	if err != nil {
		return c1, "error:" + err.Error()
	}
	return c1, canonOpaque(b)
}

type Got struct {
	O        string   `json:"o"`
	Stored   JOut     `json:"stored"`
	Warnings int      `json:"warnings"`
	Msg      string   `json:"msg,omitempty"`
	SQL      []string `json:"sql"`
}

type runner struct {
	s      *eng.Session
	tables map[string]string
	stmts  int
	tw     *vio.Writer
	nextID int
}

func (r *runner) table(ddl string) string {
	if t, ok := r.tables[ddl]; ok {
		r.s.MustExec("DELETE FROM " + t)
		r.stmts++
		return t
	}
	t := fmt.Sprintf("s%d", len(r.tables)+1)
	r.s.MustExec(fmt.Sprintf("CREATE TABLE %s (c %s)", t, ddl))
	r.stmts++
	r.tables[ddl] = t
	return t
}

func (r *runner) idem(typ sql.Type, in string, rb string, v interface{}) {
	if r.tw == nil {
		return
	}
	r.nextID++
	c1, c2 := convertTwice(r.s.Ctx(), typ, v)
	r.tw.Write(Idem{Ev: "idem", ID: r.nextID, Type: typ.String(), In: in, RB: rb, C1: c1, C2: c2})
}

func (r *runner) run(c *Case) Got {
	t := r.table(c.DDL)
	ins := "INSERT INTO"
	if c.Mode == "ignore" {
		ins = "INSERT IGNORE INTO"
	}
	q := fmt.Sprintf("%s %s VALUES (%s)", ins, t, literal(c.Val))
	g := Got{SQL: []string{"CREATE TABLE " + t + " (c " + c.DDL + ")", q}, Stored: JOut{Kind: "none", Cps: []int{}}}
	res := r.s.Exec(q)
	r.stmts++
	w := r.s.Exec("SHOW WARNINGS")
	r.stmts++
	if w.Kind == "rows" {
		g.Warnings = len(w.Raw)
	}
	sel := r.s.Exec("SELECT c FROM " + t)
	r.stmts++
	switch res.Kind {
	case "ok":
		g.O = "Stored"
		if g.Warnings > 0 {
			g.O = "Adjusted"
		}
	case "err":
		g.O = "Rejected"
		g.Msg = res.Msg
	default:
		g.O = res.Kind
		g.Msg = res.Msg
	}
	if sel.Kind != "rows" {
		g.O += "+select-" + sel.Kind
		g.Msg += " / " + sel.Msg
		return g
	}
	switch {
	case res.Kind == "ok" && len(sel.Raw) == 1:
		typ := sel.Schema[0].Type
		g.Stored = canonStored(r.s.Ctx(), typ, c.TK, sel.Raw[0][0])
		// idempotence of the conversion on the stored value
		r.idem(typ, "stored:"+c.Key(), canonOpaque(sel.Raw[0][0]), sel.Raw[0][0])
	case res.Kind == "ok":
		g.O += fmt.Sprintf("+%d-rows", len(sel.Raw))
	case len(sel.Raw) != 0:
		g.O += "+row-stored"
	}
	return g
}

func sameCps(a, b []int) bool {
	if len(a) != len(b) {
		return false
	}
	for i := range a {
		if a[i] != b[i] {
			return false
		}
	}
	return true
}

// opaque: values of types the specification does not interpret; only Convert-twice and read-back.
var opaque = []struct {
	ddl  string
	lits []string
}{
	{"DATE", []string{"'2024-02-29'", "'2024-2-9'", "20240229", "'2024-02-29 13:14:15'", "'1000-01-01'", "'9999-12-31'", "'0000-00-00'"}},
	{"DATETIME", []string{"'2024-02-29 12:34:56'", "'2024-02-29 12:34:56.4'", "'2024-02-29 12:34:56.6'", "'2024-02-29'", "20240229123456", "'1000-01-01 00:00:00'", "'9999-12-31 23:59:59'"}},
	{"DATETIME(6)", []string{"'2024-02-29 12:34:56.789012'", "'2024-02-29 12:34:56.1234567'", "'2024-02-29 12:34:56'"}},
	{"DATETIME(3)", []string{"'2024-02-29 12:34:56.7894'", "'2024-02-29 12:34:56.7895'", "'2024-12-31 23:59:59.9996'"}},
	{"TIMESTAMP", []string{"'2024-02-29 12:34:56'", "'1970-01-01 00:00:01'", "'2038-01-19 03:14:07'", "'2024-02-29 12:34:56.5'"}},
	{"TIME", []string{"'12:34:56'", "'-12:34:56'", "'838:59:59'", "'-838:59:59'", "'1 2:3:4'", "'00:00:00'", "123456", "'12:34:56.7'"}},
	{"JSON", []string{`'{"b": 1, "a": [1, 2, {"c": null}]}'`, "'1'", `'"x"'`, "'[]'", "'{}'", "'1.50'", "'true'", "'null'", `'{"a": 1, "a": 2}'`, `'{"k": 12345678901234567890}'`}},
	{"FLOAT", []string{"1.1", "16777217", "0.1", "-0", "3.4e38", "1e-45", "123456789"}},
	{"DOUBLE", []string{"0.1", "1e308", "-1.7976931348623157e308", "9007199254740993", "5e-324", "123456789012345678"}},
	{"TEXT", []string{"'abc'", "''", "'a  '", "'éé'"}},
	{"BLOB", []string{"'abc'", "''", "x'00ff00'"}},
	{"VARCHAR(5) COLLATE utf8mb4_0900_ai_ci", []string{"'Abc'", "'abc  '"}},
}

func (r *runner) runOpaque() (n int) {
	for _, o := range opaque {
		for _, lit := range o.lits {
			t := r.table(o.ddl)
			res := r.s.Exec(fmt.Sprintf("INSERT INTO %s VALUES (%s)", t, lit))
			r.stmts++
			if res.Kind != "ok" {
				continue // rejected inputs are not part of the law
			}
			sel := r.s.Exec("SELECT c FROM " + t)
			r.stmts++
			if sel.Kind != "rows" || len(sel.Raw) != 1 {
				r.nextID++
				r.tw.Write(Idem{Ev: "idem", ID: r.nextID, Type: o.ddl, In: lit, RB: "select:" + sel.Kind + sel.Msg, C1: "-", C2: "-"})
				continue
			}
			n++
			r.idem(sel.Schema[0].Type, o.ddl+"|"+lit, canonOpaque(sel.Raw[0][0]), sel.Raw[0][0])
		}
	}
	return n
}

func main() {
	file := flag.String("file", "", "cases (ndjson of CASE records printed by TLC)")
	trace := flag.String("trace", "", "write the idempotence trace (ndjson) here")
	withOpaque := flag.Bool("opaque", false, "also record the uninterpreted types")
	flag.Parse()
	db := eng.New()
	r := &runner{s: db.NewSession(), tables: map[string]string{}}
	if *trace != "" {
		tw, err := vio.NewWriter(*trace)
		if err != nil {
			vio.Fatal("%v", err)
		}
		r.tw = tw
		defer tw.Close()
	}
	rep := &vio.Report{Extra: map[string]interface{}{}}
	byType, byExp, byGot := map[string]int{}, map[string]int{}, map[string]int{}
	seen := map[string]bool{}
	err := vio.ReadNDJSON(*file, func(i int, line []byte) error {
		var c Case
		if err := json.Unmarshal(line, &c); err != nil {
			return err
		}
		if seen[c.Key()] {
			return nil
		}
		seen[c.Key()] = true
		rep.Cases++
		byType[c.TK]++
		byExp[c.Exp.O]++
		if c.Exp.O != "Stored" || len(c.Exp.S) > 2 || len(c.Exp.Cps) > 1 {
			rep.Nontrivial++
		}
		g := r.run(&c)
		byGot[g.O]++
		same := g.Stored.Kind == c.Exp.Kind && g.Stored.S == c.Exp.S && sameCps(g.Stored.Cps, c.Exp.Cps)
		if g.O != c.Exp.O || !same {
			tag := "value-same"
			if !same {
				tag = "value-differs"
				if g.Stored.Kind != c.Exp.Kind && g.Stored.Kind != "none" && c.Exp.Kind != "none" {
					tag = "value-kind-" + g.Stored.Kind
				} else if c.Exp.Kind == "num" && g.Stored.S == "-"+c.Exp.S && strings.Trim(c.Exp.S, "0.") == "" {
					tag = "value-negzero" // the expected text with a minus sign in front (expected is a zero)
				}
			}
			vk := c.Val.K
			for _, cp := range c.Val.Cps {
				if cp > 127 {
					vk = "str+mb" // the input has a multi-byte character
					break
				}
			}
			sig := fmt.Sprintf("C27|%s|%s|%s|%s|exp=%s|got=%s|%s", c.TK, strings.ReplaceAll(c.DDL, " ", "_"), c.Mode, vk, c.Exp.O, g.O, tag)
			rep.Mismatches = append(rep.Mismatches, vio.Mismatch{Case: i, Signature: sig, Expected: c.Exp, Got: g, Input: c})
		}
		if len(rep.Samples) < 4 && i%173 == 5 {
			rep.Samples = append(rep.Samples, map[string]interface{}{"sql": g.SQL, "expected": c.Exp, "engine": g})
		}
		return nil
	})
	if err != nil {
		vio.Fatal("%v", err)
	}
	if *withOpaque && r.tw != nil {
		rep.Extra["opaque_values_recorded"] = r.runOpaque()
	}
	rep.Extra["by_type"] = byType
	rep.Extra["by_expected"] = byExp
	rep.Extra["by_engine_outcome"] = byGot
	rep.Extra["statements"] = r.stmts
	rep.Extra["idem_events"] = r.nextID
	rep.Extra["mismatches_total"] = len(rep.Mismatches)
	rep.Emit()
}
