package main

import "strings"

// rep is one concrete representative statement of a statement kind of spec/ReadOnlyModes.tla.
// pre statements are session-local preparation (PREPARE, SET @x) executed in the same session
// under the same mode; the outcome of the representative is that of the first failing statement,
// else of the last one.
type rep struct {
	kind     string
	name     string
	pre      []string
	sql      string
	volatile bool   // result legitimately differs between two engines (ids, times): compare the kind only
	ordered  bool   // compare rows in order
	except   string // table features the engine does not support this statement shape on at all (same "unsupported" error in every mode)
}

func (r rep) runsOn(tab string) bool { return !strings.Contains(" "+r.except+" ", " "+tab+" ") }
func not(tabs string, r rep) rep     { r.except = tabs; return r }

// stmts renders the representative: $TMP = scratch directory, $T = the table of the case's table
// feature (shape kinds of spec/ReadOnlyModes.tla, TabsOf), $J = the join partner j1.
func (r rep) stmts(tmp, tab string) []string {
	var out []string
	for _, q := range append(append([]string{}, r.pre...), r.sql) {
		q = strings.ReplaceAll(q, "$TMP", tmp)
		if t, ok := featureTable[tab]; ok {
			q = strings.ReplaceAll(q, "$T", t)
		}
		out = append(out, q)
	}
	return out
}

// featureTable: the fixture's table for every table feature of the specification.  All of them
// have the columns (id, v) and the rows (1,1),(2,2),(3,3) (f2: (1,1),(2,2)).
var featureTable = map[string]string{
	"plain":     "p1", // PRIMARY KEY only: an unfiltered DELETE qualifies for the DELETE -> TRUNCATE rewrite
	"keyless":   "k1", // no primary key (qualifies too)
	"autoinc":   "a1", // AUTO_INCREMENT primary key (never rewritten)
	"trigger":   "g1", // BEFORE INSERT / BEFORE UPDATE / AFTER DELETE triggers (the last one writes into glog)
	"fk_parent": "f1", // referenced by f2.v ON DELETE CASCADE ON UPDATE CASCADE
	"fk_child":  "f2", // holds the foreign key
}

func k(kind, name, sql string, pre ...string) rep {
	return rep{kind: kind, name: name, sql: sql, pre: pre}
}
func vol(r rep) rep { r.volatile = true; return r }

// The fixture (main.go): d.t1(id,a,b; KEY ia; CHECK ck1), d.t2(id,t1id,c; fk1 -> t1), d.t3(id AUTO_INCREMENT, v),
// d.t4(id, w DEFAULT 5; trigger trg1), d.nopk(x,y), view d.v1, procedures d.p1 (read) d.pw d.pdel d.pupd d.pins (write),
// event d.ev1 (disabled), d2.x(i,j) in a second (always writable) database, empty database d3, accounts u1, u2, role r1,
// and the feature tables p1 k1 a1 g1(+glog) f1 f2 with the join partner j1 (see featureTable).
var reps = []rep{
	// ------------------------------------------------------------ writes: DML on tables of d
	k("insert_values", "insert_values", "INSERT INTO t1 VALUES (4,40,'w')"),
	k("insert_values", "insert_values_cols", "INSERT INTO t1 (id, a) VALUES (5,50),(6,60)"),
	k("insert_values", "insert_autoinc", "INSERT INTO t3 (v) VALUES (9)"),
	k("insert_values", "insert_with_trigger", "INSERT INTO t4 VALUES (3,3)"),
	k("insert_set", "insert_set", "INSERT INTO t1 SET id = 7, a = 70"),
	k("insert_select", "insert_select", "INSERT INTO t3 (v) SELECT a FROM t1"),
	k("insert_select", "insert_select_cte", "INSERT INTO t3 (v) WITH c AS (SELECT a FROM t1) SELECT a FROM c"),
	k("insert_select", "insert_select_other_source", "INSERT INTO t3 (v) SELECT j FROM d2.x"),
	k("insert_odku", "insert_odku_update", "INSERT INTO t1 VALUES (1,11,'q') ON DUPLICATE KEY UPDATE a = 11"),
	k("insert_odku", "insert_odku_insert", "INSERT INTO t1 VALUES (8,80,'q') ON DUPLICATE KEY UPDATE a = 11"),
	k("insert_ignore", "insert_ignore", "INSERT IGNORE INTO t1 VALUES (1,0,'dup'),(9,90,'n')"),
	k("replace", "replace_values_new", "REPLACE INTO t1 VALUES (10,100,'r')"),
	k("replace", "replace_values_existing", "REPLACE INTO t4 VALUES (1,111)"),
	k("replace", "replace_select", "REPLACE INTO t3 (id, v) SELECT id, a FROM t1"),
	k("update", "update_where", "UPDATE t1 SET a = a + 1 WHERE id = 2"),
	k("update", "update_all", "UPDATE t3 SET v = v + 1"),
	k("update", "update_order_limit", "UPDATE t3 SET v = 0 ORDER BY id DESC LIMIT 1"),
	k("update", "update_subquery", "UPDATE t4 SET w = (SELECT MAX(a) FROM t1) WHERE id = 1"),
	k("update_multi", "update_join", "UPDATE t2 JOIN t1 ON t2.t1id = t1.id SET t2.c = t1.a"),
	k("update_multi", "update_join_both", "UPDATE t4 JOIN t3 ON t4.id = t3.id SET t4.w = 77, t3.v = 78"),
	k("update_cte", "update_cte", "WITH c AS (SELECT id FROM t1 WHERE a > 10) UPDATE t4 SET w = 9 WHERE id IN (SELECT id FROM c)"),
	k("delete", "delete_where", "DELETE FROM t2 WHERE id = 1"),
	k("delete", "delete_all", "DELETE FROM t3"),
	k("delete", "delete_order_limit", "DELETE FROM t3 ORDER BY id LIMIT 1"),
	k("delete", "delete_subquery", "DELETE FROM t4 WHERE id IN (SELECT id FROM t1 WHERE a = 10)"),
	k("delete_multi", "delete_join", "DELETE t2 FROM t2 JOIN t1 ON t2.t1id = t1.id WHERE t1.a = 10"),
	k("delete_multi", "delete_join_two_targets", "DELETE t3, t4 FROM t3 JOIN t4 ON t3.id = t4.id"),
	k("delete_cte", "delete_cte", "WITH c AS (SELECT id FROM t1 WHERE a = 10) DELETE FROM t4 WHERE id IN (SELECT id FROM c)"),
	k("truncate", "truncate", "TRUNCATE TABLE t3"),
	k("truncate", "truncate_no_keyword", "TRUNCATE t4"),
	k("load_data", "load_data", "LOAD DATA INFILE '$TMP/load.csv' INTO TABLE t3 FIELDS TERMINATED BY ','"),
	k("execute_write", "execute_insert", "EXECUTE s1", "PREPARE s1 FROM 'INSERT INTO t1 VALUES (20,200,''p'')'"),
	k("execute_write", "execute_update_bind", "EXECUTE s1 USING @v", "SET @v = 2", "PREPARE s1 FROM 'UPDATE t1 SET a = 0 WHERE id = ?'"),
	k("execute_ddl", "execute_create_table", "EXECUTE s1", "PREPARE s1 FROM 'CREATE TABLE pt (i INT PRIMARY KEY)'"),
	k("execute_ddl", "execute_truncate", "EXECUTE s1", "PREPARE s1 FROM 'TRUNCATE TABLE p1'"),

	// ------------------------------------------------------------ writes: DML shapes x table features ($T)
	// an unfiltered single-table DELETE is the planner's DELETE -> TRUNCATE candidate
	k("delete_unfiltered", "delete_unfiltered", "DELETE FROM $T"),
	k("delete_unfiltered", "delete_unfiltered_qualified", "DELETE FROM d.$T"),
	k("delete_unfiltered", "delete_where_true", "DELETE FROM $T WHERE 1 = 1"),
	k("delete_limit", "delete_limit", "DELETE FROM $T LIMIT 1"),
	k("delete_limit", "delete_order_by", "DELETE FROM $T ORDER BY id DESC"),
	k("delete_limit", "delete_order_by_limit", "DELETE FROM $T ORDER BY id DESC LIMIT 2"),
	k("update_unfiltered", "update_unfiltered", "UPDATE $T SET v = v + 1"),
	k("update_unfiltered", "update_unfiltered_two_columns", "UPDATE $T SET v = v + 1, id = id + 10"),
	k("update_limit", "update_limit", "UPDATE $T SET v = v + 1 LIMIT 1"),
	k("update_limit", "update_order_by_limit", "UPDATE $T SET v = v + 1 ORDER BY id DESC LIMIT 2"),
	k("insert_shape", "insert_shape_values", "INSERT INTO $T (id, v) VALUES (9, 1)"),
	k("insert_shape", "insert_shape_select_self", "INSERT INTO $T (id, v) SELECT id + 10, v FROM $T"),
	k("insert_shape", "insert_shape_select_other", "INSERT INTO $T (id, v) SELECT id + 20, v FROM j1"),
	k("insert_shape", "insert_shape_odku", "INSERT INTO $T (id, v) VALUES (1, 2) ON DUPLICATE KEY UPDATE v = v + 1"),
	k("insert_shape", "insert_shape_ignore", "INSERT IGNORE INTO $T (id, v) VALUES (1, 2), (8, 2)"),
	k("replace_shape", "replace_shape_values", "REPLACE INTO $T (id, v) VALUES (2, 3)"),
	k("replace_shape", "replace_shape_select", "REPLACE INTO $T (id, v) SELECT id + 1, v FROM j1"),
	not("keyless", k("multi_table_shape", "update_join_shape", "UPDATE $T JOIN j1 ON $T.id = j1.id SET $T.v = j1.v + 1")), // "keyless tables unsupported for UPDATE JOIN"
	not("trigger", k("multi_table_shape", "delete_join_shape", "DELETE $T FROM $T JOIN j1 ON $T.id = j1.id")),             // "delete from with explicit target tables does not support triggers"
	k("multi_table_shape", "delete_join_subquery_shape", "DELETE FROM $T WHERE id IN (SELECT id FROM j1)"),
	k("load_data_shape", "load_data_shape", "LOAD DATA INFILE '$TMP/load.csv' INTO TABLE $T FIELDS TERMINATED BY ','"),
	k("execute_shape", "execute_delete_unfiltered", "EXECUTE s1", "PREPARE s1 FROM 'DELETE FROM $T'"),
	k("execute_shape", "execute_update_unfiltered", "EXECUTE s1", "PREPARE s1 FROM 'UPDATE $T SET v = v + 1'"),
	k("execute_shape", "execute_insert_select", "EXECUTE s1", "PREPARE s1 FROM 'INSERT INTO $T (id, v) SELECT id + 10, v FROM $T'"),
	k("execute_shape", "execute_delete_bind", "EXECUTE s1 USING @v", "SET @v = 1", "PREPARE s1 FROM 'DELETE FROM $T WHERE id >= ?'"),
	k("truncate_shape", "truncate_shape", "TRUNCATE TABLE $T"),
	// CALL of procedures whose body writes (fixture: pw INSERT INTO t3, pdel DELETE FROM p1, pupd UPDATE g1, pins INSERT .. SELECT into a1)
	k("call_write", "call_write_insert", "CALL pw()"),
	k("call_write", "call_write_delete_unfiltered", "CALL pdel()"),
	k("call_write", "call_write_update_trigger_table", "CALL pupd()"),
	k("call_write", "call_write_insert_select", "CALL pins()"),

	// ------------------------------------------------------------ writes: DDL on objects of d
	k("create_table", "create_table", "CREATE TABLE n1 (i INT PRIMARY KEY, j VARCHAR(10))"),
	k("create_table", "create_table_if_not_exists", "CREATE TABLE IF NOT EXISTS n1 (i INT)"),
	k("create_table", "create_table_fk", "CREATE TABLE n2 (i INT PRIMARY KEY, r INT, FOREIGN KEY (r) REFERENCES t1(id))"),
	k("create_table_like", "create_table_like", "CREATE TABLE n3 LIKE t1"),
	k("create_table_select", "create_table_select", "CREATE TABLE n4 AS SELECT id, a FROM t1"),
	k("drop_table", "drop_table", "DROP TABLE t3"),
	k("drop_table", "drop_table_if_exists", "DROP TABLE IF EXISTS t4"),
	k("drop_table", "drop_two_tables", "DROP TABLE t3, t4"),
	k("rename_table", "rename_table", "RENAME TABLE t3 TO t3r"),
	k("rename_table", "alter_table_rename", "ALTER TABLE t3 RENAME TO t3r"),
	k("alter_add_column", "add_column", "ALTER TABLE t3 ADD COLUMN n INT"),
	k("alter_add_column", "add_column_first", "ALTER TABLE t3 ADD COLUMN n INT DEFAULT 1 FIRST"),
	k("alter_add_column", "add_column_after", "ALTER TABLE t1 ADD COLUMN n INT AFTER a"),
	k("alter_drop_column", "drop_column", "ALTER TABLE t3 DROP COLUMN v"),
	k("alter_modify_column", "modify_column", "ALTER TABLE t3 MODIFY COLUMN v BIGINT"),
	k("alter_modify_column", "modify_column_not_null", "ALTER TABLE t3 MODIFY COLUMN v INT NOT NULL"),
	k("alter_modify_column", "change_column", "ALTER TABLE t3 CHANGE COLUMN v vv BIGINT"),
	k("alter_rename_column", "rename_column", "ALTER TABLE t3 RENAME COLUMN v TO vv"),
	k("alter_column_default", "set_default", "ALTER TABLE t3 ALTER COLUMN v SET DEFAULT 3"),
	k("alter_column_default", "drop_default", "ALTER TABLE t4 ALTER COLUMN w DROP DEFAULT"),
	k("create_index", "create_index", "CREATE INDEX ib ON t1 (b)"),
	k("create_index", "create_unique_index", "CREATE UNIQUE INDEX uv ON t3 (v)"),
	k("create_index", "alter_add_index", "ALTER TABLE t1 ADD INDEX ib (b)"),
	k("create_index", "alter_add_unique", "ALTER TABLE t3 ADD UNIQUE KEY uv (v)"),
	k("drop_index", "drop_index", "DROP INDEX ia ON t1"),
	k("drop_index", "alter_drop_index", "ALTER TABLE t1 DROP INDEX ia"),
	k("rename_index", "alter_rename_index", "ALTER TABLE t1 RENAME INDEX ia TO ia2"),
	k("alter_add_pk", "add_primary_key", "ALTER TABLE nopk ADD PRIMARY KEY (x)"),
	k("alter_drop_pk", "drop_primary_key", "ALTER TABLE t4 DROP PRIMARY KEY"),
	k("alter_add_fk", "add_foreign_key", "ALTER TABLE t4 ADD CONSTRAINT fk4 FOREIGN KEY (id) REFERENCES t1(id)"),
	k("alter_drop_fk", "drop_foreign_key", "ALTER TABLE t2 DROP FOREIGN KEY fk1"),
	k("alter_drop_fk", "drop_constraint_fk", "ALTER TABLE t2 DROP CONSTRAINT fk1"),
	k("alter_add_check", "add_check", "ALTER TABLE t3 ADD CONSTRAINT ck3 CHECK (v < 1000)"),
	k("alter_drop_check", "drop_check", "ALTER TABLE t1 DROP CHECK ck1"),
	k("alter_drop_check", "drop_constraint_check", "ALTER TABLE t1 DROP CONSTRAINT ck1"),
	k("alter_auto_increment", "alter_auto_increment", "ALTER TABLE t3 AUTO_INCREMENT = 100"),
	k("alter_table_collation", "alter_table_collation", "ALTER TABLE t1 COLLATE utf8mb4_bin"),
	k("alter_table_comment", "alter_table_comment", "ALTER TABLE t1 COMMENT = 'hello'"),
	k("alter_multi", "alter_two_clauses", "ALTER TABLE t3 ADD COLUMN n INT, DROP COLUMN v"),
	k("create_view", "create_view", "CREATE VIEW v2 AS SELECT id FROM t2"),
	k("create_view", "create_or_replace_view", "CREATE OR REPLACE VIEW v1 AS SELECT id FROM t1"),
	k("drop_view", "drop_view", "DROP VIEW v1"),
	k("drop_view", "drop_view_if_exists", "DROP VIEW IF EXISTS v1"),
	k("create_trigger", "create_trigger", "CREATE TRIGGER trg2 BEFORE UPDATE ON t3 FOR EACH ROW SET NEW.v = NEW.v + 1"),
	k("create_trigger", "create_trigger_after", "CREATE TRIGGER trg3 AFTER DELETE ON t3 FOR EACH ROW DELETE FROM t4 WHERE id = OLD.id"),
	k("drop_trigger", "drop_trigger", "DROP TRIGGER trg1"),
	k("create_procedure", "create_procedure", "CREATE PROCEDURE p2() SELECT 1"),
	k("create_procedure", "create_procedure_args", "CREATE PROCEDURE p3(IN n INT) BEGIN INSERT INTO t3 (v) VALUES (n); END"),
	k("drop_procedure", "drop_procedure", "DROP PROCEDURE p1"),
	k("create_event", "create_event", "CREATE EVENT ev2 ON SCHEDULE EVERY 1 DAY DISABLE DO INSERT INTO t3 (v) VALUES (1)"),
	k("drop_event", "drop_event", "DROP EVENT ev1"),
	k("alter_event", "alter_event", "ALTER EVENT ev1 RENAME TO ev9"),
	k("alter_database", "alter_database_collation", "ALTER DATABASE d COLLATE utf8mb4_bin"),
	k("drop_database_self", "drop_database_d", "DROP DATABASE d"),

	// ------------------------------------------------------------ writes on another (writable) database
	k("dml_other_db", "insert_other_db", "INSERT INTO d2.x VALUES (3,3)"),
	k("dml_other_db", "update_other_db", "UPDATE d2.x SET j = 9 WHERE i = 1"),
	k("dml_other_db", "delete_other_db", "DELETE FROM d2.x WHERE i = 1"),
	k("dml_other_db", "insert_other_db_from_d", "INSERT INTO d2.x SELECT id + 10, a FROM d.t1"),
	k("ddl_other_db", "create_table_other_db", "CREATE TABLE d2.y (i INT PRIMARY KEY)"),
	k("ddl_other_db", "create_table_other_db_like_d", "CREATE TABLE d2.y LIKE d.t1"),
	k("ddl_other_db", "create_table_other_db_select_d", "CREATE TABLE d2.y AS SELECT id, a FROM d.t1"),
	k("ddl_other_db", "alter_other_db", "ALTER TABLE d2.x ADD COLUMN k INT"),
	k("ddl_other_db", "drop_table_other_db", "DROP TABLE d2.x"),

	// ------------------------------------------------------------ writes: server-level objects
	k("create_database", "create_database", "CREATE DATABASE d4"),
	k("create_database", "create_schema", "CREATE SCHEMA d4"),
	k("drop_database", "drop_database", "DROP DATABASE d3"),
	k("drop_database", "drop_database_with_tables", "DROP DATABASE d2"),
	k("create_user", "create_user", "CREATE USER u3@localhost"),
	k("create_user", "create_user_password", "CREATE USER u3@localhost IDENTIFIED BY 'pw'"),
	k("drop_user", "drop_user", "DROP USER u1@localhost"),
	k("alter_user", "alter_user_password", "ALTER USER u1@localhost IDENTIFIED BY 'newpw'"),
	k("create_role", "create_role", "CREATE ROLE r2"),
	k("drop_role", "drop_role", "DROP ROLE r1"),
	k("grant", "grant_table", "GRANT INSERT ON d.t1 TO u1@localhost"),
	k("grant", "grant_global", "GRANT SELECT ON *.* TO u2@localhost"),
	k("revoke", "revoke_db", "REVOKE SELECT ON d.* FROM u1@localhost"),
	k("revoke", "revoke_table", "REVOKE UPDATE ON d.t2 FROM u1@localhost"),
	k("grant_role", "grant_role", "GRANT r1 TO u1@localhost"),
	k("revoke_role", "revoke_role", "REVOKE r1 FROM u2@localhost"),

	// ------------------------------------------------------------ reads
	k("select", "select_all", "SELECT * FROM t1"),
	k("select", "select_where_index", "SELECT id, b FROM t1 WHERE a = 20"),
	k("select", "select_no_table", "SELECT 1 + 1, 'x'"),
	k("select", "select_join", "SELECT t1.id, t2.c FROM t1 JOIN t2 ON t2.t1id = t1.id"),
	k("select", "select_left_join", "SELECT t1.id, t2.c FROM t1 LEFT JOIN t2 ON t2.t1id = t1.id"),
	k("select", "select_subquery", "SELECT id FROM t1 WHERE id IN (SELECT t1id FROM t2)"),
	k("select", "select_exists", "SELECT id FROM t1 WHERE EXISTS (SELECT 1 FROM t2 WHERE t2.t1id = t1.id)"),
	k("select", "select_group", "SELECT a % 20, COUNT(*) FROM t1 GROUP BY a % 20"),
	k("select", "select_window", "SELECT id, SUM(a) OVER (ORDER BY id) FROM t1"),
	k("select", "select_distinct_order_limit", "SELECT DISTINCT a FROM t1 ORDER BY a DESC LIMIT 2"),
	k("select", "select_derived", "SELECT s.m FROM (SELECT MAX(a) m FROM t1) s"),
	k("select", "select_other_db", "SELECT * FROM d2.x"),
	k("select_cte", "select_cte", "WITH c AS (SELECT id, a FROM t1) SELECT * FROM c WHERE a > 10"),
	k("select_cte", "select_recursive_cte", "WITH RECURSIVE r (n) AS (SELECT 1 UNION ALL SELECT n + 1 FROM r WHERE n < 4) SELECT * FROM r"),
	k("select_setop", "select_union", "SELECT id FROM t1 UNION SELECT id FROM t2"),
	k("select_setop", "select_union_all", "SELECT id FROM t1 UNION ALL SELECT id FROM t3"),
	k("select_setop", "select_intersect", "SELECT id FROM t1 INTERSECT SELECT id FROM t2"),
	k("select_setop", "select_except", "SELECT id FROM t1 EXCEPT SELECT id FROM t2"),
	k("select_view", "select_view", "SELECT * FROM v1"),
	k("select_info_schema", "select_is_tables", "SELECT table_name FROM information_schema.tables WHERE table_schema = 'd'"),
	k("select_info_schema", "select_is_columns", "SELECT table_name, column_name FROM information_schema.columns WHERE table_schema = 'd'"),
	k("select_table_function", "select_json_table", "SELECT * FROM JSON_TABLE('[{\"a\":1},{\"a\":2}]', '$[*]' COLUMNS (a INT PATH '$.a')) jt"),
	k("select_vars", "select_sysvar", "SELECT @@autocommit, @@session.sql_mode IS NOT NULL"),
	k("select_vars", "select_uservar", "SELECT @uv", "SET @uv = 42"),
	k("table_stmt", "table_stmt", "TABLE t1"),
	k("values_stmt", "values_stmt", "VALUES ROW(1,2), ROW(3,4)"),
	k("show_tables", "show_tables", "SHOW TABLES"),
	k("show_tables", "show_full_tables", "SHOW FULL TABLES"),
	k("show_tables", "show_tables_from", "SHOW TABLES FROM d2"),
	k("show_create_table", "show_create_table", "SHOW CREATE TABLE t2"),
	k("show_create_view", "show_create_view", "SHOW CREATE VIEW v1"),
	vol(k("show_create_trigger", "show_create_trigger", "SHOW CREATE TRIGGER trg1")), // Created column
	k("show_create_procedure", "show_create_procedure", "SHOW CREATE PROCEDURE p1"),
	vol(k("show_create_event", "show_create_event", "SHOW CREATE EVENT ev1")),
	k("show_create_database", "show_create_database", "SHOW CREATE DATABASE d"),
	k("show_columns", "show_columns", "SHOW COLUMNS FROM t1"),
	k("show_columns", "show_full_columns", "SHOW FULL COLUMNS FROM t2"),
	k("show_index", "show_index", "SHOW INDEX FROM t1"),
	k("show_index", "show_keys", "SHOW KEYS FROM t2"),
	vol(k("show_triggers", "show_triggers", "SHOW TRIGGERS")), // Created column
	vol(k("show_events", "show_events", "SHOW EVENTS")),
	vol(k("show_routine_status", "show_procedure_status", "SHOW PROCEDURE STATUS")),
	k("show_routine_status", "show_function_status", "SHOW FUNCTION STATUS"),
	vol(k("show_table_status", "show_table_status", "SHOW TABLE STATUS")),
	k("show_variables", "show_variables_like", "SHOW VARIABLES LIKE 'autocommit'"),
	k("show_variables", "show_session_variables_like", "SHOW SESSION VARIABLES LIKE 'sql_mode'"),
	k("show_databases", "show_databases", "SHOW DATABASES"),
	k("show_databases", "show_schemas", "SHOW SCHEMAS"),
	k("show_warnings", "show_warnings", "SHOW WARNINGS"),
	k("show_collation", "show_collation", "SHOW COLLATION LIKE 'utf8mb4_bin'"),
	k("show_charset", "show_charset", "SHOW CHARSET LIKE 'utf8mb4'"),
	k("show_engines", "show_engines", "SHOW ENGINES"),
	vol(k("show_status", "show_status", "SHOW STATUS LIKE 'Threads%'")),
	k("show_plugins", "show_plugins", "SHOW PLUGINS"),
	vol(k("show_processlist", "show_processlist", "SHOW PROCESSLIST")),
	k("show_grants", "show_grants", "SHOW GRANTS"),
	k("show_grants", "show_grants_for", "SHOW GRANTS FOR u1@localhost"),
	k("show_privileges", "show_privileges", "SHOW PRIVILEGES"),
	k("describe", "describe_table", "DESCRIBE t1"),
	k("describe", "desc_table", "DESC t2"),
	vol(k("explain", "explain_select", "EXPLAIN SELECT * FROM t1 WHERE a = 10")),
	vol(k("explain", "explain_plan_select", "EXPLAIN PLAN SELECT t1.id FROM t1 JOIN t2 ON t1.id = t2.t1id")),
	k("use", "use_db", "USE d2"),
	k("use", "use_same_db", "USE d"),
	k("set_session", "set_session_var", "SET SESSION sql_select_limit = 10"),
	k("set_session", "set_sysvar_plain", "SET sql_select_limit = 5"),
	k("set_session", "set_at_at_session", "SET @@session.sql_select_limit = 7"),
	k("set_session", "set_names", "SET NAMES utf8mb4"),
	k("set_session", "set_character_set", "SET CHARACTER SET utf8mb4"),
	k("set_user_var", "set_user_var", "SET @a = 1"),
	k("set_user_var", "set_user_var_expr", "SET @a = (SELECT MAX(a) FROM t1)"),
	k("prepare_read", "prepare_select", "PREPARE s1 FROM 'SELECT * FROM t1 WHERE id = ?'"),
	k("execute_read", "execute_select", "EXECUTE s1", "PREPARE s1 FROM 'SELECT * FROM t1'"),
	k("execute_read", "execute_select_bind", "EXECUTE s1 USING @v", "SET @v = 2", "PREPARE s1 FROM 'SELECT * FROM t1 WHERE id = ?'"),
	k("deallocate", "deallocate", "DEALLOCATE PREPARE s1", "PREPARE s1 FROM 'SELECT 1'"),

	// ------------------------------------------------------------ unjudged (executed, recorded, never compared)
	k("temp_table", "create_temporary_table", "CREATE TEMPORARY TABLE tt (i INT PRIMARY KEY)"),
	k("temp_table", "insert_temporary_table", "INSERT INTO tt VALUES (1)", "CREATE TEMPORARY TABLE tt (i INT PRIMARY KEY)"),
	k("temp_table", "drop_temporary_table", "DROP TEMPORARY TABLE tt", "CREATE TEMPORARY TABLE tt (i INT PRIMARY KEY)"),
	k("analyze_table", "analyze_table", "ANALYZE TABLE t1"),
	k("call", "call_read_procedure", "CALL p1()"),
	k("lock_tables", "lock_tables_read", "LOCK TABLES t1 READ"),
	k("lock_tables", "lock_tables_write", "LOCK TABLES t1 WRITE"),
	k("lock_tables", "unlock_tables", "UNLOCK TABLES"),
	k("flush", "flush_privileges", "FLUSH PRIVILEGES"),
	k("flush", "flush_tables", "FLUSH TABLES"),
	k("txn_control", "begin", "BEGIN"),
	k("txn_control", "start_transaction", "START TRANSACTION"),
	k("txn_control", "start_transaction_read_write", "START TRANSACTION READ WRITE"),
	k("txn_control", "start_transaction_read_only", "START TRANSACTION READ ONLY"),
	k("txn_control", "commit", "COMMIT"),
	k("txn_control", "rollback", "ROLLBACK"),
	k("txn_control", "savepoint", "SAVEPOINT sp1"),
	k("txn_control", "rollback_to_savepoint", "ROLLBACK TO SAVEPOINT sp1", "SAVEPOINT sp1"),
	k("txn_control", "release_savepoint", "RELEASE SAVEPOINT sp1", "SAVEPOINT sp1"),
	k("txn_control", "set_autocommit", "SET autocommit = 0"),
	k("txn_control", "set_transaction", "SET TRANSACTION READ WRITE"),
	k("select_into", "select_into_outfile", "SELECT * FROM t1 INTO OUTFILE '$TMP/out.txt'"),
	k("select_into", "select_into_dumpfile", "SELECT b FROM t1 WHERE id = 1 INTO DUMPFILE '$TMP/dump.txt'"),
	k("select_into", "select_into_var", "SELECT a FROM t1 WHERE id = 1 INTO @v"),
	k("select_for_update", "select_for_update", "SELECT * FROM t1 FOR UPDATE"),
	k("named_locks", "get_lock", "SELECT GET_LOCK('l1', 0)"),
	k("named_locks", "release_lock", "SELECT RELEASE_LOCK('l1')"),
	k("named_locks", "release_all_locks", "SELECT RELEASE_ALL_LOCKS()"),
	k("kill", "kill_query", "KILL QUERY 12345"),
	k("kill", "kill_connection", "KILL 12345"),
	k("set_global", "set_global", "SET GLOBAL max_connections = 200"),
	k("set_global", "set_persist", "SET PERSIST max_connections = 200"),
	k("set_global", "set_at_at_global", "SET @@global.max_connections = 300"),
	k("prepare_write", "prepare_insert", "PREPARE s1 FROM 'INSERT INTO t1 VALUES (30,300,''p'')'"),
	k("explain_write", "explain_insert", "EXPLAIN INSERT INTO t1 VALUES (40,400,'e')"),
	k("explain_write", "explain_update", "EXPLAIN UPDATE t1 SET a = 1"),
	k("explain_write", "explain_analyze_select", "EXPLAIN ANALYZE SELECT * FROM t1"),
	k("replication", "stop_replica", "STOP REPLICA"),
	k("replication", "start_replica", "START REPLICA"),
	k("replication", "reset_replica", "RESET REPLICA"),
	k("replication", "show_replica_status", "SHOW REPLICA STATUS"),
	k("replication", "show_binary_logs", "SHOW BINARY LOGS"),
	k("signal", "signal", "SIGNAL SQLSTATE '45000' SET MESSAGE_TEXT = 'boom'"),
}
