// c42: binding A of C42 (read-only modes).  Reads the (mode, statement kind) cases enumerated by TLC
// from spec/ReadOnlyModes.tla, executes every representative statement of the kind (reps.go) on a
// freshly populated engine under that mode AND on an identically populated read-write engine, and
// records for each: outcome class, whether the digest of all data + catalog changed, and whether
// the result equals the read-write engine's.  No verdict is taken here: spec/Trace_ReadOnly.tla
// judges the recorded observations with the rule of the specification.
package main

import (
	"context"
	"crypto/sha1"
	"encoding/hex"
	"encoding/json"
	"flag"
	"fmt"
	"os"
	"path/filepath"
	"sort"
	"strings"

	sqle "github.com/dolthub/go-mysql-server"
	"github.com/dolthub/go-mysql-server/memory"
	"github.com/dolthub/go-mysql-server/sql"
	"github.com/dolthub/go-mysql-server/sql/analyzer"
	"github.com/dolthub/go-mysql-server/sql/mysql_db"
	"github.com/dolthub/go-mysql-server/sql/types"

	"gmsverif/lib/vio"
)

// ---------------------------------------------------------------- fixture

type fix struct {
	e      *sqle.Engine
	pro    *memory.DbProvider
	nextID uint32
}

type sess struct {
	f *fix
	s *memory.Session
}

func (f *fix) session() *sess {
	f.nextID++
	base := sql.NewBaseSessionWithClientServer("srv", sql.Client{User: "root", Address: "localhost"}, f.nextID)
	s := memory.NewSession(base, f.pro)
	s.SetCurrentDatabase("d")
	return &sess{f, s}
}

type result struct {
	Kind string // rows | ok | err | panic
	Msg  string
	Rows []string // every row printed with %v, in result order
	Aff  uint64
}

func (s *sess) execOn(e *sqle.Engine, q string) (res result) {
	defer func() {
		if r := recover(); r != nil {
			res = result{Kind: "panic", Msg: fmt.Sprint(r)}
		}
	}()
	ctx := sql.NewContext(context.Background(), sql.WithSession(s.s))
	sch, iter, _, err := e.Query(ctx, q)
	if err != nil {
		return result{Kind: "err", Msg: err.Error()}
	}
	rows, err := sql.RowIterToRows(ctx, iter)
	if err != nil {
		return result{Kind: "err", Msg: err.Error()}
	}
	if len(sch) == 1 && sch[0].Name == types.OkResultColumnName && len(rows) == 1 {
		if ok, isOk := rows[0][0].(types.OkResult); isOk {
			return result{Kind: "ok", Aff: ok.RowsAffected}
		}
	}
	out := make([]string, len(rows))
	for i, r := range rows {
		out[i] = fmt.Sprintf("%v", []interface{}(r))
	}
	return result{Kind: "rows", Rows: out}
}

func (s *sess) exec(q string) result { return s.execOn(s.f.e, q) }

func must(s *sess, e *sqle.Engine, q string) {
	if r := s.execOn(e, q); r.Kind == "err" || r.Kind == "panic" {
		vio.Fatal("fixture statement failed: %s: %s", q, r.Msg)
	}
}

// objects inside the databases (phase 1, through a plain read-write engine)
var fixtureDB = []string{
	"CREATE TABLE t1 (id INT PRIMARY KEY, a INT, b VARCHAR(20), KEY ia (a), CONSTRAINT ck1 CHECK (a < 1000))",
	"INSERT INTO t1 VALUES (1,10,'x'),(2,20,'y'),(3,30,'z')",
	"CREATE TABLE t2 (id INT PRIMARY KEY, t1id INT, c INT, KEY it (t1id), CONSTRAINT fk1 FOREIGN KEY (t1id) REFERENCES t1(id))",
	"INSERT INTO t2 VALUES (1,1,100),(2,2,200)",
	"CREATE TABLE t3 (id INT PRIMARY KEY AUTO_INCREMENT, v INT)",
	"INSERT INTO t3 (v) VALUES (7),(8)",
	"CREATE TABLE t4 (id INT PRIMARY KEY, w INT DEFAULT 5)",
	"INSERT INTO t4 VALUES (1,1),(2,2)",
	"CREATE TABLE nopk (x INT NOT NULL, y INT)",
	"INSERT INTO nopk VALUES (1,1),(2,2)",
	"CREATE VIEW v1 AS SELECT id, a FROM t1",
	"CREATE TRIGGER trg1 BEFORE INSERT ON t4 FOR EACH ROW SET NEW.w = NEW.w + 1",
	"CREATE PROCEDURE p1() SELECT COUNT(*) FROM t1",
	"CREATE PROCEDURE pw() INSERT INTO t3 (v) VALUES (99)",
	"CREATE EVENT ev1 ON SCHEDULE EVERY 1 DAY DISABLE DO SELECT 1",
	// the table features of spec/ReadOnlyModes.tla (reps.go featureTable), all with columns (id, v)
	"CREATE TABLE p1 (id INT PRIMARY KEY, v INT)",
	"INSERT INTO p1 VALUES (1,1),(2,2),(3,3)",
	"CREATE TABLE k1 (id INT NOT NULL, v INT)",
	"INSERT INTO k1 VALUES (1,1),(2,2),(3,3)",
	"CREATE TABLE a1 (id INT PRIMARY KEY AUTO_INCREMENT, v INT)",
	"INSERT INTO a1 VALUES (1,1),(2,2),(3,3)",
	"CREATE TABLE glog (n INT)",
	"CREATE TABLE g1 (id INT PRIMARY KEY, v INT)",
	"INSERT INTO g1 VALUES (1,1),(2,2),(3,3)",
	"CREATE TRIGGER g1_bi BEFORE INSERT ON g1 FOR EACH ROW SET NEW.v = NEW.v + 100",
	"CREATE TRIGGER g1_bu BEFORE UPDATE ON g1 FOR EACH ROW SET NEW.v = NEW.v + 100",
	"CREATE TRIGGER g1_ad AFTER DELETE ON g1 FOR EACH ROW INSERT INTO glog VALUES (OLD.id)",
	"CREATE TABLE f1 (id INT PRIMARY KEY, v INT)",
	"INSERT INTO f1 VALUES (1,1),(2,2),(3,3)",
	"CREATE TABLE f2 (id INT PRIMARY KEY, v INT, KEY fv (v), CONSTRAINT fkf FOREIGN KEY (v) REFERENCES f1(id) ON DELETE CASCADE ON UPDATE CASCADE)",
	"INSERT INTO f2 VALUES (1,1),(2,2)",
	"CREATE TABLE j1 (id INT PRIMARY KEY, v INT)",
	"INSERT INTO j1 VALUES (1,1),(2,2)",
	"CREATE PROCEDURE pdel() DELETE FROM p1",
	"CREATE PROCEDURE pupd() UPDATE g1 SET v = v + 1",
	"CREATE PROCEDURE pins() INSERT INTO a1 (v) SELECT v FROM j1",
	"CREATE TABLE d2.x (i INT PRIMARY KEY, j INT)",
	"INSERT INTO d2.x VALUES (1,1),(2,2)",
}

// accounts and grants (phase 2, through a read-write engine sharing the final engine's catalog)
var fixtureServer = []string{
	"CREATE USER u1@localhost",
	"CREATE USER u2@localhost",
	"CREATE ROLE r1",
	"GRANT SELECT ON d.* TO u1@localhost",
	"GRANT UPDATE ON d.t2 TO u1@localhost",
	"GRANT r1 TO u2@localhost",
	"CREATE DATABASE d3",
}

// newFix builds a populated engine under the given mode.
//
//	engine_ro      sqle.Config{IsReadOnly: true}
//	server_locked  sqle.Config{IsServerLocked: true}
//	ro_txn         the session under test has executed START TRANSACTION READ ONLY
//	ro_db          database d is a memory.ReadOnlyDatabase (sql.ReadOnlyDatabase) around the populated database;
//	               the sessions commit through a provider that yields the wrapped database, because
//	               memory.Session.CommitTransaction does not know the memory.ReadOnlyDatabase type
//	ro_db_mem      the same with the memory backend's own pairing (sessions commit through the catalog's provider)
func newFix(mode string) (*fix, *sess) {
	h := memory.NewHistoryDatabase("d")
	d2 := memory.NewDatabase("d2")
	{
		pro0 := memory.NewDBProvider(h, d2)
		f0 := &fix{e: sqle.NewDefault(pro0), pro: pro0}
		s0 := f0.session()
		for _, q := range fixtureDB {
			must(s0, f0.e, q)
		}
	}
	var d sql.Database = h
	if mode == "ro_db" || mode == "ro_db_mem" {
		d = memory.ReadOnlyDatabase{HistoryDatabase: h}
	}
	pro := memory.NewDBProvider(d, d2)
	spro := pro
	if mode == "ro_db" {
		spro = memory.NewDBProvider(h, d2)
	}
	a := analyzer.NewDefault(pro)
	a.Catalog.MySQLDb.SetEnabled(true) // accounts and grants exist; every session is root@localhost
	a.Catalog.MySQLDb.SetPersister(&mysql_db.NoopPersister{})
	a.Catalog.MySQLDb.AddRootAccount()
	// the engine is CONFIGURED in its mode (sqle.Config); the flags are lifted only while the accounts
	// of the fixture are created through SQL and then restored to what the configuration set
	cfg := &sqle.Config{IsReadOnly: mode == "engine_ro", IsServerLocked: mode == "server_locked"}
	f := &fix{pro: spro, e: sqle.New(a, cfg)}
	ro, locked := f.e.ReadOnly.Load(), f.e.IsServerLocked
	f.e.ReadOnly.Store(false)
	f.e.IsServerLocked = false
	s1 := f.session()
	for _, q := range fixtureServer {
		must(s1, f.e, q)
	}
	f.e.ReadOnly.Store(ro)
	f.e.IsServerLocked = locked
	s := f.session()
	if mode == "ro_txn" {
		must(s, f.e, "START TRANSACTION READ ONLY")
	}
	return f, s
}

// ---------------------------------------------------------------- digest of data + catalog

func (f *fix) digestText() string {
	s := f.session()
	var sb strings.Builder
	q := func(label, query string, sortRows bool) []string {
		r := s.exec(query)
		rows := append([]string{}, r.Rows...)
		if sortRows {
			sort.Strings(rows)
		}
		fmt.Fprintf(&sb, "## %s [%s %s]\n", label, r.Kind, r.Msg)
		for _, x := range rows {
			sb.WriteString(x)
			sb.WriteByte('\n')
		}
		return r.Rows
	}
	dbs := q("databases", "SHOW DATABASES", true)
	for _, row := range dbs {
		db := strings.Trim(row, "[]")
		if db == "information_schema" || db == "mysql" {
			continue
		}
		q(db+" create", "SHOW CREATE DATABASE `"+db+"`", false)
		r := s.exec("SHOW FULL TABLES FROM `" + db + "`")
		names := append([]string{}, r.Rows...)
		sort.Strings(names)
		fmt.Fprintf(&sb, "## %s tables [%s %s] %v\n", db, r.Kind, r.Msg, names)
		for _, n := range names {
			parts := strings.Fields(strings.Trim(n, "[]"))
			if len(parts) < 2 {
				continue
			}
			t := parts[0]
			if strings.Contains(n, "VIEW") {
				q(db+"."+t+" view", "SHOW CREATE VIEW `"+db+"`.`"+t+"`", false)
				continue
			}
			q(db+"."+t+" ddl", "SHOW CREATE TABLE `"+db+"`.`"+t+"`", false)
			q(db+"."+t+" rows", "SELECT * FROM `"+db+"`.`"+t+"`", true)
		}
		q(db+" tableinfo", "SELECT table_name, auto_increment, table_collation, table_comment FROM information_schema.tables WHERE table_schema = '"+db+"'", true)
		q(db+" triggers", "SELECT trigger_name, event_object_table, action_timing, event_manipulation, action_statement FROM information_schema.triggers WHERE trigger_schema = '"+db+"'", true)
		q(db+" routines", "SELECT routine_name, routine_type, routine_definition FROM information_schema.routines WHERE routine_schema = '"+db+"'", true)
		q(db+" events", "SELECT event_name, status, event_definition FROM information_schema.events WHERE event_schema = '"+db+"'", true)
	}
	users := q("users", "SELECT user, host, account_locked, plugin, authentication_string FROM mysql.user", true)
	users = append([]string{}, users...)
	sort.Strings(users)
	for _, u := range users {
		p := strings.Fields(strings.Trim(u, "[]"))
		if len(p) >= 2 {
			q("grants "+p[0]+"@"+p[1], "SHOW GRANTS FOR '"+p[0]+"'@'"+p[1]+"'", true)
		}
	}
	q("role_edges", "SELECT * FROM mysql.role_edges", true)
	return sb.String()
}

func sha(s string) string {
	h := sha1.Sum([]byte(s))
	return hex.EncodeToString(h[:8])
}

// ---------------------------------------------------------------- one case

type obs struct {
	Out     string `json:"out"` // ok | rejected | error | panic
	Msg     string `json:"msg"`
	Changed bool   `json:"changed"`
	res     result
	diff    string
}

// classify maps an engine error to the outcome class.  "rejected" = one of the engine's read-only
// refusals (sql.ErrReadOnly, sql.ErrDatabaseWriteLocked, sql.ErrReadOnlyTransaction,
// analyzererrors.ErrReadOnlyDatabase), recognised by their texts.
func classify(r result) string {
	switch r.Kind {
	case "rows", "ok":
		return "ok"
	case "panic":
		return "panic"
	}
	m := strings.ToLower(r.Msg)
	for _, pat := range []string{"read only", "read-only", "locked to writes"} {
		if strings.Contains(m, pat) {
			return "rejected"
		}
	}
	return "error"
}

func firstDiff(a, b string) string {
	la, lb := strings.Split(a, "\n"), strings.Split(b, "\n")
	for i := 0; i < len(la) || i < len(lb); i++ {
		x, y := "", ""
		if i < len(la) {
			x = la[i]
		}
		if i < len(lb) {
			y = lb[i]
		}
		if x != y {
			return fmt.Sprintf("- %s\n+ %s", x, y)
		}
	}
	return ""
}

func runRep(mode string, r rep, tmp, tab string) obs {
	f, s := newFix(mode)
	before := f.digestText()
	var last result
	tmp, _ = os.MkdirTemp(tmp, "run")
	os.WriteFile(filepath.Join(tmp, "load.csv"), []byte("50,1\n51,2\n"), 0o644) // second field: an existing f1.id (LOAD DATA into f2)
	stmts := r.stmts(tmp, tab)
	for _, q := range stmts {
		last = s.exec(q)
		if last.Kind == "err" || last.Kind == "panic" {
			break
		}
	}
	if mode == "ro_txn" {
		s.exec("COMMIT") // publish whatever the transaction was allowed to do
	}
	after := f.digestText()
	o := obs{Out: classify(last), Msg: last.Msg, Changed: before != after, res: last}
	if o.Changed {
		o.diff = firstDiff(before, after)
	}
	return o
}

type caseIn struct {
	Mode  string `json:"mode"`
	Kind  string `json:"kind"`
	Tab   string `json:"tab"` // table feature (shape kinds); "" in hand-written witness cases = "any"
	Class string `json:"class"`
	Scope string `json:"scope"`
}

func init() { _ = sha }

type event struct {
	Ev       string `json:"ev"`
	ID       int    `json:"id"`
	Case     int    `json:"case"` // line of the case in the input
	Mode     string `json:"mode"`
	Kind     string `json:"kind"`
	Tab      string `json:"tab"`
	Rep      string `json:"rep"`
	SQL      string `json:"sql"`
	Out      string `json:"out"`
	Msg      string `json:"msg"`
	Changed  bool   `json:"changed"`
	RwOut    string `json:"rw_out"`
	RwMsg    string `json:"rw_msg"`
	RwChange bool   `json:"rw_changed"`
	Same     bool   `json:"same"` // result equal to the read-write engine's (rows compared unless the rep is volatile)
	Diff     string `json:"diff,omitempty"`
}

func sameResult(r rep, a, b result) bool {
	if a.Kind != b.Kind {
		return false
	}
	if r.volatile || a.Kind != "rows" {
		return true
	}
	x, y := append([]string{}, a.Rows...), append([]string{}, b.Rows...)
	if !r.ordered {
		sort.Strings(x)
		sort.Strings(y)
	}
	return strings.Join(x, "\n") == strings.Join(y, "\n")
}

func main() {
	in := flag.String("in", "", "cases from TLC (ndjson of {mode, kind, class, scope})")
	out := flag.String("out", "", "observations (ndjson)")
	only := flag.String("only", "", "comma separated case ids to run")
	shard := flag.String("shard", "", "i/n: run only the representatives whose table index is i modulo n")
	list := flag.Bool("list", false, "print the representative table as json and exit")
	flag.Parse()
	if *list {
		m := map[string][]string{}
		for _, r := range reps {
			m[r.kind] = append(m[r.kind], r.name)
		}
		b, _ := json.Marshal(m)
		fmt.Println(string(b))
		return
	}
	tmp, err := os.MkdirTemp("", "verif-c42-")
	if err != nil {
		vio.Fatal("%v", err)
	}
	defer os.RemoveAll(tmp)
	want := map[int]bool{}
	for _, x := range strings.Split(*only, ",") {
		if x != "" {
			var n int
			fmt.Sscan(x, &n)
			want[n] = true
		}
	}
	shI, shN := 0, 1
	if *shard != "" {
		fmt.Sscanf(*shard, "%d/%d", &shI, &shN)
	}
	byKind := map[string][]rep{}
	repIdx := map[string]int{}
	for i, r := range reps {
		byKind[r.kind] = append(byKind[r.kind], r)
		repIdx[r.name] = i
	}
	w, err := vio.NewWriter(*out)
	if err != nil {
		vio.Fatal("%v", err)
	}
	rep_ := &vio.Report{Extra: map[string]interface{}{}}
	rwCache := map[string]obs{}
	noRep := []string{}
	outcomes := map[string]int{}
	id := 0
	err = vio.ReadNDJSON(*in, func(i int, line []byte) error {
		var c caseIn
		if err := json.Unmarshal(line, &c); err != nil {
			return err
		}
		if c.Tab == "" {
			c.Tab = "any"
		}
		rs := byKind[c.Kind]
		if len(rs) == 0 {
			noRep = append(noRep, c.Kind)
		}
		for _, r := range rs {
			if !r.runsOn(c.Tab) {
				continue
			}
			id++
			if (len(want) > 0 && !want[id]) || repIdx[r.name]%shN != shI {
				continue
			}
			rw, ok := rwCache[r.name+"/"+c.Tab]
			if !ok {
				rw = runRep("none", r, tmp, c.Tab)
				rwCache[r.name+"/"+c.Tab] = rw
			}
			o := rw
			if c.Mode != "none" {
				o = runRep(c.Mode, r, tmp, c.Tab)
			}
			ev := event{Ev: "x", ID: id, Case: i, Mode: c.Mode, Kind: c.Kind, Tab: c.Tab, Rep: r.name, SQL: strings.Join(r.stmts("$TMP", c.Tab), " ;; "),
				Out: o.Out, Msg: o.Msg, Changed: o.Changed, RwOut: rw.Out, RwMsg: rw.Msg, RwChange: rw.Changed,
				Same: sameResult(r, o.res, rw.res), Diff: o.diff}
			w.Write(ev)
			rep_.Cases++
			outcomes[c.Mode+"/"+c.Class+"/"+o.Out]++
			if c.Mode != "none" && c.Class != "unjudged" {
				rep_.Nontrivial++
			}
			if len(rep_.Samples) < 4 && id%131 == 7 {
				rep_.Samples = append(rep_.Samples, ev)
			}
		}
		return nil
	})
	if err != nil {
		vio.Fatal("%v", err)
	}
	w.Close()
	rep_.Extra["kinds_without_representative"] = noRep
	rep_.Extra["outcomes"] = outcomes
	rep_.Extra["representatives"] = len(reps)
	rep_.Emit()
}
