// c22: binding B of C22 (SHOW CREATE output recreates an identical object).  Generates CREATE TABLE /
// VIEW / TRIGGER / PROCEDURE statements (seeded), and for each object records
//
//	obj       text1 = SHOW CREATE <kind>, proj1 = its information_schema rows, probe1 = replies of a fixed DML probe list
//	recreate  the same after the object's database was thrown away and text1 was executed in a FRESH engine
//	          (with the same prerequisites: parent table of the foreign keys, base table of views / triggers)
//
// as one ndjson trace; spec/Trace_Recreate.tla (TLC) judges every recreate event against spec/Recreate.tla.
// The driver decides nothing: it only records.  A generated statement the engine rejects is counted and dropped
// (the property starts from an object that exists).
package main

import (
	"encoding/json"
	"flag"
	"fmt"
	"math/rand"
	"regexp"
	"sort"
	"strconv"
	"strings"

	sqle "github.com/dolthub/go-mysql-server"
	"github.com/dolthub/go-mysql-server/memory"
	"github.com/dolthub/go-mysql-server/sql"
	"github.com/dolthub/go-mysql-server/sql/analyzer"
	"github.com/dolthub/go-mysql-server/sql/mysql_db"

	"gmsverif/lib/eng"
	"gmsverif/lib/vio"
)

const db = "d"

// newEngine: one database "d", privilege database enabled with root (information_schema.TRIGGERS / ROUTINES /
// VIEWS list an object only to an account that holds the privilege for it).
func newEngine() *eng.Session {
	pro := memory.NewDBProvider(memory.NewDatabase(db))
	a := analyzer.NewDefault(pro)
	a.Catalog.MySQLDb.SetEnabled(true)
	a.Catalog.MySQLDb.SetPersister(&mysql_db.NoopPersister{})
	a.Catalog.MySQLDb.AddRootAccount()
	d := &eng.DB{Engine: sqle.New(a, nil), Provider: pro}
	return d.NewSession()
}

// ---------------------------------------------------------------- observation

type Obs struct {
	Text  string                `json:"text"`
	Proj  map[string][][]string `json:"proj"`
	Probe []string              `json:"probe"`
}

func text(v interface{}) string {
	switch x := v.(type) {
	case nil:
		return "<NULL>"
	case string:
		return x
	case []byte:
		return string(x)
	}
	return fmt.Sprint(v)
}

func rows(s *eng.Session, q string) ([][]string, error) {
	r := s.Exec(q)
	if r.Kind != "rows" {
		return nil, fmt.Errorf("%s: %s %s", q, r.Kind, r.Msg)
	}
	out := make([][]string, 0, len(r.Raw))
	for _, row := range r.Raw {
		t := make([]string, len(row))
		for i, v := range row {
			if i < len(r.Schema) && v != nil { // enum / set columns of information_schema carry their numeric form
				switch ty := r.Schema[i].Type.(type) {
				case sql.EnumType:
					if idx, ok := v.(uint16); ok {
						if m, ok := ty.At(int(idx)); ok {
							v = m
						}
					}
				case sql.SetType:
					if bits, ok := v.(uint64); ok {
						if m, err := ty.BitsToString(bits); err == nil {
							v = m
						}
					}
				}
			}
			t[i] = text(v)
		}
		out = append(out, t)
	}
	sort.Slice(out, func(i, j int) bool { return strings.Join(out[i], "\x00") < strings.Join(out[j], "\x00") })
	return out, nil
}

var reDigits = regexp.MustCompile(`[0-9]+`)
var reQuoted = regexp.MustCompile("`[^`]*`|'[^']*'|\"[^\"]*\"|\\[[^\\]]*\\]")

func msgClass(m string) string {
	m = strings.ToLower(reQuoted.ReplaceAllString(m, "_"))
	m = reDigits.ReplaceAllString(m, "n")
	m = strings.Join(strings.Fields(m), " ")
	if len(m) > 60 {
		m = m[:60]
	}
	return m
}

// reply of one probe statement: kind, error class, or the rows
func reply(s *eng.Session, q string) string {
	r := s.Exec(q)
	switch r.Kind {
	case "ok":
		return fmt.Sprintf("ok affected=%d", r.Affected)
	case "rows":
		var out []string
		for _, row := range r.Raw {
			t := make([]string, len(row))
			for i, v := range row {
				t[i] = text(v)
			}
			out = append(out, strings.Join(t, "|"))
		}
		sort.Strings(out)
		return "rows " + strings.Join(out, " ; ")
	}
	// the error CLASS only: the text after the first colon names values / the key that was hit first (map order)
	return r.Kind + " " + msgClass(strings.SplitN(r.Msg, ":", 2)[0])
}

type Case struct {
	ID     int      `json:"id"`
	Kind   string   `json:"kind"` // table | view | trigger | procedure
	Name   string   `json:"name"`
	Prereq []string `json:"prereq"` // statements executed before the object's CREATE (also in the fresh database)
	Create string   `json:"create"`
	Probes []string `json:"probes"`
	Tags   []string `json:"tags"`
}

func projQueries(kind, name string) map[string]string {
	w := " WHERE table_schema = '" + db + "' AND table_name = '" + name + "'"
	switch kind {
	case "table":
		return map[string]string{
			"TABLES":                  "SELECT table_type, engine, table_collation, table_comment FROM information_schema.tables" + w,
			"COLUMNS":                 "SELECT column_name, ordinal_position, column_default, is_nullable, data_type, character_maximum_length, numeric_precision, numeric_scale, datetime_precision, character_set_name, collation_name, column_type, column_key, extra, column_comment, generation_expression FROM information_schema.columns" + w,
			"STATISTICS":              "SELECT index_name, seq_in_index, column_name, non_unique, sub_part, nullable, index_type, index_comment FROM information_schema.statistics" + w,
			"TABLE_CONSTRAINTS":       "SELECT constraint_name, constraint_type, enforced FROM information_schema.table_constraints" + w,
			"KEY_COLUMN_USAGE":        "SELECT constraint_name, column_name, ordinal_position, position_in_unique_constraint, referenced_table_name, referenced_column_name FROM information_schema.key_column_usage" + w,
			"REFERENTIAL_CONSTRAINTS": "SELECT constraint_name, unique_constraint_name, match_option, update_rule, delete_rule, referenced_table_name FROM information_schema.referential_constraints WHERE constraint_schema = '" + db + "' AND table_name = '" + name + "'",
			"CHECK_CONSTRAINTS":       "SELECT cc.constraint_name, cc.check_clause FROM information_schema.check_constraints cc JOIN information_schema.table_constraints tc ON tc.constraint_schema = cc.constraint_schema AND tc.constraint_name = cc.constraint_name WHERE tc.table_schema = '" + db + "' AND tc.table_name = '" + name + "' AND tc.constraint_type = 'CHECK'",
		}
	case "view":
		return map[string]string{
			"VIEWS":   "SELECT view_definition, check_option, is_updatable, security_type FROM information_schema.views" + w,
			"COLUMNS": "SELECT column_name, ordinal_position, is_nullable, data_type, column_type, collation_name FROM information_schema.columns" + w,
			"TABLES":  "SELECT table_type FROM information_schema.tables" + w,
		}
	case "trigger":
		return map[string]string{
			"TRIGGERS": "SELECT event_manipulation, event_object_table, action_order, action_statement, action_orientation, action_timing FROM information_schema.triggers WHERE trigger_schema = '" + db + "' AND trigger_name = '" + name + "'",
		}
	}
	return map[string]string{
		"ROUTINES":   "SELECT routine_type, data_type, routine_body, routine_definition, is_deterministic, sql_data_access, security_type, routine_comment FROM information_schema.routines WHERE routine_schema = '" + db + "' AND routine_name = '" + name + "'",
		"PARAMETERS": "SELECT ordinal_position, parameter_mode, parameter_name, data_type, dtd_identifier FROM information_schema.parameters WHERE specific_schema = '" + db + "' AND specific_name = '" + name + "'",
	}
}

func showCreate(s *eng.Session, c *Case) (string, error) {
	var q string
	col := 1
	switch c.Kind {
	case "table":
		q = "SHOW CREATE TABLE `" + c.Name + "`"
	case "view":
		q = "SHOW CREATE VIEW `" + c.Name + "`"
	case "trigger":
		q, col = "SHOW CREATE TRIGGER `"+c.Name+"`", 2
	default:
		q, col = "SHOW CREATE PROCEDURE `"+c.Name+"`", 2
	}
	r := s.Exec(q)
	if r.Kind != "rows" || len(r.Raw) != 1 || len(r.Raw[0]) <= col {
		return "", fmt.Errorf("%s: %s %s (%d rows)", q, r.Kind, r.Msg, len(r.Raw))
	}
	return text(r.Raw[0][col]), nil
}

// observe: text and catalog projection first, then the (mutating) probes.
func observe(s *eng.Session, c *Case) (*Obs, error) {
	o := &Obs{Proj: map[string][][]string{}, Probe: []string{}}
	var err error
	if o.Text, err = showCreate(s, c); err != nil {
		return nil, err
	}
	for w, q := range projQueries(c.Kind, c.Name) {
		rs, err := rows(s, q)
		if err != nil {
			return nil, fmt.Errorf("%s: %w", w, err)
		}
		o.Proj[w] = rs
	}
	for _, p := range c.Probes {
		o.Probe = append(o.Probe, reply(s, p))
	}
	return o, nil
}

// ---------------------------------------------------------------- generators

type gen struct {
	r    *rand.Rand
	tags map[string]bool
}

func (g *gen) pick(xs ...string) string { return xs[g.r.Intn(len(xs))] }
func (g *gen) chance(n int) bool        { return g.r.Intn(n) == 0 }
func (g *gen) tag(t string)             { g.tags[t] = true }

type col struct {
	name, family string // family: int | dec | str | text | date | datetime | enum | set | json | blob
	def          string // full column definition text
	nullable     bool
	hasDefault   bool
	auto         bool
	generated    bool
	prefixable   bool // string / blob types that may carry an index prefix length
	indexable    bool
	valid        string // a literal the column accepts
}

const parentDDL = "CREATE TABLE p (id INT NOT NULL, u VARCHAR(8) NOT NULL, PRIMARY KEY (id), UNIQUE KEY pu (u))"

func (g *gen) column(i int, forceInt bool) col {
	c := col{name: fmt.Sprintf("c%d", i), nullable: true, indexable: true}
	fam := g.pick("int", "int", "ubig", "tiny", "dec", "varchar", "varchar", "char", "text", "date", "datetime", "enum", "set", "json", "blob")
	if forceInt {
		fam = "int"
	}
	var ty, lit, expr string
	coll := ""
	switch fam {
	case "int":
		ty, lit, expr, c.family = "INT", g.pick("5", "-3", "0"), g.pick("(1 + 2)", "(abs(-5))"), "int"
	case "ubig":
		ty, lit, expr, c.family = "BIGINT UNSIGNED", g.pick("7", "18446744073709551615"), "(10 * 10)", "int"
		g.tag("unsigned")
	case "tiny":
		ty, lit, expr, c.family = "TINYINT", g.pick("1", "-128"), "(2 - 1)", "int"
	case "dec":
		p, s := g.pick("10,2", "5,0", "12,4", "3,3"), ""
		_ = s
		ty, lit, expr, c.family = "DECIMAL("+p+")", "0."+strings.Repeat("5", atoiAfterComma(p)), "(1.5 + 1)", "dec"
		if strings.HasSuffix(p, ",0") {
			lit = "7"
		}
		g.tag("decimal")
	case "varchar":
		ty, lit, expr, c.family, c.prefixable = "VARCHAR("+g.pick("8", "20", "100")+")", g.pick("'abc'", "''", "'it''s'", "'A b'"), g.pick("(concat('a', 'b'))", "(lower('X'))"), "str", true
	case "char":
		ty, lit, expr, c.family, c.prefixable = "CHAR("+g.pick("1", "4")+")", "'x'", "(upper('y'))", "str", true
	case "text":
		ty, lit, expr, c.family, c.prefixable = g.pick("TEXT", "TEXT", "LONGTEXT"), "", "('abc')", "text", true
	case "date":
		ty, lit, expr, c.family = "DATE", "'2020-01-02'", "", "date"
	case "datetime":
		ty, lit, expr, c.family = g.pick("DATETIME(6)", "DATETIME", "TIMESTAMP"), "'2020-01-02 03:04:05'", "", "datetime"
		if ty == "DATETIME(6)" {
			lit = "'2020-01-02 03:04:05.123456'"
		}
	case "enum":
		ty, lit, expr, c.family = "ENUM('a','b','c')", "'b'", "", "enum"
		g.tag("enum")
	case "set":
		ty, lit, expr, c.family = "SET('x','y','z')", g.pick("'x,z'", "'y'"), "", "set"
		g.tag("set")
	case "json":
		ty, lit, expr, c.family, c.indexable = "JSON", "", "", "json", false
	case "blob":
		ty, lit, expr, c.family, c.prefixable = g.pick("BLOB", "VARBINARY(16)"), "", "", "blob", true
		if ty == "VARBINARY(16)" {
			lit = "'ab'"
		}
	}
	c.valid = map[string]string{"int": "3", "dec": "0", "str": "'k'", "text": "'txt'", "date": "'2021-03-04'", "datetime": "'2021-03-04 05:06:07'",
		"enum": "'a'", "set": "'x'", "json": "'{\"a\": 1}'", "blob": "'bb'"}[c.family]
	if (c.family == "str" || c.family == "text" || c.family == "enum") && g.chance(3) {
		switch g.r.Intn(4) {
		case 0:
			coll = " COLLATE utf8mb4_0900_ai_ci"
		case 1:
			coll = " COLLATE utf8mb4_general_ci"
		case 2:
			coll = " CHARACTER SET latin1"
		default:
			coll = " CHARACTER SET utf8mb4 COLLATE utf8mb4_bin"
		}
		g.tag("colcollate")
	}
	def := c.name + " " + ty + coll
	// generated columns (over c1, which is always an INT)
	if i > 1 && c.family == "int" && fam == "int" && g.chance(6) {
		def += " GENERATED ALWAYS AS (c1 + " + g.pick("1", "10") + ") " + g.pick("STORED", "VIRTUAL")
		c.generated, c.indexable = true, false
		g.tag("generated")
		c.def = def
		return c
	}
	if g.chance(3) {
		def += " NOT NULL"
		c.nullable = false
	} else if g.chance(4) {
		def += " NULL"
	}
	switch g.r.Intn(4) {
	case 0:
		if lit != "" {
			def += " DEFAULT " + lit
			c.hasDefault = true
			g.tag("default-literal")
		}
	case 1:
		if expr != "" {
			def += " DEFAULT " + expr
			c.hasDefault = true
			g.tag("default-expr")
		}
	case 2:
		if c.nullable && g.chance(2) {
			def += " DEFAULT NULL"
			c.hasDefault = true
		}
	}
	if g.chance(5) {
		def += " COMMENT " + g.pick("'a comment'", "'it''s'", "'x,y'")
		g.tag("colcomment")
	}
	c.def = def
	return c
}

func atoiAfterComma(p string) int {
	n, _ := strconv.Atoi(p[strings.Index(p, ",")+1:])
	if n == 0 {
		return 1
	}
	return n
}

func (g *gen) table(id int) *Case {
	g.tags = map[string]bool{}
	name := "t1"
	n := 2 + g.r.Intn(4)
	cols := make([]col, 0, n)
	for i := 1; i <= n; i++ {
		cols = append(cols, g.column(i, i == 1))
	}
	// c1 is a plain INT (possibly AUTO_INCREMENT) so that keys, checks, foreign keys and generated columns have an anchor
	auto := g.chance(4)
	c1 := "c1 INT NOT NULL"
	if auto {
		c1 += " AUTO_INCREMENT"
		g.tag("autoinc")
	}
	cols[0] = col{name: "c1", family: "int", def: c1, indexable: true, auto: auto}
	var parts []string
	for _, c := range cols {
		parts = append(parts, c.def)
	}
	keyCol := func(c col) string {
		if c.family == "text" || c.family == "blob" {
			g.tag("prefix-index")
			return c.name + "(" + g.pick("4", "10") + ")"
		}
		if c.prefixable && g.chance(3) {
			g.tag("prefix-index")
			return c.name + "(" + g.pick("1", "3") + ")"
		}
		return c.name
	}
	var idxable []col
	for _, c := range cols[1:] {
		if c.indexable {
			idxable = append(idxable, c)
		}
	}
	// primary key
	pk := g.r.Intn(4)
	hasPK := false
	if auto || pk <= 1 {
		parts = append(parts, "PRIMARY KEY (c1)")
		hasPK = true
	} else if pk == 2 && len(idxable) > 0 && idxable[0].family != "text" && idxable[0].family != "blob" && !idxable[0].nullable {
		parts = append(parts, "PRIMARY KEY (c1, "+idxable[0].name+")")
		hasPK = true
		g.tag("pk-composite")
	}
	_ = hasPK
	// secondary keys
	for k, nk := 0, g.r.Intn(3); k < nk && len(idxable) > 0; k++ {
		a := idxable[g.r.Intn(len(idxable))]
		def := keyCol(a)
		if g.chance(2) {
			b := idxable[g.r.Intn(len(idxable))]
			if b.name != a.name {
				def += ", " + keyCol(b)
				g.tag("multicol-index")
			} else {
				def += ", c1"
				g.tag("multicol-index")
			}
		}
		kind := "KEY"
		if g.chance(2) {
			kind = "UNIQUE KEY"
			g.tag("unique")
		}
		parts = append(parts, fmt.Sprintf("%s k%d (%s)", kind, k+1, def))
	}
	// check constraints
	for k, nk := 0, g.r.Intn(3); k < nk; k++ {
		cname := ""
		if g.chance(2) {
			cname = fmt.Sprintf("CONSTRAINT ck%d ", k+1)
		}
		expr := g.pick("c1 > 0", "c1 <> 7", "c1 BETWEEN 1 AND 1000", "(c1 > 0) OR (c1 < -10)")
		tail := ""
		if g.chance(5) {
			tail = " NOT ENFORCED"
			g.tag("check-not-enforced")
		}
		parts = append(parts, cname+"CHECK ("+expr+")"+tail)
		g.tag("check")
	}
	// foreign keys (to p.id from an INT column)
	prereq := []string{}
	if g.chance(3) {
		prereq = append(prereq, parentDDL, "INSERT INTO p VALUES (1, 'one'), (2, 'two'), (5, 'five'), (-5, 'm5'), (7, 'seven'), (3000, 'big')")
		act := func() string { return g.pick("CASCADE", "SET NULL", "RESTRICT", "NO ACTION") }
		def := "FOREIGN KEY (c1) REFERENCES p (id)"
		if g.chance(2) {
			def = "CONSTRAINT fk1 " + def
		}
		if g.chance(2) {
			a := act()
			if a == "SET NULL" {
				a = "CASCADE" // c1 is NOT NULL
			}
			def += " ON DELETE " + a
			g.tag("fk-on-delete")
		}
		if g.chance(2) {
			a := act()
			if a == "SET NULL" {
				a = "RESTRICT"
			}
			def += " ON UPDATE " + a
			g.tag("fk-on-update")
		}
		parts = append(parts, def)
		g.tag("fk")
	}
	opts := ""
	switch g.r.Intn(6) {
	case 0:
		opts += " COLLATE=utf8mb4_0900_ai_ci"
		g.tag("tblcollate")
	case 1:
		opts += " DEFAULT CHARSET=latin1"
		g.tag("tblcollate")
	case 2:
		opts += " CHARACTER SET utf8mb4 COLLATE utf8mb4_general_ci"
		g.tag("tblcollate")
	}
	if g.chance(5) {
		opts += " COMMENT='table " + g.pick("one", "it''s", "a,b") + "'"
		g.tag("tblcomment")
	}
	create := "CREATE TABLE " + name + " (" + strings.Join(parts, ", ") + ")" + opts
	// probes: a row of defaults, a full valid row twice (duplicate key), NULL into every column, rows that violate
	// the CHECK constraints (their c1 values exist in the parent table), read-back, parent-side foreign key actions
	var names []string
	for _, c := range cols {
		if !c.generated {
			names = append(names, c.name)
		}
	}
	row := func(c1 string, nullCol string) string {
		vals := []string{c1}
		for _, c := range cols[1:] {
			if c.generated {
				continue
			}
			if c.name == nullCol {
				vals = append(vals, "NULL")
			} else {
				vals = append(vals, c.valid)
			}
		}
		return "INSERT INTO t1 (" + strings.Join(names, ", ") + ") VALUES (" + strings.Join(vals, ", ") + ")"
	}
	probes := []string{"INSERT INTO t1 (c1) VALUES (1)", row("2", ""), row("2", "")}
	for _, c := range cols[1:] {
		if !c.generated {
			probes = append(probes, row("5", c.name), "DELETE FROM t1 WHERE c1 = 5")
		}
	}
	probes = append(probes, row("-5", ""), "DELETE FROM t1 WHERE c1 = -5", row("7", ""), "DELETE FROM t1 WHERE c1 = 7", row("3000", ""), "DELETE FROM t1 WHERE c1 = 3000")
	var sel []string
	for _, c := range cols {
		sel = append(sel, c.name)
	}
	probes = append(probes, "SELECT "+strings.Join(sel, ", ")+" FROM t1", "SELECT COUNT(*) FROM t1 WHERE c1 > 0")
	if len(prereq) > 0 {
		probes = append(probes, "INSERT INTO t1 (c1) VALUES (4)", "DELETE FROM p WHERE id = 2", "UPDATE p SET id = 20 WHERE id = 1", "SELECT c1 FROM t1")
	}
	c := &Case{ID: id, Kind: "table", Name: name, Prereq: prereq, Create: create, Probes: probes, Tags: []string{}}
	for t := range g.tags {
		c.Tags = append(c.Tags, t)
	}
	sort.Strings(c.Tags)
	return c
}

const baseDDL = "CREATE TABLE b (a INT NOT NULL, s VARCHAR(20), n INT, PRIMARY KEY (a))"
const logDDL = "CREATE TABLE lg (k INT, v VARCHAR(40))"

func (g *gen) view(id int) *Case {
	sel := g.pick(
		"SELECT a, s FROM b", "SELECT * FROM b", "SELECT a AS x, n + 1 AS y FROM b WHERE n > 0", "SELECT s, COUNT(*) AS c FROM b GROUP BY s",
		"SELECT a FROM b WHERE s = 'it''s'", "SELECT a, upper(s) AS u FROM b ORDER BY a DESC LIMIT 2", "SELECT b.a, b2.n FROM b JOIN b AS b2 ON b.a = b2.a",
		"SELECT DISTINCT s FROM b", "SELECT a, CASE WHEN n > 1 THEN 'big' ELSE 'small' END AS sz FROM b", "SELECT a FROM b WHERE s LIKE 'x%' OR n IS NULL")
	// an explicit column list (one in three of the views whose SELECT has exactly one / two output columns)
	cols, tags, probes := "", []string{"view"}, []string{"SELECT * FROM v1", "SELECT COUNT(*) FROM v1", "INSERT INTO b VALUES (4, 'xz', 9)", "SELECT * FROM v1"}
	if !strings.HasPrefix(sel, "SELECT * ") && g.chance(3) {
		if strings.Contains(sel[:strings.Index(sel, " FROM ")], ",") {
			cols = " (p, q)"
		} else {
			cols = " (p)"
		}
		tags = append(tags, "view-column-list")
		probes = append(probes, "SELECT p FROM v1")
	}
	create := "CREATE VIEW v1" + cols + " AS " + sel
	return &Case{ID: id, Kind: "view", Name: "v1", Create: create, Tags: tags,
		Prereq: []string{baseDDL, "INSERT INTO b VALUES (1, 'x1', 2), (2, 'it''s', NULL), (3, 'x1', 0)"},
		Probes: probes}
}

func (g *gen) trigger(id int) *Case {
	timing, event := g.pick("BEFORE", "AFTER"), g.pick("INSERT", "UPDATE", "DELETE")
	var body string
	ref := "NEW"
	if event == "DELETE" {
		ref = "OLD"
	}
	switch g.r.Intn(4) {
	case 0:
		if timing == "BEFORE" && event != "DELETE" {
			body = "SET NEW.n = NEW.a * 2"
		} else {
			body = "SET @verif = " + ref + ".a + 1"
		}
	case 1:
		body = "INSERT INTO lg VALUES (" + ref + ".a, '" + strings.ToLower(event) + "')"
	case 2:
		body = "BEGIN INSERT INTO lg VALUES (" + ref + ".a, 'one'); INSERT INTO lg VALUES (" + ref + ".a, concat('t', 'wo')); END"
	default:
		if timing == "BEFORE" && event != "DELETE" {
			body = "BEGIN IF NEW.n IS NULL THEN SET NEW.n = 0; END IF; END"
		} else {
			body = "BEGIN IF " + ref + ".a > 1 THEN INSERT INTO lg VALUES (" + ref + ".a, 'big'); END IF; END"
		}
	}
	create := fmt.Sprintf("CREATE TRIGGER tr1 %s %s ON b FOR EACH ROW %s", timing, event, body)
	return &Case{ID: id, Kind: "trigger", Name: "tr1", Create: create, Tags: []string{"trigger", strings.ToLower(timing + "-" + event)},
		Prereq: []string{baseDDL, logDDL, "INSERT INTO b VALUES (1, 'x1', 2), (2, 'y', NULL)"},
		Probes: []string{"SET @verif = 0", "INSERT INTO b VALUES (3, 'z', NULL)", "UPDATE b SET s = 'u' WHERE a = 2", "DELETE FROM b WHERE a = 1",
			"SELECT * FROM b", "SELECT * FROM lg", "SELECT @verif"}}
}

func (g *gen) procedure(id int) *Case {
	var params, body, call string
	switch g.r.Intn(5) {
	case 0:
		params, body, call = "", "SELECT a, s FROM b ORDER BY a", "CALL p1()"
	case 1:
		params, body, call = "IN x INT", "SELECT a FROM b WHERE a > x", "CALL p1(1)"
	case 2:
		params, body, call = "IN x INT, OUT y INT", "SET y = x * 2", "CALL p1(4, @o)"
	case 3:
		params, body, call = "IN x INT, OUT y VARCHAR(20)", "BEGIN DECLARE z INT DEFAULT 3; SET y = concat('v', x + z); END", "CALL p1(4, @o)"
	default:
		params, body, call = "INOUT x INT", "BEGIN IF x > 2 THEN SET x = x - 1; ELSE SET x = 100; END IF; INSERT INTO b VALUES (x, 'p', NULL); END", "CALL p1(@o)"
	}
	chars := ""
	if g.chance(3) {
		chars = " " + g.pick("COMMENT 'a proc'", "DETERMINISTIC", "SQL SECURITY INVOKER", "READS SQL DATA")
	}
	create := fmt.Sprintf("CREATE PROCEDURE p1(%s)%s %s", params, chars, body)
	return &Case{ID: id, Kind: "procedure", Name: "p1", Create: create, Tags: []string{"procedure"},
		Prereq: []string{baseDDL, "INSERT INTO b VALUES (1, 'x1', 2), (2, 'y', NULL)"},
		Probes: []string{"SET @o = 5", call, "SELECT @o", "SELECT * FROM b"}}
}

func (g *gen) next(id int) *Case {
	switch k := g.r.Intn(10); {
	case k < 7:
		return g.table(id)
	case k == 7:
		return g.view(id)
	case k == 8:
		return g.trigger(id)
	}
	return g.procedure(id)
}

// ---------------------------------------------------------------- driver

func setup(s *eng.Session, c *Case) error {
	for _, q := range c.Prereq {
		if r := s.Exec(q); r.Kind == "err" || r.Kind == "panic" {
			return fmt.Errorf("prerequisite %s: %s", q, r.Msg)
		}
	}
	return nil
}

func main() {
	n := flag.Int("n", 200, "number of generated objects")
	seed := flag.Int64("seed", 1, "generator seed")
	out := flag.String("out", "", "trace file (ndjson)")
	only := flag.String("only", "", "comma separated case ids: record only these")
	sqlIn := flag.String("stmt", "", "triage: run this one CREATE TABLE statement through the round trip and print both texts")
	casesIn := flag.String("cases", "", "instead of generating: the cases of this ndjson file (kind, name, prereq, create, probes, tags), ids 9000001..")
	flag.Parse()
	if *sqlIn != "" {
		c := &Case{ID: 1, Kind: "table", Name: "t1", Prereq: []string{parentDDL}, Create: *sqlIn}
		s := newEngine()
		_ = setup(s, c)
		fmt.Println(s.Exec(c.Create).Kind, s.Exec(c.Create).Msg)
		t1, err := showCreate(s, c)
		fmt.Println(t1, err)
		s2 := newEngine()
		_ = setup(s2, c)
		r := s2.Exec(t1)
		fmt.Println(r.Kind, r.Msg)
		t2, err := showCreate(s2, c)
		fmt.Println(t2, err)
		return
	}
	want := map[int]bool{}
	for _, x := range strings.Split(*only, ",") {
		if v, err := strconv.Atoi(strings.TrimSpace(x)); err == nil {
			want[v] = true
		}
	}
	w, err := vio.NewWriter(*out)
	if err != nil {
		vio.Fatal("%v", err)
	}
	rep := &vio.Report{Extra: map[string]interface{}{}}
	g := &gen{r: rand.New(rand.NewSource(*seed))}
	var fixed []*Case
	if *casesIn != "" {
		err := vio.ReadNDJSON(*casesIn, func(i int, line []byte) error {
			c := &Case{}
			if err := json.Unmarshal(line, c); err != nil {
				return err
			}
			fixed = append(fixed, c)
			return nil
		})
		if err != nil {
			vio.Fatal("%v", err)
		}
		*n = len(fixed)
	}
	rejected, byKind, tagCount, rejMsgs := 0, map[string]int{}, map[string]int{}, map[string]int{}
	texts := map[string]bool{}
	for id := 1; id <= *n; id++ {
		var c *Case
		if fixed != nil {
			c = fixed[id-1]
			c.ID = 9000000 + id
		} else {
			c = g.next(id) // always drawn, so that -only sees the same cases
		}
		if c.Tags == nil {
			c.Tags = []string{} // never JSON null: the TLA+ Json module rejects it
		}
		if c.Prereq == nil {
			c.Prereq = []string{}
		}
		if len(want) > 0 && !want[id] {
			continue
		}
		s := newEngine()
		if err := setup(s, c); err != nil {
			vio.Fatal("%v", err)
		}
		if r := s.Exec(c.Create); r.Kind != "ok" && r.Kind != "rows" {
			rejected++
			rejMsgs[c.Kind+": "+msgClass(r.Msg)]++
			continue
		}
		o1, err := observe(s, c)
		if err != nil {
			// the object exists but cannot be shown: recorded as a re-creation that was not possible
			w.Write(map[string]interface{}{"ev": "obj", "id": c.ID, "kind": c.Kind, "create": c.Create, "tags": c.Tags, "obs": Obs{Text: "", Proj: map[string][][]string{}, Probe: []string{}}})
			w.Write(map[string]interface{}{"ev": "recreate", "id": c.ID, "accepted": false, "msg": "SHOW CREATE failed: " + err.Error(), "obs": Obs{Text: "", Proj: map[string][][]string{}, Probe: []string{}}})
			rep.Cases++
			continue
		}
		rep.Cases++
		byKind[c.Kind]++
		for _, t := range c.Tags {
			tagCount[t]++
		}
		if !texts[o1.Text] {
			texts[o1.Text] = true
			rep.Nontrivial++
		}
		w.Write(map[string]interface{}{"ev": "obj", "id": c.ID, "kind": c.Kind, "create": c.Create, "prereq": c.Prereq, "probes": c.Probes, "tags": c.Tags, "obs": o1})
		// the fresh database
		s2 := newEngine()
		if err := setup(s2, c); err != nil {
			vio.Fatal("%v", err)
		}
		r := s2.Exec(o1.Text)
		ev := map[string]interface{}{"ev": "recreate", "id": c.ID, "accepted": true, "msg": ""}
		if r.Kind != "ok" && r.Kind != "rows" {
			ev["accepted"], ev["msg"] = false, r.Kind+" "+r.Msg
			ev["obs"] = Obs{Text: "", Proj: map[string][][]string{}, Probe: []string{}}
		} else if o2, err := observe(s2, c); err != nil {
			ev["accepted"], ev["msg"] = false, "SHOW CREATE failed after re-creation: "+err.Error()
			ev["obs"] = Obs{Text: "", Proj: map[string][][]string{}, Probe: []string{}}
		} else {
			ev["obs"] = o2
		}
		w.Write(ev)
		if len(rep.Samples) < 3 && id%17 == 0 {
			rep.Samples = append(rep.Samples, map[string]interface{}{"create": c.Create, "show_create": o1.Text})
		}
	}
	if err := w.Close(); err != nil {
		vio.Fatal("%v", err)
	}
	rep.Extra["generated"] = *n
	rep.Extra["rejected_by_engine"] = rejected
	rep.Extra["rejected_classes"] = rejMsgs
	rep.Extra["by_kind"] = byKind
	rep.Extra["tags"] = tagCount
	rep.Emit()
}
