// c08: driver of property C08 (aggregate and window functions compute their defined values).
//
// A case is one table w(id INT PRIMARY KEY, p INT, o INT, v INT) and a list of query DESCRIPTIONS
// (small records, see spec/SQLWindow.tla).  The driver renders each description to SQL, runs it on
// the real engine and records one event per query with the description and the rows returned;
// spec/Trace_Window.tla interprets the description and judges the rows.  The driver computes no
// expectation.  `-mode gen`: seeded random tables (<= 12 rows, ties, NULLs, duplicates) x every
// function x sampled frames; `-mode exec` / `-in`: cases given in a file (TLC-drawn cases of
// spec/MC_Window.tla = binding A; witnesses of known findings).
package main

import (
	"encoding/json"
	"flag"
	"fmt"
	"math/rand"
	"os"
	"strconv"
	"strings"

	"github.com/dolthub/go-mysql-server/sql/types"

	"gmsverif/lib/eng"
	"gmsverif/lib/sqlast"
	"gmsverif/lib/vio"
)

type Bound struct {
	K string `json:"k"` // up | p | cr | f | uf
	N int    `json:"n"`
}

type Frame struct {
	Unit string `json:"unit"` // none | rows | range
	S    Bound  `json:"s"`
	E    Bound  `json:"e"`
}

// WinQ describes SELECT id, ROW_NUMBER() OVER (W), <fn> OVER (W frame) FROM w.
type WinQ struct {
	Fn    string       `json:"fn"`
	Arg   string       `json:"arg"`
	K     int          `json:"k"`
	Def   sqlast.Value `json:"def"`
	Part  bool         `json:"part"`
	Dir   string       `json:"dir"` // none | asc | desc
	Frame Frame        `json:"frame"`
}

// AggQ describes SELECT p, <fn> FROM w GROUP BY p  /  SELECT NULL, <fn> FROM w.
type AggQ struct {
	Fn    string `json:"fn"`
	Arg   string `json:"arg"` // v | abs
	Group bool   `json:"group"`
	Ord   string `json:"ord"` // group_concat: none | oid | vdesc
	Dist  bool   `json:"dist"`
}

type Case struct {
	Ev   string           `json:"ev"`
	ID   int              `json:"id"`
	Rows [][]sqlast.Value `json:"rows"`
	Wins []WinQ           `json:"wins"`
	Aggs []AggQ           `json:"aggs"`
	Note string           `json:"note,omitempty"`
}

type dbEvent struct {
	Ev   string           `json:"ev"`
	Case int              `json:"case"`
	Rows [][]sqlast.Value `json:"rows"`
	Src  *Case            `json:"src"`
	SQL  []string         `json:"sql"`
}

type qEvent struct {
	Ev  string  `json:"ev"` // win | agg
	ID  int     `json:"id"`
	Q   any     `json:"q"`
	Res [][]any `json:"res"`
	Err string  `json:"err,omitempty"`
	SQL string  `json:"sql"`
	Tag string  `json:"tag"` // short description of the window / frame for signatures
}

func (b Bound) sql() string {
	switch b.K {
	case "up":
		return "UNBOUNDED PRECEDING"
	case "uf":
		return "UNBOUNDED FOLLOWING"
	case "cr":
		return "CURRENT ROW"
	case "p":
		return fmt.Sprintf("%d PRECEDING", b.N)
	case "f":
		return fmt.Sprintf("%d FOLLOWING", b.N)
	}
	panic("bad bound " + b.K)
}

func (q WinQ) window() string {
	var parts []string
	if q.Part {
		parts = append(parts, "PARTITION BY p")
	}
	switch q.Dir {
	case "asc":
		parts = append(parts, "ORDER BY o")
	case "desc":
		parts = append(parts, "ORDER BY o DESC")
	}
	return strings.Join(parts, " ")
}

func (q WinQ) call() string {
	switch q.Fn {
	case "row_number", "rank", "dense_rank", "percent_rank":
		return strings.ToUpper(q.Fn) + "()"
	case "ntile":
		return fmt.Sprintf("NTILE(%d)", q.K)
	case "lag", "lead":
		if q.Def.T == "n" {
			return fmt.Sprintf("%s(v, %d)", strings.ToUpper(q.Fn), q.K)
		}
		return fmt.Sprintf("%s(v, %d, %s)", strings.ToUpper(q.Fn), q.K, q.Def.SQL())
	case "countstar":
		return "COUNT(*)"
	}
	return strings.ToUpper(q.Fn) + "(v)"
}

func (q WinQ) SQL() string {
	w := q.window()
	fw := w
	if q.Frame.Unit != "none" {
		fw = strings.TrimSpace(fmt.Sprintf("%s %s BETWEEN %s AND %s", w, strings.ToUpper(q.Frame.Unit), q.Frame.S.sql(), q.Frame.E.sql()))
	}
	return fmt.Sprintf("SELECT id, ROW_NUMBER() OVER (%s), %s OVER (%s) FROM w", w, q.call(), fw)
}

func (q WinQ) tag() string {
	f := "default"
	if q.Frame.Unit != "none" {
		f = fmt.Sprintf("%s:%s-%s", q.Frame.Unit, q.Frame.S.K, q.Frame.E.K)
	}
	return fmt.Sprintf("%s|%s", f, q.Dir)
}

func (q AggQ) call() string {
	arg := "v"
	if q.Arg == "abs" {
		arg = "ABS(v)"
	}
	switch q.Fn {
	case "countstar":
		return "COUNT(*)"
	case "group_concat":
		d, o := "", ""
		if q.Dist {
			d = "DISTINCT "
		}
		switch q.Ord {
		case "oid":
			o = " ORDER BY o, id"
		case "vdesc":
			o = " ORDER BY v DESC"
		}
		return fmt.Sprintf("GROUP_CONCAT(%s%s%s SEPARATOR '|')", d, arg, o)
	}
	return fmt.Sprintf("%s(%s)", strings.ToUpper(q.Fn), arg)
}

func (q AggQ) SQL() string {
	if q.Group {
		return fmt.Sprintf("SELECT p, %s FROM w GROUP BY p", q.call())
	}
	return fmt.Sprintf("SELECT NULL, %s FROM w", q.call())
}

func (q AggQ) tag() string {
	g := "global"
	if q.Group {
		g = "grouped"
	}
	t := g
	if q.Fn == "group_concat" {
		t += ":" + q.Ord
		if q.Dist {
			t += ":distinct"
		}
	}
	return t
}

type runner struct {
	w    *vio.Writer
	rep  *vio.Report
	fns  map[string]int
	tags map[string]int
	nEv  int
	nErr int
}

func list(vals []sqlast.Value) any { return map[string]any{"t": "l", "v": vals} }

// encode re-encodes a result value; GROUP_CONCAT text is cut at the separator, JSON arrays are unpacked.
func encode(fn string, v interface{}) any {
	if v == nil {
		return sqlast.Null()
	}
	switch fn {
	case "group_concat":
		s, ok := v.(string)
		if !ok {
			if b, isB := v.([]byte); isB {
				s, ok = string(b), true
			}
		}
		if ok {
			out := []sqlast.Value{}
			for _, p := range strings.Split(s, "|") {
				n, err := strconv.Atoi(p)
				if err != nil {
					return sqlast.Opaque(s)
				}
				out = append(out, sqlast.Int(n))
			}
			return list(out)
		}
	case "json_arrayagg":
		var x interface{} = v
		if ti, ok := v.(interface{ ToInterface() (interface{}, error) }); ok {
			if y, err := ti.ToInterface(); err == nil {
				x = y
			}
		}
		if d, ok := v.(types.JSONDocument); ok {
			x = d.Val
		}
		if arr, ok := x.([]interface{}); ok {
			out := []sqlast.Value{}
			for _, e := range arr {
				out = append(out, eng.Norm(e))
			}
			return list(out)
		}
		return sqlast.Opaque(fmt.Sprintf("%T:%v", v, v))
	}
	return eng.Norm(v)
}

func (r *runner) runCase(c *Case) {
	db := eng.New()
	s := db.NewSession()
	ev := &dbEvent{Ev: "db", Case: c.ID, Rows: c.Rows, Src: c, SQL: []string{}}
	if c.Rows == nil {
		c.Rows = [][]sqlast.Value{}
		ev.Rows = c.Rows
	}
	if c.Aggs == nil {
		c.Aggs = []AggQ{}
	}
	if c.Wins == nil {
		c.Wins = []WinQ{}
	}
	must := func(q string) {
		ev.SQL = append(ev.SQL, q)
		s.MustExec(q)
	}
	must("CREATE TABLE w (id INT PRIMARY KEY, p INT, o INT, v INT)")
	if len(c.Rows) > 0 {
		var rows []string
		for _, row := range c.Rows {
			var vs []string
			for _, v := range row {
				vs = append(vs, v.SQL())
			}
			rows = append(rows, "("+strings.Join(vs, ", ")+")")
		}
		must("INSERT INTO w VALUES " + strings.Join(rows, ", "))
	}
	r.w.Write(ev)
	r.rep.Cases++
	k := 0
	run := func(kind, fn, tag string, q any, text string) {
		k++
		e := &qEvent{Ev: kind, ID: c.ID*1000 + k, Q: q, SQL: text, Tag: tag, Res: [][]any{}}
		res := s.Exec(text)
		if res.Kind != "rows" {
			e.Err = res.Kind + ": " + res.Msg
			r.nErr++
		} else {
			for _, row := range res.Raw {
				out := make([]any, len(row))
				for i, v := range row {
					if i == len(row)-1 {
						out[i] = encode(fn, v)
					} else {
						out[i] = eng.Norm(v)
					}
				}
				e.Res = append(e.Res, out)
			}
		}
		r.w.Write(e)
		r.nEv++
		r.fns[fn]++
		r.tags[kind+":"+tag]++
	}
	for _, q := range c.Wins {
		run("win", q.Fn, q.tag(), q, q.SQL())
	}
	for _, q := range c.Aggs {
		run("agg", q.Fn, q.tag(), q, q.SQL())
	}
	if nontrivial(c) {
		r.rep.Nontrivial++
	}
	if len(r.rep.Samples) < 3 && nontrivial(c) && c.ID%7 == 0 && len(c.Wins) > 0 {
		r.rep.Samples = append(r.rep.Samples, map[string]interface{}{"case": c.ID, "setup": ev.SQL, "first_query": c.Wins[0].SQL(), "queries": len(c.Wins) + len(c.Aggs)})
	}
}

// nontrivial: at least 3 rows, a tie in the ORDER BY column and a NULL somewhere.
func nontrivial(c *Case) bool {
	if len(c.Rows) < 3 {
		return false
	}
	seen := map[string]bool{}
	tie, null := false, false
	for _, r := range c.Rows {
		key := fmt.Sprint(r[1], "/", r[2])
		if seen[key] {
			tie = true
		}
		seen[key] = true
		for _, v := range r[1:] {
			if v.T == "n" {
				null = true
			}
		}
	}
	return tie && null
}

func main() {
	mode := flag.String("mode", "gen", "gen | exec")
	seed := flag.Int64("seed", 1, "")
	n := flag.Int("cases", 30, "number of generated cases (mode gen)")
	out := flag.String("out", "trace.ndjson", "")
	in := flag.String("in", "", "cases to execute")
	onlyS := flag.String("only", "", "run only the cases with these ids")
	flag.Parse()
	var only map[int]bool
	if *onlyS != "" {
		only = map[int]bool{}
		for _, p := range strings.Split(*onlyS, ",") {
			if x, err := strconv.Atoi(p); err == nil {
				only[x] = true
			}
		}
	}
	skip := func(id int) bool { return only != nil && !only[id] }
	w, err := vio.NewWriter(*out)
	if err != nil {
		vio.Fatal("%v", err)
	}
	r := &runner{w: w, rep: &vio.Report{Extra: map[string]interface{}{}}, fns: map[string]int{}, tags: map[string]int{}}
	if *in != "" {
		err := vio.ReadNDJSON(*in, func(i int, line []byte) error {
			var c Case
			if err := json.Unmarshal(line, &c); err != nil {
				return err
			}
			if c.Ev != "case" || skip(c.ID) {
				return nil
			}
			r.runCase(&c)
			return nil
		})
		if err != nil {
			vio.Fatal("%v", err)
		}
	}
	if *mode == "gen" {
		for i := 1; i <= *n; i++ {
			if skip(i) {
				continue
			}
			r.runCase(genCase(rand.New(rand.NewSource(*seed*1000003+int64(i))), i))
		}
	}
	w.Close()
	r.rep.Extra["functions"] = r.fns
	r.rep.Extra["windows"] = r.tags
	r.rep.Extra["query_events"] = r.nEv
	r.rep.Extra["engine_errors"] = r.nErr
	fmt.Fprintf(os.Stderr, "%s: %d cases, %d query events, %d engine errors\n", *mode, r.rep.Cases, r.nEv, r.nErr)
	r.rep.Emit()
}
