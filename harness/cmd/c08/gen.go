package main

import (
	"math/rand"

	"gmsverif/lib/sqlast"
)

var frameFns = []string{"first_value", "last_value", "count", "countstar", "sum", "avg", "min", "max"}
var rankFns = []string{"row_number", "rank", "dense_rank", "percent_rank", "ntile", "lag", "lead"}

func intOrNull(r *rand.Rand, lo, hi int, nullP float64) sqlast.Value {
	if r.Float64() < nullP {
		return sqlast.Null()
	}
	return sqlast.Int(lo + r.Intn(hi-lo+1))
}

// validEnds lists the end bounds SQL accepts after a start bound.
func validEnds(s string) []string {
	switch s {
	case "up", "p":
		return []string{"p", "cr", "f", "uf"}
	case "cr":
		return []string{"cr", "f", "uf"}
	}
	return []string{"f", "uf"}
}

func genFrame(r *rand.Rand, dir string) Frame {
	units := []string{"none", "rows", "rows", "range", "range"}
	u := units[r.Intn(len(units))]
	if u == "none" {
		return Frame{Unit: "none", S: Bound{K: "up"}, E: Bound{K: "cr"}}
	}
	starts := []string{"up", "p", "cr", "f"}
	s := starts[r.Intn(len(starts))]
	ends := validEnds(s)
	e := ends[r.Intn(len(ends))]
	if u == "range" && dir == "none" && (s == "p" || s == "f" || e == "p" || e == "f") {
		// RANGE with a numeric offset needs the ORDER BY key
		u = "rows"
	}
	f := Frame{Unit: u, S: Bound{K: s}, E: Bound{K: e}}
	if s == "p" || s == "f" {
		f.S.N = r.Intn(4)
	}
	if e == "p" || e == "f" {
		f.E.N = r.Intn(4)
	}
	return f
}

func genWindow(r *rand.Rand) (bool, string) {
	dirs := []string{"none", "asc", "asc", "asc", "desc", "desc"}
	return r.Intn(3) > 0, dirs[r.Intn(len(dirs))]
}

func genCase(r *rand.Rand, id int) *Case {
	c := &Case{Ev: "case", ID: id}
	n := r.Intn(13)
	if r.Intn(4) > 0 && n < 4 {
		n += 4
	}
	nullO, nullV := 0.15, 0.2
	if r.Intn(3) == 0 {
		nullO = 0
	}
	oLo, oHi := -3, 5
	if r.Intn(2) == 0 { // many ties
		oLo, oHi = 0, 2
	}
	for i := 1; i <= n; i++ {
		p := sqlast.Int(1 + r.Intn(2))
		if r.Intn(8) == 0 {
			p = sqlast.Null()
		}
		c.Rows = append(c.Rows, []sqlast.Value{sqlast.Int(i), p, intOrNull(r, oLo, oHi, nullO), intOrNull(r, -3, 5, nullV)})
	}
	r.Shuffle(len(c.Rows), func(i, j int) { c.Rows[i], c.Rows[j] = c.Rows[j], c.Rows[i] })
	for _, fn := range rankFns {
		for k := 0; k < 2; k++ {
			part, dir := genWindow(r)
			q := WinQ{Fn: fn, Arg: "v", Part: part, Dir: dir, Def: sqlast.Null(), Frame: Frame{Unit: "none", S: Bound{K: "up"}, E: Bound{K: "cr"}}}
			switch fn {
			case "ntile":
				q.K = 1 + r.Intn(5)
			case "lag", "lead":
				q.K = r.Intn(4)
				if r.Intn(2) == 0 {
					q.Def = sqlast.Int(9)
				}
			}
			c.Wins = append(c.Wins, q)
		}
	}
	for _, fn := range frameFns {
		for k := 0; k < 3; k++ {
			part, dir := genWindow(r)
			c.Wins = append(c.Wins, WinQ{Fn: fn, Arg: "v", Part: part, Dir: dir, Def: sqlast.Null(), Frame: genFrame(r, dir)})
		}
	}
	for _, g := range []bool{true, false} {
		for _, fn := range []string{"count", "countstar", "sum", "avg", "min", "max", "json_arrayagg"} {
			c.Aggs = append(c.Aggs, AggQ{Fn: fn, Arg: "v", Group: g, Ord: "none"})
		}
		for _, fn := range []string{"bit_and", "bit_or", "bit_xor"} {
			c.Aggs = append(c.Aggs, AggQ{Fn: fn, Arg: "abs", Group: g, Ord: "none"})
		}
		c.Aggs = append(c.Aggs,
			AggQ{Fn: "group_concat", Arg: "v", Group: g, Ord: "none"},
			AggQ{Fn: "group_concat", Arg: "v", Group: g, Ord: "oid"},
			AggQ{Fn: "group_concat", Arg: "v", Group: g, Ord: "vdesc"},
			AggQ{Fn: "group_concat", Arg: "v", Group: g, Ord: "vdesc", Dist: true})
	}
	return c
}
