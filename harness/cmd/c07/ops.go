package main

import (
	"fmt"
	"strings"

	"gmsverif/lib/eng"
)

// opsRunner executes the hashing operators over the tables of one case and records what they
// produced, expressed over row ids.  No expectation is computed here.
type opsRunner struct {
	r    *runner
	c    *Case
	db   *eng.DB
	s    *eng.Session
	emit func(*opEvent)
}

// query runs q; on an engine error the op event carries the message (a kind of its own in the spec).
func (x *opsRunner) query(o *opEvent, q string) ([][]interface{}, bool) {
	o.SQL = append(o.SQL, q)
	res := x.s.Exec(q)
	if res.Kind != "rows" {
		if o.Err == "" {
			o.Err = res.Kind + ": " + res.Msg
		}
		return nil, false
	}
	out := make([][]interface{}, len(res.Raw))
	for i, r := range res.Raw {
		out[i] = r
	}
	return out, true
}

func (x *opsRunner) all() {
	ts := x.c.Tables
	for _, t := range ts {
		x.single(t.Name, []*Table{t}, "")
	}
	if x.c.Fam == "mixed" {
		// one column holding several numeric representations: UNION ALL of the tables
		var arms []string
		for _, t := range ts {
			arms = append(arms, fmt.Sprintf("SELECT id, x FROM %s", t.Name))
		}
		x.single("("+strings.Join(arms, " UNION ALL ")+") m", ts, "_unionall")
	}
	var pairs [][2]*Table
	switch len(ts) {
	case 2:
		pairs = [][2]*Table{{ts[0], ts[1]}, {ts[1], ts[0]}}
	case 3:
		pairs = [][2]*Table{{ts[0], ts[1]}, {ts[1], ts[2]}, {ts[2], ts[0]}, {ts[1], ts[0]}}
	}
	for _, p := range pairs {
		x.pair(p[0], p[1])
	}
	if x.c.Fam == "mixed" {
		// IN list mixing literal representations: the first row of t itself, then the rows of the other tables
		for _, t := range ts {
			if len(t.Vals) == 0 {
				continue
			}
			ms := []member{{t, 0}}
			for _, u := range ts {
				if u != t {
					for i := range u.Vals {
						ms = append(ms, member{u, i})
					}
				}
			}
			x.inListOf(t, ms, "in_list_mixed_"+t.Type, 0)
		}
	}
}

type member struct {
	t *Table
	i int
}

func idsOf(ts []*Table) []int {
	out := []int{}
	for _, t := range ts {
		out = append(out, t.ids...)
	}
	return out
}

// single: operators over one source (a table, or a derived table over several).
func (x *opsRunner) single(src string, ts []*Table, suffix string) {
	fam := famLabel(x.c, ts...)
	dom := idsOf(ts)
	for _, g := range []struct{ op, by string }{{"groupby", "x"}, {"groupby2", "x, id - id"}} {
		o := newOp(x.c, g.op+suffix, fam, "groups")
		o.L = dom
		rows, ok := x.query(o, fmt.Sprintf("SELECT MIN(id), COUNT(*), GROUP_CONCAT(id ORDER BY id) FROM %s GROUP BY %s", src, g.by))
		if ok {
			for _, r := range rows {
				o.Mins = append(o.Mins, toInt(r[0]))
				o.Cnts = append(o.Cnts, toInt(r[1]))
				var ids []int
				for _, p := range strings.Split(fmt.Sprint(r[2]), ",") {
					ids = append(ids, toInt(strings.TrimSpace(p)))
				}
				o.Groups = append(o.Groups, ids)
			}
		}
		x.emit(o)
	}
	// SELECT DISTINCT: number of rows, and the rows mapped back to ids through '='
	x.values("distinct"+suffix, "union", fmt.Sprintf("SELECT DISTINCT x FROM %s", src), ts, nil, fam)
	o := newOp(x.c, "count_distinct"+suffix, fam, "count")
	o.L = dom
	if rows, ok := x.query(o, fmt.Sprintf("SELECT COUNT(DISTINCT x) FROM %s", src)); ok && len(rows) == 1 {
		o.Cnt = toInt(rows[0][0])
	} else if ok {
		o.Err = "COUNT(DISTINCT) returned no single row"
	}
	x.emit(o)
	if suffix == "" {
		t := ts[0]
		for _, so := range setops {
			if so.all {
				continue
			}
			x.values(so.op+"_self", so.op, fmt.Sprintf("SELECT x FROM %s %s SELECT x FROM %s", t.Name, so.sql, t.Name), ts, ts, fam)
		}
		x.inList(t, ts, "in_list_self", 0)
	}
}

var setops = []struct {
	op, sql string
	all     bool
}{
	{"union", "UNION", false}, {"intersect", "INTERSECT", false}, {"except", "EXCEPT", false},
	{"intersect_all", "INTERSECT ALL", true}, {"except_all", "EXCEPT ALL", true},
}

// values records a row-producing operator: number of rows, number of NULL rows, and the ids the
// rows match through a join back on '=' (one join per table of the left / right source).
func (x *opsRunner) values(op, sem, q string, lts, rts []*Table, fam string) {
	o := newOp(x.c, op, fam, "values")
	o.Sem = sem
	o.L, o.R = idsOf(lts), idsOf(rts)
	rows, ok := x.query(o, q)
	if ok {
		o.Cnt = len(rows)
		for _, r := range rows {
			if r[0] == nil {
				o.Nulls++
			}
		}
		seen := map[string]bool{}
		for _, t := range append(append([]*Table{}, lts...), rts...) {
			if seen[t.Name] {
				continue
			}
			seen[t.Name] = true
			back, ok := x.query(o, fmt.Sprintf("SELECT b.id FROM (%s) d JOIN %s b ON d.x = b.x", q, t.Name))
			if !ok {
				break
			}
			for _, r := range back {
				o.Back = append(o.Back, toInt(r[0]))
			}
		}
	}
	x.emit(o)
}

// inList: t.x IN (literals of the values of us), in a WHERE clause (hashed IN) and in the select list.
func (x *opsRunner) inList(t *Table, us []*Table, op string, pad int) {
	var ms []member
	for _, u := range us {
		for i := range u.Vals {
			ms = append(ms, member{u, i})
		}
	}
	x.inListOf(t, ms, op, pad)
}

func (x *opsRunner) inListOf(t *Table, ms []member, op string, pad int) {
	var lits []string
	members := []int{}
	us := []*Table{t}
	for _, m := range ms {
		lits = append(lits, literal(m.t.Vals[m.i], m.t.Type))
		members = append(members, m.t.ids[m.i])
		us = append(us, m.t)
	}
	for i := 0; len(lits) > 0 && len(lits) < pad; i++ {
		lits = append(lits, lits[i])
	}
	list := strings.Join(lits, ", ")
	if len(members) == 0 {
		return
	}
	fam := famLabel(x.c, us...)
	o := newOp(x.c, op+"_where", fam, "inrows")
	o.L, o.List = t.ids, members
	q := fmt.Sprintf("SELECT id FROM %s WHERE x IN (%s)", t.Name, list)
	if rows, ok := x.query(o, q); ok {
		for _, r := range rows {
			o.Rows = append(o.Rows, toInt(r[0]))
		}
		o.Plan = planOps(x.db, x.s, q)
	}
	x.emit(o)
	if pad == 0 {
		// NOT (x IN ...) in a WHERE clause keeps the rows where the (hashed) IN is FALSE, not NULL
		o = newOp(x.c, op+"_notwhere", fam, "notinrows")
		o.L, o.List = t.ids, members
		if rows, ok := x.query(o, fmt.Sprintf("SELECT id FROM %s WHERE NOT (x IN (%s))", t.Name, list)); ok {
			for _, r := range rows {
				o.Rows = append(o.Rows, toInt(r[0]))
			}
		}
		x.emit(o)
	}
	o = newOp(x.c, op+"_proj", fam, "in")
	o.L, o.List = t.ids, members
	if rows, ok := x.query(o, fmt.Sprintf("SELECT id, x IN (%s) FROM %s", list, t.Name)); ok {
		for _, r := range rows {
			o.Res = append(o.Res, [2]int{toInt(r[0]), tv(r[1])})
		}
	}
	x.emit(o)
}

func tv(v interface{}) int {
	if v == nil {
		return 2
	}
	if toInt(v) != 0 {
		return 1
	}
	return 0
}

// pair: operators relating the column of t with the column of u.
func (x *opsRunner) pair(t, u *Table) {
	fam := famLabel(x.c, t, u)
	for _, so := range setops {
		x.values(so.op, so.op, fmt.Sprintf("SELECT x FROM %s %s SELECT x FROM %s", t.Name, so.sql, u.Name), []*Table{t}, []*Table{u}, fam)
	}
	x.inList(t, []*Table{u}, "in_list", 0)
	x.inList(t, []*Table{u}, "in_list_long", 11)
	if len(u.ids) > 0 || true {
		o := newOp(x.c, "in_subq_where", fam, "inrows")
		o.L, o.List = t.ids, u.ids
		q := fmt.Sprintf("SELECT id FROM %s WHERE x IN (SELECT x FROM %s)", t.Name, u.Name)
		if rows, ok := x.query(o, q); ok {
			for _, r := range rows {
				o.Rows = append(o.Rows, toInt(r[0]))
			}
			o.Plan = planOps(x.db, x.s, q)
		}
		x.emit(o)
		o = newOp(x.c, "in_subq_proj", fam, "in")
		o.L, o.List = t.ids, u.ids
		if rows, ok := x.query(o, fmt.Sprintf("SELECT id, x IN (SELECT x FROM %s) FROM %s", u.Name, t.Name)); ok {
			for _, r := range rows {
				o.Res = append(o.Res, [2]int{toInt(r[0]), tv(r[1])})
			}
		}
		x.emit(o)
	}
	joins := []struct{ label, hint, a, b string }{
		{"join_hash", "/*+ HASH_JOIN(a,b) */ ", t.Name, u.Name},
		{"join_lookup", "/*+ LOOKUP_JOIN(a,b) */ ", t.Name, u.Name + "k"},
		{"join_merge", "/*+ MERGE_JOIN(a,b) */ ", t.Name + "k", u.Name + "k"},
		{"join_inner", "/*+ INNER_JOIN(a,b) */ ", t.Name, u.Name},
		{"join_default", "", t.Name, u.Name},
	}
	for _, j := range joins {
		o := newOp(x.c, j.label, fam, "pairs")
		o.L, o.R = t.ids, u.ids
		q := fmt.Sprintf("SELECT %sa.id, b.id FROM %s a JOIN %s b ON a.x = b.x", j.hint, j.a, j.b)
		if rows, ok := x.query(o, q); ok {
			for _, r := range rows {
				o.Pairs = append(o.Pairs, [2]int{toInt(r[0]), toInt(r[1])})
			}
			o.Plan = planOps(x.db, x.s, q)
			x.r.plans[j.label+":"+o.Plan]++
		}
		x.emit(o)
	}
}
