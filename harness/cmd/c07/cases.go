package main

import (
	"fmt"
	"math/rand"
	"strings"

	"gmsverif/lib/sqlast"
)

// Case is one value set: tables of one comparison family.  It is also the input format of
// `-mode exec` ({"ev":"case",...}); values use the trace encoding of sqlast.Value, numbers of the
// decimal/double tables as {"t":"q","n":scaled,"d":100}.
type Case struct {
	Ev     string   `json:"ev"`
	ID     int      `json:"id"`
	Fam    string   `json:"fam"`  // int | dec | dbl | mixed | str
	Coll   string   `json:"coll"` // str: bin | ai_ci | as_cs | general_ci ; else "none"
	Tables []*Table `json:"tables"`
	ExpCls [][]int  `json:"expcls,omitempty"` // binding A: the partition TLC expects (ids), checked by Trace_Eq
	Note   string   `json:"note,omitempty"`
	Ops    string   `json:"ops,omitempty"` // "matrix": record only the '=' matrix (witness of a defect of '=' itself)
}

type Table struct {
	Name string `json:"name"`
	Type string `json:"type"` // int | dec | dec1 | dbl | str
	Vals []TVal `json:"vals"`
	ids  []int  // global ids of the rows (assigned by the runner)
}

// TVal is a value to store: NULL, a number scaled by 100 (so 1.5 is 150), or a string.
type TVal struct {
	T       string `json:"t"`
	V       any    `json:"v,omitempty"` // "i": integer; "s": code points
	N       int    `json:"n,omitempty"` // "q": numerator
	D       int    `json:"d,omitempty"` // "q": denominator (1, 10 or 100)
	NegZero bool   `json:"negzero,omitempty"`
}

func (v TVal) isNull() bool { return v.T == "n" }

// scaled returns the number times 100.
func (v TVal) scaled() int {
	switch v.T {
	case "i":
		switch x := v.V.(type) {
		case int:
			return x * 100
		case float64:
			return int(x) * 100
		}
	case "q":
		d := v.D
		if d == 0 {
			d = 100
		}
		return v.N * (100 / d)
	}
	panic(fmt.Sprintf("not a number: %+v", v))
}

func (v TVal) text() string { return sqlast.Value{T: "s", V: v.V}.Text() }

func numVal(scaled int) TVal { return TVal{T: "q", N: scaled, D: 100} }
func strVal(s string) TVal   { sv := sqlast.Str(s); return TVal{T: "s", V: sv.V} }
func nullVal() TVal          { return TVal{T: "n"} }

var collName = map[string]string{
	"bin": "utf8mb4_0900_bin", "ai_ci": "utf8mb4_0900_ai_ci", "as_cs": "utf8mb4_0900_as_cs", "general_ci": "utf8mb4_general_ci",
}

func sqlType(typ, coll string) string {
	switch typ {
	case "int":
		return "INT"
	case "dec":
		return "DECIMAL(6,2)"
	case "dec1":
		return "DECIMAL(6,1)"
	case "dbl":
		return "DOUBLE"
	case "str":
		return "VARCHAR(16) COLLATE " + collName[coll]
	}
	panic("bad type " + typ)
}

// literal renders a value as a SQL literal of the representation of column type typ.
func literal(v TVal, typ string) string {
	if v.isNull() {
		return "NULL"
	}
	if typ == "str" {
		return sqlast.Value{T: "s", V: v.V}.SQL()
	}
	n := v.scaled()
	sign := ""
	if n < 0 {
		sign, n = "-", -n
	}
	switch typ {
	case "int":
		if n%100 != 0 {
			panic("non-integer in int table")
		}
		return fmt.Sprintf("%s%d", sign, n/100)
	case "dec":
		return fmt.Sprintf("%s%d.%02d", sign, n/100, n%100)
	case "dec1":
		if n%10 != 0 {
			panic("value does not fit DECIMAL(6,1)")
		}
		return fmt.Sprintf("%s%d.%d", sign, n/100, (n%100)/10)
	case "dbl":
		if v.NegZero {
			return "-0e0"
		}
		s := fmt.Sprintf("%s%d.%02d", sign, n/100, n%100)
		s = strings.TrimRight(strings.TrimRight(s, "0"), ".")
		return s + "e0"
	}
	panic("bad type " + typ)
}

// ---- seeded generation (binding B)

var strPool = []string{"a", "A", "b", "B", "a ", "ab", "Ab", "AB", "é", "e", "E", "É", "", "ae", " a", "b ", "1", "a1"}
var strRare = []string{"ss", "ß", "ö", "o", "A "}

var numPool = map[string][]int{
	"int":  {-100, 0, 100, 200, 300},
	"dec":  {-100, 0, 100, 150, 25, 250, 125, 200},
	"dec1": {-100, 0, 100, 150, 250, 50, 200},
	"dbl":  {-100, 0, 100, 150, 25, 250, 200},
}

// variant returns a string '=' may or may not identify with s (case / accent / trailing space).
func variant(r *rand.Rand, s string) string {
	switch r.Intn(6) {
	case 0:
		return strings.ToUpper(s)
	case 1:
		return strings.ToLower(s)
	case 2:
		return s + " "
	case 3:
		return strings.NewReplacer("e", "é", "é", "e", "E", "É", "É", "E").Replace(s)
	case 4:
		return strings.TrimRight(s, " ")
	}
	return s
}

func genCase(seed int64, idx int) *Case {
	r := rand.New(rand.NewSource(seed*1000003 + int64(idx)))
	c := &Case{Ev: "case", ID: idx, Coll: "none"}
	fams := []string{"int", "dec", "dbl", "mixed", "mixed", "mixed", "bin", "bin", "ai_ci", "ai_ci", "ai_ci", "as_cs", "general_ci"}
	f := fams[r.Intn(len(fams))]
	nullP := 0.15
	if r.Intn(5) == 0 {
		nullP = 0
	}
	switch f {
	case "int", "dec", "dbl":
		c.Fam = f
		pool := numPool[f]
		pick := func() TVal {
			if r.Float64() < nullP {
				return nullVal()
			}
			v := numVal(pool[r.Intn(len(pool))])
			if f == "dbl" && v.N == 0 && r.Intn(2) == 0 {
				v.NegZero = true
			}
			return v
		}
		t1 := &Table{Name: "t1", Type: f}
		for i, n := 0, 2+r.Intn(7); i < n; i++ {
			t1.Vals = append(t1.Vals, pick())
		}
		t2 := &Table{Name: "t2", Type: f}
		for i, n := 0, 1+r.Intn(5); i < n; i++ {
			if r.Intn(5) < 3 {
				t2.Vals = append(t2.Vals, t1.Vals[r.Intn(len(t1.Vals))])
			} else {
				t2.Vals = append(t2.Vals, pick())
			}
		}
		c.Tables = []*Table{t1, t2}
	case "mixed":
		c.Fam = "mixed"
		types := []string{"int", "dec", "dec1", "dbl"}
		r.Shuffle(len(types), func(i, j int) { types[i], types[j] = types[j], types[i] })
		nt := 2 + r.Intn(2)
		for k := 0; k < nt; k++ {
			t := &Table{Name: fmt.Sprintf("t%d", k+1), Type: types[k]}
			pool := numPool[types[k]]
			for i, n := 0, 1+r.Intn(5); i < n; i++ {
				if r.Float64() < nullP {
					t.Vals = append(t.Vals, nullVal())
				} else {
					// prefer values every representation can hold (integers and halves)
					v := pool[r.Intn(len(pool))]
					if types[k] != "int" && r.Intn(3) == 0 {
						v = []int{150, 250, 50}[r.Intn(3)]
					}
					t.Vals = append(t.Vals, numVal(v))
				}
			}
			c.Tables = append(c.Tables, t)
		}
	default:
		c.Fam, c.Coll = "str", f
		pick := func() TVal {
			if r.Float64() < nullP {
				return nullVal()
			}
			if r.Intn(25) == 0 {
				return strVal(strRare[r.Intn(len(strRare))])
			}
			return strVal(strPool[r.Intn(len(strPool))])
		}
		t1 := &Table{Name: "t1", Type: "str"}
		for i, n := 0, 2+r.Intn(7); i < n; i++ {
			if i > 0 && r.Intn(3) == 0 && !t1.Vals[i-1].isNull() {
				t1.Vals = append(t1.Vals, strVal(variant(r, t1.Vals[i-1].text())))
			} else {
				t1.Vals = append(t1.Vals, pick())
			}
		}
		t2 := &Table{Name: "t2", Type: "str"}
		for i, n := 0, 1+r.Intn(5); i < n; i++ {
			src := t1.Vals[r.Intn(len(t1.Vals))]
			if r.Intn(5) < 3 && !src.isNull() {
				t2.Vals = append(t2.Vals, strVal(variant(r, src.text())))
			} else {
				t2.Vals = append(t2.Vals, pick())
			}
		}
		c.Tables = []*Table{t1, t2}
	}
	return c
}
