package main

import (
	"bufio"
	"fmt"
	"os"
	"strings"

	"github.com/dolthub/go-mysql-server/sql"

	"gmsverif/lib/eng"
)

// runSQL executes the statements of a file (one per line) and prints raw results; lines starting with
// "plan " print the analysed plan. Debugging aid only, never part of a verdict.
func runSQL(path string) {
	db := eng.New()
	s := db.NewSession()
	f, err := os.Open(path)
	if err != nil {
		panic(err)
	}
	sc := bufio.NewScanner(f)
	for sc.Scan() {
		q := strings.TrimSpace(sc.Text())
		if q == "" || strings.HasPrefix(q, "--") {
			continue
		}
		if strings.HasPrefix(q, "plan ") {
			q = q[5:]
			node, err := db.Engine.AnalyzeQuery(s.Ctx(), q)
			if err != nil {
				fmt.Println("PLAN ERR", err)
				continue
			}
			fmt.Println(sql.DebugString(s.Ctx(), node))
			continue
		}
		r := s.Exec(q)
		fmt.Printf("> %s\n  %s %s", q, r.Kind, r.Msg)
		for _, row := range r.Raw {
			fmt.Printf(" %v", row)
		}
		fmt.Println()
	}
}
