// c07: driver of property C07 (grouping and de-duplication use the same equality as '=').
//
// A case is a small set of tables (id INT PRIMARY KEY, x <type>) of ONE comparison family.  For every
// case the driver records (binding B, validated by spec/Trace_Eq.tla):
//   - a `db` event: the stored values (read back from the engine) and the engine's own '=' matrix over
//     all rows of all tables of the case (SELECT a.id, b.id, a.x = b.x FROM ta a, tb b),
//   - a `matrix` event (the trace module checks the matrix there),
//   - one `op` event per hashing operator: the groups / rows / pairs the operator produced, over ids.
//
// The driver decides nothing: it only executes SQL and re-encodes results.  `-mode exec` runs cases
// given in a file (TLC-enumerated cases of spec/MC_Eq.tla = binding A; witnesses of known findings).
package main

import (
	"encoding/json"
	"flag"
	"fmt"
	"os"
	"strings"

	"gmsverif/lib/vio"
)

func main() {
	mode := flag.String("mode", "gen", "gen | exec | sql")
	seed := flag.Int64("seed", 1, "")
	n := flag.Int("cases", 40, "number of generated cases (mode gen)")
	out := flag.String("out", "trace.ndjson", "")
	in := flag.String("in", "", "cases to execute (mode exec) / statements (mode sql)")
	onlyS := flag.String("only", "", "run only the cases with these ids, comma separated (isolation re-run)")
	flag.Parse()
	if *mode == "sql" {
		runSQL(*in)
		return
	}
	only := parseOnly(*onlyS)
	w, err := vio.NewWriter(*out)
	if err != nil {
		vio.Fatal("%v", err)
	}
	r := &runner{w: w, rep: &vio.Report{Extra: map[string]interface{}{}}, opKinds: map[string]int{}, plans: map[string]int{}, fams: map[string]int{}}
	execFile := func() {
		err := vio.ReadNDJSON(*in, func(i int, line []byte) error {
			var c Case
			if err := json.Unmarshal(line, &c); err != nil {
				return err
			}
			if c.Ev != "case" || only.skip(c.ID) {
				return nil
			}
			r.runCase(&c)
			return nil
		})
		if err != nil {
			vio.Fatal("%v", err)
		}
	}
	switch *mode {
	case "gen":
		if *in != "" { // given cases first (witnesses, TLC-enumerated cases), then the generated ones
			execFile()
		}
		for i := 1; i <= *n; i++ {
			if only.skip(i) {
				continue
			}
			c := genCase(*seed, i)
			r.runCase(c)
		}
	case "exec":
		execFile()
	default:
		vio.Fatal("unknown mode %s", *mode)
	}
	w.Close()
	r.rep.Extra["ops"] = r.opKinds
	r.rep.Extra["join_plans"] = r.plans
	r.rep.Extra["families"] = r.fams
	r.rep.Extra["op_events"] = r.nOps
	r.rep.Extra["engine_errors"] = r.nErr
	fmt.Fprintf(os.Stderr, "%s: %d cases, %d op events, %d engine errors\n", *mode, r.rep.Cases, r.nOps, r.nErr)
	r.rep.Emit()
}

type onlySet map[int]bool

func (o onlySet) skip(id int) bool { return o != nil && !o[id] }

func parseOnly(s string) onlySet {
	if s == "" {
		return nil
	}
	o := onlySet{}
	for _, p := range strings.Split(s, ",") {
		var n int
		if _, err := fmt.Sscan(p, &n); err == nil {
			o[n] = true
		}
	}
	return o
}
