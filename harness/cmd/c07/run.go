package main

import (
	"fmt"
	"math"
	"math/big"
	"regexp"
	"strconv"
	"strings"

	"github.com/cockroachdb/apd/v3"
	"github.com/dolthub/go-mysql-server/sql"

	"gmsverif/lib/eng"
	"gmsverif/lib/sqlast"
	"gmsverif/lib/vio"
)

type runner struct {
	w       *vio.Writer
	rep     *vio.Report
	opKinds map[string]int
	plans   map[string]int
	fams    map[string]int
	nOps    int
	nErr    int
}

// dbEvent is the case header: values as stored (read back), the engine's '=' matrix by id.
type dbEvent struct {
	Ev     string   `json:"ev"` // "db" (the chunked validator repeats these lines at chunk starts)
	Case   int      `json:"case"`
	Fam    string   `json:"fam"`
	Coll   string   `json:"coll"` // bin | ci | cs | opaque | none : how Trace_Eq interprets strings
	N      int      `json:"n"`
	Vals   []any    `json:"vals"`
	Tab    []int    `json:"tab"` // table index of every id
	Eq     [][]int  `json:"eq"`  // 1 TRUE, 0 FALSE, 2 NULL, 3 not reported
	ExpCls [][]int  `json:"expcls,omitempty"`
	Src    *Case    `json:"src"` // the case as given (re-executable with -mode exec); ignored by the spec
	SQL    []string `json:"sql"`
}

type opEvent struct {
	Ev     string   `json:"ev"` // "op" | "matrix"
	ID     int      `json:"id"`
	Case   int      `json:"case"`
	Op     string   `json:"op"`
	Fam    string   `json:"fam"`
	K      string   `json:"k"` // groups | values | count | in | inrows | pairs | matrix
	Sem    string   `json:"sem,omitempty"`
	L      []int    `json:"L"`
	R      []int    `json:"R"`
	Groups [][]int  `json:"groups"`
	Mins   []int    `json:"mins"`
	Cnts   []int    `json:"cnts"`
	Cnt    int      `json:"cnt"`
	Nulls  int      `json:"nulls"`
	Back   []int    `json:"back"`
	List   []int    `json:"list"`
	Res    [][2]int `json:"res"`
	Rows   []int    `json:"rows"`
	Pairs  [][2]int `json:"pairs"`
	Err    string   `json:"err,omitempty"`
	Plan   string   `json:"plan,omitempty"`
	SQL    []string `json:"sql"`
}

func newOp(c *Case, op, fam, k string) *opEvent {
	return &opEvent{Ev: "op", Case: c.ID, Op: op, Fam: fam, K: k, L: []int{}, R: []int{}, Groups: [][]int{}, Mins: []int{}, Cnts: []int{},
		Back: []int{}, List: []int{}, Res: [][2]int{}, Rows: []int{}, Pairs: [][2]int{}, SQL: []string{}}
}

var modelledRunes = func() map[rune]bool {
	m := map[rune]bool{' ': true, 'é': true, 'É': true}
	for r := '0'; r <= '9'; r++ {
		m[r] = true
	}
	for r := 'a'; r <= 'z'; r++ {
		m[r] = true
		m[r-32] = true
	}
	return m
}()

// traceColl maps the collation to the tag Trace_Eq interprets; general_ci (PAD SPACE, its own
// accent/expansion rules) stays opaque.
func traceColl(c *Case) string {
	switch c.Coll {
	case "bin":
		return "bin"
	case "ai_ci":
		return "ci"
	case "as_cs":
		return "cs"
	case "none":
		return "none"
	}
	return "opaque"
}

// stored re-encodes a value read back from the engine.  Strings outside the modelled alphabet and
// numbers that are not exact hundredths become opaque ({"t":"o"}): the spec then checks only the
// equivalence laws and the operator partitions on them.
func stored(v interface{}, coll string) any {
	switch x := v.(type) {
	case nil:
		return sqlast.Null()
	case int8, int16, int32, int64, int, uint8, uint16, uint32, uint64:
		return eng.Norm(x)
	case float64:
		s := x * 100
		if s == math.Trunc(s) && math.Abs(s) < 1e8 {
			return qVal(int(s))
		}
		return sqlast.Opaque(fmt.Sprint(x))
	case *apd.Decimal:
		return decVal(x)
	case apd.Decimal:
		return decVal(&x)
	case string:
		if coll == "opaque" {
			return sqlast.Opaque(x)
		}
		if coll != "bin" {
			for _, r := range x {
				if !modelledRunes[r] {
					return sqlast.Opaque(x)
				}
			}
		}
		return sqlast.Str(x)
	}
	return sqlast.Opaque(fmt.Sprintf("%T:%v", v, v))
}

func decVal(d *apd.Decimal) any {
	if d.Form != apd.Finite || d.Exponent < -2 || d.Exponent > 4 {
		return sqlast.Opaque(d.String())
	}
	n := new(big.Int).Set(d.Coeff.MathBigInt())
	n.Mul(n, new(big.Int).Exp(big.NewInt(10), big.NewInt(int64(d.Exponent)+2), nil))
	if !n.IsInt64() || n.Int64() > 1e8 {
		return sqlast.Opaque(d.String())
	}
	s := int(n.Int64())
	if d.Negative {
		s = -s
	}
	return qVal(s)
}

// qVal is the exact fraction scaled/100 in the trace encoding {"t":"q","n":..,"d":100}.
func qVal(scaled int) any { return map[string]any{"t": "q", "n": scaled, "d": 100} }

func (r *runner) runCase(c *Case) {
	db := eng.New()
	s := db.NewSession()
	ev := &dbEvent{Ev: "db", Case: c.ID, Fam: c.Fam, Coll: traceColl(c), ExpCls: c.ExpCls, Src: c, SQL: []string{}}
	must := func(q string) {
		ev.SQL = append(ev.SQL, q)
		s.MustExec(q)
	}
	id := 0
	for ti, t := range c.Tables {
		t.ids = []int{}
		typ := sqlType(t.Type, c.Coll)
		must(fmt.Sprintf("CREATE TABLE %s (id INT PRIMARY KEY, x %s)", t.Name, typ))
		must(fmt.Sprintf("CREATE TABLE %sk (id INT PRIMARY KEY, x %s, KEY kx (x))", t.Name, typ))
		var rows []string
		for _, v := range t.Vals {
			id++
			t.ids = append(t.ids, id)
			ev.Tab = append(ev.Tab, ti+1)
			rows = append(rows, fmt.Sprintf("(%d, %s)", id, literal(v, t.Type)))
		}
		if len(rows) > 0 {
			must(fmt.Sprintf("INSERT INTO %s VALUES %s", t.Name, strings.Join(rows, ", ")))
			must(fmt.Sprintf("INSERT INTO %sk VALUES %s", t.Name, strings.Join(rows, ", ")))
		}
	}
	ev.N = id
	if ev.Tab == nil {
		ev.Tab = []int{}
	}
	// stored values
	ev.Vals = make([]any, id)
	for _, t := range c.Tables {
		res := s.Exec(fmt.Sprintf("SELECT id, x FROM %s", t.Name))
		if res.Kind != "rows" {
			vio.Fatal("read back failed: %s", res.Msg)
		}
		for _, row := range res.Raw {
			ev.Vals[toInt(row[0])-1] = stored(row[1], ev.Coll)
		}
	}
	// the engine's '=' matrix
	ev.Eq = make([][]int, id)
	for i := range ev.Eq {
		ev.Eq[i] = make([]int, id)
		for j := range ev.Eq[i] {
			ev.Eq[i][j] = 3
		}
	}
	for _, ta := range c.Tables {
		for _, tb := range c.Tables {
			q := fmt.Sprintf("SELECT a.id, b.id, a.x = b.x FROM %s a, %s b", ta.Name, tb.Name)
			ev.SQL = append(ev.SQL, q)
			res := s.Exec(q)
			if res.Kind != "rows" {
				vio.Fatal("matrix query failed: %s: %s", q, res.Msg)
			}
			for _, row := range res.Raw {
				cell := 2
				switch b := row[2].(type) {
				case bool:
					if b {
						cell = 1
					} else {
						cell = 0
					}
				case nil:
				default:
					cell = toInt(b)
				}
				ev.Eq[toInt(row[0])-1][toInt(row[1])-1] = cell
			}
		}
	}
	r.w.Write(ev)
	r.rep.Cases++
	fam := famLabel(c, c.Tables...)
	r.fams[c.Fam+"/"+c.Coll]++
	k := 0
	emit := func(o *opEvent) {
		k++
		o.ID = c.ID*1000 + k
		if o.Err != "" {
			r.nErr++
		}
		r.w.Write(o)
		r.nOps++
		r.opKinds[o.Op]++
	}
	emit(&opEvent{Ev: "matrix", Case: c.ID, Op: "matrix", Fam: fam, K: "matrix", L: []int{}, R: []int{}, Groups: [][]int{}, Mins: []int{},
		Cnts: []int{}, Back: []int{}, List: []int{}, Res: [][2]int{}, Rows: []int{}, Pairs: [][2]int{}, SQL: []string{}})
	x := &opsRunner{r: r, c: c, db: db, s: s, emit: emit}
	if c.Ops != "matrix" {
		x.all()
	}
	// non-trivial: some '=' class of the case has two members with different stored representations,
	// or the case holds a NULL next to non-NULL values
	if nontrivial(ev) {
		r.rep.Nontrivial++
	}
	if len(r.rep.Samples) < 3 && nontrivial(ev) && c.ID%5 == 0 {
		r.rep.Samples = append(r.rep.Samples, map[string]interface{}{"case": c.ID, "fam": c.Fam, "coll": c.Coll, "sql": ev.SQL, "eq_matrix": ev.Eq})
	}
}

func nontrivial(ev *dbEvent) bool {
	for i := 0; i < ev.N; i++ {
		for j := 0; j < ev.N; j++ {
			if i != j && ev.Eq[i][j] == 1 {
				a, b := ev.Vals[i], ev.Vals[j]
				if fmt.Sprint(a) != fmt.Sprint(b) || ev.Tab[i] != ev.Tab[j] {
					return true
				}
			}
		}
	}
	return false
}

func toInt(v interface{}) int {
	switch x := v.(type) {
	case int:
		return x
	case int8:
		return int(x)
	case int16:
		return int(x)
	case int32:
		return int(x)
	case int64:
		return int(x)
	case uint8:
		return int(x)
	case uint16:
		return int(x)
	case uint32:
		return int(x)
	case uint64:
		return int(x)
	case float64:
		return int(x)
	case bool:
		if x {
			return 1
		}
		return 0
	case string:
		n, err := strconv.Atoi(x)
		if err != nil {
			vio.Fatal("not an integer: %q", x)
		}
		return n
	case *apd.Decimal:
		n, err := x.Int64()
		if err != nil {
			vio.Fatal("not an integer: %v", x)
		}
		return int(n)
	}
	vio.Fatal("not an integer: %T %v", v, v)
	return 0
}

// famLabel names the comparison family of the participating tables for signatures: the collation for
// strings, the (sorted, distinct) column representations for numbers, e.g. "dec+int".
func famLabel(c *Case, ts ...*Table) string {
	if c.Fam == "str" {
		return c.Coll
	}
	order := []string{"int", "dec", "dec1", "dbl"}
	have := map[string]bool{}
	for _, t := range ts {
		have[t.Type] = true
	}
	var out []string
	for _, o := range order {
		if have[o] {
			out = append(out, o)
		}
	}
	return strings.Join(out, "+")
}

var joinOpRe = regexp.MustCompile(`(HashJoin|LookupJoin|MergeJoin|InnerJoin|CrossJoin|SemiJoin|AntiJoin|LateralCrossJoin|CrossHashJoin|LeftOuter\w*Join|RangeHeapJoin|HashIn|InSubquery|IndexedTableAccess|Filter)`)

// planOps returns the join / lookup operators of the analysed plan in order of appearance.
func planOps(db *eng.DB, s *eng.Session, q string) string {
	node, err := db.Engine.AnalyzeQuery(s.Ctx(), q)
	if err != nil {
		return "?"
	}
	txt := sql.DebugString(s.Ctx(), node)
	var ops []string
	seen := map[string]bool{}
	for _, m := range joinOpRe.FindAllString(txt, -1) {
		if !seen[m] {
			seen[m] = true
			ops = append(ops, m)
		}
	}
	return strings.Join(ops, ",")
}
