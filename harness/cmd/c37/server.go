// Binding B of C37: traces recorded from a real in-process server.
//
// The engine's ProcessList is replaced by a recorder that forwards every call to the real
// sqle.ProcessList. The recorder serialises the calls with its own mutex, so the order of the log IS
// the order in which the real object executed them; the observation (Processes(), status of every
// issued context, counters) is taken inside the same critical section.
package main

import (
	"context"
	dsql "database/sql"
	"fmt"
	"math/rand"
	"sort"
	"strings"
	"sync"
	"time"

	_ "github.com/go-sql-driver/mysql"

	"gmsverif/lib/vio"

	sqle "github.com/dolthub/go-mysql-server"
	"github.com/dolthub/go-mysql-server/memory"
	"github.com/dolthub/go-mysql-server/server"
	"github.com/dolthub/go-mysql-server/sql"
)

type tokInfo struct {
	parent, child *sql.Context
}

type OEntry struct {
	C    int    `json:"c"`
	Cmd  string `json:"cmd"`
	Pid  int    `json:"pid"`
	K    bool   `json:"k"`
	HasQ bool   `json:"hasq"`
}

type Obs struct {
	Procs      []OEntry `json:"procs"`
	Ntok       int      `json:"ntok"`
	Cancelled  []int    `json:"cancelled"`  // child cancelled, parent alive: cancelled by the process list
	ParentDone []int    `json:"parentdone"` // parent context done: the server tore the query down itself
	Tconn      int64    `json:"tconn"`
	Trun       int64    `json:"trun"`
}

type Event struct {
	Name string `json:"name"`
	C    int    `json:"c"`
	P    int    `json:"p"`
	T    int    `json:"t"`
	R    string `json:"r"`
	Obs  *Obs   `json:"obs,omitempty"`
	Q    string `json:"q,omitempty"` // informational
}

type recorder struct {
	mu     sync.Mutex
	real   *sqle.ProcessList
	toks   []tokInfo
	byCtx  map[*sql.Context]int
	events []Event
	c0, r0 uint64
}

var _ sql.ProcessList = (*recorder)(nil)

func newRecorder(real *sqle.ProcessList) *recorder {
	return &recorder{real: real, byCtx: map[*sql.Context]int{}, c0: counter("Threads_connected"), r0: counter("Threads_running")}
}

func (r *recorder) observe() *Obs {
	o := &Obs{Procs: []OEntry{}, Cancelled: []int{}, ParentDone: []int{}}
	for _, p := range r.real.Processes() {
		o.Procs = append(o.Procs, OEntry{C: int(p.Connection), Cmd: string(p.Command), Pid: int(p.QueryPid), K: p.Kill != nil, HasQ: p.Query != ""})
	}
	sort.Slice(o.Procs, func(i, j int) bool { return o.Procs[i].C < o.Procs[j].C })
	o.Ntok = len(r.toks)
	for k, t := range r.toks {
		// child first: a child cancelled through its parent implies the parent's Err is already set
		childDone := t.child.Err() != nil
		parentDone := t.parent.Err() != nil
		switch {
		case parentDone:
			o.ParentDone = append(o.ParentDone, k+1)
		case childDone:
			o.Cancelled = append(o.Cancelled, k+1)
		}
	}
	o.Tconn = int64(counter("Threads_connected") - r.c0)
	o.Trun = int64(counter("Threads_running") - r.r0)
	return o
}

// guard logs a call of the real object that panicked as an event no specification step matches, and
// lets the panic continue (the server's behaviour is not changed by the recorder).
func (r *recorder) guard(name string, c int) {
	if x := recover(); x != nil {
		r.events = append(r.events, Event{Name: "PANIC-in-" + name, C: c, R: fmt.Sprint(x), Obs: r.observe()})
		panic(x)
	}
}

func (r *recorder) log(name string, c, p, t int, ret, q string) {
	r.events = append(r.events, Event{Name: name, C: c, P: p, T: t, R: ret, Obs: r.observe(), Q: q})
}

func (r *recorder) Processes() []sql.Process { return r.real.Processes() }

func (r *recorder) AddConnection(id uint32, addr string) {
	r.mu.Lock()
	defer r.mu.Unlock()
	defer r.guard("AddConnection", int(id))
	r.real.AddConnection(id, addr)
	r.log("AddConnection", int(id), 0, 0, "ok", "")
}

func (r *recorder) ConnectionReady(sess sql.Session) {
	r.mu.Lock()
	defer r.mu.Unlock()
	defer r.guard("ConnectionReady", int(sess.ID()))
	r.real.ConnectionReady(sess)
	r.log("ConnectionReady", int(sess.ID()), 0, 0, "ok", "")
}

func (r *recorder) RemoveConnection(id uint32) {
	r.mu.Lock()
	defer r.mu.Unlock()
	defer r.guard("RemoveConnection", int(id))
	r.real.RemoveConnection(id)
	r.log("RemoveConnection", int(id), 0, 0, "ok", "")
}

func classifyErr(err error) string {
	switch {
	case err == nil:
		return "ok"
	case sql.ErrPidAlreadyUsed.Is(err):
		return "err-pidused"
	case strings.Contains(err.Error(), "not registered"):
		return "err-unregistered"
	case strings.Contains(err.Error(), "already running"):
		return "err-busy"
	}
	return "error:" + err.Error()
}

func (r *recorder) begin(name string, ctx *sql.Context, query string, f func() (*sql.Context, error)) (*sql.Context, error) {
	if ctx.IsInterpreted() {
		return f()
	}
	r.mu.Lock()
	defer r.mu.Unlock()
	defer r.guard(name, int(ctx.Session.ID()))
	nctx, err := f()
	t := 0
	if err == nil {
		r.toks = append(r.toks, tokInfo{parent: ctx, child: nctx})
		t = len(r.toks)
		r.byCtx[nctx] = t
	}
	p := 0
	if name == "BeginQuery" {
		p = int(ctx.Pid())
	}
	r.log(name, int(ctx.Session.ID()), p, t, classifyErr(err), query)
	return nctx, err
}

func (r *recorder) end(name string, ctx *sql.Context, f func()) {
	if ctx.IsInterpreted() {
		f()
		return
	}
	r.mu.Lock()
	defer r.mu.Unlock()
	defer r.guard(name, int(ctx.Session.ID()))
	f()
	p := 0
	if name == "EndQuery" {
		p = int(ctx.Pid())
	}
	r.log(name, int(ctx.Session.ID()), p, r.byCtx[ctx], "ok", "")
}

func (r *recorder) BeginQuery(ctx *sql.Context, query string) (*sql.Context, error) {
	return r.begin("BeginQuery", ctx, query, func() (*sql.Context, error) { return r.real.BeginQuery(ctx, query) })
}
func (r *recorder) EndQuery(ctx *sql.Context) {
	r.end("EndQuery", ctx, func() { r.real.EndQuery(ctx) })
}
func (r *recorder) BeginOperation(ctx *sql.Context) (*sql.Context, error) {
	return r.begin("BeginOperation", ctx, "", func() (*sql.Context, error) { return r.real.BeginOperation(ctx) })
}
func (r *recorder) EndOperation(ctx *sql.Context) {
	r.end("EndOperation", ctx, func() { r.real.EndOperation(ctx) })
}

func (r *recorder) Kill(id uint32) {
	r.mu.Lock()
	defer r.mu.Unlock()
	defer r.guard("Kill", int(id))
	r.real.Kill(id)
	r.log("Kill", int(id), 0, 0, "ok", "")
}

func (r *recorder) UpdateTableProgress(pid uint64, name string, delta int64) {
	r.real.UpdateTableProgress(pid, name, delta)
}
func (r *recorder) UpdatePartitionProgress(pid uint64, t, p string, delta int64) {
	r.real.UpdatePartitionProgress(pid, t, p, delta)
}
func (r *recorder) AddTableProgress(pid uint64, name string, total int64) {
	r.real.AddTableProgress(pid, name, total)
}
func (r *recorder) AddPartitionProgress(pid uint64, t, p string, total int64) {
	r.real.AddPartitionProgress(pid, t, p, total)
}
func (r *recorder) RemoveTableProgress(pid uint64, name string) {
	r.real.RemoveTableProgress(pid, name)
}
func (r *recorder) RemovePartitionProgress(pid uint64, t, p string) {
	r.real.RemovePartitionProgress(pid, t, p)
}

// ---- one server + scripted / random clients ------------------------------------------------------

type client struct {
	conn *dsql.Conn
	id   int
}

type scenario struct {
	rec  *recorder
	db   *dsql.DB
	rng  *rand.Rand
	stat map[string]int
	mu   sync.Mutex
}

func (s *scenario) count(k string) {
	s.mu.Lock()
	s.stat[k]++
	s.mu.Unlock()
}

type abortScenario struct{ why string }

// connect opens a dedicated connection and learns its id. A server that keeps failing here (a broken
// process list can do that) aborts the scenario; what was recorded so far is still validated.
func (s *scenario) connect() *client {
	var last error
	for try := 0; try < 5; try++ {
		ctx, cancel := context.WithTimeout(context.Background(), 10*time.Second)
		c, err := s.db.Conn(ctx)
		if err == nil {
			var id int
			if err = c.QueryRowContext(ctx, "SELECT CONNECTION_ID()").Scan(&id); err == nil {
				cancel()
				s.count("connect")
				return &client{conn: c, id: id}
			}
			c.Close()
		}
		cancel()
		last = err
		s.count("connect_failed")
		time.Sleep(50 * time.Millisecond)
	}
	panic(abortScenario{fmt.Sprintf("cannot connect: %v", last)})
}

// exec runs a statement and drains it; errors are the point of half of the scenarios.
func (c *client) exec(q string, timeout time.Duration) error {
	ctx, cancel := context.WithTimeout(context.Background(), timeout)
	defer cancel()
	rows, err := c.conn.QueryContext(ctx, q)
	if err != nil {
		return err
	}
	for rows.Next() {
	}
	err = rows.Err()
	rows.Close()
	return err
}

// a sleeping query on `victim` is started, `f` runs while it sleeps, the query's outcome is returned
func (s *scenario) duringSleep(victim *client, secs float64, clientTimeout time.Duration, f func()) error {
	done := make(chan error, 1)
	go func() { done <- victim.exec(fmt.Sprintf("SELECT SLEEP(%g)", secs), clientTimeout) }()
	s.waitQuery(victim.id)
	f()
	return <-done
}

// waitQuery waits until the list shows a running query on the connection (or 5 s).
func (s *scenario) waitQuery(id int) {
	for i := 0; i < 500; i++ {
		for _, p := range s.rec.real.Processes() {
			if int(p.Connection) == id && p.Command == sql.ProcessCommandQuery {
				time.Sleep(20 * time.Millisecond)
				return
			}
		}
		time.Sleep(10 * time.Millisecond)
	}
}

func (s *scenario) scripted() {
	a, b := s.connect(), s.connect()
	// KILL QUERY cancels the victim's running query only; the victim's next query is unaffected
	err := s.duringSleep(a, 3, 10*time.Second, func() {
		if e := b.exec(fmt.Sprintf("KILL QUERY %d", a.id), 5*time.Second); e != nil {
			s.count("kill_query_failed")
		}
	})
	if err != nil {
		s.count("kill_query_interrupted")
	}
	if e := a.exec("SELECT 1", 5*time.Second); e == nil {
		s.count("query_after_kill_ok")
	}
	if e := a.exec("SELECT SLEEP(0.05)", 5*time.Second); e == nil {
		s.count("sleep_after_kill_ok")
	}
	// USE (ComInitDB: BeginOperation, ConnectionReady, EndOperation) and a prepared statement
	a.exec("USE db", 5*time.Second)
	if st, e := b.conn.PrepareContext(context.Background(), "SELECT ? + 1"); e == nil {
		var x int
		st.QueryRow(41).Scan(&x)
		st.Close()
		s.count("prepared")
	}
	// KILL on an idle connection and on an unknown id
	b.exec(fmt.Sprintf("KILL QUERY %d", a.id), 5*time.Second)
	b.exec("KILL QUERY 9999", 5*time.Second)
	// two sleepers, one killed: the other must run to completion
	c := s.connect()
	var errC error
	errA := s.duringSleep(a, 3, 10*time.Second, func() {
		errC = s.duringSleep(c, 0.3, 10*time.Second, func() {
			b.exec(fmt.Sprintf("KILL QUERY %d", a.id), 5*time.Second)
		})
	})
	if errA != nil && errC == nil {
		s.count("kill_targeted_other_survived")
	}
	// KILL CONNECTION while the victim sleeps
	err = s.duringSleep(c, 3, 10*time.Second, func() {
		b.exec(fmt.Sprintf("KILL CONNECTION %d", c.id), 5*time.Second)
	})
	if err != nil {
		s.count("kill_connection_interrupted")
	}
	c.conn.Close()
	// client goes away in the middle of a query (the driver closes the socket on context expiry)
	d := s.connect()
	if e := d.exec("SELECT SLEEP(1.5)", 150*time.Millisecond); e != nil {
		s.count("client_gone_mid_query")
	}
	d.conn.Close()
	time.Sleep(200 * time.Millisecond)
	a.exec("SELECT 2", 5*time.Second)
	a.conn.Close()
	b.conn.Close()
}

func (s *scenario) random(nclients, steps int) {
	var ids sync.Map
	var wg sync.WaitGroup
	seeds := make([]int64, nclients)
	for i := range seeds {
		seeds[i] = s.rng.Int63()
	}
	for i := 0; i < nclients; i++ {
		wg.Add(1)
		go func(i int) {
			defer wg.Done()
			defer func() {
				if x := recover(); x != nil {
					if _, ok := x.(abortScenario); !ok {
						panic(x)
					}
					s.count("aborted")
				}
			}()
			rng := rand.New(rand.NewSource(seeds[i]))
			c := s.connect()
			ids.Store(i, c.id)
			for k := 0; k < steps; k++ {
				switch x := rng.Intn(100); {
				case x < 25:
					c.exec("SELECT 1", 5*time.Second)
				case x < 55:
					if c.exec(fmt.Sprintf("SELECT SLEEP(%g)", 0.02+0.1*rng.Float64()), 5*time.Second) != nil {
						s.count("random_query_interrupted")
					}
				case x < 75:
					if v, ok := ids.Load(rng.Intn(nclients)); ok {
						c.exec(fmt.Sprintf("KILL QUERY %d", v.(int)), 5*time.Second)
						s.count("random_kill_query")
					}
				case x < 80:
					if v, ok := ids.Load(rng.Intn(nclients)); ok && v.(int) != c.id {
						c.exec(fmt.Sprintf("KILL CONNECTION %d", v.(int)), 5*time.Second)
						s.count("random_kill_connection")
					}
				case x < 88:
					c.exec("USE db", 5*time.Second)
				case x < 93:
					if c.exec("SELECT SLEEP(0.5)", 40*time.Millisecond) != nil {
						s.count("random_client_gone")
					}
					fallthrough
				default:
					c.conn.Close()
					c = s.connect()
					ids.Store(i, c.id)
				}
				// a killed connection is unusable: reconnect
				if c.exec("SELECT 1", 5*time.Second) != nil {
					c.conn.Close()
					c = s.connect()
					ids.Store(i, c.id)
				}
			}
			c.conn.Close()
		}(i)
	}
	wg.Wait()
}

func runScenario(kind string, seed int64, stat map[string]int) []Event {
	pro := memory.NewDBProvider(memory.NewDatabase("db"))
	engine := sqle.NewDefault(pro)
	real, ok := engine.ProcessList.(*sqle.ProcessList)
	if !ok {
		vio.Fatal("engine.ProcessList is %T", engine.ProcessList)
	}
	rec := newRecorder(real)
	engine.ProcessList = rec
	srv, err := server.NewServer(server.Config{Protocol: "tcp", Address: "127.0.0.1:0"}, engine, sql.NewContext, memory.NewSessionBuilder(pro), nil)
	if err != nil {
		vio.Fatal("server: %v", err)
	}
	go srv.Start()
	db, err := dsql.Open("mysql", fmt.Sprintf("root:@tcp(%s)/db", srv.Listener.Addr().String()))
	if err != nil {
		vio.Fatal("open: %v", err)
	}
	db.SetMaxIdleConns(0)
	s := &scenario{rec: rec, db: db, rng: rand.New(rand.NewSource(seed)), stat: stat}
	func() {
		defer func() {
			if x := recover(); x != nil {
				if _, ok := x.(abortScenario); !ok {
					panic(x)
				}
				s.count("aborted")
			}
		}()
		if kind == "scripted" {
			s.scripted()
		} else {
			s.random(4, 25)
		}
	}()
	db.Close()
	srv.Close()
	fin := make(chan struct{})
	go func() { srv.SessionManager().WaitForClosedConnections(); close(fin) }()
	select {
	case <-fin:
	case <-time.After(20 * time.Second):
		vio.Fatal("connections did not close")
	}
	rec.mu.Lock()
	defer rec.mu.Unlock()
	return rec.events
}

func serverMode(out string, seed int64, rounds int) {
	w, err := vio.NewWriter(out)
	if err != nil {
		vio.Fatal("%v", err)
	}
	rep := &vio.Report{Extra: map[string]interface{}{}}
	stat := map[string]int{}
	byName := map[string]int{}
	traces := 0
	for i := 0; i < rounds; i++ {
		kind := "random"
		if i == 0 {
			kind = "scripted"
		}
		evs := runScenario(kind, seed*1000+int64(i), stat)
		w.Write(Event{Name: "reset", R: "ok"})
		prevCanc := 0
		for _, e := range evs {
			w.Write(e)
			byName[e.Name]++
			rep.Cases++
			if e.Name == "Kill" && e.Obs != nil && len(e.Obs.Cancelled) > prevCanc {
				rep.Nontrivial++ // a KILL that cancelled a context whose query was still running
			}
			prevCanc = len(e.Obs.Cancelled)
		}
		if len(rep.Samples) < 2 && len(evs) > 12 {
			rep.Samples = append(rep.Samples, evs[6:12])
		}
		traces++
	}
	if err := w.Close(); err != nil {
		vio.Fatal("%v", err)
	}
	rep.Extra["traces"] = traces
	rep.Extra["by_event"] = byName
	rep.Extra["scenario_outcomes"] = stat
	rep.Emit()
}
