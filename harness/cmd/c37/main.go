// c37: replays TLC-generated cases of spec/ProcessList.tla on a real sqle.ProcessList
// (binding A of C37).
//
// Every input line is one self-contained case produced by the spec's `Emit` action constraint:
// the history h that reaches a pre-state, one more step a (with the reply r the spec expects) and
// the expected observables `post`. The history is executed on a fresh ProcessList, then the step,
// then everything the property speaks of is observed on the real object and compared with the
// expectation computed by TLC:
//
//	list        Processes(): connection ids, Command, Query text, QueryPid, "a Kill func is stored"
//	byQueryPid  the pid index (unexported map, read through reflect, read-only)
//	ntok        number of contexts the real object has issued
//	cancelled   ctx.Err() != nil of EVERY context issued so far (context k = token k of the spec)
//	Threads_connected  judged against the ground truth |live|
//	Threads_running    judged against the ground truth (between the number of running queries of
//	                   live connections and the number of all queries not yet ended): a step on which
//	                   the real counter's distance from that interval changes is reported as
//	                   RunningCounter/<step class>/drift<d>
//
// The two counters are process-global status variables: they are read as deltas relative to the
// start of the case, and cases run sequentially.
package main

import (
	"bufio"
	"context"
	"encoding/json"
	"flag"
	"fmt"
	"hash/fnv"
	"io"
	"os"
	"reflect"
	"sort"
	"strings"

	"github.com/sirupsen/logrus"

	"gmsverif/lib/vio"

	sqle "github.com/dolthub/go-mysql-server"
	"github.com/dolthub/go-mysql-server/sql"
	"github.com/dolthub/go-mysql-server/sql/variables"
)

// HStep is one history step as the spec writes it: [name, c, p, t].
type HStep []interface{}

func (h HStep) name() string {
	if len(h) == 4 {
		if s, ok := h[0].(string); ok {
			return s
		}
	}
	vio.Fatal("malformed history step %v", []interface{}(h))
	return ""
}

func (h HStep) num(i int) int {
	f, ok := h[i].(float64)
	if !ok {
		vio.Fatal("malformed history step %v", []interface{}(h))
	}
	return int(f)
}

type Act struct {
	Name string `json:"name"`
	C    int    `json:"c"`
	P    int    `json:"p"`
	T    int    `json:"t"`
	Cls  string `json:"cls"`
}

type PEntry struct {
	C   int    `json:"c"`
	Cmd string `json:"cmd"`
	Pid int    `json:"pid"`
	Q   string `json:"q"`
	K   bool   `json:"k"`
}

type PidEntry struct {
	P int `json:"p"`
	C int `json:"c"`
}

type Pre struct {
	Trun  int `json:"trun"`
	Nrun  int `json:"nrun"`
	Nrunl int `json:"nrunl"`
	Tconn int `json:"tconn"`
	Ncanc int `json:"ncanc"`
	Ntok  int `json:"ntok"`
}

type Post struct {
	Procs     []PEntry   `json:"procs"`
	ByPid     []PidEntry `json:"byPid"`
	Ntok      int        `json:"ntok"`
	Cancelled []int      `json:"cancelled"`
	Tconn     int        `json:"tconn"`
	Trun      int        `json:"trun"`
	Nlive     int        `json:"nlive"`
	Nrun      int        `json:"nrun"`
	Nrunl     int        `json:"nrunl"`
}

type TR struct {
	H    []HStep `json:"h"`
	A    Act     `json:"a"`
	R    string  `json:"r"`
	Pre  Pre     `json:"pre"`
	Post Post    `json:"post"`
}

// ---- the real object under test ---------------------------------------------------------------

type world struct {
	pl     *sqle.ProcessList
	sess   map[int]*sql.BaseSession
	ctxs   []*sql.Context // ctxs[k-1] = the k-th context the ProcessList issued = token k
	c0, r0 uint64         // counter values at the start of the case
}

func counter(name string) uint64 {
	_, v, ok := sql.StatusVariables.GetGlobal(name)
	if !ok {
		vio.Fatal("status variable %s not found", name)
	}
	u, ok := v.(uint64)
	if !ok {
		vio.Fatal("status variable %s has type %T", name, v)
	}
	return u
}

func newWorld() *world {
	return &world{
		pl: sqle.NewProcessList(),
		c0: counter("Threads_connected"),
		r0: counter("Threads_running"),
	}
}

// Sessions only carry the connection id and client address here; they are shared by all cases
// (creating one copies every system variable).
var sessions = map[int]*sql.BaseSession{}

func (w *world) session(c int) *sql.BaseSession {
	s := sessions[c]
	if s == nil {
		s = sql.NewBaseSessionWithClientServer("127.0.0.1:3306", sql.Client{Address: fmt.Sprintf("10.0.0.%d:5000", c), User: "u"}, uint32(c))
		sessions[c] = s
	}
	return s
}

func (w *world) tconn() int64 { return int64(counter("Threads_connected") - w.c0) }
func (w *world) trun() int64  { return int64(counter("Threads_running") - w.r0) }

// apply executes one step and classifies the reply in the spec's vocabulary.
func (w *world) apply(name string, c, p, t int) (ret string) {
	defer func() {
		if r := recover(); r != nil {
			ret = fmt.Sprintf("panic:%v", r)
		}
	}()
	switch name {
	case "AddConnection":
		w.pl.AddConnection(uint32(c), fmt.Sprintf("10.0.0.%d:5000", c))
		return "ok"
	case "ConnectionReady":
		w.pl.ConnectionReady(w.session(c))
		return "ok"
	case "RemoveConnection":
		w.pl.RemoveConnection(uint32(c))
		return "ok"
	case "Kill":
		w.pl.Kill(uint32(c))
		return "ok"
	case "BeginQuery":
		ctx := sql.NewContext(context.Background(), sql.WithPid(uint64(p)), sql.WithSession(w.session(c)))
		nctx, err := w.pl.BeginQuery(ctx, fmt.Sprintf("q%d", p))
		switch {
		case err == nil:
			w.ctxs = append(w.ctxs, nctx)
			return "ok"
		case sql.ErrPidAlreadyUsed.Is(err):
			return "err-pidused"
		case strings.Contains(err.Error(), "not registered"):
			return "err-unregistered"
		}
		return "error:" + err.Error()
	case "BeginOperation":
		ctx := sql.NewContext(context.Background(), sql.WithSession(w.session(c)))
		nctx, err := w.pl.BeginOperation(ctx)
		switch {
		case err == nil:
			w.ctxs = append(w.ctxs, nctx)
			return "ok"
		case strings.Contains(err.Error(), "not registered"):
			return "err-unregistered"
		case strings.Contains(err.Error(), "already running"):
			return "err-busy"
		}
		return "error:" + err.Error()
	case "EndQuery", "EndOperation":
		if name == "EndQuery" && t == 0 {
			// the repeated EndQuery of a query that is not running: only the session id and pid matter
			w.pl.EndQuery(sql.NewContext(context.Background(), sql.WithPid(uint64(p)), sql.WithSession(w.session(c))))
			return "ok"
		}
		if t < 1 || t > len(w.ctxs) {
			return "no-such-context"
		}
		ctx := w.ctxs[t-1]
		if int(ctx.Session.ID()) != c || (name == "EndQuery" && int(ctx.Pid()) != p) {
			return "context-of-another-query"
		}
		if name == "EndQuery" {
			w.pl.EndQuery(ctx)
		} else {
			w.pl.EndOperation(ctx)
		}
		return "ok"
	}
	return "unknown-action"
}

type obs struct {
	Procs     []PEntry   `json:"procs"`
	ByPid     []PidEntry `json:"byPid"`
	Ntok      int        `json:"ntok"`
	Cancelled []int      `json:"cancelled"`
	Tconn     int64      `json:"Threads_connected"`
	Trun      int64      `json:"Threads_running"`
}

func (w *world) observe() obs {
	o := obs{Procs: []PEntry{}, ByPid: []PidEntry{}, Cancelled: []int{}}
	for _, p := range w.pl.Processes() {
		o.Procs = append(o.Procs, PEntry{C: int(p.Connection), Cmd: string(p.Command), Pid: int(p.QueryPid), Q: p.Query, K: p.Kill != nil})
	}
	sort.Slice(o.Procs, func(i, j int) bool { return o.Procs[i].C < o.Procs[j].C })
	m := reflect.ValueOf(w.pl).Elem().FieldByName("byQueryPid")
	if !m.IsValid() || m.Kind() != reflect.Map {
		vio.Fatal("ProcessList.byQueryPid not found")
	}
	for it := m.MapRange(); it.Next(); {
		o.ByPid = append(o.ByPid, PidEntry{P: int(it.Key().Uint()), C: int(it.Value().Uint())})
	}
	sort.Slice(o.ByPid, func(i, j int) bool { return o.ByPid[i].P < o.ByPid[j].P })
	o.Ntok = len(w.ctxs)
	for k, ctx := range w.ctxs {
		if ctx.Err() != nil {
			o.Cancelled = append(o.Cancelled, k+1)
		}
	}
	o.Tconn, o.Trun = w.tconn(), w.trun()
	return o
}

func sameInts(a, b []int) bool {
	if len(a) != len(b) {
		return false
	}
	for i := range a {
		if a[i] != b[i] {
			return false
		}
	}
	return true
}

// compare returns the first observable that differs from the specification's post-state
// (everything but Threads_running, which is judged separately against the ground truth).
func compare(o obs, post Post) string {
	want := append([]PEntry{}, post.Procs...)
	sort.Slice(want, func(i, j int) bool { return want[i].C < want[j].C })
	if len(want) != len(o.Procs) {
		return "list"
	}
	for i := range want {
		if want[i] != o.Procs[i] {
			return "list"
		}
	}
	wp := append([]PidEntry{}, post.ByPid...)
	sort.Slice(wp, func(i, j int) bool { return wp[i].P < wp[j].P })
	if len(wp) != len(o.ByPid) {
		return "byQueryPid"
	}
	for i := range wp {
		if wp[i] != o.ByPid[i] {
			return "byQueryPid"
		}
	}
	if o.Ntok != post.Ntok {
		return "ntok"
	}
	wc := append([]int{}, post.Cancelled...)
	sort.Ints(wc)
	if !sameInts(wc, o.Cancelled) {
		return "cancelled"
	}
	if o.Tconn != int64(post.Nlive) {
		return "Threads_connected"
	}
	return ""
}

// dist is the signed distance of the real Threads_running from the ground-truth interval
// [queries of live connections, all queries not yet ended].
func dist(v int64, lo, hi int) int64 {
	switch {
	case v > int64(hi):
		return v - int64(hi)
	case v < int64(lo):
		return v - int64(lo)
	}
	return 0
}

type result struct {
	sig      string
	expected interface{}
	got      interface{}
	ascoded  bool // the real Threads_running equals the specification's as-coded counter
}

func runCase(tr *TR) result {
	w := newWorld()
	for i, h := range tr.H {
		name, t := h.name(), h.num(3)
		ret := w.apply(name, h.num(1), h.num(2), t)
		wantOK := !(strings.HasPrefix(name, "Begin") && t == 0)
		if (ret == "ok") != wantOK {
			return result{sig: "pre-state/" + name + "/ret", expected: map[string]interface{}{"step": i, "ok": wantOK}, got: ret}
		}
	}
	pre := w.observe()
	if pre.Ntok != tr.Pre.Ntok || len(pre.Cancelled) != tr.Pre.Ncanc || pre.Tconn != int64(tr.Pre.Tconn) {
		return result{sig: "pre-state/observables", expected: tr.Pre, got: pre}
	}
	ret := w.apply(tr.A.Name, tr.A.C, tr.A.P, tr.A.T)
	step := tr.A.Name
	if tr.A.Cls != "" {
		step += "-" + tr.A.Cls
	}
	want := "ok"
	if strings.HasPrefix(tr.A.Name, "Begin") {
		want = tr.R
	}
	if ret != want {
		return result{sig: step + "/ret", expected: want, got: ret}
	}
	post := w.observe()
	if what := compare(post, tr.Post); what != "" {
		return result{sig: step + "/" + what, expected: tr.Post, got: post}
	}
	ascoded := pre.Trun == int64(tr.Pre.Trun) && post.Trun == int64(tr.Post.Trun)
	d := dist(post.Trun, tr.Post.Nrunl, tr.Post.Nrun) - dist(pre.Trun, tr.Pre.Nrunl, tr.Pre.Nrun)
	if d != 0 {
		return result{sig: fmt.Sprintf("RunningCounter/%s/drift%+d", step, d), ascoded: ascoded,
			expected: map[string]interface{}{"running_before": []int{tr.Pre.Nrunl, tr.Pre.Nrun}, "running_after": []int{tr.Post.Nrunl, tr.Post.Nrun}},
			got:      map[string]interface{}{"Threads_running_before": pre.Trun, "Threads_running_after": post.Trun}}
	}
	return result{ascoded: ascoded}
}

// decode accepts a TR record either as plain ndjson or as the JSON string literal TLC's PrintT writes
// ("TR {...}"); any other line is TLC chatter.
func decode(line []byte, tr *TR) (bool, error) {
	if len(line) == 0 {
		return false, nil
	}
	if line[0] == '{' {
		return true, json.Unmarshal(line, tr)
	}
	if len(line) > 4 && string(line[:4]) == `"TR ` {
		var s string
		if err := json.Unmarshal(line, &s); err != nil {
			return false, err
		}
		return true, json.Unmarshal([]byte(s[3:]), tr)
	}
	return false, nil
}

func main() {
	file := flag.String("file", "-", "cases: ndjson of TR records or raw TLC output; - = stdin")
	pass := flag.String("tlclog", "", "write every non-case input line (TLC's own output) to this file")
	keep := flag.Int("keep", 50, "mismatches kept (with input) per signature")
	mode := flag.String("mode", "replay", "replay: binding A (cases from TLC); server: binding B (record traces from an in-process server)")
	out := flag.String("out", "", "server mode: trace file (ndjson)")
	seed := flag.Int64("seed", 1, "server mode: seed of the random clients")
	rounds := flag.Int("rounds", 3, "server mode: number of server runs (the first one is scripted)")
	flag.Parse()
	logrus.SetOutput(io.Discard)
	logrus.SetLevel(logrus.PanicLevel)
	variables.InitStatusVariables()
	if *mode == "server" {
		serverMode(*out, *seed, *rounds)
		return
	}

	var in io.Reader = os.Stdin
	if *file != "-" {
		f, err := os.Open(*file)
		if err != nil {
			vio.Fatal("%v", err)
		}
		defer f.Close()
		in = f
	}
	var logw *bufio.Writer
	if *pass != "" {
		f, err := os.Create(*pass)
		if err != nil {
			vio.Fatal("%v", err)
		}
		defer f.Close()
		logw = bufio.NewWriter(f)
		defer logw.Flush()
	}

	rep := &vio.Report{Extra: map[string]interface{}{}}
	byAct := map[string]int{}
	bySig := map[string]int{}
	kept := map[string]int{}
	shortest := map[string]*vio.Mismatch{}
	seen := map[uint64]struct{}{}
	seenNT := map[uint64]struct{}{}
	ascodedDisagree, behaviours, maxHist := 0, 0, 0
	var sampleDrift, sampleKill, sampleAny *TR

	sc := bufio.NewScanner(in)
	sc.Buffer(make([]byte, 1<<20), 1<<28)
	i := 0
	for sc.Scan() {
		line := sc.Bytes()
		var tr TR
		ok, err := decode(line, &tr)
		if err != nil {
			vio.Fatal("case %d: %v", i, err)
		}
		if !ok {
			if logw != nil {
				logw.Write(line)
				logw.WriteByte('\n')
			}
			continue
		}
		rep.Cases++
		byAct[tr.A.Name]++
		if len(tr.H) == 0 {
			behaviours++
		}
		if len(tr.H)+1 > maxHist {
			maxHist = len(tr.H) + 1
		}
		hh := fnv.New64a()
		hb, _ := json.Marshal(tr.H)
		ab, _ := json.Marshal(tr.A)
		hh.Write(hb)
		hh.Write(ab)
		key := hh.Sum64()
		seen[key] = struct{}{}
		if tr.Post.Trun != tr.Pre.Trun || tr.Post.Tconn != tr.Pre.Tconn || len(tr.Post.Cancelled) != tr.Pre.Ncanc {
			seenNT[key] = struct{}{}
		}
		res := runCase(&tr)
		if !res.ascoded && (res.sig == "" || strings.HasPrefix(res.sig, "RunningCounter/")) {
			ascodedDisagree++
		}
		if res.sig != "" {
			bySig[res.sig]++
			mm := vio.Mismatch{Case: i, Signature: res.sig, Expected: res.expected, Got: res.got, Input: tr}
			if kept[res.sig] < *keep {
				kept[res.sig]++
				rep.Mismatches = append(rep.Mismatches, mm)
			}
			if s := shortest[res.sig]; s == nil || len(tr.H) < len(s.Input.(TR).H) {
				m2 := mm
				shortest[res.sig] = &m2
			}
		}
		if sampleDrift == nil && strings.HasPrefix(res.sig, "RunningCounter/") {
			t := tr
			sampleDrift = &t
		}
		if sampleKill == nil && tr.A.Name == "Kill" && tr.A.Cls == "hit" && len(tr.Post.Procs) >= 2 {
			t := tr
			sampleKill = &t
		}
		if sampleAny == nil && len(tr.H) >= 6 && tr.A.Name == "EndQuery" && tr.A.Cls == "normal" {
			t := tr
			sampleAny = &t
		}
		i++
	}
	if err := sc.Err(); err != nil {
		vio.Fatal("%v", err)
	}
	for _, s := range []*TR{sampleKill, sampleAny, sampleDrift} {
		if s != nil {
			rep.Samples = append(rep.Samples, *s)
		}
	}
	rep.Nontrivial = len(seenNT)
	rep.Extra["by_action"] = byAct
	rep.Extra["by_signature"] = bySig
	rep.Extra["shortest"] = shortest
	rep.Extra["distinct"] = len(seen)
	rep.Extra["behaviours"] = behaviours
	rep.Extra["max_history"] = maxHist
	rep.Extra["ascoded_disagree"] = ascodedDisagree
	rep.Emit()
}
