// c10: "no SQL input crashes the engine". A parent process generates statement texts (token soup
// from the parser's keyword table, every registered function with random arguments, mutations of
// valid statements, deep nesting, charset/collation introducers) and feeds them to a CHILD process
// that runs them on a real engine; a child that dies is outcome `crash` for the statement whose
// begin marker has no end, a statement that does not return is `hang`. After every statement the
// same session must still answer `SELECT 1`. Events are validated by spec/Trace_Session.tla.
package main

import (
	"bufio"
	"context"
	"encoding/json"
	"flag"
	"fmt"
	"github.com/dolthub/go-mysql-server/sql"
	"math/rand"
	"os"
	"os/exec"
	"strings"
	"time"

	"github.com/dolthub/vitess/go/vt/sqlparser"

	"github.com/dolthub/go-mysql-server/sql/expression/function"

	"gmsverif/lib/eng"
	"gmsverif/lib/sqlast"
	"gmsverif/lib/sqlgen"
	"gmsverif/lib/vio"
)

type req struct {
	ID  int    `json:"id"`
	SQL string `json:"sql"`
}

type resp struct {
	ID      int    `json:"id"`
	Begin   bool   `json:"begin,omitempty"`
	Outcome string `json:"outcome,omitempty"`
	Msg     string `json:"msg,omitempty"`
	Probe   string `json:"probe,omitempty"`
}

var fixture = []string{
	"CREATE TABLE t1 (c1 INT PRIMARY KEY, c2 VARCHAR(20), c3 DECIMAL(10,2), c4 DATETIME, c5 JSON, c6 BLOB, KEY k2 (c2))",
	"INSERT INTO t1 VALUES (1, 'a', 1.50, '2020-01-02 03:04:05', '{\"a\": [1, 2]}', 'x'), (2, NULL, NULL, NULL, NULL, NULL), (3, 'Abc', -2.25, '1999-12-31 23:59:59', '[1, \"b\"]', 0x00ff)",
	"CREATE TABLE t2 (c1 BIGINT UNSIGNED, c2 CHAR(3) COLLATE utf8mb4_0900_ai_ci, c3 DOUBLE, c4 DATE, c5 ENUM('x','y'), c6 SET('p','q'), c7 BIT(4), c8 YEAR, c9 TIME)",
	"INSERT INTO t2 VALUES (18446744073709551615, 'abc', 1e10, '2000-02-29', 'x', 'p,q', b'1010', 2024, '12:34:56'), (0, '', -0.0, '0001-01-01', 'y', '', b'0', 1901, '-838:59:59')",
	"CREATE VIEW v1 AS SELECT c1, c2 FROM t1",
	"CREATE TABLE cs_utf16 (a INT PRIMARY KEY, b VARCHAR(10) CHARACTER SET utf16, KEY (b))",
	"CREATE TABLE cs_utf32 (a INT PRIMARY KEY, b VARCHAR(10) CHARACTER SET utf32, KEY (b))",
	"CREATE TABLE cs_utf8mb3 (a INT PRIMARY KEY, b VARCHAR(10) CHARACTER SET utf8mb3, KEY (b))",
	"CREATE TABLE cs_latin1 (a INT PRIMARY KEY, b VARCHAR(10) CHARACTER SET latin1, KEY (b))",
	"CREATE TABLE cs_ascii (a INT PRIMARY KEY, b CHAR(4) CHARACTER SET ascii, KEY (b))",
	"INSERT INTO cs_utf16 VALUES (3, 'abc')", "INSERT INTO cs_utf32 VALUES (3, 'abc')", "INSERT INTO cs_utf8mb3 VALUES (3, 'abc')", "INSERT INTO cs_latin1 VALUES (3, 'abc')", "INSERT INTO cs_ascii VALUES (3, 'abc')",
}

var csTables = []string{"utf16", "utf32", "utf8mb3", "latin1", "ascii"}

// ---------------------------------------------------------------- child

func child() {
	in := bufio.NewScanner(os.Stdin)
	in.Buffer(make([]byte, 1<<20), 1<<26)
	out := bufio.NewWriter(os.Stdout)
	emit := func(r resp) {
		b, _ := json.Marshal(r)
		out.Write(b)
		out.WriteByte('\n')
		out.Flush()
	}
	var s *eng.Session
	n := 0
	for in.Scan() {
		var q req
		if json.Unmarshal(in.Bytes(), &q) != nil {
			continue
		}
		if s == nil || n%40 == 0 {
			db := eng.New()
			s = db.NewSession()
			for _, f := range fixture {
				s.Exec(f)
			}
		}
		n++
		emit(resp{ID: q.ID, Begin: true})
		ctx, cancel := context.WithTimeout(context.Background(), 8*time.Second)
		sctx := s.Ctx().WithContext(ctx)
		res := s.ExecCtx(sctx, q.SQL)
		cancel()
		pr := s.Exec("SELECT 1")
		probe := "ok"
		if pr.Kind != "rows" || len(pr.Rows) != 1 {
			probe = "unusable:" + pr.Kind + ":" + pr.Msg
		}
		msg := res.Msg
		if len(msg) > 300 {
			msg = msg[:300]
		}
		emit(resp{ID: q.ID, Outcome: res.Kind, Msg: msg, Probe: probe})
	}
}

// ---------------------------------------------------------------- generators

type gen struct {
	r        *rand.Rand
	keywords []string
	funcs    []string
	valid    *sqlgen.Gen
	sysFrac  float64
}

func newGen(seed int64) *gen {
	g := &gen{r: rand.New(rand.NewSource(seed))}
	seen := map[string]bool{}
	for id := 57000; id < 59000; id++ {
		if k := sqlparser.KeywordString(id); k != "" && !seen[k] {
			seen[k] = true
			g.keywords = append(g.keywords, k)
		}
	}
	for _, f := range function.BuiltIns {
		g.funcs = append(g.funcs, f.FunctionName())
	}
	g.valid = sqlgen.New(seed)
	g.valid.Schema(2)
	return g
}

var banned = []string{"sleep", "benchmark", "get_lock", "load_file", "outfile", "dumpfile", "infile", "shutdown", "release_all_locks"}

func (g *gen) pick(xs []string) string { return xs[g.r.Intn(len(xs))] }

func (g *gen) literal() string {
	switch g.r.Intn(13) {
	case 0:
		return "NULL"
	case 1:
		return fmt.Sprint(g.r.Intn(7) - 3)
	case 2:
		return g.pick([]string{"0", "1", "-1", "127", "128", "255", "256", "32767", "65535", "2147483647", "-2147483648", "4294967295", "9223372036854775807", "-9223372036854775808", "18446744073709551615", "18446744073709551616", "99999"})
	case 3:
		return g.pick([]string{"1.5", "-0.0", "1e308", "1e-320", "0.1", "123456789012345678901234567890.123456789", "1e10", ".5", "-.5e-3"})
	case 4:
		return g.pick([]string{"''", "'a'", "'A'", "'abc'", "' '", "'%'", "'_'", "'\\\\'", "'\\''", "'é'", "'日本'", "'😀'", "'a\\0b'", "'\\n'", "'1'", "'1a'", "'-1'", "'1e3'", "'0x10'", "'true'"})
	case 5:
		return g.pick([]string{"'2020-01-01'", "'2020-02-30'", "'0000-00-00'", "'9999-12-31 23:59:59.999999'", "'2020-01-01 25:00:00'", "'12:00:00'", "'-838:59:59'", "'839:00:00'", "'20200101'", "'2020-1-1'"})
	case 6:
		return g.pick([]string{"'{}'", "'[]'", "'{\"a\":1}'", "'[1,[2,[3]]]'", "'{\"a\":'", "'null'", "'\"s\"'", "'$.a'", "'$[0]'", "'$**.a'", "'$['", "'$.a[*].b'"})
	case 7:
		return g.pick([]string{"0x", "0xFF", "X'0G'", "x'00ff'", "b'101'", "B'2'", "0b11", "_utf8mb4'a'", "_binary'a'", "_latin1 0xE9", "N'a'", "_utf8mb4'a' COLLATE utf8mb4_bin", "'a' COLLATE nosuch", "_nosuch'a'"})
	case 8:
		return g.pick([]string{"TRUE", "FALSE", "CURRENT_DATE", "NOW()", "@x", "@@max_allowed_packet", "@@nosuch", "DEFAULT", "?", ":v1", "*"})
	case 9:
		return g.pick([]string{"c1", "c2", "c3", "c4", "c5", "c6", "t1.c1", "t2.c7", "nosuch", "`c1`", "t1.*"})
	case 10:
		return "(" + g.pick([]string{"SELECT 1", "SELECT c1 FROM t1", "SELECT c1, c2 FROM t1", "SELECT NULL", "SELECT c1 FROM t1 LIMIT 1", "SELECT MAX(c1) FROM t2", "VALUES ROW(1)"}) + ")"
	case 11:
		return g.pick([]string{"INTERVAL 1 DAY", "INTERVAL -1 MONTH", "INTERVAL '1:1' MINUTE_SECOND", "INTERVAL 1e10 YEAR"})
	case 12:
		return g.pick([]string{"(1, 2)", "ROW(1, NULL)", "(1, (2, 3))", "()"})
	}
	return "1"
}

func (g *gen) call(depth int) string {
	f := g.pick(g.funcs)
	for _, b := range banned {
		if strings.Contains(strings.ToLower(f), b) {
			return "1"
		}
	}
	n := g.r.Intn(5)
	args := make([]string, n)
	for i := range args {
		if depth > 0 && g.r.Intn(4) == 0 {
			args[i] = g.call(depth - 1)
		} else {
			args[i] = g.literal()
		}
		args[i] = capBomb(f, args[i])
	}
	return f + "(" + strings.Join(args, ", ") + ")"
}

func (g *gen) soup() string {
	n := 2 + g.r.Intn(12)
	var toks []string
	for i := 0; i < n; i++ {
		switch g.r.Intn(6) {
		case 0, 1, 2:
			toks = append(toks, strings.ToUpper(g.pick(g.keywords)))
		case 3:
			toks = append(toks, g.literal())
		case 4:
			toks = append(toks, g.pick([]string{"(", ")", ",", ";", "=", "<=>", "+", "-", "*", "/", "%", "||", "&&", "!", "~", ".", "@", ":=", "->", "->>", "<<", "/*", "*/", "--", "#", "`", "'", "\""}))
		default:
			toks = append(toks, g.pick([]string{"t1", "t2", "v1", "c1", "c2", "x", "d"}))
		}
	}
	return strings.Join(toks, " ")
}

func (g *gen) validQuery() string {
	return (&sqlast.Renderer{}).Query(g.valid.Query(2))
}

func (g *gen) mutate(s string) string {
	toks := strings.Fields(s)
	if len(toks) < 2 {
		return s
	}
	for k := 0; k < 1+g.r.Intn(3); k++ {
		i := g.r.Intn(len(toks))
		switch g.r.Intn(5) {
		case 0:
			toks = append(toks[:i], toks[i+1:]...)
		case 1:
			toks = append(toks[:i+1], toks[i:]...)
		case 2:
			j := g.r.Intn(len(toks))
			toks[i], toks[j] = toks[j], toks[i]
		case 3:
			toks[i] = g.literal()
		default:
			toks[i] = strings.ToUpper(g.pick(g.keywords))
		}
		if len(toks) == 0 {
			return ""
		}
	}
	return strings.Join(toks, " ")
}

var templates = []string{
	"SELECT %s", "SELECT %s FROM t1", "SELECT c1 FROM t1 WHERE %s", "SELECT %s FROM t2 GROUP BY %s", "SELECT c1 FROM t1 ORDER BY %s LIMIT %s",
	"SELECT %s OVER (PARTITION BY %s ORDER BY %s) FROM t1", "INSERT INTO t1 (c1, c2) VALUES (%s, %s)", "UPDATE t1 SET c2 = %s WHERE c1 = %s",
	"DELETE FROM t1 WHERE %s", "SELECT * FROM t1 JOIN t2 ON %s", "SELECT CAST(%s AS %s)", "SELECT %s COLLATE %s", "SELECT CONVERT(%s USING %s)",
	"SET @x = %s", "SET @@%s = %s", "SELECT * FROM JSON_TABLE(%s, '$[*]' COLUMNS (a INT PATH '$')) jt", "WITH RECURSIVE r(n) AS (SELECT 1 UNION ALL SELECT n + 1 FROM r WHERE n < %s) SELECT * FROM r",
	"CREATE TABLE x%d (a %s)", "ALTER TABLE t1 ADD COLUMN z %s", "SELECT c1 FROM t1 LIMIT %s OFFSET %s", "SELECT c1 FROM t1 ORDER BY c1 LIMIT 18446744073709551615 OFFSET %s",
	"PREPARE p FROM '%s'", "SELECT %s INTO @a", "SELECT * FROM (VALUES ROW(%s), ROW(%s)) v", "CALL %s", "SHOW %s", "EXPLAIN SELECT %s", "SELECT %s UNION SELECT %s ORDER BY 1 LIMIT %s",
}

var typeNames = []string{"SIGNED", "UNSIGNED", "CHAR", "CHAR(0)", "BINARY(3)", "DECIMAL(65,30)", "DECIMAL(0)", "DATE", "DATETIME(6)", "TIME", "JSON", "DOUBLE", "FLOAT", "YEAR", "INT", "VARCHAR(70000)", "ENUM('a')", "NOSUCH", "utf8mb4", "latin1", "binary", "utf8mb4_0900_ai_ci", "utf8mb4_bin", "nosuch_ci"}

func (g *gen) templated() string {
	t := g.pick(templates)
	n := strings.Count(t, "%s")
	args := make([]interface{}, 0, n+1)
	if strings.Contains(t, "%d") {
		return strings.Replace(fmt.Sprintf(strings.Replace(t, "%d", "%[2]d", 1), g.pick(typeNames), g.r.Intn(1000)), "%!", "", -1)
	}
	for i := 0; i < n; i++ {
		if strings.Contains(t, "CAST(") && i == 1 || strings.Contains(t, "COLLATE %s") && i == 1 || strings.Contains(t, "USING %s") && i == 1 {
			args = append(args, g.pick(typeNames))
		} else if g.r.Intn(3) == 0 {
			args = append(args, g.call(2))
		} else {
			args = append(args, g.literal())
		}
	}
	return fmt.Sprintf(t, args...)
}

func (g *gen) nested() string {
	d := 5 + g.r.Intn(60)
	switch g.r.Intn(4) {
	case 0:
		return "SELECT " + strings.Repeat("(", d) + "1" + strings.Repeat(")", d)
	case 1:
		return "SELECT " + strings.Repeat("NOT ", d) + "c1 FROM t1"
	case 2:
		s := "SELECT 1"
		for i := 0; i < d/4+1; i++ {
			s = "SELECT * FROM (" + s + ") AS d" + fmt.Sprint(i)
		}
		return s
	default:
		return "SELECT " + strings.Repeat("ABS(", d) + "-1" + strings.Repeat(")", d)
	}
}

// capBomb keeps the numeric arguments of string-multiplying functions small: REPEAT('x', 1e308) makes
// the engine allocate without bound (recorded finding C10-repeat-unbounded-allocation) and would take
// the whole machine down with it.
func capBomb(f, arg string) string {
	switch strings.ToLower(f) {
	case "repeat", "space", "lpad", "rpad", "insert", "make_set", "export_set", "random_bytes", "concat_ws":
		t := strings.Trim(arg, "'")
		if len(t) > 4 && strings.Trim(t, "0123456789.eE+-") == "" {
			return "100"
		}
		// columns and expressions whose numeric value is large (dates, big ints, doubles)
		for _, big := range []string{"c1", "c3", "c4", "c8", "c9", "bi", "bu", "NOW", "CURRENT", "@@", "pow", "exp", "18446744073709551615", "9223372036854775807", "2147483648", "4294967295", "65535", "32767", "99999"} {
			if strings.Contains(arg, big) {
				return "100"
			}
		}
	}
	return arg
}

// corePool: hostile first arguments tried systematically with every registered function.
var corePool = []string{"NULL", "''", "'a'", "' '", "'%'", "'\\\\'", "'日本'", "'😀'", "0", "1", "-1", "255", "2147483648", "-9223372036854775808",
	"18446744073709551615", "1.5", "-0.0", "1e308", "'2020-02-30'", "'0000-00-00'", "'-838:59:59'", "'{\"a\":'", "'[1,[2]]'", "'$['",
	"0x", "x'00ff'", "b'101'", "_binary''", "TRUE", "c5", "c6", "t2.c7", "(1, 2)"}

// systematic yields, for every registered function, calls with each core-pool value as the first
// argument (arity 1 and 2) plus the zero-argument call.
type sysStmt struct{ sql, fn string }

func (g *gen) systematic() []sysStmt {
	var out []sysStmt
	for _, f := range g.funcs {
		skip := false
		for _, b := range banned {
			if strings.Contains(strings.ToLower(f), b) {
				skip = true
			}
		}
		if skip {
			continue
		}
		if g.sysFrac < 1 && g.r.Float64() > g.sysFrac {
			continue
		}
		out = append(out, sysStmt{"SELECT " + f + "()", f})
		for _, a := range corePool {
			a = capBomb(f, a)
			out = append(out, sysStmt{"SELECT " + f + "(" + a + ")", f})
			b := capBomb(f, g.literal())
			if g.r.Intn(2) == 0 {
				out = append(out, sysStmt{"SELECT " + f + "(" + a + ", " + b + ") FROM t1", f})
			} else {
				out = append(out, sysStmt{"SELECT " + f + "(" + b + ", " + a + ") FROM t2", f})
			}
		}
	}
	return out
}

// charsetStmts: every supported character set x byte payloads (whole, truncated and ill-formed code
// units / sequences) through the introducer, CONVERT ... USING, CAST ... CHARACTER SET, a column of
// that character set and a comparison. Each must end in rows or an ordinary error.
func (g *gen) charsetStmts() []sysStmt {
	payloads := []string{"'a'", "'ab'", "'abc'", "'abcde'", "''", "x'C3'", "x'C3A9'", "x'E4B8'", "x'E4B8AD'", "x'F09F98'", "x'F09F9880'", "x'D800'", "x'D800DC'", "x'D800DC00'",
		"x'00'", "x'0041'", "x'004100'", "x'0000004100'", "x'00000041'", "x'FF'", "x'FFFF'", "x'FFFFFFFF'", "x'80'", "x'8140'", "x'81'", "x'A1A1'", "x'8E'", "x'8FA1'", "x'61E4B8'", "x'DC00'", "x'110000'"}
	var out []sysStmt
	it := sql.NewCharacterSetsIterator()
	for cs, ok := it.Next(); ok; cs, ok = it.Next() {
		name := cs.Name
		if g.sysFrac < 1 && g.r.Float64() > g.sysFrac {
			continue
		}
		fn := "charset:" + name
		for _, p := range payloads {
			if g.sysFrac < 1 && g.r.Intn(2) == 0 {
				continue
			}
			out = append(out, sysStmt{"SELECT _" + name + " " + p, fn})
			switch g.r.Intn(6) {
			case 0:
				out = append(out, sysStmt{"SELECT _" + name + " " + p + " COLLATE " + cs.DefaultCollation.Name(), fn})
			case 1:
				out = append(out, sysStmt{"SELECT CONVERT(" + p + " USING " + name + "), CONVERT(_" + name + " " + p + " USING utf8mb4)", fn})
			case 2:
				out = append(out, sysStmt{"SELECT CAST(" + p + " AS CHAR CHARACTER SET " + name + "), HEX(_" + name + " " + p + "), LENGTH(_" + name + " " + p + "), CHAR_LENGTH(_" + name + " " + p + ")", fn})
			case 3:
				out = append(out, sysStmt{"SELECT _" + name + " " + p + " = _" + name + " " + g.pick(payloads) + ", UPPER(_" + name + " " + p + "), CONCAT(_" + name + " " + p + ", 'z')", fn})
			case 4:
				out = append(out, sysStmt{"SELECT c2 FROM t1 WHERE c2 = _" + name + " " + p + " OR c2 LIKE _" + name + " " + p, fn})
			default:
				t := "cs_" + g.pick(csTables)
				out = append(out, sysStmt{"REPLACE INTO " + t + " VALUES (1, _" + name + " " + p + "), (2, " + p + ")", fn},
					sysStmt{"SELECT a, HEX(b), LENGTH(b) FROM " + t + " WHERE b >= " + p + " OR b = _" + name + " " + p + " ORDER BY b", fn})
			}
		}
	}
	return out
}

func (g *gen) statement() (string, string) {
	for {
		var s, kind string
		switch g.r.Intn(10) {
		case 0, 1:
			s, kind = g.soup(), "soup"
		case 2, 3, 4:
			s, kind = "SELECT "+g.call(2), "function"
		case 5, 6:
			s, kind = g.templated(), "template"
		case 7:
			s, kind = g.mutate(g.validQuery()), "mutated"
		case 8:
			s, kind = g.nested(), "nested"
		default:
			s, kind = g.mutate(g.templated()), "mutated-template"
		}
		low := strings.ToLower(s)
		ok := s != ""
		for _, b := range banned {
			if strings.Contains(low, b) {
				ok = false
			}
		}
		if ok {
			return s, kind
		}
	}
}

// ---------------------------------------------------------------- parent

type childProc struct {
	cmd *exec.Cmd
	in  *bufio.Writer
	out chan resp
	err *strings.Builder
}

func startChild() *childProc {
	cmd := exec.Command(os.Args[0], "-child")
	stdin, _ := cmd.StdinPipe()
	stdout, _ := cmd.StdoutPipe()
	eb := &strings.Builder{}
	cmd.Stderr = eb
	if err := cmd.Start(); err != nil {
		vio.Fatal("start child: %v", err)
	}
	c := &childProc{cmd: cmd, in: bufio.NewWriter(stdin), out: make(chan resp, 16), err: eb}
	go func() {
		sc := bufio.NewScanner(stdout)
		sc.Buffer(make([]byte, 1<<20), 1<<26)
		for sc.Scan() {
			var r resp
			if json.Unmarshal(sc.Bytes(), &r) == nil {
				c.out <- r
			}
		}
		close(c.out)
	}()
	return c
}

func (c *childProc) kill() {
	c.cmd.Process.Kill()
	c.cmd.Wait()
}

// run sends one statement and waits for its outcome; it reports crash / hang itself.
func (c *childProc) run(q req, wait time.Duration) (resp, bool) {
	b, _ := json.Marshal(q)
	c.in.Write(b)
	c.in.WriteByte('\n')
	if err := c.in.Flush(); err != nil {
		return resp{ID: q.ID, Outcome: "crash", Msg: "child gone before the statement: " + tail(c.err.String())}, false
	}
	deadline := time.After(wait)
	for {
		select {
		case r, ok := <-c.out:
			if !ok {
				c.cmd.Wait()
				return resp{ID: q.ID, Outcome: "crash", Msg: tail(c.err.String()), Probe: "dead"}, false
			}
			if r.ID == q.ID && !r.Begin {
				return r, true
			}
		case <-deadline:
			c.kill()
			return resp{ID: q.ID, Outcome: "hang", Msg: fmt.Sprintf("no outcome within %s", wait), Probe: "dead"}, false
		}
	}
}

func tail(s string) string {
	if len(s) > 1500 {
		return s[len(s)-1500:]
	}
	return s
}

type event struct {
	Ev      string `json:"ev"`
	ID      int    `json:"id"`
	Kind    string `json:"kind"`
	SQL     string `json:"sql"`
	Outcome string `json:"outcome"`
	Probe   string `json:"probe"`
	Msg     string `json:"msg"`
	Fn      string `json:"fn,omitempty"`
}

func main() {
	isChild := flag.Bool("child", false, "")
	seed := flag.Int64("seed", 1, "")
	n := flag.Int("n", 1000, "statements")
	out := flag.String("out", "trace.ndjson", "")
	sys := flag.Bool("systematic", false, "also run every registered function with every core-pool argument")
	sysFrac := flag.Float64("sysfrac", 1, "fraction of the registered functions covered systematically (seeded choice)")
	onlyS := flag.String("only", "", "comma separated ids: run only these statements, each in a FRESH child with a 10x deadline")
	in := flag.String("in", "", "execute the statements of a recorded trace / witness file instead of generating")
	flag.Parse()
	if *isChild {
		child()
		return
	}
	only := map[int]bool{}
	for _, p := range strings.Split(*onlyS, ",") {
		var x int
		if _, err := fmt.Sscan(p, &x); err == nil {
			only[x] = true
		}
	}
	w, err := vio.NewWriter(*out)
	if err != nil {
		vio.Fatal("%v", err)
	}
	rep := &vio.Report{Extra: map[string]interface{}{}}
	outcomes := map[string]int{}
	kinds := map[string]int{}
	var stmts []event
	if *in != "" {
		vio.ReadNDJSON(*in, func(i int, line []byte) error {
			var e event
			if json.Unmarshal(line, &e) == nil && e.Ev == "stmt" {
				stmts = append(stmts, e)
			}
			return nil
		})
	} else {
		g := newGen(*seed)
		for i := 1; i <= *n; i++ {
			s, kind := g.statement()
			stmts = append(stmts, event{Ev: "stmt", ID: i, Kind: kind, SQL: s})
		}
		if *sys {
			g.sysFrac = *sysFrac
			for i, s := range g.systematic() {
				stmts = append(stmts, event{Ev: "stmt", ID: 10000000 + i, Kind: "systematic", SQL: s.sql, Fn: s.fn})
			}
			for i, s := range g.charsetStmts() {
				stmts = append(stmts, event{Ev: "stmt", ID: 20000000 + i, Kind: "charset", SQL: s.sql, Fn: s.fn})
			}
		}
	}
	isolate := len(only) > 0 || *in != ""
	wait := 20 * time.Second
	if isolate {
		wait = 100 * time.Second
	}
	var c *childProc
	for _, e := range stmts {
		if len(only) > 0 && !only[e.ID] {
			continue
		}
		if c == nil || isolate {
			if c != nil {
				c.kill()
			}
			c = startChild()
		}
		r, alive := c.run(req{ID: e.ID, SQL: e.SQL}, wait)
		if !alive {
			c = nil
		}
		e.Outcome, e.Probe, e.Msg = r.Outcome, r.Probe, r.Msg
		w.Write(e)
		rep.Cases++
		outcomes[r.Outcome]++
		kinds[e.Kind]++
		if r.Outcome == "rows" || r.Outcome == "ok" {
			rep.Nontrivial++
		}
		if len(rep.Samples) < 5 && e.ID%97 == 0 {
			rep.Samples = append(rep.Samples, map[string]string{"sql": e.SQL, "outcome": r.Outcome})
		}
	}
	if c != nil {
		c.kill()
	}
	w.Close()
	rep.Extra["outcomes"] = outcomes
	rep.Extra["generator_kinds"] = kinds
	rep.Emit()
}
