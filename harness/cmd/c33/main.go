// c33: binding of spec/RegexRef.tla to the engine's regular expression functions (C33).
//
//	replay -file cases.ndjson [-keep N]   binding A: TLC-enumerated {re (pattern AST), s (subject), qs (queries with the
//	                                      expected value)}; the AST is rendered to pattern text, every query is executed
//	                                      through SQL and the engine's value must equal the expected one.
//	gen -seed S -n N -out trace [-only ids]   binding B: seeded random patterns (also beyond the modelled subset) and
//	                                      subjects; the results of REGEXP_LIKE / INSTR / SUBSTR / REPLACE are recorded and
//	                                      judged by spec/Trace_Regex.tla (mutual-consistency laws).
//	exec -in events -out trace            binding B: re-records given input events (witnesses, confirmation).
//
// This program decides nothing about regular expressions: it renders, runs SQL and re-encodes values.
package main

import (
	"encoding/hex"
	"encoding/json"
	"flag"
	"fmt"
	"math/rand"
	"os"
	"strconv"
	"strings"
	"unicode/utf8"

	"github.com/dolthub/go-mysql-server/sql"

	"gmsverif/lib/eng"
	"gmsverif/lib/vio"
)

// ---------------------------------------------------------------- values

type Val struct {
	T string `json:"t"`
	I int    `json:"i"`
	S []int  `json:"s"`
}

func strOf(cps []int) string {
	var sb strings.Builder
	for _, c := range cps {
		sb.WriteRune(rune(c))
	}
	return sb.String()
}

func (v Val) canon() string {
	switch v.T {
	case "n":
		return "N"
	case "e":
		return "E"
	case "i":
		return "I:" + strconv.Itoa(v.I)
	case "s":
		return "B:" + hex.EncodeToString([]byte(strOf(v.S)))
	}
	return "?" + v.T
}

func kindOf(c string) string {
	switch {
	case c == "N":
		return "null"
	case c == "E":
		return "error"
	case strings.HasPrefix(c, "I:"):
		return "int"
	case strings.HasPrefix(c, "B:"):
		return "str"
	}
	return "other"
}

func canonGo(ctx *sql.Context, v interface{}) string {
	if w, err := sql.UnwrapAny(ctx, v); err == nil {
		v = w
	}
	switch x := v.(type) {
	case nil:
		return "N"
	case string:
		return "B:" + hex.EncodeToString([]byte(x))
	case []byte:
		return "B:" + hex.EncodeToString(x)
	case bool:
		if x {
			return "I:1"
		}
		return "I:0"
	case int8:
		return "I:" + strconv.FormatInt(int64(x), 10)
	case int16:
		return "I:" + strconv.FormatInt(int64(x), 10)
	case int32:
		return "I:" + strconv.FormatInt(int64(x), 10)
	case int64:
		return "I:" + strconv.FormatInt(x, 10)
	case int:
		return "I:" + strconv.Itoa(x)
	case uint8:
		return "I:" + strconv.FormatUint(uint64(x), 10)
	case uint32:
		return "I:" + strconv.FormatUint(uint64(x), 10)
	case uint64:
		return "I:" + strconv.FormatUint(x, 10)
	}
	return fmt.Sprintf("O:%T:%v", v, v)
}

func strLit(s string) string {
	r := strings.NewReplacer("\\", "\\\\", "'", "''", "\n", "\\n")
	return "'" + r.Replace(s) + "'"
}

// ---------------------------------------------------------------- engine

type sess struct{ s *eng.Session }

func newSess() *sess { return &sess{s: eng.New().NewSession()} }

func (x *sess) row(exprs []string) ([]string, string) {
	r := x.s.Exec("SELECT " + strings.Join(exprs, ", "))
	if r.Kind != "rows" {
		return nil, r.Kind + ": " + r.Msg
	}
	if len(r.Raw) != 1 || len(r.Raw[0]) != len(exprs) {
		return nil, "shape"
	}
	ctx := x.s.Ctx()
	out := make([]string, len(exprs))
	for i, v := range r.Raw[0] {
		out[i] = canonGo(ctx, v)
	}
	return out, ""
}

// each evaluates the expressions (one SELECT; one by one if that fails: an expression that fails alone is "E").
func (x *sess) each(exprs []string) ([]string, []string) {
	out := make([]string, len(exprs))
	msgs := make([]string, len(exprs))
	if got, e := x.row(exprs); e == "" {
		return got, msgs
	}
	for i := range exprs {
		got, e := x.row(exprs[i : i+1])
		if e != "" {
			out[i], msgs[i] = "E", e
		} else {
			out[i] = got[0]
		}
	}
	return out, msgs
}

// ---------------------------------------------------------------- binding A

// RE is a pattern AST of spec/RegexRef.tla.
type RE struct {
	K   string `json:"k"`
	C   int    `json:"c"`
	Neg bool   `json:"neg"`
	Set []int  `json:"set"`
	R   *RE    `json:"r"`
	L   *RE    `json:"l"`
}

// render prints the AST as pattern text; grouping is explicit in the AST (grp nodes).
func (re *RE) render() string {
	switch re.K {
	case "lit":
		return string(rune(re.C))
	case "dot":
		return "."
	case "cls":
		s := "["
		if re.Neg {
			s += "^"
		}
		for _, c := range re.Set {
			s += string(rune(c))
		}
		return s + "]"
	case "bol":
		return "^"
	case "eol":
		return "$"
	case "star":
		return re.R.render() + "*"
	case "plus":
		return re.R.render() + "+"
	case "opt":
		return re.R.render() + "?"
	case "alt":
		return re.L.render() + "|" + re.R.render()
	case "cat":
		return re.L.render() + re.R.render()
	case "grp":
		return "(" + re.R.render() + ")"
	}
	vio.Fatal("unknown pattern node %q", re.K)
	return ""
}

type Query struct {
	Fn  string `json:"fn"`
	Pos int    `json:"pos"`
	Occ int    `json:"occ"`
	Ro  int    `json:"ro"`
	Exp Val    `json:"exp"`
	Dev []Dev  `json:"dev"`
}

type Dev struct {
	N string `json:"n"`
	V Val    `json:"v"`
}

type Case struct {
	Re RE      `json:"re"`
	S  []int   `json:"s"`
	NT bool    `json:"nt"`
	NM int     `json:"nm"`
	Qs []Query `json:"qs"`
}

func (q *Query) expr(S, P string) string {
	switch q.Fn {
	case "like":
		return fmt.Sprintf("REGEXP_LIKE(%s, %s)", S, P)
	case "instr":
		return fmt.Sprintf("REGEXP_INSTR(%s, %s, %d, %d, %d)", S, P, q.Pos, q.Occ, q.Ro)
	case "substr":
		return fmt.Sprintf("REGEXP_SUBSTR(%s, %s, %d, %d)", S, P, q.Pos, q.Occ)
	case "replace":
		return fmt.Sprintf("REGEXP_REPLACE(%s, %s, 'X', %d, %d)", S, P, q.Pos, q.Occ)
	}
	vio.Fatal("unknown query %q", q.Fn)
	return ""
}

func bucket(n int, one string) string {
	switch {
	case n == 0:
		return "0"
	case n == 1:
		return one
	}
	return ">1"
}

func replay(file string, keep int) {
	x := newSess()
	rep := &vio.Report{Extra: map[string]interface{}{}}
	bySig, byFn := map[string]int{}, map[string]int{}
	kept := map[string]int{}
	ntSeen := map[string]bool{}
	evals := 0
	err := vio.ReadNDJSON(file, func(i int, line []byte) error {
		var c Case
		if err := json.Unmarshal(line, &c); err != nil {
			return err
		}
		pat := c.Re.render()
		S, P := strLit(strOf(c.S)), strLit(pat)
		exprs := make([]string, len(c.Qs))
		for k := range c.Qs {
			exprs[k] = c.Qs[k].expr(S, P)
		}
		got, msgs := x.each(exprs)
		rep.Cases++
		evals += len(exprs)
		key := pat + "\x00" + strOf(c.S)
		if c.NT && !ntSeen[key] {
			ntSeen[key] = true
			rep.Nontrivial++
		}
		if len(rep.Samples) < 3 && c.NT && c.NM > 1 && i%37 == 0 {
			rep.Samples = append(rep.Samples, map[string]interface{}{"pattern": pat, "subject": strOf(c.S), "sql": exprs[len(exprs)/2],
				"expected": c.Qs[len(exprs)/2].Exp.canon(), "engine": got[len(exprs)/2]})
		}
		for k, q := range c.Qs {
			byFn[q.Fn]++
			exp := q.Exp.canon()
			if got[k] == exp {
				continue
			}
			sig := fmt.Sprintf("A|%s|pos%s|occ%s|ro%d|exp=%s|got=%s", q.Fn, bucket(q.Pos, "1"), bucket(q.Occ, "1"), q.Ro, kindOf(exp), kindOf(got[k]))
			for _, d := range q.Dev {
				if d.V.canon() == got[k] {
					sig = fmt.Sprintf("A|%s|dev:%s", q.Fn, d.N)
				}
			}
			bySig[sig]++
			if kept[sig] < keep {
				kept[sig]++
				one := c
				one.Qs = []Query{q}
				rep.Mismatches = append(rep.Mismatches, vio.Mismatch{Case: i, Signature: sig, Expected: []string{exp},
					Got: map[string]string{"value": got[k], "msg": msgs[k]}, Input: map[string]interface{}{"sql": exprs[k], "case": one}})
			}
		}
		return nil
	})
	if err != nil {
		vio.Fatal("%v", err)
	}
	rep.Extra["by_signature"] = bySig
	rep.Extra["by_function"] = byFn
	rep.Extra["evaluations"] = evals
	rep.Emit()
}

// ---------------------------------------------------------------- binding B

type Ev struct {
	Ev  string                 `json:"ev"`
	ID  int                    `json:"id"`
	Tag string                 `json:"tag"`
	In  map[string]interface{} `json:"in"`
	R   map[string]interface{} `json:"r,omitempty"`
	SQL map[string]string      `json:"sql,omitempty"`
}

func vN() map[string]interface{}        { return map[string]interface{}{"t": "n"} }
func vE() map[string]interface{}        { return map[string]interface{}{"t": "e"} }
func vI(i int64) map[string]interface{} { return map[string]interface{}{"t": "i", "i": i} }
func vO(s string) map[string]interface{} { return map[string]interface{}{"t": "o", "o": s} }
func cps(s string) []int {
	out := []int{}
	for _, r := range s {
		out = append(out, int(r))
	}
	return out
}
func vS(s string) map[string]interface{} { return map[string]interface{}{"t": "s", "s": cps(s)} }

func tagged(c string) map[string]interface{} {
	switch {
	case c == "N":
		return vN()
	case c == "E":
		return vE()
	case strings.HasPrefix(c, "I:"):
		n, err := strconv.ParseInt(c[2:], 10, 64)
		if err != nil || n > 2147483647 || n < -2147483647 {
			return vO(c)
		}
		return vI(n)
	case strings.HasPrefix(c, "B:"):
		b, _ := hex.DecodeString(c[2:])
		if !utf8.Valid(b) {
			return vO(c)
		}
		return vS(string(b))
	}
	return vO(c)
}

var litChars = []rune("aabbcABé ж1")
var subjChars = []rune("aaabbbcABéж1 \n")

func pick(r *rand.Rand, xs []string) string { return xs[r.Intn(len(xs))] }

// random pattern text: alternation of concatenations of (optionally quantified) atoms
func genAtom(r *rand.Rand, depth int) (string, bool) { // text, zero-width
	switch n := r.Intn(20); {
	case n < 8:
		return string(litChars[r.Intn(len(litChars))]), false
	case n < 10:
		return ".", false
	case n < 13:
		return pick(r, []string{"[ab]", "[^a]", "[a-c]", "[^ab]", "[éж]", "[[:alpha:]]"}), false
	case n < 15:
		return pick(r, []string{"\\d", "\\w", "\\s", "\\D", "\\W"}), false
	case n < 16:
		return pick(r, []string{"\\b", "^", "$"}), true
	default:
		if depth <= 0 {
			return "a", false
		}
		return pick(r, []string{"(", "(?:"}) + genAlt(r, depth-1) + ")", false
	}
}

func genCat(r *rand.Rand, depth int) string {
	var sb strings.Builder
	for i, n := 0, 1+r.Intn(3); i < n; i++ {
		a, zw := genAtom(r, depth)
		sb.WriteString(a)
		if !zw && r.Intn(5) < 2 {
			sb.WriteString(pick(r, []string{"*", "+", "?", "{1,2}", "{2}", "{0,1}", "{1,}"}))
			if r.Intn(4) == 0 {
				sb.WriteString("?")
			}
		}
	}
	return sb.String()
}

func genAlt(r *rand.Rand, depth int) string {
	s := genCat(r, depth)
	if r.Intn(4) == 0 {
		s += "|" + genCat(r, depth)
	}
	return s
}

var invalidForms = []string{"(", "a(b", ")", "a)", "(a|b", "[", "[a", "[b-a]", "*", "*a", "+a", "?a", "a{2,1}", "a\\"}

var kinds = []string{"rx", "rx", "rx", "rx", "rxbad"}

func genEvent(seed int64, id int) *Ev {
	r := rand.New(rand.NewSource(seed*1000003 + int64(id)*7919))
	k := kinds[id%len(kinds)]
	e := &Ev{Ev: "rx", ID: id, Tag: "bmp"}
	var sb strings.Builder
	for i, n := 0, r.Intn(11); i < n; i++ {
		sb.WriteRune(subjChars[r.Intn(len(subjChars))])
	}
	s := sb.String()
	pos := 1
	if r.Intn(3) == 0 {
		pos = 1 + r.Intn(len([]rune(s))+1)
	}
	if r.Intn(7) == 0 {
		rs := []rune(s)
		at := r.Intn(len(rs) + 1)
		s = string(rs[:at]) + "😀" + string(rs[at:])
		e.Tag = "astral"
		pos = 1
	}
	pat := genAlt(r, 2)
	if k == "rxbad" {
		pat = pick(r, invalidForms)
		if r.Intn(2) == 0 && !strings.ContainsAny(pat[:1], "*+?") { // a dangling quantifier must stay at the start
			pat = genCat(r, 1) + pat
		}
		e.Tag = "invalid"
	}
	mt := pick(r, []string{"", "", "", "i", "i", "c", "m", "n", "im", "in", "mn"})
	// classification only (signatures of known findings): the search starts right after the last character / the subject is empty
	edge := ""
	if n := len([]rune(s)); n == 0 {
		edge = "empty"
	} else if pos == n+1 {
		edge = "posend"
	}
	e.In = map[string]interface{}{"pat": cps(pat), "s": cps(s), "mt": mt, "pos": pos, "repl": cps(pick(r, []string{"X", "", "é-", "<>", "XY"})), "edge": edge}
	return e
}

func inStr(e *Ev, k string) string {
	switch x := e.In[k].(type) {
	case []int:
		return strOf(x)
	case []interface{}:
		c := make([]int, len(x))
		for i, y := range x {
			c[i] = int(y.(float64))
		}
		return strOf(c)
	case string:
		return x
	}
	vio.Fatal("event %d input %q missing", e.ID, k)
	return ""
}

func inInt(e *Ev, k string) int {
	switch x := e.In[k].(type) {
	case int:
		return x
	case float64:
		return int(x)
	}
	vio.Fatal("event %d input %q is not an integer", e.ID, k)
	return 0
}

type namedExpr struct{ name, sql string }

func exprsOf(e *Ev) []namedExpr {
	S, P, R := strLit(inStr(e, "s")), strLit(inStr(e, "pat")), strLit(inStr(e, "repl"))
	mt, pos := inStr(e, "mt"), inInt(e, "pos")
	M := ""
	if mt != "" {
		M = ", " + strLit(mt)
	}
	var out []namedExpr
	add := func(name, format string, a ...interface{}) { out = append(out, namedExpr{name, fmt.Sprintf(format, a...)}) }
	add("like", "REGEXP_LIKE(%s, %s%s)", S, P, M)
	for k := 1; k <= 4; k++ {
		add(fmt.Sprintf("i0_%d", k), "REGEXP_INSTR(%s, %s, %d, %d, 0%s)", S, P, pos, k, M)
		add(fmt.Sprintf("i1_%d", k), "REGEXP_INSTR(%s, %s, %d, %d, 1%s)", S, P, pos, k, M)
		add(fmt.Sprintf("sub_%d", k), "REGEXP_SUBSTR(%s, %s, %d, %d%s)", S, P, pos, k, M)
	}
	add("rall", "REGEXP_REPLACE(%s, %s, %s, %d, 0%s)", S, P, R, pos, M)
	for k := 1; k <= 3; k++ {
		add(fmt.Sprintf("r_%d", k), "REGEXP_REPLACE(%s, %s, %s, %d, %d%s)", S, P, R, pos, k, M)
	}
	if strings.Contains(mt, "i") {
		add("like_u", "REGEXP_LIKE(UPPER(%s), %s%s)", S, P, M)
		add("like_l", "REGEXP_LIKE(LOWER(%s), %s%s)", S, P, M)
	}
	if mt == "" {
		add("like_c", "REGEXP_LIKE(%s, %s, 'c')", S, P)
	}
	return out
}

func (x *sess) record(e *Ev) {
	ne := exprsOf(e)
	qs := make([]string, len(ne))
	for i, n := range ne {
		qs[i] = n.sql
	}
	got, _ := x.each(qs)
	e.R = map[string]interface{}{}
	e.SQL = map[string]string{}
	for i, n := range ne {
		e.R[n.name] = tagged(got[i])
		e.SQL[n.name] = n.sql
	}
}

func gen(seed int64, n int, only map[int]bool, out string) {
	x := newSess()
	w, err := vio.NewWriter(out)
	if err != nil {
		vio.Fatal("%v", err)
	}
	rep := &vio.Report{Extra: map[string]interface{}{}}
	byTag := map[string]int{}
	for id := 1; id <= n; id++ {
		if only != nil && !only[id] {
			continue
		}
		e := genEvent(seed, id)
		x.record(e)
		w.Write(e)
		rep.Cases++
		byTag[e.Tag]++
		if len(rep.Samples) < 3 && id%7 == 3 {
			rep.Samples = append(rep.Samples, map[string]interface{}{"pattern": inStr(e, "pat"), "subject": inStr(e, "s"), "in": e.In, "r": e.R})
		}
	}
	w.Close()
	rep.Extra["by_tag"] = byTag
	rep.Emit()
}

func execEvents(in, out string) {
	x := newSess()
	w, err := vio.NewWriter(out)
	if err != nil {
		vio.Fatal("%v", err)
	}
	rep := &vio.Report{Extra: map[string]interface{}{}}
	if err := vio.ReadNDJSON(in, func(i int, line []byte) error {
		var e Ev
		if err := json.Unmarshal(line, &e); err != nil {
			return err
		}
		x.record(&e)
		w.Write(&e)
		rep.Cases++
		return nil
	}); err != nil {
		vio.Fatal("%v", err)
	}
	w.Close()
	rep.Emit()
}

func main() {
	if len(os.Args) < 2 {
		vio.Fatal("usage: c33 replay|gen|exec ...")
	}
	fs := flag.NewFlagSet(os.Args[1], flag.ExitOnError)
	file := fs.String("file", "", "cases (replay)")
	keep := fs.Int("keep", 4, "mismatches kept per signature (replay)")
	seed := fs.Int64("seed", 1, "seed (gen)")
	n := fs.Int("n", 100, "events (gen)")
	onlyS := fs.String("only", "", "comma separated event ids (gen)")
	in := fs.String("in", "", "input events (exec)")
	out := fs.String("out", "", "output trace (gen, exec)")
	fs.Parse(os.Args[2:])
	switch os.Args[1] {
	case "replay":
		replay(*file, *keep)
	case "gen":
		var only map[int]bool
		if *onlyS != "" {
			only = map[int]bool{}
			for _, s := range strings.Split(*onlyS, ",") {
				id, err := strconv.Atoi(s)
				if err != nil {
					vio.Fatal("bad id %q", s)
				}
				only[id] = true
			}
		}
		gen(*seed, *n, only, *out)
	case "exec":
		execEvents(*in, *out)
	default:
		vio.Fatal("unknown mode %q", os.Args[1])
	}
}
